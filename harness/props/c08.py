"""C08 — type inference returns only well-typed, fully determined terms.

Stages: (1) Lean obligations (Holpy.C08.Props) + driver; (2) generated skeletons -> the real
`syntax.infertype.type_infer` (the entry point the parser uses, on Term objects whose missing types
are None) under a 5 s alarm; (3) property oracle on the implementation's own result (type-checks,
shape, annotations, declared types, one type per name, constants at instances, no `_tN`), an
independent textbook unifier that says typable / under-determined / untypable, and exact recovery
for erasures of generated well-typed terms; (4) correspondence with the Lean model.
"""
import itertools
import json
import os

from harness.common import sexp
from harness.common.ctx import Timeout, time_limit

EXE = "c08_model"
FUEL = 100000
THEORY = "real"          # imports logic, nat, int, set, list, function


# ====================================================================== tuple forms
# Type: ('tv', n) | ('sv', n) | ('c', n, (args...));  Term: ('svar', n, T|None) ('var', n, T|None)
# ('const', n, T|None) ('comb', f, a) ('abs', n, T|None, b) ('bound', i)
def ty_tup(T):
    if T is None:
        return None
    if T.is_stvar():
        return ("sv", T.name)
    if T.is_tvar():
        return ("tv", T.name)
    return ("c", T.name, tuple(ty_tup(a) for a in T.args))


def tm_tup(t):
    if t.is_svar():
        return ("svar", t.name, ty_tup(t.T))
    if t.is_var():
        return ("var", t.name, ty_tup(t.T))
    if t.is_const():
        return ("const", t.name, ty_tup(t.T))
    if t.is_comb():
        return ("comb", tm_tup(t.fun), tm_tup(t.arg))
    if t.is_abs():
        return ("abs", t.var_name, ty_tup(t.var_T), tm_tup(t.body))
    return ("bound", t.n)


def ty_obj(T):
    from kernel.type import STVar, TVar, TConst
    if T is None:
        return None
    if T[0] == "sv":
        return STVar(T[1])
    if T[0] == "tv":
        return TVar(T[1])
    return TConst(T[1], *[ty_obj(a) for a in T[2]])


def tm_obj(t):
    from kernel.term import SVar, Var, Const, Comb, Abs, Bound
    k = t[0]
    if k == "svar":
        return SVar(t[1], ty_obj(t[2]))
    if k == "var":
        return Var(t[1], ty_obj(t[2]))
    if k == "const":
        return Const(t[1], ty_obj(t[2]))
    if k == "comb":
        return Comb(tm_obj(t[1]), tm_obj(t[2]))
    if k == "abs":
        return Abs(t[1], ty_obj(t[2]), tm_obj(t[3]))
    return Bound(t[1])


def from_json(x):
    """lists (from a replay file) back to tuples"""
    if isinstance(x, list):
        return tuple(from_json(y) for y in x)
    return x


def ty_str(T):
    if T is None:
        return "_"
    if T[0] == "sv":
        return "?'" + T[1]
    if T[0] == "tv":
        return "'" + T[1]
    if T[1] == "fun" and len(T[2]) == 2:
        return "(%s => %s)" % (ty_str(T[2][0]), ty_str(T[2][1]))
    if not T[2]:
        return T[1]
    return "(%s) %s" % (", ".join(ty_str(a) for a in T[2]), T[1])


def tm_str(t):
    k = t[0]
    if k in ("var", "svar", "const"):
        pre = "?" if k == "svar" else ("" if k == "var" else "#")
        return pre + t[1] + ("" if t[2] is None else "::" + ty_str(t[2]))
    if k == "comb":
        return "(%s %s)" % (tm_str(t[1]), tm_str(t[2]))
    if k == "abs":
        return "(%%%s%s. %s)" % (t[1], "" if t[2] is None else "::" + ty_str(t[2]), tm_str(t[3]))
    return "B%d" % t[1]


def shape(t):
    k = t[0]
    if k in ("var", "svar", "const"):
        return (k, t[1])
    if k == "comb":
        return (k, shape(t[1]), shape(t[2]))
    if k == "abs":
        return (k, t[1], shape(t[3]))
    return t


def ty_stvars(T, acc):
    if T[0] == "sv":
        acc.add(T[1])
    elif T[0] == "c":
        for a in T[2]:
            ty_stvars(a, acc)
    return acc


def is_internal_name(n):
    return n.startswith("_t")


def walk2(s, r, f):
    """parallel walk of skeleton s and result r of the same shape; f(kind, name, sT, rT)"""
    k = s[0]
    if k in ("var", "svar", "const"):
        f(k, s[1], s[2], r[2])
    elif k == "comb":
        walk2(s[1], r[1], f)
        walk2(s[2], r[2], f)
    elif k == "abs":
        f("abs", s[1], s[2], r[2])
        walk2(s[3], r[3], f)


def size(t):
    k = t[0]
    if k == "comb":
        return 1 + size(t[1]) + size(t[2])
    if k == "abs":
        return 1 + size(t[3])
    return 1


# ====================================================================== wire
def s_ty(T):
    if T is None:
        return "none"
    if T[0] == "sv":
        return ["sv", sexp.enc(T[1])]
    if T[0] == "tv":
        return ["tv", sexp.enc(T[1])]
    return ["c", sexp.enc(T[1])] + [s_ty(a) for a in T[2]]


def s_tm(t):
    k = t[0]
    if k in ("var", "svar", "const"):
        return [k, sexp.enc(t[1]), s_ty(t[2])]
    if k == "comb":
        return ["comb", s_tm(t[1]), s_tm(t[2])]
    if k == "abs":
        return ["abs", sexp.enc(t[1]), s_ty(t[2]), s_tm(t[3])]
    return ["bound", t[1]]


def p_ty(x):
    if x == "none":
        return None
    if x[0] == "sv":
        return ("sv", sexp.dec(x[1]))
    if x[0] == "tv":
        return ("tv", sexp.dec(x[1]))
    return ("c", sexp.dec(x[1]), tuple(p_ty(a) for a in x[2:]))


def p_tm(x):
    k = x[0]
    if k in ("var", "svar", "const"):
        return (k, sexp.dec(x[1]), p_ty(x[2]))
    if k == "comb":
        return ("comb", p_tm(x[1]), p_tm(x[2]))
    if k == "abs":
        return ("abs", sexp.dec(x[1]), p_ty(x[2]), p_tm(x[3]))
    return ("bound", int(x[1]))


def consts_of(t, acc):
    k = t[0]
    if k == "const":
        acc.add(t[1])
    elif k == "comb":
        consts_of(t[1], acc)
        consts_of(t[2], acc)
    elif k == "abs":
        consts_of(t[3], acc)
    return acc


def request_line(case, sig):
    names = sorted(consts_of(case["skel"], set()))
    return sexp.dumps(["infer", bool(case["forbid"]), FUEL,
                       [[sexp.enc(n), s_ty(T)] for n, T in sorted(case["vars"].items())],
                       [[sexp.enc(n), s_ty(T)] for n, T in sorted(case["svars"].items())],
                       [[sexp.enc(n), s_ty(T)] for n, T in sorted(case.get("defs", {}).items())],
                       [[sexp.enc(n), s_ty(sig[n])] for n in names if n in sig],
                       s_tm(case["skel"])])


def parse_model(line):
    x = sexp.loads(line)
    if x == "bad-op":
        return ("bad-op",)
    if x[0] == "ok":
        return ("ok", p_tm(x[1]))
    if x[0] == "error":
        return ("error", x[1])
    return ("?", line)


# ====================================================================== implementation side
def classify_exc(e):
    """'tie:<kind>' for type_infer's own TypeInferenceException, 'noconst' for TheoryException, 'crash:<Class>'
    otherwise.  Only the part before the colon (the exception CLASS) is ever used to judge or to compare with the
    model; <kind> is read off the message text and feeds the histogram only, so rewording a message changes nothing."""
    n = type(e).__name__
    if n == "TypeInferenceException":
        msg = str(getattr(e, "err", ""))
        if msg.startswith("Infinite loop"):
            return "tie:occurs"
        if msg.startswith("Unable to unify"):
            return "tie:clash"
        if "is not of function type" in msg.split("\n")[0]:
            return "tie:notfun"
        if msg.startswith("Unspecified type"):
            return "tie:unspecified"
        if "reserved" in msg.split("\n")[0]:
            return "tie:reserved"
        return "tie:other"
    if n == "TheoryException":
        return "noconst"
    return "crash:" + n


def err_class(cls):
    return cls.split(":")[0]


def is_own_error(cls):
    return err_class(cls) in ("tie", "noconst")


MODEL_TIE = {"occurs", "clash", "notfun", "unspecified", "reserved"}


def run_impl(case, limit, live=False, escape=None):
    """Runs the real type_infer on a fresh Term built from case['skel'].
    Returns ('ok', tuple term, checked type or ('illtyped', msg)) | ('error', cls) | ('timeout',).
    live=True: do not touch the global context (the caller has set it up through the context API).
    escape: a list; when the call raises, the exception object is appended to it so that the caller can re-raise
    it (an exception that leaves a `with` block)."""
    from logic import context
    from syntax import infertype
    from kernel.term import TypeCheckException
    t = tm_obj(case["skel"])
    old = context.ctxt
    if not live:
        context.ctxt = context.Context(vars={n: ty_obj(T) for n, T in case["vars"].items()},
                                       svars={n: ty_obj(T) for n, T in case["svars"].items()},
                                       defs={n: ty_obj(T) for n, T in case.get("defs", {}).items()})
    try:
        with time_limit(limit):
            if case["forbid"]:
                r = infertype.type_infer(t)           # exactly the parser's call
            else:
                r = infertype.type_infer(t, forbid_internal=False)
    except Timeout:
        return ("timeout",)
    except RecursionError:
        return ("error", "crash:RecursionError")
    except MemoryError:
        return ("error", "crash:MemoryError")
    except Exception as e:  # noqa
        if escape is not None:
            escape.append(e)
        return ("error", classify_exc(e))
    finally:
        if not live:
            context.ctxt = old
    try:
        rt = tm_tup(r)
    except Exception as e:  # noqa
        return ("error", "crash:result-not-a-term:" + type(e).__name__)
    try:
        cT = ty_tup(r.checked_get_type())
    except TypeCheckException as e:
        cT = ("illtyped", str(e))
    except Exception as e:  # noqa
        cT = ("illtyped", type(e).__name__)
    return ("ok", rt, cT)


def ty_reserved(T):
    """does the type use a schematic type variable whose name starts with _t (reserved by infertype.is_internal_type)"""
    if T is None:
        return False
    if T[0] == "sv":
        return T[1].startswith("_t")
    return T[0] == "c" and any(ty_reserved(a) for a in T[2])


def has_reserved_name(case):
    def tm(t):
        k = t[0]
        if k in ("var", "svar", "const"):
            return ty_reserved(t[2])
        if k == "comb":
            return tm(t[1]) or tm(t[2])
        if k == "abs":
            return ty_reserved(t[2]) or tm(t[3])
        return False
    return tm(case["skel"]) or any(ty_reserved(T) for d in ("vars", "svars", "defs") for T in case.get(d, {}).values())


def head_const(t):
    while t[0] == "comb":
        t = t[1]
    return t if t[0] == "const" else None


def set_head(t, T):
    if t[0] == "comb":
        return ("comb", set_head(t[1], T), t[2])
    return ("const", t[1], T)


def apply_defs(skel, defs, given=lambda T: T):
    """what type_infer does first when a definition is parsed (context.ctxt.defs non-empty, term `lhs = rhs`):
    the head constant of lhs, if it has no type yet, gets the type declared for it"""
    if not defs:
        return skel
    if skel[0] == "comb" and skel[1][0] == "comb" and skel[1][1][0] == "const" and skel[1][1][1] == "equals":
        lhs = skel[1][2]
        h = head_const(lhs)
        if h is not None and h[2] is None and h[1] in defs:
            return ("comb", ("comb", skel[1][1], set_head(lhs, given(defs[h[1]]))), skel[2])
    return skel


# ====================================================================== reference unifier (independent of holpy)
class Untypable(Exception):
    pass


def ref_infer(case, sig):
    """Textbook inference over tuple forms with metavariables ('m', k).
    Returns ('ok', term) | ('under', term with metas) | ('untypable', why)."""
    sub = {}
    cnt = [0]

    def fresh():
        cnt[0] += 1
        return ("m", cnt[0])

    def walk(T):
        while T[0] == "m" and T[1] in sub:
            T = sub[T[1]]
        return T

    def occurs(k, T):
        T = walk(T)
        if T[0] == "m":
            return T[1] == k
        if T[0] == "c":
            return any(occurs(k, a) for a in T[2])
        return False

    def unify(A, B):
        A, B = walk(A), walk(B)
        if A == B:
            return
        if A[0] == "m":
            if occurs(A[1], B):
                raise Untypable("occurs")
            sub[A[1]] = B
        elif B[0] == "m":
            unify(B, A)
        elif A[0] == "c" and B[0] == "c" and A[1] == B[1] and len(A[2]) == len(B[2]):
            for x, y in zip(A[2], B[2]):
                unify(x, y)
        else:
            raise Untypable("clash")

    def inst_sig(T, m):
        if T[0] == "tv":
            if T[1] not in m:
                m[T[1]] = fresh()
            return m[T[1]]
        if T[0] == "sv":
            raise Untypable("stvar in signature")
        return ("c", T[1], tuple(inst_sig(a, m) for a in T[2]))

    vty, svty = {}, {}
    defs = case.get("defs", {})

    def given(T):
        if ty_reserved(T):
            raise Untypable("reserved")
        return T

    def inst_def(T, m):
        """the declared type of the constant being defined: its schematic type variables are instantiated"""
        if T[0] == "sv":
            if T[1] not in m:
                m[T[1]] = fresh()
            return m[T[1]]
        if T[0] == "c":
            return ("c", T[1], tuple(inst_def(a, m) for a in T[2]))
        return T

    def go(t, bd):
        k = t[0]
        if k in ("var", "svar"):
            if t[2] is not None:
                return (k, t[1], given(t[2])), t[2]
            decl = case["vars"] if k == "var" else case["svars"]
            inc = vty if k == "var" else svty
            if t[1] in decl:
                T = given(decl[t[1]])
            else:
                if t[1] not in inc:
                    inc[t[1]] = fresh()
                T = inc[t[1]]
            return (k, t[1], T), T
        if k == "const":
            if t[2] is not None:
                return t, given(t[2])
            if t[1] in sig:
                T = inst_sig(sig[t[1]], {})
            elif t[1] in defs:
                T = inst_def(given(defs[t[1]]), {})
            else:
                raise Untypable("noconst")
            return ("const", t[1], T), T
        if k == "comb":
            f, fT = go(t[1], bd)
            a, aT = go(t[2], bd)
            r = fresh()
            unify(fT, ("c", "fun", (aT, r)))
            return ("comb", f, a), r
        if k == "abs":
            T = given(t[2]) if t[2] is not None else fresh()
            b, bT = go(t[3], [T] + bd)
            return ("abs", t[1], T, b), ("c", "fun", (T, bT))
        if t[1] >= len(bd):
            raise Untypable("open")
        return t, bd[t[1]]

    def resolve(T):
        T = walk(T)
        if T[0] == "c":
            return ("c", T[1], tuple(resolve(a) for a in T[2]))
        return T

    def has_meta(T):
        return T[0] == "m" or (T[0] == "c" and any(has_meta(a) for a in T[2]))

    def fin(t):
        k = t[0]
        if k in ("var", "svar", "const"):
            return (k, t[1], resolve(t[2]))
        if k == "comb":
            return ("comb", fin(t[1]), fin(t[2]))
        if k == "abs":
            return ("abs", t[1], resolve(t[2]), fin(t[3]))
        return t

    def any_meta(t):
        k = t[0]
        if k in ("var", "svar", "const"):
            return has_meta(t[2])
        if k == "comb":
            return any_meta(t[1]) or any_meta(t[2])
        if k == "abs":
            return has_meta(t[2]) or any_meta(t[3])
        return False

    try:
        tt, _ = go(apply_defs(case["skel"], defs, given), [])
    except Untypable as e:
        return ("untypable", str(e))
    except RecursionError:
        return ("unknown", "recursion")
    r = fin(tt)
    # holpy reports "Unspecified type" when ANY created type variable stays free, including the
    # result variable of an application that occurs in no annotation; metas are created in the
    # same places here (one per missing annotation / signature variable / application).
    unresolved = any(walk(("m", i))[0] == "m" for i in range(1, cnt[0] + 1))
    if any_meta(r) or unresolved:
        return ("under", r)
    return ("ok", r)


# ====================================================================== generator of well-typed terms
class TermGen:
    def __init__(self, rng, sig):
        from kernel.type import TVar, STVar, TConst, TFun
        self.rng = rng
        self.sig = sig                      # name -> tuple type (with 'tv')
        self.names = sorted(sig)
        self.base = [("c", "bool", ()), ("c", "nat", ()), ("c", "int", ()), ("c", "real", ()),
                     ("tv", "a"), ("tv", "b"), ("sv", "a"), ("sv", "b"), ("c", "bool", ()), ("c", "nat", ()),
                     ("tv", "a"), ("sv", "a")]
        if rng.random() < 0.15:
            self.base.append(("tv", "_t0"))     # a TVar whose name looks like an internal STVar
        self.strip = {}
        for n in self.names:
            T = sig[n]
            pre = []
            self.strip[n] = [((), T)]
            while T[0] == "c" and T[1] == "fun":
                pre.append(T[2][0])
                T = T[2][1]
                self.strip[n].append((tuple(pre), T))

    def rtype(self, d=2):
        r = self.rng.random()
        if d == 0 or r < 0.55:
            return self.rng.choice(self.base)
        if r < 0.68:
            return ("c", "list", (self.rtype(d - 1),))
        if r < 0.8:
            return ("c", "set", (self.rtype(d - 1),))
        return ("c", "fun", (self.rtype(d - 1), self.rtype(d - 1)))

    @staticmethod
    def match(P, T, m):
        """match signature type P (tv = pattern variable) against T"""
        if P[0] == "tv":
            if P[1] in m:
                return m[P[1]] == T
            m[P[1]] = T
            return True
        if P[0] != T[0] or P[1] != T[1]:
            return False
        if P[0] == "c":
            if len(P[2]) != len(T[2]):
                return False
            return all(TermGen.match(x, y, m) for x, y in zip(P[2], T[2]))
        return True

    @staticmethod
    def inst(P, m):
        if P[0] == "tv":
            return m[P[1]]
        if P[0] == "c":
            return ("c", P[1], tuple(TermGen.inst(a, m) for a in P[2]))
        return P

    def tvs(self, P, acc):
        if P[0] == "tv":
            acc.add(P[1])
        elif P[0] == "c":
            for a in P[2]:
                self.tvs(a, acc)
        return acc

    def new_term(self, depth):
        self.vars, self.svars = {}, {}
        self.nv = 0
        T = self.rng.choice([("c", "bool", ())] * 3 + [self.rtype(2)])
        return self.gen(T, [], depth)

    def var_of(self, T):
        rng = self.rng
        if rng.random() < 0.2:
            pool, kind, pre = self.svars, "svar", "s"
        else:
            pool, kind, pre = self.vars, "var", "v"
        same = [n for n, U in pool.items() if U == T]
        if same and rng.random() < 0.75:
            return (kind, rng.choice(same), T)
        self.nv += 1
        n = "v%d" % self.rng.randint(1, self.nv)        # may coincide with a name of the other kind
        while n in pool:
            self.nv += 1
            n = "v%d" % self.nv
        pool[n] = T
        return (kind, n, T)

    def leaf(self, T, bd):
        rng = self.rng
        opts = []
        bs = [i for i, U in enumerate(bd) if U == T]
        if bs:
            opts += ["bound"] * 3
        cs = self.const_choices(T, 0)
        if cs:
            opts += ["const"] * 2
        opts += ["var"] * 2
        o = rng.choice(opts)
        if o == "bound":
            return ("bound", rng.choice(bs))
        if o == "const":
            n, m = rng.choice(cs)
            return ("const", n, self.inst(self.sig[n], self.fill(self.sig[n], m)))
        return self.var_of(T)

    def fill(self, P, m):
        m = dict(m)
        for v in sorted(self.tvs(P, set())):
            if v not in m:
                m[v] = self.rtype(1)
        return m

    def const_choices(self, T, nargs):
        out = []
        for n in self.names:
            st = self.strip[n]
            if nargs < len(st):
                m = {}
                if self.match(st[nargs][1], T, m):
                    out.append((n, m))
        return out

    def gen(self, T, bd, depth):
        rng = self.rng
        if depth <= 0:
            return self.leaf(T, bd)
        r = rng.random()
        if T[0] == "c" and T[1] == "fun" and r < 0.5:
            return ("abs", rng.choice("xyzuw"), T[2][0], self.gen(T[2][1], [T[2][0]] + bd, depth - 1))
        if r < 0.15:
            return self.leaf(T, bd)
        if r < 0.72:
            nargs = rng.choice([1, 1, 2, 2, 2, 3])
            cs = self.const_choices(T, nargs)
            if cs:
                n, m = rng.choice(cs)
                m = self.fill(self.sig[n], m)
                cT = self.inst(self.sig[n], m)
                t = ("const", n, cT)
                for A in self.strip[n][nargs][0]:
                    t = ("comb", t, self.gen(self.inst(A, m), bd, depth - 1))
                return t
        if r < 0.9:
            # application of a (higher-order) variable or bound variable or lambda
            A = self.rtype(1)
            fT = ("c", "fun", (A, T))
            q = rng.random()
            if q < 0.2:
                f = self.gen(fT, bd, depth - 1)
            else:
                f = self.leaf(fT, bd) if q < 0.5 else self.var_of(fT)
            return ("comb", f, self.gen(A, bd, depth - 1))
        return self.leaf(T, bd)


def erase(t, rng, pv, pb, pc):
    """drop variable / binder / constant types with the given probabilities"""
    k = t[0]
    if k in ("var", "svar"):
        return (k, t[1], None if rng.random() < pv else t[2])
    if k == "const":
        return (k, t[1], None if rng.random() < pc else t[2])
    if k == "comb":
        return ("comb", erase(t[1], rng, pv, pb, pc), erase(t[2], rng, pv, pb, pc))
    if k == "abs":
        return ("abs", t[1], None if rng.random() < pb else t[2], erase(t[3], rng, pv, pb, pc))
    return t


def gen_erasures(rng, sig, n, depth_max):
    g = TermGen(rng, sig)
    out = []
    for _ in range(n):
        orig = g.new_term(rng.randint(1, depth_max))
        vars_, svars = dict(g.vars), dict(g.svars)
        levels = [("vars", 1, 0, 0), ("binders", 0, 1, 0), ("consts", 0, 0, 1), ("all", 1, 1, 1),
                  ("vars+binders", 1, 1, 0), ("random", 0.5, 0.5, 0.5)]
        for name, pv, pb, pc in levels:
            sk = erase(orig, rng, pv, pb, pc)
            declared = True
            dv, ds = vars_, svars
            if name in ("all", "random", "consts") and rng.random() < 0.35:
                # some variables not declared: inference must determine them or say under-determined
                dv = {k: v for k, v in vars_.items() if rng.random() < 0.5}
                ds = {k: v for k, v in svars.items() if rng.random() < 0.5}
                declared = (dv == vars_ and ds == svars)
            out.append({"kind": "erasure:" + name, "orig": orig, "skel": sk, "vars": dv, "svars": ds,
                        "forbid": True, "declared": declared,
                        "must_recover": declared and name in ("vars",)})
    return out


# ====================================================================== ill-typed / adversarial skeletons
def V(n):
    return ("var", n, None)


def C(n, T=None):
    return ("const", n, T)


def app(f, *args):
    for a in args:
        f = ("comb", f, a)
    return f


BOOL = ("c", "bool", ())
NAT = ("c", "nat", ())


def fun(*ts):
    r = ts[-1]
    for a in reversed(ts[:-1]):
        r = ("c", "fun", (a, r))
    return r


CONJ = ("const", "conj", fun(BOOL, BOOL, BOOL))


def conj(ts):
    r = ts[-1]
    for s in reversed(ts[:-1]):
        r = app(CONJ, s, r)
    return r


def cycle_atoms(n, style):
    """atoms whose conjunction forces v0 -> v1 -> ... -> v(n-1) -> v0 (a cyclic type)"""
    vs = ["c%d" % i for i in range(n)]
    atoms = []
    for i in range(n):
        a, b = V(vs[i]), V(vs[(i + 1) % n])
        if style == "app":                 # a b  : bool
            atoms.append(app(a, b))
        elif style == "eq-cons":           # a = [b]
            atoms.append(app(C("equals"), a, app(C("cons"), b, C("nil"))))
        elif style == "eq-cons-flip":      # [b] = a
            atoms.append(app(C("equals"), app(C("cons"), b, C("nil")), a))
        elif style == "mem":               # b ∈ a   (a : b set)
            atoms.append(app(C("member"), b, a))
        elif style == "lam":               # a = (%u. b)
            atoms.append(app(C("equals"), a, ("abs", "u", None, b)))
        elif style == "app-eq":            # a b = (0::nat)
            atoms.append(app(C("equals"), app(a, b), C("zero", NAT)))
    return atoms


def gen_cycles(rng, thorough):
    out = []
    styles = ["app", "eq-cons", "eq-cons-flip", "mem", "lam", "app-eq"]
    for n in (1, 2, 3, 4):
        for style in styles:
            atoms = cycle_atoms(n, style)
            perms = list(itertools.permutations(range(n)))
            if not thorough and len(perms) > 6:
                perms = rng.sample(perms, 6)
            for p in perms:
                for closed in (True, False):
                    sel = [atoms[i] for i in p]
                    if not closed:
                        if n == 1:
                            continue
                        sel = [a for i, a in zip(p, sel) if i != n - 1]   # open chain: typable
                    out.append({"kind": "cycle:%s:%d:%s" % (style, n, "closed" if closed else "open"),
                                "skel": conj(sel), "vars": {}, "svars": {}, "forbid": True})
    # mixed styles and cycles that close through a shared extra variable
    for _ in range(200 if thorough else 40):
        n = rng.randint(2, 4)
        vs = ["c%d" % i for i in range(n)]
        atoms = []
        for i in range(n):
            style = rng.choice(styles)
            a, b = V(vs[i]), V(vs[(i + 1) % n])
            one = cycle_atoms(2, style)[0]
            ren = {"c0": vs[i], "c1": vs[(i + 1) % n]}
            atoms.append(rename(one, ren))
        for _ in range(rng.randint(0, 2)):        # aliasing equations between cycle members
            i, j = rng.randrange(n), rng.randrange(n)
            atoms.append(app(C("equals"), V(vs[i]), V("d%d" % j)))
            atoms.append(app(C("equals"), V("d%d" % j), V(vs[j])))
        rng.shuffle(atoms)
        out.append({"kind": "cycle:mixed:%d" % n, "skel": conj(atoms), "vars": {}, "svars": {}, "forbid": True})
    return out


def rename(t, ren):
    k = t[0]
    if k == "var":
        return ("var", ren.get(t[1], t[1]), t[2])
    if k == "comb":
        return ("comb", rename(t[1], ren), rename(t[2], ren))
    if k == "abs":
        return ("abs", t[1], t[2], rename(t[3], ren))
    return t


def gen_handmade():
    INT = ("c", "int", ())
    x, y, z, f = V("x"), V("y"), V("z"), V("f")
    one, zero = C("one"), C("zero")
    cases = [
        ("clash:nat-vs-bool", conj([app(C("equals"), app(C("plus"), x, C("one", NAT)), y), x]), {}),
        ("clash:fun-vs-arg", conj([app(f, x), app(C("equals"), f, x)]), {}),
        ("clash:arity", conj([app(f, x), app(f, x, y)]), {}),
        ("clash:declared", app(C("equals"), x, C("zero", NAT)), {"x": BOOL}),
        ("clash:declared-fun", app(x, y), {"x": NAT}),
        ("clash:annot", app(C("equals"), ("var", "x", NAT), ("var", "y", INT)), {}),
        ("clash:two-annots-one-name", conj([app(C("equals"), ("var", "x", NAT), y), x]), {}),
        ("clash:tvar-rigid", app(C("equals"), ("var", "x", ("tv", "a")), ("var", "y", ("tv", "b"))), {}),
        ("clash:stvar-rigid", app(C("equals"), ("var", "x", ("sv", "a")), C("zero", NAT)), {}),
        ("argcount:neg2", app(C("neg"), x, y), {}),
        ("argcount:true1", app(C("true"), x), {}),
        ("argcount:conj3", app(C("conj"), x, y, z), {}),
        ("argcount:suc2", app(C("Suc"), x, y), {}),
        ("argcount:tvar-fun", app(("var", "g", ("tv", "a")), x), {}),
        ("argcount:stvar-fun", app(("var", "g", ("sv", "a")), x), {}),
        ("noconst", app(C("no_such_constant"), x), {}),
        ("under:nil", C("nil"), {}),
        ("under:eq", ("abs", "x", None, ("abs", "y", None, app(C("equals"), ("bound", 1), ("bound", 0)))), {}),
        ("under:res", app(f, C("zero", NAT)), {}),
        ("ok:self-app-typed", app(("var", "x", fun(NAT, NAT)), ("var", "x", NAT)), {}),
        ("ok:poly-twice", conj([app(C("equals"), C("nil"), ("var", "l", ("c", "list", (NAT,)))),
                                app(C("equals"), C("nil"), ("var", "m", ("c", "list", (BOOL,))))]), {}),
        ("ok:overload", conj([app(C("less"), app(C("plus"), ("var", "a", NAT), one), app(C("of_nat"), ("var", "a", NAT))),
                              app(C("less"), app(C("times"), ("var", "r", ("c", "real", ())), one), zero),
                              app(C("less"), app(C("uminus"), ("var", "i", INT)), zero)]), {}),
        ("arity:type-args-more", app(C("equals"), ("var", "y", ("c", "list", (NAT,))), ("var", "x", ("c", "list", (NAT, NAT)))), {}),
        ("arity:type-args-fewer", app(C("equals"), ("var", "x", ("c", "list", (NAT, NAT))), ("var", "y", ("c", "list", (NAT,)))), {}),
        ("arity:through-var", conj([app(C("equals"), x, ("var", "y", ("c", "list", (NAT,)))),
                                    app(C("equals"), x, ("var", "z", ("c", "list", (NAT, BOOL))))]), {}),
    ]
    out = [{"kind": "hand:" + k, "skel": t, "vars": v, "svars": {}, "forbid": True} for k, t, v in cases]
    TA, SA = ("tv", "a"), ("sv", "a")
    LST = lambda T: ("c", "list", (T,))
    T0 = ("tv", "_t0")
    eq = lambda a, b: app(C("equals"), a, b)
    sx = ("svar", "x", None)
    mixed = [
        # 'a and ?'a are different types
        ("tvsv:declared", eq(("svar", "s", None), V("a")), {"a": TA}, {"s": SA}),
        ("tvsv:declared-flip", eq(V("a"), ("svar", "s", None)), {"a": TA}, {"s": SA}),
        ("tvsv:annot", eq(("var", "x", TA), ("var", "y", SA)), {}, {}),
        ("tvsv:annot-flip", eq(("var", "x", SA), ("var", "y", TA)), {}, {}),
        ("tvsv:nested", eq(("var", "x", LST(TA)), ("var", "y", LST(SA))), {}, {}),
        ("tvsv:fun-arg", app(("var", "f", fun(TA, BOOL)), ("var", "y", SA)), {}, {}),
        ("tvsv:fun-arg-flip", app(("var", "f", fun(SA, BOOL)), ("var", "y", TA)), {}, {}),
        ("tvsv:through-var", conj([eq(x, ("var", "p", TA)), eq(x, ("var", "q", SA))]), {}, {}),
        ("tvsv:through-const", eq(app(C("cons"), ("var", "p", TA), C("nil")), ("var", "l", LST(SA))), {}, {}),
        ("tvsv:binder", app(("abs", "u", TA, ("bound", 0)), ("var", "q", SA)), {}, {}),
        ("tvsv:ok-side-by-side", conj([eq(("var", "p", TA), x), eq(("var", "q", SA), y)]), {}, {}),
        ("tvsv:ok-declared", conj([eq(("svar", "s", None), ("svar", "s2", SA)), eq(V("a"), ("var", "a2", TA))]), {"a": TA}, {"s": SA}),
        ("tvsv:ok-pair", eq(app(C("cons"), ("var", "p", TA), C("nil")), ("var", "l", LST(TA))), {}, {}),
        # a TVar called _t0 is an ordinary rigid type variable, not type_infer's internal ?'_t0
        ("tv-internal-name:ok", eq(x, ("var", "y", T0)), {}, {}),
        ("tv-internal-name:ok-flip", eq(("var", "y", T0), x), {}, {}),
        ("tv-internal-name:clash", eq(("var", "y", T0), C("zero", NAT)), {}, {}),
        ("tv-internal-name:declared", conj([eq(x, V("d")), eq(x, C("zero", NAT))]), {"d": T0}, {}),
        ("tv-internal-name:ok-declared", eq(x, V("d")), {"d": LST(T0)}, {}),
        # x and ?x are different variables
        ("var-svar:undeclared", conj([eq(sx, C("zero", NAT)), x]), {}, {}),
        ("var-svar:declared-clash", eq(sx, x), {"x": BOOL}, {"x": NAT}),
        ("var-svar:declared-ok", conj([x, eq(sx, C("zero", NAT))]), {"x": BOOL}, {"x": NAT}),
        ("var-svar:only-var-declared", conj([x, eq(sx, C("zero", NAT))]), {"x": BOOL}, {}),
        ("var-svar:only-svar-declared", conj([x, eq(sx, C("zero", NAT))]), {}, {"x": NAT}),
        ("var-svar:svar-declared-var-used-otherwise", eq(x, C("nil", LST(BOOL))), {}, {"x": NAT}),
    ]
    out += [{"kind": "hand:" + k, "skel": t, "vars": v, "svars": sv, "forbid": True} for k, t, v, sv in mixed]
    return out


def gen_random_skeletons(rng, sig, n):
    """untyped skeletons over a small variable pool: mostly ill-typed, many occurs-check failures"""
    names = ["equals", "conj", "neg", "plus", "zero", "one", "cons", "nil", "member", "empty_set", "all", "exists",
             "IF", "comp_fun", "fun_upd", "image", "Suc", "of_nat", "less", "append", "insert", "union", "The"]
    names = [c for c in names if c in sig]
    anns = [None, None, None, None, None, None, BOOL, NAT, fun(NAT, NAT), ("tv", "a"), ("c", "list", (("tv", "a"),)),
            ("sv", "a"), ("c", "list", (("sv", "a"),)), fun(("sv", "a"), ("tv", "a"))]
    dtypes = [BOOL, NAT, fun(NAT, BOOL), fun(("tv", "a"), ("tv", "a")), ("tv", "a"), ("sv", "a"), fun(("sv", "a"), ("sv", "a")),
              ("c", "list", (("tv", "a"),)), ("c", "list", (("sv", "a"),)), fun(("tv", "a"), BOOL), fun(("sv", "a"), BOOL)]

    def go(d, nb):
        r = rng.random()
        if d == 0 or r < 0.2:
            q = rng.random()
            if nb and q < 0.3:
                return ("bound", rng.randrange(nb))
            if q < 0.75:
                return ("var", rng.choice("pqrs"), None)
            if q < 0.8:
                return ("svar", rng.choice("pq"), None)
            return ("const", rng.choice(names), None)
        if r < 0.3:
            return ("abs", rng.choice("xy"), rng.choice(anns), go(d - 1, nb + 1))
        if r < 0.55:
            c = rng.choice(names)
            T = sig[c]
            k = 0
            while T[0] == "c" and T[1] == "fun":
                k += 1
                T = T[2][1]
            k = max(0, k + rng.choice([0, 0, 0, 0, -1, 1]))
            return app(("const", c, None), *[go(d - 1, nb) for _ in range(k)])
        return ("comb", go(d - 1, nb), go(d - 1, nb))

    out = []
    for _ in range(n):
        k = rng.randint(1, 4)
        parts = [go(rng.randint(1, 3), 0) for _ in range(k)]
        sk = conj(parts) if rng.random() < 0.7 else app(C("equals"), parts[0], parts[-1])
        decl, sdecl = {}, {}
        if rng.random() < 0.4:
            for _ in range(rng.randint(1, 2)):
                decl[rng.choice("pqrs")] = rng.choice(dtypes)
        if rng.random() < 0.3:
            sdecl[rng.choice("pq")] = rng.choice(dtypes)
        out.append({"kind": "random-skeleton", "skel": sk, "vars": decl, "svars": sdecl, "forbid": rng.random() < 0.9})
    return out


def subterms(t, path=()):
    yield path, t
    if t[0] == "comb":
        yield from subterms(t[1], path + (1,))
        yield from subterms(t[2], path + (2,))
    elif t[0] == "abs":
        yield from subterms(t[3], path + (3,))


def replace_at(t, path, new):
    if not path:
        return new
    l = list(t)
    l[path[0]] = replace_at(t[path[0]], path[1:], new)
    return tuple(l)


def nbinders(t, path):
    n = 0
    for p in path:
        if t[0] == "abs":
            n += 1
        t = t[p]
    return n


def gen_mutants(rng, sig, n, depth_max):
    """well-typed terms with one structural damage, then erased: typable or not, nobody knows in advance"""
    g = TermGen(rng, sig)
    out = []
    while len(out) < n:
        orig = g.new_term(rng.randint(2, depth_max))
        subs = list(subterms(orig))
        if len(subs) < 4:
            continue
        kind = rng.choice(["swap", "rename", "droparg", "duparg", "selfapp"])
        t = orig
        if kind == "swap":
            (p1, s1), (p2, s2) = rng.sample(subs, 2)
            if p1[:len(p2)] == p2 or p2[:len(p1)] == p1 or nbinders(orig, p1) != nbinders(orig, p2):
                continue
            t = replace_at(replace_at(orig, p1, s2), p2, s1)
        elif kind == "rename":
            vs = sorted(g.vars)
            if len(vs) < 2:
                continue
            a, b = rng.sample(vs, 2)
            t = rename(orig, {a: b})
        elif kind == "droparg":
            cs = [(p, s) for p, s in subs if s[0] == "comb"]
            p, s = rng.choice(cs)
            t = replace_at(orig, p, s[1])
        elif kind == "duparg":
            cs = [(p, s) for p, s in subs if s[0] == "comb"]
            p, s = rng.choice(cs)
            t = replace_at(orig, p, ("comb", s, s[2]))
        else:
            vs = [(p, s) for p, s in subs if s[0] == "var"]
            if not vs:
                continue
            p, s = rng.choice(vs)
            t = replace_at(orig, p, ("comb", s, s))
        lvl = rng.choice([(1, 1, 1), (1, 1, 1), (1, 0, 1), (0.5, 0.5, 0.5), (1, 1, 0)])
        sk = erase(t, rng, *lvl)
        dv = dict(g.vars) if rng.random() < 0.5 else {}
        if kind == "rename":
            dv = {}
        out.append({"kind": "mutant:" + kind, "skel": sk, "vars": dv, "svars": dict(g.svars) if dv else {}, "forbid": True})
    return out


def flip_tyvars(T):
    """'a <-> ?'a"""
    if T[0] == "tv":
        return ("sv", T[1])
    if T[0] == "sv":
        return ("tv", T[1])
    return ("c", T[1], tuple(flip_tyvars(a) for a in T[2]))


def has_tyvar(T):
    return T[0] in ("tv", "sv") or (T[0] == "c" and any(has_tyvar(a) for a in T[2]))


def gen_tvsv(rng, sig, n, depth_max):
    """well-typed terms in which ONE declared (schematic) variable gets its type variables flipped between
    'a and ?'a: the rest of the term still uses the other kind, so most of these are ill-typed"""
    g = TermGen(rng, sig)
    out = []
    tries = 0
    while len(out) < n and tries < 50 * n:
        tries += 1
        orig = g.new_term(rng.randint(1, depth_max))
        cands = [("var", k) for k, T in g.vars.items() if has_tyvar(T)] + [("svar", k) for k, T in g.svars.items() if has_tyvar(T)]
        if not cands:
            continue
        kind, name = rng.choice(cands)
        dv, ds = dict(g.vars), dict(g.svars)
        pool = dv if kind == "var" else ds
        pool[name] = flip_tyvars(pool[name])
        lvl = rng.choice([(1, 0, 0), (1, 0, 0), (1, 1, 0), (1, 1, 1), (1, 0.5, 0.5)])
        sk = erase(orig, rng, *lvl)
        out.append({"kind": "tvsv-flip", "skel": sk, "vars": dv, "svars": ds, "forbid": True})
    return out


# ====================================================================== reserved names  ?'_t...
def gen_reserved(rng, n):
    """types that use a schematic type variable whose name starts with _t (numeric suffix or not), as annotation
    of a variable / constant / binder, as declared type of a (schematic) variable, as type of the constant being
    defined: `is_internal_type` takes these for type_infer's own variables; they must be rejected cleanly"""
    names = ["_t0", "_t1", "_t7", "_t12", "_tx", "_t", "_t_1", "_t0a", "_table"]
    eq = lambda a, b: app(C("equals"), a, b)
    out = []

    def rty():
        R = ("sv", rng.choice(names))
        r = rng.random()
        if r < 0.5:
            return R
        if r < 0.65:
            return ("c", "list", (R,))
        if r < 0.8:
            return fun(R, rng.choice([BOOL, NAT, R]))
        return fun(NAT, R)
    x, y, f = V("x"), V("y"), V("f")
    fixed = []
    for nm in names:
        R = ("sv", nm)
        fixed += [
            ("annot-var", eq(("var", "x", R), y), {}, {}, {}),
            ("annot-var-self", eq(("var", "x", R), ("var", "x", R)), {}, {}, {}),
            ("annot-var-late", conj([app(f, x), app(f, y), eq(("var", "z", R), x)]), {}, {}, {}),
            ("annot-const", eq(C("nil", ("c", "list", (R,))), y), {}, {}, {}),
            ("annot-binder", ("abs", "u", R, app(C("equals"), ("bound", 0), x)), {}, {}, {}),
            ("annot-svar", eq(("svar", "s", R), y), {}, {}, {}),
            ("declared-var", conj([eq(x, y), y]), {"x": R}, {}, {}),
            ("declared-svar", eq(("svar", "s", None), y), {}, {"s": R}, {}),
            ("declared-unused", eq(x, C("zero", NAT)), {"unused": R}, {}, {}),       # never looked up: accepted
            ("defs-head", eq(app(C("dfn"), x), x), {}, {}, {"dfn": fun(R, R)}),
            ("defs-rec", eq(app(C("dfn"), x), app(C("dfn"), app(C("dfn"), x))), {}, {}, {"dfn": fun(R, R)}),
        ]
    for k, t, v, sv, df in fixed:
        out.append({"kind": "reserved:" + k, "skel": t, "vars": v, "svars": sv, "defs": df, "forbid": True})
    while len(out) < n:
        k = rng.randrange(5)
        T1, T2 = rty(), rty()
        if k == 0:
            t, v, sv = conj([eq(("var", "x", T1), y), eq(("var", "z", T2), ("var", "w", None)), app(f, x), app(f, y)]), {}, {}
        elif k == 1:
            t, v, sv = eq(app(f, x), y), {"x": T1, "f": fun(T1, T2)}, {}
        elif k == 2:
            t, v, sv = eq(("svar", "s", None), app(("abs", "u", T2, ("bound", 0)), y)), {}, {"s": T1}
        elif k == 3:
            t, v, sv = app(C("all"), ("abs", "u", T1, eq(("bound", 0), ("var", "y", T2)))), {}, {}
        else:
            t, v, sv = eq(app(C("cons"), ("var", "a", T1), C("nil")), ("var", "l", ("c", "list", (T2,)))), {}, {}
        out.append({"kind": "reserved:random", "skel": t, "vars": v, "svars": sv, "defs": {}, "forbid": rng.random() < 0.9})
    return out


# ====================================================================== definitions being parsed: context.ctxt.defs
def gen_defs(rng, sig, n):
    """what server/items.py does for a definition / recursive function: parse `f x1 ... xn = rhs` under
    Context(defs={f: T}).  f is a new name or (overloaded constants) a name of the signature; T is monomorphic,
    over rigid 'a, or over ?'a (then the recursive occurrences are instantiated); rhs may call f."""
    g = TermGen(rng, sig)
    eq = lambda a, b: app(C("equals"), a, b)
    x, y = V("x"), V("y")
    NN = fun(NAT, NAT)
    hand = [
        ("rec", eq(app(C("dfn"), x), app(C("dfn"), app(C("dfn"), x))), {"dfn": NN}),
        ("base", eq(app(C("dfn"), C("zero")), C("one")), {"dfn": NN}),
        ("head-annotated-same", eq(app(C("dfn", NN), x), x), {"dfn": NN}),
        ("head-annotated-other", eq(app(C("dfn", fun(BOOL, BOOL)), x), x), {"dfn": NN}),
        ("head-annotated-other-2", eq(app(C("dfn", NN), x), app(C("Suc"), x)), {"dfn": fun(BOOL, BOOL)}),
        ("overloaded", eq(app(C("plus"), x, y), app(C("plus"), y, x)), {"plus": fun(NAT, NAT, NAT)}),
        ("overloaded-rec-other-type", eq(app(C("plus"), x, y), app(C("of_nat"), app(C("plus"), C("zero", NAT), C("one", NAT)))),
         {"plus": fun(("c", "int", ()), ("c", "int", ()), ("c", "int", ()))}),
        ("rigid-tvar", eq(app(C("dfn"), x), x), {"dfn": fun(("tv", "a"), ("tv", "a"))}),
        ("rigid-tvar-clash", eq(app(C("dfn"), x), app(C("dfn"), C("zero", NAT))), {"dfn": fun(("tv", "a"), ("tv", "a"))}),
        ("stvar-instantiated", eq(app(C("dfn"), x), conj([app(C("dfn"), C("zero", NAT)), app(C("dfn"), C("true"))])),
         {"dfn": fun(("sv", "a"), BOOL)}),
        ("stvar-head-rigid", eq(app(C("dfn"), C("zero", NAT)), C("true")), {"dfn": fun(("sv", "a"), BOOL)}),
        ("wrong-arg-count", eq(app(C("dfn"), x, y), x), {"dfn": NN}),
        ("not-an-equation", app(C("dfn"), x), {"dfn": fun(NAT, BOOL)}),
        ("head-not-const", eq(app(x, y), app(C("dfn"), y)), {"dfn": NN}),
        ("lhs-is-const", eq(C("dfn"), C("zero")), {"dfn": NAT}),
        ("three-arg-equals", app(C("equals"), app(C("dfn"), x), x, y), {"dfn": NN}),
        ("other-name-in-defs", eq(app(C("dfn"), x), app(C("other"), x)), {"dfn": NN, "other": fun(NAT, BOOL)}),
        ("unknown-const", eq(app(C("dfn"), x), app(C("no_such_constant"), x)), {"dfn": NN}),
        ("under-determined", eq(app(C("dfn"), x), C("nil")), {"dfn": fun(NAT, ("c", "list", (("sv", "a"),)))}),
    ]
    out = [{"kind": "defs:" + k, "skel": t, "vars": {}, "svars": {}, "defs": d, "forbid": True} for k, t, d in hand]
    while len(out) < n:
        flavour = rng.choice(["mono", "mono", "tvar", "stvar"])
        nargs = rng.randint(0, 3)

        def aty():
            T = g.rtype(1)
            while has_tyvar(T):
                T = g.rtype(1)
            return T
        args = [aty() for _ in range(nargs)]
        R = aty()
        if flavour == "tvar" and nargs:
            args[0] = rng.choice([("tv", "a"), ("c", "list", (("tv", "a"),))])
            if rng.random() < 0.5:
                R = ("tv", "a")
        D = fun(*(args + [R]))
        Dhead = D
        if flavour == "stvar" and nargs:
            # declared over ?'a: the head keeps ?'a, recursive calls are instances
            args_decl = list(args)
            args_decl[0] = ("sv", "a")
            Dhead = fun(*(args_decl + [R]))
        name = rng.choice(["dfn", "dfn", "dfn2", "plus", "nil"]) if flavour == "mono" else "dfn"
        hargs = list(args)
        if Dhead is not D:
            hargs[0] = ("sv", "a")
        g.vars, g.svars, g.nv = {}, {}, 0
        xs = [("var", "x%d" % i, T) for i, T in enumerate(hargs)]
        lhs = app(("const", name, Dhead), *xs)
        for v in xs:
            g.vars[v[1]] = v[2]
        if rng.random() < 0.5 and nargs:
            # recursive call (through the fallback of the constant case when the name is not in the signature)
            rargs = [g.gen(T, [], rng.randint(0, 2)) for T in args]
            rD = D
            rhs = app(("const", name, rD), *rargs)
        else:
            rhs = g.gen(R, [], rng.randint(0, 2))
        orig = app(("const", "equals", fun(R, R, BOOL)), lhs, rhs)
        if name in sig and not TermGen.match(sig[name], D, {}):
            continue                    # an overloaded constant is defined at an instance of its declared type
        for lvl in ((1, 1, 1), (1, 0, 1), (0.5, 0.5, 1)):
            sk = erase(orig, rng, *lvl)
            out.append({"kind": "defs:gen-" + flavour, "orig": orig, "skel": sk, "vars": {}, "svars": {}, "defs": {name: Dhead},
                        "forbid": True, "declared": False, "must_recover": False})
    out += gen_defs_shadow(rng, sig, g, max(30, n // 4))
    return out


def gen_defs_shadow(rng, sig, g, n):
    """ctxt.defs names a constant that the theory ALREADY declares, at a type that is not an instance of the
    declared one.  Only the head of the lhs is typed from defs; every other occurrence is the theory's constant.
    (a) rhs uses the constant at an instance of its theory type: must be inferred; (b) rhs uses it at the defs
    type: must be rejected."""
    cands = [c for c in ("Suc", "length", "neg", "rev", "card", "even", "fact", "append", "cons", "member", "nth")
             if c in sig]
    out = []
    tries = 0
    while len(out) < n and tries < 40 * n:
        tries += 1
        c = rng.choice(cands)
        S = sig[c]
        nargs = rng.randint(1, 2)
        args = []
        while len(args) < nargs:
            T = g.rtype(1)
            if not has_tyvar(T):
                args.append(T)
        R = rng.choice([BOOL, NAT, ("c", "int", ())])
        D = fun(*(args + [R]))
        if TermGen.match(S, D, {}):
            continue                        # wanted: NOT an instance of the theory's type
        g.vars, g.svars, g.nv = {}, {}, 0
        xs = [("var", "x%d" % i, T) for i, T in enumerate(args)]
        for v in xs:
            g.vars[v[1]] = v[2]
        lhs = app(("const", c, D), *xs)
        # an occurrence of c at an instance of its THEORY type, applied to all its arguments
        m = g.fill(S, {})
        pre, SR = g.strip[c][-1]
        inner = app(("const", c, g.inst(S, m)), *[g.gen(g.inst(A, m), [], rng.randint(0, 1)) for A in pre])
        SRT = g.inst(SR, m)
        good = rng.random() < 0.6
        if good:
            # rhs :: R built around `inner`:  IF (inner = inner') then r1 else r2
            test = app(("const", "equals", fun(SRT, SRT, BOOL)), inner, g.gen(SRT, [], 0))
            if "IF" not in sig:
                continue
            rhs = app(("const", "IF", fun(BOOL, R, R, R)), test, g.gen(R, [], 1), g.gen(R, [], 0))
            orig = app(("const", "equals", fun(R, R, BOOL)), lhs, rhs)
            for lvl in ((1, 1, 1), (1, 0, 1)):
                out.append({"kind": "defs:shadow-theory-type", "orig": orig, "skel": erase(orig, rng, *lvl), "vars": {}, "svars": {},
                            "defs": {c: D}, "forbid": True, "declared": False, "must_recover": False})
        else:
            # rhs uses c at the defs type D (only legal for the head): ill-typed w.r.t. the theory
            rhs = app(("const", c, None), *[g.gen(T, [], 0) for T in args])
            sk = app(("const", "equals", fun(R, R, BOOL)), erase(lhs, rng, 1, 1, 1), erase(rhs, rng, 0, 0, 0))
            out.append({"kind": "defs:shadow-defs-type", "skel": sk, "vars": dict(g.vars), "svars": dict(g.svars), "defs": {c: D}, "forbid": True})
    return out


# ====================================================================== one schematic variable, several occurrences
def gen_svar_multi(rng, sig, n):
    """undeclared, unannotated schematic variables with several occurrences that the surrounding constants do
    NOT tie together (each occurrence sits in its own annotated equation), at one type (typable) or at two types
    (must be rejected), together with an undeclared ordinary variable of the SAME name at yet another type
    (x and ?x are different variables).  Constant types are kept, so the typing is fully determined."""
    g = TermGen(rng, sig)
    IMP = ("const", "implies", fun(BOOL, BOOL, BOOL))
    eq = lambda a, b: app(C("equals"), a, b)
    idb = ("abs", "x", BOOL, ("bound", 0))
    sp, sx, x = ("svar", "p", None), ("svar", "x", None), V("x")
    hand = [
        ("two-types", app(IMP, sp, eq(sp, idb))),                       # ?p :: bool and ?p :: bool => bool: clash
        ("same-name-var", app(IMP, sx, eq(x, idb))),                    # ?x :: bool, x :: bool => bool: fine
        ("same-name-var-flip", app(IMP, eq(x, idb), sx)),
        ("three-occurrences", app(IMP, sp, app(IMP, sp, eq(sp, C("true"))))),
        ("two-types-far", conj([eq(sp, C("zero", NAT)), eq(V("u"), V("u2")), sp])),
        ("two-svars-one-var", conj([eq(sx, C("zero", NAT)), eq(("svar", "y", None), sx), x, eq(V("y"), idb)])),
    ]
    out = [{"kind": "svar-multi:" + k, "skel": t, "vars": {}, "svars": {}, "forbid": True} for k, t in hand]

    def atom(kind, name, T):
        """a boolean term `(v :: T) = rhs` with annotated equals, v of the given kind and name"""
        g.vars, g.svars, g.nv = {}, {}, 0
        rhs = g.gen(T, [], rng.randint(0, 2))
        natom[0] += 1                                        # atoms are generated separately: keep their variables apart
        rhs = rename_all(rhs, {v: "%s_%d" % (v, natom[0]) for v in list(g.vars) + list(g.svars) + [name]})
        return app(("const", "equals", fun(T, T, BOOL)), (kind, name, T), rhs)
    natom = [0]
    while len(out) < n:
        T1, T2, T3 = g.rtype(1), g.rtype(1), g.rtype(1)
        if T1 == T2 or has_tyvar(T1) or has_tyvar(T2) or has_tyvar(T3):
            continue
        mode = rng.choice(["same", "two-types", "with-var", "with-var-two-types"])
        parts = [atom("svar", "s", T1), atom("svar", "s", T1 if mode in ("same", "with-var") else T2)]
        if mode.startswith("with-var"):
            parts.append(atom("var", "s", T3))
        rng.shuffle(parts)
        orig = conj(parts)
        sk = erase(orig, rng, 1, rng.choice([0, 1]), 0)
        case = {"kind": "svar-multi:gen-" + mode, "skel": sk, "vars": {}, "svars": {}, "forbid": True}
        if mode in ("same", "with-var"):
            case.update({"orig": orig, "declared": False, "must_recover": False})
        out.append(case)
    return out


def rename_all(t, ren):
    """rename free and schematic variables"""
    k = t[0]
    if k in ("var", "svar"):
        return (k, ren.get(t[1], t[1]), t[2])
    if k == "comb":
        return ("comb", rename_all(t[1], ren), rename_all(t[2], ren))
    if k == "abs":
        return ("abs", t[1], t[2], rename_all(t[3], ren))
    return t


# ====================================================================== histories: several theories in one process
LIB_THEORIES = ["logic_base", "logic", "nat", "set", "list", "function", "int"]
REDECLARABLE = ["plus", "zero", "nil", "cons", "member", "conj", "neg", "Suc", "append", "union", "true", "one", "times", "empty_set"]


def gen_sig_type(_g, rng):
    """a random most-general type for a generated constant ('a, 'b allowed, no schematic type variables)"""
    def rt(d):
        r = rng.random()
        if d == 0 or r < 0.5:
            return rng.choice([BOOL, NAT, ("tv", "a"), ("tv", "b"), ("tv", "a"), ("c", "int", ())])
        if r < 0.65:
            return ("c", "list", (rt(d - 1),))
        if r < 0.75:
            return ("c", "set", (rt(d - 1),))
        return ("c", "fun", (rt(d - 1), rt(d - 1)))
    k = rng.choice([0, 1, 1, 2, 2, 3])
    return fun(*([rt(1) for _ in range(k)] + [rt(2)]))


def setup_theory(step):
    """Switch the global theory as the step says; returns the signature that is now current (read from the
    theory's own `term_sig` table, not through get_term_sig)."""
    from kernel import theory
    from logic import basic
    kind = step["theory"]
    if kind.startswith("load:"):
        basic.load_theory(kind[5:])
    elif kind == "empty":
        theory.thy = theory.EmptyTheory()
    elif kind == "keep":
        pass
    for n, T in step.get("decls", []):
        theory.thy.add_term_sig(n, ty_obj(T))
    return {n: ty_tup(T) for n, T in theory.thy.get_data("term_sig").items()}


def term_with_const(g, rng, cname, depth):
    """a well-typed boolean term `c args = rhs` that certainly mentions the constant cname"""
    S = g.sig[cname]
    m = g.fill(S, {})
    t = ("const", cname, g.inst(S, m))
    pre, R = g.strip[cname][-1]
    k = rng.randint(0, len(pre))
    pre, R = g.strip[cname][k]
    for A in pre:
        t = ("comb", t, g.gen(g.inst(A, m), [], depth - 1))
    RT = g.inst(R, m)
    eqT = fun(RT, RT, BOOL)
    return app(("const", "equals", eqT), t, g.gen(RT, [], depth - 1))


def plan_history(rng, hid):
    """a list of step plans (theory switch + names to declare); types and terms are generated when the step
    runs, from the signature that is then current"""
    own = ["k%d_%d" % (hid, i) for i in range(2)]
    steps = []
    n = rng.randint(2, 4)
    absolute = False         # has a step of this history already fixed the global theory?
    for i in range(n):
        r = rng.random()
        if r < 0.3:
            steps.append({"theory": "load:" + rng.choice(LIB_THEORIES), "names": [], "focus": None, "fresh": False})
            absolute = True
        else:
            names = list(own)
            if rng.random() < 0.6:
                names.append(rng.choice(REDECLARABLE))
            fresh = rng.random() < 0.4
            steps.append({"theory": "empty", "names": names, "focus": rng.choice(names), "fresh": fresh})
            if fresh and absolute and rng.random() < 0.6:
                # after `with fresh_theory()` the previous theory is back: infer there again
                steps.append({"theory": "keep", "names": [], "focus": None, "fresh": False})
            if not fresh:
                absolute = True
    if sum(1 for st in steps if st["theory"] == "empty") < 2:
        steps.append({"theory": "empty", "names": list(own), "focus": own[0], "fresh": rng.random() < 0.5})
    return steps


def run_step(ctx, step, do_cases):
    """set the theory up as the step says (inside `with fresh_theory()` if asked) and call do_cases(current sig)"""
    from kernel import theory
    if step.get("fresh"):
        with theory.fresh_theory():
            do_cases(setup_theory({"theory": "keep", "decls": step["decls"]}))
    else:
        do_cases(setup_theory(step))


def run_histories(ctx, rng, nhist, limit=5):
    """Each history switches between theories inside this process: library theories via load_theory, generated
    signatures via EmptyTheory() / `with fresh_theory()` + add_term_sig, the same constant names declared with
    different types in different steps.  Every inference is judged against the signature current at that moment."""
    from logic import basic
    batch, batch_sigs, batch_res = [], [], []
    for hid in range(nhist):
        done = []           # replayable record of the steps so far
        for st in plan_history(rng, hid):
            step = {"theory": st["theory"], "decls": [(nm, gen_sig_type(None, rng)) for nm in st["names"]],
                    "fresh": st["fresh"], "cases": []}
            done.append(step)

            def do_cases(cur, st=st, step=step):
                g = TermGen(rng, cur)
                focus = st["focus"]
                if focus is None:
                    lib = [c for c in REDECLARABLE if c in cur]
                    focus = rng.choice(lib) if lib and rng.random() < 0.8 else rng.choice(sorted(cur))
                for _ in range(2):
                    g.vars, g.svars, g.nv = {}, {}, 0
                    orig = term_with_const(g, rng, focus, rng.randint(1, 3))
                    for name, pv, pb, pc in (("consts", 0, 0, 1), ("all", 1, 1, 1), ("random", 0.5, 0.5, 0.7)):
                        case = {"kind": "history:" + name, "orig": orig, "skel": erase(orig, rng, pv, pb, pc),
                                "vars": dict(g.vars), "svars": dict(g.svars), "forbid": True, "declared": True,
                                "must_recover": False, "history": done}
                        step["cases"].append({k: case[k] for k in ("kind", "orig", "skel", "vars", "svars", "forbid")})
                        res = oracle(ctx, case, run_impl(case, limit), cur)
                        ctx.case(("history", hid, case_key(case)), nontrivial=True)
                        ctx.count("history:%s%s:%s" % (step["theory"].split(":")[0], "+fresh" if step["fresh"] else "",
                                                       res[0] if res[0] != "error" else res[1].replace("tie:", "")))
                        batch.append(case)
                        batch_sigs.append(cur)
                        batch_res.append(res)
            run_step(ctx, step, do_cases)
    basic.load_theory(THEORY)
    if batch:
        out = ctx.lean_driver(EXE, [request_line(c, sg) for c, sg in zip(batch, batch_sigs)])
        if out is None:
            return False
        compare_model(ctx, batch, batch_res, out, "history")
    return True


def replay_history(ctx, history, limit=60):
    """re-run a recorded history step by step; every recorded inference is judged again"""
    from logic import basic
    for step in history:
        step = dict(step)
        step["decls"] = [(n, from_json(T)) for n, T in step["decls"]]

        def do_cases(cur, step=step):
            for c in step["cases"]:
                case = {"kind": c["kind"], "orig": from_json(c["orig"]), "skel": from_json(c["skel"]),
                        "vars": {k: from_json(v) for k, v in c["vars"].items()}, "svars": {k: from_json(v) for k, v in c["svars"].items()},
                        "forbid": c["forbid"], "declared": True, "must_recover": False}
                res = run_impl(case, limit)
                print("step %s%s: %s -> %s" % (step["theory"], " (with fresh_theory)" if step.get("fresh") else "", tm_str(case["skel"]),
                                               res if res[0] != "ok" else tm_str(res[1])))
                oracle(ctx, case, res, cur)
        run_step(ctx, step, do_cases)
    basic.load_theory(THEORY)


# ====================================================================== histories over the context API
class ScopeAbort(Exception):
    """an exception of a class holpy does not know, raised inside a scope"""


def plan_ctx_history(rng, g, hid):
    """A small program over logic.context / kernel.theory:
       ["set", vars, svars]                         context.set_context(None, vars=..., svars=...)
       ["infer", case, escape]                      type_infer under whatever context is live; case['vars'] / ['svars'] are the
                                                    declarations that SHOULD be live according to the scoping rules
       ["scope", cm, vars, svars, body, exit]       `with fresh_context(vars=..)` / `with fresh_theory()` around body; exit:
                                                    normal | raise-tie (the last inference of body fails and its exception leaves the block)
                                                    | raise-other | return | generator-close
    """
    # a well-typed term and its declarations; the inner scope re-declares some of its variables at other types
    for _ in range(50):
        g.vars, g.svars, g.nv = {}, {}, 0
        orig = g.new_term(rng.randint(1, 3))
        if g.vars:
            break
    outer_v, outer_s = dict(g.vars), dict(g.svars)

    def redeclare(vs):
        vs = dict(vs)
        ks = sorted(vs)
        for k in rng.sample(ks, min(len(ks), rng.randint(1, 2))):
            T = g.rtype(1)
            while T == vs[k]:
                T = g.rtype(1)
            vs[k] = T
        return vs

    def inf(vs, svs, escape=False, lvl=(1, 0, 0)):
        case = {"kind": "context-history", "skel": erase(orig, rng, *lvl), "vars": dict(vs), "svars": dict(svs), "forbid": True}
        if vs == outer_v and svs == outer_s:
            # under the declarations the term was generated for it is an erasure of a well-typed term
            case.update({"orig": orig, "declared": True, "must_recover": False})
        return ["infer", case, escape]
    prog = [["set", outer_v, outer_s], inf(outer_v, outer_s)]
    cur = (outer_v, outer_s)
    for _ in range(rng.randint(1, 3)):
        r = rng.random()
        if r < 0.12:
            nv = redeclare(cur[0])
            prog.append(["set", nv, cur[1]])
            cur = (nv, cur[1])
        elif r < 0.24:
            # theory scope: the outer theory must be back afterwards (the term uses library constants)
            ex = rng.choice(["normal", "raise-tie", "raise-other", "return", "generator-close"])
            prog.append(["scope", "fresh_theory", None, None, [inf(cur[0], cur[1], escape=(ex == "raise-tie"), lvl=(1, 1, 1))], ex])
        else:
            inner_v = redeclare(cur[0])
            ex = rng.choice(["raise-tie", "raise-tie", "raise-tie", "normal", "raise-other", "return", "generator-close"])
            body = [inf(inner_v, cur[1], escape=(ex == "raise-tie"))]
            if rng.random() < 0.3:
                # nested once more; the failing inference sits in the innermost scope
                inner2 = redeclare(inner_v)
                body = [inf(inner_v, cur[1]), ["scope", "fresh_context", inner2, cur[1],
                                               [inf(inner2, cur[1], escape=(ex == "raise-tie"))], ex]]
            prog.append(["scope", "fresh_context", inner_v, cur[1], body, ex])
        # back in the enclosing scope: its declarations must be live again
        prog.append(inf(cur[0], cur[1], lvl=rng.choice([(1, 0, 0), (1, 0, 0), (1, 1, 1)])))
    return prog


def exec_ctx_program(ctx, prog, sig, judge, limit=5):
    """runs a context-history program against the real API; judge(case, result) is called for every inference"""
    from kernel import theory
    from logic import context

    def cm_of(op):
        if op[1] == "fresh_theory":
            return theory.fresh_theory()
        return context.fresh_context(vars={n: ty_obj(T) for n, T in op[2].items()},
                                     svars={n: ty_obj(T) for n, T in op[3].items()})

    def run_ops(ops):
        for op in ops:
            if op[0] == "set":
                context.set_context(None, vars={n: ty_obj(T) for n, T in op[1].items()},
                                    svars={n: ty_obj(T) for n, T in op[2].items()})
            elif op[0] == "infer":
                esc = []
                res = run_impl(op[1], limit, live=True, escape=esc)
                judge(op[1], res)
                if op[2] and esc:
                    raise esc[0]            # the caller of the parser sees type_infer's exception
            else:
                body, ex = op[4], op[5]

                def with_block():
                    with cm_of(op):
                        run_ops(body)
                        if ex == "raise-other":
                            raise ScopeAbort()
                        if ex == "return":
                            return 1
                    return 0

                def gen_block():
                    with cm_of(op):
                        run_ops(body)
                        yield 1
                        yield 2
                if ex == "generator-close":
                    it = gen_block()
                    try:
                        next(it)
                    finally:
                        it.close()
                else:
                    try:
                        with_block()
                    except ScopeAbort:
                        pass
                    except Exception as e:  # noqa
                        # what parsers / the server do: catch the failure of the inner parse and go on
                        if type(e).__name__ not in ("TypeInferenceException", "TheoryException"):
                            raise
    old_ctxt, old_thy = context.ctxt, theory.thy
    try:
        run_ops(prog)
    finally:
        context.ctxt, theory.thy = old_ctxt, old_thy


def run_ctx_histories(ctx, rng, sig, nhist, limit=5):
    """Histories over the context API (set_context, nested fresh_context, fresh_theory) in which an exception leaves a
    scope: afterwards the declarations and the theory of the enclosing scope must be live again.  Every inference is
    judged against the declarations that the scoping rules say are live (the same a fresh process would use)."""
    g = TermGen(rng, sig)
    batch, batch_res = [], []
    for hid in range(nhist):
        prog = plan_ctx_history(rng, g, hid)

        def judge(case, res, prog=prog):
            c = dict(case)
            c["ctx_history"] = prog
            res2 = oracle(ctx, c, res, sig if not c.get("_empty_theory") else empty_theory_sig())
            ctx.case(("ctx-history", hid, case_key(case)), nontrivial=True)
            ctx.count("context-history:%s" % (res2[0] if res2[0] != "error" else res2[1].replace("tie:", "")))
            if not c.get("_empty_theory"):
                batch.append(case)
                batch_res.append(res2)
        mark_theory_scopes(prog)
        exec_ctx_program(ctx, prog, sig, judge, limit)
    if batch:
        out = ctx.lean_driver(EXE, [request_line(c, sig) for c in batch])
        if out is None:
            return False
        compare_model(ctx, batch, batch_res, out, "context-history")
    return True


def empty_theory_sig():
    from kernel import theory
    return {n: ty_tup(T) for n, T in theory.EmptyTheory().get_data("term_sig").items()}


def mark_theory_scopes(prog, inside=False):
    """inferences inside `with fresh_theory()` run in the EmptyTheory: judged against the empty signature"""
    for op in prog:
        if op[0] == "infer":
            if inside:
                op[1]["_empty_theory"] = True
                op[1].pop("orig", None)          # not a well-typed term over the empty theory's signature
        elif op[0] == "scope":
            mark_theory_scopes(op[4], inside or op[1] == "fresh_theory")


def ctx_prog_from_json(prog):
    out = []
    for op in prog:
        if op[0] == "set":
            out.append(["set", {k: from_json(v) for k, v in op[1].items()}, {k: from_json(v) for k, v in op[2].items()}])
        elif op[0] == "infer":
            c = dict(op[1])
            for f in ("orig", "skel"):
                if f in c:
                    c[f] = from_json(c[f])
            c["vars"] = {k: from_json(v) for k, v in c["vars"].items()}
            c["svars"] = {k: from_json(v) for k, v in c["svars"].items()}
            out.append(["infer", c, op[2]])
        else:
            out.append(["scope", op[1], None if op[2] is None else {k: from_json(v) for k, v in op[2].items()},
                        None if op[3] is None else {k: from_json(v) for k, v in op[3].items()}, ctx_prog_from_json(op[4]), op[5]])
    return out


def ctx_prog_str(prog, ind=0):
    out = []
    for op in prog:
        pad = "  " * ind
        if op[0] == "set":
            out.append(pad + "set_context(vars=%s)" % {k: ty_str(v) for k, v in op[1].items()})
        elif op[0] == "infer":
            out.append(pad + "type_infer(%s)%s   # declared: %s" % (tm_str(op[1]["skel"]), "  [its exception leaves the scope]" if op[2] else "",
                                                                 {k: ty_str(v) for k, v in op[1]["vars"].items()}))
        else:
            out.append(pad + "with %s(%s):   # exit: %s" % (op[1], "" if op[2] is None else "vars=%s" % {k: ty_str(v) for k, v in op[2].items()}, op[5]))
            out += ctx_prog_str(op[4], ind + 1)
    return out


# ====================================================================== oracle
def case_key(case):
    return "%s|%s|%s|%s%s" % (tm_str(case["skel"]), sorted((k, ty_str(v)) for k, v in case["vars"].items()),
                              sorted((k, ty_str(v)) for k, v in case["svars"].items()), "" if case["forbid"] else "allow-internal",
                              "|defs=%s" % sorted((k, ty_str(v)) for k, v in case["defs"].items()) if case.get("defs") else "")


def replay_dict(case, res, extra=None):
    d = {"kind": case["kind"], "skel": case["skel"], "vars": case["vars"], "svars": case["svars"], "forbid": case["forbid"],
         "readable": tm_str(case["skel"]), "result": res}
    if case.get("defs"):
        d["defs"] = case["defs"]
    if "orig" in case:
        d["orig"] = case["orig"]
        d["declared"] = case.get("declared")
        d["must_recover"] = case.get("must_recover")
    if "history" in case:
        # the steps (theory switches, declarations, inferences) that preceded and include this inference
        d["history"] = json.loads(json.dumps(case["history"]))
    if "ctx_history" in case:
        d["ctx_history"] = json.loads(json.dumps(case["ctx_history"]))
        d["program"] = ctx_prog_str(case["ctx_history"])
    if extra:
        d.update(extra)
    return d


def defect_class(case):
    """Key for defects that a whole class of skeletons triggers."""
    return case["kind"].split(":")[0] if case["kind"].startswith(("cycle", "hand")) else None


def oracle(ctx, case, res, sig, limit_confirm=60):
    """Judges the implementation's result on one skeleton. Returns the (possibly re-run) result."""
    key = case_key(case)
    skel = case["skel"]

    def viol(k, what, rp):
        dfs = case.get("defs")
        if dfs and skel[0] == "comb" and skel[1][0] == "comb":
            h = head_const(skel[1][2])
            if h is not None and h[2] is not None and h[1] in dfs and h[2] != dfs[h[1]]:
                # one defect class: the annotation on the head of a definition's lhs is replaced by the declared type
                k = "defs-head-annotation-overwritten"
        if "ctx_history" in case:
            # one class per kind of failure: the cause is the preceding scope handling, not the skeleton
            k = "context-history:" + k.split(":")[0]
            what = "after entering and leaving scopes of the context API: %s" % what
        if "history" in case:
            # one class per kind of failure: what goes wrong depends on the preceding theory switches, not on the skeleton
            k = "history:" + k.split(":")[0]
            what = "after %d theory switches in this process: %s" % (len(case["history"]), what)
        return ctx.violation(k, what, rp)
    if res[0] == "timeout":
        # confirm with a long limit, but only a few times per run (a broken tree may hang on many inputs)
        nconf = getattr(ctx, "_c08_confirmations", 0)
        if nconf >= 3 or any(v[0] == "occurs-check-escaped" for v in ctx.violations):
            ctx.count("timeout-unconfirmed")
            return res
        ctx._c08_confirmations = nconf + 1
        res2 = run_impl(case, limit_confirm)
        if res2[0] == "timeout":
            viol("occurs-check-escaped" if ref_infer(case, sig) == ("untypable", "occurs") else "hang:" + key, "type_infer does not return within %d s on %s" % (limit_confirm, tm_str(skel)),
                          replay_dict(case, res2))
            return res2
        res = res2
    ref = ref_infer(case, sig)
    if has_arity_mismatch(case):
        # one defect class: the same type constructor applied to different numbers of arguments
        if (res[0] == "error" and not is_own_error(res[1])) or (res[0] == "ok" and isinstance(res[2], tuple) and res[2][:1] == ("illtyped",)):
            # D5: the key says how it fails (exception class, or an ill-typed result)
            how = res[1].split(":", 1)[1] if res[0] == "error" else "ill-typed-result"
            viol("type-constructor-arity-mismatch:" + how, "type_infer(%s): %s" % (tm_str(skel), res[1] if res[0] == "error" else
                          "returns a term that does not type-check"), replay_dict(case, res))
            return res
    if has_reserved_name(case):
        # one defect class: a user type variable ?'_t... is taken for one of type_infer's internal variables
        # (a declared type that is never looked up does not enter inference: the reference tells)
        wrong = (res[0] == "error" and not is_own_error(res[1])) or (res[0] == "ok" and ref == ("untypable", "reserved"))
        if wrong:
            how = res[1].split(":", 1)[1] if res[0] == "error" else "accepted"
            viol("reserved-type-variable-name:" + how, "type_infer(%s) with vars %s: %s; a type that uses a name reserved for internal type "
                 "variables must be rejected with TypeInferenceException" % (tm_str(skel), {k: ty_str(v) for k, v in case["vars"].items()},
                                                                           res[1] if res[0] == "error" else "returns " + tm_str(res[1])),
                 replay_dict(case, res))
            return res
    if res[0] == "error":
        cls = res[1]
        if not is_own_error(cls):
            if ref == ("untypable", "occurs"):
                # one defect class: a cyclic type equation escapes the occurs check and the final loop diverges
                viol("occurs-check-escaped", "cyclic type not detected, type_infer ends with %s on %s" % (cls, tm_str(skel)),
                              replay_dict(case, res))
                return res
            viol("crash:%s:%s" % (cls.split(":", 1)[1], key),
                          "type_infer neither returns nor fails with its own error (%s) on %s" % (cls, tm_str(skel)),
                          replay_dict(case, res))
            return res
        # which own error it is can only be read off the message; what is judged is whether an error is justified:
        # the reference unifier says whether the skeleton has a fully determined typing (then an error is wrong),
        # is typable but under-determined, or untypable (then any own error is right)
        if "orig" in case and ref[0] != "under":
            viol("erasure-rejected:%s:%s" % (err_class(cls), key),
                          "erasure of a well-typed term with a fully determined typing rejected with '%s': %s" % (cls, tm_str(skel)),
                          replay_dict(case, res))
        elif case.get("must_recover"):
            viol("not-recovered:%s" % key, "constant and binder types kept, variables declared, yet type_infer reports '%s' on %s"
                          % (cls, tm_str(skel)), replay_dict(case, res))
        elif case["forbid"] and ref[0] == "ok":
            viol("typable-rejected:%s:%s" % (err_class(cls), key), "skeleton has a fully determined typing but type_infer reports '%s': %s"
                          % (cls, tm_str(skel)), replay_dict(case, res, {"reference": ref[1]}))
        return res
    # ---- a term was returned
    rt, cT = res[1], res[2]
    bad = []
    defs = case.get("defs", {})
    skel0 = skel
    skel = apply_defs(skel, defs)        # the head of a definition's lhs counts as annotated with its declared type
    if isinstance(cT, tuple) and cT and cT[0] == "illtyped":
        bad.append("result does not type-check: %s" % cT[1])
    if shape(rt) != shape(skel):
        bad.append("result has a different shape")
    else:
        seen = {}

        def chk(kind, name, sT, rT):
            if rT is None:
                bad.append("type still missing at %s %s" % (kind, name))
                return
            if sT is not None:
                if sT != rT:
                    bad.append("annotation %s of %s %s changed to %s" % (ty_str(sT), kind, name, ty_str(rT)))
                return
            if kind in ("var", "svar"):
                decl = case["vars"] if kind == "var" else case["svars"]
                if name in decl and decl[name] != rT:
                    bad.append("declared type %s of %s ignored: %s" % (ty_str(decl[name]), name, ty_str(rT)))
                if seen.setdefault((kind, name), rT) != rT:
                    bad.append("%s %s gets two types: %s and %s" % (kind, name, ty_str(seen[(kind, name)]), ty_str(rT)))
            elif kind == "const":
                if name in sig:
                    if not TermGen.match(sig[name], rT, {}):
                        bad.append("constant %s :: %s is not an instance of its declared type" % (name, ty_str(rT)))
                elif name not in defs or not match_sv(defs[name], rT, {}):
                    bad.append("constant %s :: %s is not an instance of the type given for it" % (name, ty_str(rT)))
        walk2(skel, rt, chk)
        if skel is not skel0 and shape(rt) == shape(skel0):
            # annotations of the ORIGINAL skeleton must survive the defs step too (fix C08-4)
            def chk0(kind, name, sT, rT):
                if sT is not None and rT is not None and sT != rT:
                    bad.append("annotation %s of %s %s changed to %s" % (ty_str(sT), kind, name, ty_str(rT)))
            walk2(skel0, rt, chk0)
        if case["forbid"]:
            left = set()

            def scan(kind, name, sT, rT):
                if rT is not None:
                    left.update(n for n in ty_stvars(rT, set()) if is_internal_name(n))
            walk2(rt, rt, scan)
            if left:
                bad.append("internal type variables left: %s" % sorted(left))
    if bad:
        h = head_const(skel0[1][2]) if (defs and skel0[0] == "comb" and skel0[1][0] == "comb") else None
        if h is not None and h[2] is not None and h[1] in defs and any(b.startswith("annotation") for b in bad):
            viol("defs-head-annotation-overwritten", "type_infer(%s) under defs %s = %s: %s" % (
                tm_str(skel0), {k: ty_str(v) for k, v in defs.items()}, tm_str(rt), "; ".join(bad)), replay_dict(case, res, {"why": bad}))
            return res
        viol("bad-result:" + key, "type_infer(%s) = %s: %s" % (tm_str(skel), tm_str(rt), "; ".join(bad)),
                      replay_dict(case, res, {"why": bad}))
        return res
    if "orig" in case and rt != case["orig"]:
        viol("erasure-not-recovered:" + key, "erasure of %s inferred as a different term %s" % (tm_str(case["orig"]), tm_str(rt)),
                      replay_dict(case, res))
    elif case["forbid"] and ref[0] == "ok" and ref[1] != rt:
        viol("not-principal:" + key, "type_infer(%s) = %s but the principal typing is %s" % (tm_str(skel), tm_str(rt), tm_str(ref[1])),
                      replay_dict(case, res, {"reference": ref[1]}))
    elif case["forbid"] and ref[0] in ("untypable", "under"):
        viol("accepted-%s:%s" % (ref[0], key), "type_infer(%s) = %s but the reference says %s" % (tm_str(skel), tm_str(rt), ref[0]),
                      replay_dict(case, res, {"reference": ref[1] if ref[0] == "under" else None}))
    return res


def match_sv(P, T, m):
    """match a `defs` type P (its schematic type variables are the pattern variables) against T"""
    if P[0] == "sv":
        if P[1] in m:
            return m[P[1]] == T
        m[P[1]] = T
        return True
    if P[0] != T[0] or P[1] != T[1]:
        return False
    if P[0] == "c":
        return len(P[2]) == len(T[2]) and all(match_sv(x, y, m) for x, y in zip(P[2], T[2]))
    return True


def has_arity_mismatch(case):
    """does the skeleton (or its context) use one type constructor with two different argument counts?"""
    ar = {}
    bad = [False]

    def ty(T):
        if T is not None and T[0] == "c":
            if ar.setdefault(T[1], len(T[2])) != len(T[2]):
                bad[0] = True
            for a in T[2]:
                ty(a)

    def tm(t):
        k = t[0]
        if k in ("var", "svar", "const"):
            ty(t[2])
        elif k == "comb":
            tm(t[1])
            tm(t[2])
        elif k == "abs":
            ty(t[2])
            tm(t[3])
    tm(case["skel"])
    for T in list(case["vars"].values()) + list(case["svars"].values()) + list(case.get("defs", {}).values()):
        ty(T)
    for n, k in (("fun", 2), ("bool", 0), ("nat", 0), ("int", 0), ("real", 0), ("list", 1), ("set", 1)):
        if ar.get(n, k) != k:
            bad[0] = True
    return bad[0]


def canon_impl(res):
    if res[0] == "ok":
        return ("ok", res[1])
    if res[0] == "error":
        return ("error", err_class(res[1]))       # tie | noconst | crash
    return res


def check_cases(ctx, cases, sig, label, limit=5):
    results = []
    for case in cases:
        res = run_impl(case, limit)
        res = oracle(ctx, case, res, sig)
        results.append(res)
        ctx.case(case_key(case), nontrivial=size(case["skel"]) >= 4)
        ctx.count("%s:%s" % (case["kind"].split(":")[0] + (":" + case["kind"].split(":")[1] if case["kind"].startswith("erasure") else ""),
                             res[0] if res[0] != "error" else res[1].replace("tie:", "")))
    lines = [request_line(c, sig) for c in cases]
    out = ctx.lean_driver(EXE, lines) if lines else []
    if out is None or (lines and out and out[0] == "bad-op" and all(o == "bad-op" for o in out)):
        return False
    compare_model(ctx, cases, results, out, label)
    return True


def compare_model(ctx, cases, results, out, label):
    ndis = 0
    for case, res, line in zip(cases, results, out):
        m = parse_model(line)
        want = canon_impl(res)
        if want[0] == "timeout":
            want = ("error", "fuel")
        kind = m[1] if m[0] == "error" else None
        if m[0] == "error" and m[1] in MODEL_TIE:
            m = ("error", "tie")                  # compared on the exception class only
        if kind in MODEL_TIE and res[0] == "error" and res[1].startswith("tie:") and res[1] != "tie:" + kind:
            ctx.count("message-kind-differs-from-model")      # informative only
        if m == ("error", "fuel") and want != ("error", "fuel"):
            # the model ran out of fuel although the implementation answered: never a silent pass
            ctx.count("model-fuel-exhausted")
            ctx.broken("correspondence:c08:fuel-exhausted:" + label, "model out of fuel (%d) on %s; implementation: %s" % (
                FUEL, tm_str(case["skel"]), want if want[0] != "ok" else "ok"))
            continue
        if m != want:
            ndis += 1
            ctx.coverage["disagreements_checked"] += 1
            if ndis <= 3:
                ctx.broken("correspondence:c08:" + label, "skeleton=%s vars=%s impl=%s model=%s" % (
                    tm_str(case["skel"]), {k: ty_str(v) for k, v in case["vars"].items()},
                    want if want[0] != "ok" else tm_str(want[1]), m if m[0] != "ok" else tm_str(m[1])))


# ====================================================================== main
def load_sig(ctx):
    from kernel import theory
    from logic import basic
    basic.load_theory(THEORY)
    data = theory.thy.get_data("term_sig")
    return {n: ty_tup(T) for n, T in data.items()}


def load_corpus(ctx):
    p = os.path.join(ctx.verif, "corpus", "c08.json")
    if not os.path.exists(p):
        return []
    with open(p) as f:
        raw = json.load(f)
    out = []
    for r in raw:
        out.append({"kind": r["kind"], "skel": from_json(r["skel"]), "vars": {k: from_json(v) for k, v in r.get("vars", {}).items()},
                    "svars": {k: from_json(v) for k, v in r.get("svars", {}).items()}, "forbid": r.get("forbid", True),
                    "defs": {k: from_json(v) for k, v in r.get("defs", {}).items()}})
    return out


def run(ctx):
    ctx.coverage["rule"] = (
        "Skeletons are holpy Term objects with None at missing types, passed to syntax.infertype.type_infer under a fresh Context. "
        "(a) erasures: type-directed random well-typed terms over the signature of theory 'real' (all of logic/nat/int/real/set/list/function: "
        "overloaded arithmetic at nat/int/real, polymorphic constants, higher-order and schematic variables, nested binders, rigid 'a / ?'a), "
        "each erased at six levels (variable / binder / constant types, all, variables+binders, random half) with the variables declared or "
        "partly undeclared; (b) occurs-check cycles of length 1-4 in six styles, every atom order, closed and open; (c) hand-made clashes, wrong "
        "argument counts, type-constructor arity mismatches; (d) random untyped skeletons over four variable names; (e) well-typed terms with "
        "one structural damage, erased; (f) histories: 2-5 theory switches inside this process (load_theory of library theories, "
        "EmptyTheory() / `with fresh_theory()` + add_term_sig of generated constants and of library constant names re-declared at other "
        "types), erasures of well-typed terms over the signature current at each step, judged against that signature; (g) mixed kinds of "
        "type variables: declared variables over 'a / 'b and schematic variables over ?'a / ?'b with equal names, a TVar called _t0, x and ?x "
        "; (f2) context histories through the real API: set_context, nested `with fresh_context(...)` re-declaring variables at other types, "
        "`with fresh_theory()`, each scope left normally / by type_infer's own exception caught outside the scope (as parsers and the "
        "server do) / by an exception of a foreign class / by `return` / by closing a generator suspended inside the scope; after every "
        "scope the same erasure is inferred again in the enclosing scope and judged against the declarations and theory that must be live "
        "there; (h) reserved names: ?'_t0, ?'_t7, ?'_tx, ?'_t, ?'_table ... in annotations of variables / constants / binders, in declared types "
        "and in ctxt.defs; (i) definitions being parsed: `f x1..xn = rhs` under Context(defs={f: T}) as server/items.py does, f new or an "
        "overloaded constant of the signature, T monomorphic / over rigid 'a / over ?'a, recursive calls, annotated heads, malformed shapes "
        "with the same name, in hand-made clashes and in well-typed terms where one declared variable has 'a and ?'a exchanged. "
        "Non-trivial = skeleton has at least 4 nodes; distinct by skeleton + context.")
    proofs_ok = ctx.lean_props(["Holpy.C08.Props", "Holpy.C08.Props2", "Holpy.C08.Props3"], exes=[EXE])
    if ctx.tier == "thorough" and proofs_ok:
        ctx.lean_check_modules(["Holpy.C08.Props", "Holpy.C08.Props2", "Holpy.C08.Props3"])
    ctx.coverage["trusted_base"] += [
        "harness/props/c08.py: generators, the reference unifier used as completeness oracle, the tuple <-> Term conversion",
        "kernel Term.checked_get_type as the judge of 'type-checks'",
        "the correspondence between lean/Holpy/C08/Model.lean and syntax/infertype.py is by differential runs only"]
    ctx.assumptions += [
        "skeletons are closed (no loose bound variable); signature types contain no schematic type variables",
        "'one type per variable' is about the occurrences whose type is missing: an annotated occurrence (x::T) keeps T and is, by the "
        "kernel's identity of variables (name + type), a different variable from an x of another type",
        "which TypeInferenceException is raised (occurs / clash / not a function / under-determined / reserved) is read off the message "
        "text for the histogram only; verdicts and the comparison with the model use the exception class, and whether an error is "
        "justified is decided by the reference unifier (fully determined typing exists: error is a violation)",
        "termination: proved (unify_fuel_suffices, final_loop_terminates, type_infer_total); completeness / principality of the whole "
        "traversal: proved (infer_complete, infer_principal, erasure_recovery_all_levels) under the explicit hypotheses of Props3.lean",
        "the model takes the signature as a parameter (Ctx.sig): that type_infer reads the signature of the theory current at the time "
        "of the call (no state kept between calls or theories) is checked by the history stream, not proved"]
    sig = load_sig(ctx)
    have_model = True
    corpus = load_corpus(ctx)
    if corpus:
        have_model &= check_cases(ctx, corpus, sig, "corpus")
    hand = gen_handmade()
    have_model &= check_cases(ctx, hand, sig, "hand")
    have_model &= run_histories(ctx, ctx.rng("histories"), ctx.scale(120, 1500))
    have_model &= run_ctx_histories(ctx, ctx.rng("context-histories"), sig, ctx.scale(150, 2000))
    tv = gen_tvsv(ctx.rng("tvsv"), sig, ctx.scale(300, 5000), 3)
    have_model &= check_cases(ctx, tv, sig, "tvsv")
    rn = gen_reserved(ctx.rng("reserved"), ctx.scale(200, 3000))
    have_model &= check_cases(ctx, rn, sig, "reserved")
    df = gen_defs(ctx.rng("defs"), sig, ctx.scale(300, 6000))
    have_model &= check_cases(ctx, df, sig, "defs")
    sm = gen_svar_multi(ctx.rng("svar-multi"), sig, ctx.scale(200, 4000))
    have_model &= check_cases(ctx, sm, sig, "svar-multi")
    cyc = gen_cycles(ctx.rng("cycles"), ctx.tier == "thorough")
    have_model &= check_cases(ctx, cyc, sig, "cycles")
    er = gen_erasures(ctx.rng("erasures"), sig, ctx.scale(500, 15000), 4)
    for c in er[:3]:
        ctx.sample({"kind": c["kind"], "orig": tm_str(c["orig"]), "skeleton": tm_str(c["skel"])})
    have_model &= check_cases(ctx, er, sig, "erasures")
    rs = gen_random_skeletons(ctx.rng("random"), sig, ctx.scale(2500, 100000))
    have_model &= check_cases(ctx, rs, sig, "random")
    mu = gen_mutants(ctx.rng("mutants"), sig, ctx.scale(1000, 40000), 4)
    for c in mu[:2]:
        ctx.sample({"kind": c["kind"], "skeleton": tm_str(c["skel"])})
    have_model &= check_cases(ctx, mu, sig, "mutants")
    if not have_model:
        ctx.broken("correspondence:c08:driver", "model driver unavailable")


def replay(ctx, rp):
    """Re-run one recorded failing input on the implementation; returns True if it still fails."""
    r = rp["replay"]
    sig = load_sig(ctx)
    if "ctx_history" in r:
        ctx._nreplay = 1000
        prog = ctx_prog_from_json(r["ctx_history"])
        print("\n".join(ctx_prog_str(prog)))
        mark_theory_scopes(prog)

        def judge(case, res):
            c = dict(case)
            c["ctx_history"] = prog
            print("  ->", res if res[0] != "ok" else tm_str(res[1]))
            oracle(ctx, c, res, sig if not c.get("_empty_theory") else empty_theory_sig())
        exec_ctx_program(ctx, prog, sig, judge, 60)
        for v in ctx.violations:
            print("still fails:", v[1])
        return bool(ctx.violations)
    if "history" in r:
        ctx._nreplay = 1000
        replay_history(ctx, r["history"])
        for v in ctx.violations:
            print("still fails:", v[1])
        return bool(ctx.violations)
    case = {"kind": r["kind"], "skel": from_json(r["skel"]), "vars": {k: from_json(v) for k, v in r["vars"].items()},
            "svars": {k: from_json(v) for k, v in r["svars"].items()}, "forbid": r["forbid"],
            "defs": {k: from_json(v) for k, v in r.get("defs", {}).items()}}
    if "orig" in r:
        case["orig"] = from_json(r["orig"])
        case["declared"] = r.get("declared")
        case["must_recover"] = r.get("must_recover")
    res = run_impl(case, 60)
    ctx._nreplay = 1000          # do not overwrite the recorded replay files
    print("skeleton:", tm_str(case["skel"]))
    print("result:  ", res if res[0] != "ok" else tm_str(res[1]))
    oracle(ctx, case, res, sig)
    for v in ctx.violations:
        print("still fails:", v[1])
    return bool(ctx.violations)


MANIFEST = {
    "text": "Lean theorems about an executable model of type_infer (uf / reach / union / unify / infer / final loop, with the fixes "
            "C08-1 .. C08-4): infer_sound, without hypotheses (a returned term type-checks, has the skeleton's shape, keeps every annotation and "
            "declared type, gives the occurrences of a variable whose type is missing one type per name, constants at instances of their "
            "signature type or of the type ctxt.defs gives for the constant being defined, no internal type variable left; a given type using a "
            "reserved name ?'_t... is rejected with type_infer's own error), unify_sound "
            "(uf solves every equation unified so far), unify_fuel_suffices (unify never runs out of fuel >= (n+1)(S+1)+S+2: termination of "
            "the recursive unify, by a chain/measure argument on the union-find + reach-set state), unify_complete + unify_most_general "
            "(if some substitution solves uf and unifies A and B, unify succeeds and keeps it: the solved form has exactly the unifiers), "
            "infer_state_good (every state the traversal reaches satisfies the invariants these need), type_infer_total (some fuel is "
            "always enough: the whole of type_infer terminates), erasure_recovery (variable types dropped, variables declared, constant and "
            "binder types kept: exactly the original term comes back), infer_complete (a skeleton that has any well-typed completion is never "
            "rejected with a unification error: type_infer returns a term or reports 'unspecified type'), infer_principal (a returned term "
            "has every completion as a substitution instance) + infer_result_is_completion (it is itself a completion) + infer_principal_forbid (with forbid_internal the returned term is the only "
            "completion), erasure_recovery_all_levels (an erasure of a well-typed term at ANY level - dropped variable types declared, "
            "dropped constant types instances of the signature - is either reported under-determined or recovered exactly), "
            "union_preserves_reach + infer_preserves_reach + final_loop_terminates (the final "
            "substitution loop terminates on every state the traversal can reach). Model tied to syntax/infertype.py by differential runs on "
            "generated skeletons; the real type_infer is judged on every generated skeleton by an oracle that needs no model "
            "(checked_get_type, shape, annotations, declared types, instances, no _tN, exact recovery of erased well-typed terms, and an "
            "independent textbook unifier deciding typable / under-determined / untypable).",
    "note": "Trusted: Lean kernel, propext/Classical.choice/Quot.sound, the generators and reference unifier in harness/props/c08.py, "
            "kernel Term.checked_get_type. Both sentences of the property are now theorems about the model (infer_sound; infer_complete / "
            "infer_principal / erasure_recovery_all_levels), under explicit hypotheses: clean context (no reserved ?'_t... name in declared "
            "types and defs, signature types over TVars only), no reserved name in the skeleton's annotations, the completion type-checks with "
            "`fun` applied to exactly two types (checkedGetType2: Type.is_fun only looks at the name), ctxt.defs empty for the erasure "
            "corollary; the completion relation Compl takes a constant the theory knows at an instance of its theory type (defs only for "
            "unknown names and, via applyDefs, for the head of a definition). NOT proved: nothing about infer_printed_type; the "
            "correspondence model <-> Python is by differential runs. type_infer_total gives existence of enough fuel, not a closed "
            "formula for the whole traversal (unify_fuel_suffices gives the formula per unify call); the harness runs the model with "
            "fuel 100000 and reports a model fuel exhaustion as a broken correspondence. "
            "infer_printed_type is not modelled. Scope of 'gives all occurrences of a variable one type': the occurrences WITHOUT annotation "
            "(theorem: Respects.varFree / varDecl); an annotated occurrence (x::T) keeps T and, kernel variables being identified by name "
            "AND type, is a different variable from an x of another type - parse_term(\"(x::nat) = 0 & x\") returns x at nat and at bool; "
            "this is what the code does on purpose (the printer relies on it for legal terms with one name at two types) and is stated "
            "in the theorem comment, not treated as a violation. The kind of TypeInferenceException is not compared (message text only). "
            "History independence (each call sees the signature of the current theory only) is tested by in-process theory-switch histories; that "
            "an exception leaving `with fresh_context` / `with fresh_theory` restores the enclosing declarations / theory is tested by "
            "context-API histories (syntax.settings.global_setting is not read by type_infer and belongs to the printer, C07).",
    "design_ref": "DESIGN.md 4/C08",
}
FINDINGS = [
    {"status": "fixed", "key": "reserved-type-variable-name:KeyError", "commit": "145d167",
     "what": "parse_term(\"(x::?'_t1) = (y::?'_t0) & f x & f y\"): KeyError - a user type variable whose name starts with _t is taken for "
             "one of type_infer's internal variables (is_internal_type is name.startswith('_t'))"},
    {"status": "fixed", "key": "reserved-type-variable-name:ValueError", "commit": "145d167",
     "what": "parse_term(\"(x::?'_tx) = y\"): ValueError from int('x')"},
    {"status": "fixed", "key": "reserved-type-variable-name:accepted", "commit": "145d167",
     "what": "with x :: ?'_t0 declared in the context, `x = y & y` is accepted and gives x the type bool (declared type not respected)"},
    {"status": "fixed", "key": "defs-head-annotation-overwritten", "commit": "12adf30",
     "what": "under Context(defs={f: nat => nat}) the annotation in `(f::bool => bool) x = x` is replaced by nat => nat "
             "(or a typable definition is rejected with a clash)"},
    {"status": "fixed", "key": "occurs-check-escaped", "commit": "01d352f",
     "what": "type_infer on `x y & y z & z x` (any occurs-check cycle through a third variable): union() updated reach only for the merged "
             "class, the cycle was not detected and the final substitution loop grew the types until RecursionError"},
    {"status": "fixed", "key": "type-constructor-arity-mismatch", "commit": "06c067b",
     "what": "type_infer on `(x::(nat,nat) list) = (y::nat list)`: IndexError, and with the sides swapped a result that fails "
             "checked_get_type (unify ignored surplus type arguments)"},
]
