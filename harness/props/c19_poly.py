"""C19 -- correspondence + exact oracle for `poly.normalize` on the polynomial / rational-function fragment.

Fragment: Var, rational Const, + - * /, unary minus, ^ with an integer constant exponent.  The Lean model
(lean/Holpy/C19/Poly.lean: normalizeM) mirrors to_poly / from_poly statement by statement; `Conditions.is_nonzero`
is an oracle of the model: the answers the REAL run obtained (recorded through a subclass of Conditions that only
observes the top-level calls made by poly.collect_pairs_power) are passed to the model.

Compared per case (structurally, on canonical s-expressions): the real normalize result / ZeroDivisionError against
the model's answer.  The model answers `unsupported` where the code leaves the fragment (fractional or symbolic
exponents, 0 ^ k with k <= 0 inside a constant, functions ...): such cases are counted, not compared.
Judged per case on the REAL output, in exact rational arithmetic: at rational points satisfying the conditions where
the input is defined (no division by zero, no 0 ^ k with k <= 0) the output must be defined and have the same value.
"""
from fractions import Fraction
import time

from harness.common import sexp
from harness.common.ctx import time_limit, Timeout


def in_fragment(E, e, strict=True):
    """strict: exponents are integer constants."""
    ty = e.ty
    if ty in (E.VAR, E.CONST):
        return True
    if ty == E.OP:
        if len(e.args) == 1:
            return in_fragment(E, e.args[0], strict)
        if e.op not in ("+", "-", "*", "/", "^"):
            return False
        if e.op == "^" and strict:
            b = e.args[1]
            if not (b.ty == E.CONST and Fraction(b.val).denominator == 1):
                # a constant exponent expression such as -(2) or 1 + 1 is folded by to_const_poly: allowed
                if not (b.is_constant() and in_fragment(E, b, strict)):
                    return False
        return all(in_fragment(E, a, strict) for a in e.args)
    return False


class Undefined(Exception):
    pass


def exact(E, e, env):
    """Exact value in Q; Undefined on x / 0 and 0 ^ k (k <= 0) and non-integer exponents."""
    ty = e.ty
    if ty == E.VAR:
        return env[e.name]
    if ty == E.CONST:
        return Fraction(e.val)
    if len(e.args) == 1:
        return -exact(E, e.args[0], env)
    a, b = exact(E, e.args[0], env), exact(E, e.args[1], env)
    if e.op == "+":
        return a + b
    if e.op == "-":
        return a - b
    if e.op == "*":
        return a * b
    if e.op == "/":
        if b == 0:
            raise Undefined("division by zero")
        return a / b
    if b.denominator != 1 or abs(b) > 40:
        raise Undefined("exponent")
    if a == 0 and b <= 0:
        raise Undefined("0 ^ nonpositive")
    return a ** int(b)


def cond_ok(E, c, env):
    try:
        a, b = exact(E, c.args[0], env), exact(E, c.args[1], env)
    except Exception:  # noqa
        return False
    return {"<": a < b, "<=": a <= b, ">": a > b, ">=": a >= b, "!=": a != b, "=": a == b}[c.op]


def gen_frag(E, rng, depth, names, nearmiss=False):
    def const():
        r = rng.random()
        if r < 0.55:
            return E.Const(rng.choice([0, 1, 1, 2, 2, 3, 4, 5, 6, 12]))
        if r < 0.75:
            return E.Const(-rng.choice([1, 1, 2, 3]))
        q = Fraction(rng.choice([1, -1, 2, 3, -3, 5]), rng.choice([2, 3, 4, 6]))
        return E.Const(q if q.denominator != 1 else int(q))

    def rec(d):
        r = rng.random()
        if d == 0 or r < 0.12:
            return E.Var(rng.choice(names)) if rng.random() < 0.65 else const()
        k = rng.random()
        if k < 0.22:
            return E.Op("+", rec(d - 1), rec(d - 1))
        if k < 0.36:
            return E.Op("-", rec(d - 1), rec(d - 1))
        if k < 0.60:
            return E.Op("*", rec(d - 1), rec(d - 1))
        if k < 0.76:
            return E.Op("/", rec(d - 1), rec(d - 1))
        if k < 0.84:
            return E.Op("-", rec(d - 1))
        base = rec(d - 1)
        if nearmiss and rng.random() < 0.15:
            ex = rng.choice([E.Const(Fraction(1, 2)), E.Var("y"), E.Const(Fraction(-1, 3)), E.Op("/", E.Const(1), E.Const(2))])
        elif rng.random() < 0.12:
            ex = E.Op("-", E.Const(rng.choice([1, 2])))            # -(2): a constant expression, folded
        else:
            ex = E.Const(rng.choice([0, 1, 2, 2, 2, 3, 3, 4, -1, -1, -2, -3]))
        return E.Op("^", base, ex)
    return rec(depth)


CORPUS = [
    "x / x", "x * x ^ (-1)", "x ^ 2 / x", "x ^ 2 * x ^ (-1)", "x ^ (-1) * x ^ 2", "x ^ 2 * x ^ 3", "x ^ (-2) * x ^ (-3)", "(x + 1) ^ 2 / (x + 1)",
    "(x + 1) * (x - 1)", "(x + 1) ^ 2", "(x + 1) ^ 3", "(x + y) * (x - y)", "x - x", "(x - x) ^ 0", "(x - x) ^ 2", "(x - x) ^ (-1)", "1 / (x - x)",
    "x / (y - y)", "(x - x) / (y - y)", "0 / (y - y)", "x ^ 0", "(x + 1) ^ 0", "(2 * x) ^ (-2)", "(-2 * x) ^ 3", "(-x) ^ 2", "(-x) ^ 3", "-(x ^ 2)",
    "1 / (1 / x)", "1 / (x / y)", "(x / y) / (y / x)", "(x / y) ^ (-2)", "x / (x + 1) + 1 / (x + 1)", "(x + 1) / (x + 1)", "(x + 1) / (1 + x)",
    "x * (y + 1)", "(y + 1) * x", "(x + 1) * (y + 1)", "(x + 1) * (y + 1) * (x + 1)", "2 * x + 3 * x", "x * 2 + x / 2", "x / 2", "x / (-2)", "-x / 2",
    "x * y - y * x", "x * y + y * x", "y * x ^ 2 + x * y ^ 2 + x ^ 2 * y", "3 - x", "-3 + x", "-x - 1", "-(x + 1)", "-(x - 1) * 2", "x - (-1/2)",
    "1 / 2 * x - 1 / 3", "0 ^ 0", "0 ^ 0 * x", "0 ^ (-1) + x", "2 ^ 3 * x", "2 ^ (-2) * x", "(1/2) ^ (-2) + x", "(-2) ^ 3 * x", "(2 / 4) * x",
    "x ^ 1", "(x ^ 2) ^ 3", "(x ^ 2) ^ (-1)", "(x ^ (-1)) ^ (-1)", "(x * y) ^ 2", "(x * y ^ (-1)) ^ (-2)", "x ^ 2 ^ 2", "1 ^ x", "1 ^ (x + 1)", "(x + 1 - x) ^ y",
    "x * x", "x * x * x / x", "x / x * x", "x / x / x", "y / x * x", "(x + y) / (x + y) ^ 2", "(x + y) ^ 2 / (x + y) ^ 2", "(x + y) ^ (-1) * (x + y)",
    "z * y * x", "z + y + x", "z ^ 2 + y ^ 3 + x", "a * x + A * x", "x * 4 - x * 4 + y", "(1 + 2) * x", "x ^ (1 + 1)", "x ^ (-(2))", "x ^ (2 - 3)",
    "1 / x + 1 / x", "1 / x - 1 / x", "1 / x * x", "2 / x * (x / 2)", "-1 * x", "-1 * x * y", "x * -1", "(-1) ^ 2 * x", "(-1) ^ 3 * x", "1 / (-x)", "-(1 / x)",
    "(-3/2) * x * y ^ (-1)", "x / 3 / y", "(x + 1/2) ^ 2 - x ^ 2 - x", "(x ^ 2 + 1) / (x ^ 2 + 1) ^ 2", "x ^ 2 / (x ^ 2 + 1) * (x ^ 2 + 1)"]

CONDS = [[], [], [], ["x > 0"], ["x != 0"], ["x > 0", "y > 0"], ["y != 0"], ["x < 0"], ["x >= 0"], ["x != 0", "y != 0"], ["x > 1", "y < -1"]]


def make_rec_conds(I):
    Base = I.conditions.Conditions

    class RecConds(Base):
        """Conditions that remember what is_nonzero answered to its callers outside this class."""
        def __init__(self, conds=None):
            super().__init__(conds)
            self._depth = 0
            self.rec = {}

        def is_nonzero(self, e):
            self._depth += 1
            try:
                r = super().is_nonzero(e)
            finally:
                self._depth -= 1
            if self._depth == 0:
                self.rec[e] = bool(r)
            return r
    return RecConds


def poly_cases(ctx, I, H, cases, rng, stream="poly"):
    """cases: list of (expr, [cond exprs]).  Runs the real normalize, the model, compares, judges the real output."""
    E = I.expr
    RecConds = make_rec_conds(I)
    lines, kept = [], []
    for e, conds in cases:
        sx = H.to_sexp(E, e)
        if sx is None:
            continue
        C = RecConds(conds)
        try:
            with H.quiet():
                with time_limit(10):
                    st, r = "ok", I.poly.normalize(e, C)
        except Timeout:
            ctx.count(stream + ":impl-timeout")
            continue
        except ZeroDivisionError:
            st, r = "zerodiv", None
        except Exception as ex:  # noqa
            st, r = "raises:" + type(ex).__name__, None
        nz = []
        bad_nz = False
        for b, ans in C.rec.items():
            if ans:
                bs = H.to_sexp(E, b)
                if bs is None:
                    bad_nz = True
                else:
                    nz.append(bs)
        if bad_nz:
            ctx.count(stream + ":nonzero-query-outside-model")
            continue
        lines.append(sexp.dumps(["normalize", nz, sx]))
        kept.append((e, conds, st, r, C))
    out = ctx.lean_driver(H.EXE, lines)
    if out is None:
        ctx.broken("correspondence:c19:driver", "model driver unavailable")
        return
    nbad = 0
    for (e, conds, st, r, C), ml in zip(kept, out):
        frag = in_fragment(E, e)
        ctx.case((stream, str(e), tuple(str(c) for c in conds)), nontrivial=frag and e.ty == E.OP)
        if ml == "unsupported":
            ctx.count(stream + ":model-unsupported:" + ("in-fragment" if frag else "outside-fragment"))
        elif ml in ("(timeout)", "(crash)", "bad-op"):
            ctx.count(stream + ":model-" + ml.strip("()"))
            if ml != "(timeout)":
                ctx.broken("correspondence:c19:" + stream, "model driver answers %s on %s" % (ml, e))
        else:
            if st == "ok":
                rs = H.to_sexp(E, r)
                real = "(ok %s)" % H.canon(rs) if rs is not None else "outside-sexp:" + str(r)
            else:
                real = st
            if ml == real:
                ctx.count(stream + ":identical:" + ("ok" if st == "ok" else st))
            else:
                ctx.count(stream + ":differs")
                nbad += 1
                if nbad <= 3:
                    ctx.broken("correspondence:c19:" + stream, "normalize(%s) under [%s] (is_nonzero true for %s): impl=%s model=%s" % (
                        e, ", ".join(map(str, conds)), [str(b) for b, a in C.rec.items() if a], r if st == "ok" else st, ml[:300]))
        # ---- property oracle on the real output: exact rational evaluation ----
        if st != "ok" or not in_fragment(E, e, strict=False) or not in_fragment(E, r, strict=False):
            continue
        names = sorted(e.get_vars() | r.get_vars())
        judged = 0
        for t in range(40):
            if judged >= 4:
                break
            env = {}
            for n_ in names:
                if t < 6 and rng.random() < 0.4:
                    env[n_] = Fraction(rng.choice([0, 0, 1, -1, 2, -2]))       # the points where side conditions bite
                else:
                    env[n_] = Fraction(rng.randint(-9, 9), rng.choice([1, 1, 2, 3]))
            if not all(cond_ok(E, c, env) for c in conds):
                continue
            try:
                a = exact(E, e, env)
            except Undefined:
                continue
            judged += 1
            try:
                b = exact(E, r, env)
            except Undefined as u:
                b = "undefined (%s)" % u
            if a != b:
                ctx.violation("normalize-value:" + str(e) + (" | " + ", ".join(str(c) for c in conds) if conds else ""),
                              "normalize(%s) = %s under [%s]: exact value %s becomes %s at %s" % (
                                  e, r, ", ".join(map(str, conds)), a, b, {k: str(v) for k, v in env.items()}),
                              {"kind": "normalize", "expr": str(e), "conds": [str(c) for c in conds], "what": "value",
                               "env": {k: float(v) for k, v in env.items()}})
                break
        ctx.count(stream + ":exact-oracle:" + ("checked" if judged else "no-admissible-point"))


def expr_lt_cases(ctx, I, H, exprs, rng):
    """Expr.__lt__ (the order every sort in poly.py uses) against ltE on pairs of fragment expressions."""
    E = I.expr
    pairs, lines = [], []
    for _ in range(min(600, len(exprs) * 2)):
        a, b = rng.choice(exprs), rng.choice(exprs)
        pairs.append((a, b))
        lines.append(sexp.dumps(["exprlt", H.to_sexp(E, a), H.to_sexp(E, b)]))
    out = ctx.lean_driver(H.EXE, lines)
    if out is None:
        return
    nbad = 0
    for (a, b), ml in zip(pairs, out):
        try:
            real = "T" if a < b else "F"
        except Exception as ex:  # noqa
            real = "raises:" + type(ex).__name__
        ctx.count("poly:exprlt:" + ("agree" if real == ml else "differ"))
        if real != ml:
            nbad += 1
            if nbad <= 3:
                ctx.broken("correspondence:c19:poly-exprlt", "(%s) < (%s): impl=%s model=%s" % (a, b, real, ml))


def subterms(E, e, acc):
    """Maximal fragment subexpressions (non-atomic) of an arbitrary calculator expression."""
    if e.ty == E.OP and in_fragment(E, e):
        acc.append(e)
        return
    for attr in ("args",):
        for a in getattr(e, attr, ()) or ():
            if hasattr(a, "ty"):
                subterms(E, a, acc)
    for attr in ("body", "lower", "upper", "lim"):
        a = getattr(e, attr, None)
        if a is not None and hasattr(a, "ty"):
            subterms(E, a, acc)


def poly_model_stream(ctx, I, H, n):
    E = I.expr
    rng = ctx.rng("poly-model")
    with H.quiet():
        P = I.parser.parse_expr
        cases = []
        V, K, O = E.Var, E.Const, E.Op
        direct = [O("*", V("x"), O("/", K(1), K(0))), O("/", K(1), K(0)), O("+", V("x"), O("/", K(2), K(4))), O("^", V("x"), K(Fraction(2, 1))),
                  O("*", O("/", K(6), K(4)), V("x")), O("/", V("x"), O("-", K(1), K(1))), O("^", O("-", K(1), K(1)), K(0)),
                  O("*", V("x"), O("^", K(0), K(2))), O("^", K(2), O("-", K(1)))]
        for e in [P(s) for s in CORPUS] + direct:
            cases.append((e, []))
            cases.append((e, [P(c) for c in rng.choice(CONDS[3:])]))
        for k in range(n):
            names = rng.choice([("x",), ("x", "y"), ("x", "x", "y"), ("x", "y", "z")])
            e = gen_frag(E, rng, rng.choice([1, 2, 2, 3, 3, 4]), names, nearmiss=(k % 5 == 0))
            cases.append((e, [P(c) for c in rng.choice(CONDS)]))
    t0 = time.time()
    poly_cases(ctx, I, H, cases, rng)
    exprs = [e for e, _ in cases if in_fragment(E, e)]
    pool = []
    for e in exprs[:300]:
        pool.append(e)
        if e.ty == E.OP:
            pool.extend(a for a in e.args)
    expr_lt_cases(ctx, I, H, pool, rng)
    ctx.log("poly model stream: %d cases in %.1fs" % (len(cases), time.time() - t0))


def poly_examples_stream(ctx, I, H, strings, limit):
    """Every maximal fragment subexpression of the expressions recorded in integral/examples (the inputs and outputs
    of the recorded Simplify steps among them), under no conditions and under x > 0."""
    E = I.expr
    rng = ctx.rng("poly-examples")
    seen, cases = set(), []
    with H.quiet():
        P = I.parser.parse_expr
        pos = {}
        for s in strings:
            try:
                e = P(s)
            except Exception:  # noqa
                continue
            acc = []
            subterms(E, e, acc)
            for t in acc:
                k = str(t)
                if k in seen:
                    continue
                seen.add(k)
                cases.append((t, []))
    ctx.count("poly-examples:distinct-fragment-subexpressions", len(cases))
    if len(cases) > limit:
        cases = rng.sample(cases, limit)
    poly_cases(ctx, I, H, cases, rng, stream="poly-examples")
