"""C02 — the checker accepts only well-founded, fully justified, gap-free proofs.

Stages: (1) `ItemID` methods and `Thm.can_prove` translated from the Python AST into
lean/Holpy/C02/Gen.lean, Lean obligations (Holpy.C02.Props) + driver; (2) correspondence: the real
`theory.check_proof` / `checked_extend` / `Proof.find_item` / `ItemID` against the Lean model on
generated proof objects over a toy rule set that is registered as holpy macros for the duration of
the run (and implemented identically in Holpy/C02/Toy.lean); (3) property oracle on the
implementation: an independent reference checker (document-order replay: an item may use only
sequents the replay has itself verified earlier and that are visible from the item) judges every
proof the implementation accepts; `checked_extend` is judged on (theorem, proof) pairs.
"""
import ast
import itertools
import json
import os
import re

from harness.common import sexp
from harness.common.ctx import Timeout, time_limit

EXE = "c02_model"
FUEL = 64

# =============================================================================================
# 1. Python -> Lean translator for straight-line tuple code (deliberately tiny)
# =============================================================================================


class Untranslatable(Exception):
    pass


T_INT, T_TUP, T_BOOL, T_SEQ, T_HYPS, T_PROP = "Int", "List Int", "Bool", "Seq", "List Nat", "Nat"
CLASS_TY = {"ItemID": T_TUP, "Thm": T_SEQ}
FIELDS = {(T_TUP, "id"): (None, T_TUP), (T_SEQ, "prop"): ("concl", T_PROP), (T_SEQ, "hyps"): ("hyps", T_HYPS)}


class FnTr:
    """One straight-line method -> one Lean definition returning `Option τ` (none = IndexError).
    Subset: if/elif/else, return, assignment to a name, len, indexing, slicing, + - on ints,
    + on tuples, tuple displays, comparisons, and/or/not, ItemID(...), set(a).issubset(set(b))."""

    def __init__(self, cls, fn):
        self.cls, self.fn, self.env, self.n, self.ret = cls, fn, {}, 0, None

    def stop(self, node, why=None):
        raise Untranslatable("%s.%s: %s" % (self.cls, self.fn.name, why or ast.dump(node)[:80]))

    def fresh(self):
        self.n += 1
        return "x%d" % self.n

    def ann(self, a):
        if a is None:
            return CLASS_TY[self.cls]          # unannotated parameter: same class as self
        if isinstance(a, ast.Constant) and a.value in CLASS_TY:
            return CLASS_TY[a.value]
        if isinstance(a, ast.Name) and a.id == "int":
            return T_INT
        if isinstance(a, ast.Name) and a.id in CLASS_TY:
            return CLASS_TY[a.id]
        self.stop(a, "annotation")

    def opt(self, r):
        c, t, p = r
        return c if not p else "(some %s)" % c

    def lift(self, parts, build, ty):
        """parts: translated operands (evaluated left to right); build(pure codes) -> pure code."""
        names, binds = [], []
        for c, t, p in parts:
            if p:
                names.append(c)
            else:
                x = self.fresh()
                names.append(x)
                binds.append((x, c))
        code = build(names)
        if not binds:
            return code, ty, True
        out = "(some %s)" % code
        for x, c in reversed(binds):
            out = "(%s.bind fun %s => %s)" % (c, x, out)
        return out, ty, False

    def expr(self, e):
        if isinstance(e, ast.Name):
            if e.id not in self.env:
                self.stop(e, "unknown name " + e.id)
            return e.id, self.env[e.id], True
        if isinstance(e, ast.Constant):
            if isinstance(e.value, bool):
                return ("true" if e.value else "false"), T_BOOL, True
            if isinstance(e.value, int):
                return "(%d : Int)" % e.value, T_INT, True
            self.stop(e, "constant")
        if isinstance(e, ast.UnaryOp) and isinstance(e.op, ast.USub):
            r = self.expr(e.operand)
            if r[1] != T_INT:
                self.stop(e, "negation of non-int")
            return self.lift([r], lambda a: "(-%s)" % a[0], T_INT)
        if isinstance(e, ast.UnaryOp) and isinstance(e.op, ast.Not):
            r = self.expr(e.operand)
            if r[1] != T_BOOL:
                self.stop(e, "not of non-bool")
            return self.lift([r], lambda a: "(!%s)" % a[0], T_BOOL)
        if isinstance(e, ast.Attribute):
            r = self.expr(e.value)
            key = (r[1], e.attr)
            if key not in FIELDS:
                self.stop(e, "attribute ." + e.attr)
            f, ty = FIELDS[key]
            return self.lift([r], lambda a: a[0] if f is None else "%s.%s" % (a[0], f), ty)
        if isinstance(e, ast.Tuple):
            parts = [self.expr(x) for x in e.elts]
            if any(p[1] != T_INT for p in parts):
                self.stop(e, "tuple of non-ints")
            return self.lift(parts, lambda a: "[%s]" % ", ".join(a), T_TUP)
        if isinstance(e, ast.BinOp):
            l, r = self.expr(e.left), self.expr(e.right)
            if isinstance(e.op, (ast.Add, ast.Sub)) and l[1] == r[1] == T_INT:
                op = "+" if isinstance(e.op, ast.Add) else "-"
                return self.lift([l, r], lambda a: "(%s %s %s)" % (a[0], op, a[1]), T_INT)
            if isinstance(e.op, ast.Add) and l[1] == r[1] == T_TUP:
                return self.lift([l, r], lambda a: "(%s ++ %s)" % (a[0], a[1]), T_TUP)
            self.stop(e, "binary operator")
        if isinstance(e, ast.Compare):
            if len(e.ops) != 1:
                self.stop(e, "chained comparison")
            l, r = self.expr(e.left), self.expr(e.comparators[0])
            op = e.ops[0]
            if l[1] != r[1]:
                self.stop(e, "comparison of %s with %s" % (l[1], r[1]))
            if isinstance(op, (ast.Eq, ast.NotEq)) and l[1] in (T_INT, T_TUP, T_PROP, T_BOOL, T_HYPS):
                s = "==" if isinstance(op, ast.Eq) else "!="
                return self.lift([l, r], lambda a: "(%s %s %s)" % (a[0], s, a[1]), T_BOOL)
            tab = {ast.Lt: "<", ast.LtE: "≤", ast.Gt: ">", ast.GtE: "≥"}
            if type(op) in tab and l[1] == T_INT:
                return self.lift([l, r], lambda a: "(decide (%s %s %s))" % (a[0], tab[type(op)], a[1]), T_BOOL)
            self.stop(e, "comparison")
        if isinstance(e, ast.BoolOp):
            vals = [self.expr(v) for v in e.values]
            if any(v[1] != T_BOOL for v in vals):
                self.stop(e, "and/or of non-bool")
            is_and = isinstance(e.op, ast.And)
            cur = vals[-1]
            for v in reversed(vals[:-1]):          # short-circuit, left to right
                if v[2] and cur[2]:
                    cur = ("(%s %s %s)" % (v[0], "&&" if is_and else "||", cur[0]), T_BOOL, True)
                else:
                    x = v[0] if v[2] else self.fresh()
                    body = ("(if %s then %s else (some false))" if is_and else "(if %s then (some true) else %s)") % (x, self.opt(cur))
                    cur = (body if v[2] else "(%s.bind fun %s => %s)" % (v[0], x, body), T_BOOL, False)
            return cur
        if isinstance(e, ast.Subscript):
            t = self.expr(e.value)
            if t[1] != T_TUP:
                self.stop(e, "subscript of non-tuple")
            if isinstance(e.slice, ast.Slice):
                if e.slice.step is not None:
                    self.stop(e, "slice step")
                parts, shape = [t], []
                for b in (e.slice.lower, e.slice.upper):
                    if b is None:
                        shape.append(None)
                    else:
                        r = self.expr(b)
                        if r[1] != T_INT:
                            self.stop(e, "slice bound")
                        parts.append(r)
                        shape.append(len(parts) - 1)
                return self.lift(parts, lambda a: "(pySlice %s %s %s)" % (
                    a[0], *["none" if s is None else "(some %s)" % a[s] for s in shape]), T_TUP)
            i = self.expr(e.slice)
            if i[1] != T_INT:
                self.stop(e, "index")
            c, _, p = self.lift([t, i], lambda a: "(pyIdx %s %s)" % (a[0], a[1]), T_INT)
            if p:                                   # operands pure: `pyIdx t i` is the Option itself
                return c, T_INT, False
            x = self.fresh()
            return "(%s.bind fun %s => %s)" % (c, x, x), T_INT, False
        if isinstance(e, ast.Call):
            if isinstance(e.func, ast.Name) and e.func.id == "len" and len(e.args) == 1:
                r = self.expr(e.args[0])
                if r[1] != T_TUP:
                    self.stop(e, "len of non-tuple")
                return self.lift([r], lambda a: "(pyLen %s)" % a[0], T_INT)
            if isinstance(e.func, ast.Name) and e.func.id in CLASS_TY and len(e.args) == 1 and not e.keywords:
                r = self.expr(e.args[0])
                if r[1] != CLASS_TY[e.func.id]:
                    self.stop(e, "constructor argument")
                return r
            f = e.func
            if (isinstance(f, ast.Attribute) and f.attr == "issubset" and isinstance(f.value, ast.Call)
                    and isinstance(f.value.func, ast.Name) and f.value.func.id == "set" and len(f.value.args) == 1
                    and len(e.args) == 1 and isinstance(e.args[0], ast.Call) and isinstance(e.args[0].func, ast.Name)
                    and e.args[0].func.id == "set" and len(e.args[0].args) == 1):
                a, b = self.expr(f.value.args[0]), self.expr(e.args[0].args[0])
                if a[1] != T_HYPS or b[1] != T_HYPS:
                    self.stop(e, "issubset of non-hyps")
                return self.lift([a, b], lambda x: "(pySubset %s %s)" % (x[0], x[1]), T_BOOL)
            self.stop(e, "call")
        self.stop(e)

    def block(self, stmts):
        if not stmts:
            raise Untranslatable("%s.%s: path without return" % (self.cls, self.fn.name))
        s, rest = stmts[0], stmts[1:]
        if isinstance(s, ast.Expr) and isinstance(s.value, ast.Constant) and isinstance(s.value.value, str):
            return self.block(rest)
        if isinstance(s, ast.Return):
            if s.value is None:
                self.stop(s, "bare return")
            r = self.expr(s.value)
            if self.ret is None:
                self.ret = r[1]
            elif self.ret != r[1]:
                self.stop(s, "return types differ")
            return self.opt(r)
        if isinstance(s, ast.Assign):
            # `a, b = e1, e2` with plain names that the right-hand sides do not mention is the same as two
            # assignments in a row
            if (len(s.targets) == 1 and isinstance(s.targets[0], ast.Tuple) and isinstance(s.value, ast.Tuple)
                    and len(s.targets[0].elts) == len(s.value.elts)
                    and all(isinstance(t, ast.Name) for t in s.targets[0].elts)):
                names = {t.id for t in s.targets[0].elts}
                used = {n.id for v in s.value.elts for n in ast.walk(v) if isinstance(n, ast.Name)}
                if len(names) == len(s.targets[0].elts) and not (names & used):
                    seq = [ast.copy_location(ast.Assign(targets=[t], value=v), s)
                           for t, v in zip(s.targets[0].elts, s.value.elts)]
                    return self.block(seq + rest)
            if len(s.targets) != 1 or not isinstance(s.targets[0], ast.Name):
                self.stop(s, "assignment target")
            r = self.expr(s.value)
            name = s.targets[0].id
            self.env[name] = r[1]
            body = self.block(rest)
            if r[2]:
                return "let %s : %s := %s\n  %s" % (name, r[1], r[0], body)
            return "%s.bind fun %s =>\n  %s" % (r[0], name, body)
        if isinstance(s, ast.If):
            c = self.expr(s.test)
            if c[1] != T_BOOL:
                self.stop(s, "condition is not a bool")
            if s.orelse and rest:
                self.stop(s, "code after if/else")
            env0 = dict(self.env)
            a = self.block(s.body)
            self.env = dict(env0)
            b = self.block(s.orelse if s.orelse else rest)
            if c[2]:
                return "if %s then %s\n  else %s" % (c[0], a, b)
            x = self.fresh()
            return "%s.bind fun %s =>\n  if %s then %s\n  else %s" % (c[0], x, x, a, b)
        self.stop(s, "statement " + type(s).__name__)

    def run(self):
        a = self.fn.args
        if a.vararg or a.kwarg or a.kwonlyargs or a.defaults or a.posonlyargs:
            self.stop(self.fn, "parameter kinds")
        params = []
        for i, p in enumerate(a.args):
            ty = CLASS_TY[self.cls] if i == 0 else self.ann(p.annotation)
            self.env[p.arg] = ty
            params.append("(%s : %s)" % (p.arg, ty))
        body = self.block(self.fn.body)
        return "def %s %s : Option (%s) :=\n  %s\n" % (self.fn.name, " ".join(params), self.ret, body)


WANTED = [("kernel/proof.py", "ItemID", ["incr_id_after", "incr_id", "decr_id", "last", "can_depend_on"]),
          ("kernel/thm.py", "Thm", ["can_prove"])]


def translate(repo):
    out = ["/- GENERATED by harness/props/c02.py from kernel/proof.py (class ItemID) and kernel/thm.py (Thm.can_prove);",
           "   do not edit.  Every definition returns `Option`: `none` is Python's IndexError. -/",
           "import Holpy.C02.Py", "namespace Holpy.C02.Gen", "open Holpy.C02", ""]
    for path, cls, names in WANTED:
        with open(os.path.join(repo, path), encoding="utf-8") as f:
            tree = ast.parse(f.read())
        cdef = [n for n in tree.body if isinstance(n, ast.ClassDef) and n.name == cls]
        if not cdef:
            raise Untranslatable("class %s not found" % cls)
        fns = {n.name: n for n in cdef[0].body if isinstance(n, ast.FunctionDef)}
        for nm in names:
            if nm not in fns:
                raise Untranslatable("%s.%s not found" % (cls, nm))
            out.append("/- %s.%s -/" % (cls, nm))
            out.append(FnTr(cls, fns[nm]).run())
    out.append("end Holpy.C02.Gen")
    return "\n".join(out) + "\n"


# =============================================================================================
# 2. The toy rule layer (pure, on codes) -- mirrored by lean/Holpy/C02/Toy.lean
#    sequent = (tuple(sorted hyps), concl); ARG = None | int | str | list
# =============================================================================================
class ToyErr1(Exception):
    pass


class ToyErr2(Exception):
    pass


class ToyInvalid(Exception):      # stands for InvalidDerivationException in the pure layer
    pass


class ToyType(Exception):         # stands for TypeError in the pure layer
    pass


class ToyAssert(Exception):       # stands for AssertionError in the pure layer
    pass


class ToyTheory(Exception):
    pass


LEVEL0 = ("verif_ax", "verif_id", "verif_weaken", "verif_cut", "verif_join")


def toy_kind(rule):
    if rule in ("assume", "implies_elim"):
        return ("prim", None)
    if rule in LEVEL0:
        return ("macro", 0)
    if rule == "verif_exp":
        return ("macro", 1)
    if rule == "verif_exp2":
        return ("macro", 2)
    return None


def mk(hyps, c):
    return (tuple(sorted(set(hyps))), c)


def is_nat(a):
    return isinstance(a, int) and not isinstance(a, bool) and a >= 0


def arg_seq(a):
    if isinstance(a, (list, tuple)) and len(a) == 2 and isinstance(a[0], (list, tuple)) and all(is_nat(h) for h in a[0]) and is_nat(a[1]):
        return mk(a[0], a[1])
    return None


def toy_sig_ok(rule, a):
    """`primitive_deriv[rule]` declares a Term argument for assume (the harness passes a term exactly
    for an int >= 0) and none for implies_elim."""
    return is_nat(a) if rule == "assume" else a is None


def toy_prim(rule, a, ps):
    if rule == "assume":
        if isinstance(a, int) and not ps:
            if a < 0:
                raise ToyAssert()
            return mk([a], a)
        if a is None and len(ps) == 1:
            raise ToyAssert()
        raise ToyType()
    if a is None and len(ps) == 2:
        raise ToyInvalid()
    raise ToyType()


def toy_eval(rule, a, ps):
    if rule == "verif_ax":
        s = arg_seq(a)
        if s is None:
            raise ToyErr1()
        return s
    if rule == "verif_id":
        if len(ps) != 1:
            raise ToyErr1()
        return ps[0]
    if rule == "verif_weaken":
        if not is_nat(a) or len(ps) != 1:
            raise ToyErr1()
        return mk(list(ps[0][0]) + [a], ps[0][1])
    if rule == "verif_cut":
        if len(ps) != 2:
            raise ToyErr1()
        p, q = ps
        if q[1] not in p[0]:
            raise ToyErr2()
        return mk([h for h in p[0] if h != q[1]] + list(q[0]), p[1])
    if rule == "verif_join":
        if not is_nat(a):
            raise ToyErr1()
        return mk([h for p in ps for h in (p[1],) + tuple(p[0])], a)
    if isinstance(a, (list, tuple)) and len(a) == 2:
        s = arg_seq(a[0])
        if s is not None:
            return s
    raise ToyErr1()


def id_spec(pre, prev_ids, a):
    if isinstance(a, (list, tuple)) and a and all(isinstance(x, int) for x in a):
        if a[0] == 0:
            return list(pre) + list(a[1:])
        if a[0] == 1:
            return list(a[1:])
        if a[0] == 2 and len(a) == 2 and 0 <= a[1] < len(prev_ids):
            return list(prev_ids[a[1]])
    return None


def item_spec(pre, prev_ids, a, fuel=8):
    """ITEMSPEC -> item [id, rule, args, prevs, th, sub] or None when malformed."""
    if fuel == 0 or not (isinstance(a, (list, tuple)) and len(a) == 6):
        return None
    i, rule, args, ps, th, sub = a
    if not isinstance(rule, str) or not isinstance(ps, (list, tuple)):
        return None
    id_ = id_spec(pre, prev_ids, i)
    prevs = [id_spec(pre, prev_ids, p) for p in ps]
    if id_ is None or any(p is None for p in prevs):
        return None
    if th is not None:
        th = arg_seq(th)
        if th is None:
            return None
        th = [list(th[0]), th[1]]
    if sub is not None:
        if not isinstance(sub, (list, tuple)):
            return None
        sub = [item_spec(pre, prev_ids, s, fuel - 1) for s in sub]
        if any(s is None for s in sub):
            return None
    return [id_, rule, args, prevs, th, sub]


def toy_expand(rule, pre, a, prev_ids):
    if isinstance(a, (list, tuple)) and len(a) == 2 and isinstance(a[1], (list, tuple)):
        items = [item_spec(pre, prev_ids, s) for s in a[1]]
        if all(i is not None for i in items):
            return items
    raise ToyErr1()


def toy_thm(thms, name):
    found = None
    for n, s in thms:
        if n == name:
            found = s
    if found is None or not isinstance(name, str):
        raise ToyTheory()
    s = mk(found[0], found[1])
    if s[0]:
        raise ToyInvalid()
    return s


def type_ok(s):
    ok = lambda c: c < 100 or c >= 200
    return ok(s[1]) and all(ok(h) for h in s[0])


def toy_var(a):
    """`variable` rule: arg k -> ⊢ _VAR v_k, coded 200+k."""
    if not is_nat(a):
        raise ToyErr1()
    return mk([], 200 + a)


# =============================================================================================
# 3. Binding the toy layer to holpy (macros registered for the duration of a run)
# =============================================================================================
class Env:
    """Everything that touches the implementation."""

    def __init__(self, ctx):
        from kernel import theory, extension, report
        from kernel.macro import Macro
        from kernel.proof import Proof, ProofItem, ItemID, ProofStateException
        from kernel.term import Const
        from kernel.thm import Thm, InvalidDerivationException
        from kernel.type import BoolType, TVar
        self.ctx = ctx
        self.theory, self.extension, self.report = theory, extension, report
        self.Proof, self.ProofItem, self.ItemID, self.Thm = Proof, ProofItem, ItemID, Thm
        self.ProofStateException = ProofStateException
        self.Const, self.BoolType, self.TVar = Const, BoolType, TVar
        self.log = []
        self.saved_thy = theory.thy
        self.registered = []
        env = self

        def make(name, level):
            class M(Macro):
                def __init__(self):
                    self.level = level
                    self.sig = None
                    self.limit = None

                def eval(self, args, prevs):
                    r = toy_eval(name, env.arg_back(args), [env.dec(p) for p in prevs])
                    env.log.append((name, r))
                    return env.thm(r)

                def expand(self, prefix, args, prevs):
                    items = toy_expand(name, list(prefix.id), env.arg_back(args), [list(i.id) for i, _ in prevs])
                    prf = Proof()
                    prf.items = [env.item(it) for it in items]
                    return prf
            M.__name__ = "Verif_" + name
            return M()
        for name in LEVEL0 + ("verif_exp", "verif_exp2"):
            if name in theory.global_macros:
                raise RuntimeError("macro name %s already taken" % name)
            theory.global_macros[name] = make(name, toy_kind(name)[1])
            self.registered.append(name)

    def close(self):
        for name in self.registered:
            self.theory.global_macros.pop(name, None)
        self.theory.thy = self.saved_thy

    # ---- codes <-> holpy objects
    def prop(self, n):
        if n >= 200:
            from kernel.term import Var
            from kernel.type import TFun
            return self.Const("_VAR", TFun(self.BoolType, self.BoolType))(Var("v%d" % (n - 200), self.BoolType))
        return self.Const("p%d" % n, self.BoolType) if n < 100 else self.Const("q%d" % n, self.TVar("a"))

    def thm(self, s):
        return self.Thm(self.prop(s[1]), tuple(self.prop(h) for h in sorted(set(s[0]))))

    def code(self, t):
        if t.is_comb() and t.fun.is_const() and t.fun.name == "_VAR" and t.arg.is_var() and re.fullmatch(r"v\d+", t.arg.name):
            return 200 + int(t.arg.name[1:])
        if not (t.is_const() and re.fullmatch(r"[pq]\d+", t.name)):
            raise ValueError("not a toy proposition: %r" % (t,))
        return int(t.name[1:])

    def dec(self, th):
        if th is None:
            return None
        return mk([self.code(h) for h in th.hyps], self.code(th.prop))

    def arg(self, rule, a):
        if rule == "assume" and isinstance(a, int) and a >= 0:
            return self.prop(a)
        if rule == "variable" and is_nat(a):
            return ("v%d" % a, self.BoolType)
        return to_tuple(a)

    def arg_back(self, a):
        return a

    def item(self, it):
        id_, rule, args, prevs, th, sub = it
        pi = self.ProofItem(tuple(id_), rule, args=self.arg(rule, args), prevs=[tuple(p) for p in prevs],
                            th=None if th is None else self.thm(mk(th[0], th[1])))
        if sub is not None:
            pi.subproof = self.Proof()
            pi.subproof.items = [self.item(s) for s in sub]
        return pi

    def proof(self, items, graph=None):
        """Proof object for a tree of item specs, or -- when `graph` is given -- the object graph it
        describes: {"items": {name: [id, rule, args, prevs, th, proof name|None]},
        "proofs": {name: [item names]}, "root": proof name}; one Python object per name, so a name
        used twice is ONE ProofItem / Proof object sitting at several places (cycles allowed)."""
        if graph is None:
            prf = self.Proof()
            prf.items = [self.item(it) for it in items]
            return prf
        iobj, pobj = {}, {}

        def mk_proof(pn):
            if pn not in pobj:
                pobj[pn] = self.Proof()
                pobj[pn].items = [mk_item(n) for n in graph["proofs"][pn]]
            return pobj[pn]

        def mk_item(n):
            if n not in iobj:
                id_, rule, args, prevs, th, sub = graph["items"][n]
                iobj[n] = self.ProofItem(tuple(id_), rule, args=self.arg(rule, args), prevs=[tuple(q) for q in prevs],
                                         th=None if th is None else self.thm(mk(th[0], th[1])))
                if sub is not None:
                    iobj[n].subproof = mk_proof(sub)
            return iobj[n]
        return mk_proof(graph["root"])

    # what the GLOBAL theory holds while a different Theory object does the checking: names the
    # object under test lacks, names it has with another statement; `verif_t1` is missing here
    DECOY = [("verif_missing", [[], 0]), ("verif_t0", [[], 5]), ("verif_t2", [[], 3]), ("verif_a", [[], 2]), ("verif_b", [[], 1]),
             ("verif_n0", [[], 0]), ("verif_new", [[], 1]), ("verif_c", [[], 0]), ("verif_last", [[], 2])]

    def fresh_theory(self, thms):
        """The Theory object under test (`self.T`) is built by hand and, three times out of four, is
        NOT the object bound to the global `kernel.theory.thy`: the global then is a decoy that
        differs from it on the names the cases cite (a checker that consults the global by mistake
        gets other answers).  Every fourth call the object under test is the global one, as usual."""
        T = self.theory.EmptyTheory()
        for name, s in thms:
            T.add_theorem(name, self.thm(mk(s[0], s[1])))
        self.T = T
        self.ncalls = getattr(self, "ncalls", 0) + 1
        if self.ncalls % 4 == 0:
            self.theory.thy = T
        else:
            decoy = self.theory.EmptyTheory()
            for name, s in self.DECOY:
                decoy.add_theorem(name, self.thm(mk(s[0], s[1])))
            self.theory.thy = decoy

    def tree(self, prf, pre=(), depth=0):
        """Statements left in the proof object at the positions the checker walks (top level and the
        contents of `subproof` blocks); other attached subproofs are not part of the outcome."""
        out = []
        for k, it in enumerate(prf.items):
            out.append((pre + (k,), self.dec(it.th)))
            if it.subproof is not None and it.rule == "subproof" and depth < 12:
                out += self.tree(it.subproof, pre + (k,), depth + 1)
        return out

    # ---- error classes
    MSG = [("does not match position", "id-mismatch"), ("empty line cannot", "empty-stated"), ("gaps are not allowed", "gaps"),
           ("cannot depend on", "cannot-depend"), ("previous item not found", "prev-not-found"), ("is None", "prev-none"),
           ("theorem not found", "theorem-not-found"), ("invalid derivation", "invalid-derivation"),
           ("invalid input to derivation", "invalid-input"), ("proof method not found", "method-not-found"),
           ("output does not match", "mismatch"), ("typing error", "typing"), ("does not conclude", "not-conclude")]

    def err_class(self, e):
        n = type(e).__name__
        if n == "CheckProofException":
            s = getattr(e, "str", "")
            for pat, cls in self.MSG:
                if pat in s:
                    return "check:" + cls
            return "check:?" + s[:40]
        if n == "AssertionError":
            return "assertion"
        if n in ("AttributeError", "IndexError", "TypeError", "KeyError"):
            return "crash"
        if n == "RecursionError":
            return "fuel"
        return {"InvalidDerivationException": "raised:invalid-derivation", "ToyInvalid": "raised:invalid-derivation",
                "TheoryException": "raised:theory", "ToyErr1": "raised:other1", "ToyErr2": "raised:other2"}.get(n, "raised:" + n)

    # ---- calls into the implementation
    def check(self, case, reuse=False, with_rpt=True):
        """case = {cfg: [no_gaps, compute_only, level], thms: [[name, seq]…], items: […]} -> canonical result.
        reuse=True: the call is made on the Theory object of the previous call (a history on one
        object); with_rpt=False: no ProofReport is passed (gaps / counters are then unknown: None)."""
        ng, co, lvl = case["cfg"]
        if not reuse:
            self.fresh_theory(case["thms"])
        prf = self.proof(case["items"], case.get("graph"))
        rpt = self.report.ProofReport() if with_rpt else None
        self.log = []
        try:
            with time_limit(30):
                th = self.T.check_proof(prf, rpt, no_gaps=ng, compute_only=co, check_level=lvl)
        except Timeout:
            raise
        except BaseException as e:  # noqa
            if isinstance(e, (KeyboardInterrupt, SystemExit)):
                raise
            return ("err", self.err_class(e))
        if rpt is None:
            return ("ok", self.dec(th), self.tree(prf), None, sorted(self.log), None)
        toy = lambda names: sorted(n for n in names if toy_kind(n) is not None)
        counts = (rpt.thm_steps, rpt.prim_steps, rpt.macro_steps, toy(rpt.macros_eval), toy(rpt.macros_expand),
                  rpt.steps == rpt.thm_steps + rpt.prim_steps + rpt.macro_steps)
        return ("ok", self.dec(th), self.tree(prf), [self.dec(g) for g in rpt.gaps], sorted(self.log), counts)

    def extend(self, case, reuse=False):
        """case = {thms, exts: [["thm", name, seq, items|None] | "other"]} -> (theorems, axioms, err)."""
        if not reuse:
            self.fresh_theory(case["thms"])
        exts = []
        for k, x in enumerate(case["exts"]):
            if x == "other":
                exts.append(self.extension.TConst("verif_ty%d" % k, 0))
            else:
                _, name, s, items = x
                exts.append(self.extension.Theorem(name, self.thm(mk(s[0], s[1])), None if items is None else self.proof(items)))
        err = None
        rep = None
        thy = self.T
        self.installed_log = []
        orig_add = thy.add_theorem

        def add_theorem(name, th):          # harness-side hook on this Theory object only
            orig_add(name, th)
            self.installed_log.append(name)
        thy.add_theorem = add_theorem
        try:
            with time_limit(30):
                rep = thy.checked_extend(exts)
        except Timeout:
            raise
        except BaseException as e:  # noqa
            if isinstance(e, (KeyboardInterrupt, SystemExit)):
                raise
            err = self.err_class(e)
        names = [n for n, _ in case["thms"]] + [x[1] for x in case["exts"] if x != "other"]
        installed = []
        for n in dict.fromkeys(names):
            if thy.has_theorem(n):
                installed.append((n, self.dec(thy.get_theorem(n, svar=False))))
        axioms = None if rep is None else [(n, self.dec(t)) for n, t in rep.get_axioms()]
        del thy.add_theorem
        self.last_installed = list(self.installed_log)
        return installed, axioms, err


def to_tuple(a):
    if isinstance(a, (list, tuple)):
        return tuple(to_tuple(x) for x in a)
    return a


# =============================================================================================
# 4. Wire format
# =============================================================================================
def s_arg(a):
    if a is None:
        return "N"
    if isinstance(a, int):
        return ["i", a]
    if isinstance(a, str):
        return ["s", sexp.enc(a)]
    return ["l"] + [s_arg(x) for x in a]


def s_seq(s):
    return [list(s[0]), s[1]]


def s_item(it):
    id_, rule, args, prevs, th, sub = it
    return [list(id_), sexp.enc(rule), s_arg(args), [list(p) for p in prevs],
            "N" if th is None else s_seq(th), "N" if sub is None else [s_item(s) for s in sub]]


def s_thms(thms):
    return [[sexp.enc(n), s_seq(s)] for n, s in thms]


def line_check(case):
    ng, co, lvl = case["cfg"]
    return sexp.dumps(["check", bool(ng), bool(co), lvl, FUEL, s_thms(case["thms"]), [s_item(i) for i in case["items"]]])


def line_hcheck(case):
    """The same case for the heap model: the object graph itself (objects by index)."""
    g = case.get("graph") or to_graph(case["items"])
    inames = list(g["items"])
    pnames = list(g["proofs"])
    ii = {n: k for k, n in enumerate(inames)}
    pi = {n: k for k, n in enumerate(pnames)}
    hitems = []
    for n in inames:
        id_, rule, args, prevs, th, sub = g["items"][n]
        hitems.append([list(id_), sexp.enc(rule), s_arg(args), [list(q) for q in prevs],
                       "N" if th is None else s_seq(th), "N" if sub is None else pi[sub]])
    hproofs = [[ii[x] for x in g["proofs"][n]] for n in pnames]
    ng, co, lvl = case["cfg"]
    return sexp.dumps(["hcheck", bool(ng), bool(co), lvl, FUEL, s_thms(case["thms"]), hitems, hproofs, pi[g["root"]]])


def parse_hcheck(line, lvl, case):
    if line in ("bad-op", "(crash)", "(timeout)"):
        return (line,)
    x = sexp.loads(line)
    if x[0] == "err":
        return ("err", x[1])
    w = walked(case["items"])
    tree = sorted((p_ints(p), p_seq(t)) for p, t in x[2] if p_ints(p) in w)
    evals = []
    for pos, rule, comp, th in x[4]:
        k = toy_kind(sexp.dec(rule))
        if k and k[0] == "macro" and k[1] <= lvl and comp != "N":
            evals.append((sexp.dec(rule), p_seq(comp)))
    pairs = [(p_ints(p), int(i)) for p, i in x[5]]
    return ("ok", p_seq(x[1]), tree, [p_seq(g) for g in x[3]], sorted(evals), pairs)


def same_heap_result(m, r):
    if m[0] != r[0]:
        return False
    if m[0] == "err":
        return coarse(m[1]) == coarse(r[1])
    if m[0] != "ok":
        return False
    canon = lambda q: None if q is None else (tuple(sorted(set(q[0]))), q[1])
    return (canon(m[1]) == canon(r[1]) and [(p, canon(t)) for p, t in m[2]] == sorted((p, canon(t)) for p, t in r[2])
            and [canon(g) for g in m[3]] == [canon(g) for g in r[3]]
            and sorted((n, canon(t)) for n, t in m[4]) == sorted((n, canon(t)) for n, t in r[4])
            # accepted walks are trees: no object at two walked positions
            and len({i for _, i in m[5]}) == len(m[5]))


def line_extend(case):
    exts = []
    for x in case["exts"]:
        if x == "other":
            exts.append("other")
        else:
            _, name, s, items = x
            exts.append(["thm", sexp.enc(name), s_seq(s), "N" if items is None else [s_item(i) for i in items]])
    return sexp.dumps(["extend", FUEL, s_thms(case["thms"]), exts])


def p_seq(x):
    if x == "N":
        return None
    return (tuple(int(h) for h in x[0]), int(x[1]))


def p_ints(x):
    return tuple(int(i) for i in x)


def parse_check(line, lvl):
    if line == "bad-op":
        return ("bad-op",)
    x = sexp.loads(line)
    if x[0] == "err":
        return ("err", x[1])
    tree = [(p_ints(p), p_seq(t)) for p, t in x[2]]
    evals = []
    for pos, rule, comp, th in x[4]:
        k = toy_kind(sexp.dec(rule))
        if k and k[0] == "macro" and k[1] <= lvl and comp != "N":
            evals.append((sexp.dec(rule), p_seq(comp)))
    trusted = [p_seq(th) for pos, rule, comp, th in x[4] if comp == "N" and sexp.dec(rule) != "sorry"]
    c = x[5]
    counts = (int(c[0]), int(c[1]), int(c[2]), sorted(sexp.dec(n) for n in c[3]), sorted(sexp.dec(n) for n in c[4]), True)
    return ("ok", p_seq(x[1]), tree, [p_seq(g) for g in x[3]], sorted(evals), trusted, counts)


def parse_extend(line):
    if line == "bad-op":
        return ("bad-op",)
    x = sexp.loads(line)
    pr = lambda l: [(sexp.dec(n), p_seq(s)) for n, s in l]
    return pr(x[0]), pr(x[1]), (None if x[2] == "N" else x[2])


# =============================================================================================
# 5. The independent reference checker (property oracle)
# =============================================================================================
class Flag(Exception):
    def __init__(self, cls, detail=""):
        self.cls, self.detail = cls, detail


def visible(cur, p):
    """p is an earlier sibling of cur or of one of cur's ancestors."""
    l = len(p)
    return 1 <= l <= len(cur) and tuple(p[:l - 1]) == tuple(cur[:l - 1]) and 0 <= p[l - 1] < cur[l - 1]


def ref_can_prove(r, t):
    return r[1] == t[1] and set(r[0]) <= set(t[0])


def ref_check(items, thms, no_gaps, level, keep="stated", compute_only=False, trusted=None):
    """Replay in document order. Citations are positions (that is how the implementation resolves
    them); identifiers carried by the items play no role.  Raises Flag when the proof is not
    justified; returns (final sequent or None, gaps, computed sequent of the last line).
    compute_only: a stated sequent is taken on trust (collected in `trusted`), the contents of a
    `subproof` block are still replayed; what is derived is derived from the trusted statements."""
    if trusted is None:
        trusted = []
    verified = {}
    present = set()
    gaps = []
    computed = {}

    def why(cur, c):
        c = tuple(c)
        if any(x < 0 for x in c):
            return "cites-negative-index"
        if c == cur:
            return "cites-itself"
        if len(c) == 0:
            return "cites-empty-id"
        if c == cur[:len(c)]:
            return "cites-enclosing-item"
        if c not in present and c > cur:
            return "cites-forward" if len(c) <= len(cur) and c[:len(c) - 1] == cur[:len(c) - 1] else "cites-missing-or-later-block"
        if c > cur:
            return "cites-forward"
        if c not in verified:
            return "cites-unverified-item" if visible(cur, c) else "cites-closed-block-or-missing"
        return "cites-closed-block"

    def block(its, pre):
        for k, it in enumerate(its):
            present.add(pre + (k,))
        for k, it in enumerate(its):
            one(it, pre + (k,))

    def one(it, pos):
        id_, rule, args, prevs, th, sub = it
        st = None if th is None else mk(th[0], th[1])
        if rule == "":
            return
        if rule == "sorry":
            if st is None:
                raise Flag("sorry-without-statement")
            if no_gaps:
                raise Flag("gap-tolerated-with-no-gaps", "sorry at %s" % (pos,))
            gaps.append(st)
            verified[pos] = st
            return
        if compute_only and st is not None:
            if rule == "subproof":
                if sub is None:
                    raise Flag("rule-failed", "block without contents at %s" % (pos,))
                block(sub, pos)
            trusted.append(st)
            verified[pos] = st
            return
        if rule == "theorem":
            try:
                comp = toy_thm(thms, args)
            except Exception:
                raise Flag("rule-failed", "theorem %r" % (args,))
        elif rule == "variable":
            try:
                comp = toy_var(args)
            except Exception:
                raise Flag("rule-failed", "variable %r" % (args,))
        elif rule == "subproof":
            if not sub:
                raise Flag("rule-failed", "empty block at %s" % (pos,))
            block(sub, pos)
            comp = verified.get(pos + (len(sub) - 1,))
            if comp is None:
                raise Flag("block-result-unverified", "block at %s" % (pos,))
        else:
            prem = []
            for c in prevs:
                c = tuple(c)
                if c in verified and visible(pos, c):
                    prem.append(verified[c])
                else:
                    raise Flag(why(pos, c), "item at %s cites %s" % (pos, c))
            k = toy_kind(rule)
            if k is None:
                raise Flag("rule-failed", "unknown rule %s" % rule)
            try:
                if k[0] == "prim":
                    if not toy_sig_ok(rule, args):
                        raise Flag("rule-failed", "%s at %s: argument of the wrong kind" % (rule, pos))
                    comp = toy_prim(rule, args, prem)
                elif k[1] <= level:
                    comp = toy_eval(rule, args, prem)
                else:
                    exp = toy_expand(rule, list(id_), args, [list(c) for c in prevs])
                    if not exp:
                        raise Flag("rule-failed", "empty expansion at %s" % (pos,))
                    block(exp, pos)
                    comp = verified.get(pos + (len(exp) - 1,))
                    for q in [q for q in verified if len(q) > len(pos) and q[:len(pos)] == pos]:
                        del verified[q]
                    for q in [q for q in present if len(q) > len(pos) and q[:len(pos)] == pos]:
                        present.discard(q)
                    if comp is None:
                        raise Flag("block-result-unverified", "expansion at %s" % (pos,))
            except Flag:
                raise
            except Exception as e:  # noqa
                raise Flag("rule-failed", "%s at %s: %s" % (rule, pos, type(e).__name__))
        if st is None:
            st = comp
        elif not ref_can_prove(comp, st):
            raise Flag("stated-stronger-than-computed", "item at %s states %s, rule yields %s" % (pos, st, comp))
        if not type_ok(st if keep == "stated" else comp):
            raise Flag("ill-typed-statement", "item at %s" % (pos,))
        # what later lines may use: the stated sequent (what the checker stores today) or, in the
        # second replay mode, the computed one -- both are justified
        verified[pos] = st if keep == "stated" else comp
        computed[pos] = comp

    block(items, ())
    if not items:
        raise Flag("empty-proof")
    return verified.get((len(items) - 1,)), gaps, computed.get((len(items) - 1,))


def judge_check(ctx, case, res):
    """Property oracle for one accepted run of check_proof.  Returns True when a violation was filed.
    The replay is done twice: later lines use the stated sequents of earlier ones (what the checker
    stores today) or the computed ones; an accepted run is fine when one replay justifies it (so a
    checker that returned / handed on the stronger computed sequents would not be reported)."""
    ng, co, lvl = case["cfg"]
    if res[0] != "ok":
        return False
    first = None
    for keep in ("stated", "computed"):
        bad = None
        try:
            final, gaps, final_comp = ref_check(case["items"], case["thms"], ng, lvl, keep=keep, compute_only=co)
            if res[1] is not None and not any(x is not None and ref_can_prove(x, res[1]) for x in (final, final_comp)):
                bad = ("result-not-verified", "returned %s, replay gives %s (computed %s)" % (res[1], final, final_comp))
            elif ng and res[3]:
                bad = ("gap-tolerated-with-no-gaps", "gaps reported with no_gaps")
            elif sorted(gaps) != sorted(res[3]):
                bad = ("gaps-misreported", "reported %s, placeholders present %s" % (res[3], gaps))
        except Flag as f:
            bad = (f.cls, f.detail)
        if bad is None:
            return False
        first = first or bad
    ctx.violation("accepted:" + first[0],
                  "check_proof accepted a proof that is not justified (%s: %s)" % first,
                  {"kind": "check", "case": case, "impl": res, "reason": first[0]})
    return True


def same_seq(a, b):
    return a[1] == b[1] and set(a[0]) == set(b[0])


def judge_extend(ctx, env, case, res):
    """Every theorem extension that was installed (in order, names may repeat and overwrite): without
    proof -> reported as axiom; with proof -> the proof alone, in the table as it was at that moment
    (a dict: later statements replace earlier ones), is justified, gap-free and concludes the theorem."""
    installed, axioms, err = res
    table = {n: mk(s[0], s[1]) for n, s in case["thms"]}
    theorem_exts = [x for x in case["exts"] if x != "other"]
    log = list(getattr(env, "last_installed", []))
    filed = False
    for k, x in enumerate(theorem_exts):
        if k >= len(log):
            break
        _, name, s, items = x
        st = mk(s[0], s[1])
        thms = [[n, [list(t[0]), t[1]]] for n, t in table.items()]
        if items is None:
            if axioms is not None and not any(n == name and same_seq(t, st) for n, t in axioms):
                ctx.violation("extend:axiom-not-reported", "checked_extend installed %s without proof and without reporting an axiom" % name,
                              {"kind": "extend", "case": case})
                filed = True
        else:
            reason = None
            try:
                final, gaps, _ = ref_check(items, thms, True, 0)
                if gaps:
                    reason = "has-gaps"
                elif final is None or not ref_can_prove(final, st):
                    reason = "wrong-conclusion"
            except Flag as f:
                reason = "proof-not-justified:" + f.cls
            if reason:
                ctx.violation("extend:admitted-unproved:" + reason,
                              "checked_extend admitted %s : %s as proved, but %s (table then: %s)" % (name, st, reason, thms),
                              {"kind": "extend", "case": case, "reason": reason})
                filed = True
        table[name] = st
    # what the theory holds afterwards is the last statement installed under each name
    final_tab = {n: t for n, t in installed}
    for n, t in table.items():
        if n in final_tab and not same_seq(final_tab[n], t):
            ctx.violation("extend:table-not-last-write", "after checked_extend the theory holds %s under %s, last installed was %s" % (final_tab[n], n, t),
                          {"kind": "extend", "case": case})
            filed = True
    return filed


# =============================================================================================
# 6. Generators
# =============================================================================================
ALL = list(range(6))
FULLH = ALL + [10, 11, 12, 20, 21, 22, 23]


def full(c):
    """The weakest statement with conclusion c that the generated `verif_join` items can need."""
    return [list(FULLH), c]


CITE_C = [[-1], [0], [1], [2], [0, 0], []]
CITE_MENUS = [[]] + [[c] for c in CITE_C] + [[c, d] for c in CITE_C for d in CITE_C]


def cite_case(cites, iv, sv):
    items = []
    for k in range(len(cites)):
        id_ = [[k], [k + 1], [0], [-k - 1]][iv]
        th = full(10 + k) if sv == 0 or (sv == 2 and k % 2 == 0) else None
        items.append([id_, "verif_join", 10 + k, [list(c) for c in cites[k]], th, None])
    return {"cfg": [False, False, 0], "thms": [], "items": items}


def gen_exh_citations(idvars=(0, 1, 2, 3), statedvars=(0, 1, 2), sizes=(1, 2, 3)):
    """Every flat proof of <= 3 `verif_join` items with <= 2 citations each drawn from CITE_C; the
    stated sequent of item k is the weakest one (`all ⊢ 10+k`), so whether the proof is accepted
    depends on the citations only.  Variants: ids = positions / shifted by one / all 0 /
    negated-minus-one; statements on all items / none / only even positions."""
    for n in sizes:
        for cites in itertools.product(CITE_MENUS, repeat=n):
            for iv in idvars:
                for sv in statedvars:
                    yield cite_case(cites, iv, sv)


def gen_exh_nesting():
    """[a, B, b] where B is a `subproof` block or a `verif_exp` expansion with two inner items;
    each of the inner items and b carries <= 1 citation from a menu that contains the legal ones and
    forward / enclosing / into-the-closed-block / missing / negative ones.  The inner items carry
    their positions as ids, or (second variant) ids whose last component is one too large."""
    C = [None, [0], [1], [2], [1, 0], [1, 1], [1, 2], [0, 0], [-1], [1, -1], []]
    pv = lambda c: [] if c is None else [list(c)]
    for shape in ("subproof", "expansion", "expansion-stated"):
        for iv in (0, 1):
            for c0, c1, cb in itertools.product(C, repeat=3):
                a = [[0], "verif_ax", [[1], 1], [], None, None]
                if shape == "subproof":
                    inner = [[[1, 0 + iv], "verif_join", 20, pv(c0), full(20), None],
                             [[1, 1 + iv], "verif_join", 21, pv(c1), full(21), None]]
                    B = [[1], "subproof", None, [], full(21), inner]
                else:
                    st = full(21) if shape == "expansion-stated" else None
                    spec = lambda k, c: [[0, k + iv], "verif_join", 20 + k, [] if c is None else [[1] + list(c)], full(20 + k), None]
                    B = [[1], "verif_exp", [full(21), [spec(0, c0), spec(1, c1)]], [], st, None]
                b = [[2], "verif_join", 22, pv(cb), full(22), None]
                for lvl in ((0,) if shape == "subproof" else (0, 1)):
                    if iv == 1 and lvl == 1:
                        continue
                    yield {"cfg": [False, False, lvl], "thms": [], "items": [a, B, b]}


def gen_exh_two_blocks():
    """[B0, B1, b]: two blocks (subproof or expansion) of two items each; the items of B1 and b cite
    into B0 (a closed block), into B1, the blocks themselves, or nothing."""
    C = [None, [0], [1], [0, 0], [0, 1], [1, 0], [1, 1], [0, 0, 0]]
    pv = lambda c: [] if c is None else [list(c)]
    for kind0, kind1 in itertools.product(("subproof", "expansion"), repeat=2):
        for c10, c11, cb in itertools.product(C, repeat=3):
            blocks = []
            for bi, (kind, cs) in enumerate(((kind0, (None, None)), (kind1, (c10, c11)))):
                if kind == "subproof":
                    inner = [[[bi, k], "verif_join", 20 + 2 * bi + k, pv(cs[k]), full(20 + 2 * bi + k), None] for k in range(2)]
                    blocks.append([[bi], "subproof", None, [], full(21 + 2 * bi), inner])
                else:
                    spec = lambda k, c: [[0, k], "verif_join", 20 + 2 * bi + k, [] if c is None else [[1] + list(c)], full(20 + 2 * bi + k), None]
                    blocks.append([[bi], "verif_exp", [full(21 + 2 * bi), [spec(0, cs[0]), spec(1, cs[1])]], [], full(21 + 2 * bi), None])
            b = [[2], "verif_join", 12, pv(cb), full(12), None]
            yield {"cfg": [False, False, 0], "thms": [], "items": blocks + [b]}


def gen_exh_gaps():
    """One placeholder at every kind of place (top level, block, nested block, expansion, nested
    expansion, block inside an expansion, expansion inside a block) x no_gaps x check level."""
    gap = lambda id_: [id_, "sorry", None, [], [[], 1], None]
    gspec = lambda k: [[0] + k, "sorry", None, [], [[], 1], None]
    ax = lambda id_: [id_, "verif_ax", [[], 1], [], None, None]
    axs = lambda k: [[0] + k, "verif_ax", [[], 1], [], None, None]
    places = {
        "top": [gap([0])],
        "none": [ax([0])],
        "block": [[[0], "subproof", None, [], None, [ax([0, 0]), gap([0, 1])]]],
        "block-first": [[[0], "subproof", None, [], None, [gap([0, 0]), ax([0, 1])]]],
        "nested-block": [[[0], "subproof", None, [], None, [[[0, 0], "subproof", None, [], None, [gap([0, 0, 0])]]]]],
        "expansion": [[[0], "verif_exp", [[[], 1], [axs([0]), gspec([1])]], [], None, None]],
        "nested-expansion": [[[0], "verif_exp", [[[], 1], [[[0, 0], "verif_exp2", [[[], 1], [gspec([0, 0])]], [], None, None]]], [], None, None]],
        "block-in-expansion": [[[0], "verif_exp", [[[], 1], [[[0, 0], "subproof", None, [], None, [gspec([0, 0])]]]], [], None, None]],
        "expansion-in-block": [[[0], "subproof", None, [], None, [[[0, 0], "verif_exp", [[[], 1], [[[0, 0, 0], "sorry", None, [], [[], 1], None]]], [], None, None]]]],
        "unvisited-subproof": [[[0], "verif_ax", [[], 1], [], None, [gap([0, 0])]]],
    }
    for name, items in places.items():
        for ng in (False, True):
            for co in (False, True):
                for lvl in (0, 1, 2):
                    for tail in (False, True):
                        its = json.loads(json.dumps(items))
                        if tail:
                            its.append([[1], "verif_id", None, [[0]], None, None])
                        yield {"cfg": [ng, co, lvl], "thms": [], "items": its}


def gen_exh_stated_kinds():
    """One item of every kind that yields (or carries) a sequent -- variable, theorem, assume, every
    toy macro, an expanded macro, a block, a placeholder, an empty line -- x how its STATED sequent
    relates to what the rule yields (absent, equal, one more hypothesis, one hypothesis fewer, another
    conclusion, ill-typed), alone and followed by a line that cites it x no_gaps/compute_only/level."""
    thms = [["verif_t0", [[], 0]], ["verif_t2", [[2], 3]]]
    b = mk([1, 2], 3)
    kinds = [
        ("variable", lambda th: [[0], "variable", 1, [], th, None], mk([], 201)),
        ("variable-bad", lambda th: [[0], "variable", None, [], th, None], None),
        ("theorem", lambda th: [[0], "theorem", "verif_t0", [], th, None], mk([], 0)),
        ("theorem-missing", lambda th: [[0], "theorem", "verif_missing", [], th, None], None),
        ("assume", lambda th: [[0], "assume", 2, [], th, None], mk([2], 2)),
        ("verif_ax", lambda th: [[0], "verif_ax", [list(b[0]), b[1]], [], th, None], b),
        ("verif_join", lambda th: [[0], "verif_join", 3, [], th, None], mk([], 3)),
        ("verif_exp", lambda th: [[0], "verif_exp", [[list(b[0]), b[1]], [[[0, 0], "verif_ax", [list(b[0]), b[1]], [], None, None]]], [], th, None], b),
        ("subproof", lambda th: [[0], "subproof", None, [], th, [[[0, 0], "verif_ax", [list(b[0]), b[1]], [], None, None]]], b),
        ("sorry", lambda th: [[0], "sorry", None, [], th, None], b),
        ("empty", lambda th: [[0], "", None, [], th, None], b),
        ("unknown", lambda th: [[0], "verif_nope", None, [], th, None], None),
    ]
    for name, mkitem, comp in kinds:
        c = comp if comp is not None else b
        stated = [None, [list(c[0]), c[1]], [list(c[0]) + [5], c[1]], [list(c[0])[1:], c[1]], [list(c[0]), c[1] + 1],
                  [list(c[0]) + [100], c[1]], [[], 4]]
        for th in stated:
            for tail in (False, True):
                items = [mkitem(th)]
                if tail:
                    items.append([[1], "verif_id", None, [[0]], None, None])
                for cfg in ([False, False, 0], [True, False, 0], [False, True, 0], [True, False, 1], [False, True, 1]):
                    yield {"cfg": cfg, "thms": thms, "items": json.loads(json.dumps(items))}


def gen_exh_stated():
    """Chains of <= 3 items (axiom, then `verif_id`/`verif_weaken` from the previous one, `sorry`,
    empty lines) x how each statement relates to what the rule yields x no_gaps/compute_only/level."""
    base = mk([1, 2], 3)

    def variants(s):
        return [None, [list(s[0]), s[1]], [list(s[0]) + [5], s[1]], [list(s[0])[1:], s[1]], [list(s[0]), s[1] + 1],
                [list(s[0]) + [100], s[1]]]
    rules = ["ax", "id", "weaken", "sorry", "empty", "expax"]
    for n in (1, 2, 3):
        for rs in itertools.product(rules, repeat=n):
            if rs[0] in ("id", "weaken"):
                continue
            for vs in itertools.product(range(6), repeat=n):
                if n == 3 and sum(1 for v in vs if v > 1) > 1:
                    continue
                items = []
                cur = None
                for k in range(n):
                    r = rs[k]
                    if r == "ax":
                        comp = base
                        it = [[k], "verif_ax", [list(base[0]), base[1]], [], None, None]
                    elif r == "expax":
                        comp = base
                        it = [[k], "verif_exp", [[list(base[0]), base[1]], [[[0, 0], "verif_ax", [list(base[0]), base[1]], [], None, None],
                                                                                [[0, 1], "sorry" if vs[k] == 5 else "verif_id", None, [] if vs[k] == 5 else [[0, 0]],
                                                                                 [list(base[0]), base[1]] if vs[k] == 5 else None, None]]], [], None, None]
                    elif r == "id":
                        comp = cur if cur else base
                        it = [[k], "verif_id", None, [[k - 1]], None, None]
                    elif r == "weaken":
                        comp = mk(list((cur or base)[0]) + [4], (cur or base)[1])
                        it = [[k], "verif_weaken", 4, [[k - 1]], None, None]
                    elif r == "sorry":
                        comp = base
                        it = [[k], "sorry", None, [], None, None]
                    else:
                        comp = base
                        it = [[k], "", None, [], None, None]
                    v = variants(comp)[vs[k]]
                    it[4] = v
                    cur = mk(v[0], v[1]) if v is not None else comp
                    items.append(it)
                for cfg in ([False, False, 0], [True, False, 0], [False, True, 0], [False, False, 1], [True, False, 1]):
                    yield {"cfg": cfg, "thms": [], "items": items}


class RandGen:
    """Mostly valid proofs of up to 12 items (nested blocks, expansions with nested expansions and
    placeholders), then perturbed: ids, citations, statements, structure."""

    def __init__(self, rng):
        self.rng = rng

    def seq(self):
        r = self.rng
        return mk([r.randrange(6) for _ in range(r.choice([0, 0, 1, 1, 2, 3]))], r.randrange(6))

    def stated(self, comp):
        r = self.rng.random()
        if r < 0.45:
            return None
        if r < 0.75:
            return [list(comp[0]), comp[1]]
        if r < 0.92:
            return [list(comp[0]) + [self.rng.randrange(6)], comp[1]]
        return [list(comp[0]), comp[1]]

    def block(self, pre, n, depth, known, budget, rel=None):
        """known: dict pos -> sequent visible and verified; rel: (#premises) when generating an
        expansion body (ids are specs).  Returns items."""
        r = self.rng
        items = []
        known = dict(known)
        for k in range(n):
            pos = pre + (k,)
            vis = [p for p in known if visible(pos, p)]
            kind = r.choices(["ax", "assume", "id", "weaken", "cut", "join", "sorry", "empty", "theorem", "subproof", "exp", "bad", "var"],
                             [14, 6, 12, 8, 8, 12, 7, 4, 5, 8 if depth < 2 and budget[0] > 2 else 0, 9 if depth < 3 and budget[0] > 2 else 0, 2, 3])[0]
            budget[0] -= 1
            comp, sub, prevs, args, rule = None, None, [], None, None
            try:
                if kind == "ax" or (kind in ("id", "weaken", "cut", "join") and not vis):
                    s = self.seq()
                    rule, args, comp = "verif_ax", [list(s[0]), s[1]], s
                elif kind == "assume":
                    a = r.randrange(6)
                    rule, args, comp = "assume", a, mk([a], a)
                elif kind == "id":
                    p = r.choice(vis)
                    rule, prevs, comp = "verif_id", [p], known[p]
                elif kind == "weaken":
                    p = r.choice(vis)
                    h = r.randrange(6)
                    rule, args, prevs, comp = "verif_weaken", h, [p], toy_eval("verif_weaken", h, [known[p]])
                elif kind == "cut":
                    p = r.choice(vis)
                    qs = [q for q in vis if known[q][1] in known[p][0]]
                    q = r.choice(qs) if qs and r.random() < 0.85 else r.choice(vis)
                    rule, prevs = "verif_cut", [p, q]
                    comp = toy_eval("verif_cut", None, [known[p], known[q]])
                elif kind == "join":
                    ps = [r.choice(vis) for _ in range(r.choice([1, 2, 2, 3]))]
                    c = r.randrange(6)
                    rule, args, prevs, comp = "verif_join", c, ps, toy_eval("verif_join", c, [known[p] for p in ps])
                elif kind == "sorry":
                    s = self.seq()
                    rule, comp = "sorry", s
                elif kind == "empty":
                    rule = ""
                elif kind == "var":
                    k = r.choice([0, 1, 2, None, -1]) if r.random() < 0.3 else r.randrange(3)
                    rule, args = "variable", k
                    comp = mk([], 200 + k) if is_nat(k) else None
                elif kind == "theorem":
                    name = r.choice(["verif_t0", "verif_t1", "verif_t2", "verif_missing"])
                    rule, args = "theorem", name
                    comp = {"verif_t0": mk([], 0), "verif_t1": mk([], 1)}.get(name)
                elif kind == "subproof":
                    m = r.randint(1, 3)
                    sub = self.block(pos, m, depth + 1, known, budget)
                    rule = "subproof"
                    comp = self.last_known
                elif kind == "exp":
                    rule = r.choice(["verif_exp", "verif_exp", "verif_exp2"])
                    prevs = [r.choice(vis) for _ in range(r.choice([0, 1, 2]))] if vis else []
                    m = r.randint(1, 3)
                    inner_known = dict(known)
                    body = self.block(pos, m, depth + 1, inner_known, budget)
                    comp = self.last_known
                    evalth = comp if comp is not None and r.random() < 0.85 else self.seq()
                    args = [[list(evalth[0]), evalth[1]], [self.to_spec(b, pos, prevs) for b in body]]
                    self.exp_comp = comp
                else:
                    rule = r.choice(["implies_elim", "verif_nope", "assume"])
                    prevs = [r.choice(vis) for _ in range(r.choice([0, 1, 2]))] if vis else []
            except (ToyErr1, ToyErr2):
                comp = None
            th = None
            if rule == "sorry":
                th = [list(comp[0]), comp[1]]
            elif rule != "" and comp is not None:
                th = self.stated(comp)
            it = [list(pos), rule, args, [list(p) for p in prevs], th, sub]
            items.append(it)
            if comp is not None and rule != "":
                known[pos] = mk(th[0], th[1]) if th is not None else comp
            self.last_known = known.get(pos)
        return items

    def to_spec(self, it, pos, prevs):
        """Concrete item (positions under `pos`) -> ITEMSPEC with relative ids; citations of one of
        the macro's premises become `(2 j)`."""
        id_, rule, args, ps, th, sub = it
        n = len(pos)

        def sp(p):
            p = list(p)
            if tuple(p) in [tuple(q) for q in prevs] and self.rng.random() < 0.7:
                return [2, [tuple(q) for q in prevs].index(tuple(p))]
            if p[:n] == list(pos):
                return [0] + p[n:]
            return [1] + p
        return [sp(id_), rule, args, [sp(p) for p in ps], th, None if sub is None else [self.to_spec(s, pos, prevs) for s in sub]]

    def positions(self, items, pre=()):
        out = []
        for k, it in enumerate(items):
            out.append((pre + (k,), it))
            if it[5] is not None:
                out += self.positions(it[5], pre + (k,))
        return out

    def perturb(self, items):
        r = self.rng
        allp = self.positions(items)
        pos, it = r.choice(allp)
        what = r.choice(["id", "id", "cite", "cite", "cite", "stated", "stated", "struct", "emptyth", "sorryth"])
        tag = what
        if what == "id":
            k = r.randrange(6)
            if not it[0]:
                it[0] = [r.randrange(3)]
            elif k == 0:
                it[0] = [it[0][-1] + r.choice([1, 2, 5])] if len(it[0]) == 1 else it[0][:-1] + [it[0][-1] + 1]
            elif k == 1:
                it[0] = [-x - 1 for x in it[0]]
            elif k == 2:
                it[0] = list(r.choice(allp)[0])
            elif k == 3:
                it[0] = it[0] + [0]
            elif k == 4:
                it[0] = it[0][:-1]
            else:
                it[0] = [x - len(items) if i == 0 else x for i, x in enumerate(it[0])]
        elif what == "cite":
            cands = [p for p, _ in allp]
            k = r.randrange(8)
            if k == 0:
                c = list(pos)
            elif k == 1:
                later = [p for p in cands if p > pos]
                c = list(r.choice(later)) if later else [pos[0] + 1]
            elif k == 2:
                closed = [p for p in cands if p < pos and not visible(pos, p) and p != pos[:len(p)]]
                c = list(r.choice(closed)) if closed else [0, 0]
            elif k == 3:
                c = [-1] if r.random() < 0.5 else list(pos[:-1]) + [-1]
            elif k == 4:
                c = list(pos[:-1]) if len(pos) > 1 else []
            elif k == 5:
                c = [len(items) + 3]
            elif k == 6:
                c = list(pos) + [0]
            else:
                c = list(r.choice(cands))
            if it[3] and r.random() < 0.7:
                it[3][r.randrange(len(it[3]))] = c
            else:
                it[3] = it[3] + [c]
                if it[1] in ("verif_ax", "sorry", "", "theorem", "subproof", "assume"):
                    it[1], it[2] = "verif_join", r.randrange(6)
                    if it[4] is not None:
                        it[4] = full(it[2])
        elif what == "stated":
            if it[4] is not None:
                k = r.randrange(4)
                if k == 0 and it[4][0]:
                    it[4] = [it[4][0][1:], it[4][1]]
                elif k == 1:
                    it[4] = [it[4][0], (it[4][1] + 1) % 6]
                elif k == 2:
                    it[4] = [it[4][0] + [100 + r.randrange(3)], it[4][1]]
                else:
                    it[4] = None
            else:
                s = self.seq()
                it[4] = [list(s[0]), s[1]]
        elif what == "struct":
            k = r.randrange(5)
            if k == 0:
                it[5] = None if it[5] is not None else [[list(pos) + [0], "sorry", None, [], [[], 0], None]]
            elif k == 1 and it[5] is not None:
                it[5] = []
            elif k == 2:
                it[1] = "subproof"
            elif k == 3:
                items[-1][1], items[-1][4] = "", None
            else:
                it[1] = r.choice(["verif_id", "verif_join", "verif_exp", "sorry", ""])
        elif what == "emptyth":
            s = self.seq()
            it[1], it[4], it[3] = "", [list(s[0]), s[1]], []
        else:
            it[1], it[4] = "sorry", None
        return tag

    def case(self):
        r = self.rng
        n = r.choice([1, 2, 2, 3, 3, 4, 5, 6, 8, 10, 12])
        budget = [14]
        items = self.block((), n, 0, {}, budget)
        tags = []
        if r.random() < 0.55:
            for _ in range(r.choice([1, 1, 1, 2, 3])):
                tags.append(self.perturb(items))
        cfg = [r.random() < 0.4, r.random() < 0.12, r.choice([0, 0, 0, 1, 1, 2, 3])]
        thms = [["verif_t0", [[], 0]], ["verif_t1", [[], 1]], ["verif_t2", [[2], 3]]]
        return {"cfg": cfg, "thms": thms, "items": items}, tags


# ---------------------------------------------------------------------------------------------
# proof objects that are not trees: one ProofItem / Proof object at several places, and twins
# ---------------------------------------------------------------------------------------------
def to_graph(items):
    """Tree of item specs -> graph with one name per item / proof."""
    g = {"items": {}, "proofs": {}, "root": None}
    cnt = [0, 0]

    def proof(its):
        pn = "p%d" % cnt[1]
        cnt[1] += 1
        g["proofs"][pn] = None
        names = []
        for it in its:
            n = "i%d" % cnt[0]
            cnt[0] += 1
            g["items"][n] = [it[0], it[1], it[2], it[3], it[4], None if it[5] is None else proof(it[5])]
            names.append(n)
        g["proofs"][pn] = names
        return pn
    g["root"] = proof(items)
    return g


def unfold(g, max_items=400):
    """The tree of values a graph describes; along a cycle the unfolding stops (subproof None) at a
    depth the checker cannot walk to: it refuses an object at its second walked place.  None if huge."""
    limit = len(g["items"]) + 2
    n = [0]

    def proof(pn, d):
        return [item(x, d) for x in g["proofs"][pn]]

    def item(name, d):
        n[0] += 1
        if n[0] > max_items:
            raise OverflowError
        id_, rule, args, prevs, th, sub = g["items"][name]
        return [list(id_), rule, args, [list(q) for q in prevs], th, None if sub is None or d >= limit else proof(sub, d + 1)]
    try:
        return proof(g["root"], 0)
    except OverflowError:
        return None


def graph_case(g, cfg=(False, False, 0), thms=()):
    items = unfold(g)
    if items is None:
        return None
    return {"cfg": list(cfg), "thms": [list(t) for t in thms], "items": items, "graph": g}


def gen_shared_directed():
    """A block, a filler line and an item X that sits inside the block AND at top level (one object),
    or whose verbatim copy does (a twin); X carries the id of one of its places and cites the block,
    the filler, itself ...; both orders; also one Proof object serving two blocks, a block and an
    unwalked attachment, or the root itself (a cycle)."""
    for xid in ([2], [0, 0], [1], [0]):
        for cite in ([], [[0]], [[1]], [[0, 0]], [[]], [[2]]):
            for stated in (True, False):
                for twin in (False, True):
                    for layout in range(5):
                        X = [xid, "verif_join", 12, cite, full(12) if stated else None, None]
                        blk = [[0], "subproof", None, [], full(12), "pb"]
                        fil = [[1], "verif_join", 11, [[0]], None, None]
                        it = {"X": X, "fil": fil}
                        if twin:
                            it["X2"] = [list(xid), "verif_join", 12, [list(c) for c in cite], full(12) if stated else None, None]
                        x2 = "X2" if twin else "X"
                        Y = [[0, 0], "verif_ax", [[], 1], [], None, None]
                        it["Y"] = Y
                        if layout == 0:
                            root, pb = ["blk", "fil", x2], ["X"]
                        elif layout == 1:
                            blk, root, pb = [[1], "subproof", None, [], full(12), "pb"], [x2, "blk"], ["X"]
                        elif layout == 2:
                            root, pb = ["blk", x2], ["X"]
                        elif layout == 3:
                            root, pb = ["blk", "fil", x2], ["Y", "X"]
                        else:
                            root, pb = ["blk", "fil", "fil", x2], ["X"]
                        it["blk"] = blk
                        g = {"items": it, "proofs": {"root": root, "pb": pb}, "root": "root"}
                        for ng in (True,):
                            c = graph_case(g, (ng, False, 0))
                            if c:
                                yield c
    # one Proof object in two blocks / in a block and an unwalked attachment / as its own block
    for ids in ([[0, 0], [0, 1]], [[1, 0], [1, 1]]):
        for second in ("subproof", "verif_ax"):
            for c1 in ([], [[0, 0]], [[1, 0]], [[0]]):
                it = {"a": [ids[0], "verif_ax", [[], 1], [], None, None],
                      "b": [ids[1], "verif_join", 12, c1, full(12), None],
                      "B0": [[0], "subproof", None, [], full(12), "P"],
                      "B1": [[1], second, None if second == "subproof" else [[], 1], [], full(12) if second == "subproof" else None, "P"]}
                g = {"items": it, "proofs": {"root": ["B0", "B1"], "P": ["a", "b"]}, "root": "root"}
                yield graph_case(g, (True, False, 0))
    for rule in ("subproof", "verif_ax"):
        it = {"B": [[0], rule, None if rule == "subproof" else [[], 1], [], full(12) if rule == "subproof" else None, "root"],
              "t": [[1], "verif_join", 12, [[0]], None, None]}
        yield graph_case({"items": it, "proofs": {"root": ["B", "t"]}, "root": "root"}, (True, False, 0))


def gen_shared_random(rng, n):
    """Random proofs (RandGen) turned into graphs, then 1-3 times: put an existing item object into
    a second slot, let an item's subproof be another item's Proof object, or replace a slot by a
    verbatim copy of another item (a twin with a foreign id)."""
    g0 = RandGen(rng)
    out = []
    while len(out) < n:
        case, _ = g0.case()
        g = to_graph(case["items"])
        slots = [(pn, k) for pn, names in g["proofs"].items() for k in range(len(names))]
        if len(slots) < 2:
            continue
        for _ in range(rng.choice([1, 1, 2, 3])):
            op = rng.random()
            (p1, k1), (p2, k2) = rng.sample(slots, 2)
            n1 = g["proofs"][p1][k1]
            if op < 0.45:
                g["proofs"][p2][k2] = n1
            elif op < 0.7:
                withsub = [x for x, v in g["items"].items() if v[5] is not None]
                if withsub:
                    g["items"][g["proofs"][p2][k2]][5] = g["items"][rng.choice(withsub)][5]
                    if g["items"][g["proofs"][p2][k2]][1] not in ("subproof",) and rng.random() < 0.5:
                        g["items"][g["proofs"][p2][k2]][1] = "subproof"
                        g["items"][g["proofs"][p2][k2]][3] = []
            else:
                tw = "t%d" % len(g["items"])
                g["items"][tw] = json.loads(json.dumps(g["items"][n1]))
                g["proofs"][p2][k2] = tw
        c = graph_case(g, case["cfg"], case["thms"])
        if c is not None:
            out.append(c)
    return out


def gen_extend_pool(rng, n):
    """Pool of (stated theorem, proof) material: proofs with known conclusions (clean, with a gap,
    ill-founded, concluding something else)."""
    g = RandGen(rng)
    thms = [mk([], c) for c in range(4)] + [mk([1], 2), mk([0, 1], 2), mk([], 100)]
    proofs = [None]
    for c in range(4):
        proofs.append([[[0], "verif_ax", [[], c], [], None, None]])
    proofs.append([[[0], "verif_ax", [[1], 2], [], None, None]])
    proofs.append([[[0], "verif_ax", [[1], 2], [], None, None], [[1], "verif_weaken", 0, [[0]], None, None]])
    proofs.append([[[0], "sorry", None, [], [[], 0], None]])
    proofs.append([[[0], "verif_ax", [[], 0], [], None, None], [[1], "sorry", None, [], [[], 1], None]])
    proofs.append([[[0], "verif_exp", [[[], 0], [[[0, 0], "sorry", None, [], [[], 0], None]]], [], None, None]])
    proofs.append([[[0], "verif_exp", [[[], 0], [[[0, 0], "verif_ax", [[], 0], [], None, None]]], [], None, None]])
    proofs.append([[[0], "verif_join", 0, [[-1]], [[], 0], None]])
    proofs.append([[[5], "verif_join", 0, [[0]], [[], 0], None]])
    proofs.append([[[0], "verif_ax", [[], 1], [], None, None], [[1], "", None, [], None, None]])
    proofs.append([[[0], "", None, [], [[], 0], None]])
    proofs.append([[[0], "theorem", "verif_t0", [], None, None]])
    proofs.append([[[0], "verif_ax", [[], 0], [], [[], 1], None]])
    # proofs that conclude NOTHING (check_proof returns None): ending in an empty line, alone / after
    # genuine steps / after a block; such a proof proves no stated theorem whatsoever
    proofs.append([[[0], "", None, [], None, None]])
    proofs.append([[[0], "verif_ax", [[], 0], [], None, None], [[1], "verif_id", None, [[0]], None, None], [[2], "", None, [], None, None]])
    proofs.append([[[0], "subproof", None, [], None, [[[0, 0], "verif_ax", [[], 2], [], None, None]]], [[1], "", None, [], None, None]])
    directed = len(proofs)
    while len(proofs) < n:
        case, _ = g.case()
        proofs.append(case["items"])
    while len(thms) < n:
        thms.append(g.seq())
    # the directed proofs are never cut off by a small pool size (quick tier)
    return thms[:n], proofs[:max(n, directed)]


# =============================================================================================
# 7. Streams
# =============================================================================================
def stream_check(ctx, env, cases, label, oracle=True, heap=False):
    """Correspondence + oracle for a batch of check_proof cases.  heap=True: the heap model (walk
    over the object graph) is run on the same cases as a third party."""
    impl = [env.check(c) for c in cases]
    out = ctx.lean_driver(EXE, [line_check(c) for c in cases], timeout=3000) if cases else []
    ndis = 0
    if heap and cases:
        hout = ctx.lean_driver(EXE, [line_hcheck(c) for c in cases], timeout=3000)
        nh = nu = 0
        if hout is None:
            ctx.broken("correspondence:c02:driver", "model driver unavailable")
        else:
            for idx, case in enumerate(cases):
                hm = parse_hcheck(hout[idx], case["cfg"][2], case)
                ctx.count("heap:%s" % label)
                # the open statement GraphCheckEqUnfolding (PropsUnfold.lean) on this graph: heap walk
                # and tree model on Lean's own unfolding fail together / accept with the same outputs
                if hout[idx].endswith(" F)"):
                    nu += 1
                    if nu <= 3:
                        ctx.broken("correspondence:c02:unfolding:%s" % label, "heap model and tree model on the unfolding differ: case=%s heap-model=%s" % (json.dumps(case), hm))
                elif hout[idx].endswith(" T)"):
                    ctx.count("unfolding-agrees:%s" % hm[0])
                elif hout[idx].endswith(" S)"):
                    ctx.count("unfolding-too-large(skipped)")
                if not same_heap_result(hm, impl[idx]):
                    nh += 1
                    if nh <= 3:
                        ctx.broken("correspondence:c02:heap:%s" % label, "case=%s impl=%s heap-model=%s" % (json.dumps(case), impl[idx], hm))
                        ctx.coverage["disagreements_checked"] += 1
            ctx.log("stream %s (heap model): %d cases, %d disagreements" % (label, len(cases), nh))
    for idx, case in enumerate(cases):
        res = impl[idx]
        nontriv = len(case["items"]) >= 2 and any(it[3] for it in case["items"])
        ctx.case(("check", json.dumps(case, sort_keys=True)), nontrivial=nontriv)
        ctx.count("%s:%s" % (label, res[0] if res[0] == "ok" else res[1]))
        filed = judge_check(ctx, case, res) if oracle else False
        if out is not None:
            m = parse_check(out[idx], case["cfg"][2])
            if m[0] == "err" and res[0] == "err" and m[1] != res[1]:
                ctx.count("refusal-message-class-differs(not compared)")
            if m[0] == "ok" and res[0] == "ok":
                # the model's ghost output "taken on trust" against the reference checker's own list
                tr = []
                try:
                    ref_check(case["items"], case["thms"], case["cfg"][0], case["cfg"][2], compute_only=case["cfg"][1], trusted=tr)
                    cn = lambda q: (tuple(sorted(set(q[0]))), q[1])
                    if sorted(map(cn, tr)) != sorted(map(cn, m[5])) and ndis < 3:
                        ndis += 1
                        ctx.broken("correspondence:c02:trusted", "case=%s oracle=%s model=%s" % (json.dumps(case), tr, m[5]))
                except Flag:
                    pass
            if not same_result(m, res, case):
                ndis += 1
                if ndis <= 3:
                    ctx.broken("correspondence:c02:%s" % label, "case=%s impl=%s model=%s" % (json.dumps(case), res, m))
                    ctx.coverage["disagreements_checked"] += 1
                    if not filed:
                        judge_check(ctx, case, res)
    if out is None:
        ctx.broken("correspondence:c02:driver", "model driver unavailable")
    ctx.log("stream %s: %d cases, %d disagreements" % (label, len(cases), ndis))
    return ndis


def coarse(cls):
    """What the tie compares for a refusal: refused by the checker's own means
    (CheckProofException, or one of its assertions -- SPINE: "fails with its own error") or by
    something else escaping (an exception of the rule layer, a TypeError/IndexError ...).  Which
    check fired and in which words is a histogram entry only, so rewording a message or reordering
    independent checks is not a disagreement."""
    if cls is None:
        return "none"
    return "own" if cls.startswith("check:") or cls == "assertion" else "other"


def walked(items, pre=()):
    """Positions the checker walks in a proof that is accepted: top level and inside `subproof` blocks."""
    out = set()
    for k, it in enumerate(items):
        out.add(pre + (k,))
        if it[1] == "subproof" and it[5] is not None:
            out |= walked(it[5], pre + (k,))
    return out


def same_result(m, r, case=None):
    if m[0] != r[0]:
        return False
    if m[0] == "err":
        return coarse(m[1]) == coarse(r[1])
    if m[0] != "ok":
        return False
    canon = lambda s: None if s is None else (tuple(sorted(set(s[0]))), s[1])
    w = walked(case["items"]) if case is not None else None
    mt = [(p, canon(t)) for p, t in m[2] if w is None or p in w]
    return (canon(m[1]) == canon(r[1]) and mt == [(p, canon(t)) for p, t in r[2]]
            and [canon(g) for g in m[3]] == [canon(g) for g in r[3]]
            and sorted((n, canon(t)) for n, t in m[4]) == sorted((n, canon(t)) for n, t in r[4])
            # ProofReport counters: steps by kind, macros evaluated / expanded
            and (len(r) < 6 or len(m) < 7 or m[6] == r[5]))


def stream_extend(ctx, env, cases, label):
    impl = []
    for c in cases:
        r = env.extend(c)
        impl.append(r)
        judge_extend(ctx, env, c, r)
    out = ctx.lean_driver(EXE, [line_extend(c) for c in cases], timeout=3000) if cases else []
    ndis = 0
    canon_l = lambda l: None if l is None else [(n, (tuple(sorted(set(s[0]))), s[1])) for n, s in l]
    canon = lambda l: None if l is None else sorted(canon_l(l))
    for idx, case in enumerate(cases):
        res = impl[idx]
        ctx.case(("extend", json.dumps(case, sort_keys=True)), nontrivial=any(x != "other" and x[3] is not None for x in case["exts"]))
        ctx.count("%s:%s" % (label, res[2] or "ok"))
        if out is not None:
            m = parse_extend(out[idx])
            ok = (m[0] != "bad-op" and canon(m[0]) == canon(res[0]) and coarse(m[2]) == coarse(res[2])
                  and (res[1] is None or canon_l(m[1]) == canon_l(res[1])))
            if not ok:
                ndis += 1
                if ndis <= 3:
                    ctx.broken("correspondence:c02:%s" % label, "case=%s impl=%s model=%s" % (json.dumps(case), res, m))
                    ctx.coverage["disagreements_checked"] += 1
    if out is None:
        ctx.broken("correspondence:c02:driver", "model driver unavailable")


def stream_itemid(ctx, env):
    """Generated ItemID functions / can_prove / findItem against the Python methods."""
    ItemID = env.ItemID
    vals = [-1, 0, 1, 2]
    tuples = [t for n in range(0, 4) for t in itertools.product(vals, repeat=n)]
    if ctx.tier == "quick":
        tuples = [t for t in tuples if len(t) <= 2] + ctx.rng("itemid").sample([t for t in tuples if len(t) == 3], 20)
    lines, want = [], []

    def py(f):
        try:
            r = f()
        except IndexError:
            return "E"
        if isinstance(r, bool):
            return "T" if r else "F"
        if isinstance(r, int):
            return str(r)
        return sexp.dumps(list(r.id))
    for a in tuples:
        lines.append(sexp.dumps(["last", list(a)]))
        want.append(py(lambda: ItemID(a).last()))
        for n in (-1, 0, 2):
            lines.append(sexp.dumps(["incr", list(a), n]))
            want.append(py(lambda: ItemID(a).incr_id(n)))
        for b in tuples:
            lines.append(sexp.dumps(["dep", list(a), list(b)]))
            want.append(py(lambda: ItemID(a).can_depend_on(ItemID(b))))
            lines.append(sexp.dumps(["decr", list(a), list(b)]))
            want.append(py(lambda: ItemID(a).decr_id(ItemID(b))))
            for n in (-1, 1, 3):
                lines.append(sexp.dumps(["incr_after", list(a), list(b), n]))
                want.append(py(lambda: ItemID(a).incr_id_after(ItemID(b), n)))
    # can_prove
    seqs = [mk(h, c) for c in (0, 1) for k in range(0, 3) for h in itertools.combinations(range(3), k)]
    for a in seqs:
        for b in seqs:
            lines.append(sexp.dumps(["canprove", s_seq(a), s_seq(b)]))
            want.append("T" if env.thm(a).can_prove(env.thm(b)) else "F")
    # find_item on a fixed tree with all ids of length <= 3 over -3..3
    tree = [[[0], "a", None, [], [[], 0], [[[0, 0], "b", None, [], [[], 1], None], [[0, 1], "c", None, [], None, [[[0, 1, 0], "d", None, [], [[], 2], None]]]]],
            [[1], "e", None, [], None, None], [[2], "f", None, [], [[], 3], []]]
    prf = env.proof(tree)
    for n in range(0, 4):
        for id_ in itertools.product(range(-3, 4), repeat=n):
            lines.append(sexp.dumps(["find", [s_item(i) for i in tree], list(id_)]))
            try:
                it = prf.find_item(ItemID(tuple(id_)))
                want.append(sexp.dumps([list(it.id.id), sexp.enc(it.rule), "N" if it.th is None else s_seq(env.dec(it.th))]))
            except env.ProofStateException:
                want.append("N")
    out = ctx.lean_driver(EXE, lines, timeout=3000)
    if out is None:
        ctx.broken("correspondence:c02:driver", "model driver unavailable")
        return
    nd = 0
    for l, w, o in zip(lines, want, out):
        ctx.count("itemid")
        if sexp.loads(w) != sexp.loads(o):
            nd += 1
            if nd <= 3:
                ctx.broken("correspondence:c02:itemid", "%s python=%s lean=%s" % (l, w, o))
    ctx.coverage["evaluations"] += len(lines)


# ---------------------------------------------------------------------------------------------
# real primitive rules (no model: the oracle replays with the kernel's own Thm functions)
# ---------------------------------------------------------------------------------------------
def stream_real(ctx, env):
    """Natural-deduction proofs over propositional variables with the real rules assume /
    implies_intr / implies_elim / substitution {} / sorry / subproof; every item states its sequent,
    then one citation or one id is perturbed.  Accepted => an independent replay (positions,
    visibility, `primitive_deriv` applied to sequents the replay verified itself) must succeed."""
    from kernel.term import Var, Implies, Inst, Eq
    from kernel.thm import Thm, primitive_deriv
    from kernel.type import BoolType
    theory, Proof, ProofItem = env.theory, env.Proof, env.ProofItem
    rng = ctx.rng("real")
    V = [Var(n, BoolType) for n in "ABC"]
    false = env.Const("false", BoolType)
    from kernel.type import TVar
    # the Theory object that does the checking is NOT the global one; the global is a decoy that
    # has a name the object lacks and another statement for a name both have
    Treal = theory.EmptyTheory()
    Treal.add_theorem("verif_real", Thm(Implies(V[0], V[0])))
    decoy = theory.EmptyTheory()
    decoy.add_theorem("verif_decoy", Thm(false))
    decoy.add_theorem("verif_real", Thm(false))

    def build(items):
        prf = Proof()
        for id_, rule, args, prevs, th, sub in items:
            it = ProofItem(tuple(id_), rule, args=args, prevs=[tuple(p) for p in prevs], th=th)
            if sub is not None:
                it.subproof = build(sub)
            prf.items.append(it)
        return prf

    def replay_ok(items, no_gaps):
        verified = {}

        def block(its, pre):
            for k, (id_, rule, args, prevs, th, sub) in enumerate(its):
                pos = pre + (k,)
                if rule == "":
                    continue
                if rule == "sorry":
                    if no_gaps or th is None:
                        return "gap-tolerated-with-no-gaps"
                    verified[pos] = th
                    continue
                if rule == "theorem":
                    if not Treal.has_theorem(args):
                        return "rule-failed"
                    comp = Treal.get_theorem(args)
                elif rule == "variable":
                    try:
                        comp = Thm.mk_VAR(Var(*args))
                    except Exception:
                        return "rule-failed"
                elif rule == "subproof":
                    r = block(sub or [], pos)
                    if r:
                        return r
                    comp = verified.get(pos + (len(sub or []) - 1,))
                    if comp is None:
                        return "block-result-unverified"
                else:
                    prem = []
                    for c in prevs:
                        c = tuple(c)
                        if c in verified and visible(pos, c):
                            prem.append(verified[c])
                        else:
                            return ("cites-negative-index" if any(x < 0 for x in c) else "cites-itself" if c == pos
                                    else "cites-forward" if c > pos else "cites-unverified-or-closed")
                    try:
                        f, sig = primitive_deriv[rule]
                    except Exception:
                        return "rule-failed"
                    # a sequent reaches a rule only as a VERIFIED citation: a rule that takes no argument
                    # given one (a Thm nobody derived, used as the first premise), or an argument that is
                    # itself a sequent, is a step justified from something never verified
                    if isinstance(args, Thm) or (sig is None and args is not None):
                        return "unverified-argument-as-premise"
                    try:
                        comp = f(*prem) if args is None else f(args, *prem)
                    except Exception:
                        return "rule-failed"
                if th is not None and not (comp.prop == th.prop and set(comp.hyps) <= set(th.hyps)):
                    return "stated-stronger-than-computed"
                verified[pos] = th if th is not None else comp
                if len(pos) == 1:
                    lastcomp[0] = comp
            return None
        lastcomp = [None]
        r = block(items, ())
        last = verified.get((len(items) - 1,))
        return r, [x for x in (last, lastcomp[0] if last is not None else None) if x is not None]

    def gen():
        n = rng.randint(1, 7)
        items, known = [], {}
        for k in range(n):
            pos = (k,)
            opts = ["assume"]
            if known:
                opts += ["intr", "subst"]
                if rng.random() < 0.15:
                    opts += ["smuggle"]
            imps = [(p, q) for p in known for q in known if known[p].prop.is_implies() and known[p].prop.arg1 == known[q].prop]
            if imps:
                opts += ["elim", "elim"]
            o = rng.choice(opts)
            if o == "assume":
                a = rng.choice(V + [Implies(rng.choice(V), rng.choice(V))])
                rule, args, prevs, comp = "assume", a, [], Thm.assume(a)
            elif o == "intr":
                p = rng.choice(list(known))
                a = rng.choice(list(known[p].hyps) or V)
                rule, args, prevs, comp = "implies_intr", a, [p], Thm.implies_intr(a, known[p])
            elif o == "subst":
                p = rng.choice(list(known))
                rule, args, prevs, comp = "substitution", Inst(), [p], known[p]
            elif o == "smuggle":
                # near-miss argument: a rule WITHOUT argument is handed an underived sequent as argument
                # and cites one item fewer than it needs (the argument would take the premise's place)
                q = rng.choice(list(known))
                w = rng.randrange(3)
                if w == 0:
                    a = Thm(Implies(known[q].prop, rng.choice(V + [false])))
                    rule, args, prevs, comp = "implies_elim", a, [q], Thm.implies_elim(a, known[q])
                elif w == 1:
                    a = Thm(Eq(known[q].prop, rng.choice(V + [false])))
                    rule, args, prevs, comp = "equal_elim", a, [q], Thm.equal_elim(a, known[q])
                else:
                    a = Thm(Eq(rng.choice(V), false))
                    rule, args, prevs, comp = "symmetric", a, [], Thm.symmetric(a)
            else:
                p, q = rng.choice(imps)
                rule, args, prevs, comp = "implies_elim", None, [p, q], Thm.implies_elim(known[p], known[q])
            th = comp if rng.random() < 0.8 else None
            items.append([list(pos), rule, args, [list(p) for p in prevs], th, None])
            known[pos] = comp
        return items

    fixed = [
        ("D1", [[[0], "substitution", Inst(), [[-1]], Thm(false), None]]),
        ("D2", [[[5], "substitution", Inst(), [[0]], Thm(false), None]]),
        ("D4", [[[0], "", None, [], Thm(false), None], [[1], "substitution", Inst(), [[0]], None, None]]),
        ("D5", [[[0], "subproof", None, [], None, [[[0, 0], "", None, [], Thm(false), None]]]]),
        ("fwd", [[[0], "substitution", Inst(), [[1]], Thm(false), None], [[1], "substitution", Inst(), [[0]], Thm(false), None]]),
        ("thm-only-in-global", [[[0], "theorem", "verif_decoy", [], None, None]]),
        ("thm-other-statement-in-global", [[[0], "theorem", "verif_real", [], Thm(false), None]]),
        ("thm-own", [[[0], "theorem", "verif_real", [], None, None], [[1], "substitution", Inst(), [[0]], None, None]]),
        ("var-stated-other", [[[0], "variable", ("x", TVar("a")), [], Thm(false), None], [[1], "substitution", Inst(), [[0]], None, None]]),
        ("var-stated-other-var", [[[0], "variable", ("x", TVar("a")), [], Thm.mk_VAR(Var("y", TVar("a"))), None]]),
        ("var-stated-exact", [[[0], "variable", ("x", TVar("a")), [], Thm.mk_VAR(Var("x", TVar("a"))), None]]),
        ("var-unstated", [[[0], "variable", ("x", TVar("a")), [], None, None]]),
        # argument-less rules handed a sequent as argument, one citation short / none at all / full list
        ("argless-elim-thm-arg", [[[0], "assume", V[0], [], None, None],
                                  [[1], "implies_elim", Thm(Implies(V[0], false)), [[0]], None, None]]),
        ("argless-elim-thm-arg-full", [[[0], "assume", Implies(V[0], V[1]), [], None, None], [[1], "assume", V[0], [], None, None],
                                       [[2], "implies_elim", Thm(Implies(V[0], false)), [[0], [1]], None, None]]),
        ("argless-symmetric-thm-arg", [[[0], "symmetric", Thm(Eq(V[0], false)), [], None, None]]),
        ("argless-equal-elim-thm-arg", [[[0], "assume", V[0], [], None, None],
                                        [[1], "equal_elim", Thm(Eq(V[0], false)), [[0]], None, None]]),
        ("argless-transitive-thm-arg", [[[0], "assume", Eq(V[1], V[2]), [], None, None],
                                        [[1], "transitive", Thm(Eq(V[0], V[1])), [[0]], None, None]]),
        ("argless-nested-thm-arg", [[[0], "subproof", None, [], None, [[[0, 0], "assume", V[0], [], None, None],
                                    [[0, 1], "implies_elim", Thm(Implies(V[0], false)), [[0, 0]], None, None]]]]),
        ("arg-rule-thm-arg", [[[0], "assume", Thm(false), [], None, None]]),
    ]
    cases = [(n, its) for n, its in fixed]
    shared_cases = []
    for order in (0, 1):
        X = ProofItem((2,) if order == 0 else (0,), "substitution", args=Inst(), prevs=[(0,)] if order == 0 else [(1,)])
        blk = ProofItem((0,) if order == 0 else (1,), "subproof", th=Thm(false))
        blk.subproof = Proof()
        blk.subproof.items = [X]
        fil = ProofItem((1,), "substitution", args=Inst(), prevs=[(0,)])
        prf = Proof()
        prf.items = [blk, fil, X] if order == 0 else [X, blk]
        shared_cases.append(("B1-shared-%d" % order, prf))
    theory.thy = decoy
    for name, prf in shared_cases:
        for ng in (False, True):
            try:
                with time_limit(30):
                    res = Treal.check_proof(prf, no_gaps=ng)
            except Timeout:
                raise
            except Exception:  # noqa
                ctx.count("real:shared-refused")
                continue
            # |- false is stated by the block only; nothing derives it
            ctx.violation("accepted:cites-enclosing-item", "check_proof accepted (real rules) a circular proof built from one ProofItem object "
                          "sitting inside block 0 and at top level: %s, returned %s" % (str(prf).replace("\n", "; "), res),
                          {"kind": "real", "name": name, "no_gaps": ng, "proof": str(prf), "reason": "cites-enclosing-item"})
    for i in range(ctx.scale(1500, 20000)):
        its = gen()
        if rng.random() < 0.7:
            k = rng.randrange(len(its))
            w = rng.randrange(5)
            tgt = [[k], [rng.randint(k, len(its))], [-1], [-rng.randint(1, len(its))], [k, 0]][w]
            if w == 4 or not its[k][3] or its[k][1] == "assume":
                # change the id instead / make it a self-justifying line
                if rng.random() < 0.5:
                    its[k][0] = [its[k][0][0] + rng.choice([1, 2, -1])]
                else:
                    its[k] = [its[k][0], "substitution", Inst(), [tgt if w != 4 else [k]], its[k][4] or Thm(false), None]
            else:
                its[k][3][rng.randrange(len(its[k][3]))] = tgt
        cases.append(("rand%d" % i, its))
    theory.thy = decoy
    for name, items in cases:
        for ng in (False, True):
            prf = build(items)
            try:
                with time_limit(30):
                    res = Treal.check_proof(prf, no_gaps=ng)
                acc = True
            except Timeout:
                raise
            except Exception as e:  # noqa
                acc, res = False, type(e).__name__
            ctx.case(("real", name, ng), nontrivial=len(items) >= 2)
            ctx.count("real:%s" % ("ok" if acc else res))
            if not acc:
                continue
            why, final = replay_ok(items, ng)
            if why is None and res is not None and not any(x.prop == res.prop and set(x.hyps) <= set(res.hyps) for x in final):
                why = "result-not-verified"
            if why:
                ctx.violation("accepted:" + why, "check_proof accepted (real rules) a proof that is not justified (%s): %s" % (why, str(prf).replace("\n", "; ")),
                              {"kind": "real", "name": name, "no_gaps": ng, "proof": str(prf), "reason": why})


def run_history(ctx, env, hist):
    """Several check_proof / checked_extend calls on ONE Theory object (different flags, with and
    without a report, proofs that share macro steps).  Every verdict is judged by the reference
    checker as if it were the first call on a fresh object: what an earlier call left behind in the
    Theory (or anywhere else) must not make a later call accept something unjustified."""
    env.fresh_theory(hist["thms"])
    for k, call in enumerate(hist["calls"]):
        sofar = {"thms": hist["thms"], "calls": hist["calls"][:k + 1]}
        if call["op"] == "check":
            case = {"cfg": call["cfg"], "thms": hist["thms"], "items": call["items"]}
            res = env.check(case, reuse=True, with_rpt=call["rpt"])
            ctx.count("history:check:%s" % (res[0] if res[0] == "ok" else "refused"))
            if res[0] != "ok":
                continue
            ng, co, lvl = call["cfg"]
            first = None
            for keep in ("stated", "computed"):
                bad = None
                try:
                    final, gaps, final_comp = ref_check(case["items"], case["thms"], ng, lvl, keep=keep, compute_only=co)
                    if res[1] is not None and not any(x is not None and ref_can_prove(x, res[1]) for x in (final, final_comp)):
                        bad = ("result-not-verified", "returned %s, replay gives %s (computed %s)" % (res[1], final, final_comp))
                    elif ng and (gaps or res[3]):
                        bad = ("gap-tolerated-with-no-gaps", "placeholders present %s with no_gaps" % (gaps,))
                    elif res[3] is not None and sorted(gaps) != sorted(res[3]):
                        bad = ("gaps-misreported", "reported %s, placeholders present %s" % (res[3], gaps))
                except Flag as f:
                    bad = (f.cls, f.detail)
                if bad is None:
                    first = None
                    break
                first = first or bad
            if first:
                ctx.violation("accepted:" + first[0],
                              "call %d of a history on one Theory object: check_proof accepted a proof that is not justified (%s: %s)" % ((k,) + first),
                              {"kind": "history", "history": sofar, "reason": first[0]})
                return True
        else:
            case = {"thms": hist["thms"], "exts": [["thm", call["name"], call["seq"], call["items"]]]}
            installed, axioms, err = env.extend(case, reuse=True)
            ctx.count("history:extend:%s" % ("refused" if err else "installed"))
            if err or call["name"] not in getattr(env, "last_installed", []):
                continue
            st = mk(call["seq"][0], call["seq"][1])
            reason = None
            try:
                final, gaps, _ = ref_check(call["items"], hist["thms"], True, 0)
                if gaps:
                    reason = "has-gaps"
                elif final is None or not ref_can_prove(final, st):
                    reason = "wrong-conclusion"
            except Flag as f:
                reason = "proof-not-justified:" + f.cls
            if reason:
                ctx.violation("extend:admitted-unproved:" + reason,
                              "call %d of a history on one Theory object: checked_extend admitted %s : %s as proved, but %s" % (k, call["name"], st, reason),
                              {"kind": "history", "history": sofar, "reason": reason})
                return True
            return False      # the theory changed: the history ends here
    return False


def gen_histories(rng, n):
    """Histories over small proofs that share macro steps: expanded macros (level 1 / 2) whose
    expansion holds a placeholder, a genuine step, another expanded macro, or cites an earlier line."""
    def exp_arg(kind, c):
        if kind == "gap":
            return [[[], c], [[[0, 0], "sorry", None, [], [[], c], None]]]
        if kind == "ok":
            return [[[], c], [[[0, 0], "verif_ax", [[], c], [], None, None]]]
        if kind == "nest-gap":
            return [[[], c], [[[0, 0], "verif_exp", exp_arg("gap", c), [], None, None]]]
        if kind == "nest-ok":
            return [[[], c], [[[0, 0], "verif_exp", exp_arg("ok", c), [], None, None]]]
        return [[[], c], [[[0, 0], "verif_id", None, [[2, 0]], None, None]]]      # cites the macro's first premise

    def proof():
        items, concl = [], []
        for k in range(rng.randint(1, 3)):
            c = rng.randrange(2)
            w = rng.random()
            if w < 0.2 or (w > 0.85 and not concl):
                items.append([[k], "verif_ax", [[], c], [], None, None])
            elif w < 0.85:
                kind = rng.choice(["gap", "gap", "ok", "nest-gap", "nest-ok"])
                rule = "verif_exp2" if kind.startswith("nest") or rng.random() < 0.3 else "verif_exp"
                items.append([[k], rule, exp_arg(kind, c), [], [[], c] if rng.random() < 0.3 else None, None])
            else:
                j = rng.randrange(len(concl))
                c = concl[j]
                items.append([[k], rng.choice(["verif_exp", "verif_exp2"]), exp_arg("cite", c), [[j]], None, None])
            concl.append(c)
        return items, concl[-1]
    out = []
    base = [["verif_t0", [[], 0]], ["verif_t1", [[], 1]]]
    for i in range(n):
        pool = [proof() for _ in range(rng.randint(1, 3))]
        calls = []
        if i % 3 == 0:
            # an editor's history: the proof under development is checked with gaps allowed, then strictly
            items, c = pool[0]
            lvl = rng.randrange(2)
            calls.append({"op": "check", "items": items, "cfg": [False, False, lvl], "rpt": rng.random() < 0.3})
            calls.append({"op": "check", "items": items, "cfg": [True, False, lvl], "rpt": rng.random() < 0.3})
        for _ in range(rng.randint(1, 4)):
            items, c = rng.choice(pool)
            calls.append({"op": "check", "items": items,
                          "cfg": [rng.random() < 0.5, rng.random() < 0.15, rng.choice([0, 0, 1, 2, 3])], "rpt": rng.random() < 0.4})
        if rng.random() < 0.6:
            items, c = rng.choice(pool)
            calls.append({"op": "extend", "name": "verif_h", "seq": [[], c if rng.random() < 0.85 else 1 - c], "items": items})
        out.append({"thms": base, "calls": calls})
    return out


def stream_history(ctx, env):
    hs = gen_histories(ctx.rng("history"), ctx.scale(400, 5000))
    nviol = 0
    for h in hs:
        ctx.case(("history", json.dumps(h, sort_keys=True)), nontrivial=len(h["calls"]) >= 2)
        if run_history(ctx, env, h):
            nviol += 1
            if nviol >= 3:
                break
    ctx.log("stream history: %d histories on one Theory object each, %d flagged" % (len(hs), nviol))


def corpus_cases(ctx):
    p = os.path.join(ctx.verif, "corpus", "c02.json")
    if os.path.exists(p):
        with open(p) as f:
            return json.load(f)
    return {"check": [], "extend": []}


def batches(gen, size):
    buf = []
    for x in gen:
        buf.append(x)
        if len(buf) >= size:
            yield buf
            buf = []
    if buf:
        yield buf


def run(ctx):
    ctx.coverage["rule"] = (
        "proof objects over a toy rule set (verif_ax/id/weaken/cut/join level 0, verif_exp level 1 and verif_exp2 level 2 whose "
        "expansion is given literally in the argument, plus assume/implies_elim/theorem/sorry/subproof/empty lines): "
        "(a) every flat proof of <=3 items with <=2 citations each from {-1,0,1,2,0.0,()} x 4 id assignments x 3 statement patterns "
        "(thorough: all; quick: a random sample), (b) every [a, block, b] with a subproof or an expansion of two items and <=1 citation "
        "per item from 10 candidates, every [block, block, b] with citations into the closed first block, one placeholder at each of 10 kinds "
        "of place x no_gaps x compute_only x level, one item of every kind (variable, theorem, assume, toy macros, expanded macro, block, placeholder, empty line, unknown rule) x 7 "
        "stated sequents (absent/equal/weaker/stronger/other conclusion/ill-typed/unrelated) x 5 configurations, alone and cited, "
        "(c) chains of <=3 items x 6 ways a statement relates to what the rule yields x 5 configurations, "
        "(d) random proofs of up to 12 items, nested blocks and expansions, then perturbed (ids, citations, statements, structure); "
        "checked_extend on all pairs (theorem, proof) of a pool and on short extension lists. non-trivial = at least two items and one "
        "citation; distinct by the whole case.")
    env = None
    # 1. translated functions + Lean obligations
    try:
        gen = translate(ctx.repo)
        if ctx.write_if_changed("Holpy/C02/Gen.lean", gen):
            ctx.log("Gen.lean regenerated (changed)")
    except Untranslatable as e:
        ctx.broken("translate:c02:itemid", "untranslatable: %s" % e)
    except Exception as e:  # noqa
        ctx.broken("translate:c02:itemid", "untranslatable: %r" % e)
    proofs_ok = ctx.lean_props(["Holpy.C02.Props", "Holpy.C02.PropsHeap", "Holpy.C02.PropsUnfold"], exes=[EXE])
    if ctx.tier == "thorough" and proofs_ok:
        ctx.lean_check_modules(["Holpy.C02.Props", "Holpy.C02.PropsHeap", "Holpy.C02.PropsUnfold"])
    ctx.coverage["trusted_base"] += [
        "correspondence harness harness/props/c02.py (generators, toy rule set mirrored in Holpy/C02/Toy.lean, reference checker)",
        "Python->Lean translator for ItemID / Thm.can_prove (in harness/props/c02.py) and the Python primitives of Holpy/C02/Py.lean",
        "the rule layer is a parameter of the model: real primitive rules and real macros are not modelled here (C01, C04)"]
    ctx.assumptions += [
        "the Theory object under test is built by hand and, 3 runs out of 4, is not the object bound to kernel.theory.thy; the global then is a "
        "decoy with other theorems (names missing / extra / same name with another statement). The global macro table necessarily holds the "
        "toy macros (there is no per-theory table); logic.context is not consulted by the checker and is not perturbed",
        "a proof object whose parts are shared between places reaches the model as its unfolding (argued in Model.lean, tested by the shared-* streams)",
        "Python's recursion limit is modelled by fuel; theorems hold for every fuel",
        "compute_only=True trusts stated sequents by design: compute_only_computes and the oracle say what is derived FROM the trusted statements, nothing about them"]
    try:
        env = Env(ctx)
        stream_itemid(ctx, env)
        stream_real(ctx, env)
        # corpus first
        corp = corpus_cases(ctx)
        if corp.get("check"):
            stream_check(ctx, env, corp["check"], "corpus", heap=True)
        if corp.get("extend"):
            stream_extend(ctx, env, corp["extend"], "corpus-extend")
        # (a) exhaustive citations
        if ctx.tier == "thorough":
            # ids = positions with the three statement patterns, the three wrong id assignments with
            # all lines stated (there a wrong acceptance is possible at all)
            for b in batches(itertools.chain(gen_exh_citations(idvars=(0,)), gen_exh_citations(idvars=(1, 2, 3), statedvars=(0,))), 40000):
                stream_check(ctx, env, b, "exh-cite")
            ctx.coverage["exhaustive_subspace"] = "all flat proofs of <=3 verif_join items, <=2 citations each from {-1,0,1,2,0.0,()}; ids = positions x 3 statement patterns, 3 wrong id assignments with every line stated"
        else:
            rng = ctx.rng("exh-sample")
            sample = list(gen_exh_citations(idvars=(0,), statedvars=(0,), sizes=(1, 2)))
            for _ in range(2000):
                sample.append(cite_case([rng.choice(CITE_MENUS) for _ in range(3)], 0, 0))
            for _ in range(2000):
                sample.append(cite_case([rng.choice(CITE_MENUS) for _ in range(rng.choice([1, 2, 3, 3]))],
                                        rng.randrange(4), rng.randrange(3)))
            stream_check(ctx, env, sample, "exh-cite")
        # (b) nesting, (c) statements
        nest = list(gen_exh_nesting())
        if ctx.tier == "quick":
            nest = ctx.rng("nest").sample(nest, 3500)
        stream_check(ctx, env, nest, "exh-nest")
        stream_check(ctx, env, list(gen_exh_two_blocks()), "exh-blocks")
        stream_check(ctx, env, list(gen_exh_gaps()), "exh-gaps", heap=True)
        stream_check(ctx, env, list(gen_shared_directed()), "shared-directed", heap=True)
        stream_check(ctx, env, gen_shared_random(ctx.rng("shared"), ctx.scale(1000, 20000)), "shared-random", heap=True)
        stream_check(ctx, env, list(gen_exh_stated_kinds()), "exh-stated-kinds", heap=True)
        st = list(gen_exh_stated())
        if ctx.tier == "quick":
            st = ctx.rng("stated").sample(st, min(len(st), 3000))
        for b in batches(iter(st), 40000):
            stream_check(ctx, env, b, "exh-stated")
        # (d) random
        g = RandGen(ctx.rng("random"))
        cases = []
        for i in range(ctx.scale(3000, 80000)):
            c, tags = g.case()
            cases.append(c)
            for t in tags:
                ctx.count("perturb:" + t)
        for c in cases[:4]:
            ctx.sample(c)
        for bi, b in enumerate(batches(iter(cases), 40000)):
            stream_check(ctx, env, b, "random", heap=(bi == 0))
        # checked_extend
        n = ctx.scale(12, 30)
        thms, proofs = gen_extend_pool(ctx.rng("extend"), n)
        base = [["verif_t0", [[], 0]], ["verif_t1", [[], 1]]]
        ecases = [{"thms": base, "exts": [["thm", "verif_new", [list(t[0]), t[1]], p]]} for t in thms for p in proofs]
        r = ctx.rng("extend-lists")
        for _ in range(ctx.scale(150, 1500)):
            exts = []
            for k in range(r.randint(2, 4)):
                if r.random() < 0.15:
                    exts.append("other")
                else:
                    t = r.choice(thms)
                    exts.append(["thm", "verif_n%d" % k, [list(t[0]), t[1]], r.choice(proofs)])
            if r.random() < 0.4:      # a later proof that cites an earlier extension by name
                exts.append(["thm", "verif_last", [[], exts[0][2][1]] if exts[0] != "other" else [[], 0],
                             [[[0], "theorem", exts[0][1] if exts[0] != "other" else "verif_t0", [], None, None]]])
            ecases.append({"thms": base, "exts": exts})
        stream_extend(ctx, env, ecases, "extend")
        ctx.sample(ecases[len(proofs) + 2])
        # lists in which names repeat and overwrite each other (also a theorem of the base theory),
        # with proofs by `theorem <name>` before and after the name was given a new statement
        names = ["verif_a", "verif_b", "verif_t0"]
        ocases = [{"thms": base, "exts": [["thm", "verif_a", [[], 0], None], ["thm", "verif_b", [[], 0], [[[0], "theorem", "verif_a", [], None, None]]],
                                           ["thm", "verif_a", [[], 1], None], ["thm", "verif_c", [[], 0], [[[0], "theorem", "verif_a", [], None, None]]]]}]
        for _ in range(ctx.scale(400, 6000)):
            exts = []
            cur = {"verif_t0": 0, "verif_t1": 1}
            for k in range(r.randint(3, 6)):
                nm = r.choice(names)
                c = r.randrange(3)
                kind = r.random()
                if kind < 0.3:
                    prf = None
                elif kind < 0.5:
                    prf = [[[0], "verif_ax", [[], c if r.random() < 0.8 else (c + 1) % 3], [], None, None]]
                elif kind < 0.9:
                    src = r.choice(names + ["verif_t1"])
                    # aim at what `src` holds now, or at what it held before
                    if src in cur and r.random() < 0.7:
                        c = cur[src]
                    prf = [[[0], "theorem", src, [], None, None]]
                    if r.random() < 0.3:
                        prf.append([[1], "verif_id", None, [[0]], None, None])
                else:
                    prf = [[[0], "sorry", None, [], [[], c], None]]
                exts.append(["thm", nm, [[], c], prf])
                cur[nm] = c      # optimistic; a refused extension ends the run anyway
            ocases.append({"thms": base, "exts": exts})
        stream_extend(ctx, env, ocases, "extend-overwrite")
        stream_history(ctx, env)
    finally:
        if env is not None:
            env.close()


def replay(ctx, rp):
    """Re-run one recorded failing input on the implementation; True if it still fails."""
    r = rp["replay"]
    env = Env(ctx)
    try:
        if r.get("kind") == "check":
            res = env.check(r["case"])
            print("implementation:", res)
            judge_check(ctx, r["case"], res)
        elif r.get("kind") == "extend":
            res = env.extend(r["case"])
            print("implementation:", res)
            judge_extend(ctx, env, r["case"], res)
        elif r.get("kind") == "history":
            run_history(ctx, env, r["history"])
        elif r.get("kind") == "real":
            # the real-rule stream is regenerated from the seed; the recorded proof text is for the reader
            stream_real(ctx, env)
            ctx.violations = [v for v in ctx.violations if v[0] == rp.get("key")]
    finally:
        env.close()
    for v in ctx.violations:
        print("still fails:", v[1])
    return bool(ctx.violations)


MANIFEST = {
    "text": "Lean theorems about an executable model of _check_proof_item/check_proof/find_item/checked_extend with the rule layer as a "
            "parameter (every rule set, every fuel, every proof object). PROVED: accepted_justified + trace_covers (every statement that "
            "became citable, every item reached through subproof blocks and the result have a derivation built in check order); "
            "no_gaps_exact / no_gaps_justified; gaps_reported_exact; stated_not_stronger; accepted_id_is_position / shared_item_refused; "
            "compute_only_computes (every mode: what is derived is derived by the rules from the placeholders and, under compute_only, the "
            "stated sequents taken on trust — nothing is claimed about those); check_level_trusts_only_leq_level (checking equals checking "
            "against the rule layer with every eval of a macro above check_level, every expansion at or below it and every ill-kinded "
            "primitive call disabled); extend_admits_only_proved and extend_list_admits_only_proved (dict table, names may repeat and "
            "overwrite); on the heap model (walk over the object graph, shared and cyclic objects): accepted_walk_ids, "
            "accepted_walk_is_tree, heap_accepted_justified (soundness proved DIRECTLY on the object graph: every citable statement "
            "and the result derive, by the rules, from the statements nobody computed — no unfolding involved), "
            "hFind_only_walked_positions (find_item on the graph resolves by position only: no negative / empty / out-of-range id, and "
            "under can_depend_on only to entries walked before); report_counts_exact (ProofReport counters as derived from the trace; "
            "compared with rpt on every run); ItemID facts (can_depend_on irreflexive, transitive, precedes in document order, resolves only to "
            "visible positions) about definitions translated from kernel/proof.py and kernel/thm.py on every run, with proofs that do not "
            "follow the shape of the generated code; graph_find_eq_unfolding (the unfolding of an object graph is now a Lean definition, "
            "Unfold.lean: value tree cut at the depth the fuel allows; find_item on the graph and on the unfolding fail together or find "
            "the unfolding of the same object, for every id: static, before any write). NOT PROVED: graph_check_eq_unfolding (heap walk on a "
            "graph vs tree model on its unfolding, with the writes of the walk): attempted this session and not finished (a lock-step "
            "simulation needs an invariant relating the mutated tree to the mutated heap along the walked spine, plus the frame lemmas of "
            "both models; see report) -- it is now STATED in Lean (def GraphCheckEqUnfolding: fail together or accept with the same theorem, "
            "gaps and trace, fuel <= 64), decided on two pinned instances (graph_check_eq_unfolding_examples) and evaluated by the driver on "
            "these very definitions for every graph of the heap streams whose unfolding has at most 3000 items (a single F answer breaks the tie; larger ones are counted as skipped); the soundness it was meant to "
            "transfer is proved on the heap model itself (heap_accepted_justified); that on "
            "the heap the uncomputed statements are exactly the reported gaps when not compute_only, and rpt.th_names, are not proved; the "
            "agreement of the two models also stays tied three ways on every run (implementation on the graph, heap model on the graph, tree model on the "
            "harness's unfolding). TIE: differential runs on generated proof objects over a toy rule set (exhaustive small shapes + random; ids != "
            "positions, negative and empty ids, forward/self/closed-block citations, nested placeholders, shared/cyclic objects, twins, "
            "compute_only, levels 0-3, extension lists with overwritten names); accept/refuse, kind of refusal and every output of an "
            "accepted run are compared, never message texts. check_proof and checked_extend are called on a Theory object that is not the "
            "global kernel.theory.thy (the global is a decoy differing on the cited names), as server/monitor.py does with snapshots. Every proof the real checker accepts (toy rules, all modes, and real primitive "
            "rules) is judged by an independent reference checker; the replay of real-rule proofs knows which primitive rules take an "
            "argument (a sequent handed to a rule as ARGUMENT, e.g. to implies_elim with one citation short, is a premise nobody verified; "
            "directed and random near-miss cases). Histories: several check_proof / checked_extend calls on ONE Theory object with different "
            "no_gaps / compute_only / check_level, with and without a ProofReport, over proofs sharing expanded macro steps (placeholders "
            "inside expansions), every verdict judged by the reference checker as if it were the first call. The extension pool always "
            "holds proofs that conclude nothing (ending in an empty line).",
    "note": "Trusted: Lean kernel, propext/Classical.choice/Quot.sound, the harness (generators, toy rule set implemented on both sides, "
            "reference checker, translator). The rule layer is abstract: real primitive rules and macro bodies are C01/C04. "
            "graph_check_eq_unfolding is stated (GraphCheckEqUnfolding), argued in Model.lean and evaluated on every generated graph, not "
            "proved; the theorems about the tree model therefore speak "
            "about object graphs only through that tested agreement, the heap theorems speak about them directly. ProofReport counters are "
            "modelled from the trace (report_counts_exact) except th_names; Proof.get_sorrys, Proof.insert_item and real macro bodies are not modelled.",
    "design_ref": "DESIGN.md 4/C02",
}
FINDINGS = [
    {"status": "fixed", "key": "extend:admitted-unproved:wrong-conclusion", "commit": "e84e272",
     "what": "after a theorem name was given a new statement, get_theorem kept serving the cached schematic version of the OLD one: "
             "checked_extend([a: |- p0, b: |- p0 by theorem a, a: |- p1, c: |- p0 by theorem a]) admitted c as proved"},
    {"status": "fixed", "key": "accepted:cites-enclosing-item", "commit": "e77df27",
     "what": "check_proof(no_gaps=True) returned |- false for a proof in which ONE ProofItem object (id 2, citing 0) sits inside the "
             "stated block 0 and again at top level: the id guard looked the item up by its id instead of comparing it with the walked position"},
    {"status": "fixed", "key": "accepted:cites-negative-index", "commit": "4b8cb46",
     "what": "check_proof accepted `0: |- false by substitution {} from -1`: Proof.find_item used Python's negative indexing, so the line cited itself"},
    {"status": "fixed", "key": "accepted:cites-itself", "commit": "796e286",
     "what": "check_proof accepted an item at position 0 carrying id 5 and citing 0 (itself): ids were never compared with positions"},
    {"status": "fixed", "key": "accepted:cites-unverified-item", "commit": "82c385d",
     "what": "check_proof accepted a citation of an empty line (rule '') that carries a statement nobody verified"},
    {"status": "fixed", "key": "accepted:cites-unverified-or-closed", "commit": "82c385d",
     "what": "the same with the real rules: `0: |- false by ''; 1: |- false by substitution {} from 0` was accepted"},
    {"status": "fixed", "key": "accepted:result-not-verified", "commit": "82c385d",
     "what": "check_proof returned the unverified statement of a final empty line as the proved theorem"},
    {"status": "fixed", "key": "accepted:block-result-unverified", "commit": "82c385d",
     "what": "a subproof block ending in a stated empty line passed that statement on as the block's result"},
    {"status": "fixed", "key": "extend:admitted-unproved:wrong-conclusion", "commit": "29aebf1",
     "what": "checked_extend installed Theorem('bogus', |- false, prf) as proved although prf proves something else"},
    {"status": "fixed", "key": "extend:admitted-unproved:proof-not-justified:gap-tolerated-with-no-gaps", "commit": "29aebf1",
     "what": "checked_extend installed a theorem as proved although its proof contains a placeholder"},
]
