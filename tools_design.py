#!/venv/bin/python
"""Rewrites the generated blocks of DESIGN.md (between `<!-- GENERATED:<name> BEGIN -->` and
`<!-- GENERATED:<name> END -->`) from what is committed: the per-property MANIFEST texts
(harness/props/cXX.py), the pinned theorem names (lean/theorems.lock.json), known_findings.json and
seeded/*/meta.json.  Run after tools_manifest.py / tools_lock_theorems.py; commit the result."""
import glob, importlib, json, os, re, subprocess, sys
HERE = os.path.dirname(os.path.abspath(__file__))
sys.path.insert(0, HERE)


def asbuilt():
    lock = json.load(open(os.path.join(HERE, "lean", "theorems.lock.json")))
    kf = json.load(open(os.path.join(HERE, "known_findings.json")))["findings"]
    out = []
    for i in range(1, 21):
        pid = "C%02d" % i
        mod = importlib.import_module("harness.props." + pid.lower())
        m = mod.MANIFEST
        fixed = [f for f in kf if f["property"] == pid and f["status"] == "fixed"]
        known = [f for f in kf if f["property"] == pid and f["status"] == "known"]
        ths = sorted(lock.get(pid, {}))
        files = sorted(os.path.basename(p) for p in glob.glob(os.path.join(HERE, "lean", "Holpy", pid, "*.lean")))
        out.append("#### %s" % pid)
        out.append("")
        out.append("*What the check establishes.* " + m["text"].strip())
        out.append("")
        out.append("*Trusted / assumed / not proved.* " + m["note"].strip())
        out.append("")
        out.append("*Pinned theorems (%d; `lean/Holpy/%s/Props*.lean`, statement hashes in `lean/theorems.lock.json`, "
                   "`#print axioms` audited on every run):* %s." % (len(ths), pid, ", ".join("`%s`" % t for t in ths)))
        out.append("")
        out.append("*Lean files:* %s. *Harness:* `harness/props/%s.py`." % (", ".join("`%s`" % f for f in files), pid.lower()))
        out.append("")
        out.append("*Findings:* %d fixed in /repo by `fix:` commits, %d recorded as known (`known_findings.json`)." % (len(fixed), len(known)))
        for f in known:
            out.append("  * known: `%s` — %s" % (f["key"][:160], f["what"][:400]))
        out.append("")
    return "\n".join(out)


def seeded():
    rows = []
    for p in sorted(glob.glob(os.path.join(HERE, "seeded", "*", "meta.json"))):
        m = json.load(open(p))
        if m["id"].startswith("test-"):
            continue
        c = m.get("check", {})
        kind = "concrete failing input" if m.get("detected_with_concrete_input") else (
            "no-failing-input-found" if m.get("detected") else "**MISSED**")
        first = ""
        for l in c.get("lines", []):
            if l.startswith("VIOLATION"):
                first = l
                break
        what = ""
        note = m.get("needs_to_manifest", "")
        for l in note.splitlines():
            if l.strip().startswith("#"):
                what = l.lstrip("# ").strip()
                break
        key = ""
        fr = c.get("first_replay")
        if fr:
            try:
                key = json.loads(fr).get("key", "")
            except Exception:
                mm = re.search(r'"key": "([^"]*)', fr)
                key = mm.group(1) if mm else ""
        hist = "; ".join("%s at %s" % (h["result"], h.get("verif_commit")) for h in m.get("history", [])
                         if not kind.startswith(h["result"])) or "–"
        if m.get("no_longer_applies"):
            hist += " (the patch no longer applies: the code it edits was rewritten by a later fix)"
        rows.append("| %s | %s | %s | %s | %s | %s |" % (
            m["id"], what[:140].replace("|", "/"), "`./check %s`" % m["property"], kind,
            ("`" + key[:110].replace("|", "/").replace("`", "'") + "`") if key else "", hist))
    head = ["| seeded change (`seeded/<id>/`) | what it does | check | result | reported key (first violation) | earlier results |",
            "|---|---|---|---|---|---|"]
    n = len(rows)
    det = sum("MISSED" not in r.split("|")[4] for r in rows)
    conc = sum("concrete" in r.split("|")[4] for r in rows)
    return "\n".join(head + rows + ["", "%d seeded changes, each confirmed (demonstration passes without / fails with the change; the 600 "
                                    "baseline tests still pass with it); %d are reported by the check of the property they break, %d of "
                                    "them with a concrete failing input." % (n, det, conc)])


def refactors():
    rows = []
    for p in sorted(glob.glob(os.path.join(HERE, "refactors", "*", "meta.json"))):
        m = json.load(open(p))
        note = ""
        np_ = os.path.join(os.path.dirname(p), "note.md")
        if os.path.exists(np_):
            for l in open(np_).read().splitlines():
                if l.strip() and not l.startswith("```"):
                    note = l.lstrip("# ").strip()
                    break
        why = ""
        if m.get("result", "").startswith("tie broken"):
            why = "; ".join(b.split(" BROKEN ", 1)[-1][:160] for b in m.get("check", {}).get("broken", [])[:1])
        rows.append("| %s | %s | `./check %s` | %s | %s |" % (m["id"], note[:150].replace("|", "/"), m["property"], m.get("result", "?"),
                                                          why.replace("|", "/")))
    head = ["| refactoring (`refactors/<id>/`) | what it does | check | result | what stopped checking |", "|---|---|---|---|---|"]
    quiet = sum("quiet" in r for r in rows)
    return "\n".join(head + rows + ["", "%d behaviour-preserving refactorings, %d leave the check quiet (exit 0), %d break the tie to the "
                                    "model without a failing input (the outcome the brief allows), %d false alarms with a concrete input."
                                    % (len(rows), quiet, sum("tie broken" in r for r in rows), sum("ALARM" in r for r in rows))])


GEN = {"asbuilt": asbuilt, "seeded": seeded, "refactors": refactors}


def main():
    p = os.path.join(HERE, "DESIGN.md")
    s = open(p).read()
    for name, fn in GEN.items():
        b, e = "<!-- GENERATED:%s BEGIN -->" % name, "<!-- GENERATED:%s END -->" % name
        if b not in s:
            print("marker for", name, "not in DESIGN.md; skipped")
            continue
        pre, rest = s.split(b, 1)
        _, post = rest.split(e, 1)
        s = pre + b + "\n" + fn() + "\n" + e + post
    open(p, "w").write(s)
    print("DESIGN.md regenerated blocks:", ", ".join(GEN))


if __name__ == "__main__":
    main()
