#!/bin/bash
# tools_merge.sh <branch> <Cxx> [<Cyy>...] : merge a follow-up branch, resolve generated-file conflicts,
# apply new fix patches, regenerate manifest + lock, build, quick check, clean its worktrees.
cd /verif
B=$1; shift
git merge -q $B -m "merge $B" >/dev/null 2>&1
for f in $(git diff --name-only --diff-filter=U); do
  case $f in
    evidence/*|lean/theorems.lock.json|MANIFEST.json|known_findings.json) git checkout --theirs $f 2>/dev/null; git add $f;;
    *) echo "UNRESOLVED CONFLICT in $f"; exit 1;;
  esac
done
git commit -q -m "merge $B" 2>/dev/null
for P in "$@"; do
  for f in $(ls fixes/$P-*.patch 2>/dev/null | sort -V); do
    b=$(basename $f)
    if ! git -C /repo log --format=%s | grep -qF "$(head -1 $f | cut -c1-60)"; then
      out=$(./tools_applyfix.py $f) || { echo "$out"; exit 1; }
      echo "$out"
      h=$(echo "$out" | sed -n 's/.* -> \([0-9a-f]*\) |.*/\1/p')
      sed -i "s#fixes/$b#$h#g; s#\"commit\": \"$b\"#\"commit\": \"$h\"#g; s#\"patch\": \"$b\"#\"patch\": \"$h\"#g" harness/props/*.py
    fi
  done
  l=$(echo $P | tr A-Z a-z)
  (cd lean && lake build Holpy.$P.Props ${l}_model 2>&1 | tail -1)
done
./tools_manifest.py; ./tools_lock_theorems.py
git add -A; git commit -q -m "after merge $B: manifest, lock"
U=${B^}
git worktree remove --force /tmp/w/$U 2>/dev/null; git -C /repo worktree remove --force /tmp/r/$U 2>/dev/null; git branch -D $B -q
[ -n "$SKIP_CHECK" ] && exit 0
for P in "$@"; do ./check $P > /tmp/merge_check_$P.log 2>&1; echo "$P exit $?"; grep -E "^VIOLATION" /tmp/merge_check_$P.log | head -3; done
