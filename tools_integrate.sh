#!/bin/bash
# tools_integrate.sh Cxx [more ids sharing the branch...] : merge branch cxx, apply its fix patches to /repo
# (one commit each), put the commit ids into the FINDINGS of harness/props/*.py, build the Lean targets.
set -e
cd /verif
P=$1; l=$(echo $P | tr A-Z a-z)
git merge -q $l -m "merge $l" || { echo "MERGE CONFLICT"; exit 1; }
for f in $(ls fixes/$P-*.patch fixes/${2:-NONE}-*.patch 2>/dev/null | sort -V); do
  out=$(./tools_applyfix.py $f) || { echo "$out"; exit 1; }
  echo "$out"
  h=$(echo "$out" | sed -n 's/.* -> \([0-9a-f]*\) |.*/\1/p')
  b=$(basename $f)
  sed -i "s#fixes/$b#$h#g; s#\"commit\": \"$b\"#\"commit\": \"$h\"#g" harness/props/*.py
done
for q in "$@"; do
  ql=$(echo $q | tr A-Z a-z)
  (cd lean && lake build Holpy.$q.Props ${ql}_model 2>&1 | tail -1)
done
grep -n '"commit"' harness/props/$l.py | head
