#!/venv/bin/python
"""Apply a proposed fix patch (fixes/Cxx-N.patch: commit message, blank line, git diff) to /repo as
one commit.  Usage: tools_applyfix.py fixes/C17-1.patch [more.patch ...]   Prints the new commit ids."""
import subprocess, sys
for path in sys.argv[1:]:
    txt = open(path, encoding="utf-8").read()
    i = txt.index("diff --git")
    msg = txt[:i].strip()
    assert msg.startswith("fix:"), "commit message must start with fix: in " + path
    p = subprocess.run(["git", "-C", "/repo", "apply", "--whitespace=nowarn", "-"], input=txt[i:], text=True, capture_output=True)
    if p.returncode != 0:
        print("FAILED to apply", path, p.stderr)
        sys.exit(1)
    subprocess.run(["git", "-C", "/repo", "add", "-A"], check=True)
    subprocess.run(["git", "-C", "/repo", "commit", "-q", "-m", msg], check=True)
    h = subprocess.run(["git", "-C", "/repo", "rev-parse", "--short", "HEAD"], capture_output=True, text=True).stdout.strip()
    print(path, "->", h, "|", msg.splitlines()[0])
