#!/venv/bin/python
"""Regenerates MANIFEST.json from harness/manifest_data.py (keeps it schema-valid)."""
import json, os, sys
sys.path.insert(0, os.path.dirname(os.path.abspath(__file__)))
from harness.manifest_data import CHECKS, NOT_APPLICABLE, HOOK_COMMITS, ENGINES
import jsonschema

BASE = "cd /repo && /venv/bin/python -m pytest -ra -q -p no:cacheprovider --timeout=900 --continue-on-collection-errors"
m = {
    "version": 1,
    "setup_cmd": "cd lean && lake build",
    "hooks": {"guard": "HOLPY_VERIF", "enable": "none needed: no hook was added to /repo; harness-side wrappers only",
              "baseline_off_cmd": BASE, "source_commits": HOOK_COMMITS, "add_only": True},
    "engines": ENGINES,
    "checks": [],
    "notes": "Entry point ./check <Cxx> [--tier quick|thorough] [--replay f]. Exit 0 held / 1 VIOLATION / 2 machinery error. See DESIGN.md.",
    "not_applicable": NOT_APPLICABLE,
}
for c in CHECKS:
    pid = c["id"]
    m["checks"].append({
        "property_id": pid,
        "quick_cmd": "./check %s --tier quick" % pid,
        "thorough_cmd": "./check %s --tier thorough" % pid,
        "evidence_file": "evidence/%s.json" % pid,
        "replay_cmd_template": "./check %s --replay {path}" % pid,
        "engine": "lean4+correspondence",
        "level_claimed": {"category": "proof", "text": c["text"], "design_ref": c["design_ref"]},
        "level_note": c["note"],
        "technique": c["technique"],
    })
sch = json.load(open("/root/.vp/MANIFEST.schema.json"))
jsonschema.validate(m, sch)
json.dump(m, open(os.path.join(os.path.dirname(os.path.abspath(__file__)), "MANIFEST.json"), "w"), indent=1)
print("MANIFEST.json written:", len(m["checks"]), "checks,", len(m["not_applicable"]), "not_applicable")
