#!/venv/bin/python
"""Run the repository's baseline test command on a checkout (default /repo) and report which
stable_pass tests of /root/.vp/BASELINE.json no longer pass.  Usage: tools_baseline.py [repo_dir]"""
import json, os, subprocess, sys, tempfile, xml.etree.ElementTree as ET
repo = sys.argv[1] if len(sys.argv) > 1 else "/repo"
base = json.load(open("/root/.vp/BASELINE.json"))
out = tempfile.mktemp(suffix=".xml")


def untracked():
    r = subprocess.run(["git", "-C", repo, "ls-files", "--others", "--exclude-standard"], capture_output=True, text=True)
    return set(l for l in r.stdout.splitlines() if "__pycache__" not in l)


before = untracked()
clean_before = not subprocess.run(["git", "-C", repo, "status", "--porcelain", "-uno"], capture_output=True, text=True).stdout.strip()
subprocess.run(["/venv/bin/python", "-m", "pytest", "-ra", "-q", "-p", "no:cacheprovider", "--timeout=900",
                "--continue-on-collection-errors", "--junitxml=" + out], cwd=repo, capture_output=True, text=True)
passed = set()
for tc in ET.parse(out).getroot().iter("testcase"):
    if not any(ch.tag in ("failure", "error", "skipped") for ch in tc):
        passed.add("%s::%s" % (tc.get("classname"), tc.get("name")))
os.unlink(out)
after = untracked()
# the suite itself writes files into the checkout (summary.txt, test_files.txt, six integral/examples/*.json
# exported by integral tests): remove exactly the untracked files that were not there before the run
for f in after - before:
    try:
        os.unlink(os.path.join(repo, f))
    except OSError:
        pass
subprocess.run(["git", "-C", repo, "checkout", "--", "."], capture_output=True) if clean_before else None
missing = [t for t in base["stable_pass"] if t not in passed]
print("passed now: %d; stable_pass: %d; stable_pass no longer passing: %d" % (len(passed), len(base["stable_pass"]), len(missing)))
for t in missing:
    print("  BROKEN", t)
sys.exit(1 if missing else 0)
