import Holpy.Kernel.SoundnessIn
/-
Definitional extensions as a class of valuations.  `DefsHold defs M ρ` says that the constants of
`ρ` make every equation of `defs` true — in `M` and in every model reached from `(M, ρ)` by type
instantiation (`pull`), whatever the variables are.  It depends on the constants of `ρ` only, so it
is preserved by the three operations of `ClosedClass`; hence for every closed class `C`,
`C ∧ DefsHold defs` is closed and the soundness theorems of `SoundnessIn.lean` apply to proofs
that cite the equations of `defs` as theorems.
-/
namespace Holpy

/-- the two valuations read every constant the same way -/
def ConstEq (ρ ρ' : Valuation) : Prop := ∀ n S, ρ 2 n S = ρ' 2 n S

theorem ConstEq.refl (ρ : Valuation) : ConstEq ρ ρ := fun _ _ => rfl

theorem ConstEq.symm {ρ ρ' : Valuation} (h : ConstEq ρ ρ') : ConstEq ρ' ρ := fun n S => (h n S).symm

theorem ConstEq.trans {ρ ρ' ρ'' : Valuation} (h : ConstEq ρ ρ') (h' : ConstEq ρ' ρ'') :
    ConstEq ρ ρ'' := fun n S => (h n S).trans (h' n S)

theorem ConstEq.constVal {ρ ρ' : Valuation} (h : ConstEq ρ ρ') (M : Model) (n : String) (T : Ty) :
    constVal M ρ n T = constVal M ρ' n T := by
  unfold Holpy.constVal
  split <;> first | rfl | exact h n T

theorem ConstEq.pull {ρ ρ' : Valuation} (h : ConstEq ρ ρ') (M : Model) (σ : Ty.TyInst) :
    ConstEq (ρ.pull M σ) (ρ'.pull M σ) := by
  intro n S
  simp only [Valuation.pull, if_true]
  exact h.constVal M n _

theorem ConstEq.update (ρ : Valuation) (k : Nat) (n : String) (T : Ty) (v : Nat) (hk : k < 2) :
    ConstEq (ρ.update k n T v) ρ := by
  intro m S
  unfold Valuation.update
  rw [if_neg]
  intro h
  omega

theorem ConstEq.instVal (M : Model) (ρ : Valuation) (inst : Term.Inst) :
    ConstEq (instVal M ρ inst) ρ := by
  intro m S
  simp [Holpy.instVal]

/-- the model / valuation after a sequence of type instantiations -/
def pullsM (M : Model) : List Ty.TyInst → Model
  | [] => M
  | σ :: σs => pullsM (M.pull σ) σs

def pullsV (M : Model) (ρ : Valuation) : List Ty.TyInst → Valuation
  | [] => ρ
  | σ :: σs => pullsV (M.pull σ) (ρ.pull M σ) σs

theorem ConstEq.pulls {ρ ρ' : Valuation} (h : ConstEq ρ ρ') (M : Model) (σs : List Ty.TyInst) :
    ConstEq (pullsV M ρ σs) (pullsV M ρ' σs) := by
  induction σs generalizing M ρ ρ' with
  | nil => exact h
  | cons σ σs ih => exact ih (h.pull M σ) (M.pull σ)

/-- the constants of `ρ` satisfy every equation of `defs`, in `M` and in every type instance -/
def DefsHold (defs : List (String × Thm)) (M : Model) (ρ : Valuation) : Prop :=
  ∀ σs ρ2, Admissible (pullsM M σs) ρ2 → ConstEq ρ2 (pullsV M ρ σs) →
    ∀ d ∈ defs, holds (pullsM M σs) ρ2 d.2.prop

theorem DefsHold.congr {defs : List (String × Thm)} {M : Model} {ρ ρ' : Valuation}
    (h : DefsHold defs M ρ) (hc : ConstEq ρ' ρ) : DefsHold defs M ρ' :=
  fun σs ρ2 ha he d hd => h σs ρ2 ha (he.trans (hc.pulls M σs)) d hd

/-- adding "the definitional equations hold" to a closed class gives a closed class -/
theorem closedClass_defs {C : Model → Valuation → Prop} (hcl : ClosedClass C)
    (defs : List (String × Thm)) : ClosedClass (fun M ρ => C M ρ ∧ DefsHold defs M ρ) := by
  refine ⟨?_, ?_, ?_⟩
  · intro M ρ k n T v hk h
    exact ⟨hcl.update M ρ k n T v hk h.1, h.2.congr (ConstEq.update ρ k n T v hk)⟩
  · intro M ρ σ hρ h
    exact ⟨hcl.pull M ρ σ hρ h.1, fun σs ρ2 ha he d hd => h.2 (σ :: σs) ρ2 ha he d hd⟩
  · intro M ρ inst h
    exact ⟨hcl.instVal M ρ inst h.1, h.2.congr (ConstEq.instVal M ρ inst)⟩

/-- each equation of `defs` (no hypotheses, passing `check_thm_type`) is good for that class -/
theorem defs_good {C : Model → Valuation → Prop} (defs : List (String × Thm))
    (hwt : ∀ d ∈ defs, Thm.checkThmTypeSig d.2 = true) :
    ∀ d ∈ defs, GoodIn (fun M ρ => C M ρ ∧ DefsHold defs M ρ) d.2 :=
  fun d hd => ⟨hwt d hd, fun _ ρ hρ hc _ => hc.2 [] ρ hρ (ConstEq.refl ρ) d hd⟩

/-- Scripts over a theory `axs` whose theorems are good for a closed class `C`, extended by the
definitional equations `defs`: every accepted sequent is good for the valuations of `C` that
satisfy the equations. -/
theorem runScriptAx_sound_over_defs {C : Model → Valuation → Prop} (hcl : ClosedClass C)
    (axs : List (String × Thm)) (hax : ∀ p ∈ axs, GoodIn C p.2)
    (hvar : ∀ n T M, ValidIn C M (Thm.mkVAR n T))
    (defs : List (String × Thm)) (hwt : ∀ d ∈ defs, Thm.checkThmTypeSig d.2 = true)
    (steps : List StepAx) (res : List Thm)
    (h : runScriptAx (axs ++ defs) steps [] = .ok res) :
    ∀ th ∈ res, GoodIn (fun M ρ => C M ρ ∧ DefsHold defs M ρ) th := by
  apply runScriptAx_sound_in (closedClass_defs hcl defs) (axs ++ defs) ?_ ?_ steps [] res
    (fun _ h => by cases h) h
  · intro p hp
    rcases List.mem_append.1 hp with h1 | h1
    · exact (hax p h1).mono (fun _ _ hd => hd.1)
    · exact defs_good defs hwt p h1
  · intro n T M ρ hρ hc hh
    exact hvar n T M ρ hρ hc.1 hh

end Holpy
