import Holpy.Common.Sexp
import Holpy.Kernel.Sem
/-
S-expression reader/writer for kernel objects (shared by the C01/C03/… drivers); the Python side
is harness/common/kwire.py, which reads the fields of real `Type`/`Term`/`Thm` objects directly.

  Ty   := (S name) | (V name) | (C name Ty*)
  Term := (sv name Ty) | (v name Ty) | (c name Ty) | (ap Term Term) | (ab name Ty Term) | (b i)
  Thm  := (thm (Term*) Term)
  Inst := (inst ((name Ty)*) ((name Term)*) ((name Term)*))
  Arg  := (none) | (term Term) | (tyinst ((name Ty)*)) | Inst | (other KIND*)   -- anything no rule accepts
-/
namespace Holpy.Wire
open Holpy

partial def tyOf : Sexp → Option Ty
  | .list [.atom "S", .atom n] => some (.stvar n)
  | .list [.atom "V", .atom n] => some (.tvar n)
  | .list (.atom "C" :: .atom n :: args) => do some (.con n (← args.mapM tyOf))
  | _ => none

partial def termOf : Sexp → Option Term
  | .list [.atom "sv", .atom n, T] => do some (.svar n (← tyOf T))
  | .list [.atom "v", .atom n, T] => do some (.var n (← tyOf T))
  | .list [.atom "c", .atom n, T] => do some (.const n (← tyOf T))
  | .list [.atom "ap", f, a] => do some (.comb (← termOf f) (← termOf a))
  | .list [.atom "ab", .atom x, T, b] => do some (.abs x (← tyOf T) (← termOf b))
  | .list [.atom "b", i] => do some (.bound (← i.toNat?))
  | _ => none

def thmOf : Sexp → Option Thm
  | .list [.atom "thm", .list hs, p] => do some ⟨← hs.mapM termOf, ← termOf p⟩
  | _ => none

def tyInstOf (l : List Sexp) : Option Ty.TyInst :=
  l.mapM fun
    | .list [.atom n, T] => do some (n, ← tyOf T)
    | _ => none

def termMapOf (l : List Sexp) : Option (List (String × Term)) :=
  l.mapM fun
    | .list [.atom n, t] => do some (n, ← termOf t)
    | _ => none

def argOf : Sexp → Option Arg
  | .list [.atom "none"] => some .none
  | .list [.atom "term", t] => do some (.term (← termOf t))
  | .list [.atom "tyinst", .list l] => do some (.tyinst (← tyInstOf l))
  | .list [.atom "inst", .list ty, .list sv, .list vs] => do
    some (.inst ⟨← tyInstOf ty, ← termMapOf sv, ← termMapOf vs⟩)
  | .list (.atom "other" :: _) => some .other
  | _ => none

partial def tyTo : Ty → Sexp
  | .stvar n => .list [.atom "S", .atom n]
  | .tvar n => .list [.atom "V", .atom n]
  | .con n args => .list (.atom "C" :: .atom n :: args.map tyTo)

def termTo : Term → Sexp
  | .svar n T => .list [.atom "sv", .atom n, tyTo T]
  | .var n T => .list [.atom "v", .atom n, tyTo T]
  | .const n T => .list [.atom "c", .atom n, tyTo T]
  | .comb f a => .list [.atom "ap", termTo f, termTo a]
  | .abs x T b => .list [.atom "ab", .atom x, tyTo T, termTo b]
  | .bound i => .list [.atom "b", Sexp.ofNat i]

def thmTo (th : Thm) : Sexp := .list [.atom "thm", .list (th.hyps.map termTo), termTo th.prop]

def terrTo : TErr → String
  | .typeCheck => "TypeCheckException"
  | .term => "TermException"
  | .attr => "crash"
  | .fuel => "fuel"

def rerrTo : RErr → String
  | .invalid => "invalid"
  | .badInput => "badinput"
  | .typing => "typing"
  | .escape e => "escape:" ++ terrTo e
  | .noRule => "norule"
  | .badRef => "badref"

end Holpy.Wire
