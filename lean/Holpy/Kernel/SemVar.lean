import Holpy.Kernel.SemBasic
/-
Free and schematic variables: a variable that does not occur does not matter; abstracting over a
variable (`abstract_over`, `Lambda`, `Forall`) turns dependence on the valuation into dependence
on the bound variable.
-/
namespace Holpy

/-- `x` is a (schematic) variable: its kind (0 schematic, 1 ordinary), name and type -/
def varKey : Term → Option (Nat × String × Ty)
  | .svar n T => some (0, n, T)
  | .var n T => some (1, n, T)
  | _ => none

/-- the valuation `ρ` with the variable `(k, n, T)` set to `v` -/
def Valuation.update (ρ : Valuation) (k : Nat) (n : String) (T : Ty) (v : Nat) : Valuation :=
  fun k' n' T' => if k' = k ∧ n' = n ∧ T' = T then v else ρ k' n' T'

theorem Admissible.update {M : Model} {ρ : Valuation} (hρ : Admissible M ρ) (k : Nat) (n : String)
    (T : Ty) (v : Nat) (hv : v < M.size T) : Admissible M (ρ.update k n T v) := by
  intro k' n' T'
  unfold Valuation.update
  split
  · next h => rw [h.2.2]; exact hv
  · exact hρ k' n' T'

/-- a `varKey` is a schematic variable (kind 0) or an ordinary variable (kind 1) -/
theorem varKey_cases {x : Term} {k : Nat} {n : String} {T : Ty} (hx : varKey x = some (k, n, T)) :
    (x = .svar n T ∧ k = 0) ∨ (x = .var n T ∧ k = 1) := by
  cases x <;> simp [varKey] at hx
  · obtain ⟨rfl, rfl, rfl⟩ := hx; exact Or.inl ⟨rfl, rfl⟩
  · obtain ⟨rfl, rfl, rfl⟩ := hx; exact Or.inr ⟨rfl, rfl⟩

theorem constVal_update (M : Model) (ρ : Valuation) (k : Nat) (n : String) (T : Ty) (v : Nat)
    (hk : k ≠ 2) (m : String) (S : Ty) :
    constVal M (ρ.update k n T v) m S = constVal M ρ m S := by
  unfold constVal
  split <;> try rfl
  simp only [Valuation.update]
  rw [if_neg]
  intro h
  exact hk h.1.symm

/-- a variable that does not occur in `t` (`occurs_var` answers `False`) does not influence it -/
theorem sem_update_of_not_occurs (M : Model) (ρ : Valuation) (x : Term) (k : Nat) (n : String) (T : Ty)
    (hx : varKey x = some (k, n, T)) (t : Term) (h : Term.occursVar x t = false) (v : Nat)
    (bd : List Ty) (env : List Nat) :
    sem M (ρ.update k n T v) bd env t = sem M ρ bd env t := by
  induction t generalizing bd env with
  | svar m S =>
    simp only [sem, Valuation.update]
    rcases varKey_cases hx with ⟨rfl, rfl⟩ | ⟨rfl, rfl⟩
    · simp [Term.occursVar, Term.aeq] at h
      rw [if_neg]
      intro h'
      exact h h'.2.1 h'.2.2
    · simp
  | var m S =>
    simp only [sem, Valuation.update]
    rcases varKey_cases hx with ⟨rfl, rfl⟩ | ⟨rfl, rfl⟩
    · simp
    · simp [Term.occursVar, Term.aeq] at h
      rw [if_neg]
      intro h'
      exact h h'.2.1 h'.2.2
  | const m S =>
    simp only [sem]
    apply constVal_update
    rcases varKey_cases hx with ⟨_, rfl⟩ | ⟨_, rfl⟩ <;> decide
  | comb f a ihf iha =>
    simp only [Term.occursVar, Bool.or_eq_false_iff] at h
    simp only [sem, ihf h.1, iha h.2]
  | abs y U b ih =>
    simp only [Term.occursVar] at h
    simp only [sem, ih h]
  | bound i => simp only [sem]

theorem Term.abstractOverAt_svar {x : Term} {d : Nat} {m : String} {S : Ty} {t' : Term}
    (h : Term.abstractOverAt x d (.svar m S) = .ok t') :
    (x = .svar m S ∧ t' = .bound d) ∨ (x ≠ .svar m S ∧ t' = .svar m S) := by
  cases x with
  | svar xn xT =>
    simp only [Term.abstractOverAt] at h
    by_cases hm : m = xn
    · by_cases hS : S = xT
      · subst hm; subst hS
        simp at h
        exact Or.inl ⟨rfl, h.symm⟩
      · simp [hm, hS] at h
    · simp [hm] at h
      refine Or.inr ⟨?_, h.symm⟩
      intro e; injection e with e1 e2; exact hm e1.symm
  | _ =>
    simp only [Term.abstractOverAt] at h
    injection h with h
    exact Or.inr ⟨(by intro e; cases e), h.symm⟩

theorem Term.abstractOverAt_var {x : Term} {d : Nat} {m : String} {S : Ty} {t' : Term}
    (h : Term.abstractOverAt x d (.var m S) = .ok t') :
    (x = .var m S ∧ t' = .bound d) ∨ (x ≠ .var m S ∧ t' = .var m S) := by
  cases x with
  | var xn xT =>
    simp only [Term.abstractOverAt] at h
    by_cases hm : m = xn
    · by_cases hS : S = xT
      · subst hm; subst hS
        simp at h
        exact Or.inl ⟨rfl, h.symm⟩
      · simp [hm, hS] at h
    · simp [hm] at h
      refine Or.inr ⟨?_, h.symm⟩
      intro e; injection e with e1 e2; exact hm e1.symm
  | _ =>
    simp only [Term.abstractOverAt] at h
    injection h with h
    exact Or.inr ⟨(by intro e; cases e), h.symm⟩

theorem Term.abstractOverAt_comb {x : Term} {d : Nat} {f a t' : Term}
    (h : Term.abstractOverAt x d (.comb f a) = .ok t') :
    ∃ f' a', Term.abstractOverAt x d f = .ok f' ∧ Term.abstractOverAt x d a = .ok a' ∧
      t' = .comb f' a' := by
  simp only [Term.abstractOverAt, bind, Except.bind] at h
  cases hf : Term.abstractOverAt x d f with
  | error e => rw [hf] at h; cases h
  | ok f' =>
    cases ha : Term.abstractOverAt x d a with
    | error e => rw [hf, ha] at h; cases h
    | ok a' =>
      rw [hf, ha] at h
      injection h with h
      exact ⟨f', a', rfl, rfl, h.symm⟩

theorem Term.abstractOverAt_abs {x : Term} {d : Nat} {y : String} {U : Ty} {b t' : Term}
    (h : Term.abstractOverAt x d (.abs y U b) = .ok t') :
    ∃ b', Term.abstractOverAt x (d + 1) b = .ok b' ∧ t' = .abs y U b' := by
  simp only [Term.abstractOverAt, bind, Except.bind] at h
  cases hb : Term.abstractOverAt x (d + 1) b with
  | error e => rw [hb] at h; cases h
  | ok b' =>
    rw [hb] at h
    injection h with h
    exact ⟨b', rfl, h.symm⟩

theorem getElem?_append_singleton_length {α : Type} (l : List α) (a : α) :
    (l ++ [a])[l.length]? = some a := by
  simp

/-- `abstract_over` does not change the lax type: the new bound variable has the type of `x` -/
theorem Term.getType_abstractOverAt (x : Term) (k : Nat) (n : String) (T : Ty)
    (hx : varKey x = some (k, n, T)) (lo : List Ty) (t t' : Term)
    (h : Term.abstractOverAt x lo.length t = .ok t') (hc : Term.isOpenAt lo.length t = false) :
    Term.getType (lo ++ [T]) t' = Term.getType lo t := by
  induction t generalizing lo t' with
  | svar m S =>
    rcases Term.abstractOverAt_svar h with ⟨rfl, rfl⟩ | ⟨_, rfl⟩
    · simp only [varKey, Option.some.injEq, Prod.mk.injEq] at hx
      obtain ⟨_, _, rfl⟩ := hx
      simp [Term.getType]
    · rfl
  | var m S =>
    rcases Term.abstractOverAt_var h with ⟨rfl, rfl⟩ | ⟨_, rfl⟩
    · simp only [varKey, Option.some.injEq, Prod.mk.injEq] at hx
      obtain ⟨_, _, rfl⟩ := hx
      simp [Term.getType]
    · rfl
  | const m S =>
    simp only [Term.abstractOverAt] at h
    injection h with h
    subst h
    rfl
  | comb f a ihf iha =>
    obtain ⟨f', a', hf, ha, rfl⟩ := Term.abstractOverAt_comb h
    simp only [Term.isOpenAt, Bool.or_eq_false_iff] at hc
    simp only [Term.getType, ihf lo f' hf hc.1]
  | abs y U b ih =>
    obtain ⟨b', hb, rfl⟩ := Term.abstractOverAt_abs h
    simp only [Term.isOpenAt] at hc
    have := ih (U :: lo) b' hb hc
    simp only [Term.getType]
    rw [← List.cons_append, this]
  | bound i =>
    simp only [Term.abstractOverAt] at h
    injection h with h
    subst h
    simp only [Term.isOpenAt, ge_iff_le, decide_eq_false_iff_not, Nat.not_le] at hc
    simp only [Term.getType, List.getElem?_append_left hc]

theorem Term.checkedGetType_abstractOverAt (x : Term) (k : Nat) (n : String) (T : Ty)
    (hx : varKey x = some (k, n, T)) (lo : List Ty) (t t' : Term) (S : Ty)
    (h : Term.abstractOverAt x lo.length t = .ok t') (hc : Term.checkedGetType lo t = .ok S) :
    Term.checkedGetType (lo ++ [T]) t' = .ok S := by
  induction t generalizing lo t' S with
  | svar m S' =>
    rcases Term.abstractOverAt_svar h with ⟨rfl, rfl⟩ | ⟨_, rfl⟩
    · simp only [varKey, Option.some.injEq, Prod.mk.injEq] at hx
      obtain ⟨_, _, rfl⟩ := hx
      simp only [Term.checkedGetType] at hc
      simp [Term.checkedGetType, hc]
    · exact hc
  | var m S' =>
    rcases Term.abstractOverAt_var h with ⟨rfl, rfl⟩ | ⟨_, rfl⟩
    · simp only [varKey, Option.some.injEq, Prod.mk.injEq] at hx
      obtain ⟨_, _, rfl⟩ := hx
      simp only [Term.checkedGetType] at hc
      simp [Term.checkedGetType, hc]
    · exact hc
  | const m S' =>
    simp only [Term.abstractOverAt] at h
    injection h with h
    subst h
    exact hc
  | comb f a ihf iha =>
    obtain ⟨f', a', hf, ha, rfl⟩ := Term.abstractOverAt_comb h
    simp only [Term.checkedGetType, bind, Except.bind] at hc ⊢
    cases hcf : Term.checkedGetType lo f with
    | error e => simp only [hcf] at hc; cases hc
    | ok tf =>
      cases hca : Term.checkedGetType lo a with
      | error e => simp only [hcf, hca] at hc; cases hc
      | ok ta =>
        rw [ihf lo f' tf hf hcf, iha lo a' ta ha hca]
        simp only [hcf, hca] at hc
        exact hc
  | abs y U b ih =>
    obtain ⟨b', hb, rfl⟩ := Term.abstractOverAt_abs h
    simp only [Term.checkedGetType, bind, Except.bind] at hc ⊢
    cases hcb : Term.checkedGetType (U :: lo) b with
    | error e => simp only [hcb] at hc; cases hc
    | ok tb =>
      have := ih (U :: lo) b' tb hb hcb
      rw [← List.cons_append, this]
      simp only [hcb] at hc
      exact hc
  | bound i =>
    simp only [Term.abstractOverAt] at h
    injection h with h
    subst h
    have hi : i < lo.length := by
      by_cases hi : i < lo.length
      · exact hi
      · simp only [Term.checkedGetType, List.getElem?_eq_none (Nat.le_of_not_lt hi)] at hc
        cases hc
    simp only [Term.checkedGetType, List.getElem?_append_left hi] at hc ⊢
    exact hc

/-- denotation of `abstract_over`: the abstracted body at value `v` is the original term under the
valuation that sends `x` to `v` -/
theorem sem_abstractOverAt (M : Model) (ρ : Valuation) (x : Term) (k : Nat) (n : String) (T : Ty)
    (hx : varKey x = some (k, n, T)) (lo : List Ty) (elo : List Nat) (h1 : elo.length = lo.length)
    (t t' : Term) (h : Term.abstractOverAt x lo.length t = .ok t')
    (hc : Term.isOpenAt lo.length t = false) (v : Nat) :
    sem M ρ (lo ++ [T]) (elo ++ [v]) t' = sem M (ρ.update k n T v) lo elo t := by
  induction t generalizing lo elo t' with
  | svar m S =>
    rcases Term.abstractOverAt_svar h with ⟨rfl, rfl⟩ | ⟨hne, rfl⟩
    · simp only [varKey, Option.some.injEq, Prod.mk.injEq] at hx
      obtain ⟨rfl, rfl, rfl⟩ := hx
      simp [sem, Valuation.update, ← h1]
    · simp only [sem, Valuation.update]
      rw [if_neg]
      rintro ⟨rfl, rfl, rfl⟩
      rcases varKey_cases hx with ⟨rfl, _⟩ | ⟨_, hk⟩
      · exact hne rfl
      · cases hk
  | var m S =>
    rcases Term.abstractOverAt_var h with ⟨rfl, rfl⟩ | ⟨hne, rfl⟩
    · simp only [varKey, Option.some.injEq, Prod.mk.injEq] at hx
      obtain ⟨rfl, rfl, rfl⟩ := hx
      simp [sem, Valuation.update, ← h1]
    · simp only [sem, Valuation.update]
      rw [if_neg]
      rintro ⟨rfl, rfl, rfl⟩
      rcases varKey_cases hx with ⟨_, hk⟩ | ⟨rfl, _⟩
      · cases hk
      · exact hne rfl
  | const m S =>
    simp only [Term.abstractOverAt] at h
    injection h with h
    subst h
    simp only [sem]
    symm
    apply constVal_update
    rcases varKey_cases hx with ⟨_, rfl⟩ | ⟨_, rfl⟩ <;> decide
  | comb f a ihf iha =>
    obtain ⟨f', a', hf, ha, rfl⟩ := Term.abstractOverAt_comb h
    simp only [Term.isOpenAt, Bool.or_eq_false_iff] at hc
    simp only [sem, Term.getType_abstractOverAt x k n T hx lo f f' hf hc.1,
      ihf lo elo h1 f' hf hc.1, iha lo elo h1 a' ha hc.2]
  | abs y U b ih =>
    obtain ⟨b', hb, rfl⟩ := Term.abstractOverAt_abs h
    simp only [Term.isOpenAt] at hc
    have hty := Term.getType_abstractOverAt x k n T hx (U :: lo) b b' hb hc
    have hsem : ∀ w, sem M ρ (U :: (lo ++ [T])) (w :: (elo ++ [v])) b'
        = sem M (ρ.update k n T v) (U :: lo) (w :: elo) b := fun w =>
      ih (U :: lo) (w :: elo) (by simp [h1]) b' hb hc
    rw [List.cons_append] at hty
    simp only [sem, hty, hsem]
  | bound i =>
    simp only [Term.abstractOverAt] at h
    injection h with h
    subst h
    simp only [Term.isOpenAt, ge_iff_le, decide_eq_false_iff_not, Nat.not_le] at hc
    simp only [sem, List.getElem?_append_left (h1 ▸ hc)]

/-- inversion of `Lambda(x, t)` -/
theorem Term.mkLambda_inv {x : Term} {k : Nat} {n : String} {T : Ty}
    (hx : varKey x = some (k, n, T)) {t l : Term} (h : Term.mkLambda x t = .ok l) :
    ∃ b, Term.abstractOverAt x 0 t = .ok b ∧ l = .abs n T b := by
  have hv : Term.isVarLike x = true ∧ Term.nameOf x = n ∧ Term.typeOfAtom x = T := by
    rcases varKey_cases hx with ⟨rfl, _⟩ | ⟨rfl, _⟩ <;> exact ⟨rfl, rfl, rfl⟩
  simp only [Term.mkLambda, Term.abstractOver, hv.1, if_true, bind, Except.bind, hv.2.1,
    hv.2.2] at h
  cases hb : Term.abstractOverAt x 0 t with
  | error e => simp only [hb] at h; cases h
  | ok b =>
    simp only [hb] at h
    injection h with h
    exact ⟨b, rfl, h.symm⟩

/-- inversion of `Forall(x, t)` -/
theorem Term.mkForall_inv {x : Term} {k : Nat} {n : String} {T : Ty}
    (hx : varKey x = some (k, n, T)) {t q : Term} (h : Term.mkForall x t = .ok q) :
    ∃ l, Term.mkLambda x t = .ok l ∧
      q = .comb (.const "all" (Ty.fn (Ty.fn T Ty.bool) Ty.bool)) l := by
  have hv : Term.isVarLike x = true ∧ Term.typeOfAtom x = T := by
    rcases varKey_cases hx with ⟨rfl, _⟩ | ⟨rfl, _⟩ <;> exact ⟨rfl, rfl⟩
  simp only [Term.mkForall, hv.1, if_true, bind, Except.bind, hv.2] at h
  cases hl : Term.mkLambda x t with
  | error e => simp only [hl] at h; cases h
  | ok l =>
    simp only [hl] at h
    injection h with h
    exact ⟨l, rfl, h.symm⟩

/-- `Lambda(x, t)` on a closed well-typed `t` is well-typed of type `T ⇒ S` -/
theorem checked_mkLambda (x : Term) (k : Nat) (n : String) (T : Ty) (hx : varKey x = some (k, n, T))
    (t l : Term) (S : Ty) (ht : Term.checkedGetType [] t = .ok S) (h : Term.mkLambda x t = .ok l) :
    Term.checkedGetType [] l = .ok (Ty.fn T S) := by
  obtain ⟨b, hb, rfl⟩ := Term.mkLambda_inv hx h
  have := Term.checkedGetType_abstractOverAt x k n T hx [] t b S hb ht
  simp only [List.nil_append] at this
  simp only [Term.checkedGetType, bind, Except.bind, this]

/-- applying `Lambda(x, t)` to `v` is `t` with `x ↦ v` -/
theorem appCode_sem_mkLambda (M : Model) (ρ : Valuation) (hρ : Admissible M ρ) (x : Term) (k : Nat)
    (n : String) (T : Ty) (hx : varKey x = some (k, n, T)) (t l : Term) (S : Ty)
    (ht : Term.checkedGetType [] t = .ok S) (h : Term.mkLambda x t = .ok l) (v : Nat)
    (hv : v < M.size T) :
    appCode (sem M ρ [] [] l) v (M.size S) = sem M (ρ.update k n T v) [] [] t := by
  obtain ⟨b, hb, rfl⟩ := Term.mkLambda_inv hx h
  have hty := Term.checkedGetType_abstractOverAt x k n T hx [] t b S hb ht
  have hcl := Term.closed_of_checked [] t S ht
  have hs := sem_abstractOverAt M ρ x k n T hx [] [] rfl t b hb hcl v
  simp only [List.nil_append] at hty hs
  rw [appCode_sem_abs M ρ hρ [] [] Forall2.nil n T S b hty v hv, hs]

/-- `Forall(x, t)` holds iff `t` holds for every value of `x` -/
theorem holds_mkForall (M : Model) (ρ : Valuation) (hρ : Admissible M ρ) (x : Term) (k : Nat)
    (n : String) (T : Ty) (hx : varKey x = some (k, n, T)) (t q : Term)
    (ht : Term.checkedGetType [] t = .ok Ty.bool) (h : Term.mkForall x t = .ok q) :
    holds M ρ q ↔ ∀ v, v < M.size T → holds M (ρ.update k n T v) t := by
  obtain ⟨l, hl, rfl⟩ := Term.mkForall_inv hx h
  have hlt := checked_mkLambda x k n T hx t l Ty.bool ht hl
  have hp : sem M ρ [] [] l < 2 ^ M.size T := by
    have := sem_lt M ρ hρ [] [] Forall2.nil l _ hlt
    rwa [Model.size_fn, Model.size_bool] at this
  unfold holds
  rw [sem_all M ρ [] [] T l hp]
  constructor
  · intro H v hv
    have := appCode_sem_mkLambda M ρ hρ x k n T hx t l Ty.bool ht hl v hv
    rw [Model.size_bool] at this
    rw [← this]
    exact H v hv
  · intro H v hv
    have := appCode_sem_mkLambda M ρ hρ x k n T hx t l Ty.bool ht hl v hv
    rw [Model.size_bool] at this
    rw [this]
    exact H v hv

/-- `all` is logical only at `(T ⇒ bool) ⇒ bool` -/
theorem logicalKind_all_var {A T : Ty} {j : Nat} (hA : logicalKind "all" A = some (j, T)) :
    A = Ty.fn (Ty.fn T Ty.bool) Ty.bool := by
  unfold logicalKind at hA
  split at hA
  · next h => exact absurd h (by decide)
  · next h => exact absurd h (by decide)
  · simp only [Option.some.injEq, Prod.mk.injEq] at hA
    obtain ⟨_, rfl⟩ := hA
    rfl
  · cases hA

/-- the same for the body of an existing `all (λ…)`: instantiating the bound variable -/
theorem holds_all_abs (M : Model) (ρ : Valuation) (hρ : Admissible M ρ) (A : Ty) (y : String) (T : Ty)
    (b : Term) (hb : Term.checkedGetType [T] b = .ok Ty.bool)
    (hA : logicalKind "all" A = some (2, T)) :
    holds M ρ (.comb (.const "all" A) (.abs y T b)) ↔ ∀ v, v < M.size T → sem M ρ [T] [v] b = 1 := by
  have hAeq : A = Ty.fn (Ty.fn T Ty.bool) Ty.bool := logicalKind_all_var hA
  subst hAeq
  have hlt : Term.checkedGetType [] (.abs y T b) = .ok (Ty.fn T Ty.bool) := by
    simp only [Term.checkedGetType, bind, Except.bind, hb]
  have hp : sem M ρ [] [] (.abs y T b) < 2 ^ M.size T := by
    have := sem_lt M ρ hρ [] [] Forall2.nil _ _ hlt
    rwa [Model.size_fn, Model.size_bool] at this
  unfold holds
  rw [sem_all M ρ [] [] T _ hp]
  constructor
  · intro H v hv
    have := appCode_sem_abs M ρ hρ [] [] Forall2.nil y T Ty.bool b hb v hv
    rw [Model.size_bool] at this
    rw [← this]
    exact H v hv
  · intro H v hv
    have := appCode_sem_abs M ρ hρ [] [] Forall2.nil y T Ty.bool b hb v hv
    rw [Model.size_bool] at this
    rw [this]
    exact H v hv

end Holpy
