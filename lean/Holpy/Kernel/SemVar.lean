import Holpy.Kernel.SemBasic
/-
Free and schematic variables: a variable that does not occur does not matter; abstracting over a
variable (`abstract_over`, `Lambda`, `Forall`) turns dependence on the valuation into dependence
on the bound variable.
-/
namespace Holpy

/-- `x` is a (schematic) variable: its kind (0 schematic, 1 ordinary), name and type -/
def varKey : Term → Option (Nat × String × Ty)
  | .svar n T => some (0, n, T)
  | .var n T => some (1, n, T)
  | _ => none

/-- the valuation `ρ` with the variable `(k, n, T)` set to `v` -/
def Valuation.update (ρ : Valuation) (k : Nat) (n : String) (T : Ty) (v : Nat) : Valuation :=
  fun k' n' T' => if k' = k ∧ n' = n ∧ T' = T then v else ρ k' n' T'

theorem Admissible.update {M : Model} {ρ : Valuation} (hρ : Admissible M ρ) (k : Nat) (n : String)
    (T : Ty) (v : Nat) (hv : v < M.size T) : Admissible M (ρ.update k n T v) := by
  sorry

/-- a variable that does not occur in `t` (`occurs_var` answers `False`) does not influence it -/
theorem sem_update_of_not_occurs (M : Model) (ρ : Valuation) (x : Term) (k : Nat) (n : String) (T : Ty)
    (hx : varKey x = some (k, n, T)) (t : Term) (h : Term.occursVar x t = false) (v : Nat)
    (bd : List Ty) (env : List Nat) :
    sem M (ρ.update k n T v) bd env t = sem M ρ bd env t := by
  sorry

/-- `abstract_over` does not change the lax type: the new bound variable has the type of `x` -/
theorem Term.getType_abstractOverAt (x : Term) (k : Nat) (n : String) (T : Ty)
    (hx : varKey x = some (k, n, T)) (lo : List Ty) (t t' : Term)
    (h : Term.abstractOverAt x lo.length t = .ok t') (hc : Term.isOpenAt lo.length t = false) :
    Term.getType (lo ++ [T]) t' = Term.getType lo t := by
  sorry

theorem Term.checkedGetType_abstractOverAt (x : Term) (k : Nat) (n : String) (T : Ty)
    (hx : varKey x = some (k, n, T)) (lo : List Ty) (t t' : Term) (S : Ty)
    (h : Term.abstractOverAt x lo.length t = .ok t') (hc : Term.checkedGetType lo t = .ok S) :
    Term.checkedGetType (lo ++ [T]) t' = .ok S := by
  sorry

/-- denotation of `abstract_over`: the abstracted body at value `v` is the original term under the
valuation that sends `x` to `v` -/
theorem sem_abstractOverAt (M : Model) (ρ : Valuation) (x : Term) (k : Nat) (n : String) (T : Ty)
    (hx : varKey x = some (k, n, T)) (lo : List Ty) (elo : List Nat) (h1 : elo.length = lo.length)
    (t t' : Term) (h : Term.abstractOverAt x lo.length t = .ok t')
    (hc : Term.isOpenAt lo.length t = false) (v : Nat) :
    sem M ρ (lo ++ [T]) (elo ++ [v]) t' = sem M (ρ.update k n T v) lo elo t := by
  sorry

/-- `Lambda(x, t)` on a closed well-typed `t` is well-typed of type `T ⇒ S` -/
theorem checked_mkLambda (x : Term) (k : Nat) (n : String) (T : Ty) (hx : varKey x = some (k, n, T))
    (t l : Term) (S : Ty) (ht : Term.checkedGetType [] t = .ok S) (h : Term.mkLambda x t = .ok l) :
    Term.checkedGetType [] l = .ok (Ty.fn T S) := by
  sorry

/-- applying `Lambda(x, t)` to `v` is `t` with `x ↦ v` -/
theorem appCode_sem_mkLambda (M : Model) (ρ : Valuation) (hρ : Admissible M ρ) (x : Term) (k : Nat)
    (n : String) (T : Ty) (hx : varKey x = some (k, n, T)) (t l : Term) (S : Ty)
    (ht : Term.checkedGetType [] t = .ok S) (h : Term.mkLambda x t = .ok l) (v : Nat)
    (hv : v < M.size T) :
    appCode (sem M ρ [] [] l) v (M.size S) = sem M (ρ.update k n T v) [] [] t := by
  sorry

/-- `Forall(x, t)` holds iff `t` holds for every value of `x` -/
theorem holds_mkForall (M : Model) (ρ : Valuation) (hρ : Admissible M ρ) (x : Term) (k : Nat)
    (n : String) (T : Ty) (hx : varKey x = some (k, n, T)) (t q : Term)
    (ht : Term.checkedGetType [] t = .ok Ty.bool) (h : Term.mkForall x t = .ok q) :
    holds M ρ q ↔ ∀ v, v < M.size T → holds M (ρ.update k n T v) t := by
  sorry

/-- the same for the body of an existing `all (λ…)`: instantiating the bound variable -/
theorem holds_all_abs (M : Model) (ρ : Valuation) (hρ : Admissible M ρ) (A : Ty) (y : String) (T : Ty)
    (b : Term) (hb : Term.checkedGetType [T] b = .ok Ty.bool)
    (hA : logicalKind "all" A = some (2, T)) :
    holds M ρ (.comb (.const "all" A) (.abs y T b)) ↔ ∀ v, v < M.size T → sem M ρ [T] [v] b = 1 := by
  sorry

end Holpy
