import Holpy.Kernel.Soundness
/-
Soundness of the 15 primitive rules relative to a class `C` of (model, valuation) pairs that is
closed under the three operations the rule proofs perform on valuations: changing the value of a
(schematic) variable, pulling back along a type instantiation, and reading instantiated variables
off their instances.  From premises that passed `check_thm_type` and are valid for the class, every
result that passes the checker's post-step `check_thm_type` is again valid for the class — with NO
condition on the rule's argument: `check_thm_type` itself rejects the logical constants at
non-instances of their declared types, so the signature condition of the result comes from the
post-step check and that of the premises from theirs.
`C = everything` gives `Good` (the `<rule>_sound` theorems at the end); the base logic
(`BaseLogic.lean`: the valuations that interpret conj, disj, neg, true, false, exists, IF, Some,
The, exists1 in the standard way) is another instance, which is what makes the `theorem` rule
citing base-logic axioms sound.
-/
namespace Holpy

/-- `Γ ⊢ c` is valid in `M` for the valuations of class `C` -/
def ValidIn (C : Model → Valuation → Prop) (M : Model) (th : Thm) : Prop :=
  ∀ ρ, Admissible M ρ → C M ρ → (∀ h ∈ th.hyps, holds M ρ h) → holds M ρ th.prop

/-- what the checker has established about a sequent it accepted, relative to the class `C` -/
structure GoodIn (C : Model → Valuation → Prop) (th : Thm) : Prop where
  wt : Thm.checkThmTypeSig th = true
  valid : ∀ M : Model, ValidIn C M th

/-- the closure conditions the rule proofs need -/
structure ClosedClass (C : Model → Valuation → Prop) : Prop where
  /-- changing the value of a schematic (k = 0) or ordinary (k = 1) variable -/
  update : ∀ M ρ k n T v, k < 2 → C M ρ → C M (ρ.update k n T v)
  /-- the valuation of the uninstantiated term under a type instantiation -/
  pull : ∀ M ρ σ, Admissible M ρ → C M ρ → C (M.pull σ) (ρ.pull M σ)
  /-- the valuation of the uninstantiated term under a term instantiation -/
  instVal : ∀ M ρ inst, C M ρ → C M (instVal M ρ inst)

variable {C : Model → Valuation → Prop}

/-- frame for the rules with two premises whose hypotheses are merged -/
theorem good_two_in (th1 th2 : Thm) (p : Term) (h1 : GoodIn C th1) (h2 : GoodIn C th2)
    (hwt : Thm.checkThmTypeSig (Thm.mk' p [th1.hyps, th2.hyps]) = true)
    (hval : ∀ M ρ, Admissible M ρ → holds M ρ th1.prop → holds M ρ th2.prop → holds M ρ p) :
    GoodIn C (Thm.mk' p [th1.hyps, th2.hyps]) := by
  refine ⟨hwt, ?_⟩
  · intro M ρ hρ hc hh
    rw [Thm.mk'_two] at hh ⊢
    apply hval M ρ hρ
    · apply h1.valid M ρ hρ hc
      intro h hm
      obtain ⟨h', hm', ha⟩ := Thm.mem_addTuple th1.hyps th2.hyps h (Or.inl hm)
      exact (holds_aeq M ρ h h' ha).2 (hh h' hm')
    · apply h2.valid M ρ hρ hc
      intro h hm
      obtain ⟨h', hm', ha⟩ := Thm.mem_addTuple th1.hyps th2.hyps h (Or.inr hm)
      exact (holds_aeq M ρ h h' ha).2 (hh h' hm')


/-- frame for the rules with one premise that keep its hypotheses -/
theorem good_one_in (th1 : Thm) (p : Term) (h1 : GoodIn C th1)
    (hwt : Thm.checkThmTypeSig ⟨th1.hyps, p⟩ = true)
    (hval : ∀ M ρ, Admissible M ρ → holds M ρ th1.prop → holds M ρ p) :
    GoodIn C ⟨th1.hyps, p⟩ := by
  refine ⟨hwt, ?_⟩
  · intro M ρ hρ hc hh
    exact hval M ρ hρ (h1.valid M ρ hρ hc hh)


theorem GoodIn.prop_bool {th : Thm} (h : GoodIn C th) :
    Term.checkedGetType [] th.prop = .ok Ty.bool := (Thm.checkThmType_typed th h.wt).2

/-- the signature condition is part of what `check_thm_type` checked -/
theorem GoodIn.sig {th : Thm} (h : GoodIn C th) : Thm.sigOK th = true :=
  Thm.checkThmType_sig th h.wt


theorem GoodIn.prop_sig {th : Thm} (h : GoodIn C th) : sigOK th.prop = true :=
  ((Thm.sigOK_iff th).1 h.sig).2



theorem assume_sound_in (a : Term)
    (hwt : Thm.checkThmTypeSig (Thm.assume a) = true) : GoodIn C (Thm.assume a) := by
  refine ⟨hwt, ?_⟩
  · intro M ρ hρ hc hh
    exact hh a (by simp [Thm.assume])


theorem impliesIntr_sound_in (a : Term) (th : Thm) (hth : GoodIn C th)
    (hwt : Thm.checkThmTypeSig (Thm.impliesIntr a th) = true) : GoodIn C (Thm.impliesIntr a th) := by
  have hw := Thm.checkThmType_typed _ hwt
  obtain ⟨ha', hp', -⟩ := Term.checked_mkImplies_inv [] _ a th.prop hw.2
  refine ⟨hwt, ?_⟩
  · intro M ρ hρ hc hh
    show holds M ρ (Term.mkImplies a th.prop)
    rw [holds_mkImplies M ρ hρ a th.prop ha' hp']
    intro hA
    apply hth.valid M ρ hρ hc
    intro h hm
    by_cases hc : Term.aeq h a = true
    · exact (holds_aeq M ρ h a hc).2 hA
    · exact hh h (List.mem_filter.2 ⟨hm, by simp [hc]⟩)


theorem impliesElim_sound_in (th1 th2 th : Thm) (h1 : GoodIn C th1) (h2 : GoodIn C th2)
    (h : Thm.impliesElim th1 th2 = .ok th) (hwt : Thm.checkThmTypeSig th = true) : GoodIn C th := by
  unfold Thm.impliesElim at h
  split at h
  · rename_i a b hd
    split at h
    · rename_i haeq
      cases h
      obtain ⟨hp, ha', hb', hsa, hsb⟩ := impl_inv _ a b _ hd h1.prop_sig h1.prop_bool
      apply good_two_in th1 th2 b h1 h2 hwt
      intro M ρ hρ H1 H2
      rw [hp, holds_mkImplies M ρ hρ a b ha' hb'] at H1
      exact H1 ((holds_aeq M ρ a th2.prop haeq).2 H2)
    · cases h
  · cases h


theorem reflexive_sound_in (x : Term) (th : Thm)
    (h : Thm.reflexive x = .ok th) (hwt : Thm.checkThmTypeSig th = true) : GoodIn C th := by
  unfold Thm.reflexive at h
  obtain ⟨e, he, h⟩ := Thm.liftT_bind_ok _ _ _ h
  cases h
  obtain ⟨T, hT, rfl⟩ := Term.mkEq_inv _ _ _ he
  have hw := Thm.checkThmType_typed _ hwt
  obtain ⟨hx1, -, -⟩ := Term.checked_eqAt_inv [] T _ x x hw.2
  refine ⟨hwt, ?_⟩
  · intro M ρ hρ hc hh
    exact (holds_eqAt M ρ hρ T x x hx1 hx1).2 rfl


theorem symmetric_sound_in (th1 th : Thm) (h1 : GoodIn C th1)
    (h : Thm.symmetric th1 = .ok th) (hwt : Thm.checkThmTypeSig th = true) : GoodIn C th := by
  unfold Thm.symmetric at h
  split at h
  · rename_i x y hd
    obtain ⟨e, he, h⟩ := Thm.liftT_bind_ok _ _ _ h
    cases h
    obtain ⟨T, hp, hx, hy, hsx, hsy⟩ := eq_inv _ x y _ hd h1.prop_sig h1.prop_bool
    have := Term.mkEq_checked y x e T hy he
    subst this
    apply good_one_in th1 _ h1 hwt
    intro M ρ hρ H
    rw [hp, holds_eqAt M ρ hρ T x y hx hy] at H
    rw [holds_eqAt M ρ hρ T y x hy hx]
    exact H.symm
  · cases h


theorem transitive_sound_in (th1 th2 th : Thm) (h1 : GoodIn C th1) (h2 : GoodIn C th2)
    (h : Thm.transitive th1 th2 = .ok th) (hwt : Thm.checkThmTypeSig th = true) : GoodIn C th := by
  unfold Thm.transitive at h
  split at h
  · rename_i x y1 y2 z hd1 hd2
    split at h
    · rename_i haeq
      obtain ⟨e, he, h⟩ := Thm.liftT_bind_ok _ _ _ h
      cases h
      obtain ⟨T1, hp1, hx, hy1, hsx, hsy1⟩ := eq_inv _ x y1 _ hd1 h1.prop_sig h1.prop_bool
      obtain ⟨T2, hp2, hy2, hz, hsy2, hsz⟩ := eq_inv _ y2 z _ hd2 h2.prop_sig h2.prop_bool
      have hT : T1 = T2 := by
        have := Term.checkedGetType_aeq y1 y2 haeq []
        rw [hy1, hy2] at this
        cases this
        rfl
      subst hT
      have := Term.mkEq_checked x z e T1 hx he
      subst this
      apply good_two_in th1 th2 _ h1 h2 hwt
      intro M ρ hρ H1 H2
      rw [hp1, holds_eqAt M ρ hρ T1 x y1 hx hy1] at H1
      rw [hp2, holds_eqAt M ρ hρ T1 y2 z hy2 hz] at H2
      rw [holds_eqAt M ρ hρ T1 x z hx hz, H1, sem_aeq M ρ y1 y2 haeq, H2]
    · cases h
  · cases h


theorem equalIntr_sound_in (th1 th2 th : Thm) (h1 : GoodIn C th1) (h2 : GoodIn C th2)
    (h : Thm.equalIntr th1 th2 = .ok th) (hwt : Thm.checkThmTypeSig th = true) : GoodIn C th := by
  unfold Thm.equalIntr at h
  split at h
  · rename_i a1 b1 b2 a2 hd1 hd2
    split at h
    · rename_i haeq
      rw [Bool.and_eq_true] at haeq
      obtain ⟨e, he, h⟩ := Thm.liftT_bind_ok _ _ _ h
      cases h
      obtain ⟨hp1, ha1, hb1, hsa1, hsb1⟩ := impl_inv _ a1 b1 _ hd1 h1.prop_sig h1.prop_bool
      obtain ⟨hp2, hb2, ha2, hsb2, hsa2⟩ := impl_inv _ b2 a2 _ hd2 h2.prop_sig h2.prop_bool
      have := Term.mkEq_checked a1 b1 e _ ha1 he
      subst this
      apply good_two_in th1 th2 _ h1 h2 hwt
      intro M ρ hρ H1 H2
      rw [hp1, holds_mkImplies M ρ hρ a1 b1 ha1 hb1] at H1
      rw [hp2, holds_mkImplies M ρ hρ b2 a2 hb2 ha2] at H2
      rw [holds_eqAt M ρ hρ _ a1 b1 ha1 hb1]
      have l1 := sem_bool_lt M ρ hρ a1 ha1
      have l2 := sem_bool_lt M ρ hρ b1 hb1
      have e1 := sem_aeq M ρ a1 a2 haeq.1 [] []
      have e2 := sem_aeq M ρ b1 b2 haeq.2 [] []
      unfold holds at H1 H2
      rw [← e1, ← e2] at H2
      omega
    · cases h
  · cases h


theorem equalElim_sound_in (th1 th2 th : Thm) (h1 : GoodIn C th1) (h2 : GoodIn C th2)
    (h : Thm.equalElim th1 th2 = .ok th) (hwt : Thm.checkThmTypeSig th = true) : GoodIn C th := by
  unfold Thm.equalElim at h
  split at h
  · rename_i a b hd
    split at h
    · rename_i haeq
      cases h
      obtain ⟨T, hp, ha', hb', hsa, hsb⟩ := eq_inv _ a b _ hd h1.prop_sig h1.prop_bool
      apply good_two_in th1 th2 b h1 h2 hwt
      intro M ρ hρ H1 H2
      rw [hp, holds_eqAt M ρ hρ T a b ha' hb'] at H1
      have H3 := (holds_aeq M ρ a th2.prop haeq).2 H2
      unfold holds at H3 ⊢
      rw [← H1]; exact H3
    · cases h
  · cases h


theorem combination_sound_in (th1 th2 th : Thm) (h1 : GoodIn C th1) (h2 : GoodIn C th2)
    (h : Thm.combination th1 th2 = .ok th) (hwt : Thm.checkThmTypeSig th = true) : GoodIn C th := by
  unfold Thm.combination at h
  split at h
  · rename_i f g x y hd1 hd2
    obtain ⟨tf, htf, h⟩ := Thm.liftT_bind_ok _ _ _ h
    split at h
    · split at h
      · cases h
      · rename_i d hd
        obtain ⟨tx, htx, h⟩ := Thm.liftT_bind_ok _ _ _ h
        split at h
        · obtain ⟨e, he, h⟩ := Thm.liftT_bind_ok _ _ _ h
          cases h
          obtain ⟨T1, hp1, hf, hg, hsf, hsg⟩ := eq_inv _ f g _ hd1 h1.prop_sig h1.prop_bool
          obtain ⟨T2, hp2, hx, hy, hsx, hsy⟩ := eq_inv _ x y _ hd2 h2.prop_sig h2.prop_bool
          obtain ⟨T, hT, rfl⟩ := Term.mkEq_inv _ _ _ he
          have hw := Thm.checkThmType_typed _ hwt
          rw [Thm.mk'_two] at hw
          obtain ⟨hfx, hgy, -⟩ := Term.checked_eqAt_inv [] T _ _ _ hw.2
          apply good_two_in th1 th2 _ h1 h2 hwt
          intro M ρ hρ H1 H2
          rw [hp1, holds_eqAt M ρ hρ T1 f g hf hg] at H1
          rw [hp2, holds_eqAt M ρ hρ T2 x y hx hy] at H2
          rw [holds_eqAt M ρ hρ T _ _ hfx hgy]
          simp only [sem]
          rw [Term.getType_of_checked [] f T1 hf, Term.getType_of_checked [] g T1 hg, H1, H2]
        · cases h
    · cases h
  · cases h


theorem betaConv_sound_in (t : Term) (th : Thm)
    (h : Thm.betaConv t = .ok th) (hwt : Thm.checkThmTypeSig th = true) : GoodIn C th := by
  unfold Thm.betaConv at h
  obtain ⟨t', ht', h⟩ := Thm.catchTerm_bind_ok _ _ _ h
  obtain ⟨e, he, h⟩ := Thm.liftT_bind_ok _ _ _ h
  cases h
  unfold Term.betaConv at ht'
  split at ht'
  · rename_i x T b a _
    simp only [Term.substBound] at ht'
    cases ht'
    obtain ⟨S, hS, rfl⟩ := Term.mkEq_inv _ _ _ he
    have hw := Thm.checkThmType_typed _ hwt
    obtain ⟨hl, hr, -⟩ := Term.checked_eqAt_inv [] S _ _ _ hw.2
    refine ⟨hwt, ?_⟩
    · intro M ρ hρ hc hh
      exact (holds_eqAt M ρ hρ S _ _ hl hr).2 (sem_beta M ρ hρ [] [] (EnvOK.nil_snd M) x T S b a hl).symm
  · cases ht'


theorem forallElim_sound_in (s : Term) (th1 th : Thm) (h1 : GoodIn C th1)
    (h : Thm.forallElim s th1 = .ok th) (hwt : Thm.checkThmTypeSig th = true) : GoodIn C th := by
  unfold Thm.forallElim at h
  split at h
  · rename_i x T b hd
    obtain ⟨ts, hts, h⟩ := Thm.liftT_bind_ok _ _ _ h
    split at h
    · cases h
    · rename_i hne
      obtain ⟨r, hr, h⟩ := Thm.liftT_bind_ok _ _ _ h
      cases h
      simp only [Term.substBound] at hr
      cases hr
      have hT : T = ts := by simpa using hne
      subst hT
      obtain ⟨T', hp, habs, hsabs⟩ := all_inv _ _ _ hd h1.prop_sig h1.prop_bool
      obtain ⟨tb, hb, hfn⟩ := Term.checked_abs_inv_snd _ _ _ _ _ habs
      obtain ⟨rfl, rfl⟩ := Ty.fn_inj hfn
      have hw := Thm.checkThmType_typed _ hwt
      simp only [sigOK] at hsabs
      apply good_one_in th1 _ h1 hwt
      intro M ρ hρ H
      rw [hp] at H
      unfold Term.allAt at H
      rw [holds_all_abs M ρ hρ _ x T' b hb (logicalKind_all_snd T')] at H
      unfold holds
      by_cases hc : ∃ T0, Term.checkedGetType [] s = .ok T0
      · obtain ⟨T0, hT0⟩ := hc
        have e := Term.getType_of_checked [] s T0 hT0
        rw [hts] at e
        cases e
        have := sem_substBoundAt M ρ [] [] [] [] rfl T' s b hts
        simp only [List.nil_append, List.length_nil] at this
        rw [this]
        exact H _ (sem_lt M ρ hρ [] [] (EnvOK.nil_snd M) s T' hT0)
      · have hc' : ∀ T0, Term.checkedGetType [] s ≠ .ok T0 := fun T0 h0 => hc ⟨T0, h0⟩
        have e := Term.substBoundAt_irrel [] s (.var "x" T') hc' b [] Ty.bool hw.2
        simp only [List.length_nil] at e
        rw [e]
        have := sem_substBoundAt M ρ [] [] [] [] rfl T' (.var "x" T') b rfl
        simp only [List.nil_append, List.length_nil] at this
        rw [this]
        exact H _ (hρ 1 "x" T')
  · cases h
  · cases h


/-- a `varKey` has kind 0 or 1 -/
theorem varKey_lt_two {x : Term} {k : Nat} {n : String} {T : Ty} (hx : varKey x = some (k, n, T)) :
    k < 2 := by
  rcases varKey_cases hx with ⟨-, rfl⟩ | ⟨-, rfl⟩ <;> decide

theorem forallIntr_sound_in (hcl : ClosedClass C) (x : Term) (th1 th : Thm) (h1 : GoodIn C th1)
    (h : Thm.forallIntr x th1 = .ok th) (hwt : Thm.checkThmTypeSig th = true) : GoodIn C th := by
  unfold Thm.forallIntr at h
  split at h
  · cases h
  · rename_i hocc
    split at h
    · cases h
    · obtain ⟨q, hq, h⟩ := Thm.liftT_bind_ok _ _ _ h
      cases h
      obtain ⟨hvl, l, hl, rfl⟩ := Term.mkForall_inv_snd _ _ _ hq
      obtain ⟨k, n, hk⟩ := varKey_of_isVarLike x hvl
      refine ⟨hwt, ?_⟩
      · intro M ρ hρ hc hh
        show holds M ρ (Term.allAt (Term.typeOfAtom x) l)
        rw [holds_mkForall M ρ hρ x k n _ hk th1.prop _ h1.prop_bool hq]
        intro v hv
        exact h1.valid M _ (hρ.update k n _ v hv)
          (hcl.update M ρ k n _ v (varKey_lt_two hk) hc) (hyps_update M ρ x k n _ hk _ hocc v hh)


theorem abstraction_sound_in (hcl : ClosedClass C) (x : Term) (th1 th : Thm) (h1 : GoodIn C th1)
    (h : Thm.abstraction x th1 = .ok th) (hwt : Thm.checkThmTypeSig th = true) : GoodIn C th := by
  unfold Thm.abstraction at h
  split at h
  · cases h
  · rename_i hocc
    split at h
    · rename_i t1 t2 hd
      obtain ⟨l1, hl1, h⟩ := Thm.catchTerm_bind_ok _ _ _ h
      obtain ⟨l2, hl2, h⟩ := Thm.catchTerm_bind_ok _ _ _ h
      obtain ⟨e, he, h⟩ := Thm.liftT_bind_ok _ _ _ h
      cases h
      obtain ⟨S, hp, ht1, ht2, hs1, hs2⟩ := eq_inv _ t1 t2 _ hd h1.prop_sig h1.prop_bool
      have hvl := (Term.mkLambda_inv_snd _ _ _ hl1).1
      obtain ⟨k, n, hk⟩ := varKey_of_isVarLike x hvl
      have c1 := checked_mkLambda x k n _ hk t1 l1 S ht1 hl1
      have c2 := checked_mkLambda x k n _ hk t2 l2 S ht2 hl2
      have := Term.mkEq_checked l1 l2 e _ c1 he
      subst this
      refine ⟨hwt, ?_⟩
      · intro M ρ hρ hc hh
        show holds M ρ (Term.eqAt _ l1 l2)
        rw [holds_eqAt M ρ hρ _ l1 l2 c1 c2]
        have b1 := sem_lt M ρ hρ [] [] (EnvOK.nil_snd M) l1 _ c1
        have b2 := sem_lt M ρ hρ [] [] (EnvOK.nil_snd M) l2 _ c2
        rw [Model.size_fn] at b1 b2
        apply code_ext _ _ _ _ b1 b2
        intro v hv
        rw [appCode_sem_mkLambda M ρ hρ x k n _ hk t1 l1 S ht1 hl1 v hv,
          appCode_sem_mkLambda M ρ hρ x k n _ hk t2 l2 S ht2 hl2 v hv]
        have hv' := h1.valid M _ (hρ.update k n _ v hv)
          (hcl.update M ρ k n _ v (varKey_lt_two hk) hc) (hyps_update M ρ x k n _ hk _ hocc v hh)
        rw [hp, holds_eqAt M _ (hρ.update k n _ v hv) S t1 t2 ht1 ht2] at hv'
        exact hv'
    · cases h


theorem substType_sound_in (hcl : ClosedClass C) (σ : Ty.TyInst) (th : Thm) (hth : GoodIn C th)
    (hwt : Thm.checkThmTypeSig (Thm.substType σ th) = true) : GoodIn C (Thm.substType σ th) := by
  have hw := Thm.checkThmType_typed th hth.wt
  refine ⟨hwt, ?_⟩
  · intro M ρ hρ hc hh
    unfold Thm.substType at hh ⊢
    rw [Thm.mk'_one] at hh ⊢
    show holds M ρ (Term.substType σ th.prop)
    rw [holds_substType M ρ σ _ _ hw.2]
    apply hth.valid (M.pull σ) _ (hρ.pull σ) (hcl.pull M ρ σ hρ hc)
    intro h hm
    rw [← holds_substType M ρ σ h _ (hw.1 h hm)]
    exact hh _ (List.mem_map_of_mem hm)


theorem substitution_sound_in (hcl : ClosedClass C) (inst : Term.Inst) (th1 th : Thm) (h1 : GoodIn C th1)
    (h : Thm.substitution inst th1 = .ok th) (hwt : Thm.checkThmTypeSig th = true) : GoodIn C th := by
  obtain ⟨σ, hs, p, rfl, hF, hp, hty⟩ := Thm.substitution_spec inst th1 th h
  rw [Thm.mk'_one] at hwt ⊢
  have hw1 := Thm.checkThmType_typed th1 h1.wt
  have key : ∀ t0 t1, t0 ∈ th1.hyps ++ [th1.prop] → Term.checkedGetType [] t0 = .ok Ty.bool →
      Term.substRec { inst with tyinst := σ } (Term.substType σ t0) = .ok t1 → ∀ M ρ,
      (holds M ρ t1 ↔
        holds (M.pull σ) ((instVal M ρ { inst with tyinst := σ }).pull M σ) t0) := by
    intro t0 t1 hm ht0 hr M ρ
    have hty' : ∀ n T, (n, T) ∈ Term.getSvars (Term.substType σ t0) → ∀ s,
        ({ inst with tyinst := σ } : Term.Inst).svars.lookup n = some s →
        Term.checkedGetType [] s = .ok T := by
      intro n T hmem s hs
      obtain ⟨T0, hm0, rfl⟩ := Term.mem_getSvars_substType σ t0 n T hmem
      exact hty t0 hm n T0 hm0 s hs
    have e1 := (sem_substRec M ρ _ _ t1 hr hty' [] []).2
    rw [← holds_substType M _ σ t0 _ ht0]
    unfold holds
    rw [e1]
  refine ⟨hwt, ?_⟩
  · intro M ρ hρ hc hh
    show holds M ρ p
    rw [key th1.prop p (List.mem_append_right _ (List.mem_singleton.2 rfl)) hw1.2 hp M ρ]
    apply h1.valid (M.pull σ) _ ((hρ.instVal _).pull σ)
      (hcl.pull M _ σ (hρ.instVal _) (hcl.instVal M ρ _ hc))
    intro h0 hm0
    obtain ⟨h', hm', hr⟩ := hF.exists_right h0 hm0
    rw [← key h0 h' (List.mem_append_left _ hm0) (hw1.1 h0 hm0) hr M ρ]
    exact hh h' hm'


/-! ### one checker step, and scripts -/

/-- the result of a primitive rule that passes `check_thm_type` is good for the class when the
premises are -/
theorem applyRule_sound_in (hcl : ClosedClass C) (rule : String) (arg : Arg) (prems : List Thm)
    (th : Thm) (hp : ∀ p ∈ prems, GoodIn C p) (hr : applyRule rule arg prems = .ok th)
    (hwt : Thm.checkThmTypeSig th = true) : GoodIn C th := by
  unfold applyRule at hr
  split at hr
  all_goals first
    | (cases hr; first
        | exact assume_sound_in _ hwt
        | exact impliesIntr_sound_in _ _ (hp _ (by simp)) hwt
        | exact substType_sound_in hcl _ _ (hp _ (by simp)) hwt)
    | exact impliesElim_sound_in _ _ _ (hp _ (by simp)) (hp _ (by simp)) hr hwt
    | exact reflexive_sound_in _ _ hr hwt
    | exact symmetric_sound_in _ _ (hp _ (by simp)) hr hwt
    | exact transitive_sound_in _ _ _ (hp _ (by simp)) (hp _ (by simp)) hr hwt
    | exact combination_sound_in _ _ _ (hp _ (by simp)) (hp _ (by simp)) hr hwt
    | exact equalIntr_sound_in _ _ _ (hp _ (by simp)) (hp _ (by simp)) hr hwt
    | exact equalElim_sound_in _ _ _ (hp _ (by simp)) (hp _ (by simp)) hr hwt
    | exact substitution_sound_in hcl _ _ _ (hp _ (by simp)) hr hwt
    | exact betaConv_sound_in _ _ hr hwt
    | exact abstraction_sound_in hcl _ _ _ (hp _ (by simp)) hr hwt
    | exact forallIntr_sound_in hcl _ _ _ (hp _ (by simp)) hr hwt
    | exact forallElim_sound_in _ _ _ (hp _ (by simp)) hr hwt
    | (split at hr <;> cases hr)

/-- One step of the checker on a primitive rule, relative to a closed class: premises good for
the class give an accepted result that is good for the class — whatever the argument is. -/
theorem prim_sound_in (hcl : ClosedClass C) (rule : String) (arg : Arg) (prems : List Thm) (th : Thm)
    (hp : ∀ p ∈ prems, GoodIn C p)
    (h : checkStep rule arg prems = .ok th) : GoodIn C th := by
  unfold checkStep at h
  cases hr : applyRule rule arg prems with
  | error e => rw [hr] at h; cases h
  | ok th0 =>
    rw [hr] at h
    simp only [bind, Except.bind] at h
    by_cases hwt : Thm.checkThmTypeSig th0 = true
    · rw [if_pos hwt] at h
      cases h
      exact applyRule_sound_in hcl rule arg prems th hp hr hwt
    · rw [if_neg hwt] at h
      cases h

/-- the sequents a step cites are among the accepted ones -/
theorem lookupPrems_mem_acc (acc : List Thm) (l : List Nat) (ps : List Thm)
    (h : lookupPrems acc l = .ok ps) : ∀ p ∈ ps, p ∈ acc := by
  induction l generalizing ps with
  | nil => simp only [lookupPrems] at h; cases h; intro p hp; cases hp
  | cons i l ih =>
    simp only [lookupPrems] at h
    cases hi : acc[i]? with
    | none => rw [hi] at h; cases h
    | some thi =>
      rw [hi] at h
      simp only at h
      cases hl : lookupPrems acc l with
      | error e => rw [hl] at h; cases h
      | ok ps' =>
        rw [hl] at h
        cases h
        intro p hp
        cases hp with
        | head => exact List.mem_of_getElem? hi
        | tail _ hp1 => exact ih ps' hl p hp1

theorem runScript_sound_in (hcl : ClosedClass C) (steps : List Step) (acc res : List Thm)
    (hacc : ∀ th ∈ acc, GoodIn C th)
    (h : runScript steps acc = .ok res) : ∀ th ∈ res, GoodIn C th := by
  induction steps generalizing acc with
  | nil =>
    simp only [runScript] at h
    cases h
    exact hacc
  | cons s rest ih =>
    simp only [runScript] at h
    cases hm : lookupPrems acc s.prevs with
    | error e => rw [hm] at h; cases h
    | ok prems =>
      rw [hm] at h
      simp only at h
      cases hc : checkStep s.rule s.arg prems with
      | error e => rw [hc] at h; cases h
      | ok th =>
        rw [hc] at h
        simp only at h
        have hprems : ∀ p ∈ prems, GoodIn C p :=
          fun p hpm => hacc p (lookupPrems_mem_acc acc s.prevs prems hm p hpm)
        have hgood : GoodIn C th :=
          prim_sound_in hcl s.rule s.arg prems th hprems hc
        apply ih (acc ++ [th]) _ h
        intro th' hth'
        rcases List.mem_append.1 hth' with h1 | h1
        · exact hacc th' h1
        · simp at h1; subst h1; exact hgood

/-- every sequent of an accepted script from primitive rules is good for every closed class -/
theorem check_proof_sound_in (hcl : ClosedClass C) (steps : List Step) (res : List Thm)
    (h : runScript steps [] = .ok res) : ∀ th ∈ res, GoodIn C th :=
  runScript_sound_in hcl steps [] res (fun _ h => by cases h) h

/-! ### sanity: the unrestricted class gives back `Good` -/

theorem closedClass_top : ClosedClass (fun _ _ => True) :=
  ⟨fun _ _ _ _ _ _ _ _ => trivial, fun _ _ _ _ _ => trivial, fun _ _ _ _ => trivial⟩

theorem goodIn_top_iff (th : Thm) : GoodIn (fun _ _ => True) th ↔ Good th :=
  ⟨fun h => ⟨h.wt, fun M ρ hρ hh => h.valid M ρ hρ trivial hh⟩,
   fun h => ⟨h.wt, fun M ρ hρ _ hh => h.valid M ρ hρ hh⟩⟩

/-- `prim_sound` (C01/Props.lean) is the instance `C = everything` of `prim_sound_in` -/
theorem prim_sound_of_in (rule : String) (arg : Arg) (prems : List Thm) (th : Thm)
    (hp : ∀ p ∈ prems, Good p)
    (h : checkStep rule arg prems = .ok th) : Good th :=
  (goodIn_top_iff th).1 (prim_sound_in closedClass_top rule arg prems th
    (fun p hm => (goodIn_top_iff p).2 (hp p hm)) h)

/-! ### the 15 rules for `Good` (= `GoodIn` of the unrestricted class) -/

private theorem toTop {th : Thm} (h : Good th) : GoodIn (fun _ _ => True) th := (goodIn_top_iff th).2 h
private theorem ofTop {th : Thm} (h : GoodIn (fun _ _ => True) th) : Good th := (goodIn_top_iff th).1 h

theorem assume_sound (a : Term) (hwt : Thm.checkThmTypeSig (Thm.assume a) = true) :
    Good (Thm.assume a) := ofTop (assume_sound_in a hwt)

theorem impliesIntr_sound (a : Term) (th : Thm) (hth : Good th)
    (hwt : Thm.checkThmTypeSig (Thm.impliesIntr a th) = true) : Good (Thm.impliesIntr a th) :=
  ofTop (impliesIntr_sound_in a th (toTop hth) hwt)

theorem impliesElim_sound (th1 th2 th : Thm) (h1 : Good th1) (h2 : Good th2)
    (h : Thm.impliesElim th1 th2 = .ok th) (hwt : Thm.checkThmTypeSig th = true) : Good th :=
  ofTop (impliesElim_sound_in th1 th2 th (toTop h1) (toTop h2) h hwt)

theorem reflexive_sound (x : Term) (th : Thm)
    (h : Thm.reflexive x = .ok th) (hwt : Thm.checkThmTypeSig th = true) : Good th :=
  ofTop (reflexive_sound_in x th h hwt)

theorem symmetric_sound (th1 th : Thm) (h1 : Good th1)
    (h : Thm.symmetric th1 = .ok th) (hwt : Thm.checkThmTypeSig th = true) : Good th :=
  ofTop (symmetric_sound_in th1 th (toTop h1) h hwt)

theorem transitive_sound (th1 th2 th : Thm) (h1 : Good th1) (h2 : Good th2)
    (h : Thm.transitive th1 th2 = .ok th) (hwt : Thm.checkThmTypeSig th = true) : Good th :=
  ofTop (transitive_sound_in th1 th2 th (toTop h1) (toTop h2) h hwt)

theorem equalIntr_sound (th1 th2 th : Thm) (h1 : Good th1) (h2 : Good th2)
    (h : Thm.equalIntr th1 th2 = .ok th) (hwt : Thm.checkThmTypeSig th = true) : Good th :=
  ofTop (equalIntr_sound_in th1 th2 th (toTop h1) (toTop h2) h hwt)

theorem equalElim_sound (th1 th2 th : Thm) (h1 : Good th1) (h2 : Good th2)
    (h : Thm.equalElim th1 th2 = .ok th) (hwt : Thm.checkThmTypeSig th = true) : Good th :=
  ofTop (equalElim_sound_in th1 th2 th (toTop h1) (toTop h2) h hwt)

theorem combination_sound (th1 th2 th : Thm) (h1 : Good th1) (h2 : Good th2)
    (h : Thm.combination th1 th2 = .ok th) (hwt : Thm.checkThmTypeSig th = true) : Good th :=
  ofTop (combination_sound_in th1 th2 th (toTop h1) (toTop h2) h hwt)

theorem betaConv_sound (t : Term) (th : Thm)
    (h : Thm.betaConv t = .ok th) (hwt : Thm.checkThmTypeSig th = true) : Good th :=
  ofTop (betaConv_sound_in t th h hwt)

theorem forallElim_sound (s : Term) (th1 th : Thm) (h1 : Good th1)
    (h : Thm.forallElim s th1 = .ok th) (hwt : Thm.checkThmTypeSig th = true) : Good th :=
  ofTop (forallElim_sound_in s th1 th (toTop h1) h hwt)

theorem forallIntr_sound (x : Term) (th1 th : Thm) (h1 : Good th1)
    (h : Thm.forallIntr x th1 = .ok th) (hwt : Thm.checkThmTypeSig th = true) : Good th :=
  ofTop (forallIntr_sound_in closedClass_top x th1 th (toTop h1) h hwt)

theorem abstraction_sound (x : Term) (th1 th : Thm) (h1 : Good th1)
    (h : Thm.abstraction x th1 = .ok th) (hwt : Thm.checkThmTypeSig th = true) : Good th :=
  ofTop (abstraction_sound_in closedClass_top x th1 th (toTop h1) h hwt)

theorem substType_sound (σ : Ty.TyInst) (th : Thm) (hth : Good th)
    (hwt : Thm.checkThmTypeSig (Thm.substType σ th) = true) : Good (Thm.substType σ th) :=
  ofTop (substType_sound_in closedClass_top σ th (toTop hth) hwt)

theorem substitution_sound (inst : Term.Inst) (th1 th : Thm) (h1 : Good th1)
    (h : Thm.substitution inst th1 = .ok th) (hwt : Thm.checkThmTypeSig th = true) : Good th :=
  ofTop (substitution_sound_in closedClass_top inst th1 th (toTop h1) h hwt)

/-- a smaller class has more good sequents -/
theorem GoodIn.mono {C D : Model → Valuation → Prop} (hCD : ∀ M ρ, D M ρ → C M ρ) {th : Thm}
    (h : GoodIn C th) : GoodIn D th :=
  ⟨h.wt, fun M ρ hρ hd hh => h.valid M ρ hρ (hCD M ρ hd) hh⟩

/-! ### the rest of the checker: `theorem`, `variable`, stated sequents -/

theorem Thm.memAeq_iff (t : Term) (l : List Term) :
    Thm.memAeq t l = true ↔ ∃ h ∈ l, Term.aeq t h = true := by
  unfold Thm.memAeq
  rw [List.any_eq_true]

theorem Thm.canProve_iff (r st : Thm) : Thm.canProve r st = true ↔
    Term.aeq r.prop st.prop = true ∧ ∀ h ∈ r.hyps, ∃ h' ∈ st.hyps, Term.aeq h h' = true := by
  unfold Thm.canProve
  rw [Bool.and_eq_true, List.all_eq_true]
  constructor
  · rintro ⟨h1, h2⟩
    exact ⟨h1, fun h hm => (Thm.memAeq_iff h _).1 (h2 h hm)⟩
  · rintro ⟨h1, h2⟩
    exact ⟨h1, fun h hm => (Thm.memAeq_iff h _).2 (h2 h hm)⟩

/-- a sequent that `can_prove` a sequent passing `check_thm_type` passes it too (its terms are
alpha-equivalent to terms of the other) -/
theorem canProve_wt (r st : Thm) (hc : Thm.canProve r st = true)
    (hst : Thm.checkThmTypeSig st = true) : Thm.checkThmTypeSig r = true := by
  obtain ⟨hp, hh⟩ := (Thm.canProve_iff r st).1 hc
  obtain ⟨⟨t1, t2⟩, s0⟩ := (Thm.checkThmTypeSig_iff st).1 hst
  obtain ⟨s1, s2⟩ := (Thm.sigOK_iff st).1 s0
  rw [Thm.checkThmTypeSig_iff, Thm.sigOK_iff]
  refine ⟨⟨fun h hm => ?_, ?_⟩, fun h hm => ?_, ?_⟩
  · obtain ⟨h', hm', ha⟩ := hh h hm
    rw [Term.checkedGetType_aeq h h' ha]; exact t1 h' hm'
  · rw [Term.checkedGetType_aeq _ _ hp]; exact t2
  · obtain ⟨h', hm', ha⟩ := hh h hm
    rw [sigOK_aeq h h' ha]; exact s1 h' hm'
  · rw [sigOK_aeq _ _ hp]; exact s2

/-- weakening: what is kept for a step with a stated sequent is good when the computed one is -/
theorem canProve_good (r st : Thm) (hc : Thm.canProve r st = true)
    (hst : Thm.checkThmTypeSig st = true) (hr : GoodIn C r) : GoodIn C st := by
  obtain ⟨hp, hh⟩ := (Thm.canProve_iff r st).1 hc
  refine ⟨hst, fun M ρ hρ hc' hyp => ?_⟩
  apply (holds_aeq M ρ _ _ hp).1
  apply hr.valid M ρ hρ hc'
  intro h hm
  obtain ⟨h', hm', ha⟩ := hh h hm
  exact (holds_aeq M ρ h h' ha).2 (hyp h' hm')

/-- the sequent a step computes is good for the class as soon as it passes `check_thm_type`, if
every stored theorem is good for the class and `⊢ _VAR x` is valid for the class -/
theorem applyRuleAx_sound_in (hcl : ClosedClass C) (axs : List (String × Thm))
    (hax : ∀ p ∈ axs, GoodIn C p.2) (hvar : ∀ n T M, ValidIn C M (Thm.mkVAR n T))
    (rule : String) (arg : ArgAx) (prems : List Thm) (th : Thm)
    (hp : ∀ p ∈ prems, GoodIn C p)
    (h : applyRuleAx axs rule arg prems = .ok th) (hwt : Thm.checkThmTypeSig th = true) :
    GoodIn C th := by
  unfold applyRuleAx at h
  split at h
  · split at h
    · rename_i s
      split at h
      · rename_i th0 hl
        cases h
        exact hax (s, th) (mem_of_lookup_eq_some axs s th hl)
      · cases h
    · cases h
  · split at h
    · split at h
      · rename_i n T
        cases h
        exact ⟨hwt, hvar n T⟩
      · cases h
    · split at h
      · rename_i a
        exact applyRule_sound_in hcl rule a prems th hp h hwt
      · cases h

/-- One checker step (any rule of the model, with or without a stated sequent): premises good ⇒
what the checker keeps is good. -/
theorem checkStepSt_sound_in (hcl : ClosedClass C) (axs : List (String × Thm))
    (hax : ∀ p ∈ axs, GoodIn C p.2) (hvar : ∀ n T M, ValidIn C M (Thm.mkVAR n T))
    (rule : String) (arg : ArgAx) (prems : List Thm) (stated : Option Thm) (th : Thm)
    (hp : ∀ p ∈ prems, GoodIn C p)
    (h : checkStepSt axs rule arg prems stated = .ok th) : GoodIn C th := by
  unfold checkStepSt at h
  cases hr : applyRuleAx axs rule arg prems with
  | error e => rw [hr] at h; cases h
  | ok res =>
    rw [hr] at h
    simp only [finishStep] at h
    cases stated with
    | none =>
      simp only at h
      split at h
      · rename_i hwt
        cases h
        exact applyRuleAx_sound_in hcl axs hax hvar rule arg prems th hp hr hwt
      · cases h
    | some st =>
      simp only at h
      split at h
      · rename_i hc
        split at h
        · rename_i hst
          cases h
          exact canProve_good res th hc hst
            (applyRuleAx_sound_in hcl axs hax hvar rule arg prems res hp hr (canProve_wt res th hc hst))
        · cases h
      · cases h

theorem checkStepAx_sound_in (hcl : ClosedClass C) (axs : List (String × Thm))
    (hax : ∀ p ∈ axs, GoodIn C p.2) (hvar : ∀ n T M, ValidIn C M (Thm.mkVAR n T))
    (rule : String) (arg : ArgAx) (prems : List Thm) (th : Thm)
    (hp : ∀ p ∈ prems, GoodIn C p)
    (h : checkStepAx axs rule arg prems = .ok th) : GoodIn C th :=
  checkStepSt_sound_in hcl axs hax hvar rule arg prems none th hp h

theorem runScriptAx_sound_in (hcl : ClosedClass C) (axs : List (String × Thm))
    (hax : ∀ p ∈ axs, GoodIn C p.2) (hvar : ∀ n T M, ValidIn C M (Thm.mkVAR n T))
    (steps : List StepAx) (acc res : List Thm)
    (hacc : ∀ th ∈ acc, GoodIn C th)
    (h : runScriptAx axs steps acc = .ok res) : ∀ th ∈ res, GoodIn C th := by
  induction steps generalizing acc with
  | nil =>
    simp only [runScriptAx] at h
    cases h
    exact hacc
  | cons s rest ih =>
    have hext : ∀ th, GoodIn C th → ∀ th' ∈ acc ++ [th], GoodIn C th' := by
      intro th hg th' hth'
      rcases List.mem_append.1 hth' with h1 | h1
      · exact hacc th' h1
      · simp at h1; subst h1; exact hg
    simp only [runScriptAx] at h
    split at h
    · cases hc : checkStepSt axs s.rule s.arg [] s.stated with
      | error e => rw [hc] at h; cases h
      | ok th =>
        rw [hc] at h
        simp only at h
        have hg : GoodIn C th :=
          checkStepSt_sound_in hcl axs hax hvar s.rule s.arg [] s.stated th
            (fun _ hm => by cases hm) hc
        exact ih (acc ++ [th]) (hext th hg) h
    · cases hm : lookupPrems acc s.prevs with
      | error e => rw [hm] at h; cases h
      | ok prems =>
        rw [hm] at h
        simp only at h
        cases hc : checkStepSt axs s.rule s.arg prems s.stated with
        | error e => rw [hc] at h; cases h
        | ok th =>
          rw [hc] at h
          simp only at h
          have hprems : ∀ p ∈ prems, GoodIn C p :=
            fun p hpm => hacc p (lookupPrems_mem_acc acc s.prevs prems hm p hpm)
          have hg : GoodIn C th :=
            checkStepSt_sound_in hcl axs hax hvar s.rule s.arg prems s.stated th hprems hc
          exact ih (acc ++ [th]) (hext th hg) h

end Holpy
