import Holpy.Kernel.SemType
/-
Term instantiation (`Term.subst`, `Thm.substitution`): type matching of the instantiated
schematic variables, the recursive replacement, and the denotation of the result.
-/
namespace Holpy

/-- `τ` extends `σ` (as dictionaries) -/
def TyInstLe (σ τ : Ty.TyInst) : Prop := ∀ n v, σ.lookup n = some v → τ.lookup n = some v

theorem TyInstLe.refl (σ : Ty.TyInst) : TyInstLe σ σ := by
  sorry

theorem TyInstLe.trans {σ τ υ : Ty.TyInst} (h1 : TyInstLe σ τ) (h2 : TyInstLe τ υ) : TyInstLe σ υ := by
  sorry

/-! ### `match_incr` -/

theorem Ty.matchIncr_le (P T : Ty) (σ σ' : Ty.TyInst) (h : Ty.matchIncr P T σ = some σ') :
    TyInstLe σ σ' := by
  sorry

/-- a successful match really instantiates the pattern to the target, under every extension -/
theorem Ty.matchIncr_subst (P T : Ty) (σ σ' : Ty.TyInst) (h : Ty.matchIncr P T σ = some σ')
    (τ : Ty.TyInst) (hτ : TyInstLe σ' τ) : P.subst τ = T := by
  sorry

/-- matching again under an extension of the result changes nothing -/
theorem Ty.matchIncr_idem (P T : Ty) (σ σ' : Ty.TyInst) (h : Ty.matchIncr P T σ = some σ')
    (τ : Ty.TyInst) (hτ : TyInstLe σ' τ) : Ty.matchIncr P T τ = some τ := by
  sorry

/-! ### the first loop of `Term.subst` -/

theorem Term.matchSvars_le (inst : List (String × Term)) (l : List (String × Ty)) (σ σ' : Ty.TyInst)
    (h : Term.matchSvars inst l σ = .ok σ') : TyInstLe σ σ' := by
  sorry

/-- after the loop every instantiated schematic variable of the list has, under every extension of
the resulting type instantiation, exactly the (checked) type of its instance -/
theorem Term.matchSvars_typed (inst : List (String × Term)) (l : List (String × Ty)) (σ σ' : Ty.TyInst)
    (h : Term.matchSvars inst l σ = .ok σ') (τ : Ty.TyInst) (hτ : TyInstLe σ' τ)
    (n : String) (T : Ty) (hm : (n, T) ∈ l) (s : Term) (hs : inst.lookup n = some s) :
    Term.checkedGetType [] s = .ok (T.subst τ) := by
  sorry

theorem Term.matchSvars_idem (inst : List (String × Term)) (l : List (String × Ty)) (σ σ' : Ty.TyInst)
    (h : Term.matchSvars inst l σ = .ok σ') (τ : Ty.TyInst) (hτ : TyInstLe σ' τ) :
    Term.matchSvars inst l τ = .ok τ := by
  sorry

/-- every schematic variable occurring in `t` is listed by `get_svars` -/
theorem Term.mem_getSvars_substType (σ : Ty.TyInst) (t : Term) (n : String) (T : Ty)
    (h : (n, T) ∈ Term.getSvars (Term.substType σ t)) :
    ∃ T0, (n, T0) ∈ Term.getSvars t ∧ T = T0.subst σ := by
  sorry

/-! ### the replacement -/

/-- the valuation under which the uninstantiated term denotes what the instantiated one denotes
under `ρ`: instantiated (schematic) variables are read off their instances — only at the type of
the instance, so that the valuation stays admissible -/
def typedAs (s : Term) (T : Ty) : Bool :=
  match Term.checkedGetType [] s with
  | .ok T' => T' == T
  | .error _ => false

theorem typedAs_iff (s : Term) (T : Ty) : typedAs s T = true ↔ Term.checkedGetType [] s = .ok T := by
  sorry

def instVal (M : Model) (ρ : Valuation) (inst : Term.Inst) : Valuation :=
  fun k n T =>
    if k = 0 then
      match inst.svars.lookup n with
      | some s => if typedAs s T then sem M ρ [] [] s else ρ k n T
      | none => ρ k n T
    else if k = 1 then
      match inst.vars.lookup n with
      | some s => if typedAs s T then sem M ρ [] [] s else ρ k n T
      | none => ρ k n T
    else ρ k n T

theorem Admissible.instVal {M : Model} {ρ : Valuation} (hρ : Admissible M ρ) (inst : Term.Inst) :
    Admissible M (instVal M ρ inst) := by
  sorry

/-- `rec` of `Term.subst` on a term whose instantiated schematic variables carry the types of
their instances: type and denotation -/
theorem sem_substRec (M : Model) (ρ : Valuation) (inst : Term.Inst) (t r : Term)
    (h : Term.substRec inst t = .ok r)
    (hty : ∀ n T, (n, T) ∈ Term.getSvars t → ∀ s, inst.svars.lookup n = some s →
      Term.checkedGetType [] s = .ok T)
    (bd : List Ty) (env : List Nat) :
    Term.getType bd r = Term.getType bd t ∧
    sem M ρ bd env r = sem M (instVal M ρ inst) bd env t := by
  sorry

theorem sigOK_substRec (inst : Term.Inst) (t r : Term) (h : Term.substRec inst t = .ok r)
    (ht : sigOK t = true) (hs : ∀ p ∈ inst.svars, sigOK p.2 = true)
    (hv : ∀ p ∈ inst.vars, sigOK p.2 = true) : sigOK r = true := by
  sorry

/-! ### `Term.subst` and `Thm.substitution` -/

/-- `Term.subst` under a type instantiation that is already complete for `t` -/
theorem Term.subst_spec (inst : Term.Inst) (t r : Term) (σ' : Ty.TyInst)
    (h : Term.subst inst t = .ok (r, σ')) :
    TyInstLe inst.tyinst σ' ∧
    Term.substRec { inst with tyinst := σ' } (Term.substType σ' t) = .ok r ∧
    (∀ τ, TyInstLe σ' τ → ∀ n T, (n, T) ∈ Term.getSvars t → ∀ s, inst.svars.lookup n = some s →
      Term.checkedGetType [] s = .ok (T.subst τ)) ∧
    (∀ τ, TyInstLe σ' τ → Term.subst { inst with tyinst := τ } t
        = (Term.substRec { inst with tyinst := τ } (Term.substType τ t)).map (fun r' => (r', τ))) := by
  sorry

/-- What `Thm.substitution` computes: one type instantiation `σ` for the whole sequent, every
hypothesis and the conclusion instantiated with it and then rewritten by `substRec`. -/
theorem Thm.substitution_spec (inst : Term.Inst) (th th' : Thm)
    (h : Thm.substitution inst th = .ok th') :
    ∃ σ : Ty.TyInst, ∃ hs : List Term, ∃ p : Term,
      th' = Thm.mk' p [hs] ∧
      Forall2 (fun h0 h1 => Term.substRec { inst with tyinst := σ } (Term.substType σ h0) = .ok h1)
        th.hyps hs ∧
      Term.substRec { inst with tyinst := σ } (Term.substType σ th.prop) = .ok p ∧
      (∀ t, t ∈ th.hyps ++ [th.prop] → ∀ n T, (n, T) ∈ Term.getSvars t → ∀ s,
        inst.svars.lookup n = some s → Term.checkedGetType [] s = .ok (T.subst σ)) := by
  sorry

end Holpy
