import Holpy.Kernel.SemType
/-
Term instantiation (`Term.subst`, `Thm.substitution`): type matching of the instantiated
schematic variables, the recursive replacement, and the denotation of the result.
-/
namespace Holpy

/-- `τ` extends `σ` (as dictionaries) -/
def TyInstLe (σ τ : Ty.TyInst) : Prop := ∀ n v, σ.lookup n = some v → τ.lookup n = some v

theorem TyInstLe.refl (σ : Ty.TyInst) : TyInstLe σ σ := fun _ _ h => h

theorem TyInstLe.trans {σ τ υ : Ty.TyInst} (h1 : TyInstLe σ τ) (h2 : TyInstLe τ υ) : TyInstLe σ υ :=
  fun n v h => h2 n v (h1 n v h)

theorem TyInstLe.append (σ : Ty.TyInst) (l : Ty.TyInst) : TyInstLe σ (σ ++ l) := by
  intro m v hm
  rw [List.lookup_append, hm]; rfl

/-- everything about a successful `match_incr`, in one statement (the three public theorems below
are its projections) -/
def MatchSpec (σ σ' : Ty.TyInst) (P T : Ty) : Prop :=
  TyInstLe σ σ' ∧ ∀ τ, TyInstLe σ' τ → P.subst τ = T ∧ Ty.matchIncr P T τ = some τ

def MatchListSpec (σ σ' : Ty.TyInst) (Ps Ts : List Ty) : Prop :=
  TyInstLe σ σ' ∧ ∀ τ, TyInstLe σ' τ → Ps.map (Ty.subst τ) = Ts ∧ Ty.matchIncrList Ps Ts τ = some τ

mutual
theorem Ty.matchIncr_spec : ∀ (P T : Ty) (σ σ' : Ty.TyInst),
    Ty.matchIncr P T σ = some σ' → MatchSpec σ σ' P T
  | .stvar n, T, σ, σ', h => by
    simp only [Ty.matchIncr] at h
    split at h
    · rename_i T' hl
      split at h
      · cases h
        subst T
        refine ⟨TyInstLe.refl _, fun τ hτ => ?_⟩
        have := hτ n T' hl
        simp [Ty.subst, Ty.matchIncr, this]
      · cases h
    · rename_i hl
      cases h
      refine ⟨TyInstLe.append _ _, fun τ hτ => ?_⟩
      have : τ.lookup n = some T := hτ n T (by simp [List.lookup_append, hl])
      simp [Ty.subst, Ty.matchIncr, this]
  | .tvar n, T, σ, σ', h => by
    simp only [Ty.matchIncr] at h
    split at h
    · cases h
      subst T
      exact ⟨TyInstLe.refl _, fun τ _ => by simp [Ty.subst, Ty.matchIncr]⟩
    · cases h
  | .con n args, .con m args', σ, σ', h => by
    simp only [Ty.matchIncr] at h
    split at h
    · subst m
      obtain ⟨h1, h2⟩ := Ty.matchIncrList_spec args args' σ σ' h
      refine ⟨h1, fun τ hτ => ?_⟩
      obtain ⟨h3, h4⟩ := h2 τ hτ
      simp [Ty.subst, Ty.matchIncr, h3, h4]
    · cases h
  | .con _ _, .stvar _, _, _, h => by simp [Ty.matchIncr] at h
  | .con _ _, .tvar _, _, _, h => by simp [Ty.matchIncr] at h
theorem Ty.matchIncrList_spec : ∀ (Ps Ts : List Ty) (σ σ' : Ty.TyInst),
    Ty.matchIncrList Ps Ts σ = some σ' → MatchListSpec σ σ' Ps Ts
  | [], [], σ, σ', h => by
    simp only [Ty.matchIncrList] at h
    cases h
    exact ⟨TyInstLe.refl _, fun τ _ => by simp [Ty.matchIncrList]⟩
  | a :: as, b :: bs, σ, σ', h => by
    simp only [Ty.matchIncrList] at h
    split at h
    · rename_i σ1 h1
      obtain ⟨h1a, h1b⟩ := Ty.matchIncr_spec a b σ σ1 h1
      obtain ⟨h2a, h2b⟩ := Ty.matchIncrList_spec as bs σ1 σ' h
      refine ⟨h1a.trans h2a, fun τ hτ => ?_⟩
      obtain ⟨h3, h4⟩ := h1b τ (h2a.trans hτ)
      obtain ⟨h5, h6⟩ := h2b τ hτ
      simp [Ty.matchIncrList, h3, h4, h5, h6]
    · cases h
  | [], _ :: _, _, _, h => by simp [Ty.matchIncrList] at h
  | _ :: _, [], _, _, h => by simp [Ty.matchIncrList] at h
end

/-! ### `match_incr` -/

theorem Ty.matchIncr_le (P T : Ty) (σ σ' : Ty.TyInst) (h : Ty.matchIncr P T σ = some σ') :
    TyInstLe σ σ' := (Ty.matchIncr_spec P T σ σ' h).1

/-- a successful match really instantiates the pattern to the target, under every extension -/
theorem Ty.matchIncr_subst (P T : Ty) (σ σ' : Ty.TyInst) (h : Ty.matchIncr P T σ = some σ')
    (τ : Ty.TyInst) (hτ : TyInstLe σ' τ) : P.subst τ = T :=
  ((Ty.matchIncr_spec P T σ σ' h).2 τ hτ).1

/-- matching again under an extension of the result changes nothing -/
theorem Ty.matchIncr_idem (P T : Ty) (σ σ' : Ty.TyInst) (h : Ty.matchIncr P T σ = some σ')
    (τ : Ty.TyInst) (hτ : TyInstLe σ' τ) : Ty.matchIncr P T τ = some τ :=
  ((Ty.matchIncr_spec P T σ σ' h).2 τ hτ).2

/-! ### the first loop of `Term.subst` -/

/-- one step of `matchSvars` on an instantiated variable -/
theorem Term.matchSvars_cons_some (inst : List (String × Term)) (n : String) (T : Ty)
    (rest : List (String × Ty)) (σ σ' : Ty.TyInst) (s : Term) (hs : inst.lookup n = some s)
    (h : Term.matchSvars inst ((n, T) :: rest) σ = .ok σ') :
    ∃ instT σ1, Term.checkedGetType [] s = .ok instT ∧ Ty.matchIncr T instT σ = some σ1 ∧
      Term.matchSvars inst rest σ1 = .ok σ' := by
  simp only [Term.matchSvars, hs, bind, Except.bind] at h
  split at h
  · cases h
  · rename_i instT hT
    split at h
    · rename_i σ1 h1
      exact ⟨instT, σ1, hT, h1, h⟩
    · cases h

theorem Term.matchSvars_le (inst : List (String × Term)) (l : List (String × Ty)) (σ σ' : Ty.TyInst)
    (h : Term.matchSvars inst l σ = .ok σ') : TyInstLe σ σ' := by
  induction l generalizing σ with
  | nil => simp only [Term.matchSvars] at h; cases h; exact TyInstLe.refl _
  | cons p rest ih =>
    obtain ⟨n, T⟩ := p
    cases hs : inst.lookup n with
    | none =>
      simp only [Term.matchSvars, hs] at h
      exact ih σ h
    | some s =>
      obtain ⟨instT, σ1, _, h1, h2⟩ := Term.matchSvars_cons_some inst n T rest σ σ' s hs h
      exact (Ty.matchIncr_le T instT σ σ1 h1).trans (ih σ1 h2)

/-- after the loop every instantiated schematic variable of the list has, under every extension of
the resulting type instantiation, exactly the (checked) type of its instance -/
theorem Term.matchSvars_typed (inst : List (String × Term)) (l : List (String × Ty)) (σ σ' : Ty.TyInst)
    (h : Term.matchSvars inst l σ = .ok σ') (τ : Ty.TyInst) (hτ : TyInstLe σ' τ)
    (n : String) (T : Ty) (hm : (n, T) ∈ l) (s : Term) (hs : inst.lookup n = some s) :
    Term.checkedGetType [] s = .ok (T.subst τ) := by
  induction l generalizing σ with
  | nil => cases hm
  | cons p rest ih =>
    obtain ⟨n', T'⟩ := p
    have tail : ∀ σ1, Term.matchSvars inst rest σ1 = .ok σ' → (n, T) ∈ rest →
        Term.checkedGetType [] s = .ok (T.subst τ) := fun σ1 h1 hm' => ih σ1 h1 hm'
    cases hs' : inst.lookup n' with
    | none =>
      simp only [Term.matchSvars, hs'] at h
      cases hm with
      | head => rw [hs] at hs'; cases hs'
      | tail _ hm' => exact tail σ h hm'
    | some s' =>
      obtain ⟨instT, σ1, h0, h1, h2⟩ := Term.matchSvars_cons_some inst n' T' rest σ σ' s' hs' h
      cases hm with
      | head =>
        rw [hs] at hs'; cases hs'
        rw [h0, Ty.matchIncr_subst T instT σ σ1 h1 τ ((Term.matchSvars_le inst rest σ1 σ' h2).trans hτ)]
      | tail _ hm' => exact tail σ1 h2 hm'

theorem Term.matchSvars_idem (inst : List (String × Term)) (l : List (String × Ty)) (σ σ' : Ty.TyInst)
    (h : Term.matchSvars inst l σ = .ok σ') (τ : Ty.TyInst) (hτ : TyInstLe σ' τ) :
    Term.matchSvars inst l τ = .ok τ := by
  induction l generalizing σ with
  | nil => rfl
  | cons p rest ih =>
    obtain ⟨n, T⟩ := p
    cases hs : inst.lookup n with
    | none =>
      simp only [Term.matchSvars, hs] at h ⊢
      exact ih σ h
    | some s =>
      obtain ⟨instT, σ1, h0, h1, h2⟩ := Term.matchSvars_cons_some inst n T rest σ σ' s hs h
      have := Ty.matchIncr_idem T instT σ σ1 h1 τ ((Term.matchSvars_le inst rest σ1 σ' h2).trans hτ)
      simp only [Term.matchSvars, hs, h0, bind, Except.bind, this]
      exact ih σ1 h2

/-! ### occurrences of schematic variables -/

/-- the schematic variable `n : T` occurs in the term -/
def Term.occSvar (n : String) (T : Ty) : Term → Prop
  | .svar m S => m = n ∧ S = T
  | .comb f a => occSvar n T f ∨ occSvar n T a
  | .abs _ _ b => occSvar n T b
  | _ => False

theorem Term.mem_svarsAcc (t : Term) (acc : List (String × Ty)) (n : String) (T : Ty) :
    (n, T) ∈ Term.svarsAcc t acc ↔ (n, T) ∈ acc ∨ Term.occSvar n T t := by
  induction t generalizing acc with
  | svar m S =>
    simp only [Term.svarsAcc, Term.occSvar]
    split
    · rename_i hc
      have hc' : (m, S) ∈ acc := by simpa using hc
      constructor
      · exact Or.inl
      · rintro (h | ⟨rfl, rfl⟩)
        · exact h
        · exact hc'
    · simp only [List.mem_append, List.mem_singleton, Prod.mk.injEq]
      constructor
      · rintro (h | ⟨rfl, rfl⟩)
        · exact Or.inl h
        · exact Or.inr ⟨rfl, rfl⟩
      · rintro (h | ⟨rfl, rfl⟩)
        · exact Or.inl h
        · exact Or.inr ⟨rfl, rfl⟩
  | var m S => simp [Term.svarsAcc, Term.occSvar]
  | const m S => simp [Term.svarsAcc, Term.occSvar]
  | comb f a ihf iha =>
    simp only [Term.svarsAcc, Term.occSvar, iha, ihf, or_assoc]
  | abs x S b ih => simp only [Term.svarsAcc, Term.occSvar, ih]
  | bound i => simp [Term.svarsAcc, Term.occSvar]

theorem Term.mem_getSvars (t : Term) (n : String) (T : Ty) :
    (n, T) ∈ Term.getSvars t ↔ Term.occSvar n T t := by
  simp [Term.getSvars, Term.mem_svarsAcc]

theorem Term.occSvar_substType (σ : Ty.TyInst) (t : Term) (n : String) (T : Ty)
    (h : Term.occSvar n T (Term.substType σ t)) : ∃ T0, Term.occSvar n T0 t ∧ T = T0.subst σ := by
  induction t with
  | svar m S =>
    obtain ⟨rfl, rfl⟩ := h
    exact ⟨S, ⟨rfl, rfl⟩, rfl⟩
  | var m S => cases h
  | const m S => cases h
  | comb f a ihf iha =>
    rcases h with h | h
    · obtain ⟨T0, h1, h2⟩ := ihf h
      exact ⟨T0, Or.inl h1, h2⟩
    · obtain ⟨T0, h1, h2⟩ := iha h
      exact ⟨T0, Or.inr h1, h2⟩
  | abs x S b ih => exact ih h
  | bound i => cases h

/-- every schematic variable occurring in `t` is listed by `get_svars` -/
theorem Term.mem_getSvars_substType (σ : Ty.TyInst) (t : Term) (n : String) (T : Ty)
    (h : (n, T) ∈ Term.getSvars (Term.substType σ t)) :
    ∃ T0, (n, T0) ∈ Term.getSvars t ∧ T = T0.subst σ := by
  rw [Term.mem_getSvars] at h
  obtain ⟨T0, h1, h2⟩ := Term.occSvar_substType σ t n T h
  exact ⟨T0, (Term.mem_getSvars t n T0).2 h1, h2⟩

/-! ### the replacement -/

/-- the valuation under which the uninstantiated term denotes what the instantiated one denotes
under `ρ`: instantiated (schematic) variables are read off their instances — only at the type of
the instance, so that the valuation stays admissible -/
def typedAs (s : Term) (T : Ty) : Bool :=
  match Term.checkedGetType [] s with
  | .ok T' => T' == T
  | .error _ => false

theorem typedAs_iff (s : Term) (T : Ty) : typedAs s T = true ↔ Term.checkedGetType [] s = .ok T := by
  unfold typedAs
  split
  · rename_i T' h
    rw [h]
    simp
  · rename_i e h
    rw [h]
    simp

def instVal (M : Model) (ρ : Valuation) (inst : Term.Inst) : Valuation :=
  fun k n T =>
    if k = 0 then
      match inst.svars.lookup n with
      | some s => if typedAs s T then sem M ρ [] [] s else ρ k n T
      | none => ρ k n T
    else if k = 1 then
      match inst.vars.lookup n with
      | some s => if typedAs s T then sem M ρ [] [] s else ρ k n T
      | none => ρ k n T
    else ρ k n T

theorem Admissible.instVal {M : Model} {ρ : Valuation} (hρ : Admissible M ρ) (inst : Term.Inst) :
    Admissible M (instVal M ρ inst) := by
  intro k n T
  have key : ∀ s, typedAs s T = true → sem M ρ [] [] s < M.size T := fun s hs =>
    sem_lt M ρ hρ [] [] Forall2.nil s T ((typedAs_iff s T).1 hs)
  unfold Holpy.instVal
  split
  · split
    · split
      · exact key _ ‹_›
      · exact hρ _ _ _
    · exact hρ _ _ _
  · split
    · split
      · split
        · exact key _ ‹_›
        · exact hρ _ _ _
      · exact hρ _ _ _
    · exact hρ _ _ _

theorem instVal_svar_some (M : Model) (ρ : Valuation) (inst : Term.Inst) (n : String) (T : Ty)
    (s : Term) (hl : inst.svars.lookup n = some s) (hT : Term.checkedGetType [] s = .ok T) :
    instVal M ρ inst 0 n T = sem M ρ [] [] s := by
  simp [instVal, hl, (typedAs_iff s T).2 hT]

theorem instVal_svar_none (M : Model) (ρ : Valuation) (inst : Term.Inst) (n : String) (T : Ty)
    (hl : inst.svars.lookup n = none) : instVal M ρ inst 0 n T = ρ 0 n T := by
  simp [instVal, hl]

theorem instVal_var_some (M : Model) (ρ : Valuation) (inst : Term.Inst) (n : String) (T : Ty)
    (s : Term) (hl : inst.vars.lookup n = some s) (hT : Term.checkedGetType [] s = .ok T) :
    instVal M ρ inst 1 n T = sem M ρ [] [] s := by
  simp [instVal, hl, (typedAs_iff s T).2 hT]

theorem instVal_var_none (M : Model) (ρ : Valuation) (inst : Term.Inst) (n : String) (T : Ty)
    (hl : inst.vars.lookup n = none) : instVal M ρ inst 1 n T = ρ 1 n T := by
  simp [instVal, hl]

theorem constVal_instVal (M : Model) (ρ : Valuation) (inst : Term.Inst) (n : String) (T : Ty) :
    constVal M (instVal M ρ inst) n T = constVal M ρ n T := by
  simp [constVal, instVal]

/-- a closed well-typed term has its type and its closed denotation in every context -/
theorem closed_getType_sem (M : Model) (ρ : Valuation) (s : Term) (T : Ty)
    (h : Term.checkedGetType [] s = .ok T) (bd : List Ty) (env : List Nat) :
    Term.getType bd s = .ok T ∧ sem M ρ bd env s = sem M ρ [] [] s :=
  ⟨Term.getType_of_checked bd s T (Term.checkedGetType_closed s T h bd), sem_closed M ρ s T h bd env⟩

/-- `rec` of `Term.subst` on a term whose instantiated schematic variables carry the types of
their instances: type and denotation -/
theorem sem_substRec (M : Model) (ρ : Valuation) (inst : Term.Inst) (t r : Term)
    (h : Term.substRec inst t = .ok r)
    (hty : ∀ n T, (n, T) ∈ Term.getSvars t → ∀ s, inst.svars.lookup n = some s →
      Term.checkedGetType [] s = .ok T)
    (bd : List Ty) (env : List Nat) :
    Term.getType bd r = Term.getType bd t ∧
    sem M ρ bd env r = sem M (instVal M ρ inst) bd env t := by
  simp only [Term.mem_getSvars] at hty
  induction t generalizing r bd env with
  | svar n T =>
    cases hl : inst.svars.lookup n with
    | none =>
      simp only [Term.substRec, hl] at h
      cases h
      exact ⟨rfl, by simp only [sem, instVal_svar_none M ρ inst n T hl]⟩
    | some s =>
      simp only [Term.substRec, hl] at h
      cases h
      have hT := hty n T ⟨rfl, rfl⟩ r hl
      obtain ⟨h1, h2⟩ := closed_getType_sem M ρ r T hT bd env
      exact ⟨by rw [h1]; rfl, by rw [h2]; simp only [sem, instVal_svar_some M ρ inst n T r hl hT]⟩
  | var n T =>
    cases hl : inst.vars.lookup n with
    | none =>
      simp only [Term.substRec, hl] at h
      cases h
      exact ⟨rfl, by simp only [sem, instVal_var_none M ρ inst n T hl]⟩
    | some s =>
      simp only [Term.substRec, hl, bind, Except.bind] at h
      split at h
      · cases h
      · rename_i sT hsT
        split at h
        · cases h
        · rename_i hne
          cases h
          have : sT = T := by simpa using hne
          subst this
          obtain ⟨h1, h2⟩ := closed_getType_sem M ρ r sT hsT bd env
          exact ⟨by rw [h1]; rfl, by rw [h2]; simp only [sem, instVal_var_some M ρ inst n sT r hl hsT]⟩
  | const n T =>
    simp only [Term.substRec] at h
    cases h
    exact ⟨rfl, by simp only [sem, constVal_instVal]⟩
  | comb f a ihf iha =>
    simp only [Term.substRec, bind, Except.bind] at h
    split at h
    · cases h
    · rename_i f' hf
      split at h
      · cases h
      · rename_i a' ha
        cases h
        obtain ⟨hf1, hf2⟩ := ihf f' hf bd env (fun n T ho => hty n T (Or.inl ho))
        obtain ⟨ha1, ha2⟩ := iha a' ha bd env (fun n T ho => hty n T (Or.inr ho))
        constructor
        · simp only [Term.getType, hf1]
        · simp only [sem, hf1, hf2, ha2]
  | abs x T b ih =>
    simp only [Term.substRec, bind, Except.bind] at h
    split at h
    · cases h
    · rename_i b' hb
      cases h
      have hb' := fun env' => ih b' hb (T :: bd) env' (fun n T ho => hty n T ho)
      constructor
      · simp only [Term.getType, (hb' []).1]
      · simp only [sem, (hb' []).1, fun v => (hb' (v :: env)).2]
  | bound i =>
    simp only [Term.substRec] at h
    cases h
    exact ⟨rfl, rfl⟩

theorem mem_of_lookup_eq_some {β : Type} (l : List (String × β)) (n : String) (s : β)
    (h : l.lookup n = some s) : (n, s) ∈ l := by
  induction l with
  | nil => cases h
  | cons p rest ih =>
    obtain ⟨k, b⟩ := p
    rw [List.lookup_cons] at h
    split at h
    · rename_i hk
      cases h
      have : n = k := by simpa using hk
      subst this
      exact List.mem_cons_self
    · exact List.mem_cons_of_mem _ (ih h)

theorem sigOK_substRec (inst : Term.Inst) (t r : Term) (h : Term.substRec inst t = .ok r)
    (ht : sigOK t = true) (hs : ∀ p ∈ inst.svars, sigOK p.2 = true)
    (hv : ∀ p ∈ inst.vars, sigOK p.2 = true) : sigOK r = true := by
  induction t generalizing r with
  | svar n T =>
    simp only [Term.substRec] at h
    split at h
    · rename_i s hl
      cases h
      exact hs _ (mem_of_lookup_eq_some _ _ _ hl)
    · cases h; exact ht
  | var n T =>
    simp only [Term.substRec, bind, Except.bind] at h
    split at h
    · rename_i s hl
      split at h
      · cases h
      · split at h
        · cases h
        · cases h
          exact hv _ (mem_of_lookup_eq_some _ _ _ hl)
    · cases h; exact ht
  | const n T =>
    simp only [Term.substRec] at h
    cases h; exact ht
  | comb f a ihf iha =>
    simp only [Term.substRec, bind, Except.bind] at h
    simp only [sigOK, Bool.and_eq_true] at ht
    split at h
    · cases h
    · rename_i f' hf
      split at h
      · cases h
      · rename_i a' ha
        cases h
        simp only [sigOK, Bool.and_eq_true]
        exact ⟨ihf f' hf ht.1, iha a' ha ht.2⟩
  | abs x T b ih =>
    simp only [Term.substRec, bind, Except.bind] at h
    simp only [sigOK] at ht
    split at h
    · cases h
    · rename_i b' hb
      cases h
      simp only [sigOK]
      exact ih b' hb ht
  | bound i =>
    simp only [Term.substRec] at h
    cases h; exact ht

/-! ### `Term.subst` and `Thm.substitution` -/

/-- `Term.subst` under a type instantiation that is already complete for `t` -/
theorem Term.subst_spec (inst : Term.Inst) (t r : Term) (σ' : Ty.TyInst)
    (h : Term.subst inst t = .ok (r, σ')) :
    TyInstLe inst.tyinst σ' ∧
    Term.substRec { inst with tyinst := σ' } (Term.substType σ' t) = .ok r ∧
    (∀ τ, TyInstLe σ' τ → ∀ n T, (n, T) ∈ Term.getSvars t → ∀ s, inst.svars.lookup n = some s →
      Term.checkedGetType [] s = .ok (T.subst τ)) ∧
    (∀ τ, TyInstLe σ' τ → Term.subst { inst with tyinst := τ } t
        = (Term.substRec { inst with tyinst := τ } (Term.substType τ t)).map (fun r' => (r', τ))) := by
  simp only [Term.subst, bind, Except.bind] at h
  split at h
  · cases h
  · rename_i σ hσ
    split at h
    · cases h
    · rename_i r0 hr
      cases h
      refine ⟨Term.matchSvars_le _ _ _ _ hσ, hr, ?_, ?_⟩
      · intro τ hτ n T hm s hs
        exact Term.matchSvars_typed inst.svars _ _ _ hσ τ hτ n T hm s hs
      · intro τ hτ
        have := Term.matchSvars_idem inst.svars _ _ _ hσ τ hτ
        simp only [Term.subst, bind, Except.bind, this]
        cases Term.substRec { inst with tyinst := τ } (Term.substType τ t) <;> rfl

/-- `Term.subst` does not extend the type instantiation of `inst` on `t` -/
def Term.SubstStable (inst : Term.Inst) (t : Term) : Prop :=
  Term.subst inst t
    = (Term.substRec inst (Term.substType inst.tyinst t)).map (fun r' => (r', inst.tyinst))

theorem Term.SubstStable.ok {inst : Term.Inst} {t r : Term} {σ : Ty.TyInst}
    (hst : Term.SubstStable inst t) (h : Term.subst inst t = .ok (r, σ)) :
    σ = inst.tyinst ∧ Term.substRec inst (Term.substType inst.tyinst t) = .ok r := by
  rw [hst] at h
  cases hr : Term.substRec inst (Term.substType inst.tyinst t) with
  | error e => rw [hr] at h; cases h
  | ok r' => rw [hr] at h; cases h; exact ⟨rfl, rfl⟩

theorem Thm.substList_cons_ok (inst : Term.Inst) (t : Term) (ts rs : List Term) (σ' : Ty.TyInst)
    (h : Thm.substList inst (t :: ts) = .ok (rs, σ')) :
    ∃ t' σ1 ts', Term.subst inst t = .ok (t', σ1) ∧
      Thm.substList { inst with tyinst := σ1 } ts = .ok (ts', σ') ∧ rs = t' :: ts' := by
  simp only [Thm.substList, bind, Except.bind] at h
  split at h
  · cases h
  · rename_i p hp
    obtain ⟨t', σ1⟩ := p
    simp only at h
    split at h
    · cases h
    · rename_i q hq
      obtain ⟨ts', σ2⟩ := q
      simp only at h
      cases h
      exact ⟨t', σ1, ts', hp, hq, rfl⟩

/-- the first pass: the resulting type instantiation extends the given one, and under every
extension of it all instantiated schematic variables are typed and `Term.subst` is stable -/
theorem Thm.substList_spec (inst : Term.Inst) (l rs : List Term) (σ' : Ty.TyInst)
    (h : Thm.substList inst l = .ok (rs, σ')) :
    TyInstLe inst.tyinst σ' ∧
    ∀ τ, TyInstLe σ' τ → ∀ t ∈ l,
      (∀ n T, (n, T) ∈ Term.getSvars t → ∀ s, inst.svars.lookup n = some s →
        Term.checkedGetType [] s = .ok (T.subst τ)) ∧
      Term.SubstStable { inst with tyinst := τ } t := by
  induction l generalizing inst rs with
  | nil =>
    simp only [Thm.substList] at h
    cases h
    exact ⟨TyInstLe.refl _, fun τ _ t ht => by cases ht⟩
  | cons t ts ih =>
    obtain ⟨t', σ1, ts', h1, h2, _⟩ := Thm.substList_cons_ok inst t ts rs σ' h
    obtain ⟨a1, _, a3, a4⟩ := Term.subst_spec inst t t' σ1 h1
    obtain ⟨b1, b2⟩ := ih { inst with tyinst := σ1 } ts' h2
    refine ⟨a1.trans b1, fun τ hτ u hu => ?_⟩
    cases hu with
    | head => exact ⟨a3 τ (b1.trans hτ), a4 τ (b1.trans hτ)⟩
    | tail _ hu' => exact b2 τ hτ u hu'

/-- the second pass, under a type instantiation that is stable for every term of the list -/
theorem Thm.substList_stable (inst : Term.Inst) (l rs : List Term) (σ' : Ty.TyInst)
    (hst : ∀ t ∈ l, Term.SubstStable inst t)
    (h : Thm.substList inst l = .ok (rs, σ')) :
    σ' = inst.tyinst ∧
    Forall2 (fun h0 h1 => Term.substRec inst (Term.substType inst.tyinst h0) = .ok h1) l rs := by
  induction l generalizing rs with
  | nil =>
    simp only [Thm.substList] at h
    cases h
    exact ⟨rfl, Forall2.nil⟩
  | cons t ts ih =>
    obtain ⟨t', σ1, ts', h1, h2, rfl⟩ := Thm.substList_cons_ok inst t ts rs σ' h
    obtain ⟨rfl, a2⟩ := (hst t List.mem_cons_self).ok h1
    obtain ⟨b1, b2⟩ := ih ts' (fun u hu => hst u (List.mem_cons_of_mem _ hu)) h2
    exact ⟨b1, Forall2.cons a2 b2⟩

theorem Thm.catchTerm_ok {α : Type} (x : Except TErr α) (a : α) (h : Thm.catchTerm x = .ok a) :
    x = .ok a := by
  cases x with
  | ok b => simp only [Thm.catchTerm] at h; cases h; rfl
  | error e => cases e <;> simp [Thm.catchTerm] at h

theorem Thm.substitution_ok (inst : Term.Inst) (th th' : Thm)
    (h : Thm.substitution inst th = .ok th') :
    ∃ rs σ hs σ1 p σ2, Thm.substList inst (th.hyps ++ [th.prop]) = .ok (rs, σ) ∧
      Thm.substList { inst with tyinst := σ } th.hyps = .ok (hs, σ1) ∧
      Term.subst { inst with tyinst := σ1 } th.prop = .ok (p, σ2) ∧ th' = Thm.mk' p [hs] := by
  simp only [Thm.substitution, bind, Except.bind] at h
  split at h
  · cases h
  · rename_i p1 hp1
    obtain ⟨rs, σ⟩ := p1
    simp only at h
    split at h
    · cases h
    · rename_i p2 hp2
      obtain ⟨hs, σ1⟩ := p2
      simp only at h
      split at h
      · cases h
      · rename_i p3 hp3
        obtain ⟨p, σ2⟩ := p3
        simp only at h
        cases h
        exact ⟨rs, σ, hs, σ1, p, σ2, Thm.catchTerm_ok _ _ hp1, Thm.catchTerm_ok _ _ hp2,
          Thm.catchTerm_ok _ _ hp3, rfl⟩

/-- What `Thm.substitution` computes: one type instantiation `σ` for the whole sequent, every
hypothesis and the conclusion instantiated with it and then rewritten by `substRec`. -/
theorem Thm.substitution_spec (inst : Term.Inst) (th th' : Thm)
    (h : Thm.substitution inst th = .ok th') :
    ∃ σ : Ty.TyInst, ∃ hs : List Term, ∃ p : Term,
      th' = Thm.mk' p [hs] ∧
      Forall2 (fun h0 h1 => Term.substRec { inst with tyinst := σ } (Term.substType σ h0) = .ok h1)
        th.hyps hs ∧
      Term.substRec { inst with tyinst := σ } (Term.substType σ th.prop) = .ok p ∧
      (∀ t, t ∈ th.hyps ++ [th.prop] → ∀ n T, (n, T) ∈ Term.getSvars t → ∀ s,
        inst.svars.lookup n = some s → Term.checkedGetType [] s = .ok (T.subst σ)) := by
  obtain ⟨rs, σ, hs, σ1, p, σ2, h1, h2, h3, rfl⟩ := Thm.substitution_ok inst th th' h
  obtain ⟨_, a2⟩ := Thm.substList_spec inst _ rs σ h1
  have a := a2 σ (TyInstLe.refl σ)
  obtain ⟨e, b2⟩ := Thm.substList_stable { inst with tyinst := σ } th.hyps hs σ1
    (fun t ht => (a t (List.mem_append_left _ ht)).2) h2
  have e' : σ1 = σ := e
  subst σ1
  obtain ⟨_, c2⟩ := (a th.prop (List.mem_append_right _ (List.mem_singleton.2 rfl))).2.ok h3
  exact ⟨σ, hs, p, rfl, b2, c2, fun t ht => (a t ht).1⟩

end Holpy
