import Holpy.Kernel.Sem
/-
Standard interpretation of the constants `library/logic_base.json` declares on top of the three
logical constants: `true`, `false`, `neg`, `conj`, `disj` (monomorphic), `exists`, `exists1`, `IF`,
`Some`, `The` (polymorphic in one type).  Import-free and executable: the codes below are what
the semantic oracle assigns to these constants, and `StdBase M ρ` — "ρ reads them the standard
way" — is the class of valuations over which the base-logic axioms are proved valid
(`C01/PropsAx.lean`).

`sem` itself is unchanged: it reads every constant other than `equals`/`implies`/`all` from the
valuation.  `StdBase` restricts the valuation at *instances of the declared types* only; the same
names at other types stay uninterpreted.  `_VAR` (declared by logic_base for internal use; the
`variable` rule asserts `⊢ _VAR x`) is the predicate that is true of everything.
-/
namespace Holpy

def trueVal : Nat := 1
def falseVal : Nat := 0

/-- `¬` : bool ⇒ bool -/
def negCode : Nat := lamCode (fun x => if x = 0 then 1 else 0) 2 2

/-- `∧` : bool ⇒ bool ⇒ bool -/
def conjCode : Nat :=
  lamCode (fun x => lamCode (fun y => if x = 1 ∧ y = 1 then 1 else 0) 2 2) 2 4

/-- `∨` : bool ⇒ bool ⇒ bool -/
def disjCode : Nat :=
  lamCode (fun x => lamCode (fun y => if x = 1 ∨ y = 1 then 1 else 0) 2 2) 2 4

/-- `∃` at a carrier of size `n`: the predicate code is not the all-zero numeral -/
def exCode (n : Nat) : Nat :=
  lamCode (fun f => if f = 0 then 0 else 1) (2 ^ n) 2

/-- `IF` at a carrier of size `n` : bool ⇒ a ⇒ a ⇒ a -/
def ifCode (n : Nat) : Nat :=
  lamCode (fun c => lamCode (fun x => lamCode (fun y => if c = 1 then x else y) n n) n (n ^ n))
    2 ((n ^ n) ^ n)

/-- exactly one digit of the predicate code `f` (over a carrier of size `n`) is 1 -/
def uniqDigit (n f : Nat) : Bool :=
  (List.range n).any fun x =>
    appCode f x 2 == 1 && (List.range n).all fun y => appCode f y 2 != 1 || y == x

/-- `∃!` at a carrier of size `n` -/
def ex1Code (n : Nat) : Nat :=
  lamCode (fun f => if uniqDigit n f then 1 else 0) (2 ^ n) 2

/-- the least value satisfying the predicate code `p`, else 0 -/
def leastWitness (n p : Nat) : Nat :=
  ((List.range n).find? fun v => appCode p v 2 == 1).getD 0

/-- `_VAR` at a carrier of size `n`: the marker "is a variable", true of everything -/
def varCode (n : Nat) : Nat := lamCode (fun _ => 1) n 2

/-- the deterministic choice function the oracle uses for `Some` and `The`
(a ⇒ bool) ⇒ a at a carrier of size `n` -/
def choiceCode (n : Nat) : Nat := lamCode (leastWitness n) (2 ^ n) n

namespace BaseTy
/-- bool ⇒ bool -/
def un : Ty := Ty.fn Ty.bool Ty.bool
/-- bool ⇒ bool ⇒ bool -/
def bin : Ty := Ty.fn Ty.bool (Ty.fn Ty.bool Ty.bool)
/-- (a ⇒ bool) ⇒ bool -/
def quant (a : Ty) : Ty := Ty.fn (Ty.fn a Ty.bool) Ty.bool
/-- bool ⇒ a ⇒ a ⇒ a -/
def ite (a : Ty) : Ty := Ty.fn Ty.bool (Ty.fn a (Ty.fn a a))
/-- (a ⇒ bool) ⇒ a -/
def choice (a : Ty) : Ty := Ty.fn (Ty.fn a Ty.bool) a
end BaseTy

/-- `ρ` interprets the base-logic constants, at every instance of their declared types, in the
standard way.  `Some` is any choice function; `The` is any description operator (it returns the
witness when there is exactly one). -/
structure StdBase (M : Model) (ρ : Valuation) : Prop where
  tru : ρ 2 "true" Ty.bool = trueVal
  fls : ρ 2 "false" Ty.bool = falseVal
  neg : ρ 2 "neg" BaseTy.un = negCode
  conj : ρ 2 "conj" BaseTy.bin = conjCode
  disj : ρ 2 "disj" BaseTy.bin = disjCode
  ex : ∀ a : Ty, ρ 2 "exists" (BaseTy.quant a) = exCode (M.size a)
  ex1 : ∀ a : Ty, ρ 2 "exists1" (BaseTy.quant a) = ex1Code (M.size a)
  ite : ∀ a : Ty, ρ 2 "IF" (BaseTy.ite a) = ifCode (M.size a)
  some : ∀ (a : Ty) (p v : Nat), p < 2 ^ M.size a → v < M.size a → appCode p v 2 = 1 →
    appCode p (appCode (ρ 2 "Some" (BaseTy.choice a)) p (M.size a)) 2 = 1
  the : ∀ (a : Ty) (p v : Nat), p < 2 ^ M.size a → v < M.size a → appCode p v 2 = 1 →
    (∀ w, w < M.size a → appCode p w 2 = 1 → w = v) →
    appCode (ρ 2 "The" (BaseTy.choice a)) p (M.size a) = v
  /-- the internal marker `_VAR` (what the `variable` rule asserts) holds of everything -/
  var_ : ∀ a : Ty, ρ 2 "_VAR" (Ty.fn a Ty.bool) = varCode (M.size a)

/-- Is `const name T` a base-logic constant at an instance of its declared type?  Returns its
standard value in `M` (for `Some`/`The`: the least-witness choice function). -/
def stdConst (M : Model) (name : String) (T : Ty) : Option Nat :=
  match name, T with
  | "true", .con "bool" [] => some trueVal
  | "false", .con "bool" [] => some falseVal
  | "neg", .con "fun" [.con "bool" [], .con "bool" []] => some negCode
  | "conj", .con "fun" [.con "bool" [], .con "fun" [.con "bool" [], .con "bool" []]] => some conjCode
  | "disj", .con "fun" [.con "bool" [], .con "fun" [.con "bool" [], .con "bool" []]] => some disjCode
  | "exists", .con "fun" [.con "fun" [a, .con "bool" []], .con "bool" []] => some (exCode (M.size a))
  | "exists1", .con "fun" [.con "fun" [a, .con "bool" []], .con "bool" []] => some (ex1Code (M.size a))
  | "IF", .con "fun" [.con "bool" [], .con "fun" [a, .con "fun" [a', a'']]] =>
    if a = a' ∧ a = a'' then some (ifCode (M.size a)) else none
  | "Some", .con "fun" [.con "fun" [a, .con "bool" []], a'] =>
    if a = a' then some (choiceCode (M.size a)) else none
  | "The", .con "fun" [.con "fun" [a, .con "bool" []], a'] =>
    if a = a' then some (choiceCode (M.size a)) else none
  | "_VAR", .con "fun" [a, .con "bool" []] => some (varCode (M.size a))
  | _, _ => none

/-- the standard valuation that sends everything else to 0 -/
def stdVal (M : Model) : Valuation :=
  fun k n T => if k = 2 then (stdConst M n T).getD 0 else 0

end Holpy
