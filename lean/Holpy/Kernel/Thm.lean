import Holpy.Kernel.Term
/-
Shared kernel model — sequents and the 15 primitive rules (`kernel/thm.py`), plus the
post-step type check of `Theory._check_proof_item`.  Import-free.
-/
namespace Holpy

structure Thm where
  hyps : List Term
  prop : Term
  deriving Repr, Inhabited, DecidableEq

inductive RErr where
  | invalid            -- InvalidDerivationException  (CheckProofException "invalid derivation")
  | badInput           -- TypeError: wrong number / kind of arguments
  | typing             -- check_thm_type failed (CheckProofException "typing error")
  | escape (e : TErr)  -- an exception class the checker does not catch (still: not accepted)
  | noRule
  | badRef
  deriving Repr, DecidableEq, Inhabited

namespace Thm

def memAeq (t : Term) (l : List Term) : Bool := l.any (fun h => Term.aeq t h)

/-- `Thm.__init__(prop, *hyps)` where each argument is a tuple of hypotheses: the first non-empty
tuple is taken as is; later ones are appended minus what is already present. -/
def addTuple (cur new : List Term) : List Term :=
  if cur.isEmpty then new
  else cur ++ new.filter (fun t => !memAeq t cur)

def mk' (prop : Term) (tuples : List (List Term)) : Thm :=
  ⟨tuples.foldl addTuple [], prop⟩

def liftT {α} : Except TErr α → Except RErr α
  | .ok a => .ok a
  | .error e => .error (.escape e)

/-- TermException inside a rule becomes InvalidDerivationException where the Python catches it. -/
def catchTerm {α} : Except TErr α → Except RErr α
  | .ok a => .ok a
  | .error .term => .error .invalid
  | .error e => .error (.escape e)

def assume (a : Term) : Thm := ⟨[a], a⟩

def impliesIntr (a : Term) (th : Thm) : Thm :=
  ⟨th.hyps.filter (fun t => !Term.aeq t a), Term.mkImplies a th.prop⟩

def impliesElim (th1 th2 : Thm) : Except RErr Thm :=
  match Term.destImplies th1.prop with
  | some (a, b) => if Term.aeq a th2.prop then .ok (mk' b [th1.hyps, th2.hyps]) else .error .invalid
  | none => .error .invalid

def reflexive (x : Term) : Except RErr Thm := do
  let e ← liftT (Term.mkEq x x)
  .ok ⟨[], e⟩

def symmetric (th : Thm) : Except RErr Thm :=
  match Term.destEq th.prop with
  | some (x, y) => do
    let e ← liftT (Term.mkEq y x)
    .ok ⟨th.hyps, e⟩
  | none => .error .invalid

def transitive (th1 th2 : Thm) : Except RErr Thm :=
  match Term.destEq th1.prop, Term.destEq th2.prop with
  | some (x, y1), some (y2, z) =>
    if Term.aeq y1 y2 then do
      let e ← liftT (Term.mkEq x z)
      .ok (mk' e [th1.hyps, th2.hyps])
    else .error .invalid
  | _, _ => .error .invalid

def combination (th1 th2 : Thm) : Except RErr Thm :=
  match Term.destEq th1.prop, Term.destEq th2.prop with
  | some (f, g), some (x, y) => do
    let tf ← liftT (Term.getType [] f)
    if tf.isFun then
      match tf.domain? with
      | none => .error (.escape .attr)
      | some d => do
        let tx ← liftT (Term.getType [] x)
        if d == tx then do
          let e ← liftT (Term.mkEq (.comb f x) (.comb g y))
          .ok (mk' e [th1.hyps, th2.hyps])
        else .error .invalid
    else .error .invalid
  | _, _ => .error .invalid

def equalIntr (th1 th2 : Thm) : Except RErr Thm :=
  match Term.destImplies th1.prop, Term.destImplies th2.prop with
  | some (a1, b1), some (b2, a2) =>
    if Term.aeq a1 a2 && Term.aeq b1 b2 then do
      let e ← liftT (Term.mkEq a1 b1)
      .ok (mk' e [th1.hyps, th2.hyps])
    else .error .invalid
  | _, _ => .error .invalid

def equalElim (th1 th2 : Thm) : Except RErr Thm :=
  match Term.destEq th1.prop with
  | some (a, b) => if Term.aeq a th2.prop then .ok (mk' b [th1.hyps, th2.hyps]) else .error .invalid
  | none => .error .invalid

def substType (σ : Ty.TyInst) (th : Thm) : Thm :=
  mk' (Term.substType σ th.prop) [th.hyps.map (Term.substType σ)]

/-- Thread `Term.subst` through a list of terms, carrying the growing `tyinst`. -/
def substList (inst : Term.Inst) : List Term → Except TErr (List Term × Ty.TyInst)
  | [] => .ok ([], inst.tyinst)
  | t :: ts => do
    let (t', σ) ← Term.subst inst t
    let (ts', σ') ← substList { inst with tyinst := σ } ts
    .ok (t' :: ts', σ')

/-- `Thm.substitution(inst, th)` after the fix: a first pass over hypotheses and conclusion
settles the type instantiation, the second pass substitutes with the complete one. -/
def substitution (inst : Term.Inst) (th : Thm) : Except RErr Thm := do
  let (_, σ) ← catchTerm (substList inst (th.hyps ++ [th.prop]))
  let inst' := { inst with tyinst := σ }
  let (hs, σ1) ← catchTerm (substList inst' th.hyps)
  let (p, _) ← catchTerm (Term.subst { inst' with tyinst := σ1 } th.prop)
  .ok (mk' p [hs])

def betaConv (t : Term) : Except RErr Thm := do
  let t' ← catchTerm (Term.betaConv t)
  let e ← liftT (Term.mkEq t t')
  .ok ⟨[], e⟩

def abstraction (x : Term) (th : Thm) : Except RErr Thm :=
  if th.hyps.any (Term.occursVar x) then .error .invalid
  else match Term.destEq th.prop with
    | some (t1, t2) => do
      let l1 ← catchTerm (Term.mkLambda x t1)
      let l2 ← catchTerm (Term.mkLambda x t2)
      let e ← liftT (Term.mkEq l1 l2)
      .ok ⟨th.hyps, e⟩
    | none => .error .invalid

def forallIntr (x : Term) (th : Thm) : Except RErr Thm :=
  if th.hyps.any (Term.occursVar x) then .error .invalid
  else if !Term.isVarLike x then .error .invalid
  else do
    let p ← liftT (Term.mkForall x th.prop)
    .ok ⟨th.hyps, p⟩

def forallElim (s : Term) (th : Thm) : Except RErr Thm :=
  match Term.destForall th.prop with
  | some (.abs x T b) => do
    let ts ← liftT (Term.getType [] s)
    if T != ts then .error .invalid
    else do
      let r ← liftT (Term.substBound (.abs x T b) s)
      .ok ⟨th.hyps, r⟩
  | some _ => .error (.escape .attr)
  | none => .error .invalid

/-- `check_thm_type()`. -/
def checkThmType (th : Thm) : Bool :=
  (th.hyps ++ [th.prop]).all fun t =>
    match Term.checkedGetType [] t with
    | .ok T => T == Ty.bool
    | .error _ => false

/-- `can_prove(target)`. -/
def canProve (self target : Thm) : Bool :=
  Term.aeq self.prop target.prop && self.hyps.all (fun h => memAeq h target.hyps)

end Thm

/-- Argument of a primitive rule (`primitive_deriv`'s second component). -/
inductive Arg where
  | none
  | term (t : Term)
  | tyinst (σ : Ty.TyInst)
  | inst (i : Term.Inst)
  deriving Repr, Inhabited

/-- Dispatch of `primitive_deriv[rule]` as `_check_proof_item` calls it. -/
def applyRule (rule : String) (arg : Arg) (prems : List Thm) : Except RErr Thm :=
  match rule, arg, prems with
  | "assume", .term a, [] => .ok (Thm.assume a)
  | "implies_intr", .term a, [th] => .ok (Thm.impliesIntr a th)
  | "implies_elim", .none, [th1, th2] => Thm.impliesElim th1 th2
  | "reflexive", .term x, [] => Thm.reflexive x
  | "symmetric", .none, [th] => Thm.symmetric th
  | "transitive", .none, [th1, th2] => Thm.transitive th1 th2
  | "combination", .none, [th1, th2] => Thm.combination th1 th2
  | "equal_intr", .none, [th1, th2] => Thm.equalIntr th1 th2
  | "equal_elim", .none, [th1, th2] => Thm.equalElim th1 th2
  | "subst_type", .tyinst σ, [th] => .ok (Thm.substType σ th)
  | "substitution", .inst i, [th] => Thm.substitution i th
  | "beta_conv", .term t, [] => Thm.betaConv t
  | "abstraction", .term x, [th] => Thm.abstraction x th
  | "forall_intr", .term x, [th] => Thm.forallIntr x th
  | "forall_elim", .term s, [th] => Thm.forallElim s th
  | r, _, _ =>
    if ["assume", "implies_intr", "implies_elim", "reflexive", "symmetric", "transitive",
        "combination", "equal_intr", "equal_elim", "subst_type", "substitution", "beta_conv",
        "abstraction", "forall_intr", "forall_elim"].contains r
    then .error .badInput else .error .noRule

/-- One checker step on a primitive rule: apply, then `check_thm_type`. -/
def checkStep (rule : String) (arg : Arg) (prems : List Thm) : Except RErr Thm := do
  let th ← applyRule rule arg prems
  if Thm.checkThmType th then .ok th else .error .typing

/-- A flat proof script: each step cites earlier steps by position. -/
structure Step where
  rule : String
  arg : Arg
  prevs : List Nat
  deriving Repr, Inhabited

/-- the sequents cited by a step (`prf.find_item(prev).th`) -/
def lookupPrems (acc : List Thm) : List Nat → Except RErr (List Thm)
  | [] => .ok []
  | i :: rest =>
    match acc[i]? with
    | some th =>
      match lookupPrems acc rest with
      | .ok r => .ok (th :: r)
      | .error e => .error e
    | none => .error .badRef

def runScript : List Step → List Thm → Except RErr (List Thm)
  | [], acc => .ok acc
  | s :: rest, acc =>
    match lookupPrems acc s.prevs with
    | .error e => .error e
    | .ok prems =>
      match checkStep s.rule s.arg prems with
      | .error e => .error e
      | .ok th => runScript rest (acc ++ [th])

/-! ### the `theorem` rule (added for C01 with base-logic axioms; nothing above is changed) -/

/-- argument of a checker step: a primitive rule's argument, or the name the `theorem` rule cites -/
inductive ArgAx where
  | prim (a : Arg)
  | name (s : String)
  deriving Repr, Inhabited

/-- One checker step over a theory whose theorems are `axioms` (`Theory._check_proof_item`):
`theorem` copies the stored (schematic) statement `get_theorem(name)` — an unknown name is
CheckProofException("theorem not found"), premises are not looked at —, every other rule is
`checkStep`; then `check_thm_type` as for every step. -/
def checkStepAx (axioms : List (String × Thm)) (rule : String) (arg : ArgAx) (prems : List Thm) :
    Except RErr Thm :=
  if rule == "theorem" then
    match arg with
    | .name s =>
      match axioms.lookup s with
      | some th => if Thm.checkThmType th then .ok th else .error .typing
      | none => .error .invalid
    | .prim _ => .error .invalid
  else
    match arg with
    | .prim a => checkStep rule a prems
    | .name _ => .error .badInput

structure StepAx where
  rule : String
  arg : ArgAx
  prevs : List Nat
  deriving Repr, Inhabited

/-- `runScript` with the `theorem` rule (which does not resolve `prevs`) -/
def runScriptAx (axioms : List (String × Thm)) : List StepAx → List Thm → Except RErr (List Thm)
  | [], acc => .ok acc
  | s :: rest, acc =>
    if s.rule == "theorem" then
      match checkStepAx axioms s.rule s.arg [] with
      | .error e => .error e
      | .ok th => runScriptAx axioms rest (acc ++ [th])
    else
      match lookupPrems acc s.prevs with
      | .error e => .error e
      | .ok prems =>
        match checkStepAx axioms s.rule s.arg prems with
        | .error e => .error e
        | .ok th => runScriptAx axioms rest (acc ++ [th])

end Holpy
