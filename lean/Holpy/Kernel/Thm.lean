import Holpy.Kernel.Term
/-
Shared kernel model — sequents and the 15 primitive rules (`kernel/thm.py`), plus the
post-step type check of `Theory._check_proof_item`.  Import-free.
-/
namespace Holpy

structure Thm where
  hyps : List Term
  prop : Term
  deriving Repr, Inhabited, DecidableEq

inductive RErr where
  | invalid            -- InvalidDerivationException  (CheckProofException "invalid derivation")
  | badInput           -- TypeError: wrong number / kind of arguments
  | typing             -- check_thm_type failed (CheckProofException "typing error")
  | escape (e : TErr)  -- an exception class the checker does not catch (still: not accepted)
  | noRule
  | badRef
  deriving Repr, DecidableEq, Inhabited

/-- Is `const name T` one of the three logical constants at a genuine instance of its type?
Returns the carrier type. -/
def logicalKind (name : String) (T : Ty) : Option (Nat × Ty) :=
  match name, T with
  | "equals", .con "fun" [a, .con "fun" [a', .con "bool" []]] => if a = a' then some (0, a) else none
  | "implies", .con "fun" [.con "bool" [], .con "fun" [.con "bool" [], .con "bool" []]] => some (1, Ty.bool)
  | "all", .con "fun" [.con "fun" [a, .con "bool" []], .con "bool" []] => some (2, a)
  | _, _ => none

/-- logical constants occur only at instances of their declared types -/
def sigOK : Term → Bool
  | .const n T =>
    if n == "equals" || n == "implies" || n == "all" then (logicalKind n T).isSome else true
  | .comb f a => sigOK f && sigOK a
  | .abs _ _ b => sigOK b
  | _ => true

/-- every hypothesis and the conclusion are signature-correct -/
def Thm.sigOK (th : Thm) : Bool := th.hyps.all Holpy.sigOK && Holpy.sigOK th.prop

namespace Thm

def memAeq (t : Term) (l : List Term) : Bool := l.any (fun h => Term.aeq t h)

/-- `Thm.__init__(prop, *hyps)` where each argument is a tuple of hypotheses: the first non-empty
tuple is taken as is; later ones are appended minus what is already present. -/
def addTuple (cur new : List Term) : List Term :=
  if cur.isEmpty then new
  else cur ++ new.filter (fun t => !memAeq t cur)

def mk' (prop : Term) (tuples : List (List Term)) : Thm :=
  ⟨tuples.foldl addTuple [], prop⟩

def liftT {α} : Except TErr α → Except RErr α
  | .ok a => .ok a
  | .error e => .error (.escape e)

/-- TermException inside a rule becomes InvalidDerivationException where the Python catches it. -/
def catchTerm {α} : Except TErr α → Except RErr α
  | .ok a => .ok a
  | .error .term => .error .invalid
  | .error e => .error (.escape e)

def assume (a : Term) : Thm := ⟨[a], a⟩

def impliesIntr (a : Term) (th : Thm) : Thm :=
  ⟨th.hyps.filter (fun t => !Term.aeq t a), Term.mkImplies a th.prop⟩

def impliesElim (th1 th2 : Thm) : Except RErr Thm :=
  match Term.destImplies th1.prop with
  | some (a, b) => if Term.aeq a th2.prop then .ok (mk' b [th1.hyps, th2.hyps]) else .error .invalid
  | none => .error .invalid

def reflexive (x : Term) : Except RErr Thm := do
  let e ← liftT (Term.mkEq x x)
  .ok ⟨[], e⟩

def symmetric (th : Thm) : Except RErr Thm :=
  match Term.destEq th.prop with
  | some (x, y) => do
    let e ← liftT (Term.mkEq y x)
    .ok ⟨th.hyps, e⟩
  | none => .error .invalid

def transitive (th1 th2 : Thm) : Except RErr Thm :=
  match Term.destEq th1.prop, Term.destEq th2.prop with
  | some (x, y1), some (y2, z) =>
    if Term.aeq y1 y2 then do
      let e ← liftT (Term.mkEq x z)
      .ok (mk' e [th1.hyps, th2.hyps])
    else .error .invalid
  | _, _ => .error .invalid

def combination (th1 th2 : Thm) : Except RErr Thm :=
  match Term.destEq th1.prop, Term.destEq th2.prop with
  | some (f, g), some (x, y) => do
    let tf ← liftT (Term.getType [] f)
    if tf.isFun then
      match tf.domain? with
      | none => .error (.escape .attr)
      | some d => do
        let tx ← liftT (Term.getType [] x)
        if d == tx then do
          let e ← liftT (Term.mkEq (.comb f x) (.comb g y))
          .ok (mk' e [th1.hyps, th2.hyps])
        else .error .invalid
    else .error .invalid
  | _, _ => .error .invalid

def equalIntr (th1 th2 : Thm) : Except RErr Thm :=
  match Term.destImplies th1.prop, Term.destImplies th2.prop with
  | some (a1, b1), some (b2, a2) =>
    if Term.aeq a1 a2 && Term.aeq b1 b2 then do
      let e ← liftT (Term.mkEq a1 b1)
      .ok (mk' e [th1.hyps, th2.hyps])
    else .error .invalid
  | _, _ => .error .invalid

def equalElim (th1 th2 : Thm) : Except RErr Thm :=
  match Term.destEq th1.prop with
  | some (a, b) => if Term.aeq a th2.prop then .ok (mk' b [th1.hyps, th2.hyps]) else .error .invalid
  | none => .error .invalid

def substType (σ : Ty.TyInst) (th : Thm) : Thm :=
  mk' (Term.substType σ th.prop) [th.hyps.map (Term.substType σ)]

/-- Thread `Term.subst` through a list of terms, carrying the growing `tyinst`. -/
def substList (inst : Term.Inst) : List Term → Except TErr (List Term × Ty.TyInst)
  | [] => .ok ([], inst.tyinst)
  | t :: ts => do
    let (t', σ) ← Term.subst inst t
    let (ts', σ') ← substList { inst with tyinst := σ } ts
    .ok (t' :: ts', σ')

/-- `Thm.substitution(inst, th)` after the fix: a first pass over hypotheses and conclusion
settles the type instantiation, the second pass substitutes with the complete one. -/
def substitution (inst : Term.Inst) (th : Thm) : Except RErr Thm := do
  let (_, σ) ← catchTerm (substList inst (th.hyps ++ [th.prop]))
  let inst' := { inst with tyinst := σ }
  let (hs, σ1) ← catchTerm (substList inst' th.hyps)
  let (p, _) ← catchTerm (Term.subst { inst' with tyinst := σ1 } th.prop)
  .ok (mk' p [hs])

def betaConv (t : Term) : Except RErr Thm := do
  let t' ← catchTerm (Term.betaConv t)
  let e ← liftT (Term.mkEq t t')
  .ok ⟨[], e⟩

def abstraction (x : Term) (th : Thm) : Except RErr Thm :=
  if th.hyps.any (Term.occursVar x) then .error .invalid
  else match Term.destEq th.prop with
    | some (t1, t2) => do
      let l1 ← catchTerm (Term.mkLambda x t1)
      let l2 ← catchTerm (Term.mkLambda x t2)
      let e ← liftT (Term.mkEq l1 l2)
      .ok ⟨th.hyps, e⟩
    | none => .error .invalid

def forallIntr (x : Term) (th : Thm) : Except RErr Thm :=
  if th.hyps.any (Term.occursVar x) then .error .invalid
  else if !Term.isVarLike x then .error .invalid
  else do
    let p ← liftT (Term.mkForall x th.prop)
    .ok ⟨th.hyps, p⟩

def forallElim (s : Term) (th : Thm) : Except RErr Thm :=
  match Term.destForall th.prop with
  | some (.abs x T b) => do
    let ts ← liftT (Term.getType [] s)
    if T != ts then .error .invalid
    else do
      let r ← liftT (Term.substBound (.abs x T b) s)
      .ok ⟨th.hyps, r⟩
  | some _ => .error (.escape .attr)
  | none => .error .invalid

/-- the typing half of `check_thm_type()`: every hypothesis and the conclusion has checked type
`bool` (this was all of `check_thm_type` before the fix; C11 speaks about this half) -/
def checkThmType (th : Thm) : Bool :=
  (th.hyps ++ [th.prop]).all fun t =>
    match Term.checkedGetType [] t with
    | .ok T => T == Ty.bool
    | .error _ => false

/-- `check_thm_type()` since the fix: additionally the logical constants `equals`/`implies`/`all`
occur at instances of their declared types only — the rules treat any constant of that name as the
logical one.  This is what `_check_proof_item` applies to every sequent it keeps. -/
def checkThmTypeSig (th : Thm) : Bool :=
  checkThmType th && Holpy.Thm.sigOK th

/-- `can_prove(target)`. -/
def canProve (self target : Thm) : Bool :=
  Term.aeq self.prop target.prop && self.hyps.all (fun h => memAeq h target.hyps)

end Thm

/-- Argument of a primitive rule (`primitive_deriv`'s second component). -/
inductive Arg where
  | none
  | term (t : Term)
  | tyinst (σ : Ty.TyInst)
  | inst (i : Term.Inst)
  /-- anything else (a Thm, a string, a number, a tuple …): no rule accepts it -/
  | other
  deriving Repr, Inhabited

/-- Dispatch of `primitive_deriv[rule]` as `_check_proof_item` calls it: the argument must be `None`
when the rule's signature is `None` and an instance of the signature class otherwise (since the
fix), and the number of premises must fit the function (TypeError); both end in
CheckProofException("invalid input to derivation") = `badInput`. -/
def applyRule (rule : String) (arg : Arg) (prems : List Thm) : Except RErr Thm :=
  match rule, arg, prems with
  | "assume", .term a, [] => .ok (Thm.assume a)
  | "implies_intr", .term a, [th] => .ok (Thm.impliesIntr a th)
  | "implies_elim", .none, [th1, th2] => Thm.impliesElim th1 th2
  | "reflexive", .term x, [] => Thm.reflexive x
  | "symmetric", .none, [th] => Thm.symmetric th
  | "transitive", .none, [th1, th2] => Thm.transitive th1 th2
  | "combination", .none, [th1, th2] => Thm.combination th1 th2
  | "equal_intr", .none, [th1, th2] => Thm.equalIntr th1 th2
  | "equal_elim", .none, [th1, th2] => Thm.equalElim th1 th2
  | "subst_type", .tyinst σ, [th] => .ok (Thm.substType σ th)
  | "substitution", .inst i, [th] => Thm.substitution i th
  | "beta_conv", .term t, [] => Thm.betaConv t
  | "abstraction", .term x, [th] => Thm.abstraction x th
  | "forall_intr", .term x, [th] => Thm.forallIntr x th
  | "forall_elim", .term s, [th] => Thm.forallElim s th
  | r, _, _ =>
    if ["assume", "implies_intr", "implies_elim", "reflexive", "symmetric", "transitive",
        "combination", "equal_intr", "equal_elim", "subst_type", "substitution", "beta_conv",
        "abstraction", "forall_intr", "forall_elim"].contains r
    then .error .badInput else .error .noRule

/-- One checker step on a primitive rule: apply, then `check_thm_type`. -/
def checkStep (rule : String) (arg : Arg) (prems : List Thm) : Except RErr Thm := do
  let th ← applyRule rule arg prems
  if Thm.checkThmTypeSig th then .ok th else .error .typing

/-- A flat proof script: each step cites earlier steps by position. -/
structure Step where
  rule : String
  arg : Arg
  prevs : List Nat
  deriving Repr, Inhabited

/-- the sequents cited by a step (`prf.find_item(prev).th`) -/
def lookupPrems (acc : List Thm) : List Nat → Except RErr (List Thm)
  | [] => .ok []
  | i :: rest =>
    match acc[i]? with
    | some th =>
      match lookupPrems acc rest with
      | .ok r => .ok (th :: r)
      | .error e => .error e
    | none => .error .badRef

def runScript : List Step → List Thm → Except RErr (List Thm)
  | [], acc => .ok acc
  | s :: rest, acc =>
    match lookupPrems acc s.prevs with
    | .error e => .error e
    | .ok prems =>
      match checkStep s.rule s.arg prems with
      | .error e => .error e
      | .ok th => runScript rest (acc ++ [th])

/-! ### the rest of `_check_proof_item`: the `theorem` and `variable` rules, stated sequents -/

/-- argument of a checker step: a primitive rule's argument, the name the `theorem` rule cites, or
the `(name, type)` pair of the `variable` rule -/
inductive ArgAx where
  | prim (a : Arg)
  | name (s : String)
  | var (n : String) (T : Ty)
  deriving Repr, Inhabited

/-- `Thm.mk_VAR(Var(nm, T))`: the internal proposition `⊢ _VAR nm` -/
def Thm.mkVAR (n : String) (T : Ty) : Thm :=
  ⟨[], .comb (.const "_VAR" (Ty.fn T Ty.bool)) (.var n T)⟩

/-- The sequent a step computes (`res_th`) over a theory whose theorems are `axioms`:
`theorem` copies the stored (schematic) statement `get_theorem(name)` — an unknown name is
CheckProofException("theorem not found") —, `variable` is `mk_VAR` (anything but a pair does not
unpack: a crash, not an acceptance); both do not look at premises; every other rule is
`applyRule`. -/
def applyRuleAx (axioms : List (String × Thm)) (rule : String) (arg : ArgAx) (prems : List Thm) :
    Except RErr Thm :=
  if rule == "theorem" then
    match arg with
    | .name s =>
      match axioms.lookup s with
      | some th => .ok th
      | none => .error .invalid
    | _ => .error .invalid
  else if rule == "variable" then
    match arg with
    | .var n T => .ok (Thm.mkVAR n T)
    | _ => .error (.escape .attr)
  else
    match arg with
    | .prim a => applyRule rule a prems
    | _ => .error .badInput

/-- The end of `_check_proof_item`.  Without a stated sequent the computed one is kept; with one,
the computed sequent must `can_prove` it (same conclusion, hypotheses a subset) and the STATED one
is kept.  What is kept goes through `check_thm_type`. -/
def finishStep (res : Thm) (stated : Option Thm) : Except RErr Thm :=
  match stated with
  | none => if Thm.checkThmTypeSig res then .ok res else .error .typing
  | some st =>
    if Thm.canProve res st then (if Thm.checkThmTypeSig st then .ok st else .error .typing)
    else .error .invalid

/-- one checker step with an optional stated sequent -/
def checkStepSt (axioms : List (String × Thm)) (rule : String) (arg : ArgAx) (prems : List Thm)
    (stated : Option Thm) : Except RErr Thm :=
  match applyRuleAx axioms rule arg prems with
  | .error e => .error e
  | .ok res => finishStep res stated

/-- one checker step without a stated sequent -/
def checkStepAx (axioms : List (String × Thm)) (rule : String) (arg : ArgAx) (prems : List Thm) :
    Except RErr Thm :=
  checkStepSt axioms rule arg prems none

structure StepAx where
  rule : String
  arg : ArgAx
  prevs : List Nat
  stated : Option Thm := none
  deriving Repr, Inhabited

/-- `runScript` with the `theorem` / `variable` rules (which do not resolve `prevs`) and stated
sequents -/
def runScriptAx (axioms : List (String × Thm)) : List StepAx → List Thm → Except RErr (List Thm)
  | [], acc => .ok acc
  | s :: rest, acc =>
    if s.rule == "theorem" || s.rule == "variable" then
      match checkStepSt axioms s.rule s.arg [] s.stated with
      | .error e => .error e
      | .ok th => runScriptAx axioms rest (acc ++ [th])
    else
      match lookupPrems acc s.prevs with
      | .error e => .error e
      | .ok prems =>
        match checkStepSt axioms s.rule s.arg prems s.stated with
        | .error e => .error e
        | .ok th => runScriptAx axioms rest (acc ++ [th])

end Holpy
