import Holpy.Kernel.Sem
import Holpy.Kernel.BaseLogic
/-
Counter-model search used as the semantic oracle on sequents produced by the Python kernel:
enumerate (or sample) valuations of the atoms of a sequent in a given finite model and evaluate
`sem`.  Import-free, executable.  Not part of any theorem: it *uses* the `sem` the theorems are
about.
-/
namespace Holpy.Oracle
open Holpy

abbrev Atom := Nat × String × Ty

def atomsAcc : Term → List Atom → List Atom
  | .svar n T, acc => if acc.contains (0, n, T) then acc else acc ++ [(0, n, T)]
  | .var n T, acc => if acc.contains (1, n, T) then acc else acc ++ [(1, n, T)]
  | .const n T, acc =>
    if (logicalKind n T).isSome then acc
    else if acc.contains (2, n, T) then acc else acc ++ [(2, n, T)]
  | .comb f a, acc => atomsAcc a (atomsAcc f acc)
  | .abs _ _ b, acc => atomsAcc b acc
  | .bound _, acc => acc

def thmAtoms (th : Thm) : List Atom :=
  (th.hyps ++ [th.prop]).foldl (fun acc t => atomsAcc t acc) []

/-- sizes that bound the cost of evaluating a term: binder domains, `equals` carriers (n²),
`all` carriers (2ⁿ) -/
def costAcc (M : Model) : Term → Nat → Nat
  | .const n T, c =>
    match logicalKind n T with
    | some (0, a) => max c (M.size a * M.size a)
    | some (2, a) => max c (2 ^ (min (M.size a) 64))
    | _ => c
  | .comb f a, c => costAcc M a (costAcc M f c)
  | .abs _ T b, c => costAcc M b (max c (M.size T))
  | _, c => c

/-- `b ^ e` saturated at `cap + 1` without ever computing a huge power -/
def powC (b e cap : Nat) : Nat :=
  if e = 0 then 1
  else if b ≤ 1 then b
  else if e ≥ 64 then cap + 1
  else min (b ^ e) (cap + 1)

mutual
/-- `M.size T` saturated at `cap + 1` -/
def sizeC (M : Model) (cap : Nat) : Ty → Nat
  | .stvar n => min (M.stv n + 1) (cap + 1)
  | .tvar n => min (M.tv n + 1) (cap + 1)
  | .con n args =>
    let ss := sizeCList M cap args
    match n, ss with
    | "bool", [] => 2
    | "fun", [a, b] => powC b a cap
    | _, _ => min (M.con n ss + 1) (cap + 1)
def sizeCList (M : Model) (cap : Nat) : List Ty → List Nat
  | [] => []
  | a :: as => sizeC M cap a :: sizeCList M cap as
end

mutual
/-- every function type inside `T` has a domain of size ≤ cap (so `M.size T` is computable) -/
def domOK (M : Model) (cap : Nat) : Ty → Bool
  | .con n args =>
    (match n, args with
     | "fun", [a, _] => sizeC M cap a ≤ cap
     | _, _ => true) && domOKList M cap args
  | _ => true
def domOKList (M : Model) (cap : Nat) : List Ty → Bool
  | [] => true
  | a :: as => domOK M cap a && domOKList M cap as
end

/-- all types `sem` may ask the size of: annotations and lax types of subterms -/
def typesAcc (bd : List Ty) : Term → List Ty → List Ty
  | .svar _ T, acc | .var _ T, acc | .const _ T, acc => T :: acc
  | .comb f a, acc =>
    let acc := typesAcc bd a (typesAcc bd f acc)
    match Term.getType bd (.comb f a) with
    | .ok T => T :: acc
    | .error _ => acc
  | .abs x T b, acc =>
    let acc := typesAcc (T :: bd) b (T :: acc)
    match Term.getType bd (.abs x T b) with
    | .ok S => S :: acc
    | .error _ => acc
  | .bound _, acc => acc

structure Spec where
  stv : List (String × Nat)
  tv : List (String × Nat)
  con : List (String × Nat)
  dflt : Nat

def Spec.toModel (s : Spec) : Model where
  stv n := ((s.stv.lookup n).getD s.dflt) - 1
  tv n := ((s.tv.lookup n).getD s.dflt) - 1
  con n _ := ((s.con.lookup n).getD s.dflt) - 1

def valuationOf (asg : List (Atom × Nat)) : Valuation :=
  fun k n T => (asg.lookup (k, n, T)).getD 0

/-- mixed-radix decoding of `idx` over the atom sizes -/
def decode : List (Atom × Nat) → Nat → List (Atom × Nat)
  | [], _ => []
  | (a, s) :: rest, idx => (a, idx % s) :: decode rest (idx / s)

def lcg (x : Nat) : Nat := (x * 6364136223846793005 + 1442695040888963407) % (2 ^ 64)

def sample : List (Atom × Nat) → Nat → List (Atom × Nat) × Nat
  | [], st => ([], st)
  | (a, s) :: rest, st =>
    let st' := lcg st
    let (r, st'') := sample rest st'
    ((a, (st' / 65536) % s) :: r, st'')

def falsifies (M : Model) (th : Thm) (asg : List (Atom × Nat)) : Bool :=
  let ρ := valuationOf asg
  th.hyps.all (fun h => sem M ρ [] [] h == 1) && sem M ρ [] [] th.prop != 1

inductive Verdict where
  | valid (tried : Nat) (exhaustive : Bool)
  | cex (asg : List (Atom × Nat))
  | skip (why : String)

def search (M : Model) (th : Thm) (budget seed maxCost : Nat) : Verdict :=
  let terms := th.hyps ++ [th.prop]
  let tys := terms.foldl (fun acc t => typesAcc [] t acc) []
  if !(tys.all (domOK M maxCost)) then .skip "type too large"
  else
  let atoms := thmAtoms th
  if atoms.any (fun a => sizeC M maxCost a.2.2 > maxCost) then .skip "atom size"
  else
  let sized := atoms.map (fun a => (a, M.size a.2.2))
  let cost := terms.foldl (fun c t => costAcc M t c) 0
  if cost > maxCost then .skip s!"cost {cost}"
  else
    let total := sized.foldl (fun acc p => acc * p.2) 1
    if total ≤ budget then
      let rec go (i : Nat) (fuel : Nat) : Verdict :=
        match fuel with
        | 0 => .valid total true
        | fuel + 1 =>
          if i ≥ total then .valid total true
          else
            let asg := decode sized i
            if falsifies M th asg then .cex asg else go (i + 1) fuel
      go 0 (total + 1)
    else
      let rec gos (k : Nat) (st : Nat) : Verdict :=
        match k with
        | 0 => .valid budget false
        | k + 1 =>
          let (asg, st') := sample sized st
          if falsifies M th asg then .cex asg else gos k st'
      gos budget (seed + 1)

/-! ### standard valuations of the base logic (added for C01 with base-logic axioms)

`searchStd` looks for a counter-model among the valuations that interpret the base-logic
constants (`true false neg conj disj exists exists1 IF Some The _VAR`, at instances of their declared
types) by their standard codes (`stdConst`; `Some`/`The` = least witness, else 0): those atoms
are fixed, all other atoms are enumerated or sampled exactly as in `search`.  The same names at
other types are ordinary atoms. -/

/-- shape test, independent of the model -/
def isStdConst (n : String) (T : Ty) : Bool :=
  (stdConst ⟨fun _ => 0, fun _ => 0, fun _ _ => 0⟩ n T).isSome

/-- the atoms that stay free under a standard valuation -/
def freeAtomsStd (th : Thm) : List Atom :=
  (thmAtoms th).filter fun a => !(a.1 == 2 && isStdConst a.2.1 a.2.2)

/-- the base constants occurring in the sequent -/
def stdAtoms (th : Thm) : List Atom :=
  (thmAtoms th).filter fun a => a.1 == 2 && isStdConst a.2.1 a.2.2

/-- carrier of a base constant's type: `(a ⇒ _) ⇒ _` or `bool ⇒ a ⇒ _` -/
def stdCarrier (n : String) (T : Ty) : Option Ty :=
  match n, T with
  | "IF", .con "fun" [_, .con "fun" [a, _]] => some a
  | "_VAR", .con "fun" [a, _] => some a
  | _, .con "fun" [.con "fun" [a, _], _] => some a
  | _, _ => none

/-- work needed to build the code of a base constant (number of digits × work per digit) -/
def stdCost (M : Model) (cap : Nat) (a : Atom) : Nat :=
  match stdCarrier a.2.1 a.2.2 with
  | none => 1
  | some c =>
    let n := sizeC M cap c
    if n > cap then cap + 1
    else if a.2.1 == "IF" then 2 * n * n
    else if a.2.1 == "_VAR" then n
    else if n ≥ 32 then cap + 1
    else 2 ^ n * (n + 1) * (if a.2.1 == "exists1" then n + 1 else 1)

def searchStd (M : Model) (th : Thm) (budget seed maxCost : Nat) : Verdict :=
  let terms := th.hyps ++ [th.prop]
  let tys := terms.foldl (fun acc t => typesAcc [] t acc) []
  if !(tys.all (domOK M maxCost)) then .skip "type too large"
  else
  let atoms := freeAtomsStd th
  if atoms.any (fun a => sizeC M maxCost a.2.2 > maxCost) then .skip "atom size"
  else
  let std := stdAtoms th
  if std.any (fun a => stdCost M maxCost a > maxCost) then .skip "base constant too large"
  else
  let fixed : List (Atom × Nat) := std.map fun a => (a, (stdConst M a.2.1 a.2.2).getD 0)
  let sized := atoms.map (fun a => (a, M.size a.2.2))
  let cost := terms.foldl (fun c t => costAcc M t c) 0
  if cost > maxCost then .skip s!"cost {cost}"
  else
    let total := sized.foldl (fun acc p => acc * p.2) 1
    if total ≤ budget then
      let rec go (i : Nat) (fuel : Nat) : Verdict :=
        match fuel with
        | 0 => .valid total true
        | fuel + 1 =>
          if i ≥ total then .valid total true
          else
            let asg := decode sized i
            if falsifies M th (fixed ++ asg) then .cex asg else go (i + 1) fuel
      go 0 (total + 1)
    else
      let rec gos (k : Nat) (st : Nat) : Verdict :=
        match k with
        | 0 => .valid budget false
        | k + 1 =>
          let (asg, st') := sample sized st
          if falsifies M th (fixed ++ asg) then .cex asg else gos k st'
      gos budget (seed + 1)

end Holpy.Oracle
