import Holpy.Kernel.Sem
/-
Counter-model search used as the semantic oracle on sequents produced by the Python kernel:
enumerate (or sample) valuations of the atoms of a sequent in a given finite model and evaluate
`sem`.  Import-free, executable.  Not part of any theorem: it *uses* the `sem` the theorems are
about.
-/
namespace Holpy.Oracle
open Holpy

abbrev Atom := Nat × String × Ty

def atomsAcc : Term → List Atom → List Atom
  | .svar n T, acc => if acc.contains (0, n, T) then acc else acc ++ [(0, n, T)]
  | .var n T, acc => if acc.contains (1, n, T) then acc else acc ++ [(1, n, T)]
  | .const n T, acc =>
    if (logicalKind n T).isSome then acc
    else if acc.contains (2, n, T) then acc else acc ++ [(2, n, T)]
  | .comb f a, acc => atomsAcc a (atomsAcc f acc)
  | .abs _ _ b, acc => atomsAcc b acc
  | .bound _, acc => acc

def thmAtoms (th : Thm) : List Atom :=
  (th.hyps ++ [th.prop]).foldl (fun acc t => atomsAcc t acc) []

/-- sizes that bound the cost of evaluating a term: binder domains, `equals` carriers (n²),
`all` carriers (2ⁿ) -/
def costAcc (M : Model) : Term → Nat → Nat
  | .const n T, c =>
    match logicalKind n T with
    | some (0, a) => max c (M.size a * M.size a)
    | some (2, a) => max c (2 ^ (min (M.size a) 64))
    | _ => c
  | .comb f a, c => costAcc M a (costAcc M f c)
  | .abs _ T b, c => costAcc M b (max c (M.size T))
  | _, c => c

structure Spec where
  stv : List (String × Nat)
  tv : List (String × Nat)
  con : List (String × Nat)
  dflt : Nat

def Spec.toModel (s : Spec) : Model where
  stv n := ((s.stv.lookup n).getD s.dflt) - 1
  tv n := ((s.tv.lookup n).getD s.dflt) - 1
  con n _ := ((s.con.lookup n).getD s.dflt) - 1

def valuationOf (asg : List (Atom × Nat)) : Valuation :=
  fun k n T => (asg.lookup (k, n, T)).getD 0

/-- mixed-radix decoding of `idx` over the atom sizes -/
def decode : List (Atom × Nat) → Nat → List (Atom × Nat)
  | [], _ => []
  | (a, s) :: rest, idx => (a, idx % s) :: decode rest (idx / s)

def lcg (x : Nat) : Nat := (x * 6364136223846793005 + 1442695040888963407) % (2 ^ 64)

def sample : List (Atom × Nat) → Nat → List (Atom × Nat) × Nat
  | [], st => ([], st)
  | (a, s) :: rest, st =>
    let st' := lcg st
    let (r, st'') := sample rest st'
    ((a, (st' / 65536) % s) :: r, st'')

def falsifies (M : Model) (th : Thm) (asg : List (Atom × Nat)) : Bool :=
  let ρ := valuationOf asg
  th.hyps.all (fun h => sem M ρ [] [] h == 1) && sem M ρ [] [] th.prop != 1

inductive Verdict where
  | valid (tried : Nat) (exhaustive : Bool)
  | cex (asg : List (Atom × Nat))
  | skip (why : String)

def search (M : Model) (th : Thm) (budget seed maxCost : Nat) : Verdict :=
  let atoms := thmAtoms th
  let sized := atoms.map (fun a => (a, M.size a.2.2))
  let cost := (th.hyps ++ [th.prop]).foldl (fun c t => costAcc M t c) 0
  if cost > maxCost then .skip s!"cost {cost}"
  else if sized.any (fun p => p.2 > maxCost) then .skip "atom size"
  else
    let total := sized.foldl (fun acc p => acc * p.2) 1
    if total ≤ budget then
      let rec go (i : Nat) (fuel : Nat) : Verdict :=
        match fuel with
        | 0 => .valid total true
        | fuel + 1 =>
          if i ≥ total then .valid total true
          else
            let asg := decode sized i
            if falsifies M th asg then .cex asg else go (i + 1) fuel
      go 0 (total + 1)
    else
      let rec gos (k : Nat) (st : Nat) : Verdict :=
        match k with
        | 0 => .valid budget false
        | k + 1 =>
          let (asg, st') := sample sized st
          if falsifies M th asg then .cex asg else gos k st'
      gos budget (seed + 1)

end Holpy.Oracle
