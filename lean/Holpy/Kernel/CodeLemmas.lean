import Holpy.Kernel.Sem
/-
Lemmas about the Nat coding of finite functions (`lamCode`/`appCode`) and about the codes of the
three logical constants.  Pure arithmetic; no kernel content.
-/
namespace Holpy

/-- a numeral with `n` digits `< b` is `< b ^ n` -/
theorem lamCode_lt (g : Nat → Nat) (n b : Nat) (hg : ∀ v, v < n → g v < b) :
    lamCode g n b < b ^ n := by
  induction n with
  | zero => simp [lamCode]
  | succ n ih =>
    have ih' := ih (fun v hv => hg v (by omega))
    have hgn : g n + 1 ≤ b := hg n (by omega)
    have h1 : (g n + 1) * b ^ n ≤ b * b ^ n := Nat.mul_le_mul_right _ hgn
    rw [Nat.add_mul, Nat.one_mul] at h1
    show lamCode g n b + g n * b ^ n < b ^ (n + 1)
    rw [Nat.pow_succ, Nat.mul_comm (b ^ n) b]
    omega

/-- reading digit `v` of the numeral built from `g` gives `g v` -/
theorem appCode_lamCode (g : Nat → Nat) (n b v : Nat) (hv : v < n) (hg : ∀ u, u < n → g u < b) :
    appCode (lamCode g n b) v b = g v := by
  induction n with
  | zero => omega
  | succ n ih =>
    have hg' : ∀ u, u < n → g u < b := fun u hu => hg u (by omega)
    have hb : 0 < b := by have := hg v hv; omega
    show (lamCode g n b + g n * b ^ n) / b ^ v % b = g v
    by_cases hvn : v = n
    · subst hvn
      have hL := lamCode_lt g v b hg'
      have hpos : 0 < b ^ v := by omega
      rw [Nat.add_mul_div_right _ _ hpos, Nat.div_eq_of_lt hL, Nat.zero_add,
        Nat.mod_eq_of_lt (hg v hv)]
    · have hlt : v < n := by omega
      have ih' : lamCode g n b / b ^ v % b = g v := ih hlt hg'
      obtain ⟨k, rfl⟩ : ∃ k, n = v + k + 1 := ⟨n - v - 1, by omega⟩
      have hpos : 0 < b ^ v := Nat.pow_pos hb
      have e : g (v + k + 1) * b ^ (v + k + 1) = (g (v + k + 1) * b ^ k * b) * b ^ v := by
        rw [Nat.pow_succ, Nat.pow_add]
        ac_rfl
      rw [e, Nat.add_mul_div_right _ _ hpos, Nat.add_mul_mod_self_right]
      exact ih'

/-- the numeral only depends on the first `n` digits -/
theorem lamCode_congr (g g' : Nat → Nat) (n b : Nat) (h : ∀ v, v < n → g v = g' v) :
    lamCode g n b = lamCode g' n b := by
  induction n with
  | zero => rfl
  | succ n ih =>
    show lamCode g n b + g n * b ^ n = lamCode g' n b + g' n * b ^ n
    rw [ih (fun v hv => h v (by omega)), h n (by omega)]

/-- a digit is `< b` -/
theorem appCode_lt (f v b : Nat) (hb : 0 < b) : appCode f v b < b :=
  Nat.mod_lt _ hb

/-- the numeral of the first `n` digits of `f` is `f % b ^ n` -/
theorem lamCode_appCode_mod (f n b : Nat) :
    lamCode (fun v => appCode f v b) n b = f % b ^ n := by
  induction n with
  | zero => simp [lamCode, Nat.mod_one]
  | succ n ih =>
    show lamCode (fun v => appCode f v b) n b + (f / b ^ n % b) * b ^ n = f % b ^ (n + 1)
    rw [ih, Nat.mod_pow_succ, Nat.mul_comm (b ^ n)]

/-- every `f < b ^ n` is the numeral of its own digits -/
theorem lamCode_appCode (f n b : Nat) (hf : f < b ^ n) :
    lamCode (fun v => appCode f v b) n b = f := by
  rw [lamCode_appCode_mod, Nat.mod_eq_of_lt hf]

/-- extensionality: numerals `< b ^ n` with the same `n` digits are equal -/
theorem code_ext (f f' n b : Nat) (hf : f < b ^ n) (hf' : f' < b ^ n)
    (h : ∀ v, v < n → appCode f v b = appCode f' v b) : f = f' := by
  rw [← lamCode_appCode f n b hf, ← lamCode_appCode f' n b hf']
  exact lamCode_congr _ _ _ _ h

theorem ite_one_zero_lt_two (p : Prop) [Decidable p] : (if p then 1 else 0) < 2 := by
  split <;> omega

/-- `eqCode n` is a value of type `a ⇒ a ⇒ bool` when `|a| = n` -/
theorem eqCode_lt (n : Nat) : eqCode n < (2 ^ n) ^ n := by
  unfold eqCode
  apply lamCode_lt
  intro v _
  apply lamCode_lt
  intro u _
  exact ite_one_zero_lt_two _

/-- `equals x y` evaluates to 1 iff `x = y` -/
theorem appCode_eqCode (n x y : Nat) (hx : x < n) (hy : y < n) :
    appCode (appCode (eqCode n) x (2 ^ n)) y 2 = if x = y then 1 else 0 := by
  unfold eqCode
  rw [appCode_lamCode _ n (2 ^ n) x hx
    (fun u _ => lamCode_lt _ n 2 (fun w _ => ite_one_zero_lt_two _))]
  exact appCode_lamCode _ n 2 y hy (fun w _ => ite_one_zero_lt_two _)

theorem implCode_lt : implCode < 4 ^ 2 := by
  decide

/-- `implies x y` on booleans -/
theorem appCode_implCode (x y : Nat) (hx : x < 2) (hy : y < 2) :
    appCode (appCode implCode x 4) y 2 = if x = 1 ∧ y = 0 then 0 else 1 := by
  obtain rfl | rfl : x = 0 ∨ x = 1 := by omega
  all_goals
    obtain rfl | rfl : y = 0 ∨ y = 1 := by omega
    all_goals decide

theorem allCode_lt (n : Nat) : allCode n < 2 ^ (2 ^ n) := by
  unfold allCode
  apply lamCode_lt
  intro v _
  exact ite_one_zero_lt_two _

/-- the all-ones binary numeral -/
theorem lamCode_ones (n : Nat) : lamCode (fun _ => 1) n 2 = 2 ^ n - 1 := by
  induction n with
  | zero => rfl
  | succ n ih =>
    show lamCode (fun _ => 1) n 2 + 1 * 2 ^ n = 2 ^ (n + 1) - 1
    have hpos : 0 < 2 ^ n := Nat.pow_pos (by decide)
    rw [ih, Nat.pow_succ]
    omega

/-- `all f` is 1 iff every digit of the predicate code `f` is 1 -/
theorem appCode_allCode (n f : Nat) (hf : f < 2 ^ n) :
    appCode (allCode n) f 2 = 1 ↔ ∀ v, v < n → appCode f v 2 = 1 := by
  unfold allCode
  rw [appCode_lamCode _ (2 ^ n) 2 f hf (fun u _ => ite_one_zero_lt_two _)]
  have hpos : 0 < 2 ^ n := Nat.pow_pos (by decide)
  have hones : ∀ v, v < n → appCode (2 ^ n - 1) v 2 = 1 := by
    intro v hv
    rw [← lamCode_ones]
    exact appCode_lamCode (fun _ => 1) n 2 v hv (fun _ _ => by decide)
  constructor
  · intro h v hv
    have hfe : f = 2 ^ n - 1 := by
      by_cases hc : f = 2 ^ n - 1
      · exact hc
      · simp [hc] at h
    rw [hfe]
    exact hones v hv
  · intro h
    have hfe : f = 2 ^ n - 1 :=
      code_ext f (2 ^ n - 1) n 2 hf (by omega) (fun v hv => by rw [h v hv, hones v hv])
    simp [hfe]

theorem appCode_allCode_lt (n f : Nat) : appCode (allCode n) f 2 < 2 :=
  appCode_lt _ _ _ (by decide)

end Holpy
