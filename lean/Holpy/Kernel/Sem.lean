import Holpy.Kernel.Thm
/-
Shared kernel model — finite standard models of HOL, Nat-coded (DESIGN §2.2).  Import-free and
executable: the same `sem` is the object of the soundness theorems and the oracle that judges
sequents produced by the Python kernel.

* A model `M` gives every (schematic) type variable a size ≥ 1 (`stv n + 1`) and every type
  constructor a size function on the sizes of its arguments (`con n sizes + 1`);
  `|bool| = 2`, `|a ⇒ b| = |b| ^ |a|` (only for the genuine binary `fun`).
* A value of type `T` is a `Nat < |T|`.  A function `a ⇒ b` is the base-`|b|` numeral whose
  `v`-th digit is its value at `v` (`lamCode` / `appCode`).
* `equals` at `T ⇒ T ⇒ bool`, `implies` at `bool ⇒ bool ⇒ bool` and `all` at `(T ⇒ bool) ⇒ bool`
  have their standard meaning; every other constant (including these names at other types) and
  every free or schematic variable is read from the valuation `ρ kind name type`.
-/
namespace Holpy

/-- base-`b` numeral with digits `g 0 … g (n-1)` -/
def lamCode (g : Nat → Nat) : Nat → Nat → Nat
  | 0, _ => 0
  | n + 1, b => lamCode g n b + g n * b ^ n

/-- `v`-th base-`b` digit of `f` -/
def appCode (f v b : Nat) : Nat := (f / b ^ v) % b

structure Model where
  stv : String → Nat
  tv : String → Nat
  con : String → List Nat → Nat

namespace Model

/-- size of `TConst(n, args)` from the sizes of `args` -/
def conSize (M : Model) (n : String) (ss : List Nat) : Nat :=
  match n, ss with
  | "bool", [] => 2
  | "fun", [a, b] => b ^ a
  | _, _ => M.con n ss + 1

mutual
/-- number of values of a type -/
def size (M : Model) : Ty → Nat
  | .stvar n => M.stv n + 1
  | .tvar n => M.tv n + 1
  | .con n args => conSize M n (sizeList M args)
def sizeList (M : Model) : List Ty → List Nat
  | [] => []
  | a :: as => size M a :: sizeList M as
end

/-- the model in which a type substitution is undone: `size (M.pull σ) T = size M (T.subst σ)` -/
def pull (M : Model) (σ : Ty.TyInst) : Model :=
  { M with stv := fun n => size M (Ty.subst σ (.stvar n)) - 1 }

end Model

/-- valuation: kind 0 = schematic variable, 1 = variable, 2 = constant -/
abbrev Valuation := Nat → String → Ty → Nat

def eqCode (n : Nat) : Nat :=
  lamCode (fun x => lamCode (fun y => if x = y then 1 else 0) n 2) n (2 ^ n)

def implCode : Nat :=
  lamCode (fun x => lamCode (fun y => if x = 1 ∧ y = 0 then 0 else 1) 2 2) 2 4

def allCode (n : Nat) : Nat :=
  lamCode (fun f => if f = 2 ^ n - 1 then 1 else 0) (2 ^ n) 2

def constVal (M : Model) (ρ : Valuation) (name : String) (T : Ty) : Nat :=
  match logicalKind name T with
  | some (0, a) => eqCode (M.size a)
  | some (1, _) => implCode
  | some (_, a) => allCode (M.size a)
  | none => ρ 2 name T

/-- denotation; `bd`/`env` are the types / values of the enclosing bound variables -/
def sem (M : Model) (ρ : Valuation) : List Ty → List Nat → Term → Nat
  | _, _, .svar n T => ρ 0 n T
  | _, _, .var n T => ρ 1 n T
  | _, _, .const n T => constVal M ρ n T
  | bd, env, .comb f a =>
    match Term.getType bd f with
    | .ok tf =>
      match tf.range? with
      | some r => appCode (sem M ρ bd env f) (sem M ρ bd env a) (M.size r)
      | none => 0
    | .error _ => 0
  | bd, env, .abs _ T b =>
    match Term.getType (T :: bd) b with
    | .ok tb => lamCode (fun v => sem M ρ (T :: bd) (v :: env) b) (M.size T) (M.size tb)
    | .error _ => 0
  | _, env, .bound i => env[i]?.getD 0

def Admissible (M : Model) (ρ : Valuation) : Prop := ∀ k n T, ρ k n T < M.size T

/-- truth of a closed boolean term -/
def holds (M : Model) (ρ : Valuation) (t : Term) : Prop := sem M ρ [] [] t = 1

/-- `Γ ⊢ c` is valid in `M` -/
def Valid (M : Model) (th : Thm) : Prop :=
  ∀ ρ, Admissible M ρ → (∀ h ∈ th.hyps, holds M ρ h) → holds M ρ th.prop

/- `logicalKind`, `sigOK`, `Thm.sigOK` live in Kernel/Thm.lean (the checker's `check_thm_type` uses them). -/

end Holpy
