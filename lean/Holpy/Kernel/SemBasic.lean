import Holpy.Kernel.CodeLemmas
/-
Basic facts about `size`, `aeq`, typing and `sem`: sizes are positive, alpha-equivalent terms
have the same type and denotation, well-typed terms denote values of their type, and the three
logical constants mean what they should.
-/
namespace Holpy

/-- pointwise relation between two lists of the same length -/
inductive Forall2 {α β : Type} (R : α → β → Prop) : List α → List β → Prop
  | nil : Forall2 R [] []
  | cons {a b as bs} : R a b → Forall2 R as bs → Forall2 R (a :: as) (b :: bs)

/-- values of the bound variables fit their types -/
def EnvOK (M : Model) (bd : List Ty) (env : List Nat) : Prop :=
  Forall2 (fun T v => v < M.size T) bd env

theorem Model.conSize_pos (M : Model) (n : String) (ss : List Nat) (h : ∀ s ∈ ss, 0 < s) :
    0 < M.conSize n ss := by
  unfold Model.conSize
  split
  · omega
  · rename_i a b
    exact Nat.pow_pos (h b (by simp))
  · omega

mutual
theorem Model.size_pos_aux (M : Model) : ∀ T : Ty, 0 < M.size T
  | .stvar n => by simp [Model.size]
  | .tvar n => by simp [Model.size]
  | .con n args => by
    simp only [Model.size]
    exact Model.conSize_pos M n _ (Model.sizeList_pos_aux M args)
theorem Model.sizeList_pos_aux (M : Model) : ∀ l : List Ty, ∀ s ∈ M.sizeList l, 0 < s
  | [] => by simp [Model.sizeList]
  | a :: as => by
    intro s hs
    simp only [Model.sizeList, List.mem_cons] at hs
    rcases hs with rfl | hs
    · exact Model.size_pos_aux M a
    · exact Model.sizeList_pos_aux M as s hs
end

theorem Model.size_pos (M : Model) (T : Ty) : 0 < M.size T := Model.size_pos_aux M T

theorem Model.size_bool (M : Model) : M.size Ty.bool = 2 := by
  simp [Ty.bool, Model.size, Model.sizeList, Model.conSize]

theorem Model.size_fn (M : Model) (a b : Ty) : M.size (Ty.fn a b) = M.size b ^ M.size a := by
  simp [Ty.fn, Model.size, Model.sizeList, Model.conSize]

/-! ### alpha-equivalence -/

/-- `==` on terms is equality of name-erased terms -/
theorem Term.aeq_iff_erase (a b : Term) : Term.aeq a b = true ↔ Term.erase a = Term.erase b := by
  induction a generalizing b with
  | svar n T => cases b <;> simp [Term.aeq, Term.erase]
  | var n T => cases b <;> simp [Term.aeq, Term.erase]
  | const n T => cases b <;> simp [Term.aeq, Term.erase]
  | comb f a ihf iha => cases b <;> simp [Term.aeq, Term.erase, ihf, iha]
  | abs x T c ih => cases b <;> simp [Term.aeq, Term.erase, ih]
  | bound i => cases b <;> simp [Term.aeq, Term.erase]

theorem Term.aeq_refl (t : Term) : Term.aeq t t = true :=
  (Term.aeq_iff_erase t t).2 rfl

theorem Term.aeq_symm (a b : Term) (h : Term.aeq a b = true) : Term.aeq b a = true :=
  (Term.aeq_iff_erase b a).2 ((Term.aeq_iff_erase a b).1 h).symm

theorem Term.aeq_trans (a b c : Term) (h1 : Term.aeq a b = true) (h2 : Term.aeq b c = true) :
    Term.aeq a c = true :=
  (Term.aeq_iff_erase a c).2
    (((Term.aeq_iff_erase a b).1 h1).trans ((Term.aeq_iff_erase b c).1 h2))

theorem Term.getType_aeq (a b : Term) (h : Term.aeq a b = true) (bd : List Ty) :
    Term.getType bd a = Term.getType bd b := by
  induction a generalizing b bd with
  | svar n T => cases b <;> simp_all [Term.aeq, Term.getType]
  | var n T => cases b <;> simp_all [Term.aeq, Term.getType]
  | const n T => cases b <;> simp_all [Term.aeq, Term.getType]
  | comb f a ihf iha =>
    cases b <;> simp [Term.aeq] at h
    rename_i g c
    simp only [Term.getType, ihf g h.1 bd]
  | abs x T c ih =>
    cases b <;> simp [Term.aeq] at h
    rename_i y S d
    obtain ⟨rfl, h2⟩ := h
    simp only [Term.getType, ih d h2 (T :: bd)]
  | bound i => cases b <;> simp_all [Term.aeq, Term.getType]

theorem Term.checkedGetType_aeq (a b : Term) (h : Term.aeq a b = true) (bd : List Ty) :
    Term.checkedGetType bd a = Term.checkedGetType bd b := by
  induction a generalizing b bd with
  | svar n T => cases b <;> simp_all [Term.aeq, Term.checkedGetType]
  | var n T => cases b <;> simp_all [Term.aeq, Term.checkedGetType]
  | const n T => cases b <;> simp_all [Term.aeq, Term.checkedGetType]
  | comb f a ihf iha =>
    cases b <;> simp [Term.aeq] at h
    rename_i g c
    simp only [Term.checkedGetType, ihf g h.1 bd, iha c h.2 bd]
  | abs x T c ih =>
    cases b <;> simp [Term.aeq] at h
    rename_i y S d
    obtain ⟨rfl, h2⟩ := h
    simp only [Term.checkedGetType, ih d h2 (T :: bd)]
  | bound i => cases b <;> simp_all [Term.aeq, Term.checkedGetType]

theorem sem_aeq (M : Model) (ρ : Valuation) (a b : Term) (h : Term.aeq a b = true)
    (bd : List Ty) (env : List Nat) : sem M ρ bd env a = sem M ρ bd env b := by
  induction a generalizing b bd env with
  | svar n T => cases b <;> simp_all [Term.aeq, sem]
  | var n T => cases b <;> simp_all [Term.aeq, sem]
  | const n T => cases b <;> simp_all [Term.aeq, sem]
  | comb f a ihf iha =>
    cases b <;> simp [Term.aeq] at h
    rename_i g c
    simp only [sem, ihf g h.1 bd env, iha c h.2 bd env, Term.getType_aeq f g h.1 bd]
  | abs x T c ih =>
    cases b <;> simp [Term.aeq] at h
    rename_i y S d
    obtain ⟨rfl, h2⟩ := h
    simp only [sem, Term.getType_aeq c d h2 (T :: bd), ih d h2]
  | bound i => cases b <;> simp_all [Term.aeq, sem]

theorem sigOK_aeq (a b : Term) (h : Term.aeq a b = true) : sigOK a = sigOK b := by
  induction a generalizing b with
  | svar n T => cases b <;> simp_all [Term.aeq, sigOK]
  | var n T => cases b <;> simp_all [Term.aeq, sigOK]
  | const n T => cases b <;> simp_all [Term.aeq, sigOK]
  | comb f a ihf iha =>
    cases b <;> simp [Term.aeq] at h
    rename_i g c
    simp only [sigOK, ihf g h.1, iha c h.2]
  | abs x T c ih =>
    cases b <;> simp [Term.aeq] at h
    rename_i y S d
    simp only [sigOK, ih d h.2]
  | bound i => cases b <;> simp_all [Term.aeq, sigOK]

/-! ### typing -/

/-- the lax type agrees with the checked type whenever the term type-checks -/
theorem Term.getType_of_checked (bd : List Ty) (t : Term) (T : Ty)
    (h : Term.checkedGetType bd t = .ok T) : Term.getType bd t = .ok T := by
  sorry

/-- a term that type-checks in `bd` has no loose bound variable beyond `bd` -/
theorem Term.closed_of_checked (bd : List Ty) (t : Term) (T : Ty)
    (h : Term.checkedGetType bd t = .ok T) : Term.isOpenAt bd.length t = false := by
  sorry

/-- the value of a logical or uninterpreted constant fits its type -/
theorem constVal_lt (M : Model) (ρ : Valuation) (hρ : Admissible M ρ) (n : String) (T : Ty) :
    constVal M ρ n T < M.size T := by
  sorry

/-- type soundness of the denotation -/
theorem sem_lt (M : Model) (ρ : Valuation) (hρ : Admissible M ρ) (bd : List Ty) (env : List Nat)
    (henv : EnvOK M bd env) (t : Term) (T : Ty) (h : Term.checkedGetType bd t = .ok T) :
    sem M ρ bd env t < M.size T := by
  sorry

/-- a closed term does not look at the environment -/
theorem sem_closed (M : Model) (ρ : Valuation) (t : Term) (T : Ty)
    (h : Term.checkedGetType [] t = .ok T) (bd : List Ty) (env : List Nat) :
    sem M ρ bd env t = sem M ρ [] [] t := by
  sorry

theorem Term.checkedGetType_closed (t : Term) (T : Ty)
    (h : Term.checkedGetType [] t = .ok T) (bd : List Ty) : Term.checkedGetType bd t = .ok T := by
  sorry

/-! ### the logical constants -/

theorem sem_implies (M : Model) (ρ : Valuation) (bd : List Ty) (env : List Nat) (a b : Term)
    (ha : sem M ρ bd env a < 2) (hb : sem M ρ bd env b < 2) :
    sem M ρ bd env (Term.mkImplies a b)
      = if sem M ρ bd env a = 1 ∧ sem M ρ bd env b = 0 then 0 else 1 := by
  sorry

theorem sem_equals (M : Model) (ρ : Valuation) (bd : List Ty) (env : List Nat) (T : Ty) (s u : Term)
    (hs : sem M ρ bd env s < M.size T) (hu : sem M ρ bd env u < M.size T) :
    sem M ρ bd env (.comb (.comb (.const "equals" (Ty.fn T (Ty.fn T Ty.bool))) s) u)
      = if sem M ρ bd env s = sem M ρ bd env u then 1 else 0 := by
  sorry

theorem sem_all (M : Model) (ρ : Valuation) (bd : List Ty) (env : List Nat) (T : Ty) (p : Term)
    (hp : sem M ρ bd env p < 2 ^ M.size T) :
    sem M ρ bd env (.comb (.const "all" (Ty.fn (Ty.fn T Ty.bool) Ty.bool)) p) = 1
      ↔ ∀ v, v < M.size T → appCode (sem M ρ bd env p) v 2 = 1 := by
  sorry

/-- the denotation of an abstraction, applied -/
theorem appCode_sem_abs (M : Model) (ρ : Valuation) (hρ : Admissible M ρ) (bd : List Ty)
    (env : List Nat) (henv : EnvOK M bd env) (x : String) (T tb : Ty) (b : Term)
    (hb : Term.checkedGetType (T :: bd) b = .ok tb) (v : Nat) (hv : v < M.size T) :
    appCode (sem M ρ bd env (.abs x T b)) v (M.size tb) = sem M ρ (T :: bd) (v :: env) b := by
  sorry

end Holpy
