import Holpy.Kernel.CodeLemmas
/-
Basic facts about `size`, `aeq`, typing and `sem`: sizes are positive, alpha-equivalent terms
have the same type and denotation, well-typed terms denote values of their type, and the three
logical constants mean what they should.
-/
namespace Holpy

/-- pointwise relation between two lists of the same length -/
inductive Forall2 {α β : Type} (R : α → β → Prop) : List α → List β → Prop
  | nil : Forall2 R [] []
  | cons {a b as bs} : R a b → Forall2 R as bs → Forall2 R (a :: as) (b :: bs)

/-- values of the bound variables fit their types -/
def EnvOK (M : Model) (bd : List Ty) (env : List Nat) : Prop :=
  Forall2 (fun T v => v < M.size T) bd env

theorem Model.conSize_pos (M : Model) (n : String) (ss : List Nat) (h : ∀ s ∈ ss, 0 < s) :
    0 < M.conSize n ss := by
  unfold Model.conSize
  split
  · omega
  · rename_i a b
    exact Nat.pow_pos (h b (by simp))
  · omega

mutual
theorem Model.size_pos_aux (M : Model) : ∀ T : Ty, 0 < M.size T
  | .stvar n => by simp [Model.size]
  | .tvar n => by simp [Model.size]
  | .con n args => by
    simp only [Model.size]
    exact Model.conSize_pos M n _ (Model.sizeList_pos_aux M args)
theorem Model.sizeList_pos_aux (M : Model) : ∀ l : List Ty, ∀ s ∈ M.sizeList l, 0 < s
  | [] => by simp [Model.sizeList]
  | a :: as => by
    intro s hs
    simp only [Model.sizeList, List.mem_cons] at hs
    rcases hs with rfl | hs
    · exact Model.size_pos_aux M a
    · exact Model.sizeList_pos_aux M as s hs
end

theorem Model.size_pos (M : Model) (T : Ty) : 0 < M.size T := Model.size_pos_aux M T

theorem Model.size_bool (M : Model) : M.size Ty.bool = 2 := by
  simp [Ty.bool, Model.size, Model.sizeList, Model.conSize]

theorem Model.size_fn (M : Model) (a b : Ty) : M.size (Ty.fn a b) = M.size b ^ M.size a := by
  simp [Ty.fn, Model.size, Model.sizeList, Model.conSize]

/-! ### alpha-equivalence -/

/-- `==` on terms is equality of name-erased terms -/
theorem Term.aeq_iff_erase (a b : Term) : Term.aeq a b = true ↔ Term.erase a = Term.erase b := by
  induction a generalizing b with
  | svar n T => cases b <;> simp [Term.aeq, Term.erase]
  | var n T => cases b <;> simp [Term.aeq, Term.erase]
  | const n T => cases b <;> simp [Term.aeq, Term.erase]
  | comb f a ihf iha => cases b <;> simp [Term.aeq, Term.erase, ihf, iha]
  | abs x T c ih => cases b <;> simp [Term.aeq, Term.erase, ih]
  | bound i => cases b <;> simp [Term.aeq, Term.erase]

theorem Term.aeq_refl (t : Term) : Term.aeq t t = true :=
  (Term.aeq_iff_erase t t).2 rfl

theorem Term.aeq_symm (a b : Term) (h : Term.aeq a b = true) : Term.aeq b a = true :=
  (Term.aeq_iff_erase b a).2 ((Term.aeq_iff_erase a b).1 h).symm

theorem Term.aeq_trans (a b c : Term) (h1 : Term.aeq a b = true) (h2 : Term.aeq b c = true) :
    Term.aeq a c = true :=
  (Term.aeq_iff_erase a c).2
    (((Term.aeq_iff_erase a b).1 h1).trans ((Term.aeq_iff_erase b c).1 h2))

theorem Term.getType_aeq (a b : Term) (h : Term.aeq a b = true) (bd : List Ty) :
    Term.getType bd a = Term.getType bd b := by
  induction a generalizing b bd with
  | svar n T => cases b <;> simp_all [Term.aeq, Term.getType]
  | var n T => cases b <;> simp_all [Term.aeq, Term.getType]
  | const n T => cases b <;> simp_all [Term.aeq, Term.getType]
  | comb f a ihf iha =>
    cases b <;> simp [Term.aeq] at h
    rename_i g c
    simp only [Term.getType, ihf g h.1 bd]
  | abs x T c ih =>
    cases b <;> simp [Term.aeq] at h
    rename_i y S d
    obtain ⟨rfl, h2⟩ := h
    simp only [Term.getType, ih d h2 (T :: bd)]
  | bound i => cases b <;> simp_all [Term.aeq, Term.getType]

theorem Term.checkedGetType_aeq (a b : Term) (h : Term.aeq a b = true) (bd : List Ty) :
    Term.checkedGetType bd a = Term.checkedGetType bd b := by
  induction a generalizing b bd with
  | svar n T => cases b <;> simp_all [Term.aeq, Term.checkedGetType]
  | var n T => cases b <;> simp_all [Term.aeq, Term.checkedGetType]
  | const n T => cases b <;> simp_all [Term.aeq, Term.checkedGetType]
  | comb f a ihf iha =>
    cases b <;> simp [Term.aeq] at h
    rename_i g c
    simp only [Term.checkedGetType, ihf g h.1 bd, iha c h.2 bd]
  | abs x T c ih =>
    cases b <;> simp [Term.aeq] at h
    rename_i y S d
    obtain ⟨rfl, h2⟩ := h
    simp only [Term.checkedGetType, ih d h2 (T :: bd)]
  | bound i => cases b <;> simp_all [Term.aeq, Term.checkedGetType]

theorem sem_aeq (M : Model) (ρ : Valuation) (a b : Term) (h : Term.aeq a b = true)
    (bd : List Ty) (env : List Nat) : sem M ρ bd env a = sem M ρ bd env b := by
  induction a generalizing b bd env with
  | svar n T => cases b <;> simp_all [Term.aeq, sem]
  | var n T => cases b <;> simp_all [Term.aeq, sem]
  | const n T => cases b <;> simp_all [Term.aeq, sem]
  | comb f a ihf iha =>
    cases b <;> simp [Term.aeq] at h
    rename_i g c
    simp only [sem, ihf g h.1 bd env, iha c h.2 bd env, Term.getType_aeq f g h.1 bd]
  | abs x T c ih =>
    cases b <;> simp [Term.aeq] at h
    rename_i y S d
    obtain ⟨rfl, h2⟩ := h
    simp only [sem, Term.getType_aeq c d h2 (T :: bd), ih d h2]
  | bound i => cases b <;> simp_all [Term.aeq, sem]

theorem sigOK_aeq (a b : Term) (h : Term.aeq a b = true) : sigOK a = sigOK b := by
  induction a generalizing b with
  | svar n T => cases b <;> simp_all [Term.aeq, sigOK]
  | var n T => cases b <;> simp_all [Term.aeq, sigOK]
  | const n T => cases b <;> simp_all [Term.aeq, sigOK]
  | comb f a ihf iha =>
    cases b <;> simp [Term.aeq] at h
    rename_i g c
    simp only [sigOK, ihf g h.1, iha c h.2]
  | abs x T c ih =>
    cases b <;> simp [Term.aeq] at h
    rename_i y S d
    simp only [sigOK, ih d h.2]
  | bound i => cases b <;> simp_all [Term.aeq, sigOK]

/-! ### typing -/

/-- inversion of `checkedGetType` on an application -/
theorem Term.checkedGetType_comb_inv (bd : List Ty) (f a : Term) (T : Ty)
    (h : Term.checkedGetType bd (.comb f a) = .ok T) :
    ∃ tf ta, Term.checkedGetType bd f = .ok tf ∧ Term.checkedGetType bd a = .ok ta ∧
      tf.isFun = true ∧ tf.domain? = some ta ∧ tf.range? = some T := by
  simp only [Term.checkedGetType, bind, Except.bind] at h
  cases hf : Term.checkedGetType bd f with
  | error e => rw [hf] at h; cases h
  | ok tf =>
    cases ha : Term.checkedGetType bd a with
    | error e => rw [hf, ha] at h; cases h
    | ok ta =>
      rw [hf, ha] at h
      simp only at h
      cases hfun : tf.isFun with
      | false => simp [hfun] at h
      | true =>
        cases hd : tf.domain? with
        | none => simp [hfun, hd] at h
        | some d =>
          cases hr : tf.range? with
          | none =>
            simp only [hfun, hd, hr] at h
            by_cases hdt : d = ta <;> simp [hdt] at h
          | some r =>
            simp only [hfun, hd, hr] at h
            by_cases hdt : d = ta
            · subst hdt
              simp at h
              exact ⟨tf, d, rfl, rfl, hfun, hd, by rw [hr, h]⟩
            · simp [hdt] at h

/-- inversion of `checkedGetType` on an abstraction -/
theorem Term.checkedGetType_abs_inv (bd : List Ty) (x : String) (S : Ty) (b : Term) (T : Ty)
    (h : Term.checkedGetType bd (.abs x S b) = .ok T) :
    ∃ tb, Term.checkedGetType (S :: bd) b = .ok tb ∧ T = Ty.fn S tb := by
  simp only [Term.checkedGetType, bind, Except.bind] at h
  cases hb : Term.checkedGetType (S :: bd) b with
  | error e => rw [hb] at h; cases h
  | ok tb =>
    rw [hb] at h
    simp only [Except.ok.injEq] at h
    exact ⟨tb, rfl, h.symm⟩

/-- inversion of `checkedGetType` on a bound variable -/
theorem Term.checkedGetType_bound_inv (bd : List Ty) (i : Nat) (T : Ty)
    (h : Term.checkedGetType bd (.bound i) = .ok T) : bd[i]? = some T := by
  simp only [Term.checkedGetType] at h
  split at h
  · simp only [Except.ok.injEq] at h; subst h; assumption
  · cases h

/-- the lax type agrees with the checked type whenever the term type-checks -/
theorem Term.getType_of_checked (bd : List Ty) (t : Term) (T : Ty)
    (h : Term.checkedGetType bd t = .ok T) : Term.getType bd t = .ok T := by
  induction t generalizing bd T with
  | svar n S => simpa [Term.checkedGetType, Term.getType] using h
  | var n S => simpa [Term.checkedGetType, Term.getType] using h
  | const n S => simpa [Term.checkedGetType, Term.getType] using h
  | comb f a ihf iha =>
    obtain ⟨tf, ta, hf, ha, hfun, hd, hr⟩ := Term.checkedGetType_comb_inv bd f a T h
    simp [Term.getType, ihf bd tf hf, bind, Except.bind, hfun, hr]
  | abs x S b ih =>
    obtain ⟨tb, hb, rfl⟩ := Term.checkedGetType_abs_inv bd x S b T h
    simp [Term.getType, ih (S :: bd) tb hb, bind, Except.bind]
  | bound i =>
    have := Term.checkedGetType_bound_inv bd i T h
    simp [Term.getType, this]

/-- a term that type-checks in `bd` has no loose bound variable beyond `bd` -/
theorem Term.closed_of_checked (bd : List Ty) (t : Term) (T : Ty)
    (h : Term.checkedGetType bd t = .ok T) : Term.isOpenAt bd.length t = false := by
  induction t generalizing bd T with
  | svar n S => simp [Term.isOpenAt]
  | var n S => simp [Term.isOpenAt]
  | const n S => simp [Term.isOpenAt]
  | comb f a ihf iha =>
    obtain ⟨tf, ta, hf, ha, hfun, hd, hr⟩ := Term.checkedGetType_comb_inv bd f a T h
    simp [Term.isOpenAt, ihf bd tf hf, iha bd ta ha]
  | abs x S b ih =>
    obtain ⟨tb, hb, rfl⟩ := Term.checkedGetType_abs_inv bd x S b T h
    have := ih (S :: bd) tb hb
    simpa [Term.isOpenAt] using this
  | bound i =>
    have := Term.checkedGetType_bound_inv bd i T h
    have hlt : i < bd.length := by
      rcases Nat.lt_or_ge i bd.length with hl | hl
      · exact hl
      · rw [List.getElem?_eq_none hl] at this; cases this
    simp [Term.isOpenAt, hlt]

/-- the shape of the type at which a constant is logical -/
theorem logicalKind_eq_some (n : String) (T : Ty) (k : Nat) (a : Ty)
    (h : logicalKind n T = some (k, a)) :
    (k = 0 ∧ n = "equals" ∧ T = Ty.fn a (Ty.fn a Ty.bool)) ∨
    (k = 1 ∧ n = "implies" ∧ T = Ty.fn Ty.bool (Ty.fn Ty.bool Ty.bool)) ∨
    (k = 2 ∧ n = "all" ∧ T = Ty.fn (Ty.fn a Ty.bool) Ty.bool) := by
  unfold logicalKind at h
  split at h
  · rename_i b b'
    by_cases hb : b = b'
    · subst hb
      simp only [if_true, Option.some.injEq, Prod.mk.injEq] at h
      obtain ⟨rfl, rfl⟩ := h
      exact Or.inl ⟨rfl, rfl, rfl⟩
    · simp [hb] at h
  · simp only [Option.some.injEq, Prod.mk.injEq] at h
    obtain ⟨rfl, rfl⟩ := h
    exact Or.inr (Or.inl ⟨rfl, rfl, rfl⟩)
  · simp only [Option.some.injEq, Prod.mk.injEq] at h
    obtain ⟨rfl, rfl⟩ := h
    exact Or.inr (Or.inr ⟨rfl, rfl, rfl⟩)
  · cases h

theorem logicalKind_equals (T : Ty) :
    logicalKind "equals" (Ty.fn T (Ty.fn T Ty.bool)) = some (0, T) := by
  simp [logicalKind, Ty.fn, Ty.bool]

theorem logicalKind_implies :
    logicalKind "implies" (Ty.fn Ty.bool (Ty.fn Ty.bool Ty.bool)) = some (1, Ty.bool) := by
  simp [logicalKind, Ty.fn, Ty.bool]

theorem logicalKind_all (T : Ty) :
    logicalKind "all" (Ty.fn (Ty.fn T Ty.bool) Ty.bool) = some (2, T) := by
  simp [logicalKind, Ty.fn, Ty.bool]

theorem constVal_equals (M : Model) (ρ : Valuation) (T : Ty) :
    constVal M ρ "equals" (Ty.fn T (Ty.fn T Ty.bool)) = eqCode (M.size T) := by
  simp only [constVal, logicalKind_equals]

theorem constVal_implies (M : Model) (ρ : Valuation) :
    constVal M ρ "implies" (Ty.fn Ty.bool (Ty.fn Ty.bool Ty.bool)) = implCode := by
  simp only [constVal, logicalKind_implies]

theorem constVal_all (M : Model) (ρ : Valuation) (T : Ty) :
    constVal M ρ "all" (Ty.fn (Ty.fn T Ty.bool) Ty.bool) = allCode (M.size T) := by
  simp only [constVal, logicalKind_all]

/-- the value of a logical or uninterpreted constant fits its type -/
theorem constVal_lt (M : Model) (ρ : Valuation) (hρ : Admissible M ρ) (n : String) (T : Ty) :
    constVal M ρ n T < M.size T := by
  cases hk : logicalKind n T with
  | none =>
    simp only [constVal, hk]
    exact hρ 2 n T
  | some p =>
    obtain ⟨k, a⟩ := p
    rcases logicalKind_eq_some n T k a hk with ⟨rfl, rfl, rfl⟩ | ⟨rfl, rfl, rfl⟩ | ⟨rfl, rfl, rfl⟩
    · rw [constVal_equals]
      simp only [Model.size_fn, Model.size_bool]
      exact eqCode_lt _
    · rw [constVal_implies]
      simp only [Model.size_fn, Model.size_bool]
      exact implCode_lt
    · rw [constVal_all]
      simp only [Model.size_fn, Model.size_bool]
      exact allCode_lt _

theorem EnvOK.length_eq {M : Model} {bd : List Ty} {env : List Nat} (h : EnvOK M bd env) :
    bd.length = env.length := by
  unfold EnvOK at h
  induction h with
  | nil => rfl
  | cons _ _ ih => simp [ih]

theorem EnvOK.cons {M : Model} {bd : List Ty} {env : List Nat} (h : EnvOK M bd env)
    {T : Ty} {v : Nat} (hv : v < M.size T) : EnvOK M (T :: bd) (v :: env) :=
  Forall2.cons hv h

theorem EnvOK.nil (M : Model) : EnvOK M [] [] := Forall2.nil

theorem EnvOK.get {M : Model} {bd : List Ty} {env : List Nat} (h : EnvOK M bd env)
    (i : Nat) (T : Ty) (hT : bd[i]? = some T) : env[i]?.getD 0 < M.size T := by
  unfold EnvOK at h
  induction h generalizing i with
  | nil => simp at hT
  | cons hab _ ih =>
    cases i with
    | zero =>
      simp only [List.getElem?_cons_zero, Option.some.injEq] at hT
      subst hT
      simpa using hab
    | succ j =>
      simp only [List.getElem?_cons_succ] at hT ⊢
      exact ih j hT

/-- type soundness of the denotation -/
theorem sem_lt (M : Model) (ρ : Valuation) (hρ : Admissible M ρ) (bd : List Ty) (env : List Nat)
    (henv : EnvOK M bd env) (t : Term) (T : Ty) (h : Term.checkedGetType bd t = .ok T) :
    sem M ρ bd env t < M.size T := by
  induction t generalizing bd env T with
  | svar n S =>
    simp only [Term.checkedGetType, Except.ok.injEq] at h
    subst h
    exact hρ 0 n S
  | var n S =>
    simp only [Term.checkedGetType, Except.ok.injEq] at h
    subst h
    exact hρ 1 n S
  | const n S =>
    simp only [Term.checkedGetType, Except.ok.injEq] at h
    subst h
    exact constVal_lt M ρ hρ n S
  | comb f a ihf iha =>
    obtain ⟨tf, ta, hf, ha, hfun, hd, hr⟩ := Term.checkedGetType_comb_inv bd f a T h
    simp only [sem, Term.getType_of_checked bd f tf hf, hr]
    exact appCode_lt _ _ _ (Model.size_pos M T)
  | abs x S b ih =>
    obtain ⟨tb, hb, rfl⟩ := Term.checkedGetType_abs_inv bd x S b T h
    simp only [sem, Term.getType_of_checked (S :: bd) b tb hb, Model.size_fn]
    apply lamCode_lt
    intro v hv
    exact ih (S :: bd) (v :: env) (henv.cons hv) tb hb
  | bound i =>
    have hi := Term.checkedGetType_bound_inv bd i T h
    simp only [sem]
    exact henv.get i T hi

/-- a term that type-checks in a prefix of the context keeps its checked type -/
theorem Term.checkedGetType_append (bd0 : List Ty) (t : Term) (T : Ty)
    (h : Term.checkedGetType bd0 t = .ok T) (bd : List Ty) :
    Term.checkedGetType (bd0 ++ bd) t = .ok T := by
  induction t generalizing bd0 T with
  | svar n S => simpa [Term.checkedGetType] using h
  | var n S => simpa [Term.checkedGetType] using h
  | const n S => simpa [Term.checkedGetType] using h
  | comb f a ihf iha =>
    obtain ⟨tf, ta, hf, ha, hfun, hd, hr⟩ := Term.checkedGetType_comb_inv bd0 f a T h
    simp [Term.checkedGetType, ihf bd0 tf hf, iha bd0 ta ha, bind, Except.bind, hfun, hd, hr]
  | abs x S b ih =>
    obtain ⟨tb, hb, rfl⟩ := Term.checkedGetType_abs_inv bd0 x S b T h
    have := ih (S :: bd0) tb hb
    simp only [List.cons_append] at this
    simp [Term.checkedGetType, this, bind, Except.bind]
  | bound i =>
    have hi := Term.checkedGetType_bound_inv bd0 i T h
    have hlt : i < bd0.length := by
      rcases Nat.lt_or_ge i bd0.length with hl | hl
      · exact hl
      · rw [List.getElem?_eq_none hl] at hi; cases hi
    simp [Term.checkedGetType, List.getElem?_append_left hlt, hi]

/-- a term that type-checks in a prefix of the context only looks at that prefix -/
theorem sem_append (M : Model) (ρ : Valuation) (bd0 : List Ty) (env0 : List Nat)
    (hlen : bd0.length = env0.length) (t : Term) (T : Ty)
    (h : Term.checkedGetType bd0 t = .ok T) (bd : List Ty) (env : List Nat) :
    sem M ρ (bd0 ++ bd) (env0 ++ env) t = sem M ρ bd0 env0 t := by
  induction t generalizing bd0 env0 T with
  | svar n S => simp [sem]
  | var n S => simp [sem]
  | const n S => simp [sem]
  | comb f a ihf iha =>
    obtain ⟨tf, ta, hf, ha, hfun, hd, hr⟩ := Term.checkedGetType_comb_inv bd0 f a T h
    simp only [sem, Term.getType_of_checked _ f tf (Term.checkedGetType_append bd0 f tf hf bd),
      Term.getType_of_checked bd0 f tf hf, ihf bd0 env0 hlen tf hf, iha bd0 env0 hlen ta ha]
  | abs x S b ih =>
    obtain ⟨tb, hb, rfl⟩ := Term.checkedGetType_abs_inv bd0 x S b T h
    have h1 := Term.getType_of_checked _ b tb (Term.checkedGetType_append (S :: bd0) b tb hb bd)
    simp only [List.cons_append] at h1
    simp only [sem, h1, Term.getType_of_checked (S :: bd0) b tb hb]
    apply lamCode_congr
    intro v _
    have := ih (S :: bd0) (v :: env0) (by simp [hlen]) tb hb
    simpa only [List.cons_append] using this
  | bound i =>
    have hi := Term.checkedGetType_bound_inv bd0 i T h
    have hlt : i < env0.length := by
      rw [← hlen]
      rcases Nat.lt_or_ge i bd0.length with hl | hl
      · exact hl
      · rw [List.getElem?_eq_none hl] at hi; cases hi
    simp [sem, List.getElem?_append_left hlt]

/-- a closed term does not look at the environment -/
theorem sem_closed (M : Model) (ρ : Valuation) (t : Term) (T : Ty)
    (h : Term.checkedGetType [] t = .ok T) (bd : List Ty) (env : List Nat) :
    sem M ρ bd env t = sem M ρ [] [] t := by
  simpa using sem_append M ρ [] [] rfl t T h bd env

theorem Term.checkedGetType_closed (t : Term) (T : Ty)
    (h : Term.checkedGetType [] t = .ok T) (bd : List Ty) : Term.checkedGetType bd t = .ok T := by
  simpa using Term.checkedGetType_append [] t T h bd

/-! ### the logical constants -/

theorem Ty.isFun_fn (a b : Ty) : (Ty.fn a b).isFun = true := rfl
theorem Ty.domain?_fn (a b : Ty) : (Ty.fn a b).domain? = some a := rfl
theorem Ty.range?_fn (a b : Ty) : (Ty.fn a b).range? = some b := rfl

/-- the lax type of `c a` for a constant `c` of function type -/
theorem Term.getType_comb_const (bd : List Ty) (n : String) (A B : Ty) (a : Term) :
    Term.getType bd (.comb (.const n (Ty.fn A B)) a) = .ok B := by
  simp [Term.getType, bind, Except.bind, Ty.isFun_fn, Ty.range?_fn]

/-- the denotation of a constant of function type applied to one argument -/
theorem sem_comb_const (M : Model) (ρ : Valuation) (bd : List Ty) (env : List Nat) (n : String)
    (A B : Ty) (a : Term) :
    sem M ρ bd env (.comb (.const n (Ty.fn A B)) a)
      = appCode (constVal M ρ n (Ty.fn A B)) (sem M ρ bd env a) (M.size B) := by
  simp only [sem, Term.getType, Ty.range?_fn]

/-- the denotation of a constant of binary function type applied to two arguments -/
theorem sem_comb_const2 (M : Model) (ρ : Valuation) (bd : List Ty) (env : List Nat) (n : String)
    (A B C : Ty) (a b : Term) :
    sem M ρ bd env (.comb (.comb (.const n (Ty.fn A (Ty.fn B C))) a) b)
      = appCode (appCode (constVal M ρ n (Ty.fn A (Ty.fn B C))) (sem M ρ bd env a)
          (M.size (Ty.fn B C))) (sem M ρ bd env b) (M.size C) := by
  rw [sem, Term.getType_comb_const]
  simp only [Ty.range?_fn, sem_comb_const]

theorem sem_implies (M : Model) (ρ : Valuation) (bd : List Ty) (env : List Nat) (a b : Term)
    (ha : sem M ρ bd env a < 2) (hb : sem M ρ bd env b < 2) :
    sem M ρ bd env (Term.mkImplies a b)
      = if sem M ρ bd env a = 1 ∧ sem M ρ bd env b = 0 then 0 else 1 := by
  rw [Term.mkImplies, sem_comb_const2, constVal_implies, Model.size_fn, Model.size_bool]
  exact appCode_implCode _ _ ha hb

theorem sem_equals (M : Model) (ρ : Valuation) (bd : List Ty) (env : List Nat) (T : Ty) (s u : Term)
    (hs : sem M ρ bd env s < M.size T) (hu : sem M ρ bd env u < M.size T) :
    sem M ρ bd env (.comb (.comb (.const "equals" (Ty.fn T (Ty.fn T Ty.bool))) s) u)
      = if sem M ρ bd env s = sem M ρ bd env u then 1 else 0 := by
  rw [sem_comb_const2, constVal_equals, Model.size_fn, Model.size_bool]
  exact appCode_eqCode _ _ _ hs hu

theorem sem_all (M : Model) (ρ : Valuation) (bd : List Ty) (env : List Nat) (T : Ty) (p : Term)
    (hp : sem M ρ bd env p < 2 ^ M.size T) :
    sem M ρ bd env (.comb (.const "all" (Ty.fn (Ty.fn T Ty.bool) Ty.bool)) p) = 1
      ↔ ∀ v, v < M.size T → appCode (sem M ρ bd env p) v 2 = 1 := by
  rw [sem_comb_const, constVal_all, Model.size_bool]
  exact appCode_allCode _ _ hp

/-- the denotation of an abstraction, applied -/
theorem appCode_sem_abs (M : Model) (ρ : Valuation) (hρ : Admissible M ρ) (bd : List Ty)
    (env : List Nat) (henv : EnvOK M bd env) (x : String) (T tb : Ty) (b : Term)
    (hb : Term.checkedGetType (T :: bd) b = .ok tb) (v : Nat) (hv : v < M.size T) :
    appCode (sem M ρ bd env (.abs x T b)) v (M.size tb) = sem M ρ (T :: bd) (v :: env) b := by
  simp only [sem, Term.getType_of_checked (T :: bd) b tb hb]
  exact appCode_lamCode _ _ _ v hv
    (fun u hu => sem_lt M ρ hρ (T :: bd) (u :: env) (henv.cons hu) b tb hb)

end Holpy
