import Holpy.Kernel.SemBound
import Holpy.Kernel.SemVar
import Holpy.Kernel.SemSubst
/-
Soundness of the 15 primitive rules: from premises that are well-typed, signature-correct and
valid in every finite standard model, every result that passes the checker's post-step type
check is again well-typed, signature-correct and valid in every model.
-/
namespace Holpy

/-- what the checker has established about a sequent it accepted -/
structure Good (th : Thm) : Prop where
  wt : Thm.checkThmType th = true
  sig : Thm.sigOK th = true
  valid : ∀ M : Model, Valid M th

/-- the terms a rule argument carries use logical constants at instances of their types only -/
def Arg.sigOK : Arg → Bool
  | .none => true
  | .term t => Holpy.sigOK t
  | .tyinst _ => true
  | .inst i => i.svars.all (fun p => Holpy.sigOK p.2) && i.vars.all (fun p => Holpy.sigOK p.2)

/-! ### bookkeeping of hypothesis lists -/

/-- every member of either tuple is (alpha-equivalent to) a member of the combined list -/
theorem Thm.mem_addTuple (cur new : List Term) (h : Term) (hm : h ∈ cur ∨ h ∈ new) :
    ∃ h' ∈ Thm.addTuple cur new, Term.aeq h h' = true := by
  sorry

/-- and the combined list has no other members -/
theorem Thm.addTuple_sub (cur new : List Term) (h : Term) (hm : h ∈ Thm.addTuple cur new) :
    h ∈ cur ∨ h ∈ new := by
  sorry

/-- a boolean term evaluates to 0 or 1 -/
theorem sem_bool_lt (M : Model) (ρ : Valuation) (hρ : Admissible M ρ) (t : Term)
    (h : Term.checkedGetType [] t = .ok Ty.bool) : sem M ρ [] [] t < 2 := by
  sorry

/-! ### the rules -/

theorem assume_sound (a : Term) (ha : sigOK a = true)
    (hwt : Thm.checkThmType (Thm.assume a) = true) : Good (Thm.assume a) := by
  sorry

theorem impliesIntr_sound (a : Term) (th : Thm) (ha : sigOK a = true) (hth : Good th)
    (hwt : Thm.checkThmType (Thm.impliesIntr a th) = true) : Good (Thm.impliesIntr a th) := by
  sorry

theorem impliesElim_sound (th1 th2 th : Thm) (h1 : Good th1) (h2 : Good th2)
    (h : Thm.impliesElim th1 th2 = .ok th) (hwt : Thm.checkThmType th = true) : Good th := by
  sorry

theorem reflexive_sound (x : Term) (th : Thm) (hx : sigOK x = true)
    (h : Thm.reflexive x = .ok th) (hwt : Thm.checkThmType th = true) : Good th := by
  sorry

theorem symmetric_sound (th1 th : Thm) (h1 : Good th1)
    (h : Thm.symmetric th1 = .ok th) (hwt : Thm.checkThmType th = true) : Good th := by
  sorry

theorem transitive_sound (th1 th2 th : Thm) (h1 : Good th1) (h2 : Good th2)
    (h : Thm.transitive th1 th2 = .ok th) (hwt : Thm.checkThmType th = true) : Good th := by
  sorry

theorem combination_sound (th1 th2 th : Thm) (h1 : Good th1) (h2 : Good th2)
    (h : Thm.combination th1 th2 = .ok th) (hwt : Thm.checkThmType th = true) : Good th := by
  sorry

theorem equalIntr_sound (th1 th2 th : Thm) (h1 : Good th1) (h2 : Good th2)
    (h : Thm.equalIntr th1 th2 = .ok th) (hwt : Thm.checkThmType th = true) : Good th := by
  sorry

theorem equalElim_sound (th1 th2 th : Thm) (h1 : Good th1) (h2 : Good th2)
    (h : Thm.equalElim th1 th2 = .ok th) (hwt : Thm.checkThmType th = true) : Good th := by
  sorry

theorem substType_sound (σ : Ty.TyInst) (th : Thm) (hth : Good th)
    (hwt : Thm.checkThmType (Thm.substType σ th) = true) : Good (Thm.substType σ th) := by
  sorry

theorem substitution_sound (inst : Term.Inst) (th1 th : Thm) (h1 : Good th1)
    (hi : Arg.sigOK (.inst inst) = true)
    (h : Thm.substitution inst th1 = .ok th) (hwt : Thm.checkThmType th = true) : Good th := by
  sorry

theorem betaConv_sound (t : Term) (th : Thm) (ht : sigOK t = true)
    (h : Thm.betaConv t = .ok th) (hwt : Thm.checkThmType th = true) : Good th := by
  sorry

theorem abstraction_sound (x : Term) (th1 th : Thm) (h1 : Good th1)
    (h : Thm.abstraction x th1 = .ok th) (hwt : Thm.checkThmType th = true) : Good th := by
  sorry

theorem forallIntr_sound (x : Term) (th1 th : Thm) (h1 : Good th1)
    (h : Thm.forallIntr x th1 = .ok th) (hwt : Thm.checkThmType th = true) : Good th := by
  sorry

theorem forallElim_sound (s : Term) (th1 th : Thm) (hs : sigOK s = true) (h1 : Good th1)
    (h : Thm.forallElim s th1 = .ok th) (hwt : Thm.checkThmType th = true) : Good th := by
  sorry

end Holpy
