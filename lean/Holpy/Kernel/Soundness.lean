import Holpy.Kernel.SemBound
import Holpy.Kernel.SemVar
import Holpy.Kernel.SemSubst
/-
Soundness of the 15 primitive rules: from premises that are well-typed, signature-correct and
valid in every finite standard model, every result that passes the checker's post-step type
check is again well-typed, signature-correct and valid in every model.
-/
namespace Holpy

/-- what the checker has established about a sequent it accepted -/
structure Good (th : Thm) : Prop where
  wt : Thm.checkThmType th = true
  sig : Thm.sigOK th = true
  valid : ∀ M : Model, Valid M th

/-- the terms a rule argument carries use logical constants at instances of their types only -/
def Arg.sigOK : Arg → Bool
  | .none => true
  | .term t => Holpy.sigOK t
  | .tyinst _ => true
  | .inst i => i.svars.all (fun p => Holpy.sigOK p.2) && i.vars.all (fun p => Holpy.sigOK p.2)

/-! ### bookkeeping of hypothesis lists -/

/-- every member of either tuple is (alpha-equivalent to) a member of the combined list -/
theorem Thm.mem_addTuple (cur new : List Term) (h : Term) (hm : h ∈ cur ∨ h ∈ new) :
    ∃ h' ∈ Thm.addTuple cur new, Term.aeq h h' = true := by
  unfold Thm.addTuple
  split
  · rename_i he
    rcases hm with hm | hm
    · simp [List.isEmpty_iff] at he; subst he; cases hm
    · exact ⟨h, hm, Term.aeq_refl h⟩
  · rcases hm with hm | hm
    · exact ⟨h, List.mem_append_left _ hm, Term.aeq_refl h⟩
    · by_cases hc : Thm.memAeq h cur = true
      · unfold Thm.memAeq at hc
        rw [List.any_eq_true] at hc
        obtain ⟨h', hm', ha⟩ := hc
        exact ⟨h', List.mem_append_left _ hm', ha⟩
      · refine ⟨h, List.mem_append_right _ ?_, Term.aeq_refl h⟩
        simp [List.mem_filter, hm, hc]

/-- and the combined list has no other members -/
theorem Thm.addTuple_sub (cur new : List Term) (h : Term) (hm : h ∈ Thm.addTuple cur new) :
    h ∈ cur ∨ h ∈ new := by
  unfold Thm.addTuple at hm
  split at hm
  · exact Or.inr hm
  · rcases List.mem_append.1 hm with hm | hm
    · exact Or.inl hm
    · exact Or.inr (List.mem_filter.1 hm).1

theorem EnvOK.nil_snd (M : Model) : EnvOK M [] [] := Forall2.nil

/-- a boolean term evaluates to 0 or 1 -/
theorem sem_bool_lt (M : Model) (ρ : Valuation) (hρ : Admissible M ρ) (t : Term)
    (h : Term.checkedGetType [] t = .ok Ty.bool) : sem M ρ [] [] t < 2 := by
  have := sem_lt M ρ hρ [] [] (EnvOK.nil_snd M) t Ty.bool h
  rwa [Model.size_bool] at this

theorem Thm.checkThmType_iff (th : Thm) : Thm.checkThmType th = true ↔
    (∀ h ∈ th.hyps, Term.checkedGetType [] h = .ok Ty.bool) ∧
      Term.checkedGetType [] th.prop = .ok Ty.bool := by
  have key : ∀ t : Term, (match Term.checkedGetType [] t with
      | .ok T => T == Ty.bool
      | .error _ => false) = true ↔ Term.checkedGetType [] t = .ok Ty.bool := by
    intro t
    cases Term.checkedGetType [] t with
    | ok T => simp
    | error e => simp
  unfold Thm.checkThmType
  rw [List.all_eq_true]
  constructor
  · intro H
    exact ⟨fun h hm => (key h).1 (H h (List.mem_append_left _ hm)),
      (key _).1 (H _ (List.mem_append_right _ (List.mem_singleton.2 rfl)))⟩
  · rintro ⟨H1, H2⟩ t ht
    rcases List.mem_append.1 ht with ht | ht
    · exact (key t).2 (H1 t ht)
    · rw [List.mem_singleton.1 ht]; exact (key _).2 H2

theorem Thm.sigOK_iff (th : Thm) : Thm.sigOK th = true ↔
    (∀ h ∈ th.hyps, Holpy.sigOK h = true) ∧ Holpy.sigOK th.prop = true := by
  unfold Thm.sigOK
  rw [Bool.and_eq_true, List.all_eq_true]

theorem Thm.mk'_one (p : Term) (hs : List Term) : Thm.mk' p [hs] = ⟨hs, p⟩ := by
  simp [Thm.mk', Thm.addTuple]

theorem Thm.mk'_two (p : Term) (h1 h2 : List Term) :
    Thm.mk' p [h1, h2] = ⟨Thm.addTuple h1 h2, p⟩ := by
  simp [Thm.mk', Thm.addTuple]


/-! ### inversion of the logical constants -/

theorem logicalKind_equals_inv (A : Ty) (r : Nat × Ty) (h : logicalKind "equals" A = some r) :
    ∃ T, A = Ty.fn T (Ty.fn T Ty.bool) ∧ r = (0, T) := by
  unfold logicalKind at h
  split at h
  · rename_i a a' _
    split at h
    · rename_i e; subst e
      exact ⟨a, rfl, by simpa using h.symm⟩
    · cases h
  · rename_i e; simp at e
  · rename_i e; simp at e
  · cases h

theorem logicalKind_implies_inv (A : Ty) (r : Nat × Ty) (h : logicalKind "implies" A = some r) :
    A = Ty.fn Ty.bool (Ty.fn Ty.bool Ty.bool) := by
  unfold logicalKind at h
  split at h
  · rename_i e; simp at e
  · rfl
  · rename_i e; simp at e
  · cases h

theorem logicalKind_all_inv (A : Ty) (r : Nat × Ty) (h : logicalKind "all" A = some r) :
    ∃ T, A = Ty.fn (Ty.fn T Ty.bool) Ty.bool ∧ r = (2, T) := by
  unfold logicalKind at h
  split at h
  · rename_i e; simp at e
  · rename_i e; simp at e
  · rename_i a _
    exact ⟨a, rfl, by simpa using h.symm⟩
  · cases h

theorem logicalKind_equals_snd (T : Ty) :
    logicalKind "equals" (Ty.fn T (Ty.fn T Ty.bool)) = some (0, T) := by
  simp [logicalKind, Ty.fn, Ty.bool]

theorem logicalKind_implies_snd :
    logicalKind "implies" (Ty.fn Ty.bool (Ty.fn Ty.bool Ty.bool)) = some (1, Ty.bool) := by
  simp [logicalKind, Ty.fn, Ty.bool]

theorem logicalKind_all_snd (T : Ty) :
    logicalKind "all" (Ty.fn (Ty.fn T Ty.bool) Ty.bool) = some (2, T) := by
  simp [logicalKind, Ty.fn, Ty.bool]

theorem Term.destBinop_inv (name : String) (p a b : Term)
    (h : Term.destBinop name p = some (a, b)) :
    ∃ A, p = .comb (.comb (.const name A) a) b := by
  unfold Term.destBinop at h
  split at h
  · rename_i n A a' b'
    split at h
    · rename_i e
      have e' : n = name := by simpa using e
      subst e'
      cases h
      exact ⟨A, rfl⟩
    · cases h
  · cases h

theorem Term.destForall_inv (p a : Term) (h : Term.destForall p = some a) :
    ∃ A, p = .comb (.const "all" A) a := by
  unfold Term.destForall at h
  split at h
  · rename_i n A a'
    split at h
    · rename_i e
      have e' : n = "all" := by simpa using e
      subst e'
      cases h
      exact ⟨A, rfl⟩
    · cases h
  · cases h

theorem Term.checked_comb_inv_snd (bd : List Ty) (f a : Term) (S : Ty)
    (h : Term.checkedGetType bd (.comb f a) = .ok S) :
    ∃ ta rest, Term.checkedGetType bd f = .ok (.con "fun" (ta :: S :: rest)) ∧
      Term.checkedGetType bd a = .ok ta := by
  simp only [Term.checkedGetType, bind, Except.bind] at h
  cases hf : Term.checkedGetType bd f with
  | error e => rw [hf] at h; cases h
  | ok tf =>
    cases ha : Term.checkedGetType bd a with
    | error e => rw [hf, ha] at h; cases h
    | ok ta =>
      rw [hf, ha] at h
      simp only at h
      split at h
      · cases h
      · split at h
        · cases h
        · rename_i d hd
          split at h
          · cases h
          · rename_i hne
            split at h
            · rename_i r hr
              cases h
              have hd' : d = ta := by simpa using hne
              subst hd'
              unfold Ty.domain? at hd
              split at hd
              · rename_i a0 l0
                cases hd
                unfold Ty.range? at hr
                split at hr
                · rename_i e
                  cases e
                  cases hr
                  exact ⟨_, _, rfl, rfl⟩
                · cases hr
              · cases hd
            · cases h

theorem Term.checked_comb (bd : List Ty) (f a : Term) (A B : Ty)
    (hf : Term.checkedGetType bd f = .ok (Ty.fn A B)) (ha : Term.checkedGetType bd a = .ok A) :
    Term.checkedGetType bd (.comb f a) = .ok B := by
  simp [Term.checkedGetType, bind, Except.bind, hf, ha, Ty.fn, Ty.isFun, Ty.domain?, Ty.range?]


/-- the equation `s = u` at type `T` -/
def Term.eqAt (T : Ty) (s u : Term) : Term :=
  .comb (.comb (.const "equals" (Ty.fn T (Ty.fn T Ty.bool))) s) u

/-- `∀ p` at type `T` -/
def Term.allAt (T : Ty) (p : Term) : Term :=
  .comb (.const "all" (Ty.fn (Ty.fn T Ty.bool) Ty.bool)) p

theorem Term.checked_eqAt_inv (bd : List Ty) (T S : Ty) (x y : Term)
    (h : Term.checkedGetType bd (Term.eqAt T x y) = .ok S) :
    Term.checkedGetType bd x = .ok T ∧ Term.checkedGetType bd y = .ok T ∧ S = Ty.bool := by
  obtain ⟨ty, r1, h1, hy⟩ := Term.checked_comb_inv_snd bd _ _ _ h
  obtain ⟨tx, r2, h2, hx⟩ := Term.checked_comb_inv_snd bd _ _ _ h1
  simp only [Term.checkedGetType, Ty.fn, Ty.bool] at h2
  injection h2 with h2
  injection h2 with _ h2
  injection h2 with e1 h2
  injection h2 with e2 _
  injection e2 with _ e2
  injection e2 with e3 e2
  injection e2 with e4 _
  subst e1 e3
  exact ⟨hx, hy, e4.symm⟩

theorem Term.checked_mkImplies_inv (bd : List Ty) (S : Ty) (a b : Term)
    (h : Term.checkedGetType bd (Term.mkImplies a b) = .ok S) :
    Term.checkedGetType bd a = .ok Ty.bool ∧ Term.checkedGetType bd b = .ok Ty.bool ∧
      S = Ty.bool := by
  obtain ⟨ty, r1, h1, hy⟩ := Term.checked_comb_inv_snd bd _ _ _ h
  obtain ⟨tx, r2, h2, hx⟩ := Term.checked_comb_inv_snd bd _ _ _ h1
  simp only [Term.checkedGetType, Ty.fn, Ty.bool] at h2
  injection h2 with h2
  injection h2 with _ h2
  injection h2 with e1 h2
  injection h2 with e2 _
  injection e2 with _ e2
  injection e2 with e3 e2
  injection e2 with e4 _
  subst e1 e3
  exact ⟨hx, hy, e4.symm⟩

theorem Term.checked_allAt_inv (bd : List Ty) (T S : Ty) (p : Term)
    (h : Term.checkedGetType bd (Term.allAt T p) = .ok S) :
    Term.checkedGetType bd p = .ok (Ty.fn T Ty.bool) ∧ S = Ty.bool := by
  obtain ⟨tp, r1, h1, hp⟩ := Term.checked_comb_inv_snd bd _ _ _ h
  simp only [Term.checkedGetType, Ty.fn, Ty.bool] at h1
  injection h1 with h1
  injection h1 with _ h1
  injection h1 with e1 h1
  injection h1 with e2 _
  subst e1
  exact ⟨hp, e2.symm⟩

/-- a signature-correct well-typed equation is an equation at a definite type -/
theorem eq_inv (p x y : Term) (S : Ty) (hd : Term.destEq p = some (x, y)) (hs : sigOK p = true)
    (ht : Term.checkedGetType [] p = .ok S) :
    ∃ T, p = Term.eqAt T x y ∧
      Term.checkedGetType [] x = .ok T ∧ Term.checkedGetType [] y = .ok T ∧
      sigOK x = true ∧ sigOK y = true := by
  obtain ⟨A, rfl⟩ := Term.destBinop_inv _ _ _ _ hd
  simp only [sigOK, Bool.and_eq_true] at hs
  obtain ⟨⟨hA, hx⟩, hy⟩ := hs
  simp only [BEq.rfl, Bool.true_or, if_true] at hA
  obtain ⟨r, hr⟩ := Option.isSome_iff_exists.1 hA
  obtain ⟨T, rfl, -⟩ := logicalKind_equals_inv A r hr
  obtain ⟨h1, h2, -⟩ := Term.checked_eqAt_inv [] T S x y ht
  exact ⟨T, rfl, h1, h2, hx, hy⟩

theorem impl_inv (p a b : Term) (S : Ty) (hd : Term.destImplies p = some (a, b))
    (hs : sigOK p = true) (ht : Term.checkedGetType [] p = .ok S) :
    p = Term.mkImplies a b ∧
      Term.checkedGetType [] a = .ok Ty.bool ∧ Term.checkedGetType [] b = .ok Ty.bool ∧
      sigOK a = true ∧ sigOK b = true := by
  obtain ⟨A, rfl⟩ := Term.destBinop_inv _ _ _ _ hd
  simp only [sigOK, Bool.and_eq_true] at hs
  obtain ⟨⟨hA, hx⟩, hy⟩ := hs
  have hA' : (logicalKind "implies" A).isSome = true := by
    revert hA; simp
  obtain ⟨r, hr⟩ := Option.isSome_iff_exists.1 hA'
  have := logicalKind_implies_inv A r hr
  subst this
  obtain ⟨h1, h2, -⟩ := Term.checked_mkImplies_inv [] S a b ht
  exact ⟨rfl, h1, h2, hx, hy⟩

theorem all_inv (p a : Term) (S : Ty) (hd : Term.destForall p = some a)
    (hs : sigOK p = true) (ht : Term.checkedGetType [] p = .ok S) :
    ∃ T, p = Term.allAt T a ∧ Term.checkedGetType [] a = .ok (Ty.fn T Ty.bool) ∧
      sigOK a = true := by
  obtain ⟨A, rfl⟩ := Term.destForall_inv _ _ hd
  simp only [sigOK, Bool.and_eq_true] at hs
  obtain ⟨hA, hx⟩ := hs
  have hA' : (logicalKind "all" A).isSome = true := by
    revert hA; simp
  obtain ⟨r, hr⟩ := Option.isSome_iff_exists.1 hA'
  obtain ⟨T, rfl, -⟩ := logicalKind_all_inv A r hr
  obtain ⟨h1, -⟩ := Term.checked_allAt_inv [] T S a ht
  exact ⟨T, rfl, h1, hx⟩

theorem sigOK_eqAt (T : Ty) (x y : Term) (hx : sigOK x = true) (hy : sigOK y = true) :
    sigOK (Term.eqAt T x y) = true := by
  simp [Term.eqAt, sigOK, logicalKind_equals_snd, hx, hy]

theorem sigOK_mkImplies (x y : Term) (hx : sigOK x = true) (hy : sigOK y = true) :
    sigOK (Term.mkImplies x y) = true := by
  simp [Term.mkImplies, sigOK, logicalKind_implies_snd, hx, hy]

theorem sigOK_allAt (T : Ty) (x : Term) (hx : sigOK x = true) :
    sigOK (Term.allAt T x) = true := by
  simp [Term.allAt, sigOK, logicalKind_all_snd, hx]

theorem Term.mkEq_inv (s t e : Term) (h : Term.mkEq s t = .ok e) :
    ∃ T, Term.getType [] s = .ok T ∧ e = Term.eqAt T s t := by
  unfold Term.mkEq at h
  simp only [bind, Except.bind] at h
  cases hs : Term.getType [] s with
  | error err => rw [hs] at h; cases h
  | ok T =>
    rw [hs] at h
    cases h
    exact ⟨T, rfl, rfl⟩

theorem holds_eqAt (M : Model) (ρ : Valuation) (hρ : Admissible M ρ) (T : Ty) (x y : Term)
    (hx : Term.checkedGetType [] x = .ok T) (hy : Term.checkedGetType [] y = .ok T) :
    holds M ρ (Term.eqAt T x y) ↔ sem M ρ [] [] x = sem M ρ [] [] y := by
  unfold holds Term.eqAt
  rw [sem_equals M ρ [] [] T x y (sem_lt M ρ hρ [] [] (EnvOK.nil_snd M) x T hx)
    (sem_lt M ρ hρ [] [] (EnvOK.nil_snd M) y T hy)]
  split <;> simp_all

theorem holds_mkImplies (M : Model) (ρ : Valuation) (hρ : Admissible M ρ) (a b : Term)
    (ha : Term.checkedGetType [] a = .ok Ty.bool) (hb : Term.checkedGetType [] b = .ok Ty.bool) :
    holds M ρ (Term.mkImplies a b) ↔ (holds M ρ a → holds M ρ b) := by
  unfold holds
  have h1 := sem_bool_lt M ρ hρ a ha
  have h2 := sem_bool_lt M ρ hρ b hb
  rw [sem_implies M ρ [] [] a b h1 h2]
  split
  · rename_i h; constructor
    · intro h'; cases h'
    · intro h'; have := h' h.1; omega
  · rename_i h; constructor
    · intro _ h'; omega
    · intro _; rfl

theorem holds_aeq (M : Model) (ρ : Valuation) (a b : Term) (h : Term.aeq a b = true) :
    holds M ρ a ↔ holds M ρ b := by
  unfold holds; rw [sem_aeq M ρ a b h]

/-- frame for the rules with two premises whose hypotheses are merged -/
theorem good_two (th1 th2 : Thm) (p : Term) (h1 : Good th1) (h2 : Good th2)
    (hwt : Thm.checkThmType (Thm.mk' p [th1.hyps, th2.hyps]) = true)
    (hsig : sigOK p = true)
    (hval : ∀ M ρ, Admissible M ρ → holds M ρ th1.prop → holds M ρ th2.prop → holds M ρ p) :
    Good (Thm.mk' p [th1.hyps, th2.hyps]) := by
  refine ⟨hwt, ?_, ?_⟩
  · rw [Thm.mk'_two, Thm.sigOK_iff]
    refine ⟨fun h hm => ?_, hsig⟩
    rcases Thm.addTuple_sub _ _ _ hm with hm | hm
    · exact ((Thm.sigOK_iff _).1 h1.sig).1 h hm
    · exact ((Thm.sigOK_iff _).1 h2.sig).1 h hm
  · intro M ρ hρ hh
    rw [Thm.mk'_two] at hh ⊢
    apply hval M ρ hρ
    · apply h1.valid M ρ hρ
      intro h hm
      obtain ⟨h', hm', ha⟩ := Thm.mem_addTuple th1.hyps th2.hyps h (Or.inl hm)
      exact (holds_aeq M ρ h h' ha).2 (hh h' hm')
    · apply h2.valid M ρ hρ
      intro h hm
      obtain ⟨h', hm', ha⟩ := Thm.mem_addTuple th1.hyps th2.hyps h (Or.inr hm)
      exact (holds_aeq M ρ h h' ha).2 (hh h' hm')

/-- frame for the rules with one premise that keep its hypotheses -/
theorem good_one (th1 : Thm) (p : Term) (h1 : Good th1)
    (hwt : Thm.checkThmType ⟨th1.hyps, p⟩ = true)
    (hsig : sigOK p = true)
    (hval : ∀ M ρ, Admissible M ρ → holds M ρ th1.prop → holds M ρ p) :
    Good ⟨th1.hyps, p⟩ := by
  refine ⟨hwt, ?_, ?_⟩
  · rw [Thm.sigOK_iff]
    exact ⟨((Thm.sigOK_iff _).1 h1.sig).1, hsig⟩
  · intro M ρ hρ hh
    exact hval M ρ hρ (h1.valid M ρ hρ hh)

theorem Good.prop_bool {th : Thm} (h : Good th) :
    Term.checkedGetType [] th.prop = .ok Ty.bool := ((Thm.checkThmType_iff th).1 h.wt).2

theorem Good.prop_sig {th : Thm} (h : Good th) : sigOK th.prop = true :=
  ((Thm.sigOK_iff th).1 h.sig).2


/-! ### the rules -/

theorem Thm.liftT_bind_ok {α β : Type} (x : Except TErr α) (f : α → Except RErr β) (b : β)
    (h : (Thm.liftT x >>= f) = .ok b) : ∃ a, x = .ok a ∧ f a = .ok b := by
  cases x with
  | error e => cases h
  | ok a => exact ⟨a, rfl, h⟩

theorem Thm.catchTerm_bind_ok {α β : Type} (x : Except TErr α) (f : α → Except RErr β) (b : β)
    (h : (Thm.catchTerm x >>= f) = .ok b) : ∃ a, x = .ok a ∧ f a = .ok b := by
  cases x with
  | error e => cases e <;> cases h
  | ok a => exact ⟨a, rfl, h⟩

theorem Term.mkEq_checked (s t e : Term) (T : Ty) (hs : Term.checkedGetType [] s = .ok T)
    (h : Term.mkEq s t = .ok e) : e = Term.eqAt T s t := by
  obtain ⟨T', hT', rfl⟩ := Term.mkEq_inv s t e h
  rw [Term.getType_of_checked [] s T hs] at hT'
  cases hT'
  rfl

theorem assume_sound (a : Term) (ha : sigOK a = true)
    (hwt : Thm.checkThmType (Thm.assume a) = true) : Good (Thm.assume a) := by
  refine ⟨hwt, ?_, ?_⟩
  · simp [Thm.sigOK, Thm.assume, ha]
  · intro M ρ hρ hh
    exact hh a (by simp [Thm.assume])

theorem impliesIntr_sound (a : Term) (th : Thm) (ha : sigOK a = true) (hth : Good th)
    (hwt : Thm.checkThmType (Thm.impliesIntr a th) = true) : Good (Thm.impliesIntr a th) := by
  have hw := (Thm.checkThmType_iff _).1 hwt
  obtain ⟨ha', hp', -⟩ := Term.checked_mkImplies_inv [] _ a th.prop hw.2
  refine ⟨hwt, ?_, ?_⟩
  · rw [Thm.sigOK_iff]
    exact ⟨fun h hm => ((Thm.sigOK_iff _).1 hth.sig).1 h (List.mem_filter.1 hm).1,
      sigOK_mkImplies _ _ ha hth.prop_sig⟩
  · intro M ρ hρ hh
    show holds M ρ (Term.mkImplies a th.prop)
    rw [holds_mkImplies M ρ hρ a th.prop ha' hp']
    intro hA
    apply hth.valid M ρ hρ
    intro h hm
    by_cases hc : Term.aeq h a = true
    · exact (holds_aeq M ρ h a hc).2 hA
    · exact hh h (List.mem_filter.2 ⟨hm, by simp [hc]⟩)

theorem impliesElim_sound (th1 th2 th : Thm) (h1 : Good th1) (h2 : Good th2)
    (h : Thm.impliesElim th1 th2 = .ok th) (hwt : Thm.checkThmType th = true) : Good th := by
  unfold Thm.impliesElim at h
  split at h
  · rename_i a b hd
    split at h
    · rename_i haeq
      cases h
      obtain ⟨hp, ha', hb', hsa, hsb⟩ := impl_inv _ a b _ hd h1.prop_sig h1.prop_bool
      apply good_two th1 th2 b h1 h2 hwt hsb
      intro M ρ hρ H1 H2
      rw [hp, holds_mkImplies M ρ hρ a b ha' hb'] at H1
      exact H1 ((holds_aeq M ρ a th2.prop haeq).2 H2)
    · cases h
  · cases h

theorem reflexive_sound (x : Term) (th : Thm) (hx : sigOK x = true)
    (h : Thm.reflexive x = .ok th) (hwt : Thm.checkThmType th = true) : Good th := by
  unfold Thm.reflexive at h
  obtain ⟨e, he, h⟩ := Thm.liftT_bind_ok _ _ _ h
  cases h
  obtain ⟨T, hT, rfl⟩ := Term.mkEq_inv _ _ _ he
  have hw := (Thm.checkThmType_iff _).1 hwt
  obtain ⟨hx1, -, -⟩ := Term.checked_eqAt_inv [] T _ x x hw.2
  refine ⟨hwt, ?_, ?_⟩
  · rw [Thm.sigOK_iff]
    exact ⟨fun h hm => (nomatch hm), sigOK_eqAt T x x hx hx⟩
  · intro M ρ hρ hh
    exact (holds_eqAt M ρ hρ T x x hx1 hx1).2 rfl

theorem symmetric_sound (th1 th : Thm) (h1 : Good th1)
    (h : Thm.symmetric th1 = .ok th) (hwt : Thm.checkThmType th = true) : Good th := by
  unfold Thm.symmetric at h
  split at h
  · rename_i x y hd
    obtain ⟨e, he, h⟩ := Thm.liftT_bind_ok _ _ _ h
    cases h
    obtain ⟨T, hp, hx, hy, hsx, hsy⟩ := eq_inv _ x y _ hd h1.prop_sig h1.prop_bool
    have := Term.mkEq_checked y x e T hy he
    subst this
    apply good_one th1 _ h1 hwt (sigOK_eqAt _ _ _ hsy hsx)
    intro M ρ hρ H
    rw [hp, holds_eqAt M ρ hρ T x y hx hy] at H
    rw [holds_eqAt M ρ hρ T y x hy hx]
    exact H.symm
  · cases h

theorem transitive_sound (th1 th2 th : Thm) (h1 : Good th1) (h2 : Good th2)
    (h : Thm.transitive th1 th2 = .ok th) (hwt : Thm.checkThmType th = true) : Good th := by
  unfold Thm.transitive at h
  split at h
  · rename_i x y1 y2 z hd1 hd2
    split at h
    · rename_i haeq
      obtain ⟨e, he, h⟩ := Thm.liftT_bind_ok _ _ _ h
      cases h
      obtain ⟨T1, hp1, hx, hy1, hsx, hsy1⟩ := eq_inv _ x y1 _ hd1 h1.prop_sig h1.prop_bool
      obtain ⟨T2, hp2, hy2, hz, hsy2, hsz⟩ := eq_inv _ y2 z _ hd2 h2.prop_sig h2.prop_bool
      have hT : T1 = T2 := by
        have := Term.checkedGetType_aeq y1 y2 haeq []
        rw [hy1, hy2] at this
        cases this
        rfl
      subst hT
      have := Term.mkEq_checked x z e T1 hx he
      subst this
      apply good_two th1 th2 _ h1 h2 hwt (sigOK_eqAt _ _ _ hsx hsz)
      intro M ρ hρ H1 H2
      rw [hp1, holds_eqAt M ρ hρ T1 x y1 hx hy1] at H1
      rw [hp2, holds_eqAt M ρ hρ T1 y2 z hy2 hz] at H2
      rw [holds_eqAt M ρ hρ T1 x z hx hz, H1, sem_aeq M ρ y1 y2 haeq, H2]
    · cases h
  · cases h

theorem equalIntr_sound (th1 th2 th : Thm) (h1 : Good th1) (h2 : Good th2)
    (h : Thm.equalIntr th1 th2 = .ok th) (hwt : Thm.checkThmType th = true) : Good th := by
  unfold Thm.equalIntr at h
  split at h
  · rename_i a1 b1 b2 a2 hd1 hd2
    split at h
    · rename_i haeq
      rw [Bool.and_eq_true] at haeq
      obtain ⟨e, he, h⟩ := Thm.liftT_bind_ok _ _ _ h
      cases h
      obtain ⟨hp1, ha1, hb1, hsa1, hsb1⟩ := impl_inv _ a1 b1 _ hd1 h1.prop_sig h1.prop_bool
      obtain ⟨hp2, hb2, ha2, hsb2, hsa2⟩ := impl_inv _ b2 a2 _ hd2 h2.prop_sig h2.prop_bool
      have := Term.mkEq_checked a1 b1 e _ ha1 he
      subst this
      apply good_two th1 th2 _ h1 h2 hwt (sigOK_eqAt _ _ _ hsa1 hsb1)
      intro M ρ hρ H1 H2
      rw [hp1, holds_mkImplies M ρ hρ a1 b1 ha1 hb1] at H1
      rw [hp2, holds_mkImplies M ρ hρ b2 a2 hb2 ha2] at H2
      rw [holds_eqAt M ρ hρ _ a1 b1 ha1 hb1]
      have l1 := sem_bool_lt M ρ hρ a1 ha1
      have l2 := sem_bool_lt M ρ hρ b1 hb1
      have e1 := sem_aeq M ρ a1 a2 haeq.1 [] []
      have e2 := sem_aeq M ρ b1 b2 haeq.2 [] []
      unfold holds at H1 H2
      rw [← e1, ← e2] at H2
      omega
    · cases h
  · cases h

theorem equalElim_sound (th1 th2 th : Thm) (h1 : Good th1) (h2 : Good th2)
    (h : Thm.equalElim th1 th2 = .ok th) (hwt : Thm.checkThmType th = true) : Good th := by
  unfold Thm.equalElim at h
  split at h
  · rename_i a b hd
    split at h
    · rename_i haeq
      cases h
      obtain ⟨T, hp, ha', hb', hsa, hsb⟩ := eq_inv _ a b _ hd h1.prop_sig h1.prop_bool
      apply good_two th1 th2 b h1 h2 hwt hsb
      intro M ρ hρ H1 H2
      rw [hp, holds_eqAt M ρ hρ T a b ha' hb'] at H1
      have H3 := (holds_aeq M ρ a th2.prop haeq).2 H2
      unfold holds at H3 ⊢
      rw [← H1]; exact H3
    · cases h
  · cases h

theorem combination_sound (th1 th2 th : Thm) (h1 : Good th1) (h2 : Good th2)
    (h : Thm.combination th1 th2 = .ok th) (hwt : Thm.checkThmType th = true) : Good th := by
  unfold Thm.combination at h
  split at h
  · rename_i f g x y hd1 hd2
    obtain ⟨tf, htf, h⟩ := Thm.liftT_bind_ok _ _ _ h
    split at h
    · split at h
      · cases h
      · rename_i d hd
        obtain ⟨tx, htx, h⟩ := Thm.liftT_bind_ok _ _ _ h
        split at h
        · obtain ⟨e, he, h⟩ := Thm.liftT_bind_ok _ _ _ h
          cases h
          obtain ⟨T1, hp1, hf, hg, hsf, hsg⟩ := eq_inv _ f g _ hd1 h1.prop_sig h1.prop_bool
          obtain ⟨T2, hp2, hx, hy, hsx, hsy⟩ := eq_inv _ x y _ hd2 h2.prop_sig h2.prop_bool
          obtain ⟨T, hT, rfl⟩ := Term.mkEq_inv _ _ _ he
          have hw := (Thm.checkThmType_iff _).1 hwt
          rw [Thm.mk'_two] at hw
          obtain ⟨hfx, hgy, -⟩ := Term.checked_eqAt_inv [] T _ _ _ hw.2
          apply good_two th1 th2 _ h1 h2 hwt
            (sigOK_eqAt _ _ _ (by simp [sigOK, hsf, hsx]) (by simp [sigOK, hsg, hsy]))
          intro M ρ hρ H1 H2
          rw [hp1, holds_eqAt M ρ hρ T1 f g hf hg] at H1
          rw [hp2, holds_eqAt M ρ hρ T2 x y hx hy] at H2
          rw [holds_eqAt M ρ hρ T _ _ hfx hgy]
          simp only [sem]
          rw [Term.getType_of_checked [] f T1 hf, Term.getType_of_checked [] g T1 hg, H1, H2]
        · cases h
    · cases h
  · cases h

theorem sigOK_incrAt (inc : Nat) (t : Term) : ∀ lev, sigOK (Term.incrAt inc lev t) = sigOK t := by
  induction t with
  | comb f a ihf iha => intro lev; simp [Term.incrAt, sigOK, ihf, iha]
  | abs x T b ih => intro lev; simp [Term.incrAt, sigOK, ih]
  | bound i => intro lev; simp only [Term.incrAt]; split <;> rfl
  | svar n T => intro lev; rfl
  | var n T => intro lev; rfl
  | const n T => intro lev; rfl

theorem sigOK_substBoundAt (u : Term) (hu : sigOK u = true) (s : Term) (hs : sigOK s = true) :
    ∀ n, sigOK (Term.substBoundAt u n s) = true := by
  induction s with
  | comb f a ihf iha =>
    intro n
    simp only [sigOK, Bool.and_eq_true] at hs
    simp [Term.substBoundAt, sigOK, ihf hs.1, iha hs.2]
  | abs x T b ih =>
    intro n
    simp only [sigOK] at hs
    simp [Term.substBoundAt, sigOK, ih hs]
  | bound i =>
    intro n
    simp only [Term.substBoundAt]
    split
    · unfold Term.incrBoundvars; rw [sigOK_incrAt]; exact hu
    · split <;> rfl
  | svar n T => intro _; exact hs
  | var n T => intro _; exact hs
  | const n T => intro _; exact hs

theorem Term.checked_abs_inv_snd (bd : List Ty) (x : String) (T S : Ty) (b : Term)
    (h : Term.checkedGetType bd (.abs x T b) = .ok S) :
    ∃ tb, Term.checkedGetType (T :: bd) b = .ok tb ∧ S = Ty.fn T tb := by
  simp only [Term.checkedGetType, bind, Except.bind] at h
  cases hb : Term.checkedGetType (T :: bd) b with
  | error e => rw [hb] at h; cases h
  | ok tb => rw [hb] at h; cases h; exact ⟨tb, rfl, rfl⟩

theorem Ty.fn_inj {a b c d : Ty} (h : Ty.fn a b = Ty.fn c d) : a = c ∧ b = d := by
  unfold Ty.fn at h
  injection h with _ h
  injection h with h1 h
  injection h with h2 _
  exact ⟨h1, h2⟩

/-- an argument that does not type-check cannot occur in a `subst_bound` result that does: the
result does not depend on it -/
theorem Term.substBoundAt_irrel (hi : List Ty) (u u' : Term)
    (hu : ∀ T, Term.checkedGetType hi u ≠ .ok T) (b : Term) :
    ∀ (lo : List Ty) (S : Ty),
      Term.checkedGetType (lo ++ hi) (Term.substBoundAt u lo.length b) = .ok S →
      Term.substBoundAt u lo.length b = Term.substBoundAt u' lo.length b := by
  induction b with
  | comb f a ihf iha =>
    intro lo S h
    simp only [Term.substBoundAt] at h ⊢
    obtain ⟨ta, rest, h1, h2⟩ := Term.checked_comb_inv_snd _ _ _ _ h
    rw [ihf lo _ h1, iha lo _ h2]
  | abs x T b ih =>
    intro lo S h
    simp only [Term.substBoundAt] at h ⊢
    obtain ⟨tb, h1, -⟩ := Term.checked_abs_inv_snd _ _ _ _ _ h
    have := ih (T :: lo) tb h1
    simp only [List.length_cons] at this
    rw [this]
  | bound i =>
    intro lo S h
    simp only [Term.substBoundAt] at h ⊢
    split
    · rename_i hc
      rw [if_pos hc] at h
      exfalso
      have := Term.checkedGetType_incrAt [] lo hi u
      simp only [List.nil_append, List.length_nil] at this
      unfold Term.incrBoundvars at h
      rw [this] at h
      exact hu S h
    · rfl
  | svar n T => intro _ _ _; rfl
  | var n T => intro _ _ _; rfl
  | const n T => intro _ _ _; rfl

theorem betaConv_sound (t : Term) (th : Thm) (ht : sigOK t = true)
    (h : Thm.betaConv t = .ok th) (hwt : Thm.checkThmType th = true) : Good th := by
  unfold Thm.betaConv at h
  obtain ⟨t', ht', h⟩ := Thm.catchTerm_bind_ok _ _ _ h
  obtain ⟨e, he, h⟩ := Thm.liftT_bind_ok _ _ _ h
  cases h
  unfold Term.betaConv at ht'
  split at ht'
  · rename_i x T b a _
    simp only [Term.substBound] at ht'
    cases ht'
    obtain ⟨S, hS, rfl⟩ := Term.mkEq_inv _ _ _ he
    have hw := (Thm.checkThmType_iff _).1 hwt
    obtain ⟨hl, hr, -⟩ := Term.checked_eqAt_inv [] S _ _ _ hw.2
    simp only [sigOK, Bool.and_eq_true] at ht
    refine ⟨hwt, ?_, ?_⟩
    · rw [Thm.sigOK_iff]
      refine ⟨fun h hm => (nomatch hm), sigOK_eqAt S _ _ ?_ (sigOK_substBoundAt a ht.2 b ht.1 0)⟩
      simp [sigOK, ht.1, ht.2]
    · intro M ρ hρ hh
      exact (holds_eqAt M ρ hρ S _ _ hl hr).2 (sem_beta M ρ hρ [] [] (EnvOK.nil_snd M) x T S b a hl).symm
  · cases ht'

theorem forallElim_sound (s : Term) (th1 th : Thm) (hs : sigOK s = true) (h1 : Good th1)
    (h : Thm.forallElim s th1 = .ok th) (hwt : Thm.checkThmType th = true) : Good th := by
  unfold Thm.forallElim at h
  split at h
  · rename_i x T b hd
    obtain ⟨ts, hts, h⟩ := Thm.liftT_bind_ok _ _ _ h
    split at h
    · cases h
    · rename_i hne
      obtain ⟨r, hr, h⟩ := Thm.liftT_bind_ok _ _ _ h
      cases h
      simp only [Term.substBound] at hr
      cases hr
      have hT : T = ts := by simpa using hne
      subst hT
      obtain ⟨T', hp, habs, hsabs⟩ := all_inv _ _ _ hd h1.prop_sig h1.prop_bool
      obtain ⟨tb, hb, hfn⟩ := Term.checked_abs_inv_snd _ _ _ _ _ habs
      obtain ⟨rfl, rfl⟩ := Ty.fn_inj hfn
      have hw := (Thm.checkThmType_iff _).1 hwt
      simp only [sigOK] at hsabs
      apply good_one th1 _ h1 hwt (sigOK_substBoundAt s hs b hsabs 0)
      intro M ρ hρ H
      rw [hp] at H
      unfold Term.allAt at H
      rw [holds_all_abs M ρ hρ _ x T' b hb (logicalKind_all_snd T')] at H
      unfold holds
      by_cases hc : ∃ T0, Term.checkedGetType [] s = .ok T0
      · obtain ⟨T0, hT0⟩ := hc
        have e := Term.getType_of_checked [] s T0 hT0
        rw [hts] at e
        cases e
        have := sem_substBoundAt M ρ [] [] [] [] rfl T' s b hts
        simp only [List.nil_append, List.length_nil] at this
        rw [this]
        exact H _ (sem_lt M ρ hρ [] [] (EnvOK.nil_snd M) s T' hT0)
      · have hc' : ∀ T0, Term.checkedGetType [] s ≠ .ok T0 := fun T0 h0 => hc ⟨T0, h0⟩
        have e := Term.substBoundAt_irrel [] s (.var "x" T') hc' b [] Ty.bool hw.2
        simp only [List.length_nil] at e
        rw [e]
        have := sem_substBoundAt M ρ [] [] [] [] rfl T' (.var "x" T') b rfl
        simp only [List.nil_append, List.length_nil] at this
        rw [this]
        exact H _ (hρ 1 "x" T')
  · cases h
  · cases h

theorem sigOK_abstractOverAt (x t : Term) :
    ∀ (n : Nat) (t' : Term), Term.abstractOverAt x n t = .ok t' → sigOK t = true →
      sigOK t' = true := by
  induction t with
  | svar m S =>
    intro n t' h _
    simp only [Term.abstractOverAt] at h
    (repeat' split at h) <;> first | (cases h; rfl) | cases h
  | var m S =>
    intro n t' h _
    simp only [Term.abstractOverAt] at h
    (repeat' split at h) <;> first | (cases h; rfl) | cases h
  | const m S =>
    intro n t' h hs
    simp only [Term.abstractOverAt] at h
    cases h; exact hs
  | bound i =>
    intro n t' h hs
    simp only [Term.abstractOverAt] at h
    cases h; exact hs
  | comb f a ihf iha =>
    intro n t' h hs
    simp only [Term.abstractOverAt, bind, Except.bind] at h
    simp only [sigOK, Bool.and_eq_true] at hs
    cases hf : Term.abstractOverAt x n f with
    | error e => rw [hf] at h; cases h
    | ok f' =>
      cases ha : Term.abstractOverAt x n a with
      | error e => rw [hf, ha] at h; cases h
      | ok a' =>
        rw [hf, ha] at h
        cases h
        simp [sigOK, ihf n f' hf hs.1, iha n a' ha hs.2]
  | abs y T b ih =>
    intro n t' h hs
    simp only [Term.abstractOverAt, bind, Except.bind] at h
    simp only [sigOK] at hs
    cases hb : Term.abstractOverAt x (n + 1) b with
    | error e => rw [hb] at h; cases h
    | ok b' =>
      rw [hb] at h
      cases h
      simp [sigOK, ih (n + 1) b' hb hs]

theorem varKey_of_isVarLike (x : Term) (h : Term.isVarLike x = true) :
    ∃ k n, varKey x = some (k, n, Term.typeOfAtom x) := by
  cases x <;> simp [Term.isVarLike] at h
  · exact ⟨0, _, rfl⟩
  · exact ⟨1, _, rfl⟩

theorem Term.mkLambda_inv_snd (x t l : Term) (h : Term.mkLambda x t = .ok l) :
    Term.isVarLike x = true ∧ ∃ b, Term.abstractOverAt x 0 t = .ok b ∧
      l = .abs (Term.nameOf x) (Term.typeOfAtom x) b := by
  unfold Term.mkLambda at h
  split at h
  · rename_i hv
    refine ⟨hv, ?_⟩
    simp only [bind, Except.bind, Term.abstractOver, hv, if_true] at h
    cases hb : Term.abstractOverAt x 0 t with
    | error e => rw [hb] at h; cases h
    | ok b => rw [hb] at h; cases h; exact ⟨b, rfl, rfl⟩
  · cases h

theorem sigOK_mkLambda (x t l : Term) (h : Term.mkLambda x t = .ok l) (ht : sigOK t = true) :
    sigOK l = true := by
  obtain ⟨-, b, hb, rfl⟩ := Term.mkLambda_inv_snd x t l h
  simp only [sigOK]
  exact sigOK_abstractOverAt x t 0 b hb ht

theorem Term.mkForall_inv_snd (x t q : Term) (h : Term.mkForall x t = .ok q) :
    Term.isVarLike x = true ∧ ∃ l, Term.mkLambda x t = .ok l ∧
      q = Term.allAt (Term.typeOfAtom x) l := by
  unfold Term.mkForall at h
  split at h
  · rename_i hv
    refine ⟨hv, ?_⟩
    simp only [bind, Except.bind] at h
    cases hl : Term.mkLambda x t with
    | error e => rw [hl] at h; cases h
    | ok l => rw [hl] at h; cases h; exact ⟨l, rfl, rfl⟩
  · cases h

/-- hypotheses in which the variable does not occur still hold after changing its value -/
theorem hyps_update (M : Model) (ρ : Valuation) (x : Term) (k : Nat) (n : String) (T : Ty)
    (hk : varKey x = some (k, n, T)) (hyps : List Term)
    (hocc : ¬ hyps.any (Term.occursVar x) = true) (v : Nat)
    (hh : ∀ h ∈ hyps, holds M ρ h) : ∀ h ∈ hyps, holds M (ρ.update k n T v) h := by
  intro h hm
  have hno : Term.occursVar x h = false := by
    cases hc : Term.occursVar x h with
    | false => rfl
    | true => exact absurd (List.any_eq_true.2 ⟨h, hm, hc⟩) hocc
  unfold holds
  rw [sem_update_of_not_occurs M ρ x k n T hk h hno v [] []]
  exact hh h hm

theorem forallIntr_sound (x : Term) (th1 th : Thm) (h1 : Good th1)
    (h : Thm.forallIntr x th1 = .ok th) (hwt : Thm.checkThmType th = true) : Good th := by
  unfold Thm.forallIntr at h
  split at h
  · cases h
  · rename_i hocc
    split at h
    · cases h
    · obtain ⟨q, hq, h⟩ := Thm.liftT_bind_ok _ _ _ h
      cases h
      obtain ⟨hvl, l, hl, rfl⟩ := Term.mkForall_inv_snd _ _ _ hq
      obtain ⟨k, n, hk⟩ := varKey_of_isVarLike x hvl
      refine ⟨hwt, ?_, ?_⟩
      · rw [Thm.sigOK_iff]
        exact ⟨((Thm.sigOK_iff _).1 h1.sig).1, sigOK_allAt _ _ (sigOK_mkLambda x _ l hl h1.prop_sig)⟩
      · intro M ρ hρ hh
        show holds M ρ (Term.allAt (Term.typeOfAtom x) l)
        rw [holds_mkForall M ρ hρ x k n _ hk th1.prop _ h1.prop_bool hq]
        intro v hv
        exact h1.valid M _ (hρ.update k n _ v hv) (hyps_update M ρ x k n _ hk _ hocc v hh)

theorem abstraction_sound (x : Term) (th1 th : Thm) (h1 : Good th1)
    (h : Thm.abstraction x th1 = .ok th) (hwt : Thm.checkThmType th = true) : Good th := by
  unfold Thm.abstraction at h
  split at h
  · cases h
  · rename_i hocc
    split at h
    · rename_i t1 t2 hd
      obtain ⟨l1, hl1, h⟩ := Thm.catchTerm_bind_ok _ _ _ h
      obtain ⟨l2, hl2, h⟩ := Thm.catchTerm_bind_ok _ _ _ h
      obtain ⟨e, he, h⟩ := Thm.liftT_bind_ok _ _ _ h
      cases h
      obtain ⟨S, hp, ht1, ht2, hs1, hs2⟩ := eq_inv _ t1 t2 _ hd h1.prop_sig h1.prop_bool
      have hvl := (Term.mkLambda_inv_snd _ _ _ hl1).1
      obtain ⟨k, n, hk⟩ := varKey_of_isVarLike x hvl
      have c1 := checked_mkLambda x k n _ hk t1 l1 S ht1 hl1
      have c2 := checked_mkLambda x k n _ hk t2 l2 S ht2 hl2
      have := Term.mkEq_checked l1 l2 e _ c1 he
      subst this
      refine ⟨hwt, ?_, ?_⟩
      · rw [Thm.sigOK_iff]
        exact ⟨((Thm.sigOK_iff _).1 h1.sig).1,
          sigOK_eqAt _ _ _ (sigOK_mkLambda x _ l1 hl1 hs1) (sigOK_mkLambda x _ l2 hl2 hs2)⟩
      · intro M ρ hρ hh
        show holds M ρ (Term.eqAt _ l1 l2)
        rw [holds_eqAt M ρ hρ _ l1 l2 c1 c2]
        have b1 := sem_lt M ρ hρ [] [] (EnvOK.nil_snd M) l1 _ c1
        have b2 := sem_lt M ρ hρ [] [] (EnvOK.nil_snd M) l2 _ c2
        rw [Model.size_fn] at b1 b2
        apply code_ext _ _ _ _ b1 b2
        intro v hv
        rw [appCode_sem_mkLambda M ρ hρ x k n _ hk t1 l1 S ht1 hl1 v hv,
          appCode_sem_mkLambda M ρ hρ x k n _ hk t2 l2 S ht2 hl2 v hv]
        have hv' := h1.valid M _ (hρ.update k n _ v hv) (hyps_update M ρ x k n _ hk _ hocc v hh)
        rw [hp, holds_eqAt M _ (hρ.update k n _ v hv) S t1 t2 ht1 ht2] at hv'
        exact hv'
    · cases h

theorem Forall2.exists_right {α β : Type} {R : α → β → Prop} {l1 : List α} {l2 : List β}
    (h : Forall2 R l1 l2) : ∀ a ∈ l1, ∃ b ∈ l2, R a b := by
  induction h with
  | nil => intro a ha; cases ha
  | cons hr _ ih =>
    intro a ha
    cases ha with
    | head => exact ⟨_, List.mem_cons_self, hr⟩
    | tail _ ha' =>
      obtain ⟨b, hb, hab⟩ := ih a ha'
      exact ⟨b, List.mem_cons_of_mem _ hb, hab⟩

theorem Forall2.exists_left {α β : Type} {R : α → β → Prop} {l1 : List α} {l2 : List β}
    (h : Forall2 R l1 l2) : ∀ b ∈ l2, ∃ a ∈ l1, R a b := by
  induction h with
  | nil => intro a ha; cases ha
  | cons hr _ ih =>
    intro b hb
    cases hb with
    | head => exact ⟨_, List.mem_cons_self, hr⟩
    | tail _ hb' =>
      obtain ⟨a, ha, hab⟩ := ih b hb'
      exact ⟨a, List.mem_cons_of_mem _ ha, hab⟩

theorem holds_substType (M : Model) (ρ : Valuation) (σ : Ty.TyInst) (t : Term) (T : Ty)
    (ht : Term.checkedGetType [] t = .ok T) :
    holds M ρ (Term.substType σ t) ↔ holds (M.pull σ) (ρ.pull M σ) t := by
  unfold holds
  have := sem_substType M ρ σ [] [] t T ht
  simp only [List.map_nil] at this
  rw [this]

theorem substType_sound (σ : Ty.TyInst) (th : Thm) (hth : Good th)
    (hwt : Thm.checkThmType (Thm.substType σ th) = true) : Good (Thm.substType σ th) := by
  have hw := (Thm.checkThmType_iff th).1 hth.wt
  refine ⟨hwt, ?_, ?_⟩
  · unfold Thm.substType
    rw [Thm.mk'_one, Thm.sigOK_iff]
    refine ⟨?_, sigOK_substType σ _ hth.prop_sig⟩
    intro h hm
    obtain ⟨h0, hm0, rfl⟩ := List.mem_map.1 hm
    exact sigOK_substType σ h0 (((Thm.sigOK_iff _).1 hth.sig).1 h0 hm0)
  · intro M ρ hρ hh
    unfold Thm.substType at hh ⊢
    rw [Thm.mk'_one] at hh ⊢
    show holds M ρ (Term.substType σ th.prop)
    rw [holds_substType M ρ σ _ _ hw.2]
    apply hth.valid (M.pull σ) _ (hρ.pull σ)
    intro h hm
    rw [← holds_substType M ρ σ h _ (hw.1 h hm)]
    exact hh _ (List.mem_map_of_mem hm)

theorem substitution_sound (inst : Term.Inst) (th1 th : Thm) (h1 : Good th1)
    (hi : Arg.sigOK (.inst inst) = true)
    (h : Thm.substitution inst th1 = .ok th) (hwt : Thm.checkThmType th = true) : Good th := by
  obtain ⟨σ, hs, p, rfl, hF, hp, hty⟩ := Thm.substitution_spec inst th1 th h
  rw [Thm.mk'_one] at hwt ⊢
  have hw1 := (Thm.checkThmType_iff th1).1 h1.wt
  simp only [Arg.sigOK, Bool.and_eq_true, List.all_eq_true] at hi
  have key : ∀ t0 t1, t0 ∈ th1.hyps ++ [th1.prop] → Term.checkedGetType [] t0 = .ok Ty.bool →
      Term.substRec { inst with tyinst := σ } (Term.substType σ t0) = .ok t1 → ∀ M ρ,
      (holds M ρ t1 ↔
        holds (M.pull σ) ((instVal M ρ { inst with tyinst := σ }).pull M σ) t0) := by
    intro t0 t1 hm ht0 hr M ρ
    have hty' : ∀ n T, (n, T) ∈ Term.getSvars (Term.substType σ t0) → ∀ s,
        ({ inst with tyinst := σ } : Term.Inst).svars.lookup n = some s →
        Term.checkedGetType [] s = .ok T := by
      intro n T hmem s hs
      obtain ⟨T0, hm0, rfl⟩ := Term.mem_getSvars_substType σ t0 n T hmem
      exact hty t0 hm n T0 hm0 s hs
    have e1 := (sem_substRec M ρ _ _ t1 hr hty' [] []).2
    rw [← holds_substType M _ σ t0 _ ht0]
    unfold holds
    rw [e1]
  refine ⟨hwt, ?_, ?_⟩
  · rw [Thm.sigOK_iff]
    constructor
    · intro h' hm'
      obtain ⟨h0, hm0, hr⟩ := hF.exists_left h' hm'
      exact sigOK_substRec _ _ h' hr
        (sigOK_substType σ h0 (((Thm.sigOK_iff _).1 h1.sig).1 h0 hm0)) hi.1 hi.2
    · exact sigOK_substRec _ _ p hp (sigOK_substType σ _ h1.prop_sig) hi.1 hi.2
  · intro M ρ hρ hh
    show holds M ρ p
    rw [key th1.prop p (List.mem_append_right _ (List.mem_singleton.2 rfl)) hw1.2 hp M ρ]
    apply h1.valid (M.pull σ) _ ((hρ.instVal _).pull σ)
    intro h0 hm0
    obtain ⟨h', hm', hr⟩ := hF.exists_right h0 hm0
    rw [← key h0 h' (List.mem_append_left _ hm0) (hw1.1 h0 hm0) hr M ρ]
    exact hh h' hm'

end Holpy
