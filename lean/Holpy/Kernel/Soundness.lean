import Holpy.Kernel.SemBound
import Holpy.Kernel.SemVar
import Holpy.Kernel.SemSubst
/-
`Good` (what the checker has established about an accepted sequent) and the lemmas the rule
soundness proofs share: bookkeeping of hypothesis lists, inversion of `check_thm_type` and of the
logical constants, the meaning of `=`/`⟶`/`∀` at the level of `holds`.  The rule proofs themselves
are in `SoundnessIn.lean` (for any closed class of valuations; `Good` is the unrestricted class).
-/
namespace Holpy

/-- what the checker has established about a sequent it accepted: it passed `check_thm_type`
(which includes: the logical constants occur at instances of their declared types only) and it is
valid in every finite standard model -/
structure Good (th : Thm) : Prop where
  wt : Thm.checkThmTypeSig th = true
  valid : ∀ M : Model, Valid M th

/-! ### bookkeeping of hypothesis lists -/

/-- every member of either tuple is (alpha-equivalent to) a member of the combined list -/
theorem Thm.mem_addTuple (cur new : List Term) (h : Term) (hm : h ∈ cur ∨ h ∈ new) :
    ∃ h' ∈ Thm.addTuple cur new, Term.aeq h h' = true := by
  unfold Thm.addTuple
  split
  · rename_i he
    rcases hm with hm | hm
    · simp [List.isEmpty_iff] at he; subst he; cases hm
    · exact ⟨h, hm, Term.aeq_refl h⟩
  · rcases hm with hm | hm
    · exact ⟨h, List.mem_append_left _ hm, Term.aeq_refl h⟩
    · by_cases hc : Thm.memAeq h cur = true
      · unfold Thm.memAeq at hc
        rw [List.any_eq_true] at hc
        obtain ⟨h', hm', ha⟩ := hc
        exact ⟨h', List.mem_append_left _ hm', ha⟩
      · refine ⟨h, List.mem_append_right _ ?_, Term.aeq_refl h⟩
        simp [List.mem_filter, hm, hc]

/-- and the combined list has no other members -/
theorem Thm.addTuple_sub (cur new : List Term) (h : Term) (hm : h ∈ Thm.addTuple cur new) :
    h ∈ cur ∨ h ∈ new := by
  unfold Thm.addTuple at hm
  split at hm
  · exact Or.inr hm
  · rcases List.mem_append.1 hm with hm | hm
    · exact Or.inl hm
    · exact Or.inr (List.mem_filter.1 hm).1

theorem EnvOK.nil_snd (M : Model) : EnvOK M [] [] := Forall2.nil

/-- a boolean term evaluates to 0 or 1 -/
theorem sem_bool_lt (M : Model) (ρ : Valuation) (hρ : Admissible M ρ) (t : Term)
    (h : Term.checkedGetType [] t = .ok Ty.bool) : sem M ρ [] [] t < 2 := by
  have := sem_lt M ρ hρ [] [] (EnvOK.nil_snd M) t Ty.bool h
  rwa [Model.size_bool] at this

theorem Thm.sigOK_iff (th : Thm) : Thm.sigOK th = true ↔
    (∀ h ∈ th.hyps, Holpy.sigOK h = true) ∧ Holpy.sigOK th.prop = true := by
  unfold Thm.sigOK
  rw [Bool.and_eq_true, List.all_eq_true]

theorem Thm.checkThmType_iff (th : Thm) : Thm.checkThmType th = true ↔
    (∀ h ∈ th.hyps, Term.checkedGetType [] h = .ok Ty.bool) ∧
      Term.checkedGetType [] th.prop = .ok Ty.bool := by
  have key : ∀ t : Term, (match Term.checkedGetType [] t with
      | .ok T => T == Ty.bool
      | .error _ => false) = true ↔ Term.checkedGetType [] t = .ok Ty.bool := by
    intro t
    cases Term.checkedGetType [] t with
    | ok T => simp
    | error e => simp
  unfold Thm.checkThmType
  rw [List.all_eq_true]
  constructor
  · intro H
    exact ⟨fun h hm => (key h).1 (H h (List.mem_append_left _ hm)),
      (key _).1 (H _ (List.mem_append_right _ (List.mem_singleton.2 rfl)))⟩
  · rintro ⟨H1, H2⟩ t ht
    rcases List.mem_append.1 ht with ht | ht
    · exact (key t).2 (H1 t ht)
    · rw [List.mem_singleton.1 ht]; exact (key _).2 H2

/-- what `check_thm_type` checks -/
theorem Thm.checkThmTypeSig_iff (th : Thm) : Thm.checkThmTypeSig th = true ↔
    ((∀ h ∈ th.hyps, Term.checkedGetType [] h = .ok Ty.bool) ∧
      Term.checkedGetType [] th.prop = .ok Ty.bool) ∧ Thm.sigOK th = true := by
  unfold Thm.checkThmTypeSig
  rw [Bool.and_eq_true, Thm.checkThmType_iff]

/-- a sequent that passes `check_thm_type` is well-typed … -/
theorem Thm.checkThmType_typed (th : Thm) (h : Thm.checkThmTypeSig th = true) :
    (∀ h ∈ th.hyps, Term.checkedGetType [] h = .ok Ty.bool) ∧
      Term.checkedGetType [] th.prop = .ok Ty.bool := ((Thm.checkThmTypeSig_iff th).1 h).1

/-- … and uses the logical constants at instances of their declared types only -/
theorem Thm.checkThmType_sig (th : Thm) (h : Thm.checkThmTypeSig th = true) :
    Thm.sigOK th = true := ((Thm.checkThmTypeSig_iff th).1 h).2

theorem Thm.mk'_one (p : Term) (hs : List Term) : Thm.mk' p [hs] = ⟨hs, p⟩ := by
  simp [Thm.mk', Thm.addTuple]

theorem Thm.mk'_two (p : Term) (h1 h2 : List Term) :
    Thm.mk' p [h1, h2] = ⟨Thm.addTuple h1 h2, p⟩ := by
  simp [Thm.mk', Thm.addTuple]


/-! ### inversion of the logical constants -/

theorem logicalKind_equals_inv (A : Ty) (r : Nat × Ty) (h : logicalKind "equals" A = some r) :
    ∃ T, A = Ty.fn T (Ty.fn T Ty.bool) ∧ r = (0, T) := by
  unfold logicalKind at h
  split at h
  · rename_i a a' _
    split at h
    · rename_i e; subst e
      exact ⟨a, rfl, by simpa using h.symm⟩
    · cases h
  · rename_i e; simp at e
  · rename_i e; simp at e
  · cases h

theorem logicalKind_implies_inv (A : Ty) (r : Nat × Ty) (h : logicalKind "implies" A = some r) :
    A = Ty.fn Ty.bool (Ty.fn Ty.bool Ty.bool) := by
  unfold logicalKind at h
  split at h
  · rename_i e; simp at e
  · rfl
  · rename_i e; simp at e
  · cases h

theorem logicalKind_all_inv (A : Ty) (r : Nat × Ty) (h : logicalKind "all" A = some r) :
    ∃ T, A = Ty.fn (Ty.fn T Ty.bool) Ty.bool ∧ r = (2, T) := by
  unfold logicalKind at h
  split at h
  · rename_i e; simp at e
  · rename_i e; simp at e
  · rename_i a _
    exact ⟨a, rfl, by simpa using h.symm⟩
  · cases h

theorem logicalKind_equals_snd (T : Ty) :
    logicalKind "equals" (Ty.fn T (Ty.fn T Ty.bool)) = some (0, T) := by
  simp [logicalKind, Ty.fn, Ty.bool]

theorem logicalKind_implies_snd :
    logicalKind "implies" (Ty.fn Ty.bool (Ty.fn Ty.bool Ty.bool)) = some (1, Ty.bool) := by
  simp [logicalKind, Ty.fn, Ty.bool]

theorem logicalKind_all_snd (T : Ty) :
    logicalKind "all" (Ty.fn (Ty.fn T Ty.bool) Ty.bool) = some (2, T) := by
  simp [logicalKind, Ty.fn, Ty.bool]

theorem Term.destBinop_inv (name : String) (p a b : Term)
    (h : Term.destBinop name p = some (a, b)) :
    ∃ A, p = .comb (.comb (.const name A) a) b := by
  unfold Term.destBinop at h
  split at h
  · rename_i n A a' b'
    split at h
    · rename_i e
      have e' : n = name := by simpa using e
      subst e'
      cases h
      exact ⟨A, rfl⟩
    · cases h
  · cases h

theorem Term.destForall_inv (p a : Term) (h : Term.destForall p = some a) :
    ∃ A, p = .comb (.const "all" A) a := by
  unfold Term.destForall at h
  split at h
  · rename_i n A a'
    split at h
    · rename_i e
      have e' : n = "all" := by simpa using e
      subst e'
      cases h
      exact ⟨A, rfl⟩
    · cases h
  · cases h

theorem Term.checked_comb_inv_snd (bd : List Ty) (f a : Term) (S : Ty)
    (h : Term.checkedGetType bd (.comb f a) = .ok S) :
    ∃ ta rest, Term.checkedGetType bd f = .ok (.con "fun" (ta :: S :: rest)) ∧
      Term.checkedGetType bd a = .ok ta := by
  simp only [Term.checkedGetType, bind, Except.bind] at h
  cases hf : Term.checkedGetType bd f with
  | error e => rw [hf] at h; cases h
  | ok tf =>
    cases ha : Term.checkedGetType bd a with
    | error e => rw [hf, ha] at h; cases h
    | ok ta =>
      rw [hf, ha] at h
      simp only at h
      split at h
      · cases h
      · split at h
        · cases h
        · rename_i d hd
          split at h
          · cases h
          · rename_i hne
            split at h
            · rename_i r hr
              cases h
              have hd' : d = ta := by simpa using hne
              subst hd'
              unfold Ty.domain? at hd
              split at hd
              · rename_i a0 l0
                cases hd
                unfold Ty.range? at hr
                split at hr
                · rename_i e
                  cases e
                  cases hr
                  exact ⟨_, _, rfl, rfl⟩
                · cases hr
              · cases hd
            · cases h

theorem Term.checked_comb (bd : List Ty) (f a : Term) (A B : Ty)
    (hf : Term.checkedGetType bd f = .ok (Ty.fn A B)) (ha : Term.checkedGetType bd a = .ok A) :
    Term.checkedGetType bd (.comb f a) = .ok B := by
  simp [Term.checkedGetType, bind, Except.bind, hf, ha, Ty.fn, Ty.isFun, Ty.domain?, Ty.range?]


/-- the equation `s = u` at type `T` -/
def Term.eqAt (T : Ty) (s u : Term) : Term :=
  .comb (.comb (.const "equals" (Ty.fn T (Ty.fn T Ty.bool))) s) u

/-- `∀ p` at type `T` -/
def Term.allAt (T : Ty) (p : Term) : Term :=
  .comb (.const "all" (Ty.fn (Ty.fn T Ty.bool) Ty.bool)) p

theorem Term.checked_eqAt_inv (bd : List Ty) (T S : Ty) (x y : Term)
    (h : Term.checkedGetType bd (Term.eqAt T x y) = .ok S) :
    Term.checkedGetType bd x = .ok T ∧ Term.checkedGetType bd y = .ok T ∧ S = Ty.bool := by
  obtain ⟨ty, r1, h1, hy⟩ := Term.checked_comb_inv_snd bd _ _ _ h
  obtain ⟨tx, r2, h2, hx⟩ := Term.checked_comb_inv_snd bd _ _ _ h1
  simp only [Term.checkedGetType, Ty.fn, Ty.bool] at h2
  injection h2 with h2
  injection h2 with _ h2
  injection h2 with e1 h2
  injection h2 with e2 _
  injection e2 with _ e2
  injection e2 with e3 e2
  injection e2 with e4 _
  subst e1 e3
  exact ⟨hx, hy, e4.symm⟩

theorem Term.checked_mkImplies_inv (bd : List Ty) (S : Ty) (a b : Term)
    (h : Term.checkedGetType bd (Term.mkImplies a b) = .ok S) :
    Term.checkedGetType bd a = .ok Ty.bool ∧ Term.checkedGetType bd b = .ok Ty.bool ∧
      S = Ty.bool := by
  obtain ⟨ty, r1, h1, hy⟩ := Term.checked_comb_inv_snd bd _ _ _ h
  obtain ⟨tx, r2, h2, hx⟩ := Term.checked_comb_inv_snd bd _ _ _ h1
  simp only [Term.checkedGetType, Ty.fn, Ty.bool] at h2
  injection h2 with h2
  injection h2 with _ h2
  injection h2 with e1 h2
  injection h2 with e2 _
  injection e2 with _ e2
  injection e2 with e3 e2
  injection e2 with e4 _
  subst e1 e3
  exact ⟨hx, hy, e4.symm⟩

theorem Term.checked_allAt_inv (bd : List Ty) (T S : Ty) (p : Term)
    (h : Term.checkedGetType bd (Term.allAt T p) = .ok S) :
    Term.checkedGetType bd p = .ok (Ty.fn T Ty.bool) ∧ S = Ty.bool := by
  obtain ⟨tp, r1, h1, hp⟩ := Term.checked_comb_inv_snd bd _ _ _ h
  simp only [Term.checkedGetType, Ty.fn, Ty.bool] at h1
  injection h1 with h1
  injection h1 with _ h1
  injection h1 with e1 h1
  injection h1 with e2 _
  subst e1
  exact ⟨hp, e2.symm⟩

/-- a signature-correct well-typed equation is an equation at a definite type -/
theorem eq_inv (p x y : Term) (S : Ty) (hd : Term.destEq p = some (x, y)) (hs : sigOK p = true)
    (ht : Term.checkedGetType [] p = .ok S) :
    ∃ T, p = Term.eqAt T x y ∧
      Term.checkedGetType [] x = .ok T ∧ Term.checkedGetType [] y = .ok T ∧
      sigOK x = true ∧ sigOK y = true := by
  obtain ⟨A, rfl⟩ := Term.destBinop_inv _ _ _ _ hd
  simp only [sigOK, Bool.and_eq_true] at hs
  obtain ⟨⟨hA, hx⟩, hy⟩ := hs
  simp only [BEq.rfl, Bool.true_or, if_true] at hA
  obtain ⟨r, hr⟩ := Option.isSome_iff_exists.1 hA
  obtain ⟨T, rfl, -⟩ := logicalKind_equals_inv A r hr
  obtain ⟨h1, h2, -⟩ := Term.checked_eqAt_inv [] T S x y ht
  exact ⟨T, rfl, h1, h2, hx, hy⟩

theorem impl_inv (p a b : Term) (S : Ty) (hd : Term.destImplies p = some (a, b))
    (hs : sigOK p = true) (ht : Term.checkedGetType [] p = .ok S) :
    p = Term.mkImplies a b ∧
      Term.checkedGetType [] a = .ok Ty.bool ∧ Term.checkedGetType [] b = .ok Ty.bool ∧
      sigOK a = true ∧ sigOK b = true := by
  obtain ⟨A, rfl⟩ := Term.destBinop_inv _ _ _ _ hd
  simp only [sigOK, Bool.and_eq_true] at hs
  obtain ⟨⟨hA, hx⟩, hy⟩ := hs
  have hA' : (logicalKind "implies" A).isSome = true := by
    revert hA; simp
  obtain ⟨r, hr⟩ := Option.isSome_iff_exists.1 hA'
  have := logicalKind_implies_inv A r hr
  subst this
  obtain ⟨h1, h2, -⟩ := Term.checked_mkImplies_inv [] S a b ht
  exact ⟨rfl, h1, h2, hx, hy⟩

theorem all_inv (p a : Term) (S : Ty) (hd : Term.destForall p = some a)
    (hs : sigOK p = true) (ht : Term.checkedGetType [] p = .ok S) :
    ∃ T, p = Term.allAt T a ∧ Term.checkedGetType [] a = .ok (Ty.fn T Ty.bool) ∧
      sigOK a = true := by
  obtain ⟨A, rfl⟩ := Term.destForall_inv _ _ hd
  simp only [sigOK, Bool.and_eq_true] at hs
  obtain ⟨hA, hx⟩ := hs
  have hA' : (logicalKind "all" A).isSome = true := by
    revert hA; simp
  obtain ⟨r, hr⟩ := Option.isSome_iff_exists.1 hA'
  obtain ⟨T, rfl, -⟩ := logicalKind_all_inv A r hr
  obtain ⟨h1, -⟩ := Term.checked_allAt_inv [] T S a ht
  exact ⟨T, rfl, h1, hx⟩

theorem sigOK_eqAt (T : Ty) (x y : Term) (hx : sigOK x = true) (hy : sigOK y = true) :
    sigOK (Term.eqAt T x y) = true := by
  simp [Term.eqAt, sigOK, logicalKind_equals_snd, hx, hy]

theorem sigOK_mkImplies (x y : Term) (hx : sigOK x = true) (hy : sigOK y = true) :
    sigOK (Term.mkImplies x y) = true := by
  simp [Term.mkImplies, sigOK, logicalKind_implies_snd, hx, hy]

theorem sigOK_allAt (T : Ty) (x : Term) (hx : sigOK x = true) :
    sigOK (Term.allAt T x) = true := by
  simp [Term.allAt, sigOK, logicalKind_all_snd, hx]

theorem Term.mkEq_inv (s t e : Term) (h : Term.mkEq s t = .ok e) :
    ∃ T, Term.getType [] s = .ok T ∧ e = Term.eqAt T s t := by
  unfold Term.mkEq at h
  simp only [bind, Except.bind] at h
  cases hs : Term.getType [] s with
  | error err => rw [hs] at h; cases h
  | ok T =>
    rw [hs] at h
    cases h
    exact ⟨T, rfl, rfl⟩

theorem holds_eqAt (M : Model) (ρ : Valuation) (hρ : Admissible M ρ) (T : Ty) (x y : Term)
    (hx : Term.checkedGetType [] x = .ok T) (hy : Term.checkedGetType [] y = .ok T) :
    holds M ρ (Term.eqAt T x y) ↔ sem M ρ [] [] x = sem M ρ [] [] y := by
  unfold holds Term.eqAt
  rw [sem_equals M ρ [] [] T x y (sem_lt M ρ hρ [] [] (EnvOK.nil_snd M) x T hx)
    (sem_lt M ρ hρ [] [] (EnvOK.nil_snd M) y T hy)]
  split <;> simp_all

theorem holds_mkImplies (M : Model) (ρ : Valuation) (hρ : Admissible M ρ) (a b : Term)
    (ha : Term.checkedGetType [] a = .ok Ty.bool) (hb : Term.checkedGetType [] b = .ok Ty.bool) :
    holds M ρ (Term.mkImplies a b) ↔ (holds M ρ a → holds M ρ b) := by
  unfold holds
  have h1 := sem_bool_lt M ρ hρ a ha
  have h2 := sem_bool_lt M ρ hρ b hb
  rw [sem_implies M ρ [] [] a b h1 h2]
  split
  · rename_i h; constructor
    · intro h'; cases h'
    · intro h'; have := h' h.1; omega
  · rename_i h; constructor
    · intro _ h'; omega
    · intro _; rfl

theorem holds_aeq (M : Model) (ρ : Valuation) (a b : Term) (h : Term.aeq a b = true) :
    holds M ρ a ↔ holds M ρ b := by
  unfold holds; rw [sem_aeq M ρ a b h]

theorem Good.prop_bool {th : Thm} (h : Good th) :
    Term.checkedGetType [] th.prop = .ok Ty.bool := (Thm.checkThmType_typed th h.wt).2

/-- the signature condition is part of what `check_thm_type` checked -/
theorem Good.sig {th : Thm} (h : Good th) : Thm.sigOK th = true := Thm.checkThmType_sig th h.wt

theorem Good.prop_sig {th : Thm} (h : Good th) : sigOK th.prop = true :=
  ((Thm.sigOK_iff th).1 h.sig).2


/-! ### the rules -/

theorem Thm.liftT_bind_ok {α β : Type} (x : Except TErr α) (f : α → Except RErr β) (b : β)
    (h : (Thm.liftT x >>= f) = .ok b) : ∃ a, x = .ok a ∧ f a = .ok b := by
  cases x with
  | error e => cases h
  | ok a => exact ⟨a, rfl, h⟩

theorem Thm.catchTerm_bind_ok {α β : Type} (x : Except TErr α) (f : α → Except RErr β) (b : β)
    (h : (Thm.catchTerm x >>= f) = .ok b) : ∃ a, x = .ok a ∧ f a = .ok b := by
  cases x with
  | error e => cases e <;> cases h
  | ok a => exact ⟨a, rfl, h⟩

theorem Term.mkEq_checked (s t e : Term) (T : Ty) (hs : Term.checkedGetType [] s = .ok T)
    (h : Term.mkEq s t = .ok e) : e = Term.eqAt T s t := by
  obtain ⟨T', hT', rfl⟩ := Term.mkEq_inv s t e h
  rw [Term.getType_of_checked [] s T hs] at hT'
  cases hT'
  rfl

theorem sigOK_incrAt (inc : Nat) (t : Term) : ∀ lev, sigOK (Term.incrAt inc lev t) = sigOK t := by
  induction t with
  | comb f a ihf iha => intro lev; simp [Term.incrAt, sigOK, ihf, iha]
  | abs x T b ih => intro lev; simp [Term.incrAt, sigOK, ih]
  | bound i => intro lev; simp only [Term.incrAt]; split <;> rfl
  | svar n T => intro lev; rfl
  | var n T => intro lev; rfl
  | const n T => intro lev; rfl

theorem sigOK_substBoundAt (u : Term) (hu : sigOK u = true) (s : Term) (hs : sigOK s = true) :
    ∀ n, sigOK (Term.substBoundAt u n s) = true := by
  induction s with
  | comb f a ihf iha =>
    intro n
    simp only [sigOK, Bool.and_eq_true] at hs
    simp [Term.substBoundAt, sigOK, ihf hs.1, iha hs.2]
  | abs x T b ih =>
    intro n
    simp only [sigOK] at hs
    simp [Term.substBoundAt, sigOK, ih hs]
  | bound i =>
    intro n
    simp only [Term.substBoundAt]
    split
    · unfold Term.incrBoundvars; rw [sigOK_incrAt]; exact hu
    · split <;> rfl
  | svar n T => intro _; exact hs
  | var n T => intro _; exact hs
  | const n T => intro _; exact hs

theorem Term.checked_abs_inv_snd (bd : List Ty) (x : String) (T S : Ty) (b : Term)
    (h : Term.checkedGetType bd (.abs x T b) = .ok S) :
    ∃ tb, Term.checkedGetType (T :: bd) b = .ok tb ∧ S = Ty.fn T tb := by
  simp only [Term.checkedGetType, bind, Except.bind] at h
  cases hb : Term.checkedGetType (T :: bd) b with
  | error e => rw [hb] at h; cases h
  | ok tb => rw [hb] at h; cases h; exact ⟨tb, rfl, rfl⟩

theorem Ty.fn_inj {a b c d : Ty} (h : Ty.fn a b = Ty.fn c d) : a = c ∧ b = d := by
  unfold Ty.fn at h
  injection h with _ h
  injection h with h1 h
  injection h with h2 _
  exact ⟨h1, h2⟩

/-- an argument that does not type-check cannot occur in a `subst_bound` result that does: the
result does not depend on it -/
theorem Term.substBoundAt_irrel (hi : List Ty) (u u' : Term)
    (hu : ∀ T, Term.checkedGetType hi u ≠ .ok T) (b : Term) :
    ∀ (lo : List Ty) (S : Ty),
      Term.checkedGetType (lo ++ hi) (Term.substBoundAt u lo.length b) = .ok S →
      Term.substBoundAt u lo.length b = Term.substBoundAt u' lo.length b := by
  induction b with
  | comb f a ihf iha =>
    intro lo S h
    simp only [Term.substBoundAt] at h ⊢
    obtain ⟨ta, rest, h1, h2⟩ := Term.checked_comb_inv_snd _ _ _ _ h
    rw [ihf lo _ h1, iha lo _ h2]
  | abs x T b ih =>
    intro lo S h
    simp only [Term.substBoundAt] at h ⊢
    obtain ⟨tb, h1, -⟩ := Term.checked_abs_inv_snd _ _ _ _ _ h
    have := ih (T :: lo) tb h1
    simp only [List.length_cons] at this
    rw [this]
  | bound i =>
    intro lo S h
    simp only [Term.substBoundAt] at h ⊢
    split
    · rename_i hc
      rw [if_pos hc] at h
      exfalso
      have := Term.checkedGetType_incrAt [] lo hi u
      simp only [List.nil_append, List.length_nil] at this
      unfold Term.incrBoundvars at h
      rw [this] at h
      exact hu S h
    · rfl
  | svar n T => intro _ _ _; rfl
  | var n T => intro _ _ _; rfl
  | const n T => intro _ _ _; rfl

theorem sigOK_abstractOverAt (x t : Term) :
    ∀ (n : Nat) (t' : Term), Term.abstractOverAt x n t = .ok t' → sigOK t = true →
      sigOK t' = true := by
  induction t with
  | svar m S =>
    intro n t' h _
    simp only [Term.abstractOverAt] at h
    (repeat' split at h) <;> first | (cases h; rfl) | cases h
  | var m S =>
    intro n t' h _
    simp only [Term.abstractOverAt] at h
    (repeat' split at h) <;> first | (cases h; rfl) | cases h
  | const m S =>
    intro n t' h hs
    simp only [Term.abstractOverAt] at h
    cases h; exact hs
  | bound i =>
    intro n t' h hs
    simp only [Term.abstractOverAt] at h
    cases h; exact hs
  | comb f a ihf iha =>
    intro n t' h hs
    simp only [Term.abstractOverAt, bind, Except.bind] at h
    simp only [sigOK, Bool.and_eq_true] at hs
    cases hf : Term.abstractOverAt x n f with
    | error e => rw [hf] at h; cases h
    | ok f' =>
      cases ha : Term.abstractOverAt x n a with
      | error e => rw [hf, ha] at h; cases h
      | ok a' =>
        rw [hf, ha] at h
        cases h
        simp [sigOK, ihf n f' hf hs.1, iha n a' ha hs.2]
  | abs y T b ih =>
    intro n t' h hs
    simp only [Term.abstractOverAt, bind, Except.bind] at h
    simp only [sigOK] at hs
    cases hb : Term.abstractOverAt x (n + 1) b with
    | error e => rw [hb] at h; cases h
    | ok b' =>
      rw [hb] at h
      cases h
      simp [sigOK, ih (n + 1) b' hb hs]

theorem varKey_of_isVarLike (x : Term) (h : Term.isVarLike x = true) :
    ∃ k n, varKey x = some (k, n, Term.typeOfAtom x) := by
  cases x <;> simp [Term.isVarLike] at h
  · exact ⟨0, _, rfl⟩
  · exact ⟨1, _, rfl⟩

theorem Term.mkLambda_inv_snd (x t l : Term) (h : Term.mkLambda x t = .ok l) :
    Term.isVarLike x = true ∧ ∃ b, Term.abstractOverAt x 0 t = .ok b ∧
      l = .abs (Term.nameOf x) (Term.typeOfAtom x) b := by
  unfold Term.mkLambda at h
  split at h
  · rename_i hv
    refine ⟨hv, ?_⟩
    simp only [bind, Except.bind, Term.abstractOver, hv, if_true] at h
    cases hb : Term.abstractOverAt x 0 t with
    | error e => rw [hb] at h; cases h
    | ok b => rw [hb] at h; cases h; exact ⟨b, rfl, rfl⟩
  · cases h

theorem sigOK_mkLambda (x t l : Term) (h : Term.mkLambda x t = .ok l) (ht : sigOK t = true) :
    sigOK l = true := by
  obtain ⟨-, b, hb, rfl⟩ := Term.mkLambda_inv_snd x t l h
  simp only [sigOK]
  exact sigOK_abstractOverAt x t 0 b hb ht

theorem Term.mkForall_inv_snd (x t q : Term) (h : Term.mkForall x t = .ok q) :
    Term.isVarLike x = true ∧ ∃ l, Term.mkLambda x t = .ok l ∧
      q = Term.allAt (Term.typeOfAtom x) l := by
  unfold Term.mkForall at h
  split at h
  · rename_i hv
    refine ⟨hv, ?_⟩
    simp only [bind, Except.bind] at h
    cases hl : Term.mkLambda x t with
    | error e => rw [hl] at h; cases h
    | ok l => rw [hl] at h; cases h; exact ⟨l, rfl, rfl⟩
  · cases h

/-- hypotheses in which the variable does not occur still hold after changing its value -/
theorem hyps_update (M : Model) (ρ : Valuation) (x : Term) (k : Nat) (n : String) (T : Ty)
    (hk : varKey x = some (k, n, T)) (hyps : List Term)
    (hocc : ¬ hyps.any (Term.occursVar x) = true) (v : Nat)
    (hh : ∀ h ∈ hyps, holds M ρ h) : ∀ h ∈ hyps, holds M (ρ.update k n T v) h := by
  intro h hm
  have hno : Term.occursVar x h = false := by
    cases hc : Term.occursVar x h with
    | false => rfl
    | true => exact absurd (List.any_eq_true.2 ⟨h, hm, hc⟩) hocc
  unfold holds
  rw [sem_update_of_not_occurs M ρ x k n T hk h hno v [] []]
  exact hh h hm

theorem Forall2.exists_right {α β : Type} {R : α → β → Prop} {l1 : List α} {l2 : List β}
    (h : Forall2 R l1 l2) : ∀ a ∈ l1, ∃ b ∈ l2, R a b := by
  induction h with
  | nil => intro a ha; cases ha
  | cons hr _ ih =>
    intro a ha
    cases ha with
    | head => exact ⟨_, List.mem_cons_self, hr⟩
    | tail _ ha' =>
      obtain ⟨b, hb, hab⟩ := ih a ha'
      exact ⟨b, List.mem_cons_of_mem _ hb, hab⟩

theorem Forall2.exists_left {α β : Type} {R : α → β → Prop} {l1 : List α} {l2 : List β}
    (h : Forall2 R l1 l2) : ∀ b ∈ l2, ∃ a ∈ l1, R a b := by
  induction h with
  | nil => intro a ha; cases ha
  | cons hr _ ih =>
    intro b hb
    cases hb with
    | head => exact ⟨_, List.mem_cons_self, hr⟩
    | tail _ hb' =>
      obtain ⟨a, ha, hab⟩ := ih b hb'
      exact ⟨a, List.mem_cons_of_mem _ ha, hab⟩

theorem holds_substType (M : Model) (ρ : Valuation) (σ : Ty.TyInst) (t : Term) (T : Ty)
    (ht : Term.checkedGetType [] t = .ok T) :
    holds M ρ (Term.substType σ t) ↔ holds (M.pull σ) (ρ.pull M σ) t := by
  unfold holds
  have := sem_substType M ρ σ [] [] t T ht
  simp only [List.map_nil] at this
  rw [this]

end Holpy
