import Holpy.Kernel.SemBasic
/-
de Bruijn machinery: shifting (`incr_boundvars`), substitution for a bound variable
(`subst_bound`) and beta-conversion preserve types and denotations; capture-freeness is the
corollary that the denotation of the result is the denotation of the body with the argument's
value at the binder's position, for every environment.
-/
namespace Holpy

/-! ### list-index helpers -/

theorem getElem?_shift_ge {α : Type} (lo ex hi : List α) (i : Nat) (h : lo.length ≤ i) :
    (lo ++ ex ++ hi)[i + ex.length]? = (lo ++ hi)[i]? := by
  grind

theorem getElem?_shift_lt {α : Type} (lo ex hi : List α) (i : Nat) (h : i < lo.length) :
    (lo ++ ex ++ hi)[i]? = (lo ++ hi)[i]? := by
  grind

/-- shifting the loose bound variables of `t` by `ex.length` past `lo.length` local binders -/
theorem Term.getType_incrAt (lo ex hi : List Ty) (t : Term) :
    Term.getType (lo ++ ex ++ hi) (Term.incrAt ex.length lo.length t) = Term.getType (lo ++ hi) t := by
  induction t generalizing lo with
  | svar n T => rfl
  | var n T => rfl
  | const n T => rfl
  | comb f a ihf iha =>
    simp only [Term.incrAt, Term.getType, ihf lo]
  | abs x T b ih =>
    have := ih (T :: lo)
    simp only [List.cons_append, List.length_cons] at this
    simp only [Term.incrAt, Term.getType, this]
  | bound i =>
    simp only [Term.incrAt]
    split
    · rename_i h
      simp only [Term.getType, getElem?_shift_ge lo ex hi i h]
    · rename_i h
      simp only [Term.getType, getElem?_shift_lt lo ex hi i (by omega)]

theorem Term.checkedGetType_incrAt (lo ex hi : List Ty) (t : Term) :
    Term.checkedGetType (lo ++ ex ++ hi) (Term.incrAt ex.length lo.length t)
      = Term.checkedGetType (lo ++ hi) t := by
  induction t generalizing lo with
  | svar n T => rfl
  | var n T => rfl
  | const n T => rfl
  | comb f a ihf iha =>
    simp only [Term.incrAt, Term.checkedGetType, ihf lo, iha lo]
  | abs x T b ih =>
    have := ih (T :: lo)
    simp only [List.cons_append, List.length_cons] at this
    simp only [Term.incrAt, Term.checkedGetType, this]
  | bound i =>
    simp only [Term.incrAt]
    split
    · rename_i h
      simp only [Term.checkedGetType, getElem?_shift_ge lo ex hi i h]
    · rename_i h
      simp only [Term.checkedGetType, getElem?_shift_lt lo ex hi i (by omega)]

theorem sem_incrAt (M : Model) (ρ : Valuation) (lo ex hi : List Ty) (elo eex ehi : List Nat)
    (h1 : elo.length = lo.length) (h2 : eex.length = ex.length) (t : Term) :
    sem M ρ (lo ++ ex ++ hi) (elo ++ eex ++ ehi) (Term.incrAt ex.length lo.length t)
      = sem M ρ (lo ++ hi) (elo ++ ehi) t := by
  induction t generalizing lo elo with
  | svar n T => rfl
  | var n T => rfl
  | const n T => rfl
  | comb f a ihf iha =>
    simp only [Term.incrAt, sem, Term.getType_incrAt, ihf lo elo h1, iha lo elo h1]
  | abs x T b ih =>
    have hty := Term.getType_incrAt (T :: lo) ex hi b
    simp only [List.cons_append, List.length_cons] at hty
    have hs : ∀ v, sem M ρ (T :: (lo ++ ex ++ hi)) (v :: (elo ++ eex ++ ehi))
        (Term.incrAt ex.length (lo.length + 1) b) = sem M ρ (T :: (lo ++ hi)) (v :: (elo ++ ehi)) b := by
      intro v
      have := ih (T :: lo) (v :: elo) (by simp [h1])
      simpa only [List.cons_append, List.length_cons] using this
    simp only [Term.incrAt, sem, hty, hs]
  | bound i =>
    simp only [Term.incrAt]
    split
    · rename_i h
      simp only [sem]
      rw [← h2, getElem?_shift_ge elo eex ehi i (by omega)]
    · rename_i h
      simp only [sem, getElem?_shift_lt elo eex ehi i (by omega)]

/-- `incr_boundvars` is the identity on terms without loose bound variables (the Python's
`is_open` short cut in `subst_bound`) -/
theorem Term.incrAt_closed (inc lev : Nat) (t : Term) (h : Term.isOpenAt lev t = false) :
    Term.incrAt inc lev t = t := by
  induction t generalizing lev with
  | svar n T => rfl
  | var n T => rfl
  | const n T => rfl
  | comb f a ihf iha =>
    simp only [Term.isOpenAt, Bool.or_eq_false_iff] at h
    simp only [Term.incrAt, ihf lev h.1, iha lev h.2]
  | abs x T b ih =>
    simp only [Term.isOpenAt] at h
    simp only [Term.incrAt, ih _ h]
  | bound i =>
    simp only [Term.isOpenAt, decide_eq_false_iff_not] at h
    simp only [Term.incrAt, if_neg h]

/-! ### `subst_bound` -/

theorem getElem?_mid {α : Type} (lo hi : List α) (x : α) : (lo ++ x :: hi)[lo.length]? = some x := by
  grind

theorem getElem?_drop_gt {α : Type} (lo hi : List α) (x : α) (i : Nat) (h : lo.length < i) :
    (lo ++ hi)[i - 1]? = (lo ++ x :: hi)[i]? := by
  grind

theorem getElem?_drop_lt {α : Type} (lo hi : List α) (x : α) (i : Nat) (h : i < lo.length) :
    (lo ++ hi)[i]? = (lo ++ x :: hi)[i]? := by
  grind

theorem Term.getType_incrBoundvars (lo hi : List Ty) (u : Term) :
    Term.getType (lo ++ hi) (Term.incrBoundvars lo.length u) = Term.getType hi u := by
  have := Term.getType_incrAt [] lo hi u
  simpa only [List.nil_append, List.length_nil, Term.incrBoundvars] using this

theorem Term.checkedGetType_incrBoundvars (lo hi : List Ty) (u : Term) :
    Term.checkedGetType (lo ++ hi) (Term.incrBoundvars lo.length u) = Term.checkedGetType hi u := by
  have := Term.checkedGetType_incrAt [] lo hi u
  simpa only [List.nil_append, List.length_nil, Term.incrBoundvars] using this

theorem sem_incrBoundvars (M : Model) (ρ : Valuation) (lo hi : List Ty) (elo ehi : List Nat)
    (h1 : elo.length = lo.length) (u : Term) :
    sem M ρ (lo ++ hi) (elo ++ ehi) (Term.incrBoundvars lo.length u) = sem M ρ hi ehi u := by
  have := sem_incrAt M ρ [] lo hi [] elo ehi rfl h1 u
  simpa only [List.nil_append, List.length_nil, Term.incrBoundvars] using this

/-- typing of `subst_bound`: `s` lives under `lo` local binders on top of the binder of type `T`;
the argument `u` lives in the outer context `hi` -/
theorem Term.getType_substBoundAt (lo hi : List Ty) (T : Ty) (u s : Term)
    (hu : Term.getType hi u = .ok T) :
    Term.getType (lo ++ hi) (Term.substBoundAt u lo.length s) = Term.getType (lo ++ T :: hi) s := by
  induction s generalizing lo with
  | svar n T => rfl
  | var n T => rfl
  | const n T => rfl
  | comb f a ihf iha =>
    simp only [Term.substBoundAt, Term.getType, ihf lo]
  | abs x T' b ih =>
    have := ih (T' :: lo)
    simp only [List.cons_append, List.length_cons] at this
    simp only [Term.substBoundAt, Term.getType, this]
  | bound i =>
    simp only [Term.substBoundAt]
    split
    · rename_i h
      have h' : i = lo.length := by simpa using h
      subst h'
      simp only [Term.getType_incrBoundvars, hu, Term.getType, getElem?_mid]
    · split
      · rename_i h
        simp only [Term.getType, getElem?_drop_gt lo hi T i h]
      · rename_i h0 h
        have h0' : i ≠ lo.length := by simpa using h0
        simp only [Term.getType, getElem?_drop_lt lo hi T i (by omega)]

/-- `subst_bound` typing as an equation (errors included) -/
theorem Term.checkedGetType_substBoundAt_eq (lo hi : List Ty) (T : Ty) (u s : Term)
    (hu : Term.checkedGetType hi u = .ok T) :
    Term.checkedGetType (lo ++ hi) (Term.substBoundAt u lo.length s)
      = Term.checkedGetType (lo ++ T :: hi) s := by
  induction s generalizing lo with
  | svar n T => rfl
  | var n T => rfl
  | const n T => rfl
  | comb f a ihf iha =>
    simp only [Term.substBoundAt, Term.checkedGetType, ihf lo, iha lo]
  | abs x T' b ih =>
    have := ih (T' :: lo)
    simp only [List.cons_append, List.length_cons] at this
    simp only [Term.substBoundAt, Term.checkedGetType, this]
  | bound i =>
    simp only [Term.substBoundAt]
    split
    · rename_i h
      have h' : i = lo.length := by simpa using h
      subst h'
      simp only [Term.checkedGetType_incrBoundvars, hu, Term.checkedGetType, getElem?_mid]
    · split
      · rename_i h
        simp only [Term.checkedGetType, getElem?_drop_gt lo hi T i h]
      · rename_i h0 h
        have h0' : i ≠ lo.length := by simpa using h0
        simp only [Term.checkedGetType, getElem?_drop_lt lo hi T i (by omega)]

theorem Term.checkedGetType_substBoundAt (lo hi : List Ty) (T S : Ty) (u s : Term)
    (hu : Term.checkedGetType hi u = .ok T)
    (hs : Term.checkedGetType (lo ++ T :: hi) s = .ok S) :
    Term.checkedGetType (lo ++ hi) (Term.substBoundAt u lo.length s) = .ok S := by
  rw [Term.checkedGetType_substBoundAt_eq lo hi T u s hu, hs]

/-- denotation of `subst_bound`: the body evaluated with the argument's value at the binder -/
theorem sem_substBoundAt (M : Model) (ρ : Valuation) (lo hi : List Ty) (elo ehi : List Nat)
    (h1 : elo.length = lo.length) (T : Ty) (u s : Term) (hu : Term.getType hi u = .ok T) :
    sem M ρ (lo ++ hi) (elo ++ ehi) (Term.substBoundAt u lo.length s)
      = sem M ρ (lo ++ T :: hi) (elo ++ sem M ρ hi ehi u :: ehi) s := by
  induction s generalizing lo elo with
  | svar n T => rfl
  | var n T => rfl
  | const n T => rfl
  | comb f a ihf iha =>
    simp only [Term.substBoundAt, sem, Term.getType_substBoundAt lo hi T u f hu,
      ihf lo elo h1, iha lo elo h1]
  | abs x T' b ih =>
    have hty := Term.getType_substBoundAt (T' :: lo) hi T u b hu
    simp only [List.cons_append, List.length_cons] at hty
    have hs : ∀ v, sem M ρ (T' :: (lo ++ hi)) (v :: (elo ++ ehi))
        (Term.substBoundAt u (lo.length + 1) b)
        = sem M ρ (T' :: (lo ++ T :: hi)) (v :: (elo ++ sem M ρ hi ehi u :: ehi)) b := by
      intro v
      have := ih (T' :: lo) (v :: elo) (by simp [h1])
      simpa only [List.cons_append, List.length_cons] using this
    simp only [Term.substBoundAt, sem, hty, hs]
  | bound i =>
    simp only [Term.substBoundAt]
    split
    · rename_i h
      have h' : i = lo.length := by simpa using h
      subst h'
      rw [sem_incrBoundvars M ρ lo hi elo ehi h1 u]
      simp only [sem]
      rw [← h1, getElem?_mid]
      rfl
    · split
      · rename_i h
        simp only [sem, getElem?_drop_gt elo ehi (sem M ρ hi ehi u) i (by omega)]
      · rename_i h0 h
        have h0' : i ≠ lo.length := by simpa using h0
        simp only [sem, getElem?_drop_lt elo ehi (sem M ρ hi ehi u) i (by omega)]

/-! ### beta-conversion -/

/-- inversion of `checked_get_type` on an application -/
theorem Term.checked_comb_inv (bd : List Ty) (f a : Term) (S : Ty)
    (h : Term.checkedGetType bd (.comb f a) = .ok S) :
    ∃ tf ta, Term.checkedGetType bd f = .ok tf ∧ Term.checkedGetType bd a = .ok ta ∧
      tf.isFun = true ∧ tf.domain? = some ta ∧ tf.range? = some S := by
  simp only [Term.checkedGetType, bind, Except.bind] at h
  cases hf : Term.checkedGetType bd f with
  | error e => simp [hf] at h
  | ok tf =>
    cases ha : Term.checkedGetType bd a with
    | error e => simp [hf, ha] at h
    | ok ta =>
      simp only [hf, ha] at h
      refine ⟨tf, ta, rfl, rfl, ?_⟩
      cases hfun : tf.isFun with
      | false => simp [hfun] at h
      | true =>
        simp only [hfun] at h
        cases hd : tf.domain? with
        | none => simp [hd] at h
        | some d =>
          simp only [hd] at h
          by_cases hda : d = ta
          · subst hda
            cases hr : tf.range? with
            | none => simp [hr] at h
            | some r =>
              simp [hr] at h
              simp [h]
          · simp [hda] at h

/-- inversion of `checked_get_type` on an abstraction -/
theorem Term.checked_abs_inv (bd : List Ty) (x : String) (T : Ty) (b : Term) (S : Ty)
    (h : Term.checkedGetType bd (.abs x T b) = .ok S) :
    ∃ tb, Term.checkedGetType (T :: bd) b = .ok tb ∧ S = Ty.fn T tb := by
  simp only [Term.checkedGetType, bind, Except.bind] at h
  cases hb : Term.checkedGetType (T :: bd) b with
  | error e => simp [hb] at h
  | ok tb =>
    simp only [hb, Except.ok.injEq] at h
    exact ⟨tb, rfl, h.symm⟩

/-- inversion of the typing of a beta-redex -/
theorem Term.checked_redex_inv (bd : List Ty) (x : String) (T S : Ty) (b a : Term)
    (h : Term.checkedGetType bd (.comb (.abs x T b) a) = .ok S) :
    Term.checkedGetType (T :: bd) b = .ok S ∧ Term.checkedGetType bd a = .ok T := by
  obtain ⟨tf, ta, hf, ha, _, hd, hr⟩ := Term.checked_comb_inv bd _ _ _ h
  obtain ⟨tb, hb, rfl⟩ := Term.checked_abs_inv bd x T b tf hf
  simp only [Ty.fn, Ty.domain?, Ty.range?, Option.some.injEq] at hd hr
  subst hd hr
  exact ⟨hb, ha⟩

/-- beta-conversion preserves the denotation of a well-typed redex -/
theorem sem_beta (M : Model) (ρ : Valuation) (hρ : Admissible M ρ) (bd : List Ty) (env : List Nat)
    (henv : EnvOK M bd env) (x : String) (T S : Ty) (b a : Term)
    (h : Term.checkedGetType bd (.comb (.abs x T b) a) = .ok S) :
    sem M ρ bd env (Term.substBoundAt a 0 b) = sem M ρ bd env (.comb (.abs x T b) a) := by
  obtain ⟨hb, ha⟩ := Term.checked_redex_inv bd x T S b a h
  have hlax := Term.getType_of_checked _ _ _ hb
  have h1 := sem_substBoundAt M ρ [] bd [] env rfl T a b (Term.getType_of_checked _ _ _ ha)
  simp only [List.nil_append, List.length_nil] at h1
  rw [h1]
  have hv := sem_lt M ρ hρ bd env henv a T ha
  have h2 := appCode_sem_abs M ρ hρ bd env henv x T S b hb _ hv
  rw [← h2]
  simp only [sem, Term.getType, hlax, bind, Except.bind, Ty.fn, Ty.range?]

/-- beta-conversion preserves the type -/
theorem checked_beta (bd : List Ty) (x : String) (T S : Ty) (b a : Term)
    (h : Term.checkedGetType bd (.comb (.abs x T b) a) = .ok S) :
    Term.checkedGetType bd (Term.substBoundAt a 0 b) = .ok S := by
  obtain ⟨hb, ha⟩ := Term.checked_redex_inv bd x T S b a h
  exact Term.checkedGetType_substBoundAt [] bd T S a b ha hb

/-! ### `beta_norm` -/

/-- the checked type of an application depends only on the checked types of its parts -/
theorem Term.checked_comb_congr (bd : List Ty) (f f' a a' : Term)
    (hf : Term.checkedGetType bd f' = Term.checkedGetType bd f)
    (ha : Term.checkedGetType bd a' = Term.checkedGetType bd a) :
    Term.checkedGetType bd (.comb f' a') = Term.checkedGetType bd (.comb f a) := by
  simp only [Term.checkedGetType, hf, ha]

/-- the denotation of an application depends only on the lax type of the head and the
denotations of its parts -/
theorem sem_comb_congr (M : Model) (ρ : Valuation) (bd : List Ty) (env : List Nat) (f f' a a' : Term)
    (ht : Term.getType bd f' = Term.getType bd f)
    (hf : sem M ρ bd env f' = sem M ρ bd env f) (ha : sem M ρ bd env a' = sem M ρ bd env a) :
    sem M ρ bd env (.comb f' a') = sem M ρ bd env (.comb f a) := by
  simp only [sem, ht, hf, ha]

/-- `beta_norm`: if it returns, the result has the same type and denotation (fuel model;
termination on well-typed terms is strong normalisation and is not proved) -/
theorem sem_betaNorm (M : Model) (ρ : Valuation) (hρ : Admissible M ρ) (fuel : Nat) (bd : List Ty)
    (env : List Nat) (henv : EnvOK M bd env) (t t' : Term) (S : Ty)
    (h : Term.checkedGetType bd t = .ok S) (hn : Term.betaNorm fuel t = .ok t') :
    Term.checkedGetType bd t' = .ok S ∧ sem M ρ bd env t' = sem M ρ bd env t := by
  induction fuel generalizing bd env t t' S with
  | zero => simp [Term.betaNorm] at hn
  | succ fuel ih =>
    cases t with
    | svar n T => simp only [Term.betaNorm, Except.ok.injEq] at hn; subst hn; exact ⟨h, rfl⟩
    | var n T => simp only [Term.betaNorm, Except.ok.injEq] at hn; subst hn; exact ⟨h, rfl⟩
    | const n T => simp only [Term.betaNorm, Except.ok.injEq] at hn; subst hn; exact ⟨h, rfl⟩
    | bound i => simp only [Term.betaNorm, Except.ok.injEq] at hn; subst hn; exact ⟨h, rfl⟩
    | abs x T b =>
      simp only [Term.betaNorm, bind, Except.bind] at hn
      cases hb : Term.betaNorm fuel b with
      | error e => simp [hb] at hn
      | ok b' =>
        simp only [hb, Except.ok.injEq] at hn
        subst hn
        obtain ⟨tb, hcb, rfl⟩ := Term.checked_abs_inv bd x T b S h
        have h0 : EnvOK M (T :: bd) (0 :: env) := Forall2.cons (Model.size_pos M T) henv
        have hty : Term.checkedGetType (T :: bd) b' = .ok tb := (ih _ _ h0 b b' tb hcb hb).1
        refine ⟨by simp only [Term.checkedGetType, hty, bind, Except.bind], ?_⟩
        simp only [sem, Term.getType_of_checked _ _ _ hty, Term.getType_of_checked _ _ _ hcb]
        apply lamCode_congr
        intro v hv
        exact (ih _ _ (Forall2.cons hv henv) b b' tb hcb hb).2
    | comb f a =>
      simp only [Term.betaNorm, bind, Except.bind] at hn
      obtain ⟨tf, ta, hcf, hca, _, _, _⟩ := Term.checked_comb_inv bd f a S h
      cases hf : Term.betaNorm fuel f with
      | error e => simp [hf] at hn
      | ok f' =>
        cases ha : Term.betaNorm fuel a with
        | error e => simp [hf, ha] at hn
        | ok a' =>
          simp only [hf, ha] at hn
          obtain ⟨hf1, hf2⟩ := ih bd env henv f f' tf hcf hf
          obtain ⟨ha1, ha2⟩ := ih bd env henv a a' ta hca ha
          have hc : Term.checkedGetType bd (.comb f' a') = .ok S := by
            rw [Term.checked_comb_congr bd f f' a a' (hf1.trans hcf.symm) (ha1.trans hca.symm), h]
          have hs : sem M ρ bd env (.comb f' a') = sem M ρ bd env (.comb f a) :=
            sem_comb_congr M ρ bd env f f' a a'
              ((Term.getType_of_checked _ _ _ hf1).trans (Term.getType_of_checked _ _ _ hcf).symm)
              hf2 ha2
          split at hn
          · rename_i x T b
            simp only [Term.betaConv, Term.substBound] at hn
            obtain ⟨hr1, hr2⟩ := ih bd env henv _ t' S (checked_beta bd x T S b a' hc) hn
            exact ⟨hr1, hr2.trans ((sem_beta M ρ hρ bd env henv x T S b a' hc).trans hs)⟩
          · simp only [Except.ok.injEq] at hn
            subst hn
            exact ⟨hc, hs⟩

end Holpy
