import Holpy.Kernel.SemBasic
/-
de Bruijn machinery: shifting (`incr_boundvars`), substitution for a bound variable
(`subst_bound`) and beta-conversion preserve types and denotations; capture-freeness is the
corollary that the denotation of the result is the denotation of the body with the argument's
value at the binder's position, for every environment.
-/
namespace Holpy

/-- shifting the loose bound variables of `t` by `ex.length` past `lo.length` local binders -/
theorem Term.getType_incrAt (lo ex hi : List Ty) (t : Term) :
    Term.getType (lo ++ ex ++ hi) (Term.incrAt ex.length lo.length t) = Term.getType (lo ++ hi) t := by
  sorry

theorem Term.checkedGetType_incrAt (lo ex hi : List Ty) (t : Term) :
    Term.checkedGetType (lo ++ ex ++ hi) (Term.incrAt ex.length lo.length t)
      = Term.checkedGetType (lo ++ hi) t := by
  sorry

theorem sem_incrAt (M : Model) (ρ : Valuation) (lo ex hi : List Ty) (elo eex ehi : List Nat)
    (h1 : elo.length = lo.length) (h2 : eex.length = ex.length) (t : Term) :
    sem M ρ (lo ++ ex ++ hi) (elo ++ eex ++ ehi) (Term.incrAt ex.length lo.length t)
      = sem M ρ (lo ++ hi) (elo ++ ehi) t := by
  sorry

/-- `incr_boundvars` is the identity on terms without loose bound variables (the Python's
`is_open` short cut in `subst_bound`) -/
theorem Term.incrAt_closed (inc lev : Nat) (t : Term) (h : Term.isOpenAt lev t = false) :
    Term.incrAt inc lev t = t := by
  sorry

/-- typing of `subst_bound`: `s` lives under `lo` local binders on top of the binder of type `T`;
the argument `u` lives in the outer context `hi` -/
theorem Term.getType_substBoundAt (lo hi : List Ty) (T : Ty) (u s : Term)
    (hu : Term.getType hi u = .ok T) :
    Term.getType (lo ++ hi) (Term.substBoundAt u lo.length s) = Term.getType (lo ++ T :: hi) s := by
  sorry

theorem Term.checkedGetType_substBoundAt (lo hi : List Ty) (T S : Ty) (u s : Term)
    (hu : Term.checkedGetType hi u = .ok T)
    (hs : Term.checkedGetType (lo ++ T :: hi) s = .ok S) :
    Term.checkedGetType (lo ++ hi) (Term.substBoundAt u lo.length s) = .ok S := by
  sorry

/-- denotation of `subst_bound`: the body evaluated with the argument's value at the binder -/
theorem sem_substBoundAt (M : Model) (ρ : Valuation) (lo hi : List Ty) (elo ehi : List Nat)
    (h1 : elo.length = lo.length) (T : Ty) (u s : Term) (hu : Term.getType hi u = .ok T) :
    sem M ρ (lo ++ hi) (elo ++ ehi) (Term.substBoundAt u lo.length s)
      = sem M ρ (lo ++ T :: hi) (elo ++ sem M ρ hi ehi u :: ehi) s := by
  sorry

/-- beta-conversion preserves the denotation of a well-typed redex -/
theorem sem_beta (M : Model) (ρ : Valuation) (hρ : Admissible M ρ) (bd : List Ty) (env : List Nat)
    (henv : EnvOK M bd env) (x : String) (T S : Ty) (b a : Term)
    (h : Term.checkedGetType bd (.comb (.abs x T b) a) = .ok S) :
    sem M ρ bd env (Term.substBoundAt a 0 b) = sem M ρ bd env (.comb (.abs x T b) a) := by
  sorry

/-- beta-conversion preserves the type -/
theorem checked_beta (bd : List Ty) (x : String) (T S : Ty) (b a : Term)
    (h : Term.checkedGetType bd (.comb (.abs x T b) a) = .ok S) :
    Term.checkedGetType bd (Term.substBoundAt a 0 b) = .ok S := by
  sorry

/-- `beta_norm`: if it returns, the result has the same type and denotation (fuel model;
termination on well-typed terms is strong normalisation and is not proved) -/
theorem sem_betaNorm (M : Model) (ρ : Valuation) (hρ : Admissible M ρ) (fuel : Nat) (bd : List Ty)
    (env : List Nat) (henv : EnvOK M bd env) (t t' : Term) (S : Ty)
    (h : Term.checkedGetType bd t = .ok S) (hn : Term.betaNorm fuel t = .ok t') :
    Term.checkedGetType bd t' = .ok S ∧ sem M ρ bd env t' = sem M ρ bd env t := by
  sorry

end Holpy
