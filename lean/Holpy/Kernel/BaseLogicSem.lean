import Holpy.Kernel.BaseLogicProofs
/-
What the base-logic connectives mean under a standard valuation (`StdBase`), in an arbitrary
binder context: the analogues of `sem_implies`/`sem_equals`/`sem_all` for `neg`, `conj`, `disj`,
`true`, `false`, `exists`, `exists1`, `IF`, and the shape of `Some`/`The` applications.
-/
namespace Holpy

def Term.mkNeg (a : Term) : Term := .comb (.const "neg" (Ty.fn Ty.bool Ty.bool)) a
def Term.mkConj (a b : Term) : Term :=
  .comb (.comb (.const "conj" (Ty.fn Ty.bool (Ty.fn Ty.bool Ty.bool))) a) b
def Term.mkDisj (a b : Term) : Term :=
  .comb (.comb (.const "disj" (Ty.fn Ty.bool (Ty.fn Ty.bool Ty.bool))) a) b
def Term.trueC : Term := .const "true" Ty.bool
def Term.falseC : Term := .const "false" Ty.bool
def Term.existsAt (T : Ty) (p : Term) : Term :=
  .comb (.const "exists" (Ty.fn (Ty.fn T Ty.bool) Ty.bool)) p
def Term.exists1At (T : Ty) (p : Term) : Term :=
  .comb (.const "exists1" (Ty.fn (Ty.fn T Ty.bool) Ty.bool)) p
def Term.ifAt (T : Ty) (c x y : Term) : Term :=
  .comb (.comb (.comb (.const "IF" (Ty.fn Ty.bool (Ty.fn T (Ty.fn T T)))) c) x) y
def Term.someAt (T : Ty) (p : Term) : Term :=
  .comb (.const "Some" (Ty.fn (Ty.fn T Ty.bool) T)) p
def Term.theAt (T : Ty) (p : Term) : Term :=
  .comb (.const "The" (Ty.fn (Ty.fn T Ty.bool) T)) p

/-- truth of a boolean term under binders -/
def holdsIn (M : Model) (ρ : Valuation) (bd : List Ty) (env : List Nat) (t : Term) : Prop :=
  sem M ρ bd env t = 1

instance (M : Model) (ρ : Valuation) (bd : List Ty) (env : List Nat) (t : Term) :
    Decidable (holdsIn M ρ bd env t) := by unfold holdsIn; infer_instance

theorem holds_iff_holdsIn (M : Model) (ρ : Valuation) (t : Term) :
    holds M ρ t ↔ holdsIn M ρ [] [] t := Iff.rfl

section
variable {M : Model} {ρ : Valuation} (hρ : Admissible M ρ) {bd : List Ty} {env : List Nat}
  (henv : EnvOK M bd env)
include hρ henv

theorem sem_bool_lt_in {t : Term} (h : Term.checkedGetType bd t = .ok Ty.bool) :
    sem M ρ bd env t < 2 := by
  have := sem_lt M ρ hρ bd env henv t Ty.bool h
  rwa [Model.size_bool] at this

theorem holdsIn_implies {a b : Term} (ha : Term.checkedGetType bd a = .ok Ty.bool)
    (hb : Term.checkedGetType bd b = .ok Ty.bool) :
    holdsIn M ρ bd env (Term.mkImplies a b) ↔ (holdsIn M ρ bd env a → holdsIn M ρ bd env b) := by
  unfold holdsIn
  have h1 := sem_bool_lt_in hρ henv ha
  have h2 := sem_bool_lt_in hρ henv hb
  rw [sem_implies M ρ bd env a b h1 h2]
  split
  · rename_i h; constructor
    · intro h'; cases h'
    · intro h'; have := h' h.1; omega
  · rename_i h; constructor
    · intro _ h'; omega
    · intro _; rfl

theorem holdsIn_eqAt {T : Ty} {x y : Term} (hx : Term.checkedGetType bd x = .ok T)
    (hy : Term.checkedGetType bd y = .ok T) :
    holdsIn M ρ bd env (Term.eqAt T x y) ↔ sem M ρ bd env x = sem M ρ bd env y := by
  unfold holdsIn Term.eqAt
  rw [sem_equals M ρ bd env T x y (sem_lt M ρ hρ bd env henv x T hx)
    (sem_lt M ρ hρ bd env henv y T hy)]
  split <;> simp_all

/-- applying the denotation of an abstraction -/
theorem appCode_sem_abs_in {x : String} {T tb : Ty} {b : Term}
    (hb : Term.checkedGetType (T :: bd) b = .ok tb) {v : Nat} (hv : v < M.size T) :
    appCode (sem M ρ bd env (.abs x T b)) v (M.size tb) = sem M ρ (T :: bd) (v :: env) b :=
  appCode_sem_abs M ρ hρ bd env henv x T tb b hb v hv

theorem sem_abs_lt {x : String} {T tb : Ty} {b : Term}
    (hb : Term.checkedGetType (T :: bd) b = .ok tb) :
    sem M ρ bd env (.abs x T b) < M.size tb ^ M.size T := by
  have hlt : Term.checkedGetType bd (.abs x T b) = .ok (Ty.fn T tb) := by
    simp only [Term.checkedGetType, bind, Except.bind, hb]
  have := sem_lt M ρ hρ bd env henv _ _ hlt
  rwa [Model.size_fn] at this

theorem holdsIn_allAt {T : Ty} {p : Term}
    (hp : Term.checkedGetType bd p = .ok (Ty.fn T Ty.bool)) :
    holdsIn M ρ bd env (Term.allAt T p) ↔
      ∀ v, v < M.size T → appCode (sem M ρ bd env p) v 2 = 1 := by
  have h := sem_lt M ρ hρ bd env henv p _ hp
  rw [Model.size_fn, Model.size_bool] at h
  exact sem_all M ρ bd env T p h

theorem holdsIn_allAt_abs {y : String} {T : Ty} {b : Term}
    (hb : Term.checkedGetType (T :: bd) b = .ok Ty.bool) :
    holdsIn M ρ bd env (Term.allAt T (.abs y T b)) ↔
      ∀ v, v < M.size T → holdsIn M ρ (T :: bd) (v :: env) b := by
  have hlt : Term.checkedGetType bd (.abs y T b) = .ok (Ty.fn T Ty.bool) := by
    simp only [Term.checkedGetType, bind, Except.bind, hb]
  rw [holdsIn_allAt hρ henv hlt]
  constructor
  · intro H v hv
    have := appCode_sem_abs_in hρ henv (x := y) hb hv
    rw [Model.size_bool] at this
    unfold holdsIn
    rw [← this]
    exact H v hv
  · intro H v hv
    have := appCode_sem_abs_in hρ henv (x := y) hb hv
    rw [Model.size_bool] at this
    rw [this]
    exact H v hv

end

/-! ### the base-logic constants under `StdBase` -/

section
variable {M : Model} {ρ : Valuation} (hC : StdBase M ρ)
include hC

theorem constVal_true : constVal M ρ "true" Ty.bool = 1 := by
  rw [constVal_nonlogical M ρ _ _ (by decide) (by decide) (by decide)]; exact hC.tru

theorem constVal_false : constVal M ρ "false" Ty.bool = 0 := by
  rw [constVal_nonlogical M ρ _ _ (by decide) (by decide) (by decide)]; exact hC.fls

theorem constVal_neg : constVal M ρ "neg" (Ty.fn Ty.bool Ty.bool) = negCode := by
  rw [constVal_nonlogical M ρ _ _ (by decide) (by decide) (by decide)]; exact hC.neg

theorem constVal_conj :
    constVal M ρ "conj" (Ty.fn Ty.bool (Ty.fn Ty.bool Ty.bool)) = conjCode := by
  rw [constVal_nonlogical M ρ _ _ (by decide) (by decide) (by decide)]; exact hC.conj

theorem constVal_disj :
    constVal M ρ "disj" (Ty.fn Ty.bool (Ty.fn Ty.bool Ty.bool)) = disjCode := by
  rw [constVal_nonlogical M ρ _ _ (by decide) (by decide) (by decide)]; exact hC.disj

theorem constVal_exists (T : Ty) :
    constVal M ρ "exists" (Ty.fn (Ty.fn T Ty.bool) Ty.bool) = exCode (M.size T) := by
  rw [constVal_nonlogical M ρ _ _ (by decide) (by decide) (by decide)]; exact hC.ex T

theorem constVal_exists1 (T : Ty) :
    constVal M ρ "exists1" (Ty.fn (Ty.fn T Ty.bool) Ty.bool) = ex1Code (M.size T) := by
  rw [constVal_nonlogical M ρ _ _ (by decide) (by decide) (by decide)]; exact hC.ex1 T

theorem constVal_IF (T : Ty) :
    constVal M ρ "IF" (Ty.fn Ty.bool (Ty.fn T (Ty.fn T T))) = ifCode (M.size T) := by
  rw [constVal_nonlogical M ρ _ _ (by decide) (by decide) (by decide)]; exact hC.ite T

theorem sem_trueC (bd : List Ty) (env : List Nat) : sem M ρ bd env Term.trueC = 1 := by
  simp only [Term.trueC, sem]; exact constVal_true hC

theorem sem_falseC (bd : List Ty) (env : List Nat) : sem M ρ bd env Term.falseC = 0 := by
  simp only [Term.falseC, sem]; exact constVal_false hC

theorem holdsIn_trueC (bd : List Ty) (env : List Nat) : holdsIn M ρ bd env Term.trueC :=
  sem_trueC hC bd env

theorem not_holdsIn_falseC (bd : List Ty) (env : List Nat) : ¬ holdsIn M ρ bd env Term.falseC := by
  unfold holdsIn; rw [sem_falseC hC]; decide

theorem sem_mkNeg (bd : List Ty) (env : List Nat) (a : Term) (ha : sem M ρ bd env a < 2) :
    sem M ρ bd env (Term.mkNeg a) = if sem M ρ bd env a = 0 then 1 else 0 := by
  rw [Term.mkNeg, sem_comb_const, constVal_neg hC, Model.size_bool]
  exact appCode_negCode _ ha

theorem sem_mkConj (bd : List Ty) (env : List Nat) (a b : Term) (ha : sem M ρ bd env a < 2)
    (hb : sem M ρ bd env b < 2) :
    sem M ρ bd env (Term.mkConj a b)
      = if sem M ρ bd env a = 1 ∧ sem M ρ bd env b = 1 then 1 else 0 := by
  rw [Term.mkConj, sem_comb_const2, constVal_conj hC, Model.size_fn, Model.size_bool]
  exact appCode_conjCode _ _ ha hb

theorem sem_mkDisj (bd : List Ty) (env : List Nat) (a b : Term) (ha : sem M ρ bd env a < 2)
    (hb : sem M ρ bd env b < 2) :
    sem M ρ bd env (Term.mkDisj a b)
      = if sem M ρ bd env a = 1 ∨ sem M ρ bd env b = 1 then 1 else 0 := by
  rw [Term.mkDisj, sem_comb_const2, constVal_disj hC, Model.size_fn, Model.size_bool]
  exact appCode_disjCode _ _ ha hb

theorem sem_existsAt (bd : List Ty) (env : List Nat) (T : Ty) (p : Term) :
    sem M ρ bd env (Term.existsAt T p) = appCode (exCode (M.size T)) (sem M ρ bd env p) 2 := by
  rw [Term.existsAt, sem_comb_const, constVal_exists hC, Model.size_bool]

theorem sem_exists1At (bd : List Ty) (env : List Nat) (T : Ty) (p : Term) :
    sem M ρ bd env (Term.exists1At T p) = appCode (ex1Code (M.size T)) (sem M ρ bd env p) 2 := by
  rw [Term.exists1At, sem_comb_const, constVal_exists1 hC, Model.size_bool]

omit hC in
theorem sem_someAt (bd : List Ty) (env : List Nat) (T : Ty) (p : Term) :
    sem M ρ bd env (Term.someAt T p)
      = appCode (ρ 2 "Some" (BaseTy.choice T)) (sem M ρ bd env p) (M.size T) := by
  rw [Term.someAt, sem_comb_const, constVal_nonlogical M ρ _ _ (by decide) (by decide) (by decide)]
  rfl

omit hC in
theorem sem_theAt (bd : List Ty) (env : List Nat) (T : Ty) (p : Term) :
    sem M ρ bd env (Term.theAt T p)
      = appCode (ρ 2 "The" (BaseTy.choice T)) (sem M ρ bd env p) (M.size T) := by
  rw [Term.theAt, sem_comb_const, constVal_nonlogical M ρ _ _ (by decide) (by decide) (by decide)]
  rfl

omit hC in
/-- the denotation of a constant of ternary function type applied to three arguments -/
theorem sem_comb_const3 (bd : List Ty) (env : List Nat) (n : String)
    (A B C D : Ty) (a b c : Term) :
    sem M ρ bd env (.comb (.comb (.comb (.const n (Ty.fn A (Ty.fn B (Ty.fn C D)))) a) b) c)
      = appCode (appCode (appCode (constVal M ρ n (Ty.fn A (Ty.fn B (Ty.fn C D))))
          (sem M ρ bd env a) (M.size (Ty.fn B (Ty.fn C D)))) (sem M ρ bd env b)
          (M.size (Ty.fn C D))) (sem M ρ bd env c) (M.size D) := by
  have ht : Term.getType bd (.comb (.comb (.const n (Ty.fn A (Ty.fn B (Ty.fn C D)))) a) b)
      = .ok (Ty.fn C D) := by
    simp [Term.getType, bind, Except.bind, Ty.isFun_fn, Ty.range?_fn]
  rw [sem, ht]
  simp only [Ty.range?_fn, sem_comb_const2]

theorem sem_ifAt (bd : List Ty) (env : List Nat) (T : Ty) (c x y : Term)
    (hc : sem M ρ bd env c < 2) (hx : sem M ρ bd env x < M.size T)
    (hy : sem M ρ bd env y < M.size T) :
    sem M ρ bd env (Term.ifAt T c x y)
      = if sem M ρ bd env c = 1 then sem M ρ bd env x else sem M ρ bd env y := by
  rw [Term.ifAt, sem_comb_const3, constVal_IF hC]
  simp only [Model.size_fn]
  exact appCode_ifCode _ _ _ _ hc hx hy

end

section
variable {M : Model} {ρ : Valuation} (hρ : Admissible M ρ) (hC : StdBase M ρ) {bd : List Ty}
  {env : List Nat} (henv : EnvOK M bd env)
include hρ hC henv

theorem holdsIn_neg {a : Term} (ha : Term.checkedGetType bd a = .ok Ty.bool) :
    holdsIn M ρ bd env (Term.mkNeg a) ↔ ¬ holdsIn M ρ bd env a := by
  unfold holdsIn
  have h1 := sem_bool_lt_in hρ henv ha
  rw [sem_mkNeg hC bd env a h1]
  split <;> omega

theorem holdsIn_conj {a b : Term} (ha : Term.checkedGetType bd a = .ok Ty.bool)
    (hb : Term.checkedGetType bd b = .ok Ty.bool) :
    holdsIn M ρ bd env (Term.mkConj a b) ↔ holdsIn M ρ bd env a ∧ holdsIn M ρ bd env b := by
  unfold holdsIn
  rw [sem_mkConj hC bd env a b (sem_bool_lt_in hρ henv ha) (sem_bool_lt_in hρ henv hb)]
  split <;> simp_all

theorem holdsIn_disj {a b : Term} (ha : Term.checkedGetType bd a = .ok Ty.bool)
    (hb : Term.checkedGetType bd b = .ok Ty.bool) :
    holdsIn M ρ bd env (Term.mkDisj a b) ↔ holdsIn M ρ bd env a ∨ holdsIn M ρ bd env b := by
  unfold holdsIn
  rw [sem_mkDisj hC bd env a b (sem_bool_lt_in hρ henv ha) (sem_bool_lt_in hρ henv hb)]
  split <;> simp_all

theorem holdsIn_existsAt {T : Ty} {p : Term}
    (hp : Term.checkedGetType bd p = .ok (Ty.fn T Ty.bool)) :
    holdsIn M ρ bd env (Term.existsAt T p) ↔
      ∃ v, v < M.size T ∧ appCode (sem M ρ bd env p) v 2 = 1 := by
  have h := sem_lt M ρ hρ bd env henv p _ hp
  rw [Model.size_fn, Model.size_bool] at h
  unfold holdsIn
  rw [sem_existsAt hC]
  exact appCode_exCode _ _ h

theorem holdsIn_existsAt_abs {y : String} {T : Ty} {b : Term}
    (hb : Term.checkedGetType (T :: bd) b = .ok Ty.bool) :
    holdsIn M ρ bd env (Term.existsAt T (.abs y T b)) ↔
      ∃ v, v < M.size T ∧ holdsIn M ρ (T :: bd) (v :: env) b := by
  have hlt : Term.checkedGetType bd (.abs y T b) = .ok (Ty.fn T Ty.bool) := by
    simp only [Term.checkedGetType, bind, Except.bind, hb]
  rw [holdsIn_existsAt hρ hC henv hlt]
  constructor
  · rintro ⟨v, hv, H⟩
    have := appCode_sem_abs_in hρ henv (x := y) hb hv
    rw [Model.size_bool] at this
    exact ⟨v, hv, by unfold holdsIn; rw [← this]; exact H⟩
  · rintro ⟨v, hv, H⟩
    have := appCode_sem_abs_in hρ henv (x := y) hb hv
    rw [Model.size_bool] at this
    exact ⟨v, hv, by rw [this]; exact H⟩

theorem holdsIn_exists1At {T : Ty} {p : Term}
    (hp : Term.checkedGetType bd p = .ok (Ty.fn T Ty.bool)) :
    holdsIn M ρ bd env (Term.exists1At T p) ↔
      ∃ x, x < M.size T ∧ appCode (sem M ρ bd env p) x 2 = 1 ∧
        ∀ y, y < M.size T → appCode (sem M ρ bd env p) y 2 = 1 → y = x := by
  have h := sem_lt M ρ hρ bd env henv p _ hp
  rw [Model.size_fn, Model.size_bool] at h
  unfold holdsIn
  rw [sem_exists1At hC]
  exact appCode_ex1Code _ _ h

theorem sem_ifAt_typed {T : Ty} {c x y : Term} (hc : Term.checkedGetType bd c = .ok Ty.bool)
    (hx : Term.checkedGetType bd x = .ok T) (hy : Term.checkedGetType bd y = .ok T) :
    sem M ρ bd env (Term.ifAt T c x y)
      = if holdsIn M ρ bd env c then sem M ρ bd env x else sem M ρ bd env y :=
  sem_ifAt hC bd env T c x y (sem_bool_lt_in hρ henv hc) (sem_lt M ρ hρ bd env henv x T hx)
    (sem_lt M ρ hρ bd env henv y T hy)

end

/-- what the `variable` rule asserts, `⊢ _VAR x`, is valid under every standard valuation -/
theorem mkVAR_validIn (n : String) (T : Ty) (M : Model) : ValidIn StdBase M (Thm.mkVAR n T) := by
  intro ρ hρ hC _
  show sem M ρ [] [] (.comb (.const "_VAR" (Ty.fn T Ty.bool)) (.var n T)) = 1
  rw [sem_comb_const, constVal_nonlogical M ρ _ _ (by decide) (by decide) (by decide), hC.var_ T,
    Model.size_bool]
  exact appCode_varCode _ _ (hρ 1 n T)

/-! ### small evaluation facts -/

theorem sem_app_svar (M : Model) (ρ : Valuation) (bd : List Ty) (env : List Nat) (n : String)
    (A B : Ty) (t : Term) :
    sem M ρ bd env (.comb (.svar n (Ty.fn A B)) t)
      = appCode (ρ 0 n (Ty.fn A B)) (sem M ρ bd env t) (M.size B) := by
  simp only [sem, Term.getType, Ty.range?_fn]

theorem sem_svar (M : Model) (ρ : Valuation) (bd : List Ty) (env : List Nat) (n : String) (T : Ty) :
    sem M ρ bd env (.svar n T) = ρ 0 n T := by
  simp only [sem]

theorem sem_bound_zero (M : Model) (ρ : Valuation) (bd : List Ty) (v : Nat) (env : List Nat) :
    sem M ρ bd (v :: env) (.bound 0) = v := by
  simp [sem]

theorem sem_bound_one (M : Model) (ρ : Valuation) (bd : List Ty) (v w : Nat) (env : List Nat) :
    sem M ρ bd (v :: w :: env) (.bound 1) = w := by
  simp [sem]

/-- two boolean values that are 1 at the same time are equal -/
theorem bool_eq_of_iff {a b : Nat} (ha : a < 2) (hb : b < 2) (h : a = 1 ↔ b = 1) : a = b := by
  by_cases h1 : a = 1
  · rw [h1, h.1 h1]
  · have : b ≠ 1 := fun hb1 => h1 (h.2 hb1)
    omega

end Holpy
