/-
Shared kernel model — types (`kernel/type.py`).  Import-free.

`Ty` is `STVar(name) | TVar(name) | TConst(name, *args)`.  Functions mirror the Python:
`subst` replaces schematic type variables only; `matchIncr` is `Type.match_incr` (after the fix
that makes an arity mismatch fail instead of silently zipping); `isFun/domain?/range?` are the lax
accessors (`is_fun` looks at the name only, `domain_type`/`range_type` index `args`).
-/
namespace Holpy

inductive Ty where
  | stvar (n : String)
  | tvar (n : String)
  | con (n : String) (args : List Ty)
  deriving Repr, Inhabited

namespace Ty

mutual
def beq : Ty → Ty → Bool
  | .stvar a, .stvar b => a == b
  | .tvar a, .tvar b => a == b
  | .con a as, .con b bs => a == b && beqList as bs
  | _, _ => false
def beqList : List Ty → List Ty → Bool
  | [], [] => true
  | a :: as, b :: bs => beq a b && beqList as bs
  | _, _ => false
end

mutual
theorem beq_eq : ∀ a b : Ty, beq a b = true ↔ a = b
  | .stvar a, .stvar b => by simp [beq]
  | .tvar a, .tvar b => by simp [beq]
  | .con a as, .con b bs => by simp [beq, beqList_eq as bs]
  | .stvar _, .tvar _ | .stvar _, .con _ _ | .tvar _, .stvar _ | .tvar _, .con _ _
  | .con _ _, .stvar _ | .con _ _, .tvar _ => by simp [beq]
theorem beqList_eq : ∀ a b : List Ty, beqList a b = true ↔ a = b
  | [], [] => by simp [beqList]
  | a :: as, b :: bs => by simp [beqList, beq_eq a b, beqList_eq as bs]
  | [], _ :: _ | _ :: _, [] => by simp [beqList]
end

instance : DecidableEq Ty := fun a b =>
  if h : beq a b then isTrue ((beq_eq a b).1 h) else isFalse (fun e => h ((beq_eq a b).2 e))

/-- Induction principle with the list of arguments handled by membership. -/
theorem ind {P : Ty → Prop} (hs : ∀ n, P (.stvar n)) (ht : ∀ n, P (.tvar n))
    (hc : ∀ n args, (∀ a ∈ args, P a) → P (.con n args)) : ∀ T, P T := by
  intro T
  induction T using Ty.rec (motive_2 := fun l => ∀ a ∈ l, P a) with
  | stvar n => exact hs n
  | tvar n => exact ht n
  | con n args ih => exact hc n args ih
  | nil => rename_i a h; cases h
  | cons h t ih1 ih2 =>
    rename_i a ha
    cases ha with
    | head => exact ih1
    | tail _ h' => exact ih2 a h'

def bool : Ty := .con "bool" []
def fn (a b : Ty) : Ty := .con "fun" [a, b]

/-- `is_fun`: looks at the constructor name only. -/
def isFun : Ty → Bool
  | .con "fun" _ => true
  | _ => false

/-- `domain_type()`: `args[0]` (IndexError ↦ none). -/
def domain? : Ty → Option Ty
  | .con "fun" (a :: _) => some a
  | _ => none

/-- `range_type()`: `args[1]` (IndexError ↦ none). -/
def range? : Ty → Option Ty
  | .con "fun" (_ :: b :: _) => some b
  | _ => none

abbrev TyInst := List (String × Ty)

/-- `Type.subst`: only schematic type variables are replaced. -/
def subst (σ : TyInst) : Ty → Ty
  | .stvar n => match σ.lookup n with
    | some T => T
    | none => .stvar n
  | .tvar n => .tvar n
  | .con n args => .con n (args.map (subst σ))

mutual
/-- `Type.match_incr` (with the arity check of the fix). `none` = TypeMatchException. -/
def matchIncr : Ty → Ty → TyInst → Option TyInst
  | .stvar n, T, σ =>
    match σ.lookup n with
    | some T' => if T = T' then some σ else none
    | none => some (σ ++ [(n, T)])
  | .tvar n, T, σ => if T = .tvar n then some σ else none
  | .con n args, .con m args', σ =>
    if n = m then matchIncrList args args' σ else none
  | .con _ _, _, _ => none
def matchIncrList : List Ty → List Ty → TyInst → Option TyInst
  | [], [], σ => some σ
  | a :: as, b :: bs, σ =>
    match matchIncr a b σ with
    | some σ' => matchIncrList as bs σ'
    | none => none
  | _, _, _ => none
end

mutual
def stvars : Ty → List String
  | .stvar n => [n]
  | .tvar _ => []
  | .con _ args => stvarsList args
def stvarsList : List Ty → List String
  | [] => []
  | a :: as => stvars a ++ stvarsList as
end

mutual
def tvars : Ty → List String
  | .stvar _ => []
  | .tvar n => [n]
  | .con _ args => tvarsList args
def tvarsList : List Ty → List String
  | [] => []
  | a :: as => tvars a ++ tvarsList as
end

end Ty
end Holpy
