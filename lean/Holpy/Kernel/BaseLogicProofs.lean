import Holpy.Kernel.BaseLogic
import Holpy.Kernel.SoundnessIn
/-
The standard interpretation of the base logic: what the codes compute, `StdBase` is a closed
class (so the rule soundness theorems of `SoundnessIn.lean` apply to it), and it is inhabited in
every model by the executable valuation `stdVal` the oracle uses.
-/
namespace Holpy

/-! ### the codes -/

theorem negCode_lt : negCode < 2 ^ 2 := by decide

theorem appCode_negCode (x : Nat) (hx : x < 2) :
    appCode negCode x 2 = if x = 0 then 1 else 0 := by
  obtain rfl | rfl : x = 0 ∨ x = 1 := by omega
  all_goals decide

theorem conjCode_lt : conjCode < 4 ^ 2 := by decide

theorem appCode_conjCode (x y : Nat) (hx : x < 2) (hy : y < 2) :
    appCode (appCode conjCode x 4) y 2 = if x = 1 ∧ y = 1 then 1 else 0 := by
  obtain rfl | rfl : x = 0 ∨ x = 1 := by omega
  all_goals
    obtain rfl | rfl : y = 0 ∨ y = 1 := by omega
    all_goals decide

theorem disjCode_lt : disjCode < 4 ^ 2 := by decide

theorem appCode_disjCode (x y : Nat) (hx : x < 2) (hy : y < 2) :
    appCode (appCode disjCode x 4) y 2 = if x = 1 ∨ y = 1 then 1 else 0 := by
  obtain rfl | rfl : x = 0 ∨ x = 1 := by omega
  all_goals
    obtain rfl | rfl : y = 0 ∨ y = 1 := by omega
    all_goals decide

theorem ite_zero_one_lt_two (p : Prop) [Decidable p] : (if p then 0 else 1) < 2 := by
  split <;> omega

theorem exCode_lt (n : Nat) : exCode n < 2 ^ (2 ^ n) := by
  unfold exCode
  apply lamCode_lt
  intro v _
  exact ite_zero_one_lt_two _

theorem appCode_zero (v b : Nat) : appCode 0 v b = 0 := by
  simp [appCode]

/-- `exists f` is 1 iff some digit of the predicate code `f` is 1 -/
theorem appCode_exCode (n f : Nat) (hf : f < 2 ^ n) :
    appCode (exCode n) f 2 = 1 ↔ ∃ v, v < n ∧ appCode f v 2 = 1 := by
  unfold exCode
  rw [appCode_lamCode _ (2 ^ n) 2 f hf (fun u _ => ite_zero_one_lt_two _)]
  have hpos : 0 < 2 ^ n := Nat.pow_pos (by decide)
  constructor
  · intro h
    have hne : f ≠ 0 := by
      intro h0; simp [h0] at h
    apply Classical.byContradiction
    intro hno
    apply hne
    apply code_ext f 0 n 2 hf hpos
    intro v hv
    rw [appCode_zero]
    have hlt : appCode f v 2 < 2 := appCode_lt _ _ _ (by decide)
    have : appCode f v 2 ≠ 1 := fun h1 => hno ⟨v, hv, h1⟩
    omega
  · rintro ⟨v, hv, h1⟩
    have hne : f ≠ 0 := by
      intro h0; rw [h0, appCode_zero] at h1; cases h1
    simp [hne]

theorem appCode_exCode_lt (n f : Nat) : appCode (exCode n) f 2 < 2 :=
  appCode_lt _ _ _ (by decide)

theorem uniqDigit_iff (n f : Nat) : uniqDigit n f = true ↔
    ∃ x, x < n ∧ appCode f x 2 = 1 ∧ ∀ y, y < n → appCode f y 2 = 1 → y = x := by
  unfold uniqDigit
  simp only [List.any_eq_true, List.mem_range, Bool.and_eq_true, beq_iff_eq, List.all_eq_true,
    Bool.or_eq_true, bne_iff_ne, ne_eq]
  constructor
  · rintro ⟨x, hx, h1, h2⟩
    refine ⟨x, hx, h1, fun y hy hy1 => ?_⟩
    rcases h2 y hy with h | h
    · exact absurd hy1 h
    · exact h
  · rintro ⟨x, hx, h1, h2⟩
    refine ⟨x, hx, h1, fun y hy => ?_⟩
    by_cases hy1 : appCode f y 2 = 1
    · exact Or.inr (h2 y hy hy1)
    · exact Or.inl hy1

theorem ex1Code_lt (n : Nat) : ex1Code n < 2 ^ (2 ^ n) := by
  unfold ex1Code
  apply lamCode_lt
  intro v _
  split <;> omega

/-- `exists1 f` is 1 iff exactly one digit of the predicate code `f` is 1 -/
theorem appCode_ex1Code (n f : Nat) (hf : f < 2 ^ n) :
    appCode (ex1Code n) f 2 = 1 ↔
      ∃ x, x < n ∧ appCode f x 2 = 1 ∧ ∀ y, y < n → appCode f y 2 = 1 → y = x := by
  unfold ex1Code
  rw [appCode_lamCode _ (2 ^ n) 2 f hf (fun u _ => by split <;> omega), ← uniqDigit_iff]
  cases uniqDigit n f <;> simp

theorem ifCode_lt (n : Nat) : ifCode n < ((n ^ n) ^ n) ^ 2 := by
  unfold ifCode
  apply lamCode_lt
  intro c _
  apply lamCode_lt
  intro x hx
  apply lamCode_lt
  intro y hy
  split <;> assumption

/-- `IF c x y` -/
theorem appCode_ifCode (n c x y : Nat) (hc : c < 2) (hx : x < n) (hy : y < n) :
    appCode (appCode (appCode (ifCode n) c ((n ^ n) ^ n)) x (n ^ n)) y n
      = if c = 1 then x else y := by
  unfold ifCode
  have h3 : ∀ c x, x < n → ∀ y, y < n → (if c = 1 then x else y) < n := by
    intro c x hx y hy; split <;> assumption
  have h2 : ∀ c x, x < n → lamCode (fun y => if c = 1 then x else y) n n < n ^ n :=
    fun c x hx => lamCode_lt _ _ _ (h3 c x hx)
  have h1 : ∀ c, lamCode (fun x => lamCode (fun y => if c = 1 then x else y) n n) n (n ^ n)
      < (n ^ n) ^ n := fun c => lamCode_lt _ _ _ (fun x hx => h2 c x hx)
  rw [appCode_lamCode _ 2 _ c hc (fun u _ => h1 u),
    appCode_lamCode _ n _ x hx (fun u hu => h2 c u hu),
    appCode_lamCode _ n _ y hy (fun u hu => h3 c x hx u hu)]

theorem leastWitness_lt (n p : Nat) (hn : 0 < n) : leastWitness n p < n := by
  unfold leastWitness
  cases h : (List.range n).find? fun v => appCode p v 2 == 1 with
  | none => simpa using hn
  | some v =>
    have := List.mem_of_find?_eq_some h
    simpa using this

theorem leastWitness_spec (n p : Nat) (h : ∃ v, v < n ∧ appCode p v 2 = 1) :
    appCode p (leastWitness n p) 2 = 1 := by
  unfold leastWitness
  cases hf : (List.range n).find? fun v => appCode p v 2 == 1 with
  | none =>
    obtain ⟨v, hv, h1⟩ := h
    have := List.find?_eq_none.1 hf v (List.mem_range.2 hv)
    simp [h1] at this
  | some v =>
    have := List.find?_some hf
    simpa using this

theorem choiceCode_lt (n : Nat) (hn : 0 < n) : choiceCode n < n ^ (2 ^ n) := by
  unfold choiceCode
  apply lamCode_lt
  intro v _
  exact leastWitness_lt n v hn

theorem appCode_choiceCode (n p : Nat) (hn : 0 < n) (hp : p < 2 ^ n) :
    appCode (choiceCode n) p n = leastWitness n p := by
  unfold choiceCode
  exact appCode_lamCode _ _ _ p hp (fun u _ => leastWitness_lt n u hn)

theorem varCode_lt (n : Nat) : varCode n < 2 ^ n := by
  unfold varCode
  exact lamCode_lt _ _ _ (fun _ _ => by decide)

/-- `_VAR` holds of everything -/
theorem appCode_varCode (n v : Nat) (hv : v < n) : appCode (varCode n) v 2 = 1 := by
  unfold varCode
  exact appCode_lamCode (fun _ => 1) n 2 v hv (fun _ _ => by decide)

/-! ### `StdBase` is a closed class -/

theorem BaseTy.subst_un (σ : Ty.TyInst) : BaseTy.un.subst σ = BaseTy.un := by
  simp only [BaseTy.un, Ty.subst_fn, Ty.subst_bool]

theorem BaseTy.subst_bin (σ : Ty.TyInst) : BaseTy.bin.subst σ = BaseTy.bin := by
  simp only [BaseTy.bin, Ty.subst_fn, Ty.subst_bool]

theorem BaseTy.subst_quant (σ : Ty.TyInst) (a : Ty) :
    (BaseTy.quant a).subst σ = BaseTy.quant (a.subst σ) := by
  simp only [BaseTy.quant, Ty.subst_fn, Ty.subst_bool]

theorem BaseTy.subst_ite (σ : Ty.TyInst) (a : Ty) :
    (BaseTy.ite a).subst σ = BaseTy.ite (a.subst σ) := by
  simp only [BaseTy.ite, Ty.subst_fn, Ty.subst_bool]

theorem BaseTy.subst_choice (σ : Ty.TyInst) (a : Ty) :
    (BaseTy.choice a).subst σ = BaseTy.choice (a.subst σ) := by
  simp only [BaseTy.choice, Ty.subst_fn, Ty.subst_bool]

/-- a constant whose name is none of `equals`, `implies`, `all` is read from the valuation -/
theorem constVal_nonlogical (M : Model) (ρ : Valuation) (n : String) (T : Ty)
    (h1 : n ≠ "equals") (h2 : n ≠ "implies") (h3 : n ≠ "all") :
    constVal M ρ n T = ρ 2 n T := by
  cases hk : logicalKind n T with
  | none => simp only [constVal, hk]
  | some p =>
    obtain ⟨k, a⟩ := p
    rcases logicalKind_eq_some n T k a hk with ⟨-, rfl, -⟩ | ⟨-, rfl, -⟩ | ⟨-, rfl, -⟩
    · exact absurd rfl h1
    · exact absurd rfl h2
    · exact absurd rfl h3

theorem pull_const_nonlogical (M : Model) (ρ : Valuation) (σ : Ty.TyInst) (n : String) (T : Ty)
    (h1 : n ≠ "equals") (h2 : n ≠ "implies") (h3 : n ≠ "all") :
    (ρ.pull M σ) 2 n T = ρ 2 n (T.subst σ) := by
  simp only [Valuation.pull, if_true]
  exact constVal_nonlogical M ρ n _ h1 h2 h3

theorem update_const (ρ : Valuation) (k : Nat) (n : String) (T : Ty) (v : Nat) (hk : k < 2)
    (m : String) (S : Ty) : (ρ.update k n T v) 2 m S = ρ 2 m S := by
  unfold Valuation.update
  rw [if_neg]
  intro h
  omega

theorem instVal_const (M : Model) (ρ : Valuation) (inst : Term.Inst) (m : String) (S : Ty) :
    (instVal M ρ inst) 2 m S = ρ 2 m S := by
  simp [instVal]

theorem stdBase_closed : ClosedClass StdBase := by
  refine ⟨?_, ?_, ?_⟩
  · intro M ρ k n T v hk h
    refine ⟨?_, ?_, ?_, ?_, ?_, ?_, ?_, ?_, ?_, ?_, ?_⟩
    all_goals (try intro a)
    all_goals simp only [update_const ρ k n T v hk]
    · exact h.tru
    · exact h.fls
    · exact h.neg
    · exact h.conj
    · exact h.disj
    · exact h.ex a
    · exact h.ex1 a
    · exact h.ite a
    · exact h.some a
    · exact h.the a
    · exact h.var_ a
  · intro M ρ σ _ h
    refine ⟨?_, ?_, ?_, ?_, ?_, ?_, ?_, ?_, ?_, ?_, ?_⟩
    all_goals (try intro a)
    all_goals rw [pull_const_nonlogical M ρ σ _ _ (by decide) (by decide) (by decide)]
    · rw [Ty.subst_bool]; exact h.tru
    · rw [Ty.subst_bool]; exact h.fls
    · rw [BaseTy.subst_un]; exact h.neg
    · rw [BaseTy.subst_bin]; exact h.conj
    · rw [BaseTy.subst_bin]; exact h.disj
    · rw [BaseTy.subst_quant, Model.size_pull]; exact h.ex _
    · rw [BaseTy.subst_quant, Model.size_pull]; exact h.ex1 _
    · rw [BaseTy.subst_ite, Model.size_pull]; exact h.ite _
    · rw [BaseTy.subst_choice, Model.size_pull]; exact h.some _
    · rw [BaseTy.subst_choice, Model.size_pull]; exact h.the _
    · rw [Ty.subst_fn, Ty.subst_bool, Model.size_pull]; exact h.var_ _
  · intro M ρ inst h
    refine ⟨?_, ?_, ?_, ?_, ?_, ?_, ?_, ?_, ?_, ?_, ?_⟩
    all_goals (try intro a)
    all_goals simp only [instVal_const]
    · exact h.tru
    · exact h.fls
    · exact h.neg
    · exact h.conj
    · exact h.disj
    · exact h.ex a
    · exact h.ex1 a
    · exact h.ite a
    · exact h.some a
    · exact h.the a
    · exact h.var_ a

/-! ### `StdBase` is inhabited: the oracle's standard valuation -/

theorem stdConst_true (M : Model) : stdConst M "true" Ty.bool = some trueVal := by
  simp [stdConst, Ty.bool]

theorem stdConst_false (M : Model) : stdConst M "false" Ty.bool = some falseVal := by
  simp [stdConst, Ty.bool]

theorem stdConst_neg (M : Model) : stdConst M "neg" BaseTy.un = some negCode := by
  simp [stdConst, BaseTy.un, Ty.fn, Ty.bool]

theorem stdConst_conj (M : Model) : stdConst M "conj" BaseTy.bin = some conjCode := by
  simp [stdConst, BaseTy.bin, Ty.fn, Ty.bool]

theorem stdConst_disj (M : Model) : stdConst M "disj" BaseTy.bin = some disjCode := by
  simp [stdConst, BaseTy.bin, Ty.fn, Ty.bool]

theorem stdConst_exists (M : Model) (a : Ty) :
    stdConst M "exists" (BaseTy.quant a) = some (exCode (M.size a)) := by
  simp [stdConst, BaseTy.quant, Ty.fn, Ty.bool]

theorem stdConst_exists1 (M : Model) (a : Ty) :
    stdConst M "exists1" (BaseTy.quant a) = some (ex1Code (M.size a)) := by
  simp [stdConst, BaseTy.quant, Ty.fn, Ty.bool]

theorem stdConst_IF (M : Model) (a : Ty) :
    stdConst M "IF" (BaseTy.ite a) = some (ifCode (M.size a)) := by
  simp [stdConst, BaseTy.ite, Ty.fn, Ty.bool]

theorem stdConst_Some (M : Model) (a : Ty) :
    stdConst M "Some" (BaseTy.choice a) = some (choiceCode (M.size a)) := by
  simp [stdConst, BaseTy.choice, Ty.fn, Ty.bool]

theorem stdConst_The (M : Model) (a : Ty) :
    stdConst M "The" (BaseTy.choice a) = some (choiceCode (M.size a)) := by
  simp [stdConst, BaseTy.choice, Ty.fn, Ty.bool]

theorem stdConst_VAR (M : Model) (a : Ty) :
    stdConst M "_VAR" (Ty.fn a Ty.bool) = some (varCode (M.size a)) := by
  simp [stdConst, Ty.fn, Ty.bool]

/-- every standard value fits its type -/
theorem stdConst_lt (M : Model) (n : String) (T : Ty) (c : Nat) (h : stdConst M n T = some c) :
    c < M.size T := by
  unfold stdConst at h
  split at h
  · cases h; rw [← Ty.bool, Model.size_bool]; decide
  · cases h; rw [← Ty.bool, Model.size_bool]; decide
  · cases h
    show negCode < M.size (Ty.fn Ty.bool Ty.bool)
    rw [Model.size_fn, Model.size_bool]; exact negCode_lt
  · cases h
    show conjCode < M.size (Ty.fn Ty.bool (Ty.fn Ty.bool Ty.bool))
    simp only [Model.size_fn, Model.size_bool]; exact conjCode_lt
  · cases h
    show disjCode < M.size (Ty.fn Ty.bool (Ty.fn Ty.bool Ty.bool))
    simp only [Model.size_fn, Model.size_bool]; exact disjCode_lt
  · rename_i a
    cases h
    show exCode (M.size a) < M.size (Ty.fn (Ty.fn a Ty.bool) Ty.bool)
    simp only [Model.size_fn, Model.size_bool]; exact exCode_lt _
  · rename_i a
    cases h
    show ex1Code (M.size a) < M.size (Ty.fn (Ty.fn a Ty.bool) Ty.bool)
    simp only [Model.size_fn, Model.size_bool]; exact ex1Code_lt _
  · rename_i a a' a''
    split at h
    · rename_i he
      obtain ⟨rfl, rfl⟩ := he
      cases h
      show ifCode (M.size a) < M.size (Ty.fn Ty.bool (Ty.fn a (Ty.fn a a)))
      simp only [Model.size_fn, Model.size_bool]; exact ifCode_lt _
    · cases h
  · rename_i a a'
    split at h
    · rename_i he
      subst he
      cases h
      show choiceCode (M.size a) < M.size (Ty.fn (Ty.fn a Ty.bool) a)
      simp only [Model.size_fn, Model.size_bool]; exact choiceCode_lt _ (M.size_pos a)
    · cases h
  · rename_i a a'
    split at h
    · rename_i he
      subst he
      cases h
      show choiceCode (M.size a) < M.size (Ty.fn (Ty.fn a Ty.bool) a)
      simp only [Model.size_fn, Model.size_bool]; exact choiceCode_lt _ (M.size_pos a)
    · cases h
  · rename_i a
    cases h
    show varCode (M.size a) < M.size (Ty.fn a Ty.bool)
    simp only [Model.size_fn, Model.size_bool]; exact varCode_lt _
  · cases h

/-- the oracle's standard valuation is admissible -/
theorem stdVal_admissible (M : Model) : Admissible M (stdVal M) := by
  intro k n T
  unfold stdVal
  split
  · cases h : stdConst M n T with
    | none => exact M.size_pos T
    | some c => exact stdConst_lt M n T c h
  · exact M.size_pos T

/-- and interprets the base logic in the standard way: `StdBase` is inhabited in every model -/
theorem stdVal_stdBase (M : Model) : StdBase M (stdVal M) := by
  refine ⟨?_, ?_, ?_, ?_, ?_, ?_, ?_, ?_, ?_, ?_, ?_⟩
  · simp [stdVal, stdConst_true]
  · simp [stdVal, stdConst_false]
  · simp [stdVal, stdConst_neg]
  · simp [stdVal, stdConst_conj]
  · simp [stdVal, stdConst_disj]
  · intro a; simp [stdVal, stdConst_exists]
  · intro a; simp [stdVal, stdConst_exists1]
  · intro a; simp [stdVal, stdConst_IF]
  · intro a p v hp hv h1
    have : stdVal M 2 "Some" (BaseTy.choice a) = choiceCode (M.size a) := by
      simp [stdVal, stdConst_Some]
    rw [this, appCode_choiceCode _ _ (M.size_pos a) hp]
    exact leastWitness_spec _ _ ⟨v, hv, h1⟩
  · intro a p v hp hv h1 hu
    have : stdVal M 2 "The" (BaseTy.choice a) = choiceCode (M.size a) := by
      simp [stdVal, stdConst_The]
    rw [this, appCode_choiceCode _ _ (M.size_pos a) hp]
    exact hu _ (leastWitness_lt _ _ (M.size_pos a)) (leastWitness_spec _ _ ⟨v, hv, h1⟩)
  · intro a; simp [stdVal, stdConst_VAR]

end Holpy
