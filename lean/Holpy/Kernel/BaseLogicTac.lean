import Holpy.Kernel.BaseLogicSem
/-
The connective lemmas of `BaseLogicSem.lean` with Bool-valued typing side conditions
(`typedIn bd t T = true`, closed by `decide` on concrete terms) and the simp call `sem_norm` that
turns `holdsIn` of a concrete boolean term into a proposition about its atoms.
-/
set_option linter.unusedSectionVars false

namespace Holpy

/-- `checked_get_type` of `s` under the binders `bd` is `T` -/
def typedIn (bd : List Ty) (s : Term) (T : Ty) : Bool :=
  match Term.checkedGetType bd s with
  | .ok T' => T' == T
  | .error _ => false

theorem typedIn_iff (bd : List Ty) (s : Term) (T : Ty) :
    typedIn bd s T = true ↔ Term.checkedGetType bd s = .ok T := by
  unfold typedIn
  split
  · rename_i T' h; rw [h]; simp
  · rename_i e h; rw [h]; simp

section
variable {M : Model} {ρ : Valuation} (hρ : Admissible M ρ) (hC : StdBase M ρ) {bd : List Ty}
  {env : List Nat} (henv : EnvOK M bd env)
include hρ henv

theorem hImp {a b : Term} (ha : typedIn bd a Ty.bool = true) (hb : typedIn bd b Ty.bool = true) :
    holdsIn M ρ bd env (Term.mkImplies a b) ↔ (holdsIn M ρ bd env a → holdsIn M ρ bd env b) :=
  holdsIn_implies hρ henv ((typedIn_iff _ _ _).1 ha) ((typedIn_iff _ _ _).1 hb)

theorem hEq {T : Ty} {x y : Term} (hx : typedIn bd x T = true) (hy : typedIn bd y T = true) :
    holdsIn M ρ bd env (Term.eqAt T x y) ↔ sem M ρ bd env x = sem M ρ bd env y :=
  holdsIn_eqAt hρ henv ((typedIn_iff _ _ _).1 hx) ((typedIn_iff _ _ _).1 hy)

/-- boolean equality is `↔` -/
theorem hIff {a b : Term} (ha : typedIn bd a Ty.bool = true) (hb : typedIn bd b Ty.bool = true) :
    holdsIn M ρ bd env (Term.eqAt Ty.bool a b) ↔ (holdsIn M ρ bd env a ↔ holdsIn M ρ bd env b) := by
  have ha' := (typedIn_iff _ _ _).1 ha
  have hb' := (typedIn_iff _ _ _).1 hb
  rw [holdsIn_eqAt hρ henv ha' hb']
  have h1 := sem_bool_lt_in hρ henv ha'
  have h2 := sem_bool_lt_in hρ henv hb'
  unfold holdsIn
  omega

theorem hAllAbs {y : String} {T : Ty} {b : Term} (hb : typedIn (T :: bd) b Ty.bool = true) :
    holdsIn M ρ bd env (Term.allAt T (.abs y T b)) ↔
      ∀ v, v < M.size T → holdsIn M ρ (T :: bd) (v :: env) b :=
  holdsIn_allAt_abs hρ henv ((typedIn_iff _ _ _).1 hb)

theorem hAll {T : Ty} {p : Term} (hp : typedIn bd p (Ty.fn T Ty.bool) = true) :
    holdsIn M ρ bd env (Term.allAt T p) ↔
      ∀ v, v < M.size T → appCode (sem M ρ bd env p) v 2 = 1 :=
  holdsIn_allAt hρ henv ((typedIn_iff _ _ _).1 hp)

/-- the denotation of a typed term is a value of its type -/
theorem sem_lt_typed {t : Term} {T : Ty} (h : typedIn bd t T = true) :
    sem M ρ bd env t < M.size T :=
  sem_lt M ρ hρ bd env henv t T ((typedIn_iff _ _ _).1 h)

theorem appCode_abs_typed {x : String} {T tb : Ty} {b : Term}
    (hb : typedIn (T :: bd) b tb = true) {v : Nat} (hv : v < M.size T) :
    appCode (sem M ρ bd env (.abs x T b)) v (M.size tb) = sem M ρ (T :: bd) (v :: env) b :=
  appCode_sem_abs_in hρ henv ((typedIn_iff _ _ _).1 hb) hv

theorem sem_abs_lt_typed {x : String} {T tb : Ty} {b : Term} (hb : typedIn (T :: bd) b tb = true) :
    sem M ρ bd env (.abs x T b) < M.size tb ^ M.size T :=
  sem_abs_lt hρ henv ((typedIn_iff _ _ _).1 hb)

/-- application of a typed function term -/
theorem semApp {f t : Term} {A B : Ty} (hf : typedIn bd f (Ty.fn A B) = true) :
    sem M ρ bd env (.comb f t) = appCode (sem M ρ bd env f) (sem M ρ bd env t) (M.size B) := by
  have := Term.getType_of_checked bd f _ ((typedIn_iff _ _ _).1 hf)
  simp only [sem, this, Ty.range?_fn]

/-- eta at the level of denotations: `λx. F x` denotes what the schematic variable `F` denotes -/
theorem sem_eta_svar (x n : String) (A B : Ty) :
    sem M ρ bd env (.abs x A (.comb (.svar n (Ty.fn A B)) (.bound 0))) = ρ 0 n (Ty.fn A B) := by
  have hb : Term.checkedGetType (A :: bd) (.comb (.svar n (Ty.fn A B)) (.bound 0)) = .ok B := by
    simp [Term.checkedGetType, bind, Except.bind, Ty.isFun_fn, Ty.domain?_fn, Ty.range?_fn]
  have hf := hρ 0 n (Ty.fn A B)
  rw [Model.size_fn] at hf
  apply code_ext _ _ (M.size A) (M.size B) (sem_abs_lt hρ henv hb) hf
  intro v hv
  rw [appCode_sem_abs_in hρ henv hb hv, sem_app_svar, sem_bound_zero]

include hC

/-- a boolean conditional -/
theorem hIfB {c x y : Term} (hc : typedIn bd c Ty.bool = true)
    (hx : typedIn bd x Ty.bool = true) (hy : typedIn bd y Ty.bool = true) :
    holdsIn M ρ bd env (Term.ifAt Ty.bool c x y)
      ↔ if holdsIn M ρ bd env c then holdsIn M ρ bd env x else holdsIn M ρ bd env y := by
  unfold holdsIn
  rw [sem_ifAt_typed hρ hC henv ((typedIn_iff _ _ _).1 hc) ((typedIn_iff _ _ _).1 hx)
    ((typedIn_iff _ _ _).1 hy)]
  unfold holdsIn
  by_cases h : sem M ρ bd env c = 1 <;> simp [h]

theorem hNeg {a : Term} (ha : typedIn bd a Ty.bool = true) :
    holdsIn M ρ bd env (Term.mkNeg a) ↔ ¬ holdsIn M ρ bd env a :=
  holdsIn_neg hρ hC henv ((typedIn_iff _ _ _).1 ha)

theorem hConj {a b : Term} (ha : typedIn bd a Ty.bool = true) (hb : typedIn bd b Ty.bool = true) :
    holdsIn M ρ bd env (Term.mkConj a b) ↔ holdsIn M ρ bd env a ∧ holdsIn M ρ bd env b :=
  holdsIn_conj hρ hC henv ((typedIn_iff _ _ _).1 ha) ((typedIn_iff _ _ _).1 hb)

theorem hDisj {a b : Term} (ha : typedIn bd a Ty.bool = true) (hb : typedIn bd b Ty.bool = true) :
    holdsIn M ρ bd env (Term.mkDisj a b) ↔ holdsIn M ρ bd env a ∨ holdsIn M ρ bd env b :=
  holdsIn_disj hρ hC henv ((typedIn_iff _ _ _).1 ha) ((typedIn_iff _ _ _).1 hb)

theorem hExAbs {y : String} {T : Ty} {b : Term} (hb : typedIn (T :: bd) b Ty.bool = true) :
    holdsIn M ρ bd env (Term.existsAt T (.abs y T b)) ↔
      ∃ v, v < M.size T ∧ holdsIn M ρ (T :: bd) (v :: env) b :=
  holdsIn_existsAt_abs hρ hC henv ((typedIn_iff _ _ _).1 hb)

theorem hEx {T : Ty} {p : Term} (hp : typedIn bd p (Ty.fn T Ty.bool) = true) :
    holdsIn M ρ bd env (Term.existsAt T p) ↔
      ∃ v, v < M.size T ∧ appCode (sem M ρ bd env p) v 2 = 1 :=
  holdsIn_existsAt hρ hC henv ((typedIn_iff _ _ _).1 hp)

theorem hEx1 {T : Ty} {p : Term} (hp : typedIn bd p (Ty.fn T Ty.bool) = true) :
    holdsIn M ρ bd env (Term.exists1At T p) ↔
      ∃ x, x < M.size T ∧ appCode (sem M ρ bd env p) x 2 = 1 ∧
        ∀ y, y < M.size T → appCode (sem M ρ bd env p) y 2 = 1 → y = x :=
  holdsIn_exists1At hρ hC henv ((typedIn_iff _ _ _).1 hp)

theorem semIf {T : Ty} {c x y : Term} (hc : typedIn bd c Ty.bool = true)
    (hx : typedIn bd x T = true) (hy : typedIn bd y T = true) :
    sem M ρ bd env (Term.ifAt T c x y)
      = if holdsIn M ρ bd env c then sem M ρ bd env x else sem M ρ bd env y :=
  sem_ifAt_typed hρ hC henv ((typedIn_iff _ _ _).1 hc) ((typedIn_iff _ _ _).1 hx)
    ((typedIn_iff _ _ _).1 hy)

end

/-- `holdsIn` of an application of a schematic predicate variable -/
theorem holdsIn_app_svar (M : Model) (ρ : Valuation) (bd : List Ty) (env : List Nat) (n : String)
    (A : Ty) (t : Term) :
    holdsIn M ρ bd env (.comb (.svar n (Ty.fn A Ty.bool)) t)
      ↔ appCode (ρ 0 n (Ty.fn A Ty.bool)) (sem M ρ bd env t) 2 = 1 := by
  unfold holdsIn
  rw [sem_app_svar, Model.size_bool]

/-- turn `holdsIn` / `sem` of a concrete term into statements about its atoms: the connectives of
the base logic, with typing side conditions closed by `decide` -/
macro "sem_norm" hρ:term:max hC:term:max e:term:max loc:(Lean.Parser.Tactic.location)? : tactic =>
  `(tactic| simp (disch := decide) only [hImp $hρ $e, hConj $hρ $hC $e, hDisj $hρ $hC $e,
      hNeg $hρ $hC $e, hIff $hρ $e, hEq $hρ $e, hIfB $hρ $hC $e, semIf $hρ $hC $e,
      sem_eta_svar $hρ $e, sem_someAt, sem_theAt, holdsIn_trueC $hC,
      not_holdsIn_falseC $hC, sem_trueC $hC, sem_falseC $hC, holdsIn_app_svar, sem_app_svar,
      sem_svar, sem_bound_zero, sem_bound_one, Model.size_bool, not_true_eq_false,
      not_false_eq_true] $[$loc]?)

end Holpy
