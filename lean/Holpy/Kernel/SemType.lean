import Holpy.Kernel.SemBasic
/-
Type instantiation (`subst_type`): a denotation of the instantiated term in `M` is a denotation
of the original term in the model `M.pull σ` whose schematic type variables have the sizes of
their instances; hence validity is preserved by `subst_type`.
-/
namespace Holpy

/-- the valuation of the original term that corresponds to `ρ` on the instantiated term -/
def Valuation.pull (M : Model) (ρ : Valuation) (σ : Ty.TyInst) : Valuation :=
  fun k n T => if k = 2 then constVal M ρ n (T.subst σ) else ρ k n (T.subst σ)

theorem Ty.subst_con (σ : Ty.TyInst) (n : String) (args : List Ty) :
    (Ty.con n args).subst σ = .con n (args.map (Ty.subst σ)) := by
  simp only [Ty.subst]

theorem Ty.subst_tvar (σ : Ty.TyInst) (n : String) : (Ty.tvar n).subst σ = .tvar n := by
  simp only [Ty.subst]

theorem Ty.subst_bool (σ : Ty.TyInst) : Ty.bool.subst σ = Ty.bool := by
  simp only [Ty.bool, Ty.subst, List.map]

theorem Ty.subst_fn (σ : Ty.TyInst) (a b : Ty) : (Ty.fn a b).subst σ = Ty.fn (a.subst σ) (b.subst σ) := by
  simp only [Ty.fn, Ty.subst, List.map]

theorem Model.conSize_pull (M : Model) (σ : Ty.TyInst) (n : String) (ss : List Nat) :
    (M.pull σ).conSize n ss = M.conSize n ss := by
  unfold Model.conSize
  rfl

theorem Model.sizeList_pull (M : Model) (σ : Ty.TyInst) :
    ∀ (l : List Ty), (∀ a ∈ l, (M.pull σ).size a = M.size (a.subst σ)) →
      (M.pull σ).sizeList l = M.sizeList (l.map (Ty.subst σ))
  | [], _ => by simp only [Model.sizeList, List.map]
  | a :: as, h => by
    simp only [Model.sizeList, List.map]
    rw [h a (List.mem_cons_self ..), Model.sizeList_pull M σ as (fun b hb => h b (List.mem_cons_of_mem _ hb))]

theorem Model.size_pull (M : Model) (σ : Ty.TyInst) (T : Ty) :
    (M.pull σ).size T = M.size (T.subst σ) := by
  induction T using Ty.ind with
  | hs n =>
    have hp := M.size_pos (Ty.subst σ (.stvar n))
    show (M.size (Ty.subst σ (.stvar n)) - 1) + 1 = _
    omega
  | ht n => simp only [Ty.subst, Model.size]; rfl
  | hc n args ih =>
    rw [Ty.subst_con]
    simp only [Model.size]
    rw [Model.conSize_pull, Model.sizeList_pull M σ args ih]

theorem Admissible.pull {M : Model} {ρ : Valuation} (hρ : Admissible M ρ) (σ : Ty.TyInst) :
    Admissible (M.pull σ) (ρ.pull M σ) := by
  intro k n T
  rw [Model.size_pull]
  unfold Valuation.pull
  split
  · exact constVal_lt M ρ hρ n _
  · exact hρ k n _


theorem logicalKind_subst (n : String) (T : Ty) (k : Nat) (a : Ty) (σ : Ty.TyInst)
    (h : logicalKind n T = some (k, a)) : logicalKind n (T.subst σ) = some (k, a.subst σ) := by
  unfold logicalKind at h
  split at h
  · split at h
    · rename_i heq
      cases h
      subst heq
      simp only [Ty.subst, List.map, logicalKind, if_true]
    · cases h
  · cases h
    simp only [Ty.subst, List.map, logicalKind, Ty.bool]
  · cases h
    simp only [Ty.subst, List.map, logicalKind]
  · cases h

theorem sigOK_substType (σ : Ty.TyInst) (t : Term) (h : sigOK t = true) :
    sigOK (Term.substType σ t) = true := by
  induction t with
  | svar n T => simp only [Term.substType, sigOK]
  | var n T => simp only [Term.substType, sigOK]
  | const n T =>
    simp only [Term.substType, sigOK] at h ⊢
    split
    · rename_i hn
      rw [if_pos hn] at h
      cases hk : logicalKind n T with
      | none => rw [hk] at h; cases h
      | some p =>
        obtain ⟨k, a⟩ := p
        rw [logicalKind_subst n T k a σ hk]; rfl
    · rfl
  | comb f a ihf iha =>
    simp only [Term.substType, sigOK, Bool.and_eq_true] at h ⊢
    exact ⟨ihf h.1, iha h.2⟩
  | abs x T b ih =>
    simp only [Term.substType, sigOK] at h ⊢
    exact ih h
  | bound i => simp only [Term.substType, sigOK]

/-- alpha-equivalence is preserved by type instantiation -/
theorem Term.aeq_substType (σ : Ty.TyInst) (a b : Term) (h : Term.aeq a b = true) :
    Term.aeq (Term.substType σ a) (Term.substType σ b) = true := by
  induction a generalizing b with
  | svar n T =>
    cases b <;> simp only [Term.aeq, Term.substType, Bool.and_eq_true, beq_iff_eq, Bool.false_eq_true] at h ⊢
    exact ⟨h.1, by rw [h.2]⟩
  | var n T =>
    cases b <;> simp only [Term.aeq, Term.substType, Bool.and_eq_true, beq_iff_eq, Bool.false_eq_true] at h ⊢
    exact ⟨h.1, by rw [h.2]⟩
  | const n T =>
    cases b <;> simp only [Term.aeq, Term.substType, Bool.and_eq_true, beq_iff_eq, Bool.false_eq_true] at h ⊢
    exact ⟨h.1, by rw [h.2]⟩
  | comb f a ihf iha =>
    cases b <;> simp only [Term.aeq, Term.substType, Bool.and_eq_true, Bool.false_eq_true] at h ⊢
    exact ⟨ihf _ h.1, iha _ h.2⟩
  | abs x T c ih =>
    cases b <;> simp only [Term.aeq, Term.substType, Bool.and_eq_true, beq_iff_eq, Bool.false_eq_true] at h ⊢
    exact ⟨by rw [h.1], ih _ h.2⟩
  | bound i =>
    cases b <;> simp only [Term.aeq, Term.substType, Bool.false_eq_true] at h ⊢
    exact h

theorem Ty.lookup_map_snd (f : Ty → Ty) (n : String) : ∀ (σ : List (String × Ty)),
    (σ.map (fun p => (p.1, f p.2))).lookup n = (σ.lookup n).map f
  | [] => rfl
  | (m, T) :: rest => by
    simp only [List.map, List.lookup]
    cases h : (n == m) with
    | true => rfl
    | false => exact Ty.lookup_map_snd f n rest

/-- composition of two type instantiations, as one -/
theorem Ty.subst_subst (σ τ : Ty.TyInst) (T : Ty) :
    (T.subst σ).subst τ = T.subst (σ.map (fun p => (p.1, p.2.subst τ)) ++ τ) := by
  induction T using Ty.ind with
  | hs n =>
    simp only [Ty.subst, List.lookup_append, Ty.lookup_map_snd (Ty.subst τ)]
    cases h : σ.lookup n with
    | none => simp only [Ty.subst, Option.map, Option.none_or]
    | some T' => simp only [Option.map, Option.some_or]
  | ht n => simp only [Ty.subst]
  | hc n args ih =>
    simp only [Ty.subst, List.map_map]
    congr 1
    apply List.map_congr_left
    intro a ha
    exact ih a ha


theorem Ty.isFun_subst (σ : Ty.TyInst) (T : Ty) (h : T.isFun = true) : (T.subst σ).isFun = true := by
  unfold Ty.isFun at h
  split at h
  · simp only [Ty.subst, Ty.isFun]
  · cases h

theorem Ty.domain?_subst (σ : Ty.TyInst) (T d : Ty) (h : T.domain? = some d) :
    (T.subst σ).domain? = some (d.subst σ) := by
  unfold Ty.domain? at h
  split at h
  · cases h; simp only [Ty.subst, List.map, Ty.domain?]
  · cases h

theorem Ty.range?_subst (σ : Ty.TyInst) (T r : Ty) (h : T.range? = some r) :
    (T.subst σ).range? = some (r.subst σ) := by
  unfold Ty.range? at h
  split at h
  · cases h; simp only [Ty.subst, List.map, Ty.range?]
  · cases h

theorem Term.checkedGetType_substType (σ : Ty.TyInst) (bd : List Ty) (t : Term) (T : Ty)
    (h : Term.checkedGetType bd t = .ok T) :
    Term.checkedGetType (bd.map (Ty.subst σ)) (Term.substType σ t) = .ok (T.subst σ) := by
  induction t generalizing bd T with
  | svar n S => simp only [Term.checkedGetType, Term.substType] at h ⊢; cases h; rfl
  | var n S => simp only [Term.checkedGetType, Term.substType] at h ⊢; cases h; rfl
  | const n S => simp only [Term.checkedGetType, Term.substType] at h ⊢; cases h; rfl
  | comb f a ihf iha =>
    simp only [Term.checkedGetType, Term.substType, bind, Except.bind] at h ⊢
    cases hf : Term.checkedGetType bd f with
    | error e => rw [hf] at h; cases h
    | ok tf =>
      cases ha : Term.checkedGetType bd a with
      | error e => rw [hf, ha] at h; cases h
      | ok ta =>
        rw [hf, ha] at h
        rw [ihf bd tf hf, iha bd ta ha]
        simp only at h ⊢
        cases hfun : tf.isFun with
        | false => rw [hfun] at h; cases h
        | true =>
          rw [hfun] at h
          rw [Ty.isFun_subst σ tf hfun]
          simp only [Bool.not_true, Bool.false_eq_true, if_false] at h ⊢
          cases hd : tf.domain? with
          | none => rw [hd] at h; cases h
          | some d =>
            rw [hd] at h
            rw [Ty.domain?_subst σ tf d hd]
            simp only at h ⊢
            by_cases hne : d = ta
            · subst hne
              simp only [bne_self_eq_false, Bool.false_eq_true, if_false] at h ⊢
              cases hr : tf.range? with
              | none => rw [hr] at h; cases h
              | some r =>
                rw [hr] at h
                rw [Ty.range?_subst σ tf r hr]
                cases h; rfl
            · have : (d != ta) = true := by simpa using hne
              rw [this] at h; cases h
  | abs x S b ih =>
    simp only [Term.checkedGetType, Term.substType, bind, Except.bind] at h ⊢
    cases hb : Term.checkedGetType (S :: bd) b with
    | error e => rw [hb] at h; cases h
    | ok tb =>
      rw [hb] at h
      have := ih (S :: bd) tb hb
      rw [List.map_cons] at this
      rw [this]
      cases h
      simp only [Ty.subst_fn]
  | bound i =>
    simp only [Term.checkedGetType, Term.substType, List.getElem?_map] at h ⊢
    cases hi : bd[i]? with
    | none => rw [hi] at h; cases h
    | some S => rw [hi] at h; cases h; rfl

theorem Term.getType_substType (σ : Ty.TyInst) (bd : List Ty) (t : Term) (T : Ty)
    (h : Term.getType bd t = .ok T) :
    Term.getType (bd.map (Ty.subst σ)) (Term.substType σ t) = .ok (T.subst σ) := by
  induction t generalizing bd T with
  | svar n S => simp only [Term.getType, Term.substType] at h ⊢; cases h; rfl
  | var n S => simp only [Term.getType, Term.substType] at h ⊢; cases h; rfl
  | const n S => simp only [Term.getType, Term.substType] at h ⊢; cases h; rfl
  | comb f a ihf iha =>
    simp only [Term.getType, Term.substType, bind, Except.bind] at h ⊢
    cases hf : Term.getType bd f with
    | error e => rw [hf] at h; cases h
    | ok tf =>
      rw [hf] at h
      rw [ihf bd tf hf]
      simp only at h ⊢
      cases hfun : tf.isFun with
      | false => rw [hfun] at h; cases h
      | true =>
        rw [hfun] at h
        rw [Ty.isFun_subst σ tf hfun]
        simp only [if_true] at h ⊢
        cases hr : tf.range? with
        | none => rw [hr] at h; cases h
        | some r =>
          rw [hr] at h
          rw [Ty.range?_subst σ tf r hr]
          cases h; rfl
  | abs x S b ih =>
    simp only [Term.getType, Term.substType, bind, Except.bind] at h ⊢
    cases hb : Term.getType (S :: bd) b with
    | error e => rw [hb] at h; cases h
    | ok tb =>
      rw [hb] at h
      have := ih (S :: bd) tb hb
      rw [List.map_cons] at this
      rw [this]
      cases h
      simp only [Ty.subst_fn]
  | bound i =>
    simp only [Term.getType, Term.substType, List.getElem?_map] at h ⊢
    cases hi : bd[i]? with
    | none => rw [hi] at h; cases h
    | some S => rw [hi] at h; cases h; rfl

theorem constVal_pull (M : Model) (ρ : Valuation) (σ : Ty.TyInst) (n : String) (T : Ty) :
    constVal M ρ n (T.subst σ) = constVal (M.pull σ) (ρ.pull M σ) n T := by
  cases hk : logicalKind n T with
  | none =>
    conv => rhs; unfold constVal
    rw [hk]
    simp only [Valuation.pull, if_true]
  | some p =>
    obtain ⟨k, a⟩ := p
    unfold constVal
    rw [hk, logicalKind_subst n T k a σ hk]
    match k with
    | 0 => simp only [Model.size_pull]
    | 1 => rfl
    | k + 2 => simp only [Model.size_pull]

/-- inversion of `checkedGetType` on an application -/
theorem Term.checkedGetType_comb_inv_ty (bd : List Ty) (f a : Term) (T : Ty)
    (h : Term.checkedGetType bd (.comb f a) = .ok T) :
    ∃ tf ta, Term.checkedGetType bd f = .ok tf ∧ Term.checkedGetType bd a = .ok ta ∧
      tf.range? = some T := by
  simp only [Term.checkedGetType, bind, Except.bind] at h
  cases hf : Term.checkedGetType bd f with
  | error e => rw [hf] at h; cases h
  | ok tf =>
    cases ha : Term.checkedGetType bd a with
    | error e => rw [hf, ha] at h; cases h
    | ok ta =>
      rw [hf, ha] at h
      refine ⟨tf, ta, rfl, rfl, ?_⟩
      simp only at h
      split at h
      · cases h
      · split at h
        · cases h
        · split at h
          · cases h
          · split at h
            · rename_i hr; cases h; exact hr
            · cases h

/-- inversion of `checkedGetType` on an abstraction -/
theorem Term.checkedGetType_abs_inv_ty (bd : List Ty) (x : String) (S : Ty) (b : Term) (T : Ty)
    (h : Term.checkedGetType bd (.abs x S b) = .ok T) :
    ∃ tb, Term.checkedGetType (S :: bd) b = .ok tb ∧ T = Ty.fn S tb := by
  simp only [Term.checkedGetType, bind, Except.bind] at h
  cases hb : Term.checkedGetType (S :: bd) b with
  | error e => rw [hb] at h; cases h
  | ok tb => rw [hb] at h; cases h; exact ⟨tb, rfl, rfl⟩

/-- denotation of an instantiated term -/
theorem sem_substType (M : Model) (ρ : Valuation) (σ : Ty.TyInst) (bd : List Ty) (env : List Nat)
    (t : Term) (T : Ty) (h : Term.checkedGetType bd t = .ok T) :
    sem M ρ (bd.map (Ty.subst σ)) env (Term.substType σ t)
      = sem (M.pull σ) (ρ.pull M σ) bd env t := by
  induction t generalizing bd env T with
  | svar n S => simp only [Term.substType, sem, Valuation.pull]; rfl
  | var n S => simp only [Term.substType, sem, Valuation.pull]; rfl
  | const n S => simp only [Term.substType, sem]; exact constVal_pull M ρ σ n S
  | comb f a ihf iha =>
    obtain ⟨tf, ta, hf, ha, hr⟩ := Term.checkedGetType_comb_inv_ty bd f a T h
    have hgf := Term.getType_of_checked bd f tf hf
    simp only [Term.substType, sem]
    rw [Term.getType_substType σ bd f tf hgf, hgf]
    simp only
    rw [Ty.range?_subst σ tf T hr, hr]
    simp only
    rw [ihf bd env tf hf, iha bd env ta ha, Model.size_pull]
  | abs x S b ih =>
    obtain ⟨tb, hb, rfl⟩ := Term.checkedGetType_abs_inv_ty bd x S b T h
    have hgb := Term.getType_of_checked (S :: bd) b tb hb
    simp only [Term.substType, sem]
    have h1 := Term.getType_substType σ (S :: bd) b tb hgb
    rw [List.map_cons] at h1
    rw [h1, hgb]
    simp only
    rw [Model.size_pull, Model.size_pull]
    apply lamCode_congr
    intro v _
    have := ih (S :: bd) (v :: env) tb hb
    rw [List.map_cons] at this
    exact this
  | bound i => simp only [Term.substType, sem]

end Holpy
