import Holpy.Kernel.SemBasic
/-
Type instantiation (`subst_type`): a denotation of the instantiated term in `M` is a denotation
of the original term in the model `M.pull σ` whose schematic type variables have the sizes of
their instances; hence validity is preserved by `subst_type`.
-/
namespace Holpy

/-- the valuation of the original term that corresponds to `ρ` on the instantiated term -/
def Valuation.pull (M : Model) (ρ : Valuation) (σ : Ty.TyInst) : Valuation :=
  fun k n T => if k = 2 then constVal M ρ n (T.subst σ) else ρ k n (T.subst σ)

theorem Model.size_pull (M : Model) (σ : Ty.TyInst) (T : Ty) :
    (M.pull σ).size T = M.size (T.subst σ) := by
  sorry

theorem Admissible.pull {M : Model} {ρ : Valuation} (hρ : Admissible M ρ) (σ : Ty.TyInst) :
    Admissible (M.pull σ) (ρ.pull M σ) := by
  sorry

theorem logicalKind_subst (n : String) (T : Ty) (k : Nat) (a : Ty) (σ : Ty.TyInst)
    (h : logicalKind n T = some (k, a)) : logicalKind n (T.subst σ) = some (k, a.subst σ) := by
  sorry

theorem sigOK_substType (σ : Ty.TyInst) (t : Term) (h : sigOK t = true) :
    sigOK (Term.substType σ t) = true := by
  sorry

theorem Term.checkedGetType_substType (σ : Ty.TyInst) (bd : List Ty) (t : Term) (T : Ty)
    (h : Term.checkedGetType bd t = .ok T) :
    Term.checkedGetType (bd.map (Ty.subst σ)) (Term.substType σ t) = .ok (T.subst σ) := by
  sorry

theorem Term.getType_substType (σ : Ty.TyInst) (bd : List Ty) (t : Term) (T : Ty)
    (h : Term.getType bd t = .ok T) :
    Term.getType (bd.map (Ty.subst σ)) (Term.substType σ t) = .ok (T.subst σ) := by
  sorry

/-- denotation of an instantiated term -/
theorem sem_substType (M : Model) (ρ : Valuation) (σ : Ty.TyInst) (bd : List Ty) (env : List Nat)
    (t : Term) (T : Ty) (h : Term.checkedGetType bd t = .ok T) :
    sem M ρ (bd.map (Ty.subst σ)) env (Term.substType σ t)
      = sem (M.pull σ) (ρ.pull M σ) bd env t := by
  sorry

/-- alpha-equivalence is preserved by type instantiation -/
theorem Term.aeq_substType (σ : Ty.TyInst) (a b : Term) (h : Term.aeq a b = true) :
    Term.aeq (Term.substType σ a) (Term.substType σ b) = true := by
  sorry

/-- composition of two type instantiations, as one -/
theorem Ty.subst_subst (σ τ : Ty.TyInst) (T : Ty) :
    (T.subst σ).subst τ = T.subst (σ.map (fun p => (p.1, p.2.subst τ)) ++ τ) := by
  sorry

end Holpy
