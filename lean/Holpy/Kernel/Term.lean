import Holpy.Kernel.Type
/-
Shared kernel model — terms (`kernel/term.py`).  Import-free.

de Bruijn terms with the suggested bound name kept, exactly as the Python stores them.
Each function names the Python method it mirrors.  Errors are the exception classes that can
escape: `typeCheck` (TypeCheckException), `term` (TermException), `attr` (AttributeError /
IndexError — a crash, never an acceptance).

The `_id`-based short cuts and caches of the Python (`fun_t._id == t.fun._id → return t`) are
pure optimisations under the heap invariant proved in C03 (`id_shortcut_sound`): they return an
object equal to what the plain recursion builds.  The model is the plain recursion.
-/
namespace Holpy

inductive Term where
  | svar (n : String) (T : Ty)
  | var (n : String) (T : Ty)
  | const (n : String) (T : Ty)
  | comb (f a : Term)
  | abs (x : String) (T : Ty) (b : Term)
  | bound (i : Nat)
  deriving Repr, Inhabited, DecidableEq

inductive TErr where
  | typeCheck   -- TypeCheckException
  | term        -- TermException
  | attr        -- AttributeError / IndexError / TypeError escaping as a crash
  | fuel
  deriving Repr, DecidableEq, Inhabited

namespace Term

/-- `Term.__eq__`, structural branch: alpha-equivalence = equality ignoring suggested names. -/
def aeq : Term → Term → Bool
  | .svar n T, .svar m S => n == m && T == S
  | .var n T, .var m S => n == m && T == S
  | .const n T, .const m S => n == m && T == S
  | .comb f a, .comb g b => aeq f g && aeq a b
  | .abs _ T b, .abs _ S c => T == S && aeq b c
  | .bound i, .bound j => i == j
  | _, _ => false

/-- Name-erased form: `aeq a b ↔ erase a = erase b`. -/
def erase : Term → Term
  | .comb f a => .comb (erase f) (erase a)
  | .abs _ T b => .abs "" T (erase b)
  | t => t

/-- `get_type()` — "minimal type checking": the argument of an application is not looked at. -/
def getType (bd : List Ty) : Term → Except TErr Ty
  | .svar _ T | .var _ T | .const _ T => .ok T
  | .comb f _ => do
    let tf ← getType bd f
    if tf.isFun then
      match tf.range? with
      | some r => .ok r
      | none => .error .attr
    else .error .typeCheck
  | .abs _ T b => do
    let tb ← getType (T :: bd) b
    .ok (Ty.fn T tb)
  | .bound i =>
    match bd[i]? with
    | some T => .ok T
    | none => .error .typeCheck

/-- `checked_get_type()`. -/
def checkedGetType (bd : List Ty) : Term → Except TErr Ty
  | .svar _ T | .var _ T | .const _ T => .ok T
  | .comb f a => do
    let tf ← checkedGetType bd f
    let ta ← checkedGetType bd a
    if !tf.isFun then .error .typeCheck
    else match tf.domain? with
      | none => .error .attr
      | some d =>
        if d != ta then .error .typeCheck
        else match tf.range? with
          | some r => .ok r
          | none => .error .attr
  | .abs _ T b => do
    let tb ← checkedGetType (T :: bd) b
    .ok (Ty.fn T tb)
  | .bound i =>
    match bd[i]? with
    | some T => .ok T
    | none => .error .typeCheck

/-- `is_open()` relative to `n` enclosing binders. -/
def isOpenAt (n : Nat) : Term → Bool
  | .comb f a => isOpenAt n f || isOpenAt n a
  | .abs _ _ b => isOpenAt (n + 1) b
  | .bound i => i ≥ n
  | _ => false

def isOpen (t : Term) : Bool := isOpenAt 0 t

/-- `subst_type(tyinst)`. -/
def substType (σ : Ty.TyInst) : Term → Term
  | .svar n T => .svar n (T.subst σ)
  | .var n T => .var n (T.subst σ)
  | .const n T => .const n (T.subst σ)
  | .comb f a => .comb (substType σ f) (substType σ a)
  | .abs x T b => .abs x (T.subst σ) (substType σ b)
  | .bound i => .bound i

/-- `incr_boundvars(inc)`: `rec(t, lev)`. -/
def incrAt (inc lev : Nat) : Term → Term
  | .comb f a => .comb (incrAt inc lev f) (incrAt inc lev a)
  | .abs x T b => .abs x T (incrAt inc (lev + 1) b)
  | .bound i => if i ≥ lev then .bound (i + inc) else .bound i
  | t => t

def incrBoundvars (inc : Nat) (t : Term) : Term := incrAt inc 0 t

/-- `subst_bound`: `rec(s, n)` on the body. (`t.incr_boundvars(n)` is applied unconditionally:
for a closed `t` it is the identity, which is the Python's `is_open` short cut.) -/
def substBoundAt (t : Term) (n : Nat) : Term → Term
  | .comb f a => .comb (substBoundAt t n f) (substBoundAt t n a)
  | .abs x T b => .abs x T (substBoundAt t (n + 1) b)
  | .bound i => if i == n then incrBoundvars n t else if i > n then .bound (i - 1) else .bound i
  | s => s

/-- `self.subst_bound(t)`. -/
def substBound (self t : Term) : Except TErr Term :=
  match self with
  | .abs _ _ b => .ok (substBoundAt t 0 b)
  | _ => .error .term

/-- `beta_conv()`. -/
def betaConv : Term → Except TErr Term
  | .comb (.abs x T b) a => substBound (.abs x T b) a
  | _ => .error .term

/-- `beta_norm()` with fuel (Python recursion). -/
def betaNorm : Nat → Term → Except TErr Term
  | 0, _ => .error .fuel
  | fuel + 1, .comb f a => do
    let f' ← betaNorm fuel f
    let a' ← betaNorm fuel a
    match f' with
    | .abs x T b => do
      let r ← betaConv (.comb (.abs x T b) a')
      betaNorm fuel r
    | _ => .ok (.comb f' a')
  | fuel + 1, .abs x T b => do
    let b' ← betaNorm fuel b
    .ok (.abs x T b')
  | _ + 1, t => .ok t

/-- `occurs_var(t)` (after the fix: a schematic variable occurs in itself). -/
def occursVar (x : Term) : Term → Bool
  | .svar n T => aeq (.svar n T) x
  | .var n T => aeq (.var n T) x
  | .comb f a => occursVar x f || occursVar x a
  | .abs _ _ b => occursVar x b
  | _ => false

/-- `abstract_over(t)`: `rec(s, n)`; same name at another type is an error. -/
def abstractOverAt (x : Term) (n : Nat) : Term → Except TErr Term
  | .svar m S =>
    match x with
    | .svar xn xT => if m == xn then (if S != xT then .error .term else .ok (.bound n)) else .ok (.svar m S)
    | _ => .ok (.svar m S)
  | .var m S =>
    match x with
    | .var xn xT => if m == xn then (if S != xT then .error .term else .ok (.bound n)) else .ok (.var m S)
    | _ => .ok (.var m S)
  | .comb f a => do
    let f' ← abstractOverAt x n f
    let a' ← abstractOverAt x n a
    .ok (.comb f' a')
  | .abs y T b => do
    let b' ← abstractOverAt x (n + 1) b
    .ok (.abs y T b')
  | t => .ok t

def isVarLike : Term → Bool
  | .svar _ _ | .var _ _ => true
  | _ => false

def abstractOver (self x : Term) : Except TErr Term :=
  if isVarLike x then abstractOverAt x 0 self else .error .term

def nameOf : Term → String
  | .svar n _ | .var n _ | .const n _ => n
  | _ => ""

def typeOfAtom : Term → Ty
  | .svar _ T | .var _ T | .const _ T => T
  | _ => Ty.bool

/-- `Lambda(x, body)`. -/
def mkLambda (x body : Term) : Except TErr Term :=
  if isVarLike x then do
    let b ← abstractOver body x
    .ok (.abs (nameOf x) (typeOfAtom x) b)
  else .error .term

/-- `Forall(x, body)`. -/
def mkForall (x body : Term) : Except TErr Term :=
  if isVarLike x then do
    let l ← mkLambda x body
    .ok (.comb (.const "all" (Ty.fn (Ty.fn (typeOfAtom x) Ty.bool) Ty.bool)) l)
  else .error .term

/-- `Eq(s, t)`: the type of the equality is the lax type of `s`. -/
def mkEq (s t : Term) : Except TErr Term := do
  let T ← getType [] s
  .ok (.comb (.comb (.const "equals" (Ty.fn T (Ty.fn T Ty.bool))) s) t)

def mkImplies (a b : Term) : Term :=
  .comb (.comb (.const "implies" (Ty.fn Ty.bool (Ty.fn Ty.bool Ty.bool))) a) b

/-- `is_comb(name, 2)` destructor: `f a b` with head constant `name` (any type). -/
def destBinop (name : String) : Term → Option (Term × Term)
  | .comb (.comb (.const n _) a) b => if n == name then some (a, b) else none
  | _ => none

def destEq (t : Term) : Option (Term × Term) := destBinop "equals" t
def destImplies (t : Term) : Option (Term × Term) := destBinop "implies" t

/-- `is_forall()`: `all f` with any argument. -/
def destForall : Term → Option Term
  | .comb (.const n _) a => if n == "all" then some a else none
  | _ => none

/-- `get_svars()`: distinct schematic variables in traversal order. -/
def svarsAcc : Term → List (String × Ty) → List (String × Ty)
  | .svar n T, acc => if acc.contains (n, T) then acc else acc ++ [(n, T)]
  | .comb f a, acc => svarsAcc a (svarsAcc f acc)
  | .abs _ _ b, acc => svarsAcc b acc
  | _, acc => acc

def getSvars (t : Term) : List (String × Ty) := svarsAcc t []

/-- `Inst`: `tyinst`, the dict itself (schematic variable name ↦ term) and `var_inst`
(`abs_name_inst` only renames suggested bound names and is dropped). -/
structure Inst where
  tyinst : Ty.TyInst
  svars : List (String × Term)
  vars : List (String × Term)
  deriving Repr, Inhabited

/-- First loop of `Term.subst`: extend `tyinst` by matching the declared type of every schematic
variable that is instantiated against the (checked) type of its instance. -/
def matchSvars (inst : List (String × Term)) : List (String × Ty) → Ty.TyInst → Except TErr Ty.TyInst
  | [], σ => .ok σ
  | (n, T) :: rest, σ =>
    match inst.lookup n with
    | none => matchSvars inst rest σ
    | some s => do
      let instT ← checkedGetType [] s
      match Ty.matchIncr T instT σ with
      | some σ' => matchSvars inst rest σ'
      | none => .error .term

/-- `rec` of `Term.subst` (on the type-instantiated term).  `var_inst` entries are used only at
their own type (the fix): otherwise TermException. -/
def substRec (inst : Inst) : Term → Except TErr Term
  | .svar n T =>
    match inst.svars.lookup n with
    | some s => .ok s
    | none => .ok (.svar n T)
  | .var n T =>
    match inst.vars.lookup n with
    | some s => do
      let sT ← checkedGetType [] s
      if sT != T then .error .term else .ok s
    | none => .ok (.var n T)
  | .comb f a => do
    let f' ← substRec inst f
    let a' ← substRec inst a
    .ok (.comb f' a')
  | .abs x T b => do
    let b' ← substRec inst b
    .ok (.abs x T b')
  | t => .ok t

/-- `Term.subst(inst)`: returns the new term and the (mutated) type instantiation. -/
def subst (inst : Inst) (t : Term) : Except TErr (Term × Ty.TyInst) := do
  let σ ← matchSvars inst.svars (getSvars t) inst.tyinst
  let t' := substType σ t
  let r ← substRec { inst with tyinst := σ } t'
  .ok (r, σ)

end Term
end Holpy
