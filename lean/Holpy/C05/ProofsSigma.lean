import Holpy.C05.ProofsNormK
/-
C05 — the valuation induced by `tval` (real terms) and `natVal` (nat terms) respects numerals and
operators on well-typed terms; hence terms with equal `convert_to_poly` have equal values.
-/
set_option linter.unusedSectionVars false
namespace Holpy.C05
open Holpy.C10 Holpy.C10.Poly

variable {K : Type} [Field K] [LinearOrder K] [IsStrictOrderedRing K]

noncomputable def sigmaF (F : RealFns K) (e : AExpr) : K :=
  if typeOf e = .nat then ((natVal e : Nat) : K) else tval F e

theorem sigmaF_real (F : RealFns K) (e : AExpr) (h : typeOf e = .real) : sigmaF F e = tval F e := by
  simp [sigmaF, h]

theorem sigmaF_nat (F : RealFns K) (e : AExpr) (h : typeOf e = .nat) : sigmaF F e = ((natVal e : Nat) : K) := by
  simp [sigmaF, h]

theorem tval_of_number (F : RealFns K) (e : AExpr) (hn : isNumber e = true) :
    tval F e = ((numVal e : Rat) : K) := by
  cases e <;> simp [isNumber, isFracNumber, isNatNumber] at hn <;> simp [tval, isNumber, isFracNumber, isNatNumber, hn]

theorem natCast_sub_trunc (m n : Nat) :
    (((m - n : Nat) : Nat) : K) = if (m : K) ≤ (n : K) then 0 else (m : K) - (n : K) := by
  by_cases h : m ≤ n
  · have : (m : K) ≤ (n : K) := by exact_mod_cast h
    simp [Nat.sub_eq_zero_of_le h, this]
  · have h' : n ≤ m := Nat.le_of_not_le h
    have : ¬ (m : K) ≤ (n : K) := by
      intro hh; exact h (by exact_mod_cast hh)
    simp [this, Nat.cast_sub h']

theorem stdK_sigmaF (F : RealFns K) (hF : FnsSpec F) : StdK (sigmaF F) where
  numR e v hn hd ht := by
    rw [sigmaF_real F e ht, tval_of_number F e hn, numVal_of_destNumber e v hd]
  zeroN := by simp [sigmaF, typeOf, natVal]
  oneN := by simp [sigmaF, typeOf, natVal]
  litN a hb := by simp [sigmaF, typeOf, natVal, hb]
  plusR a b hw := by
    simp [wt] at hw
    rw [sigmaF_real F _ rfl, sigmaF_real F a hw.1.2, sigmaF_real F b hw.2]
    simp [tval]
  plusN a b hw := by
    simp [wt] at hw
    rw [sigmaF_nat F _ rfl, sigmaF_nat F a hw.1.2, sigmaF_nat F b hw.2]
    simp [natVal]
  timesR a b hw := by
    simp [wt] at hw
    rw [sigmaF_real F _ rfl, sigmaF_real F a hw.1.2, sigmaF_real F b hw.2]
    simp [tval]
  timesN a b hw := by
    simp [wt] at hw
    rw [sigmaF_nat F _ rfl, sigmaF_nat F a hw.1.2, sigmaF_nat F b hw.2]
    simp [natVal]
  minusR a b hw := by
    simp [wt] at hw
    rw [sigmaF_real F _ rfl, sigmaF_real F a hw.1.2, sigmaF_real F b hw.2]
    simp [tval]
  minusN a b hw := by
    simp [wt] at hw
    rw [sigmaF_nat F _ rfl, sigmaF_nat F a hw.1.2, sigmaF_nat F b hw.2]
    simp only [natVal]
    exact natCast_sub_trunc _ _
  uminusR a hw hn := by
    simp [wt] at hw
    rw [sigmaF_real F _ rfl, sigmaF_real F a hw.2]
    simp [tval, hn]
  divide a b hw hn := by
    simp [wt] at hw
    rw [sigmaF_real F _ rfl, sigmaF_real F a hw.1.2, sigmaF_real F b hw.2]
    simp [tval, hn]
  ofNatR a hw hn := by
    simp [wt] at hw
    rw [sigmaF_real F _ rfl, sigmaF_nat F a hw.2]
    simp [tval, hn]
  powN a b k hw hb hk := by
    simp [wt] at hw
    rw [sigmaF_nat F b hb] at hk
    have hk' : natVal b = k := by exact_mod_cast hk
    rw [sigmaF_real F _ rfl, sigmaF_real F a hw.2]
    simp [tval, hb, hk']
  powR a b p hw hb hk hc := by
    simp [wt] at hw
    rw [sigmaF_real F b hb] at hk
    rw [sigmaF_real F a hw.2] at hc ⊢
    rw [sigmaF_real F _ rfl]
    have hnn : (typeOf b == Ty.nat) = false := by simp [hb]
    simp only [tval, hnn, Bool.false_eq_true, if_false]
    by_cases hpos : 0 < tval F a
    · rw [if_pos hpos, hk, hF.rpow_int _ p hpos]
      rfl
    · rw [if_neg hpos]
      by_cases hy : tval F b = 0
      · rw [if_pos hy]
        have hp0 : p = 0 := by
          rw [hk] at hy; exact_mod_cast hy
        subst hp0
        simp [zpowK]
      · rw [if_neg hy]
        by_cases hx : tval F a = 0
        · rw [if_pos hx]
          have hp0 : p ≠ 0 := by
            intro h0; apply hy; rw [hk, h0]; simp
          have hpn : 0 ≤ p := by
            rcases hc with h | h
            · exact absurd hx h
            · exact h
          have hpos' : p.toNat ≠ 0 := by omega
          simp [zpowK, hpn, hx, zero_pow hpos']
        · rw [if_neg hx]
          have hex : ∃ q : Int, tval F b = (q : K) := ⟨p, hk⟩
          rw [dif_pos hex]
          have hch : Classical.choose hex = p :=
            Int.cast_injective ((Classical.choose_spec hex).symm.trans hk)
          rw [hch]

/-- terms with the same `convert_to_poly` (indeterminates numbered by a table that contains their
subterms) have the same value -/
theorem poly_eq_tval (F : RealFns K) (hF : FnsSpec F) (tbl : List AExpr) (a b : AExpr)
    (h : toPoly (realToPE tbl a) = toPoly (realToPE tbl b))
    (hwa : wt a = true) (hwb : wt b = true) (hta : typeOf a = .real) (htb : typeOf b = .real)
    (hma : ∀ t ∈ subterms a, t ∈ tbl) (hmb : ∀ t ∈ subterms b, t ∈ tbl) : tval F a = tval F b := by
  have ea := realToPE_soundK (sigmaF F) (stdK_sigmaF F hF) tbl a hwa hta hma
  have eb := realToPE_soundK (sigmaF F) (stdK_sigmaF F hF) tbl b hwb htb hmb
  have hc := evalEK_congr (valOfK (sigmaF F) tbl) h
  rw [ea, eb, sigmaF_real F a hta, sigmaF_real F b htb] at hc
  exact hc

end Holpy.C05
