import Holpy.C05.IntervalModel
import Holpy.C05.ProofsTval
import Holpy.C05.PropsInterval
import Holpy.C05.ProofsSigma
import Mathlib.Data.Rat.Cast.Order
/-
C05 — helper lemmas for `const_inequality_sound`.
-/
set_option linter.unusedSectionVars false
namespace Holpy.C05
open Holpy.C10.Poly

variable {K : Type} [Field K] [LinearOrder K] [IsStrictOrderedRing K]

/-- what `side1 REL side2` means for values in the ordered field -/
def Rel.holdsK : Rel → K → K → Prop
  | .eq, x, y => x = y
  | .ne, x, y => x ≠ y
  | .cmp .lt, x, y => x < y
  | .cmp .le, x, y => x ≤ y
  | .cmp .gt, x, y => y < x
  | .cmp .ge, x, y => y ≤ x

theorem interval_accept_soundK (r : Rel) (x y : K) (i1 i2 : Iv) (hx : encl i1 x) (hy : encl i2 y) :
    intervalAccept r i1.1 i1.2 i2.1 i2.2 = true → r.holdsK x y := by
  obtain ⟨hx1, hx2⟩ := hx
  obtain ⟨hy1, hy2⟩ := hy
  rcases r with _ | _ | op
  · simp only [intervalAccept, Rel.holdsK, Bool.and_eq_true, beq_iff_eq]
    rintro ⟨⟨e1, e2⟩, e3⟩
    have hxe : x = ((i1.1 : Rat) : K) := le_antisymm (by rw [e1]; exact hx2) hx1
    have hye : y = ((i2.1 : Rat) : K) := le_antisymm (by rw [e2]; exact hy2) hy1
    rw [hxe, hye, e3]
  · simp only [intervalAccept, Rel.holdsK, Bool.or_eq_true, decide_eq_true_eq]
    rintro (h | h)
    · have : ((i1.2 : Rat) : K) < ((i2.1 : Rat) : K) := by exact_mod_cast h
      exact ne_of_lt (lt_of_le_of_lt hx2 (lt_of_lt_of_le this hy1))
    · have : ((i2.2 : Rat) : K) < ((i1.1 : Rat) : K) := by exact_mod_cast h
      exact ne_of_gt (lt_of_le_of_lt hy2 (lt_of_lt_of_le this hx1))
  · cases op <;> simp only [intervalAccept, Rel.holdsK, decide_eq_true_eq] <;> intro h
    · have : ((i1.2 : Rat) : K) < ((i2.1 : Rat) : K) := by exact_mod_cast h
      exact lt_of_le_of_lt hx2 (lt_of_lt_of_le this hy1)
    · have : ((i1.2 : Rat) : K) ≤ ((i2.1 : Rat) : K) := by exact_mod_cast h
      exact le_trans hx2 (le_trans this hy1)
    · have : ((i2.2 : Rat) : K) < ((i1.1 : Rat) : K) := by exact_mod_cast h
      exact lt_of_le_of_lt hy2 (lt_of_lt_of_le this hx1)
    · have : ((i2.2 : Rat) : K) ≤ ((i1.1 : Rat) : K) := by exact_mod_cast h
      exact le_trans hy2 (le_trans this hx1)

theorem accept_zero_refl (r : Rel) (x : K) : intervalAccept r 0 0 0 0 = true → r.holdsK x x := by
  rcases r with _ | _ | op
  · intro _; rfl
  · simp [intervalAccept]
  · cases op <;> simp [intervalAccept, Rel.holdsK]

/-- `eval_bounds` returns an enclosure of the value: exactly the value when `real_eval` succeeds, the
interval of `real_interval_eval` otherwise. -/
theorem evalBounds_encl (P : Prims) (F : RealFns K) (hP : PrimsOK P F) (hF : FnsSpec F) (e : AExpr) (I : Iv)
    (h : evalBounds P e = .ok I) (hw : wt e = true) (ht : typeOf e = .real) : encl I (tval F e) := by
  unfold evalBounds at h
  split at h
  · rename_i v hv
    cases h
    rw [tval_of_realEval F hF e v hv hw ht]
    exact ⟨le_refl _, le_refl _⟩
  · exact interval_eval_sound_given_enclosures P F hP e I h hw ht

theorem relOf_sides_mem {goal : AExpr} {r : Rel} {a b : AExpr} (hrel : relOf goal = some (r, a, b)) :
    (∀ t ∈ subterms a, t ∈ subterms goal) ∧ (∀ t ∈ subterms b, t ∈ subterms goal) := by
  cases goal with
  | eq T x y =>
    simp [relOf] at hrel
    obtain ⟨_, rfl, rfl⟩ := hrel
    constructor <;> intro t ht <;> simp [subterms, ht]
  | cmp op T x y =>
    simp [relOf] at hrel
    obtain ⟨_, rfl, rfl⟩ := hrel
    constructor <;> intro t ht <;> simp [subterms, ht]
  | neg g =>
    cases g with
    | eq T x y =>
      simp [relOf] at hrel
      obtain ⟨_, rfl, rfl⟩ := hrel
      constructor <;> intro t ht <;> simp [subterms, ht]
    | _ => simp [relOf] at hrel
  | _ => simp [relOf] at hrel

end Holpy.C05
