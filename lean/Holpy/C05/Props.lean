import Holpy.C05.Model
import Holpy.C05.Gen
import Holpy.C05.Proofs
import Holpy.C05.ProofsReal
import Holpy.C05.ProofsMacro
/-
C05 — property theorems (statements live here, helper lemmas in Proofs.lean).
-/
namespace Holpy.C05

/-! ### which steps are trusted (regenerated from the sources on every run, Gen.lean) -/

/-- trusted arithmetic macros whose `eval` is modelled: Model.lean (one `_sound` theorem each in this
file), and `real_norm` in NormModel.lean (`real_norm_macro_sound/complete` in PropsNorm.lean, on top of
the polynomial layer proved for C10) -/
def modelled : List String := Macro.all.map Macro.name ++ ["real_norm"]
/-- trusted arithmetic macros judged by the harness oracle only (no Lean model of their body) -/
def oracleOnly : List String := ["real_eq_comparison"]
/-- trusted bridges to external solvers / other provers: properties C06, C16, C18 -/
def bridges : List String := ["z3", "sympy", "simplex_macro", "integer_simplex", "verit_imp_conj"]

/-- a row of the generated table is accepted without expansion at the default check level -/
def trusted (r : String × Option Nat × String) : Bool :=
  match r.2.1 with
  | some l => decide (l ≤ Gen.defaultCheckLevel)
  | none => false

/-- Every `@register_macro` class in the holpy sources whose `level` is at most the default
`check_level` (so that `check_proof` takes its `eval` on trust) is one of the modelled arithmetic
steps, one of the two oracle-only arithmetic steps, or a bridge that belongs to C06/C16/C18.  A
newly added trusted macro makes this obligation fail. -/
theorem trusted_subset_modelled :
    ∀ r ∈ Gen.macroTable, trusted r = true → r.1 ∈ modelled ++ oracleOnly ++ bridges := by
  have h : (Gen.macroTable.all fun r => !trusted r || (modelled ++ oracleOnly ++ bridges).contains r.1) = true := by
    decide +kernel
  intro r hr ht
  have := List.all_eq_true.mp h r hr
  simpa [ht] using this

example : ("nat_eval", some 0, "data.nat") ∈ Gen.macroTable ∧ trusted ("nat_eval", some 0, "data.nat") = true := by
  decide +kernel


/-! ### numerals -/

/-- the value of a chain of `bit0` / `bit1` over `zero` / `one`, most significant digit innermost
(`bit0 n = n + n`, `bit1 n = n + n + 1` in the library) — written independently of the model's reader -/
def chainValue : AExpr → Option Nat
  | .zero _ => some 0
  | .one _ => some 1
  | .bit0 a => (chainValue a).map (fun n => n + n)
  | .bit1 a => (chainValue a).map (fun n => n + n + 1)
  | _ => none

/-- `is_binary` / `dest_binary`: the numeral reader accepts EVERY chain `zero | one | bit0 _ | bit1 _`
(normal form or not: leading zeros `bit1 (bit0 zero)`, `bit0 zero`, …), reads exactly those, and returns
the standard value of the chain; for a well-typed chain this is its typed denotation.  Every evaluator
theorem below quantifies over all terms, hence over all such chains (`nat_eval`, `int_eval`, `real_eval`,
`dest_number` all go through this reader). -/
theorem dest_binary_value (ρ : Nat → Val) (a : AExpr) :
    (isBinary a = true ↔ (chainValue a).isSome = true) ∧
    (isBinary a = true → chainValue a = some (destBinary a)) ∧
    (isBinary a = true → wt a = true → typeOf a = .nat → den ρ a = some (.n (destBinary a))) := by
  refine ⟨?_, ?_, isBinary_den ρ a⟩
  · induction a <;> simp_all [isBinary, chainValue]
  · induction a <;> simp_all [isBinary, chainValue, destBinary] <;> omega

/- [0101]: bit1 (bit0 (bit1 zero)) is read as 5, not 13 -/
example : destBinary (.bit1 (.bit0 (.bit1 (.zero .nat)))) = 5 ∧
    natEval (.ofNat .nat (.bit1 (.bit0 (.bit1 (.zero .nat))))) = .ok 5 ∧
    realEval (.ofNat .real (.bit0 (.zero .nat))) = .ok (.int 0) := by decide +kernel

/-! ### the evaluators -/

/-- `nat_eval` (after fixes/C05-1): if it returns `v` on a well-typed term of type nat, then `v`
is the value of the term with truncated subtraction. -/
theorem natEval_sound (ρ : Nat → Val) (e : AExpr) (v : Nat) :
    natEval e = .ok v → typeOf e = .nat → wt e = true → den ρ e = some (.n v) :=
  natEval_sound' ρ e v

example : natEval (.plus .nat (.minus .nat (.one .nat) (.ofNat .nat (.bit0 (.one .nat)))) (.one .nat)) = .ok 1 := by
  decide +kernel

/-- `int_eval`: on a well-typed term of type int the result is a Python `int` and it is the value
of the term in ℤ. -/
theorem intEval_sound (ρ : Nat → Val) (e : AExpr) (v : Num) :
    intEval e = .ok v → typeOf e = .int → wt e = true → ∃ k, v = .int k ∧ den ρ e = some (.i k) :=
  intEval_sound' ρ e v

example : intEval (.minus .int (.one .int) (.uminus .int (.ofNat .int (.bit1 (.one .nat))))) = .ok (.int 4) := by
  decide +kernel

/-- `real_eval`: on a well-typed term of type real the result (int or Fraction) is the value of
the term in ℚ with `x / 0 = 0`, natural powers, and integer-valued real powers. -/
theorem realEval_sound (ρ : Nat → Val) (e : AExpr) (v : Num) :
    realEval e = .ok v → typeOf e = .real → wt e = true → den ρ e = some (.q v.toRat) :=
  realEval_sound' ρ e v

example : realEval (.power .real (.uminus .real (.ofNat .real (.bit0 (.one .nat))))
    (.uminus .real (.ofNat .real (.bit1 (.one .nat))))) = .ok (.frac (-1 / 8)) := by
  decide +kernel

/-! ### the trusted macros (one-step proofs through the checker) -/

/-- `nat_eval`: an accepted step asserts exactly the goal, the goal is an equation between
naturals, and it is true.  (Rejection half: anything else is not accepted.) -/
theorem nat_eval_sound (ρ : Nat → Val) (goal : AExpr) (th : Thm) :
    accept .natEval goal = .ok th →
      th.prop = goal ∧ den ρ goal = some (.b true) ∧ ∃ a b, goal = .eq .nat a b := by
  intro h
  obtain ⟨hm, hw, _⟩ := checked_ok h
  simp only [Macro.eval, natEvalMacro] at hm
  split at hm
  · rename_i T a b
    split at hm
    · rename_i hty
      have hty' : typeOf a = .nat := by simpa using hty
      obtain ⟨x, hx, hm⟩ := bind_ok hm
      obtain ⟨y, hy, hm⟩ := bind_ok hm
      split at hm
      · rename_i hxy
        cases hm
        obtain ⟨rfl, hwa, hwb, htb⟩ := wt_eq_sides hw hty'
        have hxy' : x = y := by simpa using hxy
        refine ⟨rfl, ?_, a, b, rfl⟩
        simp [den, natEval_sound' ρ a x hx hty' hwa, natEval_sound' ρ b y hy htb hwb, hxy']
      · cases hm
    · cases hm
  · cases hm

example : accept .natEval (.eq .nat (.minus .nat (.one .nat) (.ofNat .nat (.bit0 (.one .nat)))) (.zero .nat))
    = .ok ⟨.eq .nat (.minus .nat (.one .nat) (.ofNat .nat (.bit0 (.one .nat)))) (.zero .nat)⟩ := by decide

/-- the defect recorded in DESIGN §5 is rejected by the fixed step: `(1::real) - 2 = 0` -/
example : accept .natEval (.eq .real (.minus .real (.one .real) (.ofNat .real (.bit0 (.one .nat)))) (.zero .real))
    = .error .assertion := by decide +kernel

/-- `int_eval`. -/
theorem int_eval_sound (ρ : Nat → Val) (goal : AExpr) (th : Thm) :
    accept .intEval goal = .ok th →
      th.prop = goal ∧ den ρ goal = some (.b true) ∧ ∃ a b, goal = .eq .int a b := by
  intro h
  obtain ⟨hm, hw, _⟩ := checked_ok h
  simp only [Macro.eval, intEvalMacro] at hm
  split at hm
  · rename_i T a b
    split at hm
    · rename_i hty
      have hty' : typeOf a = .int := by simpa using hty
      obtain ⟨x, hx, hm⟩ := bind_ok hm
      obtain ⟨y, hy, hm⟩ := bind_ok hm
      split at hm
      · rename_i hxy
        cases hm
        obtain ⟨rfl, hwa, hwb, htb⟩ := wt_eq_sides hw hty'
        obtain ⟨da, sa⟩ := evSound_int ρ a x hx hty' hwa
        obtain ⟨db, sb⟩ := evSound_int ρ b y hy htb hwb
        refine ⟨rfl, ?_, a, b, rfl⟩
        rw [den_eq_valAt ρ _ a b x y da db sa sb, hxy]
      · cases hm
    · cases hm
  · cases hm

example : accept .intEval (.eq .int (.minus .int (.one .int) (.ofNat .int (.bit0 (.one .nat)))) (.uminus .int (.one .int)))
    = .ok ⟨.eq .int (.minus .int (.one .int) (.ofNat .int (.bit0 (.one .nat)))) (.uminus .int (.one .int))⟩ := by
  decide +kernel

/-- `real_eval`. -/
theorem real_eval_sound (ρ : Nat → Val) (goal : AExpr) (th : Thm) :
    accept .realEval goal = .ok th →
      th.prop = goal ∧ den ρ goal = some (.b true) ∧ ∃ a b, goal = .eq .real a b := by
  intro h
  obtain ⟨hm, hw, _⟩ := checked_ok h
  simp only [Macro.eval, realEvalMacro] at hm
  split at hm
  · rename_i T a b
    split at hm
    · rename_i hty
      have hty' : typeOf a = .real := by simpa using hty
      obtain ⟨x, hx, hm⟩ := bind_ok hm
      obtain ⟨y, hy, hm⟩ := bind_ok hm
      split at hm
      · rename_i hxy
        cases hm
        obtain ⟨rfl, hwa, hwb, htb⟩ := wt_eq_sides hw hty'
        obtain ⟨da, sa⟩ := evSound_real ρ a x hx hty' hwa
        obtain ⟨db, sb⟩ := evSound_real ρ b y hy htb hwb
        refine ⟨rfl, ?_, a, b, rfl⟩
        rw [den_eq_valAt ρ _ a b x y da db sa sb, hxy]
      · cases hm
    · cases hm
  · cases hm

example : (accept .realEval (.eq .real (.divide (.one .real) (.ofNat .real (.bit0 (.one .nat))))
    (.minus .real (.one .real) (.divide (.one .real) (.ofNat .real (.bit0 (.one .nat))))))).isOk = true := by
  decide +kernel

/-- `int_const_ineq`: the asserted statement is the goal (one negation stripped) or its negation,
it is true, and the goal relates two terms of type int. -/
theorem int_const_ineq_sound (ρ : Nat → Val) (goal : AExpr) (th : Thm) :
    accept .intConstIneq goal = .ok th →
      (th.prop = stripNeg goal ∨ th.prop = .neg (stripNeg goal)) ∧ den ρ th.prop = some (.b true) ∧
        IsRelAt .int (stripNeg goal) :=
  constIneqWith_sound ρ .int intEval evSound_int goal th

example : accept .intConstIneq (.cmp .lt .int (.one .int) (.zero .int))
    = .ok ⟨.neg (.cmp .lt .int (.one .int) (.zero .int))⟩ := by decide +kernel

/-- `real_const_ineq`. -/
theorem real_const_ineq_sound (ρ : Nat → Val) (goal : AExpr) (th : Thm) :
    accept .realConstIneq goal = .ok th →
      (th.prop = stripNeg goal ∨ th.prop = .neg (stripNeg goal)) ∧ den ρ th.prop = some (.b true) ∧
        IsRelAt .real (stripNeg goal) :=
  constIneqWith_sound ρ .real realEval evSound_real goal th

example : accept .realConstIneq (.neg (.cmp .le .real (.divide (.one .real) (.ofNat .real (.bit0 (.one .nat)))) (.one .real)))
    = .ok ⟨.cmp .le .real (.divide (.one .real) (.ofNat .real (.bit0 (.one .nat)))) (.one .real)⟩ := by decide +kernel

/-- `real_const_eq`: asserts `goal ⟷ true` or `goal ⟷ false`, whichever is the case; the goal
relates two variable-free terms of type real. -/
theorem real_const_eq_sound (ρ : Nat → Val) (goal : AExpr) (th : Thm) :
    accept .realConstEq goal = .ok th →
      (th.prop = .eq .bool goal .tru ∨ th.prop = .eq .bool goal .fls) ∧
        den ρ th.prop = some (.b true) ∧ IsRelAt .real goal := by
  intro h
  obtain ⟨hm, hw, _⟩ := checked_ok h
  simp only [Macro.eval, realConstEqMacro] at hm
  split at hm
  · cases hm
  · split at hm
    · rename_i T a b _
      split at hm
      · rename_i hty
        have hty' : typeOf a = .real := by simpa using hty
        split at hm
        · rename_i l r hl hr
          cases hm
          have hwg : wt (.eq T a b) = true := wt_eq_bool_left hw
          obtain ⟨rfl, hwa, hwb, htb⟩ := wt_eq_sides hwg hty'
          obtain ⟨da, sa⟩ := evSound_real ρ a l hl hty' hwa
          obtain ⟨db, sb⟩ := evSound_real ρ b r hr htb hwb
          have hd := den_eq_valAt ρ _ a b l r da db sa sb
          refine ⟨?_, ?_, Or.inl ⟨a, b, rfl⟩⟩
          · cases l.beq r <;> simp
          · rw [den_eq_bool_const ρ _ _ _ hd]; simp
        · cases hm
      · cases hm
    · rename_i op T a b _
      split at hm
      · rename_i hty
        have hty' : typeOf a = .real := by simpa using hty
        split at hm
        · rename_i l r hl hr
          cases hm
          have hwg : wt (.cmp op T a b) = true := wt_eq_bool_left hw
          obtain ⟨rfl, hwa, hwb, htb⟩ := wt_cmp_sides hwg hty'
          obtain ⟨da, sa⟩ := evSound_real ρ a l hl hty' hwa
          obtain ⟨db, sb⟩ := evSound_real ρ b r hr htb hwb
          have hd := den_cmp_valAt ρ _ op a b l r da db sa sb
          refine ⟨?_, ?_, Or.inr ⟨op, a, b, rfl⟩⟩
          · cases cmpHolds op l r <;> simp
          · rw [den_eq_bool_const ρ _ _ _ hd]; simp
        · cases hm
      · cases hm
    · cases hm

example : accept .realConstEq (.cmp .gt .real (.zero .real) (.one .real))
    = .ok ⟨.eq .bool (.cmp .gt .real (.zero .real) (.one .real)) .fls⟩ := by decide +kernel

/-- `real_compare`. -/
theorem real_compare_sound (ρ : Nat → Val) (goal : AExpr) (th : Thm) :
    accept .realCompare goal = .ok th →
      th.prop = goal ∧ den ρ goal = some (.b true) ∧ ∃ op a b, goal = .cmp op .real a b := by
  intro h
  obtain ⟨hm, hw, _⟩ := checked_ok h
  simp only [Macro.eval, realCompareMacro] at hm
  split at hm
  · rename_i op T a b
    split at hm
    · rename_i hty
      have hty' : typeOf a = .real := by simpa using hty
      obtain ⟨x, hx, hm⟩ := bind_ok hm
      obtain ⟨y, hy, hm⟩ := bind_ok hm
      split at hm
      · rename_i hxy
        cases hm
        obtain ⟨rfl, hwa, hwb, htb⟩ := wt_cmp_sides hw hty'
        obtain ⟨da, sa⟩ := evSound_real ρ a x hx hty' hwa
        obtain ⟨db, sb⟩ := evSound_real ρ b y hy htb hwb
        refine ⟨rfl, ?_, op, a, b, rfl⟩
        rw [den_cmp_valAt ρ _ op a b x y da db sa sb, hxy]
      · cases hm
    · cases hm
  · cases hm

example : (accept .realCompare (.cmp .ge .real (.ofNat .real (.bit0 (.one .nat))) (.one .real))).isOk = true := by
  decide +kernel

/-- `const_inequality`, PARTIAL: only the branch in which both sides are evaluated exactly
(`nat_eval`, or `real_eval` succeeding) is modelled; there the asserted goal is true and relates
terms of type nat or real.  When `real_eval` fails the Python decides with interval bounds
(`real_interval_eval`, fixes/C05-2) — outside the model, see `interval_decision_sound`. -/
theorem const_inequality_exact_sound_partial (ρ : Nat → Val) (goal : AExpr) (th : Thm) :
    accept .constInequality goal = .ok th →
      th.prop = goal ∧ den ρ goal = some (.b true) ∧
        (IsRelAt .nat (stripNeg goal) ∨ IsRelAt .real (stripNeg goal)) := by
  intro h
  obtain ⟨hm, hw, _⟩ := checked_ok h
  simp only [Macro.eval, constInequalityMacro] at hm
  split at hm
  · rename_i T a b
    split at hm
    · cases hm
    · rename_i ev hev
      obtain ⟨hs, hT⟩ := ineqEvaluator_sound _ ev hev
      obtain ⟨l, hl, hm⟩ := bind_ok hm
      obtain ⟨r, hr, hm⟩ := bind_ok hm
      split at hm
      · rename_i hb
        cases hm
        obtain ⟨rfl, hwa, hwb, htb⟩ := wt_eq_sides hw rfl
        obtain ⟨da, sa⟩ := hs ρ a l hl rfl hwa
        obtain ⟨db, sb⟩ := hs ρ b r hr htb hwb
        refine ⟨rfl, ?_, ?_⟩
        · rw [den_eq_valAt ρ _ a b l r da db sa sb, hb]
        · rcases hT with hT | hT
          · exact Or.inl (Or.inl ⟨a, b, by simp [stripNeg, hT]⟩)
          · exact Or.inr (Or.inl ⟨a, b, by simp [stripNeg, hT]⟩)
      · cases hm
  · rename_i T a b
    split at hm
    · cases hm
    · rename_i ev hev
      obtain ⟨hs, hT⟩ := ineqEvaluator_sound _ ev hev
      obtain ⟨l, hl, hm⟩ := bind_ok hm
      obtain ⟨r, hr, hm⟩ := bind_ok hm
      split at hm
      · rename_i hb
        cases hm
        obtain ⟨rfl, hwa, hwb, htb⟩ := wt_eq_sides (wt_neg hw) rfl
        obtain ⟨da, sa⟩ := hs ρ a l hl rfl hwa
        obtain ⟨db, sb⟩ := hs ρ b r hr htb hwb
        refine ⟨rfl, ?_, ?_⟩
        · rw [den_neg ρ _ _ (den_eq_valAt ρ _ a b l r da db sa sb)]
          simpa using hb
        · rcases hT with hT | hT
          · exact Or.inl (Or.inl ⟨a, b, by simp [stripNeg, hT]⟩)
          · exact Or.inr (Or.inl ⟨a, b, by simp [stripNeg, hT]⟩)
      · cases hm
  · rename_i op T a b
    split at hm
    · cases hm
    · rename_i ev hev
      obtain ⟨hs, hT⟩ := ineqEvaluator_sound _ ev hev
      obtain ⟨l, hl, hm⟩ := bind_ok hm
      obtain ⟨r, hr, hm⟩ := bind_ok hm
      split at hm
      · rename_i hb
        cases hm
        obtain ⟨rfl, hwa, hwb, htb⟩ := wt_cmp_sides hw rfl
        obtain ⟨da, sa⟩ := hs ρ a l hl rfl hwa
        obtain ⟨db, sb⟩ := hs ρ b r hr htb hwb
        refine ⟨rfl, ?_, ?_⟩
        · rw [den_cmp_valAt ρ _ op a b l r da db sa sb, hb]
        · rcases hT with hT | hT
          · exact Or.inl (Or.inr ⟨op, a, b, by simp [stripNeg, hT]⟩)
          · exact Or.inr (Or.inr ⟨op, a, b, by simp [stripNeg, hT]⟩)
      · cases hm
  · cases hm

example : (accept .constInequality (.cmp .le .nat (.minus .nat (.one .nat) (.ofNat .nat (.bit0 (.one .nat)))) (.zero .nat))).isOk = true := by
  decide +kernel

/-- truncated subtraction is respected: `(1::nat) - 2 < 0` is not accepted -/
example : accept .constInequality (.cmp .lt .nat (.minus .nat (.one .nat) (.ofNat .nat (.bit0 (.one .nat)))) (.zero .nat))
    = .error .assertion := by decide +kernel

/-! ### rejection half, uniformly -/

/-- the types a step is meant for -/
def Macro.intended : Macro → List Ty
  | .natEval => [.nat]
  | .intEval | .intConstIneq => [.int]
  | .realEval | .realConstEq | .realCompare | .realConstIneq => [.real]
  | .constInequality => [.nat, .real]

/-- A goal that is not a relation between terms of the type the step is meant for is rejected:
whatever a modelled trusted step asserts is a (possibly negated, possibly `⟷ true/false`) relation
between terms of an intended type. -/
theorem accepted_has_intended_type (m : Macro) (goal : AExpr) (th : Thm) :
    accept m goal = .ok th → ∃ T ∈ m.intended, relType th.prop = some T := by
  intro h
  let ρ : Nat → Val := fun _ => .b false
  cases m with
  | natEval =>
    obtain ⟨h1, _, a, b, rfl⟩ := nat_eval_sound ρ goal th h
    exact ⟨.nat, by simp [Macro.intended], by rw [h1]; simp [relType]⟩
  | intEval =>
    obtain ⟨h1, _, a, b, rfl⟩ := int_eval_sound ρ goal th h
    exact ⟨.int, by simp [Macro.intended], by rw [h1]; simp [relType]⟩
  | realEval =>
    obtain ⟨h1, _, a, b, rfl⟩ := real_eval_sound ρ goal th h
    exact ⟨.real, by simp [Macro.intended], by rw [h1]; simp [relType]⟩
  | realCompare =>
    obtain ⟨h1, _, op, a, b, rfl⟩ := real_compare_sound ρ goal th h
    exact ⟨.real, by simp [Macro.intended], by rw [h1]; simp [relType]⟩
  | intConstIneq =>
    obtain ⟨h1, _, h3⟩ := int_const_ineq_sound ρ goal th h
    refine ⟨.int, by simp [Macro.intended], ?_⟩
    rcases h3 with ⟨a, b, e⟩ | ⟨op, a, b, e⟩ <;> rcases h1 with h1 | h1 <;> rw [h1, e] <;> simp [relType]
  | realConstIneq =>
    obtain ⟨h1, _, h3⟩ := real_const_ineq_sound ρ goal th h
    refine ⟨.real, by simp [Macro.intended], ?_⟩
    rcases h3 with ⟨a, b, e⟩ | ⟨op, a, b, e⟩ <;> rcases h1 with h1 | h1 <;> rw [h1, e] <;> simp [relType]
  | realConstEq =>
    obtain ⟨h1, _, h3⟩ := real_const_eq_sound ρ goal th h
    refine ⟨.real, by simp [Macro.intended], ?_⟩
    rcases h3 with ⟨a, b, e⟩ | ⟨op, a, b, e⟩ <;> rcases h1 with h1 | h1 <;> rw [h1, e] <;> simp [relType]
  | constInequality =>
    obtain ⟨h1, _, h3⟩ := const_inequality_exact_sound_partial ρ goal th h
    rw [h1, relType_stripNeg]
    rcases h3 with h3 | h3
    · refine ⟨.nat, by simp [Macro.intended], ?_⟩
      rcases h3 with ⟨a, b, e⟩ | ⟨op, a, b, e⟩ <;> rw [e] <;> simp [relType]
    · refine ⟨.real, by simp [Macro.intended], ?_⟩
      rcases h3 with ⟨a, b, e⟩ | ⟨op, a, b, e⟩ <;> rw [e] <;> simp [relType]

/-- e.g. the polymorphic `+` at a type variable is not what `int_eval` is for -/
example : accept .intEval (.eq .other (.plus .other (.one .other) (.one .other)) (.ofNat .other (.bit0 (.one .nat))))
    = .error .assertion := by decide +kernel

/-! ### decisions taken from enclosures (the interval evaluator itself is not modelled) -/

/-- The six accept conditions of `eval_inequality_expr` (fixes/C05-2) are pinned in the model
(`intervalAccept`, tied to the Python by the `interval-decision` correspondence stream): whenever the
bounds enclose the two values and the condition holds, the accepted relation is true. -/
theorem interval_accept_sound (r : Rel) (x y lo1 hi1 lo2 hi2 : Rat)
    (hx : lo1 ≤ x ∧ x ≤ hi1) (hy : lo2 ≤ y ∧ y ≤ hi2) :
    intervalAccept r lo1 hi1 lo2 hi2 = true → r.holds x y := by
  rcases r with _ | _ | op
  · simp only [intervalAccept, Rel.holds, Bool.and_eq_true, beq_iff_eq]; grind
  · simp only [intervalAccept, Rel.holds, Bool.or_eq_true, decide_eq_true_eq]; grind
  · cases op <;> simp only [intervalAccept, Rel.holds, decide_eq_true_eq] <;> grind

example : intervalAccept (.cmp .le) 1 2 2 3 = true ∧ intervalAccept (.cmp .le) 1 2 (3/2) 3 = false := by decide +kernel

/-- ... and none of the six conditions can be relaxed: if the condition fails there are values inside
the enclosures for which the relation is false (so accepting `a ≤ b` when the enclosures merely
overlap, or an equality between inexact sides, asserts something the bounds do not justify). -/
theorem interval_accept_tight (r : Rel) (lo1 hi1 lo2 hi2 : Rat) (h1 : lo1 ≤ hi1) (h2 : lo2 ≤ hi2) :
    intervalAccept r lo1 hi1 lo2 hi2 = false →
      ∃ x y, (lo1 ≤ x ∧ x ≤ hi1) ∧ (lo2 ≤ y ∧ y ≤ hi2) ∧ ¬ r.holds x y := by
  intro h
  rcases r with _ | _ | op
  · simp only [intervalAccept, Rel.holds] at h ⊢
    by_cases e1 : lo1 = hi1
    · by_cases e2 : lo2 = hi2
      · refine ⟨lo1, lo2, ⟨Rat.le_refl, h1⟩, ⟨Rat.le_refl, h2⟩, ?_⟩
        intro e; simp [e1, e2] at h; grind
      · by_cases e3 : lo1 = lo2
        · exact ⟨lo1, hi2, ⟨Rat.le_refl, h1⟩, ⟨h2, Rat.le_refl⟩, by grind⟩
        · exact ⟨lo1, lo2, ⟨Rat.le_refl, h1⟩, ⟨Rat.le_refl, h2⟩, e3⟩
    · by_cases e3 : lo1 = lo2
      · exact ⟨hi1, lo2, ⟨h1, Rat.le_refl⟩, ⟨Rat.le_refl, h2⟩, by grind⟩
      · exact ⟨lo1, lo2, ⟨Rat.le_refl, h1⟩, ⟨Rat.le_refl, h2⟩, e3⟩
  · simp only [intervalAccept, Rel.holds, Bool.or_eq_false_iff, decide_eq_false_iff_not] at h ⊢
    -- the enclosures overlap: a common point
    by_cases c : lo1 ≤ lo2
    · exact ⟨lo2, lo2, ⟨c, by grind⟩, ⟨Rat.le_refl, h2⟩, by simp⟩
    · exact ⟨lo1, lo1, ⟨Rat.le_refl, h1⟩, ⟨by grind, by grind⟩, by simp⟩
  · cases op <;> simp only [intervalAccept, Rel.holds, decide_eq_false_iff_not] at h ⊢
    · exact ⟨hi1, lo2, ⟨h1, Rat.le_refl⟩, ⟨Rat.le_refl, h2⟩, h⟩
    · exact ⟨hi1, lo2, ⟨h1, Rat.le_refl⟩, ⟨Rat.le_refl, h2⟩, h⟩
    · exact ⟨lo1, hi2, ⟨Rat.le_refl, h1⟩, ⟨h2, Rat.le_refl⟩, h⟩
    · exact ⟨lo1, hi2, ⟨Rat.le_refl, h1⟩, ⟨h2, Rat.le_refl⟩, h⟩

example : ∃ x y : Rat, (1 ≤ x ∧ x ≤ 2) ∧ ((3/2 : Rat) ≤ y ∧ y ≤ 3) ∧ ¬ (Rel.cmp .le).holds x y :=
  interval_accept_tight (.cmp .le) 1 2 (3/2) 3 (by decide +kernel) (by decide +kernel) (by decide +kernel)

/-- An approximation `x'` known to be within `ε` of `x` is the enclosure `[x' - ε, x' + ε]`.  From two such
enclosures the model accepts `x < y` exactly when the margin exceeds `2ε`, and then `x < y` holds.  (The
float code removed by fixes/C05-2 decided `x' < y'` with no margin at all.) -/
theorem approx_decision_sound (x y x' y' ε : Rat) (hx : x' - ε ≤ x ∧ x ≤ x' + ε)
    (hy : y' - ε ≤ y ∧ y ≤ y' + ε) :
    (intervalAccept (.cmp .lt) (x' - ε) (x' + ε) (y' - ε) (y' + ε) = true ↔ x' + 2 * ε < y') ∧
      (x' + 2 * ε < y' → x < y) := by
  simp only [intervalAccept, decide_eq_true_eq]
  grind

example : intervalAccept (.cmp .lt) (1 - 1/4) (1 + 1/4) (2 - 1/4) (2 + 1/4) = true := by decide +kernel

end Holpy.C05
