import Holpy.Common.Sexp
import Holpy.C05.Model
import Holpy.C05.NormModel
import Holpy.C05.IntervalModel
/-
Line protocol for the C05 model (one s-expression in, one out):
  (nat_eval E)   -> (ok N) | (err KIND)
  (int_eval E)   -> (ok NUM) | (err KIND)
  (real_eval E)  -> (ok NUM) | (err KIND)
  (macro NAME E) -> (ok E') | (err KIND)          E' = the asserted statement
  (den E)        -> none | (n K) | (i K) | (q NUM DEN) | (b T|F)     (atoms: no value)
  (wt E)         -> T | F
  (ivl E ((NAME N D N D N D N D) ...) (N D N D)) -> (ok N D N D) | (err KIND)      [bnd: the same for evalBounds; cineq: acceptConstInequality -> (ok E') | (err KIND)]
        ivEval with exact rational interval arithmetic, the recorded calls NAME(arg lo, arg hi) = (res lo, res hi) of
        exp log sqrt sin cos, and the interval used for pi
  (ineq REL N D N D N D N D) -> T | F   REL = eq ne lt le gt ge; bounds lo1 hi1 lo2 hi2 as num den
NUM = (int K) | (frac NUM DEN)
E   = (zero T) (one T) (bit0 E) (bit1 E) (suc E) (ofnat T E) (ofint E) (plus T E E) (minus T E E)
      (times T E E) (uminus T E) (divide E E) (inverse E) (power T E E) (eq T E E)
      (lt T E E) (le T E E) (gt T E E) (ge T E E) (neg E) tru fls (atom T ID T|F)
T   = nat | int | real | bool | other
-/
open Holpy Holpy.C05

namespace Holpy.C05.Driver

def tyOf : Sexp → Option Ty
  | .atom "nat" => some .nat
  | .atom "int" => some .int
  | .atom "real" => some .real
  | .atom "bool" => some .bool
  | .atom "other" => some .other
  | _ => none

def tyTo : Ty → Sexp
  | .nat => .atom "nat"
  | .int => .atom "int"
  | .real => .atom "real"
  | .bool => .atom "bool"
  | .other => .atom "other"

def fnOf : String → Option Fn
  | "sqrt" => some .sqrt | "sin" => some .sin | "cos" => some .cos | "tan" => some .tan | "cot" => some .cot
  | "sec" => some .sec | "csc" => some .csc | "log" => some .log | "exp" => some .exp | "abs" => some .abs
  | "atn" => some .atn | _ => none

def fnName : Fn → String
  | .sqrt => "sqrt" | .sin => "sin" | .cos => "cos" | .tan => "tan" | .cot => "cot" | .sec => "sec"
  | .csc => "csc" | .log => "log" | .exp => "exp" | .abs => "abs" | .atn => "atn"

partial def exprOf : Sexp → Option AExpr
  | .atom "tru" => some .tru
  | .atom "fls" => some .fls
  | .list [.atom "zero", t] => do some (.zero (← tyOf t))
  | .list [.atom "one", t] => do some (.one (← tyOf t))
  | .list [.atom "bit0", a] => do some (.bit0 (← exprOf a))
  | .list [.atom "bit1", a] => do some (.bit1 (← exprOf a))
  | .list [.atom "suc", a] => do some (.suc (← exprOf a))
  | .list [.atom "ofnat", t, a] => do some (.ofNat (← tyOf t) (← exprOf a))
  | .list [.atom "ofint", a] => do some (.ofInt (← exprOf a))
  | .list [.atom "plus", t, a, b] => do some (.plus (← tyOf t) (← exprOf a) (← exprOf b))
  | .list [.atom "minus", t, a, b] => do some (.minus (← tyOf t) (← exprOf a) (← exprOf b))
  | .list [.atom "times", t, a, b] => do some (.times (← tyOf t) (← exprOf a) (← exprOf b))
  | .list [.atom "uminus", t, a] => do some (.uminus (← tyOf t) (← exprOf a))
  | .list [.atom "divide", a, b] => do some (.divide (← exprOf a) (← exprOf b))
  | .list [.atom "inverse", a] => do some (.inverse (← exprOf a))
  | .list [.atom "power", t, a, b] => do some (.power (← tyOf t) (← exprOf a) (← exprOf b))
  | .list [.atom "eq", t, a, b] => do some (.eq (← tyOf t) (← exprOf a) (← exprOf b))
  | .list [.atom "lt", t, a, b] => do some (.cmp .lt (← tyOf t) (← exprOf a) (← exprOf b))
  | .list [.atom "le", t, a, b] => do some (.cmp .le (← tyOf t) (← exprOf a) (← exprOf b))
  | .list [.atom "gt", t, a, b] => do some (.cmp .gt (← tyOf t) (← exprOf a) (← exprOf b))
  | .list [.atom "ge", t, a, b] => do some (.cmp .ge (← tyOf t) (← exprOf a) (← exprOf b))
  | .list [.atom "neg", a] => do some (.neg (← exprOf a))
  | .list [.atom "atom", t, i, v] => do some (.atom (← tyOf t) (← i.toNat?) (← v.toBool?))
  | .list [.atom "fn", .atom f, a] => do some (.fn (← fnOf f) (← exprOf a))
  | .atom "pi" => some .pi
  | _ => none

def cmpName : Cmp → String
  | .lt => "lt" | .le => "le" | .gt => "gt" | .ge => "ge"

partial def exprTo : AExpr → Sexp
  | .tru => .atom "tru"
  | .fls => .atom "fls"
  | .zero t => .list [.atom "zero", tyTo t]
  | .one t => .list [.atom "one", tyTo t]
  | .bit0 a => .list [.atom "bit0", exprTo a]
  | .bit1 a => .list [.atom "bit1", exprTo a]
  | .suc a => .list [.atom "suc", exprTo a]
  | .ofNat t a => .list [.atom "ofnat", tyTo t, exprTo a]
  | .ofInt a => .list [.atom "ofint", exprTo a]
  | .plus t a b => .list [.atom "plus", tyTo t, exprTo a, exprTo b]
  | .minus t a b => .list [.atom "minus", tyTo t, exprTo a, exprTo b]
  | .times t a b => .list [.atom "times", tyTo t, exprTo a, exprTo b]
  | .uminus t a => .list [.atom "uminus", tyTo t, exprTo a]
  | .divide a b => .list [.atom "divide", exprTo a, exprTo b]
  | .inverse a => .list [.atom "inverse", exprTo a]
  | .power t a b => .list [.atom "power", tyTo t, exprTo a, exprTo b]
  | .eq t a b => .list [.atom "eq", tyTo t, exprTo a, exprTo b]
  | .cmp op t a b => .list [.atom (cmpName op), tyTo t, exprTo a, exprTo b]
  | .neg a => .list [.atom "neg", exprTo a]
  | .atom t i v => .list [.atom "atom", tyTo t, Sexp.ofNat i, Sexp.ofBool v]
  | .fn f a => .list [.atom "fn", .atom (fnName f), exprTo a]
  | .pi => .atom "pi"

def errTo : Err → String
  | .conv => "conv"
  | .assertion => "assertion"
  | .term => "term"
  | .notImpl => "notimpl"
  | .typing => "typing"
  | .approx => "approx"

def numTo : Num → Sexp
  | .int k => .list [.atom "int", Sexp.ofInt k]
  | .frac q => .list [.atom "frac", Sexp.ofInt q.num, Sexp.ofNat q.den]

def resTo {α} (f : α → Sexp) : Except Err α → String
  | .ok v => toString (Sexp.list [.atom "ok", f v])
  | .error e => toString (Sexp.list [.atom "err", .atom (errTo e)])

def macroOf (s : String) : Option Macro := Macro.all.find? (fun m => m.name == s)

def valTo : Option Val → Sexp
  | none => .atom "none"
  | some (.n k) => .list [.atom "n", Sexp.ofNat k]
  | some (.i k) => .list [.atom "i", Sexp.ofInt k]
  | some (.q r) => .list [.atom "q", Sexp.ofInt r.num, Sexp.ofNat r.den]
  | some (.b v) => .list [.atom "b", Sexp.ofBool v]

/-- Valuation used by the `den` command: atom `i` is given a value of no numeric type, so any
expression containing an atom has no denotation there. -/
def noVal : Nat → Val := fun _ => .b false

def hasAtom : AExpr → Bool
  | .zero _ | .one _ | .tru | .fls => false
  | .atom _ _ _ | .pi | .fn _ _ => true
  | .bit0 a | .bit1 a | .suc a | .ofNat _ a | .ofInt a | .uminus _ a | .inverse a | .neg a => hasAtom a
  | .plus _ a b | .minus _ a b | .times _ a b | .divide a b | .power _ a b | .eq _ a b
  | .cmp _ _ a b => hasAtom a || hasAtom b

def handle (line : String) : String :=
  match Sexp.parse line with
  | some (.list [.atom "nat_eval", e]) =>
    match exprOf e with
    | some x => resTo Sexp.ofNat (natEval x)
    | none => "bad-op"
  | some (.list [.atom "int_eval", e]) =>
    match exprOf e with
    | some x => resTo numTo (intEval x)
    | none => "bad-op"
  | some (.list [.atom "real_eval", e]) =>
    match exprOf e with
    | some x => resTo numTo (realEval x)
    | none => "bad-op"
  | some (.list [.atom "macro", .atom "real_norm", e]) =>
    match exprOf e with
    | some x => resTo (fun th => exprTo th.prop) (acceptRealNorm x)
    | none => "bad-op"
  | some (.list [.atom "macro", .atom name, e]) =>
    match macroOf name, exprOf e with
    | some m, some x => resTo (fun th => exprTo th.prop) (accept m x)
    | _, _ => "bad-op"
  | some (.list [.atom "den", e]) =>
    match exprOf e with
    | some x => toString (valTo (if hasAtom x then none else den noVal x))
    | none => "bad-op"
  | some (.list [.atom "ineq", .atom rel, a, b, c, d, e, f, g, h]) =>
    let r : Option Rel := match rel with
      | "eq" => some .eq | "ne" => some .ne | "lt" => some (.cmp .lt) | "le" => some (.cmp .le)
      | "gt" => some (.cmp .gt) | "ge" => some (.cmp .ge) | _ => none
    let q (n d : Sexp) : Option Rat := do
      let n ← n.toInt?
      let d ← d.toNat?
      if d == 0 then none else some (mkRat n d)
    match r, q a b, q c d, q e f, q g h with
    | some r, some lo1, some hi1, some lo2, some hi2 => toString (Sexp.ofBool (intervalAccept r lo1 hi1 lo2 hi2))
    | _, _, _, _, _ => "bad-op"
  | some (.list [.atom which, e, .list rows, .list [pa, pb, pc, pd]]) =>
    if which == "cineq" then
      (let q (n d : Sexp) : Option Rat := do
        let n ← n.toInt?
        let d ← d.toNat?
        if d == 0 then none else some (mkRat n d)
      let row : Sexp → Option (String × Iv × Iv)
        | .list [.atom nm, a, b, c, d, e, f, g, h] => do
          some (nm, ((← q a b), (← q c d)), ((← q e f), (← q g h)))
        | _ => none
      match exprOf e, rows.mapM row, q pa pb, q pc pd with
      | some x, some tbl, some plo, some phi =>
        resTo (fun th => exprTo th.prop) (acceptConstInequality (tablePrims tbl (plo, phi)) x)
      | _, _, _, _ => "bad-op")
    else
    if which != "ivl" && which != "bnd" then "bad-op" else
    let q (n d : Sexp) : Option Rat := do
      let n ← n.toInt?
      let d ← d.toNat?
      if d == 0 then none else some (mkRat n d)
    let row : Sexp → Option (String × Iv × Iv)
      | .list [.atom nm, a, b, c, d, e, f, g, h] => do
        some (nm, ((← q a b), (← q c d)), ((← q e f), (← q g h)))
      | _ => none
    match exprOf e, rows.mapM row, q pa pb, q pc pd with
    | some x, some tbl, some plo, some phi =>
      resTo (fun (i : Iv) => Sexp.list [Sexp.ofInt i.1.num, Sexp.ofNat i.1.den, Sexp.ofInt i.2.num, Sexp.ofNat i.2.den])
        (if which == "ivl" then ivEval (tablePrims tbl (plo, phi)) x else evalBounds (tablePrims tbl (plo, phi)) x)
    | _, _, _, _ => "bad-op"
  | some (.list [.atom "wt", e]) =>
    match exprOf e with
    | some x => toString (Sexp.ofBool (wt x))
    | none => "bad-op"
  | _ => "bad-op"

end Holpy.C05.Driver

def main : IO Unit := Holpy.lineLoop Holpy.C05.Driver.handle
