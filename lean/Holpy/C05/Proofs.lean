import Holpy.C05.Model
/-
C05 — helper lemmas for Props.lean.
-/
namespace Holpy.C05

theorem isBinary_den (ρ : Nat → Val) (a : AExpr) :
    isBinary a = true → wt a = true → typeOf a = .nat → den ρ a = some (.n (destBinary a)) := by
  induction a with
  | zero T => intro _ _ h; simp [typeOf] at h; subst h; simp [den, castNat, destBinary]
  | one T => intro _ _ h; simp [typeOf] at h; subst h; simp [den, castNat, destBinary]
  | bit0 a ih =>
    intro hb hw _
    simp [isBinary] at hb
    simp [wt] at hw
    simp [den, destBinary, ih hb hw.1 hw.2]
  | bit1 a ih =>
    intro hb hw _
    simp [isBinary] at hb
    simp [wt] at hw
    simp [den, destBinary, ih hb hw.1 hw.2]
  | _ => intro hb; simp [isBinary] at hb


instance instDecEqExcept {ε α} [DecidableEq ε] [DecidableEq α] : DecidableEq (Except ε α)
  | .ok a, .ok b => if h : a = b then isTrue (by rw [h]) else isFalse (by intro h'; cases h'; exact h rfl)
  | .error a, .error b => if h : a = b then isTrue (by rw [h]) else isFalse (by intro h'; cases h'; exact h rfl)
  | .ok _, .error _ => isFalse (by intro h; cases h)
  | .error _, .ok _ => isFalse (by intro h; cases h)

/-- bind on `Except`: both steps succeeded. -/
theorem bind_ok {ε α β} {x : Except ε α} {f : α → Except ε β} {v : β} :
    (x >>= f) = .ok v → ∃ a, x = .ok a ∧ f a = .ok v := by
  cases x with
  | error e => intro h; cases h
  | ok a => intro h; exact ⟨a, rfl, h⟩

theorem natEval_sound' (ρ : Nat → Val) (e : AExpr) :
    ∀ v, natEval e = .ok v → typeOf e = .nat → wt e = true → den ρ e = some (.n v) := by
  induction e with
  | zero T => intro v h ht _; simp [typeOf] at ht; subst ht; simp [natEval] at h; subst h; simp [den, castNat]
  | one T => intro v h ht _; simp [typeOf] at ht; subst ht; simp [natEval] at h; subst h; simp [den, castNat]
  | ofNat T a _ =>
    intro v h ht hw
    simp [typeOf, wt] at ht hw; subst ht
    simp only [natEval] at h
    split at h
    · rename_i hb
      cases h
      simp [den, isBinary_den ρ a hb hw.1 hw.2, castNat]
    · cases h
  | suc a ih =>
    intro v h _ hw
    simp [wt] at hw
    simp only [natEval] at h
    obtain ⟨n, hn, h⟩ := bind_ok h
    cases h
    simp [den, ih n hn hw.2 hw.1]
  | plus T a b iha ihb =>
    intro v h ht hw
    simp [typeOf, wt] at ht hw; subst ht
    simp only [natEval] at h
    obtain ⟨m, hm, h⟩ := bind_ok h
    obtain ⟨n, hn, h⟩ := bind_ok h
    cases h
    simp [den, iha m hm hw.1.2 hw.1.1.1, ihb n hn hw.2 hw.1.1.2]
  | minus T a b iha ihb =>
    intro v h ht hw
    simp [typeOf, wt] at ht hw; subst ht
    simp only [natEval] at h
    obtain ⟨m, hm, h⟩ := bind_ok h
    obtain ⟨n, hn, h⟩ := bind_ok h
    cases h
    simp [den, iha m hm hw.1.2 hw.1.1.1, ihb n hn hw.2 hw.1.1.2]
    omega
  | times T a b iha ihb =>
    intro v h ht hw
    simp [typeOf, wt] at ht hw; subst ht
    simp only [natEval] at h
    obtain ⟨m, hm, h⟩ := bind_ok h
    obtain ⟨n, hn, h⟩ := bind_ok h
    cases h
    simp [den, iha m hm hw.1.2 hw.1.1.1, ihb n hn hw.2 hw.1.1.2]
  | _ => intro v h; simp [natEval] at h


/-! ### Python numbers -/

namespace Num

@[simp] theorem toRat_int (k : Int) : (Num.int k).toRat = (k : Rat) := rfl
@[simp] theorem toRat_frac (q : Rat) : (Num.frac q).toRat = q := rfl

theorem toRat_add (x y : Num) : (x.add y).toRat = x.toRat + y.toRat := by
  cases x <;> cases y <;> simp [Num.add, Rat.intCast_add]

theorem toRat_sub (x y : Num) : (x.sub y).toRat = x.toRat - y.toRat := by
  cases x <;> cases y <;> simp [Num.sub, Rat.intCast_sub]

theorem toRat_mul (x y : Num) : (x.mul y).toRat = x.toRat * y.toRat := by
  cases x <;> cases y <;> simp [Num.mul, Rat.intCast_mul]

theorem toRat_neg (x : Num) : x.neg.toRat = -x.toRat := by
  cases x <;> simp [Num.neg, Rat.intCast_neg]

theorem toRat_pow (x : Num) (n : Nat) : (x.pow n).toRat = x.toRat ^ n := by
  cases x <;> simp [Num.pow, Rat.intCast_pow]

theorem rat_of_den_one (q : Rat) (h : q.den = 1) : ((q.num : Int) : Rat) = q := by
  cases q with
  | mk' n d nz c =>
    simp at h
    subst h
    rfl

theorem toRat_norm (x : Num) : x.norm.toRat = x.toRat := by
  cases x with
  | int k => rfl
  | frac q =>
    simp only [Num.norm]
    split
    · rename_i h
      simp at h
      simp [rat_of_den_one q h]
    · rfl

theorem beq_iff (x y : Num) : x.beq y = true ↔ x.toRat = y.toRat := by
  simp [Num.beq]

theorem blt_iff (x y : Num) : x.blt y = true ↔ x.toRat < y.toRat := by
  simp [Num.blt]

theorem ble_iff (x y : Num) : x.ble y = true ↔ x.toRat ≤ y.toRat := by
  simp [Num.ble]

end Num

/-! ### a few facts about `Rat` -/

theorem rat_div_zero (x : Rat) : x / 0 = 0 := by
  simp [Rat.div_def]

theorem rat_div_one (x : Rat) : x / 1 = x := by
  have : (1 : Rat)⁻¹ = 1 := Rat.inv_eq_of_mul_eq_one (by simp)
  simp [Rat.div_def, this]

theorem rat_one_div (x : Rat) : 1 / x = x⁻¹ := by
  simp [Rat.div_def]

theorem rat_zero_pow (n : Nat) (h : n ≠ 0) : (0 : Rat) ^ n = 0 := by
  cases n with
  | zero => exact absurd rfl h
  | succ k => simp [Rat.pow_succ]

theorem rat_one_pow (n : Nat) : (1 : Rat) ^ n = 1 := by
  induction n with
  | zero => simp
  | succ k ih => simp [Rat.pow_succ, ih]

theorem rat_inv_one : (1 : Rat)⁻¹ = 1 := Rat.inv_eq_of_mul_eq_one (by simp)

theorem ratIntPow_zero_exp (x : Rat) : ratIntPow x 0 = 1 := by
  simp [ratIntPow]

theorem ratIntPow_zero_base (p : Int) (h : p ≠ 0) : ratIntPow 0 p = 0 := by
  unfold ratIntPow
  split
  · apply rat_zero_pow; omega
  · rw [rat_zero_pow _ (by omega)]; simp

theorem ratIntPow_one_base (p : Int) : ratIntPow 1 p = 1 := by
  unfold ratIntPow
  split <;> simp [rat_one_pow, rat_inv_one]


/-! ### numerals -/

theorem natNumber_sound (ρ : Nat → Val) (e : AExpr) :
    isNatNumber e = true → wt e = true →
      destNumber e = .ok (.int (natNumberVal e)) ∧ den ρ e = castNat (typeOf e) (natNumberVal e) := by
  cases e with
  | zero T => intro _ _; simp [destNumber, natNumberVal, den, typeOf]
  | one T => intro _ _; simp [destNumber, natNumberVal, den, typeOf]
  | ofNat T a =>
    intro hb hw
    simp [isNatNumber] at hb
    simp [wt] at hw
    simp [destNumber, natNumberVal, den, typeOf, hb, isBinary_den ρ a hb hw.1 hw.2]
  | _ => intro h; simp [isNatNumber] at h

theorem isFracNumber_cases (e : AExpr) (h : isFracNumber e = true) :
    isNatNumber e = true ∨ ∃ a b, e = .divide a b ∧ isNatNumber a = true ∧ isNatNumber b = true := by
  cases e with
  | divide a b =>
    right
    simp [isFracNumber] at h
    exact ⟨a, b, rfl, h.1.1, h.1.2⟩
  | _ => left; simpa only [isFracNumber] using h

theorem isNumber_cases (e : AExpr) (h : isNumber e = true) :
    isFracNumber e = true ∨ ∃ T a, e = .uminus T a ∧ isFracNumber a = true := by
  cases e with
  | uminus T a =>
    right
    simp [isNumber] at h
    exact ⟨T, a, rfl, h.1⟩
  | zero T => left; simp [isFracNumber, isNatNumber]
  | one T => left; simp [isFracNumber, isNatNumber]
  | _ => left; simpa only [isNumber] using h

theorem typeOf_divide_ne_int (a b : AExpr) : typeOf (.divide a b) ≠ .int := by simp [typeOf]

/-- An integer-typed numeral is an `int` with the right value. -/
theorem intNumber_sound (ρ : Nat → Val) (e : AExpr) :
    isNumber e = true → wt e = true → typeOf e = .int →
      ∃ k, destNumber e = .ok (.int k) ∧ den ρ e = some (.i k) := by
  intro hn hw ht
  rcases isNumber_cases e hn with hf | ⟨T, a, rfl, hf⟩
  · rcases isFracNumber_cases e hf with hnat | ⟨a, b, rfl, _, _⟩
    · obtain ⟨h1, h2⟩ := natNumber_sound ρ e hnat hw
      exact ⟨natNumberVal e, h1, by simp [h2, ht, castNat]⟩
    · simp [typeOf] at ht
  · simp [typeOf] at ht; subst ht
    simp [wt] at hw
    rcases isFracNumber_cases a hf with hnat | ⟨a', b', rfl, _, _⟩
    · obtain ⟨h1, h2⟩ := natNumber_sound ρ a hnat hw.1
      refine ⟨-(natNumberVal a : Int), ?_, ?_⟩
      · simp [destNumber, h1, Num.neg, bind, Except.bind]
      · simp [den, h2, hw.2, castNat]
    · simp [typeOf] at hw

/-- A real-typed fraction literal. -/
theorem realFrac_sound (ρ : Nat → Val) (e : AExpr) :
    isFracNumber e = true → wt e = true → typeOf e = .real →
      ∃ v, destNumber e = .ok v ∧ den ρ e = some (.q v.toRat) := by
  intro hf hw ht
  rcases isFracNumber_cases e hf with hnat | ⟨a, b, rfl, ha, hb⟩
  · obtain ⟨h1, h2⟩ := natNumber_sound ρ e hnat hw
    exact ⟨_, h1, by simp [h2, ht, castNat, Rat.intCast_natCast]⟩
  · simp [wt] at hw
    obtain ⟨a1, a2⟩ := natNumber_sound ρ a ha hw.1.1.1
    obtain ⟨b1, b2⟩ := natNumber_sound ρ b hb hw.1.1.2
    rw [hw.1.2] at a2
    rw [hw.2] at b2
    simp only [destNumber, a1, b1, bind, Except.bind]
    simp only [den, a2, b2, castNat]
    have hb' : (Num.int (natNumberVal b : Nat)).toRat = ((natNumberVal b : Nat) : Rat) := by
      simp [Rat.intCast_natCast]
    have ha' : (Num.int (natNumberVal a : Nat)).toRat = ((natNumberVal a : Nat) : Rat) := by
      simp [Rat.intCast_natCast]
    by_cases h0 : (Num.int (natNumberVal b : Nat)).toRat = 0
    · refine ⟨.int 0, ?_, ?_⟩
      · rw [if_pos (beq_iff_eq.mpr h0)]
      · rw [hb'] at h0
        simp [h0, rat_div_zero]
    · by_cases h1 : (Num.int (natNumberVal b : Nat)).toRat = 1
      · refine ⟨.int (natNumberVal a), ?_, ?_⟩
        · rw [if_neg (fun h => h0 (beq_iff_eq.mp h)), if_pos (beq_iff_eq.mpr h1)]
        · rw [hb'] at h1
          rw [h1, rat_div_one, ha']
      · refine ⟨.frac ((natNumberVal a : Nat) / (natNumberVal b : Nat)), ?_, ?_⟩
        · rw [if_neg (fun h => h0 (beq_iff_eq.mp h)), if_neg (fun h => h1 (beq_iff_eq.mp h)), ha', hb']
        · simp

/-- A real-typed numeral. -/
theorem realNumber_sound (ρ : Nat → Val) (e : AExpr) :
    isNumber e = true → wt e = true → typeOf e = .real →
      ∃ v, destNumber e = .ok v ∧ den ρ e = some (.q v.toRat) := by
  intro hn hw ht
  rcases isNumber_cases e hn with hf | ⟨T, a, rfl, hf⟩
  · exact realFrac_sound ρ e hf hw ht
  · simp [typeOf] at ht; subst ht
    simp [wt] at hw
    obtain ⟨v, h1, h2⟩ := realFrac_sound ρ a hf hw.1 hw.2
    refine ⟨v.neg, ?_, ?_⟩
    · simp [destNumber, h1, bind, Except.bind]
    · simp [den, h2, Num.toRat_neg]


/-! ### `int_eval` -/

theorem intEval_number (ρ : Nat → Val) (e : AExpr) (v : Num)
    (h : (if isNumber e = true then destNumber e else .error .conv) = .ok v)
    (ht : typeOf e = .int) (hw : wt e = true) : ∃ k, v = .int k ∧ den ρ e = some (.i k) := by
  split at h
  · rename_i hn
    obtain ⟨k, h1, h2⟩ := intNumber_sound ρ e hn hw ht
    rw [h1] at h
    cases h
    exact ⟨k, rfl, h2⟩
  · cases h

theorem intEval_sound' (ρ : Nat → Val) (e : AExpr) :
    ∀ v, intEval e = .ok v → typeOf e = .int → wt e = true →
      ∃ k, v = .int k ∧ den ρ e = some (.i k) := by
  induction e with
  | plus T a b iha ihb =>
    intro v h ht hw
    simp [typeOf, wt] at ht hw; subst ht
    simp only [intEval] at h
    obtain ⟨m, hm, h⟩ := bind_ok h
    obtain ⟨n, hn, h⟩ := bind_ok h
    cases h
    obtain ⟨x, rfl, hx⟩ := iha m hm hw.1.2 hw.1.1.1
    obtain ⟨y, rfl, hy⟩ := ihb n hn hw.2 hw.1.1.2
    exact ⟨x + y, rfl, by simp [den, hx, hy]⟩
  | minus T a b iha ihb =>
    intro v h ht hw
    simp [typeOf, wt] at ht hw; subst ht
    simp only [intEval] at h
    obtain ⟨m, hm, h⟩ := bind_ok h
    obtain ⟨n, hn, h⟩ := bind_ok h
    cases h
    obtain ⟨x, rfl, hx⟩ := iha m hm hw.1.2 hw.1.1.1
    obtain ⟨y, rfl, hy⟩ := ihb n hn hw.2 hw.1.1.2
    exact ⟨x - y, rfl, by simp [den, hx, hy]⟩
  | times T a b iha ihb =>
    intro v h ht hw
    simp [typeOf, wt] at ht hw; subst ht
    simp only [intEval] at h
    obtain ⟨m, hm, h⟩ := bind_ok h
    obtain ⟨n, hn, h⟩ := bind_ok h
    cases h
    obtain ⟨x, rfl, hx⟩ := iha m hm hw.1.2 hw.1.1.1
    obtain ⟨y, rfl, hy⟩ := ihb n hn hw.2 hw.1.1.2
    exact ⟨x * y, rfl, by simp [den, hx, hy]⟩
  | uminus T a iha =>
    intro v h ht hw
    simp only [intEval] at h
    split at h
    · rename_i hn
      obtain ⟨k, h1, h2⟩ := intNumber_sound ρ _ hn hw ht
      rw [h1] at h
      cases h
      exact ⟨k, rfl, h2⟩
    · simp [typeOf, wt] at ht hw; subst ht
      obtain ⟨m, hm, h⟩ := bind_ok h
      cases h
      obtain ⟨x, rfl, hx⟩ := iha m hm hw.2 hw.1
      exact ⟨-x, rfl, by simp [den, hx]⟩
  | _ =>
    intro v h ht hw
    simp only [intEval] at h
    exact intEval_number ρ _ v h ht hw

end Holpy.C05
