import Holpy.C05.NormModel
import Holpy.C05.ProofsMacro
import Holpy.C10.ProofsPolyEval
import Holpy.C10.ProofsPolySem
import Mathlib.Algebra.Order.Field.Rat
import Mathlib.Algebra.CharZero.Infinite
/-
C05 — helper lemmas for `real_norm`: the translation into the polynomial fragment is value
preserving for every assignment of numbers to terms that respects the arithmetic operators.
-/
namespace Holpy.C05
open Holpy.C10.Poly

/-- An assignment of (real, here rational) numbers to terms that respects the standard meaning of the
numerals and arithmetic operators `convert_to_poly` looks through; on every other term (variables,
`sqrt 2`, `x / y`, `of_nat (n - m)`, …) it is arbitrary. -/
structure Std (σ : AExpr → Rat) : Prop where
  num : ∀ e v, isNumber e = true → destNumber e = .ok v → σ e = v.toRat
  plusR : ∀ a b, σ (.plus .real a b) = σ a + σ b
  plusN : ∀ a b, σ (.plus .nat a b) = σ a + σ b
  timesR : ∀ a b, σ (.times .real a b) = σ a * σ b
  timesN : ∀ a b, σ (.times .nat a b) = σ a * σ b
  minusR : ∀ a b, σ (.minus .real a b) = σ a - σ b
  minusN : ∀ a b, σ (.minus .nat a b) = if σ a ≤ σ b then 0 else σ a - σ b
  uminusR : ∀ a, σ (.uminus .real a) = - σ a
  divide : ∀ a b, σ (.divide a b) = σ a / σ b
  ofNatR : ∀ a, σ (.ofNat .real a) = σ a
  powN : ∀ a b (k : Nat), typeOf b = .nat → σ b = k → σ (.power .real a b) = σ a ^ k
  powR : ∀ a b (p : Int), typeOf b = .real → σ b = p → (σ a ≠ 0 ∨ 0 ≤ p) →
    σ (.power .real a b) = ratIntPow (σ a) p

/-- the valuation of the indeterminates induced by `σ` and the numbering `tbl` -/
def valOf (σ : AExpr → Rat) (tbl : List AExpr) : Nat → Rat := fun i => σ (tbl.getD i .tru)

theorem evalE_indet (σ : AExpr → Rat) (tbl : List AExpr) (t : AExpr) (h : t ∈ tbl) :
    evalE (valOf σ tbl) (indet tbl t) = σ t := by
  simp only [indet, evalE, valOf]
  have hi : tbl.idxOf t < tbl.length := List.idxOf_lt_length_of_mem h
  simp [List.getD_eq_getElem?_getD, List.getElem?_eq_getElem hi]

theorem evalPoly_constOf (ρ : Nat → Rat) (p : PolyL Rat) (c : Rat) (h : constOf p = some c) :
    evalPoly ρ p = c := by
  unfold constOf at h
  split at h
  · cases h; simp [evalPoly, wsum]
  · cases h; simp [evalPoly, wsum, evalMono]
  · cases h

theorem evalE_of_constOf (ρ : Nat → Rat) (e : PExp Rat) (c : Rat) (h : constOf (toPoly e) = some c) :
    evalE ρ e = c := by
  rw [← evalPoly_toPoly, evalPoly_constOf ρ _ c h]

theorem self_mem_subterms (e : AExpr) : e ∈ subterms e := by
  cases e <;> simp [subterms]


theorem isNumber_zero (T : Ty) : isNumber (.zero T) = true := rfl
theorem isNumber_one (T : Ty) : isNumber (.one T) = true := rfl

theorem isNumber_ofNat_bin (T : Ty) (a : AExpr) (h : isBinary a = true) : isNumber (.ofNat T a) = true := by
  simp [isNumber, isFracNumber, isNatNumber, h]

/-- members of the two halves of a binary node -/
theorem sub_left {e a b : AExpr} {tbl : List AExpr} (hs : subterms e = e :: (subterms a ++ subterms b))
    (h : ∀ t ∈ subterms e, t ∈ tbl) : ∀ t ∈ subterms a, t ∈ tbl := by
  intro t ht; apply h; rw [hs]; simp [ht]

theorem sub_right {e a b : AExpr} {tbl : List AExpr} (hs : subterms e = e :: (subterms a ++ subterms b))
    (h : ∀ t ∈ subterms e, t ∈ tbl) : ∀ t ∈ subterms b, t ∈ tbl := by
  intro t ht; apply h; rw [hs]; simp [ht]

theorem sub_un {e a : AExpr} {tbl : List AExpr} (hs : subterms e = e :: subterms a)
    (h : ∀ t ∈ subterms e, t ∈ tbl) : ∀ t ∈ subterms a, t ∈ tbl := by
  intro t ht; apply h; rw [hs]; simp [ht]

/-- `nat.convert_to_poly` is value preserving on well-typed nat terms. -/
theorem natToPE_sound (σ : AExpr → Rat) (hσ : Std σ) (tbl : List AExpr) (e : AExpr) :
    wt e = true → typeOf e = .nat → (∀ t ∈ subterms e, t ∈ tbl) →
      evalE (valOf σ tbl) (natToPE tbl e) = σ e := by
  induction e with
  | zero T =>
    intro _ _ _
    simp only [natToPE, evalE]
    rw [hσ.num _ (.int 0) (isNumber_zero T) rfl]; simp
  | one T =>
    intro _ _ _
    simp only [natToPE, evalE]
    rw [hσ.num _ (.int 1) (isNumber_one T) rfl]; simp
  | ofNat T a _ =>
    intro _ _ hm
    simp only [natToPE]
    split
    · rename_i hb
      simp only [evalE]
      rw [hσ.num _ (.int (destBinary a)) (isNumber_ofNat_bin T a hb) (by simp [destNumber, hb])]
      simp
    · exact evalE_indet σ tbl _ (hm _ (self_mem_subterms _))
  | plus T a b iha ihb =>
    intro hw ht hm
    simp [typeOf, wt] at ht hw; subst ht
    simp only [natToPE, evalE]
    rw [iha hw.1.1.1 hw.1.2 (sub_left rfl hm), ihb hw.1.1.2 hw.2 (sub_right rfl hm), hσ.plusN]
  | times T a b iha ihb =>
    intro hw ht hm
    simp [typeOf, wt] at ht hw; subst ht
    simp only [natToPE, evalE]
    rw [iha hw.1.1.1 hw.1.2 (sub_left rfl hm), ihb hw.1.1.2 hw.2 (sub_right rfl hm), hσ.timesN]
  | minus T a b iha ihb =>
    intro hw ht hm
    simp [typeOf, wt] at ht hw; subst ht
    simp only [natToPE]
    split
    · rename_i n1 n2 h1 h2
      have e1 := evalE_of_constOf (valOf σ tbl) _ _ h1
      have e2 := evalE_of_constOf (valOf σ tbl) _ _ h2
      rw [iha hw.1.1.1 hw.1.2 (sub_left rfl hm)] at e1
      rw [ihb hw.1.1.2 hw.2 (sub_right rfl hm)] at e2
      rw [hσ.minusN, e1, e2]
      split <;> simp [evalE]
    · exact evalE_indet σ tbl _ (hm _ (self_mem_subterms _))
  | _ =>
    intro _ _ hm
    simp only [natToPE]
    exact evalE_indet σ tbl _ (hm _ (self_mem_subterms _))


/-- the `is_number` branch of `convert_to_poly` -/
theorem numBranch_sound (σ : AExpr → Rat) (hσ : Std σ) (tbl : List AExpr) (e : AExpr)
    (hn : isNumber e = true) (hm : e ∈ tbl) :
    evalE (valOf σ tbl) (match destNumber e with | .ok v => PExp.num v.toRat | .error _ => indet tbl e) = σ e := by
  cases hd : destNumber e with
  | ok v => simp only [evalE]; rw [hσ.num e v hn hd]
  | error _ => exact evalE_indet σ tbl e hm

theorem rat_natCast_of (k : Rat) (h1 : k.den = 1) (h2 : 0 ≤ k.num) : ((k.num.toNat : Nat) : Rat) = k := by
  have h := Num.rat_of_den_one k h1
  rw [← h]
  have : ((k.num.toNat : Nat) : Int) = k.num := Int.toNat_of_nonneg h2
  exact_mod_cast congrArg (fun z : Int => (z : Rat)) this

/-- `real.convert_to_poly` is value preserving on well-typed real terms. -/
theorem realToPE_sound (σ : AExpr → Rat) (hσ : Std σ) (tbl : List AExpr) (e : AExpr) :
    wt e = true → typeOf e = .real → (∀ t ∈ subterms e, t ∈ tbl) →
      evalE (valOf σ tbl) (realToPE tbl e) = σ e := by
  induction e with
  | ofNat T a _ =>
    intro hw ht hm
    simp only [realToPE]
    split
    · rename_i hn
      exact numBranch_sound σ hσ tbl _ hn (hm _ (self_mem_subterms _))
    · simp [typeOf, wt] at ht hw; subst ht
      rw [natToPE_sound σ hσ tbl a hw.1 hw.2 (sub_un rfl hm), hσ.ofNatR]
  | plus T a b iha ihb =>
    intro hw ht hm
    simp [typeOf, wt] at ht hw; subst ht
    simp only [realToPE, evalE]
    rw [iha hw.1.1.1 hw.1.2 (sub_left rfl hm), ihb hw.1.1.2 hw.2 (sub_right rfl hm), hσ.plusR]
  | minus T a b iha ihb =>
    intro hw ht hm
    simp [typeOf, wt] at ht hw; subst ht
    simp only [realToPE, evalE]
    rw [iha hw.1.1.1 hw.1.2 (sub_left rfl hm), ihb hw.1.1.2 hw.2 (sub_right rfl hm), hσ.minusR]
  | times T a b iha ihb =>
    intro hw ht hm
    simp [typeOf, wt] at ht hw; subst ht
    simp only [realToPE, evalE]
    rw [iha hw.1.1.1 hw.1.2 (sub_left rfl hm), ihb hw.1.1.2 hw.2 (sub_right rfl hm), hσ.timesR]
  | uminus T a iha =>
    intro hw ht hm
    simp only [realToPE]
    split
    · rename_i hn
      exact numBranch_sound σ hσ tbl _ hn (hm _ (self_mem_subterms _))
    · simp [typeOf, wt] at ht hw; subst ht
      simp only [evalE]
      rw [iha hw.1 hw.2 (sub_un rfl hm), hσ.uminusR]
  | divide a b iha ihb =>
    intro hw _ hm
    simp only [realToPE]
    split
    · rename_i hn
      exact numBranch_sound σ hσ tbl _ hn (hm _ (self_mem_subterms _))
    · simp [wt] at hw
      split
      · rename_i c hc
        have eb := evalE_of_constOf (valOf σ tbl) (realToPE tbl b) c (by rw [hc]; rfl)
        rw [ihb hw.1.1.2 hw.2 (sub_right rfl hm)] at eb
        simp only [evalE]
        rw [iha hw.1.1.1 hw.1.2 (sub_left rfl hm), hσ.divide, eb]
        rw [div_eq_mul_inv, div_eq_mul_inv, one_mul, mul_comm]
      · exact evalE_indet σ tbl _ (hm _ (self_mem_subterms _))
  | power T a b iha ihb =>
    intro hw ht hm
    simp [typeOf, wt] at ht hw; subst ht
    have hself := hm _ (self_mem_subterms (.power .real a b))
    simp only [realToPE]
    split
    · rename_i hnat
      have hnat' : typeOf b = .nat := by simpa using hnat
      split
      · rename_i k hk
        split
        · rename_i hc
          have eb := evalE_of_constOf (valOf σ tbl) (natToPE tbl b) k hk
          rw [natToPE_sound σ hσ tbl b hw.1.2 hnat' (sub_right rfl hm)] at eb
          have hden : k.den = 1 := by simpa using hc.1
          simp only [evalE]
          rw [iha hw.1.1 hw.2 (sub_left rfl hm)]
          rw [hσ.powN a b k.num.toNat hnat' (by rw [eb, rat_natCast_of k hden hc.2])]
        · exact evalE_indet σ tbl _ hself
      · exact evalE_indet σ tbl _ hself
    · split
      · rename_i hreal
        have hreal' : typeOf b = .real := by simpa using hreal
        split
        · rename_i x p hx hp
          split
          · rename_i hc
            have ea := evalE_of_constOf (valOf σ tbl) (realToPE tbl a) x hx
            have eb := evalE_of_constOf (valOf σ tbl) (realToPE tbl b) p hp
            rw [iha hw.1.1 hw.2 (sub_left rfl hm)] at ea
            rw [ihb hw.1.2 hreal' (sub_right rfl hm)] at eb
            have hden : p.den = 1 := by simpa using hc.1
            have hp' : ((p.num : Int) : Rat) = p := Num.rat_of_den_one p hden
            simp only [evalE]
            rw [hσ.powR a b p.num hreal' (by rw [eb, hp']) ?_, ea]
            rw [ea]
            rcases hc.2 with h | h
            · exact Or.inl h
            · exact Or.inr (Rat.num_nonneg.mpr h)
          · exact evalE_indet σ tbl _ hself
        · exact evalE_indet σ tbl _ hself
      · exact evalE_indet σ tbl _ hself
  | _ =>
    intro _ _ hm
    simp only [realToPE]
    split
    · rename_i hn
      exact numBranch_sound σ hσ tbl _ hn (hm _ (self_mem_subterms _))
    · exact evalE_indet σ tbl _ (hm _ (self_mem_subterms _))

end Holpy.C05
