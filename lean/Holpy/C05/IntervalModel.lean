import Holpy.C05.NormModel
/-
C05 — executable model of the COMBINATION logic of `real_interval_eval` (`data/real.py`,
fixes/C05-2) and of the bounds-based decision of `const_inequality`
(`integral/inequality.py`: `eval_bounds`, `eval_inequality_expr`).  Import-free.

`real_interval_eval` walks the term and combines intervals with what mpmath's `iv` context
provides: conversion of a rational, `+ - * / ** abs` on intervals, `exp log sqrt sin cos`, `pi`.
Those are the *primitives* (`Prims`): the model takes them as a parameter — their enclosure property
is mpmath's, it is trusted — and mirrors everything the holpy code does around them: which primitive
is applied to which sub-interval, the order of the case analysis (an application of a function that
is not in the tuple of supported functions is refused), and the guards (`nonzero`, positive base of a
real power, non-negative argument of `sqrt`, positive argument of `log`).
-/
namespace Holpy.C05

/-- an interval `(lo, hi)` with rational endpoints -/
abbrev Iv := Rat × Rat

/-- what the `iv` context of mpmath provides -/
structure Prims where
  exact : Rat → Iv                 -- `iv.mpf(num) / iv.mpf(den)`
  add : Iv → Iv → Iv
  sub : Iv → Iv → Iv
  mul : Iv → Iv → Iv
  div : Iv → Iv → Iv
  neg : Iv → Iv
  powNat : Iv → Nat → Iv
  abs : Iv → Iv
  exp : Iv → Iv
  log : Iv → Iv
  sqrt : Iv → Iv
  sin : Iv → Iv
  cos : Iv → Iv
  pi : Iv

/-- `x.a <= 0 and x.b >= 0` -/
def mayBeZero (x : Iv) : Bool := decide (x.1 ≤ 0) && decide (0 ≤ x.2)

/-- `nonzero(x)` -/
def nonzeroIv (x : Iv) : Except Err Iv := if mayBeZero x then .error .conv else .ok x

/-- The inner `rec` of `real_interval_eval`. -/
def ivEval (P : Prims) : AExpr → Except Err Iv
  | .ofNat T a =>
    if isNumber (.ofNat T a) then (do let v ← destNumber (.ofNat T a); .ok (P.exact v.toRat))
    else do
      let n ← natEval a
      .ok (P.exact (n : Nat))
  | .ofInt a => do
    let v ← intEval a
    .ok (P.exact v.toRat)
  | .plus _ a b => do
    let x ← ivEval P a
    let y ← ivEval P b
    .ok (P.add x y)
  | .minus _ a b => do
    let x ← ivEval P a
    let y ← ivEval P b
    .ok (P.sub x y)
  | .uminus T a =>
    if isNumber (.uminus T a) then (do let v ← destNumber (.uminus T a); .ok (P.exact v.toRat))
    else do
      let x ← ivEval P a
      .ok (P.neg x)
  | .times _ a b => do
    let x ← ivEval P a
    let y ← ivEval P b
    .ok (P.mul x y)
  | .divide a b =>
    if isNumber (.divide a b) then (do let v ← destNumber (.divide a b); .ok (P.exact v.toRat))
    else do
      let x ← ivEval P a
      let y ← ivEval P b
      let y ← nonzeroIv y
      .ok (P.div x y)
  | .inverse a =>
    if typeOf a == .real then do
      let y ← ivEval P a
      let y ← nonzeroIv y
      .ok (P.div (P.exact 1) y)
    else .error .conv
  | .power _ a b =>
    if typeOf b == .nat then do
      let x ← ivEval P a
      let n ← natEval b
      .ok (P.powNat x n)
    else if typeOf b == .real then do
      let x ← ivEval P a
      let p ← ivEval P b
      if decide (0 < x.1) then .ok (P.exp (P.mul p (P.log x))) else .error .conv
    else .error .conv
  | .pi => .ok P.pi
  | .fn f a =>
    match f with
    | .atn => .error .conv                 -- not in the tuple of supported functions
    | .sqrt => do
      let x ← ivEval P a
      if decide (0 ≤ x.1) then .ok (P.sqrt x) else .error .conv
    | .log => do
      let x ← ivEval P a
      if decide (0 < x.1) then .ok (P.log x) else .error .conv
    | .exp => do
      let x ← ivEval P a
      .ok (P.exp x)
    | .sin => do
      let x ← ivEval P a
      .ok (P.sin x)
    | .cos => do
      let x ← ivEval P a
      .ok (P.cos x)
    | .tan => do
      let x ← ivEval P a
      let c ← nonzeroIv (P.cos x)
      .ok (P.div (P.sin x) c)
    | .cot => do
      let x ← ivEval P a
      let s ← nonzeroIv (P.sin x)
      .ok (P.div (P.cos x) s)
    | .sec => do
      let x ← ivEval P a
      let c ← nonzeroIv (P.cos x)
      .ok (P.div (P.exact 1) c)
    | .csc => do
      let x ← ivEval P a
      let s ← nonzeroIv (P.sin x)
      .ok (P.div (P.exact 1) s)
    | .abs => do
      let x ← ivEval P a
      .ok (P.abs x)
  | e => if isNumber e then (do let v ← destNumber e; .ok (P.exact v.toRat)) else .error .conv

/-- `eval_bounds`: equal bounds from `real_eval` when it succeeds, the interval otherwise. -/
def evalBounds (P : Prims) (e : AExpr) : Except Err Iv :=
  match realEval e with
  | .ok v => .ok (v.toRat, v.toRat)
  | .error _ => ivEval P e

/-- the relation `eval_inequality_expr` is asked about and its two sides -/
def relOf : AExpr → Option (Rel × AExpr × AExpr)
  | .eq _ a b => some (.eq, a, b)
  | .neg (.eq _ a b) => some (.ne, a, b)
  | .cmp op _ a b => some (.cmp op, a, b)
  | _ => none

/-- `eval_inequality_expr` on real sides: bounds of both sides (`eval_bounds`); when a side is not
computed exactly and the two sides are equal as polynomials in their opaque subterms, all four bounds
are replaced by 0; then the accept condition of the relation. -/
def ineqRealDecision (P : Prims) (goal : AExpr) (r : Rel) (a b : AExpr) : Except Err Bool := do
  let i1 ← evalBounds P a
  let i2 ← evalBounds P b
  let tbl := subterms goal
  if (i1.1 != i1.2 || i2.1 != i2.2) &&
      (Holpy.C10.Poly.toPoly (realToPE tbl a) == Holpy.C10.Poly.toPoly (realToPE tbl b)) then
    .ok (intervalAccept r 0 0 0 0)
  else .ok (intervalAccept r i1.1 i1.2 i2.1 i2.2)

/-- `ConstInequalityMacro.eval` in full, given the primitives of the interval context. -/
def constInequalityFull (P : Prims) (goal : AExpr) : Except Err Thm :=
  match relOf goal with
  | none => .error .notImpl
  | some (r, a, b) =>
    if typeOf a == .nat then do
      let m ← natEval a
      let n ← natEval b
      if intervalAccept r m m n n then .ok ⟨goal⟩ else .error .assertion
    else if typeOf a == .real then do
      let ok ← ineqRealDecision P goal r a b
      if ok then .ok ⟨goal⟩ else .error .assertion
    else .error .notImpl

/-- `check_proof` on the one-step proof `0: const_inequality goal`. -/
def acceptConstInequality (P : Prims) (goal : AExpr) : Except Err Thm := checked (constInequalityFull P) goal

/-! ### exact rational interval arithmetic (used by the driver in place of mpmath's; the harness
injects the same arithmetic into the Python, so that both sides compute identical endpoints) -/

def ivMin4 (a b c d : Rat) : Rat := min (min a b) (min c d)
def ivMax4 (a b c d : Rat) : Rat := max (max a b) (max c d)

def ivMul (x y : Iv) : Iv :=
  (ivMin4 (x.1 * y.1) (x.1 * y.2) (x.2 * y.1) (x.2 * y.2), ivMax4 (x.1 * y.1) (x.1 * y.2) (x.2 * y.1) (x.2 * y.2))

/-- `x / y` for `y` not containing 0 -/
def ivDiv (x y : Iv) : Iv := ivMul x (1 / y.2, 1 / y.1)

def ivAbs (x : Iv) : Iv :=
  if 0 ≤ x.1 then x else if x.2 ≤ 0 then (-x.2, -x.1) else (0, max (-x.1) x.2)

def ivPow (x : Iv) (n : Nat) : Iv :=
  if n = 0 then (1, 1)
  else if n % 2 = 1 then (x.1 ^ n, x.2 ^ n)
  else let y := ivAbs x; (y.1 ^ n, y.2 ^ n)

/-- a recorded call of a transcendental primitive: name, argument, result -/
abbrev PrimTable := List (String × Iv × Iv)

def lookupPrim (tbl : PrimTable) (name : String) (x : Iv) : Iv :=
  match tbl.find? (fun r => r.1 == name && r.2.1 == x) with
  | some r => r.2.2
  | none => (1, 0)            -- not recorded: an empty interval, the comparison with the Python fails

/-- exact arithmetic + recorded transcendental enclosures -/
def tablePrims (tbl : PrimTable) (piIv : Iv) : Prims where
  exact q := (q, q)
  add x y := (x.1 + y.1, x.2 + y.2)
  sub x y := (x.1 - y.2, x.2 - y.1)
  mul := ivMul
  div := ivDiv
  neg x := (-x.2, -x.1)
  powNat := ivPow
  abs := ivAbs
  exp := lookupPrim tbl "exp"
  log := lookupPrim tbl "log"
  sqrt := lookupPrim tbl "sqrt"
  sin := lookupPrim tbl "sin"
  cos := lookupPrim tbl "cos"
  pi := piIv

end Holpy.C05
