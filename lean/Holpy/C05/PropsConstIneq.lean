import Holpy.C05.IntervalModel
import Holpy.C05.Props
import Holpy.C05.ProofsTval
import Holpy.C05.PropsInterval
import Holpy.C05.ProofsSigma
import Holpy.C05.ProofsConstIneq
import Mathlib.Data.Rat.Cast.Order
/-
C05 — `const_inequality` end to end: exact-vs-interval branch selection (`eval_bounds`), the
polynomial-equality shortcut and the accept conditions, for goals with irrational constants.
-/
set_option linter.unusedSectionVars false
namespace Holpy.C05
open Holpy.C10.Poly

variable {K : Type} [Field K] [LinearOrder K] [IsStrictOrderedRing K]

/-- `const_inequality` on real sides, end to end: if the primitives of the interval context return
enclosures (`PrimsOK`, mpmath's property) and the abstract real functions satisfy `FnsSpec`
(`exp 0 = 1`, `log 1 = 0`, `exp (p * log x) = x ^ p` for `0 < x` and integer `p`), then whenever the
model of the macro accepts `a REL b` — exact or interval branch of `eval_bounds` on either side, the
polynomial-equality shortcut, any of the six relations — `tval a REL tval b` holds in the ordered
field. -/
theorem const_inequality_sound (P : Prims) (F : RealFns K) (hP : PrimsOK P F) (hF : FnsSpec F)
    (goal : AExpr) (th : Thm) (r : Rel) (a b : AExpr) (hrel : relOf goal = some (r, a, b))
    (hta : typeOf a = .real) :
    acceptConstInequality P goal = .ok th → th.prop = goal ∧ r.holdsK (tval F a) (tval F b) := by
  intro h
  obtain ⟨hm, hw, _⟩ := checked_ok h
  simp only [constInequalityFull, hrel] at hm
  have hnat : (typeOf a == Ty.nat) = false := by simp [hta]
  have hreal : (typeOf a == Ty.real) = true := by simp [hta]
  simp only [hnat, hreal, if_true, Bool.false_eq_true, if_false] at hm
  obtain ⟨ok, hdec, hm⟩ := bind_ok hm
  split at hm
  · rename_i hok
    cases hm
    -- well-typedness of the two sides
    have hsides : wt a = true ∧ wt b = true ∧ typeOf b = .real := by
      cases goal with
      | eq T x y =>
        simp [relOf] at hrel
        obtain ⟨_, rfl, rfl⟩ := hrel
        obtain ⟨_, h1, h2, h3⟩ := wt_eq_sides hw hta
        exact ⟨h1, h2, h3⟩
      | cmp op T x y =>
        simp [relOf] at hrel
        obtain ⟨_, rfl, rfl⟩ := hrel
        obtain ⟨_, h1, h2, h3⟩ := wt_cmp_sides hw hta
        exact ⟨h1, h2, h3⟩
      | neg g =>
        cases g with
        | eq T x y =>
          simp [relOf] at hrel
          obtain ⟨_, rfl, rfl⟩ := hrel
          obtain ⟨_, h1, h2, h3⟩ := wt_eq_sides (wt_neg hw) hta
          exact ⟨h1, h2, h3⟩
        | _ => simp [relOf] at hrel
      | _ => simp [relOf] at hrel
    obtain ⟨hwa, hwb, htb⟩ := hsides
    refine ⟨rfl, ?_⟩
    simp only [ineqRealDecision] at hdec
    obtain ⟨i1, h1, hdec⟩ := bind_ok hdec
    obtain ⟨i2, h2, hdec⟩ := bind_ok hdec
    have e1 := evalBounds_encl P F hP hF a i1 h1 hwa hta
    have e2 := evalBounds_encl P F hP hF b i2 h2 hwb htb
    split at hdec
    · rename_i hshort
      cases hdec
      simp only [Bool.and_eq_true, beq_iff_eq] at hshort
      obtain ⟨hma, hmb⟩ := relOf_sides_mem hrel
      rw [poly_eq_tval F hF _ a b hshort.2 hwa hwb hta htb hma hmb]
      exact accept_zero_refl r _ hok
    · cases hdec
      exact interval_accept_soundK r _ _ i1 i2 e1 e2 hok
  · cases hm

/-- `const_inequality` on nat sides (full model): both sides are evaluated by `nat_eval`, and the
accepted relation holds between their typed denotations (truncated subtraction). -/
theorem const_inequality_nat_sound (P : Prims) (ρ : Nat → Val) (goal : AExpr) (th : Thm) (r : Rel) (a b : AExpr)
    (hrel : relOf goal = some (r, a, b)) (hta : typeOf a = .nat) :
    acceptConstInequality P goal = .ok th →
      th.prop = goal ∧ ∃ m n : Nat, den ρ a = some (.n m) ∧ den ρ b = some (.n n) ∧ r.holds (m : Rat) (n : Rat) := by
  intro h
  obtain ⟨hm, hw, _⟩ := checked_ok h
  simp only [constInequalityFull, hrel] at hm
  have hnat : (typeOf a == Ty.nat) = true := by simp [hta]
  simp only [hnat, if_true] at hm
  obtain ⟨m, hma, hm⟩ := bind_ok hm
  obtain ⟨n, hnb, hm⟩ := bind_ok hm
  split at hm
  · rename_i hok
    cases hm
    have hsides : wt a = true ∧ wt b = true ∧ typeOf b = .nat := by
      cases goal with
      | eq T x y =>
        simp [relOf] at hrel
        obtain ⟨_, rfl, rfl⟩ := hrel
        obtain ⟨_, h1, h2, h3⟩ := wt_eq_sides hw hta
        exact ⟨h1, h2, h3⟩
      | cmp op T x y =>
        simp [relOf] at hrel
        obtain ⟨_, rfl, rfl⟩ := hrel
        obtain ⟨_, h1, h2, h3⟩ := wt_cmp_sides hw hta
        exact ⟨h1, h2, h3⟩
      | neg g =>
        cases g with
        | eq T x y =>
          simp [relOf] at hrel
          obtain ⟨_, rfl, rfl⟩ := hrel
          obtain ⟨_, h1, h2, h3⟩ := wt_eq_sides (wt_neg hw) hta
          exact ⟨h1, h2, h3⟩
        | _ => simp [relOf] at hrel
      | _ => simp [relOf] at hrel
    obtain ⟨hwa, hwb, htb⟩ := hsides
    refine ⟨rfl, m, n, natEval_sound' ρ a m hma hta hwa, natEval_sound' ρ b n hnb htb hwb, ?_⟩
    exact interval_accept_sound r (m : Rat) (n : Rat) m m n n ⟨le_refl _, le_refl _⟩ ⟨le_refl _, le_refl _⟩ hok
  · cases hm

/- (4::nat) - 5 ≤ 0 is accepted (truncated subtraction), (4::nat) - 5 < 0 is not -/
example :
    let P := tablePrims [] (3, 4)
    (acceptConstInequality P (.cmp .le .nat (.minus .nat (.ofNat .nat (.bit0 (.bit0 (.one .nat)))) (.ofNat .nat (.bit1 (.bit0 (.one .nat))))) (.zero .nat))).isOk = true ∧
    (acceptConstInequality P (.cmp .lt .nat (.minus .nat (.ofNat .nat (.bit0 (.bit0 (.one .nat)))) (.ofNat .nat (.bit1 (.bit0 (.one .nat))))) (.zero .nat))).isOk = false := by
  constructor <;> decide +kernel

/- `sqrt 2 + 1 > 2` is not decided by `real_eval`; with primitives that enclose, acceptance gives the
inequality between the values (for any field, primitives and functions meeting the hypotheses; over ℚ
no `exp`/`log` satisfies `FnsSpec`, an instance needs the real numbers) -/
example (P : Prims) (F : RealFns K) (hP : PrimsOK P F) (hF : FnsSpec F) (th : Thm)
    (h : acceptConstInequality P (.cmp .gt .real (.plus .real (.fn .sqrt (.ofNat .real (.bit0 (.one .nat)))) (.one .real))
      (.ofNat .real (.bit0 (.one .nat)))) = .ok th) :
    tval F (.ofNat .real (.bit0 (.one .nat))) <
      tval F (.plus .real (.fn .sqrt (.ofNat .real (.bit0 (.one .nat)))) (.one .real)) :=
  (const_inequality_sound P F hP hF _ th (.cmp .gt) _ _ rfl rfl h).2

/- and the model does accept it with the exact-arithmetic context when `sqrt` is enclosed by [7/5, 3/2] -/
example : (acceptConstInequality (tablePrims [("sqrt", ((2 : Rat), (2 : Rat)), ((7 / 5 : Rat), (3 / 2 : Rat)))] (3, 4))
    (.cmp .gt .real (.plus .real (.fn .sqrt (.ofNat .real (.bit0 (.one .nat)))) (.one .real))
      (.ofNat .real (.bit0 (.one .nat))))).isOk = true := by decide +kernel

end Holpy.C05
