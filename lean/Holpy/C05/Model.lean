/-
C05 — executable model of the arithmetic evaluators and of the `eval` methods of the trusted
(level 0) arithmetic macros of holpy, after the `fix:` commits in fixes/C05-*.patch.

Python sources mirrored here (statement by statement, including what looks accidental):
* `kernel/term.py`  : `is_binary`, `dest_binary`, `is_nat_number`, `is_frac_number`, `is_number`,
                      `is_constant`, `dest_number`; the predicates `is_plus`, `is_minus`, … look at
                      the NAME of the head constant only, never at its type.
* `data/nat.py`     : `nat_eval`, `nat_eval_macro.eval`
* `data/integer.py` : `int_eval`, `int_eval_macro.eval`, `int_const_ineq_macro.eval`
* `data/real.py`    : `real_eval` (inner `rec` + final normalisation), `real_eval_macro.eval`,
                      `RealEqMacro.eval`, `RealCompareMacro.eval`, `real_const_ineq_macro.eval`
* `integral/inequality.py` : `eval_inequality_expr` / `ConstInequalityMacro.eval` — only the
                      branch where `real_eval` succeeds on both sides (exact); when it raises the
                      Python falls back to interval/float evaluation, which the model reports as
                      `Err.approx` (not modelled).
* `kernel/theory.py`: `_check_proof_item` for a macro with `level <= check_level`:
                      `res_th = macro.eval(args, [])`, then `seq.th.check_thm_type()`.

Every node of `AExpr` carries the HOL type at which its (polymorphic) head constant is used, so
that a real-typed `minus` can be handed to `natEval` exactly as in Python.  Constants whose type
is fixed by the theory (`Suc`, `bit0`, `bit1`, `real_divide`, `real_inverse`, `of_int`) carry none.
Python numbers are `Num`: an `int` or a (normalised) `Fraction`; `isinstance(p, int)` is
observable in `real_eval`, so the distinction is kept.  `Rat` is core Lean's normalised pair
(`num : Int`, `den : Nat`, coprime) — no imports.
-/
namespace Holpy.C05

inductive Ty where
  | nat | int | real | bool | other
  deriving DecidableEq, Repr, Inhabited

inductive Cmp where
  | lt | le | gt | ge
  deriving DecidableEq, Repr, Inhabited

/-- The unary real functions `real_interval_eval` / `real_approx_eval` know by name (constants of type
real ⇒ real); the exact evaluators treat an application of one of them like any other unknown term. -/
inductive Fn where
  | sqrt | sin | cos | tan | cot | sec | csc | log | exp | abs | atn
  deriving DecidableEq, Repr, Inhabited

/-- Arithmetic goal terms: exactly the shapes the evaluators dispatch on; everything else is an
`atom` (with its type and whether it contains a free variable). -/
inductive AExpr where
  | zero (T : Ty)
  | one (T : Ty)
  | bit0 (a : AExpr)
  | bit1 (a : AExpr)
  | suc (a : AExpr)
  | ofNat (T : Ty) (a : AExpr)
  | ofInt (a : AExpr)
  | plus (T : Ty) (a b : AExpr)
  | minus (T : Ty) (a b : AExpr)
  | times (T : Ty) (a b : AExpr)
  | uminus (T : Ty) (a : AExpr)
  | divide (a b : AExpr)
  | inverse (a : AExpr)
  | power (T : Ty) (a b : AExpr)
  | eq (T : Ty) (a b : AExpr)
  | cmp (op : Cmp) (T : Ty) (a b : AExpr)
  | neg (a : AExpr)
  | tru
  | fls
  | atom (T : Ty) (id : Nat) (hasVar : Bool)
  | fn (f : Fn) (a : AExpr)          -- `f a` with `f :: real ⇒ real` one of the named functions
  | pi                               -- the constant `pi :: real`
  deriving DecidableEq, Repr, Inhabited

inductive Err where
  | conv        -- ConvException
  | assertion   -- AssertionError
  | term        -- TermException
  | notImpl     -- NotImplementedError
  | typing      -- CheckProofException("typing error")
  | approx      -- the Python leaves exact arithmetic here (not modelled)
  deriving DecidableEq, Repr, Inhabited

/-- A Python number: `int` or `fractions.Fraction` (always normalised). -/
inductive Num where
  | int (k : Int)
  | frac (q : Rat)
  deriving DecidableEq, Repr, Inhabited

namespace Num

def toRat : Num → Rat
  | int k => (k : Rat)
  | frac q => q

/-- `x + y`: `int` only when both are `int`. -/
def add : Num → Num → Num
  | int a, int b => int (a + b)
  | x, y => frac (x.toRat + y.toRat)

def sub : Num → Num → Num
  | int a, int b => int (a - b)
  | x, y => frac (x.toRat - y.toRat)

def mul : Num → Num → Num
  | int a, int b => int (a * b)
  | x, y => frac (x.toRat * y.toRat)

def neg : Num → Num
  | int a => int (-a)
  | frac q => frac (-q)

/-- `x ** n` for a Python int `n >= 0`. -/
def pow : Num → Nat → Num
  | int a, n => int (a ^ n)
  | frac q, n => frac (q ^ n)

/-- Python `==` between numbers compares values. -/
def beq (x y : Num) : Bool := x.toRat == y.toRat
def blt (x y : Num) : Bool := decide (x.toRat < y.toRat)
def ble (x y : Num) : Bool := decide (x.toRat ≤ y.toRat)

/-- Last step of `real_eval`: a `Fraction` with denominator 1 becomes an `int`. -/
def norm : Num → Num
  | int k => int k
  | frac q => if q.den == 1 then int q.num else frac q

end Num

/-! ### `kernel/term.py` -/

/-- `Term.get_type()` (the lax one: the range of the head constant's type). -/
def typeOf : AExpr → Ty
  | .zero T | .one T => T
  | .bit0 _ | .bit1 _ | .suc _ => .nat
  | .ofNat T _ => T
  | .ofInt _ => .real
  | .plus T _ _ | .minus T _ _ | .times T _ _ | .uminus T _ | .power T _ _ => T
  | .divide _ _ | .inverse _ => .real
  | .eq _ _ _ | .cmp _ _ _ _ | .neg _ | .tru | .fls => .bool
  | .atom T _ _ => T
  | .fn _ _ | .pi => .real

/-- `checked_get_type` succeeds (every constant is used at an instance of its declared type and
every application is type-correct). -/
def wt : AExpr → Bool
  | .zero _ | .one _ | .tru | .fls | .atom _ _ _ | .pi => true
  | .fn _ a => wt a && typeOf a == .real
  | .bit0 a | .bit1 a | .suc a => wt a && typeOf a == .nat
  | .ofNat _ a => wt a && typeOf a == .nat
  | .ofInt a => wt a && typeOf a == .int
  | .plus T a b | .minus T a b | .times T a b => wt a && wt b && typeOf a == T && typeOf b == T
  | .uminus T a => wt a && typeOf a == T
  | .divide a b => wt a && wt b && typeOf a == .real && typeOf b == .real
  | .inverse a => wt a && typeOf a == .real
  | .power T a b => wt a && wt b && typeOf a == T
  | .eq T a b | .cmp _ T a b => wt a && wt b && typeOf a == T && typeOf b == T
  | .neg a => wt a && typeOf a == .bool

def hasVars : AExpr → Bool
  | .zero _ | .one _ | .tru | .fls | .pi => false
  | .atom _ _ v => v
  | .bit0 a | .bit1 a | .suc a | .ofNat _ a | .ofInt a | .uminus _ a | .inverse a | .neg a | .fn _ a => hasVars a
  | .plus _ a b | .minus _ a b | .times _ a b | .divide a b | .power _ a b | .eq _ a b
  | .cmp _ _ a b => hasVars a || hasVars b

/-- `is_binary`: looks at names only (`zero`/`one` of any type). -/
def isBinary : AExpr → Bool
  | .zero _ | .one _ => true
  | .bit0 a | .bit1 a => isBinary a
  | _ => false

/-- `dest_binary` (only ever called under `is_binary`). -/
def destBinary : AExpr → Nat
  | .zero _ => 0
  | .one _ => 1
  | .bit0 a => 2 * destBinary a
  | .bit1 a => 2 * destBinary a + 1
  | _ => 0

def isZeroC : AExpr → Bool
  | .zero _ => true
  | _ => false

/-- `is_nat_number`. -/
def isNatNumber : AExpr → Bool
  | .zero _ | .one _ => true
  | .ofNat _ a => isBinary a
  | _ => false

/-- `dest_number` on a term satisfying `is_nat_number`. -/
def natNumberVal : AExpr → Nat
  | .zero _ => 0
  | .one _ => 1
  | .ofNat _ a => destBinary a
  | _ => 0

/-- `is_frac_number`. -/
def isFracNumber : AExpr → Bool
  | .divide a b =>
    isNatNumber a && isNatNumber b &&
      (natNumberVal b != 1 && Nat.gcd (natNumberVal a) (natNumberVal b) == 1)
  | e => isNatNumber e

/-- `is_number`. -/
def isNumber : AExpr → Bool
  | .zero _ | .one _ => true
  | .uminus _ a => isFracNumber a && !isZeroC a
  | e => isFracNumber e

/-- `dest_number`. -/
def destNumber : AExpr → Except Err Num
  | .zero _ => .ok (.int 0)
  | .one _ => .ok (.int 1)
  | .uminus _ a => do
    let v ← destNumber a
    .ok v.neg
  | .divide a b => do
    let n ← destNumber a
    let d ← destNumber b
    if d.toRat == 0 then .ok (.int 0)          -- n / 0 = 0 in the HOL library
    else if d.toRat == 1 then .ok n
    else .ok (.frac (n.toRat / d.toRat))
  | .ofNat _ a => if isBinary a then .ok (.int (destBinary a)) else .error .term
  | _ => .error .term

/-- `is_constant`. -/
def isConstant : AExpr → Bool
  | .uminus T a => isNumber (.uminus T a) || isConstant a
  | .plus _ a b | .minus _ a b | .times _ a b | .power _ a b => isConstant a && isConstant b
  | .divide a b => isNumber (.divide a b) || (isConstant a && isConstant b)
  | e => isNumber e

/-! ### `data/nat.py` -/

/-- `nat_eval` (after fixes/C05-1: only natural-number literals are numbers here). -/
def natEval : AExpr → Except Err Nat
  | .zero _ => .ok 0
  | .one _ => .ok 1
  | .ofNat _ a => if isBinary a then .ok (destBinary a) else .error .conv
  | .suc a => do
    let n ← natEval a
    .ok (n + 1)
  | .plus _ a b => do
    let m ← natEval a
    let n ← natEval b
    .ok (m + n)
  | .minus _ a b => do
    let m ← natEval a
    let n ← natEval b
    .ok (if m ≤ n then 0 else m - n)
  | .times _ a b => do
    let m ← natEval a
    let n ← natEval b
    .ok (m * n)
  | _ => .error .conv

/-! ### `data/integer.py` -/

/-- `int_eval`. -/
def intEval : AExpr → Except Err Num
  | .plus _ a b => do
    let m ← intEval a
    let n ← intEval b
    .ok (m.add n)
  | .minus _ a b => do
    let m ← intEval a
    let n ← intEval b
    .ok (m.sub n)
  | .uminus T a =>
    if isNumber (.uminus T a) then destNumber (.uminus T a)
    else do
      let m ← intEval a
      .ok m.neg
  | .times _ a b => do
    let m ← intEval a
    let n ← intEval b
    .ok (m.mul n)
  | e => if isNumber e then destNumber e else .error .conv

/-! ### `data/real.py` -/

/-- The inner `rec` of `real_eval`. -/
def realRec : AExpr → Except Err Num
  | .ofNat T a =>
    if isNumber (.ofNat T a) then destNumber (.ofNat T a)
    else do
      let n ← natEval a
      .ok (.int n)
  | .ofInt a => intEval a
  | .plus _ a b => do
    let x ← realRec a
    let y ← realRec b
    .ok (x.add y)
  | .minus _ a b => do
    let x ← realRec a
    let y ← realRec b
    .ok (x.sub y)
  | .uminus T a =>
    if isNumber (.uminus T a) then destNumber (.uminus T a)
    else do
      let x ← realRec a
      .ok x.neg
  | .times _ a b => do
    let x ← realRec a
    let y ← realRec b
    .ok (x.mul y)
  | .divide a b =>
    if isNumber (.divide a b) then destNumber (.divide a b)
    else do
      let d ← realRec b
      if d.toRat == 0 then .error .conv
      else if d.toRat == 1 then realRec a
      else do
        let n ← realRec a
        .ok (.frac (n.toRat / d.toRat))
  | .inverse a =>
    if typeOf a == .real then do
      let d ← realRec a
      if d.toRat == 0 then .error .conv
      else .ok (.frac (1 / d.toRat))
    else .error .conv
  | .power _ a b =>
    if typeOf b == .nat then do
      let x ← realRec a
      let n ← natEval b
      .ok (x.pow n)
    else if typeOf b == .real then do
      let x ← realRec a
      let p ← realRec b
      if p.toRat == 0 then .ok (.int 1)
      else if x.toRat == 0 then .ok (.int 0)
      else if x.toRat == 1 then .ok (.int 1)
      else match p with
        | .int k =>
          if k ≥ 0 then .ok (x.pow k.toNat)
          else .ok (.frac (1 / (x.pow (-k).toNat).toRat))
        | .frac _ => .error .conv
    else .error .conv
  | e => if isNumber e then destNumber e else .error .conv

/-- `real_eval`. -/
def realEval (e : AExpr) : Except Err Num := do
  let r ← realRec e
  .ok r.norm

/-! ### macros -/

structure Thm where
  prop : AExpr
  deriving DecidableEq, Repr, Inhabited

/-- How Python decides `lhs OP rhs` on numbers. -/
def cmpHolds (op : Cmp) (l r : Num) : Bool :=
  match op with
  | .lt => l.blt r
  | .le => l.ble r
  | .gt => r.blt l
  | .ge => r.ble l

/-- `nat_eval_macro.eval(goal, [])`. -/
def natEvalMacro (goal : AExpr) : Except Err Thm :=
  match goal with
  | .eq _ a b =>
    if typeOf a == .nat then do
      let x ← natEval a
      let y ← natEval b
      if x == y then .ok ⟨goal⟩ else .error .assertion
    else .error .assertion
  | _ => .error .assertion

/-- `int_eval_macro.eval(goal, [])`. -/
def intEvalMacro (goal : AExpr) : Except Err Thm :=
  match goal with
  | .eq _ a b =>
    if typeOf a == .int then do
      let x ← intEval a
      let y ← intEval b
      if x.beq y then .ok ⟨goal⟩ else .error .assertion
    else .error .assertion
  | _ => .error .assertion

/-- `real_eval_macro.eval(goal, [])`. -/
def realEvalMacro (goal : AExpr) : Except Err Thm :=
  match goal with
  | .eq _ a b =>
    if typeOf a == .real then do
      let x ← realEval a
      let y ← realEval b
      if x.beq y then .ok ⟨goal⟩ else .error .assertion
    else .error .assertion
  | _ => .error .assertion

/-- `if goal.is_not(): goal = goal.arg` -/
def stripNeg : AExpr → AExpr
  | .neg a => a
  | g => g

/-- Common body of `int_const_ineq_macro.eval` and `real_const_ineq_macro.eval`. -/
def constIneqWith (T : Ty) (ev : AExpr → Except Err Num) (goal : AExpr) : Except Err Thm :=
  let g := stripNeg goal
  match g with
  | .eq _ a b =>
    if isConstant a && isConstant b && typeOf a == T then do
      let l ← ev a
      let r ← ev b
      if l.beq r then .ok ⟨g⟩ else .ok ⟨.neg g⟩
    else .error .assertion
  | .cmp op _ a b =>
    if isConstant a && isConstant b && typeOf a == T then do
      let l ← ev a
      let r ← ev b
      if cmpHolds op l r then .ok ⟨g⟩ else .ok ⟨.neg g⟩
    else .error .assertion
  | _ => .error .assertion

def intConstIneqMacro : AExpr → Except Err Thm := constIneqWith .int intEval
def realConstIneqMacro : AExpr → Except Err Thm := constIneqWith .real realEval

/-- `RealEqMacro.eval` (`real_const_eq`): returns `goal ⟷ true` or `goal ⟷ false`; every
exception inside is turned into `ConvException`. -/
def realConstEqMacro (goal : AExpr) : Except Err Thm :=
  if hasVars goal then .error .conv
  else match goal with
    | .eq _ a b =>
      if typeOf a == .real then
        match realEval a, realEval b with
        | .ok l, .ok r => .ok ⟨.eq .bool goal (if l.beq r then .tru else .fls)⟩
        | _, _ => .error .conv
      else .error .conv
    | .cmp op _ a b =>
      if typeOf a == .real then
        match realEval a, realEval b with
        | .ok l, .ok r => .ok ⟨.eq .bool goal (if cmpHolds op l r then .tru else .fls)⟩
        | _, _ => .error .conv
      else .error .conv
    | _ => .error .conv

/-- `RealCompareMacro.eval` (`real_compare`). -/
def realCompareMacro (goal : AExpr) : Except Err Thm :=
  match goal with
  | .cmp op _ a b =>
    if typeOf a == .real then do
      let l ← realEval a
      let r ← realEval b
      if cmpHolds op l r then .ok ⟨goal⟩ else .error .assertion
    else .error .assertion
  | _ => .error .assertion

/-- `eval_hol_expr`: exact when `real_eval` succeeds; otherwise Python switches to approximate
evaluation, which is outside the model. -/
def evalHol (e : AExpr) : Except Err Num :=
  match realEval e with
  | .ok v => .ok v
  | .error _ => .error .approx

/-- `nat_eval` as a Python number. -/
def natEvalNum (e : AExpr) : Except Err Num := do
  let n ← natEval e
  .ok (.int n)

/-- The evaluator `eval_inequality_expr` picks from the type of the compared terms
(`NotImplementedError` for any type other than nat and real). -/
def ineqEvaluator : Ty → Option (AExpr → Except Err Num)
  | .nat => some natEvalNum
  | .real => some evalHol
  | _ => none

/-- `ConstInequalityMacro.eval` (`const_inequality`, after fixes/C05-1): the two sides are
evaluated at their own type — `nat_eval` for naturals, `eval_hol_expr` for reals (exact branch). -/
def constInequalityMacro (goal : AExpr) : Except Err Thm :=
  match goal with
  | .eq _ a b =>
    match ineqEvaluator (typeOf a) with
    | none => .error .notImpl
    | some ev => do
      let l ← ev a
      let r ← ev b
      if l.beq r then .ok ⟨goal⟩ else .error .assertion
  | .neg (.eq _ a b) =>
    match ineqEvaluator (typeOf a) with
    | none => .error .notImpl
    | some ev => do
      let l ← ev a
      let r ← ev b
      if !(l.beq r) then .ok ⟨goal⟩ else .error .assertion
  | .cmp op _ a b =>
    match ineqEvaluator (typeOf a) with
    | none => .error .notImpl
    | some ev => do
      let l ← ev a
      let r ← ev b
      if cmpHolds op l r then .ok ⟨goal⟩ else .error .assertion
  | _ => .error .notImpl

/-! ### the decision of `eval_inequality_expr` from bounds (fixes/C05-2)

When a side is not evaluated exactly the Python has only an enclosure `lo ≤ value ≤ hi` of each
side (`eval_bounds`: equal bounds from `real_eval`, otherwise outward-rounded interval arithmetic).
The final `if` chain of `eval_inequality_expr` is mirrored here over rational bounds; the interval
evaluator itself is not modelled. -/

/-- the six statements `eval_inequality_expr` dispatches on -/
inductive Rel where
  | eq | ne | cmp (op : Cmp)
  deriving DecidableEq, Repr, Inhabited

/-- `eval_inequality_expr`, last `if` chain: accept `side1 REL side2` from the bounds. -/
def intervalAccept : Rel → Rat → Rat → Rat → Rat → Bool
  | .eq, lo1, hi1, lo2, hi2 => lo1 == hi1 && lo2 == hi2 && lo1 == lo2
  | .ne, lo1, hi1, lo2, hi2 => decide (hi1 < lo2) || decide (hi2 < lo1)
  | .cmp .ge, lo1, _, _, hi2 => decide (hi2 ≤ lo1)
  | .cmp .gt, lo1, _, _, hi2 => decide (hi2 < lo1)
  | .cmp .le, _, hi1, lo2, _ => decide (hi1 ≤ lo2)
  | .cmp .lt, _, hi1, lo2, _ => decide (hi1 < lo2)

/-- The checker's treatment of a trusted macro step: evaluate, then `check_thm_type`. -/
def checked (m : AExpr → Except Err Thm) (goal : AExpr) : Except Err Thm := do
  let th ← m goal
  if wt th.prop && typeOf th.prop == .bool then .ok th else .error .typing

inductive Macro where
  | natEval | intEval | intConstIneq | realEval | realConstEq | realCompare | realConstIneq
  | constInequality
  deriving DecidableEq, Repr, Inhabited

def Macro.name : Macro → String
  | .natEval => "nat_eval"
  | .intEval => "int_eval"
  | .intConstIneq => "int_const_ineq"
  | .realEval => "real_eval"
  | .realConstEq => "real_const_eq"
  | .realCompare => "real_compare"
  | .realConstIneq => "real_const_ineq"
  | .constInequality => "const_inequality"

def Macro.all : List Macro :=
  [.natEval, .intEval, .intConstIneq, .realEval, .realConstEq, .realCompare, .realConstIneq,
   .constInequality]

def Macro.eval : Macro → AExpr → Except Err Thm
  | .natEval => natEvalMacro
  | .intEval => intEvalMacro
  | .intConstIneq => intConstIneqMacro
  | .realEval => realEvalMacro
  | .realConstEq => realConstEqMacro
  | .realCompare => realCompareMacro
  | .realConstIneq => realConstIneqMacro
  | .constInequality => constInequalityMacro

/-- `check_proof` on the one-step proof `0: macro goal` at the default check level. -/
def accept (m : Macro) (goal : AExpr) : Except Err Thm := checked m.eval goal

/-! ### the standard meaning -/

inductive Val where
  | n (k : Nat)
  | i (k : Int)
  | q (r : Rat)
  | b (v : Bool)
  deriving DecidableEq, Repr, Inhabited

def Val.ty : Val → Ty
  | .n _ => .nat
  | .i _ => .int
  | .q _ => .real
  | .b _ => .bool

def castNat (T : Ty) (k : Nat) : Option Val :=
  match T with
  | .nat => some (.n k)
  | .int => some (.i k)
  | .real => some (.q k)
  | _ => none

/-- `x ^ p` for an integer `p` over the rationals, `0 ^ p = 0` for `p ≠ 0` (agrees with the HOL
definition of real power at integer exponents). -/
def ratIntPow (x : Rat) (p : Int) : Rat :=
  if p ≥ 0 then x ^ p.toNat else (x ^ (-p).toNat)⁻¹

def cmpVal {α} [LT α] [LE α] [DecidableLT α] [DecidableLE α] (op : Cmp) (x y : α) : Bool :=
  match op with
  | .lt => decide (x < y)
  | .le => decide (x ≤ y)
  | .gt => decide (y < x)
  | .ge => decide (y ≤ x)

/-- Typed denotation under a valuation of the atoms.  Naturals: truncated subtraction; reals are
interpreted in ℚ with `x / 0 = 0`, `x ^ n`, and real power only at integer-valued exponents (and at
bases 0 and 1, where the value is rational for every exponent).
An expression whose operators are used at a type other than the one of its operands, or at a
non-numeric type, has no denotation. -/
def den (ρ : Nat → Val) : AExpr → Option Val
  | .zero T => castNat T 0
  | .one T => castNat T 1
  | .bit0 a => match den ρ a with
    | some (.n k) => some (.n (2 * k))
    | _ => none
  | .bit1 a => match den ρ a with
    | some (.n k) => some (.n (2 * k + 1))
    | _ => none
  | .suc a => match den ρ a with
    | some (.n k) => some (.n (k + 1))
    | _ => none
  | .ofNat T a => match den ρ a with
    | some (.n k) => castNat T k
    | _ => none
  | .ofInt a => match den ρ a with
    | some (.i k) => some (.q k)
    | _ => none
  | .plus T a b => match T, den ρ a, den ρ b with
    | .nat, some (.n x), some (.n y) => some (.n (x + y))
    | .int, some (.i x), some (.i y) => some (.i (x + y))
    | .real, some (.q x), some (.q y) => some (.q (x + y))
    | _, _, _ => none
  | .minus T a b => match T, den ρ a, den ρ b with
    | .nat, some (.n x), some (.n y) => some (.n (x - y))
    | .int, some (.i x), some (.i y) => some (.i (x - y))
    | .real, some (.q x), some (.q y) => some (.q (x - y))
    | _, _, _ => none
  | .times T a b => match T, den ρ a, den ρ b with
    | .nat, some (.n x), some (.n y) => some (.n (x * y))
    | .int, some (.i x), some (.i y) => some (.i (x * y))
    | .real, some (.q x), some (.q y) => some (.q (x * y))
    | _, _, _ => none
  | .uminus T a => match T, den ρ a with
    | .int, some (.i x) => some (.i (-x))
    | .real, some (.q x) => some (.q (-x))
    | _, _ => none
  | .divide a b => match den ρ a, den ρ b with
    | some (.q x), some (.q y) => some (.q (x / y))
    | _, _ => none
  | .inverse a => match den ρ a with
    | some (.q x) => some (.q x⁻¹)
    | _ => none
  | .power T a b => match T, den ρ a, den ρ b with
    | .nat, some (.n x), some (.n k) => some (.n (x ^ k))
    | .int, some (.i x), some (.n k) => some (.i (x ^ k))
    | .real, some (.q x), some (.n k) => some (.q (x ^ k))
    | .real, some (.q x), some (.q p) =>
      if p.den = 1 then some (.q (ratIntPow x p.num))
      else if x = 0 then some (.q 0)          -- 0 ^ y = 0 for y ≠ 0
      else if x = 1 then some (.q 1)          -- 1 ^ y = 1
      else none
    | _, _, _ => none
  | .eq T a b => match T, den ρ a, den ρ b with
    | .nat, some (.n x), some (.n y) => some (.b (decide (x = y)))
    | .int, some (.i x), some (.i y) => some (.b (decide (x = y)))
    | .real, some (.q x), some (.q y) => some (.b (decide (x = y)))
    | .bool, some (.b x), some (.b y) => some (.b (decide (x = y)))
    | _, _, _ => none
  | .cmp op T a b => match T, den ρ a, den ρ b with
    | .nat, some (.n x), some (.n y) => some (.b (cmpVal op x y))
    | .int, some (.i x), some (.i y) => some (.b (cmpVal op x y))
    | .real, some (.q x), some (.q y) => some (.b (cmpVal op x y))
    | _, _, _ => none
  | .neg a => match den ρ a with
    | some (.b v) => some (.b (!v))
    | _ => none
  | .tru => some (.b true)
  | .fls => some (.b false)
  | .atom T i _ => if (ρ i).ty = T then some (ρ i) else none
  | .fn _ _ | .pi => none              -- no value in the ℚ model

end Holpy.C05
