import Holpy.C05.ProofsInterval
import Holpy.C05.ProofsReal
import Mathlib.Data.Rat.Cast.CharZero
import Mathlib.Data.Rat.Cast.Lemmas
import Mathlib.Algebra.Order.Ring.Cast
/-
C05 — the value `tval` of a term agrees with what `real_eval` computes (cast into the field).
-/
set_option linter.unusedSectionVars false
namespace Holpy.C05

variable {K : Type} [Field K] [LinearOrder K] [IsStrictOrderedRing K]

theorem numVal_of_destNumber (e : AExpr) (v : Num) (h : destNumber e = .ok v) : numVal e = v.toRat := by
  simp [numVal, h]

theorem zpowK_cast (x : Rat) (p : Int) : zpowK ((x : Rat) : K) p = ((ratIntPow x p : Rat) : K) := by
  unfold zpowK ratIntPow
  split <;> simp [Rat.cast_pow, Rat.cast_inv]

theorem intExp_int (b : AExpr) (k : Int) (h : realRec b = .ok (.int k)) : intExp b = some k := by
  simp [intExp, h]

/-- `real_eval`'s inner recursion computes the value of the term. -/
theorem tval_of_realRec (F : RealFns K) (hF : FnsSpec F) (e : AExpr) :
    ∀ v, realRec e = .ok v → wt e = true → typeOf e = .real → tval F e = ((v.toRat : Rat) : K) := by
  induction e with
  | ofNat T a _ =>
    intro v h hw ht
    simp only [realRec] at h
    simp only [tval]
    split at h
    · rename_i hn
      rw [if_pos hn, numVal_of_destNumber _ v h]
    · rename_i hn
      rw [if_neg hn]
      simp [typeOf, wt] at ht hw; subst ht
      obtain ⟨n, hn', h⟩ := bind_ok h
      cases h
      rw [natVal_of_natEval a n hn' hw.1 hw.2]
      simp [Rat.intCast_natCast]
  | ofInt a _ =>
    intro v h hw _
    simp only [realRec] at h
    simp [wt] at hw
    simp only [tval]
    rw [intVal_of_intEval a v h hw.1 hw.2]
  | plus T a b iha ihb =>
    intro v h hw ht
    simp [typeOf, wt] at ht hw; subst ht
    simp only [realRec] at h
    obtain ⟨x, hx, h⟩ := bind_ok h
    obtain ⟨y, hy, h⟩ := bind_ok h
    cases h
    simp only [tval]
    rw [iha x hx hw.1.1.1 hw.1.2, ihb y hy hw.1.1.2 hw.2, Num.toRat_add, Rat.cast_add]
  | minus T a b iha ihb =>
    intro v h hw ht
    simp [typeOf, wt] at ht hw; subst ht
    simp only [realRec] at h
    obtain ⟨x, hx, h⟩ := bind_ok h
    obtain ⟨y, hy, h⟩ := bind_ok h
    cases h
    simp only [tval]
    rw [iha x hx hw.1.1.1 hw.1.2, ihb y hy hw.1.1.2 hw.2, Num.toRat_sub, Rat.cast_sub]
  | times T a b iha ihb =>
    intro v h hw ht
    simp [typeOf, wt] at ht hw; subst ht
    simp only [realRec] at h
    obtain ⟨x, hx, h⟩ := bind_ok h
    obtain ⟨y, hy, h⟩ := bind_ok h
    cases h
    simp only [tval]
    rw [iha x hx hw.1.1.1 hw.1.2, ihb y hy hw.1.1.2 hw.2, Num.toRat_mul, Rat.cast_mul]
  | uminus T a iha =>
    intro v h hw ht
    simp only [realRec] at h
    simp only [tval]
    split at h
    · rename_i hn
      rw [if_pos hn, numVal_of_destNumber _ v h]
    · rename_i hn
      rw [if_neg hn]
      simp [typeOf, wt] at ht hw; subst ht
      obtain ⟨x, hx, h⟩ := bind_ok h
      cases h
      rw [iha x hx hw.1 hw.2, Num.toRat_neg, Rat.cast_neg]
  | divide a b iha ihb =>
    intro v h hw _
    simp only [realRec] at h
    simp only [tval]
    split at h
    · rename_i hn
      rw [if_pos hn, numVal_of_destNumber _ v h]
    · rename_i hn
      rw [if_neg hn]
      simp [wt] at hw
      obtain ⟨d, hd, h⟩ := bind_ok h
      have hb := ihb d hd hw.1.1.2 hw.2
      split at h
      · cases h
      · split at h
        · rename_i _ h1
          have h1' : d.toRat = 1 := by simpa using h1
          rw [iha v h hw.1.1.1 hw.1.2, hb, h1']
          simp
        · obtain ⟨n, hn', h⟩ := bind_ok h
          cases h
          rw [iha n hn' hw.1.1.1 hw.1.2, hb]
          simp [Rat.cast_div]
  | inverse a iha =>
    intro v h hw _
    simp only [realRec] at h
    simp [wt] at hw
    simp only [tval]
    split at h
    · obtain ⟨d, hd, h⟩ := bind_ok h
      split at h
      · cases h
      · cases h
        rw [iha d hd hw.1 hw.2]
        simp [Rat.cast_div]
    · cases h
  | power T a b iha ihb =>
    intro v h hw ht
    simp [typeOf, wt] at ht hw; subst ht
    simp only [realRec] at h
    simp only [tval]
    split at h
    · rename_i hnat
      rw [if_pos hnat]
      have hnat' : typeOf b = .nat := by simpa using hnat
      obtain ⟨x, hx, h⟩ := bind_ok h
      obtain ⟨n, hn, h⟩ := bind_ok h
      cases h
      rw [natVal_of_natEval b n hn hw.1.2 hnat', iha x hx hw.1.1 hw.2, Num.toRat_pow, Rat.cast_pow]
    · rename_i hnat
      rw [if_neg hnat]
      split at h
      · rename_i hreal
        have hreal' : typeOf b = .real := by simpa using hreal
        obtain ⟨x, hx, h⟩ := bind_ok h
        obtain ⟨p, hp, h⟩ := bind_ok h
        have ha := iha x hx hw.1.1 hw.2
        have hb := ihb p hp hw.1.2 hreal'
        by_cases hpos : 0 < tval F a
        · rw [if_pos hpos]
          split at h
          · rename_i hp0
            have hp0' : p.toRat = 0 := by simpa using hp0
            cases h
            rw [hb, hp0']; simp [hF.exp_zero]
          · split at h
            · rename_i hx0
              have hx0' : x.toRat = 0 := by simpa using hx0
              rw [ha, hx0'] at hpos
              simp at hpos
            · split at h
              · rename_i hx1
                have hx1' : x.toRat = 1 := by simpa using hx1
                cases h
                rw [ha, hx1']; simp [hF.log_one, hF.exp_zero]
              · cases p with
                | int k =>
                  simp only at h
                  have hbk : tval F b = (k : K) := by rw [hb]; simp
                  rw [hbk, hF.rpow_int _ k hpos, ha]
                  split at h
                  · rename_i hk
                    cases h
                    simp [hk, Num.toRat_pow, Rat.cast_pow]
                  · rename_i hk
                    cases h
                    simp [hk, Num.toRat_pow, Rat.cast_pow, Rat.cast_inv]
                | frac q => simp at h
        · rw [if_neg hpos]
          split at h
          · rename_i hp0
            have hp0' : p.toRat = 0 := by simpa using hp0
            cases h
            rw [if_pos (by rw [hb, hp0']; simp)]
            simp
          · rename_i hp0
            have hp0' : ¬ p.toRat = 0 := by simpa using hp0
            have hy : ¬ tval F b = 0 := by rw [hb]; simpa using hp0'
            rw [if_neg hy]
            split at h
            · rename_i hx0
              have hx0' : x.toRat = 0 := by simpa using hx0
              cases h
              rw [if_pos (by rw [ha, hx0']; simp)]
              simp
            · rename_i hx0
              have hx0' : ¬ x.toRat = 0 := by simpa using hx0
              have hxa : ¬ tval F a = 0 := by rw [ha]; simpa using hx0'
              rw [if_neg hxa]
              split at h
              · rename_i hx1
                have hx1' : x.toRat = 1 := by simpa using hx1
                rw [ha, hx1'] at hpos
                simp at hpos
              · cases p with
                | int k =>
                  simp only at h
                  have hbk : tval F b = (k : K) := by rw [hb]; simp
                  have hex : ∃ p : Int, tval F b = (p : K) := ⟨k, hbk⟩
                  rw [dif_pos hex]
                  have hch : Classical.choose hex = k := by
                    have hs := Classical.choose_spec hex
                    exact (Int.cast_injective (hs.symm.trans hbk))
                  rw [hch, ha]
                  split at h
                  · rename_i hk
                    cases h
                    simp [zpowK, hk, Num.toRat_pow, Rat.cast_pow]
                  · rename_i hk
                    cases h
                    simp [zpowK, hk, Num.toRat_pow, Rat.cast_pow, Rat.cast_inv]
                | frac q => simp at h
      · cases h
  | fn f a _ =>
    intro v h _ _
    simp [realRec, isNumber, isFracNumber, isNatNumber] at h
  | pi =>
    intro v h _ _
    simp [realRec, isNumber, isFracNumber, isNatNumber] at h
  | _ =>
    intro v h _ _
    simp only [realRec] at h
    simp only [tval]
    split at h
    · rename_i hn
      rw [if_pos hn, numVal_of_destNumber _ v h]
    · cases h

/-- `real_eval` (with its final normalisation). -/
theorem tval_of_realEval (F : RealFns K) (hF : FnsSpec F) (e : AExpr) (v : Num)
    (h : realEval e = .ok v) (hw : wt e = true) (ht : typeOf e = .real) :
    tval F e = ((v.toRat : Rat) : K) := by
  simp only [realEval] at h
  obtain ⟨r, hr, h⟩ := bind_ok h
  cases h
  rw [Num.toRat_norm]
  exact tval_of_realRec F hF e r hr hw ht

end Holpy.C05
