import Holpy.C05.ProofsNorm
import Holpy.C05.ProofsTval
import Holpy.C10.ProofsPolySem
import Mathlib.Data.Rat.Cast.Order
/-
C05 — the polynomial translation is value preserving in any ordered field `K` (coefficients are
rationals, values are in `K`): bridge through `MvPolynomial ℕ ℚ`.
-/
set_option linter.unusedSectionVars false
namespace Holpy.C05
open Holpy.C10 Holpy.C10.Poly

variable {K : Type} [Field K] [LinearOrder K] [IsStrictOrderedRing K]

/-- the multivariate polynomial over ℚ an expression denotes -/
noncomputable def mvOf : PExp Rat → MvPolynomial ℕ ℚ
  | .atom i => MvPolynomial.X i
  | .num c => MvPolynomial.C c
  | .add a b => mvOf a + mvOf b
  | .mul a b => mvOf a * mvOf b
  | .neg a => - mvOf a
  | .sub a b => mvOf a - mvOf b
  | .pow a k => mvOf a ^ k
  | .scale c a => MvPolynomial.C c * mvOf a

/-- value of an expression with rational coefficients under a `K`-valued valuation -/
def evalEK (ρ : ℕ → K) : PExp Rat → K
  | .atom i => ρ i
  | .num c => ((c : Rat) : K)
  | .add a b => evalEK ρ a + evalEK ρ b
  | .mul a b => evalEK ρ a * evalEK ρ b
  | .neg a => - evalEK ρ a
  | .sub a b => evalEK ρ a - evalEK ρ b
  | .pow a k => evalEK ρ a ^ k
  | .scale c a => ((c : Rat) : K) * evalEK ρ a

theorem eval_mvOf (ρ : ℕ → ℚ) (e : PExp Rat) : MvPolynomial.eval ρ (mvOf e) = evalE ρ e := by
  induction e <;> simp [mvOf, evalE, *]

theorem mvOf_eq_toMv (e : PExp Rat) : mvOf e = toMv (toPoly e) := by
  apply MvPolynomial.funext
  intro ρ
  rw [eval_mvOf, eval_toMv, evalPoly_toPoly]

theorem hom_mvOf (ρ : ℕ → K) (e : PExp Rat) :
    MvPolynomial.eval₂ (Rat.castHom K) ρ (mvOf e) = evalEK ρ e := by
  induction e <;> simp [mvOf, evalEK, *]

theorem evalEK_congr (ρ : ℕ → K) {a b : PExp Rat} (h : toPoly a = toPoly b) : evalEK ρ a = evalEK ρ b := by
  rw [← hom_mvOf, ← hom_mvOf, mvOf_eq_toMv, mvOf_eq_toMv, h]

theorem evalEK_const (ρ : ℕ → K) (e : PExp Rat) (c : Rat) (h : constOf (toPoly e) = some c) :
    evalEK ρ e = ((c : Rat) : K) := by
  rw [← hom_mvOf, mvOf_eq_toMv]
  unfold constOf at h
  split at h
  · rename_i hp
    cases h
    rw [hp]; simp [toMv]
  · rename_i c' hp
    cases h
    rw [hp]; simp [toMv, fs]
  · cases h


/-- An assignment of values in `K` to terms that respects numerals and arithmetic operators on
WELL-TYPED terms (each equation is required only for a well-typed compound term). -/
structure StdK (σ : AExpr → K) : Prop where
  numR : ∀ e v, isNumber e = true → destNumber e = .ok v → typeOf e = .real → σ e = ((v.toRat : Rat) : K)
  zeroN : σ (.zero .nat) = 0
  oneN : σ (.one .nat) = 1
  litN : ∀ a, isBinary a = true → σ (.ofNat .nat a) = ((destBinary a : Nat) : K)
  plusR : ∀ a b, wt (.plus .real a b) = true → σ (.plus .real a b) = σ a + σ b
  plusN : ∀ a b, wt (.plus .nat a b) = true → σ (.plus .nat a b) = σ a + σ b
  timesR : ∀ a b, wt (.times .real a b) = true → σ (.times .real a b) = σ a * σ b
  timesN : ∀ a b, wt (.times .nat a b) = true → σ (.times .nat a b) = σ a * σ b
  minusR : ∀ a b, wt (.minus .real a b) = true → σ (.minus .real a b) = σ a - σ b
  minusN : ∀ a b, wt (.minus .nat a b) = true → σ (.minus .nat a b) = if σ a ≤ σ b then 0 else σ a - σ b
  uminusR : ∀ a, wt (.uminus .real a) = true → isNumber (.uminus .real a) = false → σ (.uminus .real a) = - σ a
  divide : ∀ a b, wt (.divide a b) = true → isNumber (.divide a b) = false → σ (.divide a b) = σ a / σ b
  ofNatR : ∀ a, wt (.ofNat .real a) = true → isNumber (.ofNat .real a) = false → σ (.ofNat .real a) = σ a
  powN : ∀ a b (k : Nat), wt (.power .real a b) = true → typeOf b = .nat → σ b = (k : K) →
    σ (.power .real a b) = σ a ^ k
  powR : ∀ a b (p : Int), wt (.power .real a b) = true → typeOf b = .real → σ b = (p : K) →
    (σ a ≠ 0 ∨ 0 ≤ p) → σ (.power .real a b) = zpowK (σ a) p

def valOfK (σ : AExpr → K) (tbl : List AExpr) : Nat → K := fun i => σ (tbl.getD i .tru)

theorem evalEK_indet (σ : AExpr → K) (tbl : List AExpr) (t : AExpr) (h : t ∈ tbl) :
    evalEK (valOfK σ tbl) (indet tbl t) = σ t := by
  simp only [indet, evalEK, valOfK]
  have hi : tbl.idxOf t < tbl.length := List.idxOf_lt_length_of_mem h
  simp [List.getD_eq_getElem?_getD, List.getElem?_eq_getElem hi]

theorem natToPE_soundK (σ : AExpr → K) (hσ : StdK σ) (tbl : List AExpr) (e : AExpr) :
    wt e = true → typeOf e = .nat → (∀ t ∈ subterms e, t ∈ tbl) →
      evalEK (valOfK σ tbl) (natToPE tbl e) = σ e := by
  induction e with
  | zero T =>
    intro _ ht _
    simp [typeOf] at ht; subst ht
    simp [natToPE, evalEK, hσ.zeroN]
  | one T =>
    intro _ ht _
    simp [typeOf] at ht; subst ht
    simp [natToPE, evalEK, hσ.oneN]
  | ofNat T a _ =>
    intro _ ht hm
    simp [typeOf] at ht; subst ht
    simp only [natToPE]
    split
    · rename_i hb
      simp [evalEK, hσ.litN a hb]
    · exact evalEK_indet σ tbl _ (hm _ (self_mem_subterms _))
  | plus T a b iha ihb =>
    intro hw ht hm
    have hw0 := hw
    simp [typeOf, wt] at ht hw; subst ht
    simp only [natToPE, evalEK]
    rw [iha hw.1.1.1 hw.1.2 (sub_left rfl hm), ihb hw.1.1.2 hw.2 (sub_right rfl hm), hσ.plusN _ _ hw0]
  | times T a b iha ihb =>
    intro hw ht hm
    have hw0 := hw
    simp [typeOf, wt] at ht hw; subst ht
    simp only [natToPE, evalEK]
    rw [iha hw.1.1.1 hw.1.2 (sub_left rfl hm), ihb hw.1.1.2 hw.2 (sub_right rfl hm), hσ.timesN _ _ hw0]
  | minus T a b iha ihb =>
    intro hw ht hm
    have hw0 := hw
    simp [typeOf, wt] at ht hw; subst ht
    simp only [natToPE]
    split
    · rename_i n1 n2 h1 h2
      have e1 := evalEK_const (valOfK σ tbl) _ _ h1
      have e2 := evalEK_const (valOfK σ tbl) _ _ h2
      rw [iha hw.1.1.1 hw.1.2 (sub_left rfl hm)] at e1
      rw [ihb hw.1.1.2 hw.2 (sub_right rfl hm)] at e2
      rw [hσ.minusN _ _ hw0, e1, e2]
      by_cases hle : n1 ≤ n2
      · have : ((n1 : Rat) : K) ≤ ((n2 : Rat) : K) := by exact_mod_cast hle
        simp [hle, this, evalEK]
      · have : ¬ ((n1 : Rat) : K) ≤ ((n2 : Rat) : K) := by
          intro h; exact hle (by exact_mod_cast h)
        simp [hle, this, evalEK]
    · exact evalEK_indet σ tbl _ (hm _ (self_mem_subterms _))
  | _ =>
    intro _ _ hm
    simp only [natToPE]
    exact evalEK_indet σ tbl _ (hm _ (self_mem_subterms _))

theorem numBranch_soundK (σ : AExpr → K) (hσ : StdK σ) (tbl : List AExpr) (e : AExpr)
    (hn : isNumber e = true) (ht : typeOf e = .real) (hm : e ∈ tbl) :
    evalEK (valOfK σ tbl) (match destNumber e with | .ok v => PExp.num v.toRat | .error _ => indet tbl e) = σ e := by
  cases hd : destNumber e with
  | ok v => simp only [evalEK]; rw [hσ.numR e v hn hd ht]
  | error _ => exact evalEK_indet σ tbl e hm

theorem realToPE_soundK (σ : AExpr → K) (hσ : StdK σ) (tbl : List AExpr) (e : AExpr) :
    wt e = true → typeOf e = .real → (∀ t ∈ subterms e, t ∈ tbl) →
      evalEK (valOfK σ tbl) (realToPE tbl e) = σ e := by
  induction e with
  | ofNat T a _ =>
    intro hw ht hm
    simp only [realToPE]
    split
    · rename_i hn
      exact numBranch_soundK σ hσ tbl _ hn ht (hm _ (self_mem_subterms _))
    · rename_i hn
      have hw0 := hw
      simp [typeOf, wt] at ht hw; subst ht
      rw [natToPE_soundK σ hσ tbl a hw.1 hw.2 (sub_un rfl hm), hσ.ofNatR _ hw0 (by simpa using hn)]
  | plus T a b iha ihb =>
    intro hw ht hm
    have hw0 := hw
    simp [typeOf, wt] at ht hw; subst ht
    simp only [realToPE, evalEK]
    rw [iha hw.1.1.1 hw.1.2 (sub_left rfl hm), ihb hw.1.1.2 hw.2 (sub_right rfl hm), hσ.plusR _ _ hw0]
  | minus T a b iha ihb =>
    intro hw ht hm
    have hw0 := hw
    simp [typeOf, wt] at ht hw; subst ht
    simp only [realToPE, evalEK]
    rw [iha hw.1.1.1 hw.1.2 (sub_left rfl hm), ihb hw.1.1.2 hw.2 (sub_right rfl hm), hσ.minusR _ _ hw0]
  | times T a b iha ihb =>
    intro hw ht hm
    have hw0 := hw
    simp [typeOf, wt] at ht hw; subst ht
    simp only [realToPE, evalEK]
    rw [iha hw.1.1.1 hw.1.2 (sub_left rfl hm), ihb hw.1.1.2 hw.2 (sub_right rfl hm), hσ.timesR _ _ hw0]
  | uminus T a iha =>
    intro hw ht hm
    simp only [realToPE]
    split
    · rename_i hn
      exact numBranch_soundK σ hσ tbl _ hn ht (hm _ (self_mem_subterms _))
    · rename_i hn
      have hw0 := hw
      simp [typeOf, wt] at ht hw; subst ht
      simp only [evalEK]
      rw [iha hw.1 hw.2 (sub_un rfl hm), hσ.uminusR _ hw0 (by simpa using hn)]
  | divide a b iha ihb =>
    intro hw ht hm
    simp only [realToPE]
    split
    · rename_i hn
      exact numBranch_soundK σ hσ tbl _ hn ht (hm _ (self_mem_subterms _))
    · rename_i hn
      have hw0 := hw
      simp [wt] at hw
      split
      · rename_i c hc
        have eb := evalEK_const (valOfK σ tbl) (realToPE tbl b) c (by rw [hc]; rfl)
        rw [ihb hw.1.1.2 hw.2 (sub_right rfl hm)] at eb
        simp only [evalEK]
        rw [iha hw.1.1.1 hw.1.2 (sub_left rfl hm), hσ.divide _ _ hw0 (by simpa using hn), eb]
        simp [Rat.cast_div, div_eq_mul_inv, mul_comm]
      · exact evalEK_indet σ tbl _ (hm _ (self_mem_subterms _))
  | power T a b iha ihb =>
    intro hw ht hm
    have hw0 := hw
    simp [typeOf, wt] at ht hw; subst ht
    have hself := hm _ (self_mem_subterms (.power .real a b))
    simp only [realToPE]
    split
    · rename_i hnat
      have hnat' : typeOf b = .nat := by simpa using hnat
      split
      · rename_i k hk
        split
        · rename_i hc
          have eb := evalEK_const (valOfK σ tbl) (natToPE tbl b) k hk
          rw [natToPE_soundK σ hσ tbl b hw.1.2 hnat' (sub_right rfl hm)] at eb
          have hden : k.den = 1 := by simpa using hc.1
          simp only [evalEK]
          rw [iha hw.1.1 hw.2 (sub_left rfl hm)]
          rw [hσ.powN a b k.num.toNat hw0 hnat' (by
            rw [eb, ← rat_natCast_of k hden hc.2]; simp; omega)]
        · exact evalEK_indet σ tbl _ hself
      · exact evalEK_indet σ tbl _ hself
    · split
      · rename_i hreal
        have hreal' : typeOf b = .real := by simpa using hreal
        split
        · rename_i x p hx hp
          split
          · rename_i hc
            have ea := evalEK_const (valOfK σ tbl) (realToPE tbl a) x hx
            have eb := evalEK_const (valOfK σ tbl) (realToPE tbl b) p hp
            rw [iha hw.1.1 hw.2 (sub_left rfl hm)] at ea
            rw [ihb hw.1.2 hreal' (sub_right rfl hm)] at eb
            have hden : p.den = 1 := by simpa using hc.1
            have hp' : ((p.num : Int) : Rat) = p := Num.rat_of_den_one p hden
            simp only [evalEK]
            rw [hσ.powR a b p.num hw0 hreal' (by rw [eb, ← hp']; simp) ?_, ea, zpowK_cast]
            rw [ea]
            rcases hc.2 with h | h
            · left; intro h0; exact h (by exact_mod_cast h0)
            · exact Or.inr (Rat.num_nonneg.mpr h)
          · exact evalEK_indet σ tbl _ hself
        · exact evalEK_indet σ tbl _ hself
      · exact evalEK_indet σ tbl _ hself
  | _ =>
    intro _ ht hm
    simp only [realToPE]
    split
    · rename_i hn
      exact numBranch_soundK σ hσ tbl _ hn ht (hm _ (self_mem_subterms _))
    · exact evalEK_indet σ tbl _ (hm _ (self_mem_subterms _))

end Holpy.C05
