import Holpy.C05.NormModel
import Holpy.C05.ProofsNorm
import Holpy.C10.PropsPolySem
/-
C05 — property theorems about the trusted macro `real_norm` (polynomial normalisation), on top of
the polynomial layer proved for C10 (`poly_eval_sound`, `poly_canonical_semantic`).
-/
namespace Holpy.C05
open Holpy.C10 Holpy.C10.Poly

/-- `real_norm`: an accepted step asserts exactly the goal, the goal is an equation between real
terms, and the two sides have the same value under EVERY assignment of numbers to terms that respects
the numerals and the arithmetic operators (`Std`): maximal non-polynomial subterms (variables,
`x / y`, `sqrt 2`, `of_nat (n - m)`, …) are opaque, and whatever values they take the equation holds.
(Numbers are rationals here, as everywhere in this model.) -/
theorem real_norm_macro_sound (goal : AExpr) (th : Thm) :
    acceptRealNorm goal = .ok th →
      th.prop = goal ∧ ∃ a b, goal = .eq .real a b ∧ ∀ σ : AExpr → Rat, Std σ → σ a = σ b := by
  intro h
  obtain ⟨hm, hw, _⟩ := checked_ok h
  simp only [realNormMacro] at hm
  split at hm
  · rename_i T a b
    split at hm
    · rename_i hty
      have hty' : typeOf a = .real := by simpa using hty
      split at hm
      · rename_i heq
        cases hm
        obtain ⟨rfl, hwa, hwb, htb⟩ := wt_eq_sides hw hty'
        refine ⟨rfl, a, b, rfl, ?_⟩
        intro σ hσ
        have hl : toPoly (realToPE (subterms (.eq .real a b)) a) = toPoly (realToPE (subterms (.eq .real a b)) b) := by
          simpa using heq
        have hma : ∀ t ∈ subterms a, t ∈ subterms (.eq .real a b) := by
          intro t ht; simp [subterms, ht]
        have hmb : ∀ t ∈ subterms b, t ∈ subterms (.eq .real a b) := by
          intro t ht; simp [subterms, ht]
        rw [← realToPE_sound σ hσ _ a hwa hty' hma, ← realToPE_sound σ hσ _ b hwb htb hmb,
          ← evalPoly_toPoly, ← evalPoly_toPoly, hl]
      · cases hm
    · cases hm
  · cases hm

/- (x + 1) * (x + 1) = x * x + 2 * x + 1 with x the opaque term `sqrt y` is accepted -/
example :
    let x : AExpr := .fn .sqrt (.atom .real 0 true)
    let two : AExpr := .ofNat .real (.bit0 (.one .nat))
    (acceptRealNorm (.eq .real (.times .real (.plus .real x (.one .real)) (.plus .real x (.one .real)))
      (.plus .real (.plus .real (.times .real x x) (.times .real two x)) (.one .real)))).isOk = true := by
  decide +kernel

/- x / x = 1 is not: the quotient is an opaque term -/
example : acceptRealNorm (.eq .real (.divide (.atom .real 0 true) (.atom .real 0 true)) (.one .real))
    = .error .assertion := by decide +kernel

/-- Completeness on the polynomial fragment: if the two translated sides take the same value under
every valuation of the indeterminates (they are equal as polynomials over ℚ), the step is accepted. -/
theorem real_norm_macro_complete (a b : AExpr) (hw : wt (.eq .real a b) = true) (hta : typeOf a = .real)
    (h : ∀ ρ : Nat → Rat, evalE ρ (realToPE (subterms (.eq .real a b)) a)
      = evalE ρ (realToPE (subterms (.eq .real a b)) b)) :
    acceptRealNorm (.eq .real a b) = .ok ⟨.eq .real a b⟩ := by
  have hl := (poly_canonical_semantic _ _).2 h
  have hta' : (typeOf a == Ty.real) = true := by simp [hta]
  have hm : realNormMacro (.eq .real a b) = .ok ⟨.eq .real a b⟩ := by
    simp only [realNormMacro, hta', if_true, hl, beq_self_eq_true]
  have hb : typeOf (AExpr.eq Ty.real a b) = .bool := rfl
  unfold acceptRealNorm checked
  rw [hm]
  simp [bind, Except.bind, hw, hb]

/- x * y = y * x for all values of x and y, so it is accepted -/
example : (acceptRealNorm (.eq .real (.times .real (.atom .real 0 true) (.atom .real 1 true))
    (.times .real (.atom .real 1 true) (.atom .real 0 true)))).isOk = true := by
  rw [real_norm_macro_complete _ _ (by decide) (by decide) (fun ρ => by
    simp [realToPE, isNumber, isFracNumber, isNatNumber, indet, evalE]; ring)]
  rfl

/-- Acceptance is exactly equality as polynomials over ℚ in the opaque subterms. -/
theorem real_norm_macro_iff (a b : AExpr) (hw : wt (.eq .real a b) = true) (hta : typeOf a = .real) :
    (∃ th, acceptRealNorm (.eq .real a b) = .ok th) ↔
      ∀ ρ : Nat → Rat, evalE ρ (realToPE (subterms (.eq .real a b)) a)
        = evalE ρ (realToPE (subterms (.eq .real a b)) b) := by
  constructor
  · rintro ⟨th, h⟩
    obtain ⟨hm, _, _⟩ := checked_ok h
    simp only [realNormMacro] at hm
    have hta' : (typeOf a == Ty.real) = true := by simp [hta]
    simp only [hta', if_true] at hm
    split at hm
    · rename_i heq
      have hl : toPoly (realToPE (subterms (.eq .real a b)) a) = toPoly (realToPE (subterms (.eq .real a b)) b) := by
        simpa using heq
      exact (poly_canonical_semantic _ _).1 hl
    · cases hm
  · intro h
    exact ⟨_, real_norm_macro_complete a b hw hta h⟩

example : (∃ th, acceptRealNorm (.eq .real (.atom .real 0 true) (.atom .real 0 true)) = .ok th) :=
  (real_norm_macro_iff _ _ (by decide) (by decide)).2 (fun _ => rfl)

end Holpy.C05
