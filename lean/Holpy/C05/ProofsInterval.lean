import Holpy.C05.IntervalModel
import Holpy.C05.ProofsMacro
import Mathlib.Algebra.Order.Field.Basic
import Mathlib.Data.Rat.Cast.Defs
/-
C05 — helper definitions and lemmas for the interval evaluator: the value of a term in an ordered
field with the real functions given abstractly, and what "the primitives return enclosures" means.
-/
namespace Holpy.C05

/-- the real functions, given abstractly over an ordered field `K` (think of ℝ) -/
structure RealFns (K : Type) where
  exp : K → K
  log : K → K
  sqrt : K → K
  sin : K → K
  cos : K → K
  atn : K → K
  pi : K

section
variable {K : Type} [Field K] [LinearOrder K] [IsStrictOrderedRing K]

/-- `x` lies in the interval `I` -/
def encl (I : Iv) (x : K) : Prop := ((I.1 : Rat) : K) ≤ x ∧ x ≤ ((I.2 : Rat) : K)

/-- every primitive of the interval context returns an enclosure of its function on the argument
enclosure (the property of mpmath's `iv` that is trusted) -/
structure PrimsOK (P : Prims) (F : RealFns K) : Prop where
  exact : ∀ q : Rat, encl (P.exact q) ((q : Rat) : K)
  add : ∀ I J (x y : K), encl I x → encl J y → encl (P.add I J) (x + y)
  sub : ∀ I J (x y : K), encl I x → encl J y → encl (P.sub I J) (x - y)
  mul : ∀ I J (x y : K), encl I x → encl J y → encl (P.mul I J) (x * y)
  div : ∀ I J (x y : K), encl I x → encl J y → mayBeZero J = false → encl (P.div I J) (x / y)
  neg : ∀ I (x : K), encl I x → encl (P.neg I) (-x)
  powNat : ∀ I (x : K) (n : Nat), encl I x → encl (P.powNat I n) (x ^ n)
  abs : ∀ I (x : K), encl I x → encl (P.abs I) |x|
  exp : ∀ I (x : K), encl I x → encl (P.exp I) (F.exp x)
  log : ∀ I (x : K), encl I x → 0 < I.1 → encl (P.log I) (F.log x)
  sqrt : ∀ I (x : K), encl I x → 0 ≤ I.1 → encl (P.sqrt I) (F.sqrt x)
  sin : ∀ I (x : K), encl I x → encl (P.sin I) (F.sin x)
  cos : ∀ I (x : K), encl I x → encl (P.cos I) (F.cos x)
  pi : encl P.pi F.pi

/-- what is needed of the abstract real functions to relate the two ways a real power is computed
(`real_eval`: integer powers; `real_interval_eval`: `exp (y * log x)` for a positive base) -/
structure FnsSpec (F : RealFns K) : Prop where
  exp_zero : F.exp 0 = 1
  log_one : F.log 1 = 0
  rpow_int : ∀ (x : K) (p : Int), 0 < x → F.exp ((p : K) * F.log x) = if p ≥ 0 then x ^ p.toNat else (x ^ (-p).toNat)⁻¹

/-- value of a nat subterm (`of_nat t`, nat exponents): compositional, truncated subtraction; a
subterm that is not built from numerals, `Suc`, `+`, `*`, `-` counts as 0 -/
def natVal : AExpr → Nat
  | .zero _ => 0
  | .one _ => 1
  | .ofNat _ a => if isBinary a then destBinary a else 0
  | .suc a => natVal a + 1
  | .plus _ a b => natVal a + natVal b
  | .minus _ a b => natVal a - natVal b
  | .times _ a b => natVal a * natVal b
  | _ => 0

/-- value of an int subterm (`of_int t`) in the typed semantics -/
def intVal (e : AExpr) : Int :=
  match den (fun _ => .b false) e with
  | some (.i k) => k
  | _ => 0

/-- value of a numeral -/
def numVal (e : AExpr) : Rat :=
  match destNumber e with
  | .ok v => v.toRat
  | .error _ => 0

/-- `x ^ p` for an integer `p` (`0 ^ p = 0` for `p < 0`, as `ratIntPow`) -/
def zpowK (x : K) (p : Int) : K := if p ≥ 0 then x ^ p.toNat else (x ^ (-p).toNat)⁻¹

/-- the exponent of a real power when it is (syntactically evaluable to) an integer -/
def intExp (b : AExpr) : Option Int :=
  match realRec b with
  | .ok v => if v.toRat.den = 1 then some v.toRat.num else none
  | .error _ => none

open Classical in
/-- The value of a variable-free real term built from numerals, `of_nat`/`of_int` of evaluable
terms, `+ - * /`, inverse, powers, `pi` and the named functions, with the library's definitions
(`tan = sin / cos`, `cot = cos / sin`, `sec = 1 / cos`, `csc = 1 / sin`, `x ^ y = exp (y * log x)` for `0 < x`; for `x ≤ 0`: 1 if `y = 0`, 0 if `x = 0`, the integer power for an
integer `y`).  Other terms get 0; the theorem below only speaks about terms the evaluator accepts. -/
noncomputable def tval (F : RealFns K) : AExpr → K
  | .ofNat T a => if isNumber (.ofNat T a) then ((numVal (.ofNat T a) : Rat) : K) else (((natVal a : Nat) : Rat) : K)
  | .ofInt a => (((intVal a : Int) : Rat) : K)
  | .plus _ a b => tval F a + tval F b
  | .minus _ a b => tval F a - tval F b
  | .uminus T a => if isNumber (.uminus T a) then ((numVal (.uminus T a) : Rat) : K) else - tval F a
  | .times _ a b => tval F a * tval F b
  | .divide a b => if isNumber (.divide a b) then ((numVal (.divide a b) : Rat) : K) else tval F a / tval F b
  | .inverse a => ((1 : Rat) : K) / tval F a
  | .power _ a b =>
    if typeOf b == .nat then tval F a ^ natVal b
    else if 0 < tval F a then F.exp (tval F b * F.log (tval F a))   -- x ^ y = exp (y * log x) for 0 < x
    else if tval F b = 0 then 1                                      -- x ^ 0 = 1
    else if tval F a = 0 then 0                                      -- 0 ^ y = 0 for y ≠ 0
    else if h : ∃ p : Int, tval F b = (p : K) then zpowK (tval F a) (Classical.choose h)   -- negative base, integer exponent
    else 0
  | .pi => F.pi
  | .fn f a =>
    match f with
    | .sqrt => F.sqrt (tval F a)
    | .sin => F.sin (tval F a)
    | .cos => F.cos (tval F a)
    | .tan => F.sin (tval F a) / F.cos (tval F a)
    | .cot => F.cos (tval F a) / F.sin (tval F a)
    | .sec => ((1 : Rat) : K) / F.cos (tval F a)
    | .csc => ((1 : Rat) : K) / F.sin (tval F a)
    | .log => F.log (tval F a)
    | .exp => F.exp (tval F a)
    | .abs => |tval F a|
    | .atn => F.atn (tval F a)
  | e => if isNumber e then ((numVal e : Rat) : K) else 0

theorem nonzeroIv_ok {y y' : Iv} (h : nonzeroIv y = .ok y') : y = y' ∧ mayBeZero y = false := by
  unfold nonzeroIv at h
  split at h
  · cases h
  · rename_i hz
    cases h
    exact ⟨rfl, by simpa using hz⟩

theorem natVal_of_natEval' (a : AExpr) : ∀ n, natEval a = .ok n → natVal a = n := by
  induction a with
  | zero T => intro n h; simp [natEval] at h; simp [natVal, h]
  | one T => intro n h; simp [natEval] at h; simp [natVal, h]
  | ofNat T a _ =>
    intro n h
    simp only [natEval] at h
    split at h
    · rename_i hb; cases h; simp [natVal, hb]
    · cases h
  | suc a ih =>
    intro n h
    simp only [natEval] at h
    obtain ⟨m, hm, h⟩ := bind_ok h
    cases h
    simp [natVal, ih m hm]
  | plus T a b iha ihb =>
    intro n h
    simp only [natEval] at h
    obtain ⟨x, hx, h⟩ := bind_ok h
    obtain ⟨y, hy, h⟩ := bind_ok h
    cases h
    simp [natVal, iha x hx, ihb y hy]
  | minus T a b iha ihb =>
    intro n h
    simp only [natEval] at h
    obtain ⟨x, hx, h⟩ := bind_ok h
    obtain ⟨y, hy, h⟩ := bind_ok h
    cases h
    simp only [natVal, iha x hx, ihb y hy]
    split <;> omega
  | times T a b iha ihb =>
    intro n h
    simp only [natEval] at h
    obtain ⟨x, hx, h⟩ := bind_ok h
    obtain ⟨y, hy, h⟩ := bind_ok h
    cases h
    simp [natVal, iha x hx, ihb y hy]
  | _ => intro n h; simp [natEval] at h

theorem natVal_of_natEval (a : AExpr) (n : Nat) (h : natEval a = .ok n) (_hw : wt a = true)
    (_ht : typeOf a = .nat) : natVal a = n := natVal_of_natEval' a n h

theorem intVal_of_intEval (a : AExpr) (v : Num) (h : intEval a = .ok v) (hw : wt a = true)
    (ht : typeOf a = .int) : v.toRat = ((intVal a : Int) : Rat) := by
  obtain ⟨k, rfl, hk⟩ := intEval_sound' (fun _ => .b false) a v h ht hw
  simp [intVal, hk]

/-- the numeral branch -/
theorem ivEval_number (P : Prims) (F : RealFns K) (hP : PrimsOK P F) (e : AExpr) (I : Iv)
    (h : (do let v ← destNumber e; Except.ok (P.exact v.toRat)) = Except.ok I) :
    encl I ((numVal e : Rat) : K) := by
  obtain ⟨v, hv, h⟩ := bind_ok h
  cases h
  simp only [numVal, hv]
  exact hP.exact _

end

end Holpy.C05
