import Holpy.C05.ProofsInterval
import Mathlib.Tactic.Linarith
import Mathlib.Tactic.Positivity
/-
C05 — a concrete interval context satisfying `PrimsOK` (exact rational arithmetic over ℚ), used as the
non-vacuity instance of `interval_eval_sound_given_enclosures`.
-/
namespace Holpy.C05

theorem encl_rat {I : Iv} {x : Rat} : encl (K := Rat) I x ↔ I.1 ≤ x ∧ x ≤ I.2 := by
  simp [encl]

theorem mul_lower (a b c d x y : Rat) (hx : a ≤ x ∧ x ≤ b) (hy : c ≤ y ∧ y ≤ d) :
    ivMin4 (a * c) (a * d) (b * c) (b * d) ≤ x * y := by
  unfold ivMin4
  rcases le_total 0 y with h0 | h0
  · have h1 : a * y ≤ x * y := by nlinarith
    rcases le_total 0 a with ha | ha
    · have : a * c ≤ a * y := by nlinarith
      exact le_trans (le_trans (min_le_left _ _) (min_le_left _ _)) (le_trans this h1)
    · have : a * d ≤ a * y := by nlinarith
      exact le_trans (le_trans (min_le_left _ _) (min_le_right _ _)) (le_trans this h1)
  · have h1 : b * y ≤ x * y := by nlinarith
    rcases le_total 0 b with hb | hb
    · have : b * c ≤ b * y := by nlinarith
      exact le_trans (le_trans (min_le_right _ _) (min_le_left _ _)) (le_trans this h1)
    · have : b * d ≤ b * y := by nlinarith
      exact le_trans (le_trans (min_le_right _ _) (min_le_right _ _)) (le_trans this h1)

theorem mul_upper (a b c d x y : Rat) (hx : a ≤ x ∧ x ≤ b) (hy : c ≤ y ∧ y ≤ d) :
    x * y ≤ ivMax4 (a * c) (a * d) (b * c) (b * d) := by
  unfold ivMax4
  rcases le_total 0 y with h0 | h0
  · have h1 : x * y ≤ b * y := by nlinarith
    rcases le_total 0 b with hb | hb
    · have : b * y ≤ b * d := by nlinarith
      exact le_trans (le_trans h1 this) (le_trans (le_max_right _ _) (le_max_right _ _))
    · have : b * y ≤ b * c := by nlinarith
      exact le_trans (le_trans h1 this) (le_trans (le_max_left _ _) (le_max_right _ _))
  · have h1 : x * y ≤ a * y := by nlinarith
    rcases le_total 0 a with ha | ha
    · have : a * y ≤ a * d := by nlinarith
      exact le_trans (le_trans h1 this) (le_trans (le_max_right _ _) (le_max_left _ _))
    · have : a * y ≤ a * c := by nlinarith
      exact le_trans (le_trans h1 this) (le_trans (le_max_left _ _) (le_max_left _ _))

theorem ivMul_encl (I J : Iv) (x y : Rat) (hx : I.1 ≤ x ∧ x ≤ I.2) (hy : J.1 ≤ y ∧ y ≤ J.2) :
    (ivMul I J).1 ≤ x * y ∧ x * y ≤ (ivMul I J).2 :=
  ⟨mul_lower _ _ _ _ _ _ hx hy, mul_upper _ _ _ _ _ _ hx hy⟩

theorem recip_encl (J : Iv) (y : Rat) (hy : J.1 ≤ y ∧ y ≤ J.2) (hz : mayBeZero J = false) :
    1 / J.2 ≤ 1 / y ∧ 1 / y ≤ 1 / J.1 := by
  simp [mayBeZero] at hz
  rcases lt_or_ge 0 J.1 with hpos | hneg
  · have hy0 : 0 < y := lt_of_lt_of_le hpos hy.1
    exact ⟨one_div_le_one_div_of_le hy0 hy.2, one_div_le_one_div_of_le hpos hy.1⟩
  · have h2 : J.2 < 0 := hz hneg
    have hy0 : y < 0 := lt_of_le_of_lt hy.2 h2
    have hj1 : J.1 < 0 := lt_of_le_of_lt hy.1 hy0
    constructor
    · rw [one_div, one_div]; exact (inv_le_inv_of_neg h2 hy0).mpr hy.2
    · rw [one_div, one_div]; exact (inv_le_inv_of_neg hy0 hj1).mpr hy.1

/-- repeated multiplication -/
def powMul (I : Iv) : Nat → Iv
  | 0 => (1, 1)
  | n + 1 => ivMul (powMul I n) I

theorem powMul_encl (I : Iv) (x : Rat) (hx : I.1 ≤ x ∧ x ≤ I.2) (n : Nat) :
    (powMul I n).1 ≤ x ^ n ∧ x ^ n ≤ (powMul I n).2 := by
  induction n with
  | zero => simp [powMul]
  | succ k ih => rw [pow_succ]; exact ivMul_encl _ _ _ _ ih hx

/-- an interval context with exact rational arithmetic; the "transcendental" primitives are the
identity (they enclose the identity function) -/
def idPrims : Prims where
  exact q := (q, q)
  add x y := (x.1 + y.1, x.2 + y.2)
  sub x y := (x.1 - y.2, x.2 - y.1)
  mul := ivMul
  div x y := ivMul x (1 / y.2, 1 / y.1)
  neg x := (-x.2, -x.1)
  powNat := powMul
  abs x := (min x.1 (-x.2) |> min 0, max x.2 (-x.1))
  exp := id
  log := id
  sqrt := id
  sin := id
  cos := id
  pi := (3, 4)

def idFns : RealFns Rat where
  exp := id
  log := id
  sqrt := id
  sin := id
  cos := id
  atn := id
  pi := 7 / 2

theorem idPrims_ok : PrimsOK idPrims idFns where
  exact q := by simp [encl, idPrims]
  add I J x y hx hy := by
    rw [encl_rat] at *; simp only [idPrims]; constructor <;> linarith [hx.1, hx.2, hy.1, hy.2]
  sub I J x y hx hy := by
    rw [encl_rat] at *; simp only [idPrims]; constructor <;> linarith [hx.1, hx.2, hy.1, hy.2]
  mul I J x y hx hy := by
    rw [encl_rat] at *; exact ivMul_encl I J x y hx hy
  div I J x y hx hy hz := by
    rw [encl_rat] at *
    rw [div_eq_mul_one_div]
    exact ivMul_encl I _ x (1 / y) hx (recip_encl J y hy hz)
  neg I x hx := by
    rw [encl_rat] at *; simp only [idPrims]; constructor <;> linarith [hx.1, hx.2]
  powNat I x n hx := by
    rw [encl_rat] at *; exact powMul_encl I x hx n
  abs I x hx := by
    rw [encl_rat] at *
    simp only [idPrims]
    constructor
    · exact le_trans (min_le_left _ _) (abs_nonneg x)
    · rcases abs_cases x with ⟨h, _⟩ | ⟨h, _⟩ <;> rw [h]
      · exact le_trans hx.2 (le_max_left _ _)
      · exact le_trans (by linarith [hx.1]) (le_max_right _ _)
  exp I x hx := hx
  log I x hx _ := hx
  sqrt I x hx _ := hx
  sin I x hx := hx
  cos I x hx := hx
  pi := by rw [encl_rat]; simp only [idPrims, idFns]; constructor <;> norm_num

end Holpy.C05
