import Holpy.C05.Model
import Holpy.C10.PolyModel
/-
C05 — executable model of the trusted macro `real_norm` (`data/real.py`: `real_norm_macro.eval`,
`convert_to_poly`; `data/nat.py`: `convert_to_poly` under `of_nat`), on top of the polynomial layer
modelled for C10 (`Holpy/C10/PolyModel.lean`, imported read-only; `util/poly.py`).  Import-free.

`real_norm` accepts `a = b` when `a` is real and `convert_to_poly a == convert_to_poly b`.
`convert_to_poly` descends through numerals, `+`, `-`, unary `-`, `*`, division by a term whose
polynomial is a non-zero constant, `^` with a nat exponent whose polynomial is a constant, real
power of two constants at an integer exponent, and `of_nat` of a nat term (nat numerals, `+`, `*`,
truncated `-` of two constants); every other subterm is an opaque indeterminate
(`poly.singleton(t)`), the same one at every occurrence.

Indeterminates: Python keys them by the term itself and orders them with `term_ord.fast_compare`.
The model numbers them by their position in the list of all subterms of the goal (`subterms`), an
injective numbering; the verdict `toPoly a == toPoly b` does not depend on which injective numbering
is used (C10 `poly_canonical_semantic`: over ℚ equal lists ⟺ equal values under all valuations).
-/
namespace Holpy.C05

open Holpy.C10.Poly

/-- All subterms, the term itself first. -/
def subterms : AExpr → List AExpr
  | .zero T => [.zero T]
  | .one T => [.one T]
  | .tru => [.tru]
  | .fls => [.fls]
  | .pi => [.pi]
  | .atom T i v => [.atom T i v]
  | .bit0 a => .bit0 a :: subterms a
  | .bit1 a => .bit1 a :: subterms a
  | .suc a => .suc a :: subterms a
  | .ofNat T a => .ofNat T a :: subterms a
  | .ofInt a => .ofInt a :: subterms a
  | .uminus T a => .uminus T a :: subterms a
  | .inverse a => .inverse a :: subterms a
  | .neg a => .neg a :: subterms a
  | .fn f a => .fn f a :: subterms a
  | .plus T a b => .plus T a b :: (subterms a ++ subterms b)
  | .minus T a b => .minus T a b :: (subterms a ++ subterms b)
  | .times T a b => .times T a b :: (subterms a ++ subterms b)
  | .divide a b => .divide a b :: (subterms a ++ subterms b)
  | .power T a b => .power T a b :: (subterms a ++ subterms b)
  | .eq T a b => .eq T a b :: (subterms a ++ subterms b)
  | .cmp op T a b => .cmp op T a b :: (subterms a ++ subterms b)

/-- `poly.singleton(t)`: the indeterminate standing for the term `t`. -/
def indet (tbl : List AExpr) (t : AExpr) : PExp Rat := .atom (tbl.idxOf t)

/-- `p.is_constant()` / `p.get_constant()` on a `Polynomial`. -/
def constOf (p : PolyL Rat) : Option Rat :=
  match p with
  | [] => some 0
  | [([], c)] => some c
  | _ => none

/-- `nat.convert_to_poly` (after fixes/C05-1: only natural-number literals are constants). -/
def natToPE (tbl : List AExpr) : AExpr → PExp Rat
  | .zero _ => .num 0                                   -- is_nat_number (by name)
  | .one _ => .num 1
  | .ofNat T a => if isBinary a then .num (destBinary a : Nat) else indet tbl (.ofNat T a)
  | .plus _ a b => .add (natToPE tbl a) (natToPE tbl b)
  | .times _ a b => .mul (natToPE tbl a) (natToPE tbl b)
  | .minus T a b =>
    match constOf (toPoly (natToPE tbl a)), constOf (toPoly (natToPE tbl b)) with
    | some n1, some n2 => if n1 ≤ n2 then .num 0 else .num (n1 - n2)
    | _, _ => indet tbl (.minus T a b)
  | e => indet tbl e

/-- `real.convert_to_poly` (after fixes/C05-2: a real power is evaluated only at an integer exponent). -/
def realToPE (tbl : List AExpr) : AExpr → PExp Rat
  | .ofNat T a =>
    if isNumber (.ofNat T a) then (match destNumber (.ofNat T a) with | .ok v => .num v.toRat | .error _ => indet tbl (.ofNat T a))
    else natToPE tbl a
  | .plus _ a b => .add (realToPE tbl a) (realToPE tbl b)
  | .minus _ a b => .sub (realToPE tbl a) (realToPE tbl b)
  | .uminus T a =>
    if isNumber (.uminus T a) then (match destNumber (.uminus T a) with | .ok v => .num v.toRat | .error _ => indet tbl (.uminus T a))
    else .neg (realToPE tbl a)
  | .times _ a b => .mul (realToPE tbl a) (realToPE tbl b)
  | .divide a b =>
    if isNumber (.divide a b) then (match destNumber (.divide a b) with | .ok v => .num v.toRat | .error _ => indet tbl (.divide a b))
    else match toPoly (realToPE tbl b) with
      | [([], c)] => .scale (1 / c) (realToPE tbl a)                 -- is_nonzero_constant
      | _ => indet tbl (.divide a b)
  | .power T a b =>
    if typeOf b == .nat then
      match constOf (toPoly (natToPE tbl b)) with
      | some k => if k.den == 1 ∧ 0 ≤ k.num then .pow (realToPE tbl a) k.num.toNat else indet tbl (.power T a b)
      | none => indet tbl (.power T a b)
    else if typeOf b == .real then
      match constOf (toPoly (realToPE tbl a)), constOf (toPoly (realToPE tbl b)) with
      | some x, some p =>
        if p.den == 1 ∧ (x ≠ 0 ∨ 0 ≤ p) then .num (ratIntPow x p.num) else indet tbl (.power T a b)
      | _, _ => indet tbl (.power T a b)
    else indet tbl (.power T a b)
  | e => if isNumber e then (match destNumber e with | .ok v => .num v.toRat | .error _ => indet tbl e) else indet tbl e

/-- `real_norm_macro.eval(goal, [])`. -/
def realNormMacro (goal : AExpr) : Except Err Thm :=
  match goal with
  | .eq _ a b =>
    if typeOf a == .real then
      let tbl := subterms goal
      if toPoly (realToPE tbl a) == toPoly (realToPE tbl b) then .ok ⟨goal⟩ else .error .assertion
    else .error .assertion
  | _ => .error .assertion

/-- `check_proof` on the one-step proof `0: real_norm goal`. -/
def acceptRealNorm (goal : AExpr) : Except Err Thm := checked realNormMacro goal

end Holpy.C05
