import Holpy.C05.IntervalModel
import Holpy.C05.ProofsInterval
import Holpy.C05.ProofsIntervalInst
/-
C05 — property theorem about the combination logic of `real_interval_eval`.
-/
set_option linter.unusedSectionVars false
namespace Holpy.C05

variable {K : Type} [Field K] [LinearOrder K] [IsStrictOrderedRing K]

/-- `real_interval_eval` (its case analysis, guards and the way sub-intervals are combined): if every
primitive of the interval context returns an enclosure of its function on the argument enclosure
(mpmath's property, trusted), then the interval returned for a well-typed real term encloses the
value of the term.  Structural induction over the evaluator's cases — a function symbol routed to the
wrong primitive (the `atn`-into-`abs` fall-through) makes the corresponding case unprovable, and the
model refuses `atn`. -/
theorem interval_eval_sound_given_enclosures (P : Prims) (F : RealFns K) (hP : PrimsOK P F) (e : AExpr) :
    ∀ I, ivEval P e = .ok I → wt e = true → typeOf e = .real → encl I (tval F e) := by
  induction e with
  | ofNat T a _ =>
    intro I h hw ht
    simp only [ivEval] at h
    simp only [tval]
    split at h
    · rename_i hn
      rw [if_pos hn]
      exact ivEval_number P F hP _ I h
    · rename_i hn
      rw [if_neg hn]
      simp [wt] at hw
      obtain ⟨n, hn', h⟩ := bind_ok h
      cases h
      rw [natVal_of_natEval a n hn' hw.1 hw.2]
      exact hP.exact _
  | ofInt a _ =>
    intro I h hw _
    simp only [ivEval] at h
    simp [wt] at hw
    obtain ⟨v, hv, h⟩ := bind_ok h
    cases h
    simp only [tval]
    rw [intVal_of_intEval a v hv hw.1 hw.2]
    exact hP.exact _
  | plus T a b iha ihb =>
    intro I h hw ht
    simp [typeOf, wt] at ht hw; subst ht
    simp only [ivEval] at h
    obtain ⟨x, hx, h⟩ := bind_ok h
    obtain ⟨y, hy, h⟩ := bind_ok h
    cases h
    exact hP.add _ _ _ _ (iha x hx hw.1.1.1 hw.1.2) (ihb y hy hw.1.1.2 hw.2)
  | minus T a b iha ihb =>
    intro I h hw ht
    simp [typeOf, wt] at ht hw; subst ht
    simp only [ivEval] at h
    obtain ⟨x, hx, h⟩ := bind_ok h
    obtain ⟨y, hy, h⟩ := bind_ok h
    cases h
    exact hP.sub _ _ _ _ (iha x hx hw.1.1.1 hw.1.2) (ihb y hy hw.1.1.2 hw.2)
  | times T a b iha ihb =>
    intro I h hw ht
    simp [typeOf, wt] at ht hw; subst ht
    simp only [ivEval] at h
    obtain ⟨x, hx, h⟩ := bind_ok h
    obtain ⟨y, hy, h⟩ := bind_ok h
    cases h
    exact hP.mul _ _ _ _ (iha x hx hw.1.1.1 hw.1.2) (ihb y hy hw.1.1.2 hw.2)
  | uminus T a iha =>
    intro I h hw ht
    simp only [ivEval] at h
    simp only [tval]
    split at h
    · rename_i hn
      rw [if_pos hn]
      exact ivEval_number P F hP _ I h
    · rename_i hn
      rw [if_neg hn]
      simp [typeOf, wt] at ht hw; subst ht
      obtain ⟨x, hx, h⟩ := bind_ok h
      cases h
      exact hP.neg _ _ (iha x hx hw.1 hw.2)
  | divide a b iha ihb =>
    intro I h hw _
    simp only [ivEval] at h
    simp only [tval]
    split at h
    · rename_i hn
      rw [if_pos hn]
      exact ivEval_number P F hP _ I h
    · rename_i hn
      rw [if_neg hn]
      simp [wt] at hw
      obtain ⟨x, hx, h⟩ := bind_ok h
      obtain ⟨y, hy, h⟩ := bind_ok h
      obtain ⟨y', hy', h⟩ := bind_ok h
      cases h
      obtain ⟨rfl, hz⟩ := nonzeroIv_ok hy'
      exact hP.div _ _ _ _ (iha x hx hw.1.1.1 hw.1.2) (ihb y hy hw.1.1.2 hw.2) hz
  | inverse a iha =>
    intro I h hw _
    simp only [ivEval] at h
    simp [wt] at hw
    split at h
    · obtain ⟨y, hy, h⟩ := bind_ok h
      obtain ⟨y', hy', h⟩ := bind_ok h
      cases h
      obtain ⟨rfl, hz⟩ := nonzeroIv_ok hy'
      simp only [tval]
      exact hP.div _ _ _ _ (hP.exact 1) (iha y hy hw.1 hw.2) hz
    · cases h
  | power T a b iha ihb =>
    intro I h hw ht
    simp [typeOf, wt] at ht hw; subst ht
    simp only [ivEval] at h
    simp only [tval]
    split at h
    · rename_i hnat
      rw [if_pos hnat]
      have hnat' : typeOf b = .nat := by simpa using hnat
      obtain ⟨x, hx, h⟩ := bind_ok h
      obtain ⟨n, hn, h⟩ := bind_ok h
      cases h
      rw [natVal_of_natEval b n hn hw.1.2 hnat']
      exact hP.powNat _ _ _ (iha x hx hw.1.1 hw.2)
    · rename_i hnat
      rw [if_neg hnat]
      split at h
      · rename_i hreal
        have hreal' : typeOf b = .real := by simpa using hreal
        obtain ⟨x, hx, h⟩ := bind_ok h
        obtain ⟨p, hp, h⟩ := bind_ok h
        split at h
        · rename_i hpos
          cases h
          have hpos' : 0 < x.1 := by simpa using hpos
          have hxa := iha x hx hw.1.1 hw.2
          have hposK : 0 < tval F a :=
            lt_of_lt_of_le (by exact_mod_cast hpos') hxa.1
          rw [if_pos hposK]
          exact hP.exp _ _ (hP.mul _ _ _ _ (ihb p hp hw.1.2 hreal') (hP.log _ _ hxa hpos'))
        · cases h
      · cases h
  | pi =>
    intro I h _ _
    simp only [ivEval] at h
    cases h
    exact hP.pi
  | fn f a iha =>
    intro I h hw _
    simp [wt] at hw
    cases f <;> simp only [ivEval] at h <;> simp only [tval]
    · -- sqrt
      obtain ⟨x, hx, h⟩ := bind_ok h
      split at h
      · rename_i hpos
        cases h
        exact hP.sqrt _ _ (iha x hx hw.1 hw.2) (by simpa using hpos)
      · cases h
    · obtain ⟨x, hx, h⟩ := bind_ok h; cases h; exact hP.sin _ _ (iha x hx hw.1 hw.2)
    · obtain ⟨x, hx, h⟩ := bind_ok h; cases h; exact hP.cos _ _ (iha x hx hw.1 hw.2)
    · -- tan
      obtain ⟨x, hx, h⟩ := bind_ok h
      obtain ⟨c, hc, h⟩ := bind_ok h
      cases h
      obtain ⟨rfl, hz⟩ := nonzeroIv_ok hc
      exact hP.div _ _ _ _ (hP.sin _ _ (iha x hx hw.1 hw.2)) (hP.cos _ _ (iha x hx hw.1 hw.2)) hz
    · -- cot
      obtain ⟨x, hx, h⟩ := bind_ok h
      obtain ⟨c, hc, h⟩ := bind_ok h
      cases h
      obtain ⟨rfl, hz⟩ := nonzeroIv_ok hc
      exact hP.div _ _ _ _ (hP.cos _ _ (iha x hx hw.1 hw.2)) (hP.sin _ _ (iha x hx hw.1 hw.2)) hz
    · -- sec
      obtain ⟨x, hx, h⟩ := bind_ok h
      obtain ⟨c, hc, h⟩ := bind_ok h
      cases h
      obtain ⟨rfl, hz⟩ := nonzeroIv_ok hc
      exact hP.div _ _ _ _ (hP.exact 1) (hP.cos _ _ (iha x hx hw.1 hw.2)) hz
    · -- csc
      obtain ⟨x, hx, h⟩ := bind_ok h
      obtain ⟨c, hc, h⟩ := bind_ok h
      cases h
      obtain ⟨rfl, hz⟩ := nonzeroIv_ok hc
      exact hP.div _ _ _ _ (hP.exact 1) (hP.sin _ _ (iha x hx hw.1 hw.2)) hz
    · -- log
      obtain ⟨x, hx, h⟩ := bind_ok h
      split at h
      · rename_i hpos
        cases h
        exact hP.log _ _ (iha x hx hw.1 hw.2) (by simpa using hpos)
      · cases h
    · obtain ⟨x, hx, h⟩ := bind_ok h; cases h; exact hP.exp _ _ (iha x hx hw.1 hw.2)
    · obtain ⟨x, hx, h⟩ := bind_ok h; cases h; exact hP.abs _ _ (iha x hx hw.1 hw.2)
    · cases h
  | _ =>
    intro I h _ _
    simp only [ivEval] at h
    simp only [tval]
    split at h
    · rename_i hn
      rw [if_pos hn]
      exact ivEval_number P F hP _ I h
    · cases h

/- an instance: exact rational interval arithmetic over ℚ (`idPrims_ok : PrimsOK idPrims idFns`);
`sqrt 2 + 1` with the identity standing for `sqrt` is enclosed by the point interval [3, 3] -/
example : encl (K := Rat) (3, 3)
    (tval idFns (.plus .real (.fn .sqrt (.ofNat .real (.bit0 (.one .nat)))) (.one .real))) :=
  interval_eval_sound_given_enclosures idPrims idFns idPrims_ok _ _ (by decide +kernel) (by decide) (by decide)

/- the model refuses `atn` (it is not among the supported functions) … -/
example (P : Prims) : ivEval P (.fn .atn (.one .real)) = .error .conv := rfl

/- … and `sqrt 2 + 1` is combined as `add (sqrt (exact 2)) (exact 1)` -/
example (P : Prims) (h : (0 : Rat) ≤ (P.exact 2).1) :
    ivEval P (.plus .real (.fn .sqrt (.ofNat .real (.bit0 (.one .nat)))) (.one .real))
      = .ok (P.add (P.sqrt (P.exact 2)) (P.exact 1)) := by
  simp [ivEval, isNumber, isFracNumber, isNatNumber, isBinary, destNumber, destBinary, bind, Except.bind, h]

end Holpy.C05
