import Holpy.C05.Proofs
/-
C05 — helper lemmas: soundness of `real_eval`.
-/
namespace Holpy.C05

theorem realRec_number (ρ : Nat → Val) (e : AExpr) (v : Num)
    (h : (if isNumber e = true then destNumber e else .error .conv) = .ok v)
    (ht : typeOf e = .real) (hw : wt e = true) : den ρ e = some (.q v.toRat) := by
  split at h
  · rename_i hn
    obtain ⟨k, h1, h2⟩ := realNumber_sound ρ e hn hw ht
    rw [h1] at h
    cases h
    exact h2
  · cases h

theorem beq_true_iff_rat (x y : Rat) : (x == y) = true ↔ x = y := by simp

theorem realRec_sound (ρ : Nat → Val) (e : AExpr) :
    ∀ v, realRec e = .ok v → typeOf e = .real → wt e = true → den ρ e = some (.q v.toRat) := by
  induction e with
  | ofNat T a _ =>
    intro v h ht hw
    simp only [realRec] at h
    split at h
    · rename_i hn
      obtain ⟨k, h1, h2⟩ := realNumber_sound ρ _ hn hw ht
      rw [h1] at h; cases h; exact h2
    · simp [typeOf, wt] at ht hw; subst ht
      obtain ⟨n, hn, h⟩ := bind_ok h
      cases h
      simp [den, natEval_sound' ρ a n hn hw.2 hw.1, castNat, Rat.intCast_natCast]
  | ofInt a _ =>
    intro v h _ hw
    simp only [realRec] at h
    simp [wt] at hw
    obtain ⟨k, rfl, hk⟩ := intEval_sound' ρ a v h hw.2 hw.1
    simp [den, hk]
  | plus T a b iha ihb =>
    intro v h ht hw
    simp [typeOf, wt] at ht hw; subst ht
    simp only [realRec] at h
    obtain ⟨x, hx, h⟩ := bind_ok h
    obtain ⟨y, hy, h⟩ := bind_ok h
    cases h
    simp [den, iha x hx hw.1.2 hw.1.1.1, ihb y hy hw.2 hw.1.1.2, Num.toRat_add]
  | minus T a b iha ihb =>
    intro v h ht hw
    simp [typeOf, wt] at ht hw; subst ht
    simp only [realRec] at h
    obtain ⟨x, hx, h⟩ := bind_ok h
    obtain ⟨y, hy, h⟩ := bind_ok h
    cases h
    simp [den, iha x hx hw.1.2 hw.1.1.1, ihb y hy hw.2 hw.1.1.2, Num.toRat_sub]
  | times T a b iha ihb =>
    intro v h ht hw
    simp [typeOf, wt] at ht hw; subst ht
    simp only [realRec] at h
    obtain ⟨x, hx, h⟩ := bind_ok h
    obtain ⟨y, hy, h⟩ := bind_ok h
    cases h
    simp [den, iha x hx hw.1.2 hw.1.1.1, ihb y hy hw.2 hw.1.1.2, Num.toRat_mul]
  | uminus T a iha =>
    intro v h ht hw
    simp only [realRec] at h
    split at h
    · rename_i hn
      obtain ⟨k, h1, h2⟩ := realNumber_sound ρ _ hn hw ht
      rw [h1] at h; cases h; exact h2
    · simp [typeOf, wt] at ht hw; subst ht
      obtain ⟨x, hx, h⟩ := bind_ok h
      cases h
      simp [den, iha x hx hw.2 hw.1, Num.toRat_neg]
  | divide a b iha ihb =>
    intro v h ht hw
    simp only [realRec] at h
    split at h
    · rename_i hn
      obtain ⟨k, h1, h2⟩ := realNumber_sound ρ _ hn hw ht
      rw [h1] at h; cases h; exact h2
    · simp [wt] at hw
      obtain ⟨d, hd, h⟩ := bind_ok h
      have hdb := ihb d hd hw.2 hw.1.1.2
      split at h
      · cases h
      · split at h
        · rename_i _ h1
          have h1' : d.toRat = 1 := by simpa using h1
          simp [den, iha v h hw.1.2 hw.1.1.1, hdb, h1', rat_div_one]
        · obtain ⟨n, hn, h⟩ := bind_ok h
          cases h
          simp [den, iha n hn hw.1.2 hw.1.1.1, hdb]
  | inverse a iha =>
    intro v h _ hw
    simp only [realRec] at h
    simp [wt] at hw
    split at h
    · obtain ⟨d, hd, h⟩ := bind_ok h
      split at h
      · cases h
      · cases h
        simp [den, iha d hd hw.2 hw.1, rat_one_div]
    · cases h
  | power T a b iha ihb =>
    intro v h ht hw
    simp [typeOf, wt] at ht hw; subst ht
    simp only [realRec] at h
    split at h
    · rename_i hnat
      have hnat' : typeOf b = .nat := by simpa using hnat
      obtain ⟨x, hx, h⟩ := bind_ok h
      obtain ⟨n, hn, h⟩ := bind_ok h
      cases h
      simp [den, iha x hx hw.2 hw.1.1, natEval_sound' ρ b n hn hnat' hw.1.2, Num.toRat_pow]
    · split at h
      · rename_i _ hreal
        have hreal' : typeOf b = .real := by simpa using hreal
        obtain ⟨x, hx, h⟩ := bind_ok h
        obtain ⟨p, hp, h⟩ := bind_ok h
        have hda := iha x hx hw.2 hw.1.1
        have hdb := ihb p hp hreal' hw.1.2
        simp only [den, hda, hdb]
        split at h
        · -- p == 0
          rename_i hp0
          have hp0' : p.toRat = 0 := by simpa using hp0
          cases h
          simp [hp0', ratIntPow_zero_exp]
        · rename_i hp0
          have hp0' : ¬ p.toRat = 0 := by simpa using hp0
          split at h
          · -- x == 0
            rename_i hx0
            have hx0' : x.toRat = 0 := by simpa using hx0
            cases h
            have hnum : p.toRat.num ≠ 0 := fun hh => hp0' (Rat.num_eq_zero.mp hh)
            by_cases hden : p.toRat.den = 1
            · simp [hx0', hden, ratIntPow_zero_base _ hnum]
            · simp [hx0', hden]
          · rename_i hx0
            have hx0' : ¬ x.toRat = 0 := by simpa using hx0
            split at h
            · -- x == 1
              rename_i hx1
              have hx1' : x.toRat = 1 := by simpa using hx1
              cases h
              by_cases hden : p.toRat.den = 1
              · simp [hx1', hden, ratIntPow_one_base]
              · simp [hx1', hden]
            · cases p with
              | int k =>
                simp only at h
                split at h
                · rename_i hk
                  cases h
                  simp [ratIntPow, hk, Num.toRat_pow]
                · rename_i hk
                  cases h
                  simp [ratIntPow, hk, Num.toRat_pow, rat_one_div]
              | frac q => simp at h
      · cases h
  | _ =>
    intro v h ht hw
    simp only [realRec] at h
    exact realRec_number ρ _ v h ht hw

theorem realEval_sound' (ρ : Nat → Val) (e : AExpr) (v : Num) :
    realEval e = .ok v → typeOf e = .real → wt e = true → den ρ e = some (.q v.toRat) := by
  intro h ht hw
  simp only [realEval] at h
  obtain ⟨r, hr, h⟩ := bind_ok h
  cases h
  rw [Num.toRat_norm]
  exact realRec_sound ρ e r hr ht hw

end Holpy.C05
