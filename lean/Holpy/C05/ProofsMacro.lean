import Holpy.C05.ProofsReal
/-
C05 — helper lemmas: the `eval` methods of the trusted macros.
-/
namespace Holpy.C05

/-- The value a Python number stands for at a numeric type. -/
def valAt : Ty → Num → Option Val
  | .nat, .int k => if 0 ≤ k then some (.n k.toNat) else none
  | .int, .int k => some (.i k)
  | .real, v => some (.q v.toRat)
  | _, _ => none

/-- `ev` computes the standard meaning at type `T`. -/
def EvSound (T : Ty) (ev : AExpr → Except Err Num) : Prop :=
  ∀ (ρ : Nat → Val) e v, ev e = .ok v → typeOf e = T → wt e = true →
    den ρ e = valAt T v ∧ (valAt T v).isSome = true

theorem evSound_nat : EvSound .nat natEvalNum := by
  intro ρ e v h ht hw
  unfold natEvalNum at h
  obtain ⟨n, hn, h⟩ := bind_ok h
  cases h
  simp [valAt, natEval_sound' ρ e n hn ht hw]

theorem evSound_int : EvSound .int intEval := by
  intro ρ e v h ht hw
  obtain ⟨k, rfl, hk⟩ := intEval_sound' ρ e v h ht hw
  simp [valAt, hk]

theorem evSound_real : EvSound .real realEval := by
  intro ρ e v h ht hw
  simp [valAt, realEval_sound' ρ e v h ht hw]

theorem evSound_evalHol : EvSound .real evalHol := by
  intro ρ e v h ht hw
  unfold evalHol at h
  split at h
  · rename_i w hw'
    cases h
    exact evSound_real ρ e _ hw' ht hw
  · cases h

theorem cmpHolds_rat (op : Cmp) (l r : Num) : cmpHolds op l r = cmpVal op l.toRat r.toRat := by
  cases op <;> rfl

theorem cmpVal_int_rat (op : Cmp) (x y : Int) : cmpVal op (x : Rat) (y : Rat) = cmpVal op x y := by
  cases op <;> simp [cmpVal, Rat.intCast_lt_intCast, Rat.intCast_le_intCast]

theorem cmpVal_nat_int (op : Cmp) (x y : Int) (hx : 0 ≤ x) (hy : 0 ≤ y) :
    cmpVal op x y = cmpVal op x.toNat y.toNat := by
  cases op <;> simp [cmpVal] <;> omega

/-- The typed meaning of a comparison whose sides evaluate to `l` and `r` is what Python decides. -/
theorem den_cmp_valAt (ρ : Nat → Val) (T : Ty) (op : Cmp) (a b : AExpr) (l r : Num)
    (ha : den ρ a = valAt T l) (hb : den ρ b = valAt T r)
    (hl : (valAt T l).isSome = true) (hr : (valAt T r).isSome = true) :
    den ρ (.cmp op T a b) = some (.b (cmpHolds op l r)) := by
  rw [cmpHolds_rat]
  cases T with
  | nat =>
    cases l with
    | frac q => simp [valAt] at hl
    | int x =>
      cases r with
      | frac q => simp [valAt] at hr
      | int y =>
        simp [valAt] at hl hr
        simp [valAt, hl, hr] at ha hb
        simp [den, ha, hb, cmpVal_int_rat, cmpVal_nat_int op x y hl hr]
  | int =>
    cases l with
    | frac q => simp [valAt] at hl
    | int x =>
      cases r with
      | frac q => simp [valAt] at hr
      | int y =>
        simp [valAt] at ha hb
        simp [den, ha, hb, cmpVal_int_rat]
  | real =>
    simp [valAt] at ha hb
    simp [den, ha, hb]
  | bool => simp [valAt] at hl
  | other => simp [valAt] at hl

theorem den_eq_valAt (ρ : Nat → Val) (T : Ty) (a b : AExpr) (l r : Num)
    (ha : den ρ a = valAt T l) (hb : den ρ b = valAt T r)
    (hl : (valAt T l).isSome = true) (hr : (valAt T r).isSome = true) :
    den ρ (.eq T a b) = some (.b (l.beq r)) := by
  cases T with
  | nat =>
    cases l with
    | frac q => simp [valAt] at hl
    | int x =>
      cases r with
      | frac q => simp [valAt] at hr
      | int y =>
        simp [valAt] at hl hr
        simp [valAt, hl, hr] at ha hb
        simp only [den, ha, hb, Num.beq, Num.toRat_int]
        congr 2
        rw [Bool.eq_iff_iff]
        simp
        omega
  | int =>
    cases l with
    | frac q => simp [valAt] at hl
    | int x =>
      cases r with
      | frac q => simp [valAt] at hr
      | int y =>
        simp [valAt] at ha hb
        simp only [den, ha, hb, Num.beq, Num.toRat_int]
        congr 2
        rw [Bool.eq_iff_iff]
        simp
  | real =>
    simp [valAt] at ha hb
    simp only [den, ha, hb, Num.beq]
    congr 2
  | bool => simp [valAt] at hl
  | other => simp [valAt] at hl

/-- What the type check of the checker gives for a relation between `a` and `b`. -/
theorem wt_eq_sides {T T0 : Ty} {a b : AExpr} (hw : wt (.eq T a b) = true) (ht : typeOf a = T0) :
    T = T0 ∧ wt a = true ∧ wt b = true ∧ typeOf b = T0 := by
  simp [wt] at hw
  obtain ⟨⟨⟨h1, h2⟩, h3⟩, h4⟩ := hw
  subst ht
  exact ⟨h3.symm, h1, h2, by rw [h4, h3]⟩

theorem wt_cmp_sides {op : Cmp} {T T0 : Ty} {a b : AExpr} (hw : wt (.cmp op T a b) = true)
    (ht : typeOf a = T0) : T = T0 ∧ wt a = true ∧ wt b = true ∧ typeOf b = T0 := by
  simp [wt] at hw
  obtain ⟨⟨⟨h1, h2⟩, h3⟩, h4⟩ := hw
  subst ht
  exact ⟨h3.symm, h1, h2, by rw [h4, h3]⟩


theorem evSound_natNum : EvSound .nat natEvalNum := evSound_nat

theorem checked_ok {m : AExpr → Except Err Thm} {goal : AExpr} {th : Thm}
    (h : checked m goal = .ok th) : m goal = .ok th ∧ wt th.prop = true ∧ typeOf th.prop = .bool := by
  unfold checked at h
  obtain ⟨t, ht, h⟩ := bind_ok h
  split at h
  · rename_i hc
    cases h
    simp at hc
    exact ⟨ht, hc.1, hc.2⟩
  · cases h

theorem wt_neg {g : AExpr} (h : wt (.neg g) = true) : wt g = true := by
  simp [wt] at h
  exact h.1

theorem den_neg (ρ : Nat → Val) (g : AExpr) (v : Bool) (h : den ρ g = some (.b v)) :
    den ρ (.neg g) = some (.b (!v)) := by
  simp [den, h]

theorem den_eq_bool_const (ρ : Nat → Val) (g : AExpr) (v c : Bool) (h : den ρ g = some (.b v)) :
    den ρ (.eq .bool g (if c = true then .tru else .fls)) = some (.b (decide (v = c))) := by
  cases c <;> simp [den, h]

theorem wt_eq_bool_left {g c : AExpr} (h : wt (.eq .bool g c) = true) : wt g = true := by
  simp [wt] at h
  exact h.1.1.1

/-- The shape part of the rejection half: a relation between two terms of type `T`. -/
def IsRelAt (T : Ty) (g : AExpr) : Prop :=
  (∃ a b, g = .eq T a b) ∨ (∃ op a b, g = .cmp op T a b)

/-- `int_const_ineq` / `real_const_ineq`: the result is the goal (stripped of one negation) or its
negation, whichever is true, and the goal is a relation between constants of type `T`. -/
theorem constIneqWith_sound (ρ : Nat → Val) (T : Ty) (ev : AExpr → Except Err Num)
    (hev : EvSound T ev) (goal : AExpr) (th : Thm)
    (h : checked (constIneqWith T ev) goal = .ok th) :
    (th.prop = stripNeg goal ∨ th.prop = .neg (stripNeg goal)) ∧ den ρ th.prop = some (.b true) ∧
      IsRelAt T (stripNeg goal) := by
  obtain ⟨hm, hw, _⟩ := checked_ok h
  simp only [constIneqWith] at hm
  generalize stripNeg goal = g at hm ⊢
  split at hm
  · rename_i T' a b
    split at hm
    · rename_i hc
      simp at hc
      obtain ⟨⟨_, _⟩, hty⟩ := hc
      obtain ⟨l, hl, hm⟩ := bind_ok hm
      obtain ⟨r, hr, hm⟩ := bind_ok hm
      split at hm
      · rename_i hb
        cases hm
        obtain ⟨rfl, hwa, hwb, htb⟩ := wt_eq_sides hw hty
        obtain ⟨da, sa⟩ := hev ρ a l hl hty hwa
        obtain ⟨db, sb⟩ := hev ρ b r hr htb hwb
        refine ⟨Or.inl rfl, ?_, Or.inl ⟨a, b, rfl⟩⟩
        rw [den_eq_valAt ρ _ a b l r da db sa sb, hb]
      · rename_i hb
        cases hm
        obtain ⟨rfl, hwa, hwb, htb⟩ := wt_eq_sides (wt_neg hw) hty
        obtain ⟨da, sa⟩ := hev ρ a l hl hty hwa
        obtain ⟨db, sb⟩ := hev ρ b r hr htb hwb
        refine ⟨Or.inr rfl, ?_, Or.inl ⟨a, b, rfl⟩⟩
        rw [den_neg ρ _ _ (den_eq_valAt ρ _ a b l r da db sa sb)]
        simp [hb]
    · cases hm
  · rename_i op T' a b
    split at hm
    · rename_i hc
      simp at hc
      obtain ⟨⟨_, _⟩, hty⟩ := hc
      obtain ⟨l, hl, hm⟩ := bind_ok hm
      obtain ⟨r, hr, hm⟩ := bind_ok hm
      split at hm
      · rename_i hb
        cases hm
        obtain ⟨rfl, hwa, hwb, htb⟩ := wt_cmp_sides hw hty
        obtain ⟨da, sa⟩ := hev ρ a l hl hty hwa
        obtain ⟨db, sb⟩ := hev ρ b r hr htb hwb
        refine ⟨Or.inl rfl, ?_, Or.inr ⟨op, a, b, rfl⟩⟩
        rw [den_cmp_valAt ρ _ op a b l r da db sa sb, hb]
      · rename_i hb
        cases hm
        obtain ⟨rfl, hwa, hwb, htb⟩ := wt_cmp_sides (wt_neg hw) hty
        obtain ⟨da, sa⟩ := hev ρ a l hl hty hwa
        obtain ⟨db, sb⟩ := hev ρ b r hr htb hwb
        refine ⟨Or.inr rfl, ?_, Or.inr ⟨op, a, b, rfl⟩⟩
        rw [den_neg ρ _ _ (den_cmp_valAt ρ _ op a b l r da db sa sb)]
        simp [hb]
    · cases hm
  · cases hm


/-- the type of the compared terms of an asserted statement (through `¬` and `⟷ true/false`) -/
def relType : AExpr → Option Ty
  | .eq .bool g .tru | .eq .bool g .fls => relType g
  | .neg g => relType g
  | .eq T _ _ => some T
  | .cmp _ T _ _ => some T
  | _ => none

theorem relType_stripNeg (goal : AExpr) : relType goal = relType (stripNeg goal) := by
  cases goal <;> simp [stripNeg, relType]


/-- The evaluator `const_inequality` picks is sound at the type it is picked for. -/
theorem ineqEvaluator_sound (T : Ty) (ev : AExpr → Except Err Num) (h : ineqEvaluator T = some ev) :
    EvSound T ev ∧ (T = .nat ∨ T = .real) := by
  cases T <;> simp [ineqEvaluator] at h
  · subst h; exact ⟨evSound_natNum, Or.inl rfl⟩
  · subst h; exact ⟨evSound_evalHol, Or.inr rfl⟩


/-- what `side1 REL side2` means for the values -/
def Rel.holds : Rel → Rat → Rat → Prop
  | .eq, x, y => x = y
  | .ne, x, y => x ≠ y
  | .cmp .lt, x, y => x < y
  | .cmp .le, x, y => x ≤ y
  | .cmp .gt, x, y => y < x
  | .cmp .ge, x, y => y ≤ x


end Holpy.C05
