import Holpy.C01.PropsAx
import Holpy.C01.TheoremProofs
/-
C01 over the whole theory `logic_base`: the `theorem` rule may cite ANY theorem the loader installs
for `library/logic_base.json` — the 20 axioms (`Gen.baseAxioms`, PropsAx.lean) and the 36 theorems
that carry a stored proof (`Gen.provedTheorems`).  The latter are proved valid here SEMANTICALLY,
statement by statement, in every finite standard model under every standard valuation (`StdBase`);
their stored proofs (which use macros) are not what this relies on.  Both lists are regenerated
from the library by the real loader on every run.
-/
namespace Holpy.C01
open Holpy

/-- Every theorem of `logic_base` that carries a stored proof is well-typed and valid in every
finite standard model under every standard valuation.  Independent of the order of the items in
the file; a changed, added or removed theorem breaks this. -/
theorem proved_theorems_good : ∀ p ∈ Gen.provedTheorems, GoodIn StdBase p.2 := by
  have hsub : ∀ p ∈ Gen.provedTheorems, p ∈ checkedTheorems := by decide
  exact fun p hp => checkedTheorems_good p (hsub p hp)

/-- non-vacuity: there are such theorems, `conjE` and `cond_elim_thm` among them -/
example : Gen.provedTheorems ≠ [] ∧ Gen.provedTheorems.lookup "conjE" = some Gen.thm_conjE ∧
    (Gen.provedTheorems.lookup "cond_elim_thm").isSome = true := by decide

/-- everything `get_theorem` can return for `logic_base` (axioms and proved theorems) is good -/
theorem theory_theorems_good : ∀ p ∈ Gen.theoryTheorems, GoodIn StdBase p.2 := by
  intro p hp
  rcases List.mem_append.1 hp with h | h
  · exact base_axioms_good p h
  · exact proved_theorems_good p h

example : Gen.theoryTheorems.length = Gen.baseAxioms.length + Gen.provedTheorems.length := by decide

/-- One checker step over `logic_base` (a primitive rule with any argument, `theorem` citing any
theorem of the theory by name, or `variable`; with or without a stated sequent): premises good ⇒
what the checker keeps is good. -/
theorem check_step_sound_thy (rule : String) (arg : ArgAx) (prems : List Thm)
    (stated : Option Thm) (th : Thm) (hp : ∀ p ∈ prems, GoodIn StdBase p)
    (h : checkStepSt Gen.theoryTheorems rule arg prems stated = .ok th) : GoodIn StdBase th :=
  checkStepSt_sound_in stdBase_closed Gen.theoryTheorems theory_theorems_good mkVAR_validIn rule arg
    prems stated th hp h

/-- Whenever the checker accepts a gap-free proof built from the primitive rules, `variable`
declarations and citations of ANY theorem of `logic_base`, every sequent in it is well-typed and
true in every finite standard model of the base logic. -/
theorem check_proof_sound_thy (steps : List StepAx) (res : List Thm)
    (h : runScriptAx Gen.theoryTheorems steps [] = .ok res) : ∀ th ∈ res, GoodIn StdBase th :=
  runScriptAx_sound_in stdBase_closed Gen.theoryTheorems theory_theorems_good mkVAR_validIn steps []
    res (fun _ h => by cases h) h

/-- `theorem conjE; theorem trivial; assume ?A ∧ ?B; implies_elim`: a script citing proved
theorems; the last sequent is `?A ∧ ?B ⊢ (?A ⟶ ?B ⟶ ?C) ⟶ ?C` -/
def demoThy : List StepAx :=
  [⟨"theorem", .name "conjE", [], none⟩, ⟨"theorem", .name "trivial", [], none⟩,
   ⟨"assume", .prim (.term (Term.mkConj (sB "A") (sB "B"))), [], none⟩,
   ⟨"implies_elim", .prim .none, [0, 2], none⟩]

example : (match runScriptAx Gen.theoryTheorems demoThy [] with
    | .ok ths => ths[3]? == some ⟨[Term.mkConj (sB "A") (sB "B")],
        Term.mkImplies (Term.mkImplies (sB "A") (Term.mkImplies (sB "B") (sB "C"))) (sB "C")⟩
    | .error _ => false) = true := by decide

example : ∀ ths, runScriptAx Gen.theoryTheorems demoThy [] = .ok ths → ∀ th ∈ ths, GoodIn StdBase th :=
  fun ths h => check_proof_sound_thy demoThy ths h

/-- the axioms-only checker does not know `conjE`; the theory checker does -/
example : isOk (runScriptAx Gen.baseAxioms [⟨"theorem", .name "conjE", [], none⟩] []) = false ∧
    isOk (runScriptAx Gen.theoryTheorems [⟨"theorem", .name "conjE", [], none⟩] []) = true := by decide

/-- No accepted proof over `logic_base` ends in `⊢ false`. -/
theorem no_false_thy (steps : List StepAx) (res : List Thm)
    (h : runScriptAx Gen.theoryTheorems steps [] = .ok res) : falseThm ∉ res := by
  intro hm
  exact falseThm_not_validIn ((check_proof_sound_thy steps res h _ hm).valid trivModel)

example : ∀ ths, runScriptAx Gen.theoryTheorems demoThy [] = .ok ths → falseThm ∉ ths :=
  fun ths h => no_false_thy demoThy ths h

end Holpy.C01
