import Holpy.Kernel.Wire
import Holpy.Kernel.Oracle
import Holpy.C01.GenAxioms
import Holpy.C01.GenLogicDefs
/-
Line protocol of the kernel model (C01; also used by C03):
  (rule NAME ARG (THM*))                      -> (ok THM) | (err KIND)        one checker step
  (ruleax NAME ARGX (THM*))                   -> (ok THM) | (err KIND)        one checker step over logic_base:
       ARGX = (name THEOREM-NAME) | (var NAME Ty) | ARG; rule `theorem` copies a stored theorem (GenAxioms: axioms ++
       proved theorems), rule `variable` is mk_VAR
  (ruleaxd NAME ARGX (THM*))                  -> as ruleax, over logic_base + the def equations of logic.json (GenLogicDefs)
  (rulest NAME ARGX (THM*) STATED)            -> the same with a stated sequent: STATED = (none) | THM
  (cex THM SPEC BUDGET SEED MAXCOST)          -> (valid N T|F) | (cex ((kind name Ty val)*)) | (skip WHY)
  (cexstd THM SPEC BUDGET SEED MAXCOST)       -> the same, over standard valuations of the base logic only
       SPEC = (((name size)*) ((name size)*) ((name size)*) default)   sizes of stvars / tvars / type constructors
  (aeq T1 T2) -> T|F            (gettype T) / (checktype T) -> (ok Ty) | (err KIND)
  (substtype ((n Ty)*) T) (incr K T) (substbound ABS T) (betaconv T) (betanorm FUEL T)
  (abstract T X) (occurs T X) (subst INST T)            -> (ok Term) | (err KIND) | T|F
-/
open Holpy Holpy.Wire

namespace Holpy.C01.Driver

def sizesOf (l : List Sexp) : Option (List (String × Nat)) :=
  l.mapM fun
    | .list [.atom n, s] => do some (n, ← s.toNat?)
    | _ => none

def specOf : Sexp → Option Oracle.Spec
  | .list [.list a, .list b, .list c, d] => do
    some ⟨← sizesOf a, ← sizesOf b, ← sizesOf c, ← d.toNat?⟩
  | _ => none

def okTerm : Except TErr Term → String
  | .ok t => toString (Sexp.list [.atom "ok", termTo t])
  | .error e => toString (Sexp.list [.atom "err", .atom (terrTo e)])

def okTy : Except TErr Ty → String
  | .ok t => toString (Sexp.list [.atom "ok", tyTo t])
  | .error e => toString (Sexp.list [.atom "err", .atom (terrTo e)])

/-- every theorem `logic_base` installs: what `get_theorem` can return -/
def theoryTheorems : List (String × Thm) := Holpy.C01.Gen.theoryTheorems

def argAxOf : Sexp → Option ArgAx
  | .list [.atom "name", .atom n] => some (.name n)
  | .list [.atom "var", .atom n, T] => do some (.var n (← tyOf T))
  | s => (argOf s).map .prim

def statedOf : Sexp → Option (Option Thm)
  | .list [.atom "none"] => some none
  | s => (thmOf s).map some

def verdictTo : Oracle.Verdict → String
  | .valid n ex => toString (Sexp.list [.atom "valid", Sexp.ofNat n, Sexp.ofBool ex])
  | .cex asg => toString (Sexp.list [.atom "cex", .list (asg.map fun (a, v) =>
      .list [Sexp.ofNat a.1, .atom a.2.1, tyTo a.2.2, Sexp.ofNat v])])
  | .skip w => toString (Sexp.list [.atom "skip", .atom (w.replace " " "_")])

def handle (line : String) : String :=
  match Sexp.parse line with
  | some (.list [.atom "ruleax", .atom name, arg, .list prems]) =>
    match argAxOf arg, prems.mapM thmOf with
    | some a, some ps =>
      match checkStepAx theoryTheorems name a ps with
      | .ok th => toString (Sexp.list [.atom "ok", thmTo th])
      | .error e => toString (Sexp.list [.atom "err", .atom (rerrTo e)])
    | _, _ => "bad-op"
  | some (.list [.atom "ruleaxd", .atom name, arg, .list prems]) =>
    match argAxOf arg, prems.mapM thmOf with
    | some a, some ps =>
      match checkStepSt (theoryTheorems ++ Holpy.C01.Gen.logicDefs) name a ps none with
      | .ok th => toString (Sexp.list [.atom "ok", thmTo th])
      | .error e => toString (Sexp.list [.atom "err", .atom (rerrTo e)])
    | _, _ => "bad-op"
  | some (.list [.atom "rulest", .atom name, arg, .list prems, stated]) =>
    match argAxOf arg, prems.mapM thmOf, statedOf stated with
    | some a, some ps, some st =>
      match checkStepSt theoryTheorems name a ps st with
      | .ok th => toString (Sexp.list [.atom "ok", thmTo th])
      | .error e => toString (Sexp.list [.atom "err", .atom (rerrTo e)])
    | _, _, _ => "bad-op"
  | some (.list [.atom "cexstd", th, spec, budget, seed, maxCost]) =>
    match thmOf th, specOf spec, budget.toNat?, seed.toNat?, maxCost.toNat? with
    | some t, some s, some b, some sd, some mc => verdictTo (Oracle.searchStd s.toModel t b sd mc)
    | _, _, _, _, _ => "bad-op"
  | some (.list [.atom "rule", .atom name, arg, .list prems]) =>
    match argOf arg, prems.mapM thmOf with
    | some a, some ps =>
      match checkStep name a ps with
      | .ok th => toString (Sexp.list [.atom "ok", thmTo th])
      | .error e => toString (Sexp.list [.atom "err", .atom (rerrTo e)])
    | _, _ => "bad-op"
  | some (.list [.atom "cex", th, spec, budget, seed, maxCost]) =>
    match thmOf th, specOf spec, budget.toNat?, seed.toNat?, maxCost.toNat? with
    | some t, some s, some b, some sd, some mc =>
      match Oracle.search s.toModel t b sd mc with
      | .valid n ex => toString (Sexp.list [.atom "valid", Sexp.ofNat n, Sexp.ofBool ex])
      | .cex asg => toString (Sexp.list [.atom "cex", .list (asg.map fun (a, v) =>
          .list [Sexp.ofNat a.1, .atom a.2.1, tyTo a.2.2, Sexp.ofNat v])])
      | .skip w => toString (Sexp.list [.atom "skip", .atom (w.replace " " "_")])
    | _, _, _, _, _ => "bad-op"
  | some (.list [.atom "aeq", a, b]) =>
    match termOf a, termOf b with
    | some x, some y => toString (Sexp.ofBool (Term.aeq x y))
    | _, _ => "bad-op"
  | some (.list [.atom "gettype", a]) =>
    match termOf a with
    | some x => okTy (Term.getType [] x)
    | none => "bad-op"
  | some (.list [.atom "checktype", a]) =>
    match termOf a with
    | some x => okTy (Term.checkedGetType [] x)
    | none => "bad-op"
  | some (.list [.atom "substtype", .list σ, a]) =>
    match tyInstOf σ, termOf a with
    | some s, some x => okTerm (.ok (Term.substType s x))
    | _, _ => "bad-op"
  | some (.list [.atom "incr", k, a]) =>
    match k.toNat?, termOf a with
    | some n, some x => okTerm (.ok (Term.incrBoundvars n x))
    | _, _ => "bad-op"
  | some (.list [.atom "substbound", a, b]) =>
    match termOf a, termOf b with
    | some x, some y => okTerm (Term.substBound x y)
    | _, _ => "bad-op"
  | some (.list [.atom "betaconv", a]) =>
    match termOf a with
    | some x => okTerm (Term.betaConv x)
    | none => "bad-op"
  | some (.list [.atom "betanorm", k, a]) =>
    match k.toNat?, termOf a with
    | some n, some x => okTerm (Term.betaNorm n x)
    | _, _ => "bad-op"
  | some (.list [.atom "abstract", a, b]) =>
    match termOf a, termOf b with
    | some x, some y => okTerm (Term.abstractOver x y)
    | _, _ => "bad-op"
  | some (.list [.atom "occurs", a, b]) =>
    match termOf a, termOf b with
    | some x, some y => toString (Sexp.ofBool (Term.occursVar y x))
    | _, _ => "bad-op"
  | some (.list [.atom "subst", i, a]) =>
    match argOf i, termOf a with
    | some (.inst ins), some x =>
      match Term.subst ins x with
      | .ok (t, _) => okTerm (.ok t)
      | .error e => okTerm (.error e)
    | _, _ => "bad-op"
  | _ => "bad-op"

end Holpy.C01.Driver

def main : IO Unit := Holpy.lineLoop Holpy.C01.Driver.handle
