import Holpy.Kernel.Wire
import Holpy.Kernel.Oracle
import Holpy.C01.GenAxioms
import Holpy.C01.GenLogicDefs
import Holpy.C01.E2E
/-
Line protocol of the kernel model (C01; also used by C03):
  (rule NAME ARG (THM*))                      -> (ok THM) | (err KIND)        one checker step
  (ruleax NAME ARGX (THM*))                   -> (ok THM) | (err KIND)        one checker step over logic_base:
       ARGX = (name THEOREM-NAME) | (var NAME Ty) | ARG; rule `theorem` copies a stored theorem (GenAxioms: axioms ++
       proved theorems), rule `variable` is mk_VAR
  (ruleaxd NAME ARGX (THM*))                  -> as ruleax, over logic_base + the def equations of logic.json (GenLogicDefs)
  (rulest NAME ARGX (THM*) STATED)            -> the same with a stated sequent: STATED = (none) | THM
  (cex THM SPEC BUDGET SEED MAXCOST)          -> (valid N T|F) | (cex ((kind name Ty val)*)) | (skip WHY)
  (cexstd THM SPEC BUDGET SEED MAXCOST)       -> the same, over standard valuations of the base logic only
       SPEC = (((name size)*) ((name size)*) ((name size)*) default)   sizes of stvars / tvars / type constructors
  (aeq T1 T2) -> T|F            (gettype T) / (checktype T) -> (ok Ty) | (err KIND)
  (substtype ((n Ty)*) T) (incr K T) (substbound ABS T) (betaconv T) (betanorm FUEL T)
  (abstract T X) (occurs T X) (subst INST T)            -> (ok Term) | (err KIND) | T|F
  (nested (ITEM*))  -> (ok RES SAME (THM*)) | (err)   C02's checker model over the real rule layer (E2E.lean),
       no_gaps, not compute_only; ITEM = (item (INT*) RULE ARGX ((INT*)*) STATED SUB), RULE an atom (`_empty_` = "",
       `_gap_` = the gap rule), SUB = (none) | (sub ITEM*); RES = (none) | THM the returned theorem, THM* the statements
       stored in the proof object afterwards (document order, names erased), SAME = T iff the run with the premise
       re-test (`rulesG`) accepts/refuses alike with the same returned theorem
-/
open Holpy Holpy.Wire

namespace Holpy.C01.Driver

def sizesOf (l : List Sexp) : Option (List (String × Nat)) :=
  l.mapM fun
    | .list [.atom n, s] => do some (n, ← s.toNat?)
    | _ => none

def specOf : Sexp → Option Oracle.Spec
  | .list [.list a, .list b, .list c, d] => do
    some ⟨← sizesOf a, ← sizesOf b, ← sizesOf c, ← d.toNat?⟩
  | _ => none

def okTerm : Except TErr Term → String
  | .ok t => toString (Sexp.list [.atom "ok", termTo t])
  | .error e => toString (Sexp.list [.atom "err", .atom (terrTo e)])

def okTy : Except TErr Ty → String
  | .ok t => toString (Sexp.list [.atom "ok", tyTo t])
  | .error e => toString (Sexp.list [.atom "err", .atom (terrTo e)])

/-- every theorem `logic_base` installs: what `get_theorem` can return -/
def theoryTheorems : List (String × Thm) := Holpy.C01.Gen.theoryTheorems

def argAxOf : Sexp → Option ArgAx
  | .list [.atom "name", .atom n] => some (.name n)
  | .list [.atom "var", .atom n, T] => do some (.var n (← tyOf T))
  | s => (argOf s).map .prim

def statedOf : Sexp → Option (Option Thm)
  | .list [.atom "none"] => some none
  | s => (thmOf s).map some

def intsOf (s : Sexp) : Option (List Int) := do (← s.toList?).mapM Sexp.toInt?

partial def itemOf : Sexp → Option Holpy.C01.E2E.TItem
  | .list [.atom "item", id, .atom rule, arg, .list prevs, stated, sub] => do
    let r := if rule == "_empty_" then "" else if rule == "_gap_" then Holpy.C02.gapRule else rule
    let sb ← match sub with
      | .list [.atom "none"] => some none
      | .list (.atom "sub" :: its) => (its.mapM itemOf).map some
      | _ => none
    some ⟨← intsOf id, r, ← argAxOf arg, ← prevs.mapM intsOf, ← statedOf stated, sb⟩
  | _ => none

/-- decoded terms carry no bound names; the wire format needs a non-empty atom -/
def fixNames : Term → Term
  | .comb f a => .comb (fixNames f) (fixNames a)
  | .abs _ T b => .abs "_" T (fixNames b)
  | t => t

def thmToE (th : Thm) : Sexp := thmTo ⟨th.hyps.map fixNames, fixNames th.prop⟩

partial def storedThs (its : List Holpy.C02.Item) : List Sexp :=
  its.foldr (fun it acc =>
    let here := match it.th with
      | some s => match Holpy.C01.E2E.decSeq s with
        | some th => [thmToE th]
        | none => [Sexp.atom "undecodable"]
      | none => []
    let below := match it.sub with
      | some l => storedThs l
      | none => []
    here ++ below ++ acc) []

def seqTo (s : Option Holpy.C02.Seq) : Sexp :=
  match s with
  | none => .list [.atom "none"]
  | some q => match Holpy.C01.E2E.decSeq q with
    | some th => thmToE th
    | none => .atom "undecodable"

def nestedRun (its : List Holpy.C01.E2E.TItem) : String :=
  let prf := its.map Holpy.C01.E2E.encItem
  let cfg : Holpy.C02.Cfg := ⟨true, false, 0⟩
  let r1 := Holpy.C02.checkProof (Holpy.C01.E2E.rules theoryTheorems) cfg 64 prf
  let r2 := Holpy.C02.checkProof (Holpy.C01.E2E.rulesG theoryTheorems) cfg 64 prf
  match r1 with
  | .ok res =>
    let same := match r2 with
      | .ok res2 => res2.th == res.th
      | .error _ => false
    toString (Sexp.list [.atom "ok", seqTo res.th, Sexp.ofBool same, .list (storedThs res.root)])
  | .error _ =>
    match r2 with
    | .error _ => "(err)"
    | .ok _ => "(err guard-differs)"

def verdictTo : Oracle.Verdict → String
  | .valid n ex => toString (Sexp.list [.atom "valid", Sexp.ofNat n, Sexp.ofBool ex])
  | .cex asg => toString (Sexp.list [.atom "cex", .list (asg.map fun (a, v) =>
      .list [Sexp.ofNat a.1, .atom a.2.1, tyTo a.2.2, Sexp.ofNat v])])
  | .skip w => toString (Sexp.list [.atom "skip", .atom (w.replace " " "_")])

def handle (line : String) : String :=
  match Sexp.parse line with
  | some (.list [.atom "nested", .list its]) =>
    match its.mapM itemOf with
    | some l => nestedRun l
    | none => "bad-op"
  | some (.list [.atom "ruleax", .atom name, arg, .list prems]) =>
    match argAxOf arg, prems.mapM thmOf with
    | some a, some ps =>
      match checkStepAx theoryTheorems name a ps with
      | .ok th => toString (Sexp.list [.atom "ok", thmTo th])
      | .error e => toString (Sexp.list [.atom "err", .atom (rerrTo e)])
    | _, _ => "bad-op"
  | some (.list [.atom "ruleaxd", .atom name, arg, .list prems]) =>
    match argAxOf arg, prems.mapM thmOf with
    | some a, some ps =>
      match checkStepSt (theoryTheorems ++ Holpy.C01.Gen.logicDefs) name a ps none with
      | .ok th => toString (Sexp.list [.atom "ok", thmTo th])
      | .error e => toString (Sexp.list [.atom "err", .atom (rerrTo e)])
    | _, _ => "bad-op"
  | some (.list [.atom "rulest", .atom name, arg, .list prems, stated]) =>
    match argAxOf arg, prems.mapM thmOf, statedOf stated with
    | some a, some ps, some st =>
      match checkStepSt theoryTheorems name a ps st with
      | .ok th => toString (Sexp.list [.atom "ok", thmTo th])
      | .error e => toString (Sexp.list [.atom "err", .atom (rerrTo e)])
    | _, _, _ => "bad-op"
  | some (.list [.atom "cexstd", th, spec, budget, seed, maxCost]) =>
    match thmOf th, specOf spec, budget.toNat?, seed.toNat?, maxCost.toNat? with
    | some t, some s, some b, some sd, some mc => verdictTo (Oracle.searchStd s.toModel t b sd mc)
    | _, _, _, _, _ => "bad-op"
  | some (.list [.atom "rule", .atom name, arg, .list prems]) =>
    match argOf arg, prems.mapM thmOf with
    | some a, some ps =>
      match checkStep name a ps with
      | .ok th => toString (Sexp.list [.atom "ok", thmTo th])
      | .error e => toString (Sexp.list [.atom "err", .atom (rerrTo e)])
    | _, _ => "bad-op"
  | some (.list [.atom "cex", th, spec, budget, seed, maxCost]) =>
    match thmOf th, specOf spec, budget.toNat?, seed.toNat?, maxCost.toNat? with
    | some t, some s, some b, some sd, some mc =>
      match Oracle.search s.toModel t b sd mc with
      | .valid n ex => toString (Sexp.list [.atom "valid", Sexp.ofNat n, Sexp.ofBool ex])
      | .cex asg => toString (Sexp.list [.atom "cex", .list (asg.map fun (a, v) =>
          .list [Sexp.ofNat a.1, .atom a.2.1, tyTo a.2.2, Sexp.ofNat v])])
      | .skip w => toString (Sexp.list [.atom "skip", .atom (w.replace " " "_")])
    | _, _, _, _, _ => "bad-op"
  | some (.list [.atom "aeq", a, b]) =>
    match termOf a, termOf b with
    | some x, some y => toString (Sexp.ofBool (Term.aeq x y))
    | _, _ => "bad-op"
  | some (.list [.atom "gettype", a]) =>
    match termOf a with
    | some x => okTy (Term.getType [] x)
    | none => "bad-op"
  | some (.list [.atom "checktype", a]) =>
    match termOf a with
    | some x => okTy (Term.checkedGetType [] x)
    | none => "bad-op"
  | some (.list [.atom "substtype", .list σ, a]) =>
    match tyInstOf σ, termOf a with
    | some s, some x => okTerm (.ok (Term.substType s x))
    | _, _ => "bad-op"
  | some (.list [.atom "incr", k, a]) =>
    match k.toNat?, termOf a with
    | some n, some x => okTerm (.ok (Term.incrBoundvars n x))
    | _, _ => "bad-op"
  | some (.list [.atom "substbound", a, b]) =>
    match termOf a, termOf b with
    | some x, some y => okTerm (Term.substBound x y)
    | _, _ => "bad-op"
  | some (.list [.atom "betaconv", a]) =>
    match termOf a with
    | some x => okTerm (Term.betaConv x)
    | none => "bad-op"
  | some (.list [.atom "betanorm", k, a]) =>
    match k.toNat?, termOf a with
    | some n, some x => okTerm (Term.betaNorm n x)
    | _, _ => "bad-op"
  | some (.list [.atom "abstract", a, b]) =>
    match termOf a, termOf b with
    | some x, some y => okTerm (Term.abstractOver x y)
    | _, _ => "bad-op"
  | some (.list [.atom "occurs", a, b]) =>
    match termOf a, termOf b with
    | some x, some y => toString (Sexp.ofBool (Term.occursVar y x))
    | _, _ => "bad-op"
  | some (.list [.atom "subst", i, a]) =>
    match argOf i, termOf a with
    | some (.inst ins), some x =>
      match Term.subst ins x with
      | .ok (t, _) => okTerm (.ok t)
      | .error e => okTerm (.error e)
    | _, _ => "bad-op"
  | _ => "bad-op"

end Holpy.C01.Driver

def main : IO Unit := Holpy.lineLoop Holpy.C01.Driver.handle
