import Holpy.C01.PropsThy
import Holpy.C01.DefsLogic
/-
C01 over definitional extensions of `logic_base`: a theory that adds, to the theorems of
`logic_base`, a list `defs` of definitional equations (`def` items: `c x1 … xn = rhs`, installed by
the loader as theorems `c_def`).  A script that cites them is sound for every standard valuation of
the base logic whose constants satisfy the equations in the model and in all its type instances
(`DefsHold`, Kernel/DefsClass.lean).  That such valuations EXIST in every model is what makes the
statement meaningful: it is proved here for the definitions of `library/logic.json` (`Let`, `xor`;
regenerated through the real loader) by giving the constants the values their definitions describe.
For an arbitrary definition accepted by `Definition.parse`, existence of a value of the new constant
per model is C11 (`def_conservative_poly`); combining it with `DefsHold` (one valuation whose type
instances all satisfy the equation) is not done — see the `_partial` note below.
-/
namespace Holpy.C01
open Holpy

/-- standard valuations of the base logic under which the equations `defs` hold -/
def StdDefs (defs : List (String × Thm)) (M : Model) (ρ : Valuation) : Prop :=
  StdBase M ρ ∧ DefsHold defs M ρ

/-- Whenever the checker accepts a gap-free proof over `logic_base` extended by the definitional
equations `defs` (each without hypotheses and passing `check_thm_type`; cited through `theorem`),
every sequent in it is well-typed and true in every finite standard model of the base logic under
every standard valuation whose constants satisfy the definitions.  PARTIAL: that the class
`StdDefs defs` is non-empty is a hypothesis-free theorem only for the definitions of logic.json
(`logic_defs_inhabited`); for an arbitrary list accepted by C11's `defOK` it is not derived here. -/
theorem check_proof_sound_over_defs_partial (defs : List (String × Thm))
    (hwt : ∀ d ∈ defs, Thm.checkThmTypeSig d.2 = true) (steps : List StepAx) (res : List Thm)
    (h : runScriptAx (Gen.theoryTheorems ++ defs) steps [] = .ok res) :
    ∀ th ∈ res, GoodIn (StdDefs defs) th :=
  runScriptAx_sound_over_defs stdBase_closed Gen.theoryTheorems theory_theorems_good mkVAR_validIn
    defs hwt steps res h

/-- the definitional equations of logic.json pass `check_thm_type` -/
theorem logic_defs_welltyped : ∀ d ∈ Gen.logicDefs, Thm.checkThmTypeSig d.2 = true := by decide

/-- In every model there is an admissible standard valuation of the base logic under which the
definitions of logic.json (`Let s f = f s`, `xor A B ⟷ A ∧ ¬B ∨ ¬A ∧ B`) hold at every type
instance: the class `StdDefs Gen.logicDefs` is never empty. -/
theorem logic_defs_inhabited (M : Model) : ∃ ρ, Admissible M ρ ∧ StdDefs Gen.logicDefs M ρ :=
  ⟨logicVal M, logicVal_admissible M, logicVal_stdBase M,
    stdLogicDefs_hold (logicVal_admissible M) (logicVal_stdBase M) (logicVal_stdLogicDefs M)⟩

/-- Scripts over `logic_base` + the definitions of logic.json: every accepted sequent is valid in
every finite standard model under every standard valuation satisfying `Let_def` and `xor_def`. -/
theorem check_proof_sound_logic_defs (steps : List StepAx) (res : List Thm)
    (h : runScriptAx (Gen.theoryTheorems ++ Gen.logicDefs) steps [] = .ok res) :
    ∀ th ∈ res, GoodIn (StdDefs Gen.logicDefs) th :=
  check_proof_sound_over_defs_partial Gen.logicDefs logic_defs_welltyped steps res h

/-- and none of them is `⊢ false` -/
theorem no_false_logic_defs (steps : List StepAx) (res : List Thm)
    (h : runScriptAx (Gen.theoryTheorems ++ Gen.logicDefs) steps [] = .ok res) : falseThm ∉ res := by
  intro hm
  have hv := (check_proof_sound_logic_defs steps res h _ hm).valid trivModel
  obtain ⟨ρ, hρ, hc⟩ := logic_defs_inhabited trivModel
  have h1 := hv ρ hρ hc (fun _ hm => by cases hm)
  have h2 : sem trivModel ρ [] [] falseThm.prop = 0 := sem_falseC hc.1 [] []
  unfold holds at h1
  omega

/-- `theorem xor_def; theorem Let_def; theorem conjE`: the extended theory knows the definitions,
`logic_base` alone does not -/
def demoDefs : List StepAx :=
  [⟨"theorem", .name "xor_def", [], none⟩, ⟨"theorem", .name "Let_def", [], none⟩,
   ⟨"theorem", .name "conjE", [], none⟩]

example : (match runScriptAx (Gen.theoryTheorems ++ Gen.logicDefs) demoDefs [] with
    | .ok ths => ths == [Gen.def_xor_def, Gen.def_Let_def, Gen.thm_conjE]
    | .error _ => false) = true := by decide

example : isOk (runScriptAx Gen.theoryTheorems demoDefs []) = false := by decide

example : ∀ ths, runScriptAx (Gen.theoryTheorems ++ Gen.logicDefs) demoDefs [] = .ok ths →
    (∀ th ∈ ths, GoodIn (StdDefs Gen.logicDefs) th) ∧ falseThm ∉ ths :=
  fun ths h => ⟨check_proof_sound_logic_defs demoDefs ths h, no_false_logic_defs demoDefs ths h⟩

end Holpy.C01
