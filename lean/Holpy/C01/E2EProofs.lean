import Holpy.C01.E2E
import Holpy.C01.CodecProofs
import Holpy.Kernel.SoundnessIn
import Holpy.C02.Props
/-
Soundness of C02's checker model over the real rule layer (E2E.lean): every `Justified` sequent of
the layer `rulesG axs` decodes to a sequent that is valid for the class `C` as soon as it passes
`check_thm_type`.
-/
namespace Holpy.C01.E2E
open Holpy Holpy.C01.Codec

def eraseThm (th : Thm) : Thm := ⟨th.hyps.map Term.erase, Term.erase th.prop⟩

theorem erase_erase (t : Term) : Term.erase (Term.erase t) = Term.erase t := by
  induction t with
  | comb f a ihf iha => simp [Term.erase, ihf, iha]
  | abs x T b ih => simp [Term.erase, ih]
  | _ => simp [Term.erase]

theorem aeq_erase (t : Term) : Term.aeq t (Term.erase t) = true := by
  rw [Term.aeq_iff_erase, erase_erase]

theorem decList_enc (l : List Term) : decList (l.map encTerm) = some (l.map Term.erase) := by
  induction l with
  | nil => rfl
  | cons t l ih => simp only [List.map_cons, decList, decTerm_encTerm, ih]

theorem decSeq_encThm (th : Thm) : decSeq (encThm th) = some (eraseThm th) := by
  simp only [decSeq, encThm, decList_enc, decTerm_encTerm, eraseThm]

theorem canProve_eraseThm (th : Thm) : Thm.canProve th (eraseThm th) = true := by
  rw [Thm.canProve_iff]
  refine ⟨aeq_erase _, fun h hm => ⟨Term.erase h, ?_, aeq_erase h⟩⟩
  simp only [eraseThm, List.mem_map]
  exact ⟨h, hm, rfl⟩

variable {C : Model → Valuation → Prop}

/-- what the soundness induction carries for a sequent of codes -/
def SeqGood (C : Model → Valuation → Prop) (s : Seq) : Prop :=
  ∀ th, decSeq s = some th → Thm.checkThmTypeSig th = true → GoodIn C th

theorem seqGood_enc (th : Thm) (h : Thm.checkThmTypeSig th = true → GoodIn C th) :
    SeqGood C (encThm th) := by
  intro th' hd hwt
  rw [decSeq_encThm] at hd
  cases hd
  have hc := canProve_eraseThm th
  exact canProve_good th _ hc hwt (h (canProve_wt th _ hc hwt))

theorem decList_mem {l : List Nat} {ts : List Term} (h : decList l = some ts) :
    ∀ x ∈ l, ∃ t ∈ ts, decTerm x = some t := by
  induction l generalizing ts with
  | nil => intro x hx; cases hx
  | cons n r ih =>
    simp only [decList] at h
    split at h
    · rename_i t ts' h1 h2
      cases h
      intro x hx
      rcases List.mem_cons.1 hx with rfl | hx
      · exact ⟨t, by simp, h1⟩
      · obtain ⟨t', ht', hd⟩ := ih h2 x hx
        exact ⟨t', by simp [ht'], hd⟩
    · cases h

theorem decList_sub {l : List Nat} {ts : List Term}
    (h : ∀ x ∈ l, ∃ t ∈ ts, decTerm x = some t) :
    ∃ ts', decList l = some ts' ∧ ∀ t' ∈ ts', t' ∈ ts := by
  induction l with
  | nil => exact ⟨[], rfl, fun _ h => by cases h⟩
  | cons n r ih =>
    obtain ⟨t, ht, hd⟩ := h n (by simp)
    obtain ⟨ts', hts', hsub⟩ := ih (fun x hx => h x (by simp [hx]))
    refine ⟨t :: ts', by simp only [decList, hd, hts'], ?_⟩
    intro t' ht'
    rcases List.mem_cons.1 ht' with rfl | ht'
    · exact ht
    · exact hsub t' ht'

/-- C02's `can_prove` on codes, decoded -/
theorem canProve_dec {q p : Seq} {thp : Thm} (hc : Holpy.C02.canProve q p = true)
    (hp : decSeq p = some thp) : ∃ thq, decSeq q = some thq ∧ Thm.canProve thq thp = true := by
  obtain ⟨h1, h2⟩ := (Holpy.C02.canProve_iff q p).1 hc
  simp only [decSeq] at hp
  split at hp
  · rename_i hs pr hh hpr
    cases hp
    obtain ⟨ts', hts', hsub⟩ := decList_sub (l := q.hyps) (ts := hs)
      (fun x hx => decList_mem hh x (h2 x hx))
    refine ⟨⟨ts', pr⟩, by simp only [decSeq, hts', h1, hpr], ?_⟩
    rw [Thm.canProve_iff]
    exact ⟨Term.aeq_refl _, fun h hm => ⟨h, hsub h hm, Term.aeq_refl _⟩⟩
  · cases hp

theorem seqGood_weaken {q p : Seq} (hq : SeqGood C q) (hc : Holpy.C02.canProve q p = true) :
    SeqGood C p := by
  intro thp hp hwt
  obtain ⟨thq, hdq, hcq⟩ := canProve_dec hc hp
  exact canProve_good thq thp hcq hwt (hq thq hdq (canProve_wt thq thp hcq hwt))

theorem prems_good {qs ps : List Seq} (hw : Holpy.C02.Weakens qs ps)
    (hq : ∀ q ∈ qs, SeqGood C q) :
    ∀ prems, ps.all typeOk = true → decSeqs ps = some prems → ∀ p ∈ prems, GoodIn C p := by
  induction hw with
  | nil =>
    intro prems _ hd
    simp only [decSeqs] at hd
    cases hd
    intro p hp; cases hp
  | @cons q p qs ps hc _ ih =>
    intro prems hall hd
    simp only [decSeqs] at hd
    split at hd
    · rename_i th ths h1 h2
      cases hd
      simp only [List.all_cons, Bool.and_eq_true] at hall
      have hwt : Thm.checkThmTypeSig th = true := by
        have := hall.1
        simp only [typeOk, h1] at this
        exact this
      intro x hx
      rcases List.mem_cons.1 hx with rfl | hx
      · exact seqGood_weaken (hq q (by simp)) hc x h1 hwt
      · exact ih (fun q' hq' => hq q' (by simp [hq'])) ths hall.2 h2 x hx
    · cases hd

theorem justified_good (hcl : ClosedClass C) (axs : List (String × Thm))
    (hax : ∀ p ∈ axs, GoodIn C p.2) (hvar : ∀ n T M, ValidIn C M (Thm.mkVAR n T))
    {s : Seq} (h : Holpy.C02.Justified (rulesG axs) (fun _ => False) s) : SeqGood C s := by
  induction h with
  | gap h => exact h.elim
  | thm h =>
    rename_i a s
    simp only [rulesG, rules, thmRule] at h
    split at h
    · rename_i nm _
      split at h
      · rename_i th hl
        cases h
        exact seqGood_enc th (fun _ => hax (nm, th) (mem_of_lookup_eq_some axs nm th hl))
      · cases h
    · cases h
  | var h =>
    simp only [rulesG, rules, varRule] at h
    split at h
    · rename_i n T _
      cases h
      exact seqGood_enc _ (fun hwt => ⟨hwt, hvar n T⟩)
    · cases h
  | prim hq hw h ih =>
    rename_i r a qs ps s
    simp only [rulesG, rules] at h
    split at h
    · rename_i hall
      simp only [primRule] at h
      split at h
      · cases h
      · rename_i prems hd
        split at h
        · rename_i arg _
          split at h
          · rename_i th hr
            cases h
            exact seqGood_enc th (fun hwt =>
              applyRule_sound_in hcl r arg prems th (prems_good hw ih prems hall hd) hr hwt)
          · cases h
        · cases h
    · cases h
  | eval hq hw h ih =>
    simp only [rulesG, rules] at h
    cases h

/-- the composed checker: an accepted `no_gaps` run over the real rule layer -/
theorem checkProof_good (hcl : ClosedClass C) (axs : List (String × Thm))
    (hax : ∀ p ∈ axs, GoodIn C p.2) (hvar : ∀ n T M, ValidIn C M (Thm.mkVAR n T))
    (lvl fuel : Nat) (prf : List Holpy.C02.Item) (res : Holpy.C02.Res)
    (h : Holpy.C02.checkProof (rulesG axs) ⟨true, false, lvl⟩ fuel prf = .ok res) :
    (∀ e ∈ res.trace, SeqGood C e.th) ∧ (∀ s, res.th = some s → SeqGood C s) := by
  have hj := Holpy.C02.no_gaps_justified (rulesG axs) ⟨true, false, lvl⟩ fuel prf res rfl rfl h
  constructor
  · intro e he
    obtain ⟨r, hr, hc⟩ := hj.1 e he
    exact seqGood_weaken (justified_good hcl axs hax hvar hr) hc
  · intro s hs
    obtain ⟨r, hr, hc⟩ := hj.2 s hs
    exact seqGood_weaken (justified_good hcl axs hax hvar hr) hc

end Holpy.C01.E2E
