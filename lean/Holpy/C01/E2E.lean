import Holpy.C01.Codec
import Holpy.C02.Model
/-
C01 end-to-end — C02's abstract rule layer instantiated with the kernel model.

C02's checker model (`Holpy.C02.checkItem/checkProof`: subproof blocks, ids, citations through
`find_item`, stated sequents, gaps) is parametric in a rule layer over sequents of opaque
propositions (`Nat`).  `rules axs` is that layer for the REAL rules: propositions are the codes of
name-erased terms (Codec.lean), `prim` is `applyRule` (the 15 primitive rules), `thm` is
`get_theorem` over the theorems `axs`, `var` is `mk_VAR`, `typeOk` is `check_thm_type`.  No macros.
Import-free and executable: `C02.checkProof (rules axs)` is run by the driver against the real
`check_proof` on nested proofs.
-/
namespace Holpy.C01.E2E
open Holpy Holpy.C01.Codec

abbrev CArg := Holpy.C02.Arg
abbrev Seq := Holpy.C02.Seq

def encThm (th : Thm) : Seq := ⟨th.hyps.map encTerm, encTerm th.prop⟩

def decList : List Nat → Option (List Term)
  | [] => some []
  | n :: r =>
    match decTerm n, decList r with
    | some t, some ts => some (t :: ts)
    | _, _ => none

def decSeq (s : Seq) : Option Thm :=
  match decList s.hyps, decTerm s.concl with
  | some hs, some p => some ⟨hs, p⟩
  | _, _ => none

def decSeqs : List Seq → Option (List Thm)
  | [] => some []
  | s :: r =>
    match decSeq s, decSeqs r with
    | some th, some ths => some (th :: ths)
    | _, _ => none

/-! ### arguments (`seq.args`) as C02's opaque `Arg` -/

def encTyInst (σ : Ty.TyInst) : CArg := .list (σ.map fun p => .list [.str p.1, .num (Int.ofNat (encTy p.2))])
def encTermMap (m : List (String × Term)) : CArg :=
  .list (m.map fun p => .list [.str p.1, .num (Int.ofNat (encTerm p.2))])

def encArg : ArgAx → CArg
  | .prim .none => .none
  | .prim (.term t) => .list [.num 1, .num (Int.ofNat (encTerm t))]
  | .prim (.tyinst σ) => .list [.num 2, encTyInst σ]
  | .prim (.inst i) => .list [.num 3, encTyInst i.tyinst, encTermMap i.svars, encTermMap i.vars]
  | .prim .other => .num 0
  | .name s => .str s
  | .var n T => .list [.num 4, .str n, .num (Int.ofNat (encTy T))]

def decTyInst : List CArg → Option Ty.TyInst
  | [] => some []
  | .list [.str n, .num c] :: r =>
    match decTy c.toNat, decTyInst r with
    | some T, some σ => some ((n, T) :: σ)
    | _, _ => none
  | _ => none

def decTermMap : List CArg → Option (List (String × Term))
  | [] => some []
  | .list [.str n, .num c] :: r =>
    match decTerm c.toNat, decTermMap r with
    | some t, some m => some ((n, t) :: m)
    | _, _ => none
  | _ => none

/-- anything that is not the code of an argument is an argument no rule accepts -/
def decArg : CArg → ArgAx
  | .none => .prim .none
  | .str s => .name s
  | .list [.num 1, .num c] =>
    match decTerm c.toNat with
    | some t => .prim (.term t)
    | none => .prim .other
  | .list [.num 2, .list l] =>
    match decTyInst l with
    | some σ => .prim (.tyinst σ)
    | none => .prim .other
  | .list [.num 3, .list a, .list b, .list c] =>
    match decTyInst a, decTermMap b, decTermMap c with
    | some σ, some sv, some vs => .prim (.inst ⟨σ, sv, vs⟩)
    | _, _, _ => .prim .other
  | .list [.num 4, .str n, .num c] =>
    match decTy c.toNat with
    | some T => .var n T
    | none => .prim .other
  | _ => .prim .other

/-! ### the rule layer -/

def primNames : List String :=
  ["assume", "implies_intr", "implies_elim", "reflexive", "symmetric", "transitive",
   "combination", "equal_intr", "equal_elim", "subst_type", "substitution", "beta_conv",
   "abstraction", "forall_intr", "forall_elim"]

/-- how `_check_proof_item` sees the exceptions of a primitive rule -/
def ruleErr : RErr → Holpy.C02.RuleErr
  | .invalid => .invalidDerivation
  | .badInput => .typeError
  | _ => .other 0

def thmRule (axs : List (String × Thm)) (a : CArg) : Except Holpy.C02.RuleErr Seq :=
  match decArg a with
  | .name s =>
    match axs.lookup s with
    | some th => .ok (encThm th)
    | none => .error .theory
  | _ => .error .theory

def varRule (a : CArg) : Except Holpy.C02.RuleErr Seq :=
  match decArg a with
  | .var n T => .ok (encThm (Thm.mkVAR n T))
  | _ => .error (.other 0)

def primRule (r : String) (a : CArg) (ps : List Seq) : Except Holpy.C02.RuleErr Seq :=
  match decSeqs ps with
  | none => .error (.other 1)
  | some prems =>
    match decArg a with
    | .prim arg =>
      match applyRule r arg prems with
      | .ok th => .ok (encThm th)
      | .error e => .error (ruleErr e)
    | _ => .error .typeError

def typeOk (s : Seq) : Bool :=
  match decSeq s with
  | some th => Thm.checkThmTypeSig th
  | none => false

/-- C02's rule layer over the real rules and the theorems `axs` -/
def rules (axs : List (String × Thm)) : Holpy.C02.Rules where
  kind r := if primNames.contains r then .prim else .unknown
  thm := thmRule axs
  var := varRule
  primSig _ _ := true
  prim := primRule
  eval _ _ _ := .error (.other 2)
  expand _ _ _ _ := .error (.other 2)
  typeOk := typeOk

/-- the same layer with one extra test: a primitive rule refuses premises that do not pass
`check_thm_type`.  In a `no_gaps`, not `compute_only` run every citable statement was stored after
`check_thm_type`, so the test never fires there (compared on every run; not proved). -/
def rulesG (axs : List (String × Thm)) : Holpy.C02.Rules :=
  { rules axs with
    prim := fun r a ps => if ps.all typeOk then primRule r a ps else .error (.other 3) }

/-! ### proof objects -/

/-- a proof item as the harness sends it (terms, not codes) -/
structure TItem where
  id : List Int
  rule : String
  arg : ArgAx
  prevs : List (List Int)
  th : Option Thm
  sub : Option (List TItem)

partial def encItem (it : TItem) : Holpy.C02.Item :=
  ⟨it.id, it.rule, encArg it.arg, it.prevs, it.th.map encThm,
   it.sub.map (fun l => l.map encItem)⟩

end Holpy.C01.E2E
