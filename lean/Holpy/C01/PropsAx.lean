import Holpy.C01.Props
import Holpy.C01.AxiomProofs
/-
C01, the parenthesis "(with axioms only from the base logic)": proofs that cite the axioms of
`library/logic_base.json` through the checker's `theorem` rule.

`GoodIn StdBase th` = `th` passes `check_thm_type` (which includes: `equals`/`implies`/`all` occur at
instances of their declared types only) and is true in EVERY finite standard model `M` (all sizes ≥ 1 for type
variables, schematic type variables, type constructors) under EVERY admissible valuation of
variables, schematic variables and constants that reads the base-logic constants `true`, `false`,
`neg`, `conj`, `disj`, `exists`, `exists1`, `IF` in the standard way at every instance of their
declared types, `Some` as a choice function, `The` as a description operator and the internal
marker `_VAR` as the predicate true of everything (`StdBase`, Kernel/BaseLogic.lean).  `Gen.baseAxioms` is regenerated from the library by the real loader on
every run.
-/
namespace Holpy.C01
open Holpy

/-- Every theorem `logic_base` installs without a stored proof (the 19 `thm.ax` items and the
equation of `def exists1`, in the schematic form `get_theorem` returns) is well-typed and valid in
every finite standard model under every standard valuation.  Independent of the order of the
items in the file; a changed, added or removed axiom breaks this theorem. -/
theorem base_axioms_good : ∀ p ∈ Gen.baseAxioms, GoodIn StdBase p.2 := by
  have hsub : ∀ p ∈ Gen.baseAxioms, p ∈ provedAxioms := by decide
  exact fun p hp => provedAxioms_good p (hsub p hp)

/-- non-vacuity: there are axioms, `conjI` and `the_equality` among them -/
example : Gen.baseAxioms ≠ [] ∧ Gen.baseAxioms.lookup "conjI" = some Gen.ax_conjI ∧
    (Gen.baseAxioms.lookup "the_equality").isSome = true := by decide

/-- the class of standard valuations is not empty in any model: `GoodIn StdBase` is never vacuous -/
theorem stdBase_inhabited (M : Model) : ∃ ρ, Admissible M ρ ∧ StdBase M ρ :=
  ⟨stdVal M, stdVal_admissible M, stdVal_stdBase M⟩

/-- One checker step over the base logic (a primitive rule, `theorem` citing a base-logic axiom by
name, or `variable`; followed by `check_thm_type`): premises good ⇒ accepted result good —
whatever the argument is. -/
theorem check_step_sound_ax (rule : String) (arg : ArgAx) (prems : List Thm) (th : Thm)
    (hp : ∀ p ∈ prems, GoodIn StdBase p)
    (h : checkStepAx Gen.baseAxioms rule arg prems = .ok th) : GoodIn StdBase th :=
  checkStepAx_sound_in stdBase_closed Gen.baseAxioms base_axioms_good mkVAR_validIn rule arg prems
    th hp h

/-- The same for a step with a STATED sequent: the checker computes the rule's result, requires
that it `can_prove` the stated sequent (same conclusion, hypotheses a subset) and keeps the stated
one (after `check_thm_type`): what is kept is good. -/
theorem check_step_sound_stated (rule : String) (arg : ArgAx) (prems : List Thm)
    (stated : Option Thm) (th : Thm) (hp : ∀ p ∈ prems, GoodIn StdBase p)
    (h : checkStepSt Gen.baseAxioms rule arg prems stated = .ok th) : GoodIn StdBase th :=
  checkStepSt_sound_in stdBase_closed Gen.baseAxioms base_axioms_good mkVAR_validIn rule arg prems
    stated th hp h

/-- Whenever the checker accepts a gap-free proof built from the primitive rules, citations of
base-logic axioms and `variable` declarations (with or without stated sequents), every sequent in
it is well-typed and true in every finite standard model of the base logic. -/
theorem check_proof_sound_ax (steps : List StepAx) (res : List Thm)
    (h : runScriptAx Gen.baseAxioms steps [] = .ok res) : ∀ th ∈ res, GoodIn StdBase th :=
  runScriptAx_sound_in stdBase_closed Gen.baseAxioms base_axioms_good mkVAR_validIn steps [] res
    (fun _ h => by cases h) h

/-- `⊢ false` is false under the standard valuation of the one-element model -/
theorem falseThm_not_validIn : ¬ ValidIn StdBase trivModel falseThm := by
  intro h
  have h1 := h (stdVal trivModel) (stdVal_admissible _) (stdVal_stdBase _) (fun _ hm => by cases hm)
  have h2 : sem trivModel (stdVal trivModel) [] [] falseThm.prop = 0 :=
    sem_falseC (stdVal_stdBase trivModel) [] []
  unfold holds at h1
  omega

/-- No accepted proof from primitive rules and base-logic axioms ends in `⊢ false`. -/
theorem no_false_ax (steps : List StepAx) (res : List Thm)
    (h : runScriptAx Gen.baseAxioms steps [] = .ok res) : falseThm ∉ res := by
  intro hm
  exact falseThm_not_validIn ((check_proof_sound_ax steps res h _ hm).valid trivModel)

/-- the old theorems are the instance "no axioms, every valuation" of the same development -/
theorem check_proof_sound_of_in (steps : List Step) (res : List Thm)
    (h : runScript steps [] = .ok res) : ∀ th ∈ res, Good th :=
  fun th hm => (goodIn_top_iff th).1 (check_proof_sound_in closedClass_top steps res h th hm)

end Holpy.C01

namespace Holpy.C01
open Holpy

/-! ### non-vacuity: real scripts citing base-logic axioms -/

/-- `theorem conjD1; assume ?A ∧ ?B; implies_elim` -/
def demoConjD1 : List StepAx :=
  [⟨"theorem", .name "conjD1", [], none⟩,
   ⟨"assume", .prim (.term (Term.mkConj (sB "A") (sB "B"))), [], none⟩,
   ⟨"implies_elim", .prim .none, [0, 1], none⟩]

/-- the checker model accepts it and the last sequent is `?A ∧ ?B ⊢ ?A` -/
example : (match runScriptAx Gen.baseAxioms demoConjD1 [] with
    | .ok ths => ths[2]? == some ⟨[Term.mkConj (sB "A") (sB "B")], sB "A"⟩
    | .error _ => false) = true := by decide

/-- so `check_proof_sound_ax` applies to it -/
example : ∀ ths, runScriptAx Gen.baseAxioms demoConjD1 [] = .ok ths → ∀ th ∈ ths, GoodIn StdBase th :=
  fun ths h => check_proof_sound_ax demoConjD1 ths h

/-- `theorem classical; forall_intr ?A; forall_elim (x = x)`: `⊢ x = x ∨ ¬ x = x` -/
def demoClassical : List StepAx :=
  [⟨"theorem", .name "classical", [], none⟩,
   ⟨"forall_intr", .prim (.term (sB "A")), [0], none⟩,
   ⟨"forall_elim", .prim (.term (Term.eqAt Ty.bool xB xB)), [1], none⟩]

example : (match runScriptAx Gen.baseAxioms demoClassical [] with
    | .ok ths => ths[2]? == some ⟨[], Term.mkDisj (Term.eqAt Ty.bool xB xB)
        (Term.mkNeg (Term.eqAt Ty.bool xB xB))⟩
    | .error _ => false) = true := by decide

/-- `variable (x, bool)` gives `⊢ _VAR x`; a stated weaker sequent is what is kept; a stated
stronger one (a hypothesis dropped) is rejected -/
example : (match runScriptAx Gen.baseAxioms
      [⟨"variable", .var "x" Ty.bool, [], none⟩,
       ⟨"assume", .prim (.term xB), [], some ⟨[xB, sB "A"], xB⟩⟩] [] with
    | .ok ths => ths == [Thm.mkVAR "x" Ty.bool, ⟨[xB, sB "A"], xB⟩]
    | .error _ => false) = true := by decide

example : isOk (runScriptAx Gen.baseAxioms
    [⟨"assume", .prim (.term xB), [], some ⟨[], xB⟩⟩] []) = false := by decide

/-- a name that is not a theorem of the theory is rejected -/
example : isOk (runScriptAx Gen.baseAxioms [⟨"theorem", .name "conjD3", [], none⟩] []) = false := by decide

/-- a polymorphic axiom used at an instance: `theorem exI; subst_type {a: bool}` -/
example : isOk (runScriptAx Gen.baseAxioms
    [⟨"theorem", .name "exI", [], none⟩, ⟨"subst_type", .prim (.tyinst [("a", Ty.bool)]), [0], none⟩] []) = true := by
  simp [runScriptAx, checkStepSt, applyRuleAx, finishStep, Gen.baseAxioms, List.lookup, lookupPrems, applyRule,
    Thm.substType, Thm.mk', Thm.addTuple, Thm.checkThmTypeSig, Thm.checkThmType, Thm.sigOK, Gen.ax_exI, Term.substType, Ty.subst,
    Ty.fn, Ty.bool, Term.checkedGetType, bind, Except.bind, Ty.isFun, Ty.domain?, Ty.range?, isOk,
    sigOK, logicalKind]

end Holpy.C01
