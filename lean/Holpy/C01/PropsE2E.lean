import Holpy.C01.E2EProofs
import Holpy.C01.PropsThy
/-
C01 ∘ C02 — end to end: C02's checker model (`Holpy.C02.checkProof`: proof objects with nested
`subproof` blocks, arbitrary ids, citations resolved by `find_item` under `can_depend_on`, stated
sequents, gaps) run over the REAL rule layer `E2E.rules Gen.theoryTheorems` (the 15 primitive rules
= `applyRule`, `theorem` citing any theorem of logic_base, `variable`, `check_thm_type`;
propositions are Nat codes of name-erased terms, E2E.lean / Codec.lean).
-/
namespace Holpy.C01
open Holpy Holpy.C01.Codec Holpy.C01.E2E

/-- The code of a term decodes to the term with its suggested bound names erased, and two terms
have the same code exactly when `Term.__eq__` (alpha-equivalence) holds: C02's `can_prove` / `==`
on opaque propositions is the real `can_prove` / `==` on terms. -/
theorem code_faithful (t u : Term) :
    decTerm (encTerm t) = some (Term.erase t) ∧ (encTerm t = encTerm u ↔ Term.aeq t u = true) :=
  ⟨decTerm_encTerm t, encTerm_eq_iff_aeq t u⟩

example : encTerm (.abs "x" Ty.bool (.bound 0)) = encTerm (.abs "y" Ty.bool (.bound 0)) := rfl

/-- the nested-proof checker over the real rules, in the strict mode (`no_gaps`, not `compute_only`) -/
def checkNested (fuel : Nat) (prf : List Holpy.C02.Item) : Except Holpy.C02.Err Holpy.C02.Res :=
  Holpy.C02.checkProof (rules Gen.theoryTheorems) ⟨true, false, 0⟩ fuel prf

/-- the same with the extra premise test of `rulesG` -/
def checkNestedG (fuel : Nat) (prf : List Holpy.C02.Item) : Except Holpy.C02.Err Holpy.C02.Res :=
  Holpy.C02.checkProof (rulesG Gen.theoryTheorems) ⟨true, false, 0⟩ fuel prf

/-- END TO END: whenever `check_proof(prf, no_gaps=True)` (C02's model of it over the real rules)
accepts a proof object — any nesting of subproof blocks, any ids, any citations, stated sequents —
every sequent that became citable at any depth and the returned theorem, once it passes
`check_thm_type`, is true in every finite standard model of the base logic.
PARTIAL: `hguard` — re-testing `check_thm_type` on the premises of every primitive-rule call does
not change the run (true because every citable statement was stored after `check_thm_type`; that
invariant of C02's walk is not proved, it is compared on every generated proof). -/
theorem nested_proof_sound_partial (fuel : Nat) (prf : List Holpy.C02.Item) (res : Holpy.C02.Res)
    (h : checkNested fuel prf = .ok res) (hguard : checkNestedG fuel prf = checkNested fuel prf) :
    (∀ e ∈ res.trace, ∀ th, decSeq e.th = some th → Thm.checkThmTypeSig th = true →
        ∀ M, ValidIn StdBase M th) ∧
    (∀ s, res.th = some s → ∀ th, decSeq s = some th → Thm.checkThmTypeSig th = true →
        ∀ M, ValidIn StdBase M th) := by
  rw [h] at hguard
  have hg := checkProof_good stdBase_closed Gen.theoryTheorems theory_theorems_good mkVAR_validIn
    0 fuel prf res hguard
  exact ⟨fun e he th hd hwt => (hg.1 e he th hd hwt).valid,
    fun s hs th hd hwt => (hg.2 s hs th hd hwt).valid⟩

/-- … in particular no such proof object, however nested, returns `⊢ false` or makes it citable. -/
theorem nested_no_false_partial (fuel : Nat) (prf : List Holpy.C02.Item) (res : Holpy.C02.Res)
    (h : checkNested fuel prf = .ok res) (hguard : checkNestedG fuel prf = checkNested fuel prf) :
    res.th ≠ some (encThm falseThm) ∧ ∀ e ∈ res.trace, e.th ≠ encThm falseThm := by
  have hs := nested_proof_sound_partial fuel prf res h hguard
  have hd : decSeq (encThm falseThm) = some falseThm := decSeq_encThm falseThm
  have hwt : Thm.checkThmTypeSig falseThm = true := by decide
  constructor
  · intro he
    exact falseThm_not_validIn (hs.2 _ he falseThm hd hwt trivModel)
  · intro e he heq
    exact falseThm_not_validIn (hs.1 e he falseThm (heq ▸ hd) hwt trivModel)

/-- The guarded run alone (no hypothesis): what C02's model accepts over the rule layer that
re-tests its premises is sound. -/
theorem nested_guarded_sound (fuel : Nat) (prf : List Holpy.C02.Item) (res : Holpy.C02.Res)
    (h : checkNestedG fuel prf = .ok res) :
    ∀ s, res.th = some s → ∀ th, decSeq s = some th → Thm.checkThmTypeSig th = true →
      ∀ M, ValidIn StdBase M th :=
  fun s hs th hd hwt =>
    ((checkProof_good stdBase_closed Gen.theoryTheorems theory_theorems_good mkVAR_validIn
      0 fuel prf res h).2 s hs th hd hwt).valid

/-! ### non-vacuity: a block `0: subproof [0.0: assume x; 0.1: implies_intr x from 0.0]` -/

def demoNested : List Holpy.C02.Item :=
  [⟨[0], "subproof", .none, [], none, some
     [⟨[0, 0], "assume", encArg (.prim (.term xB)), [], none, none⟩,
      ⟨[0, 1], "implies_intr", encArg (.prim (.term xB)), [[0, 0]], none, none⟩]⟩]

def thOf : Except Holpy.C02.Err Holpy.C02.Res → Option Holpy.C02.Seq
  | .ok r => r.th
  | .error _ => none

example : thOf (checkNested 5 demoNested) = some (encThm ⟨[], Term.mkImplies xB xB⟩) ∧
    thOf (checkNestedG 5 demoNested) = some (encThm ⟨[], Term.mkImplies xB xB⟩) := by
  decide +kernel

end Holpy.C01
