import Holpy.C01.Codec
import Holpy.Kernel.SemBasic
/-
Round trip of the Nat codes: `decTerm (encTerm t) = some (erase t)`, `decTy (encTy T) = some T`,
and equality of codes is alpha-equivalence.
-/
namespace Holpy.C01.Codec
open Holpy

theorem packL_ge (l : List Nat) : l.length ≤ packL l := by
  induction l with
  | nil => simp [packL]
  | cons a l ih =>
    simp only [packL, List.length_cons]
    have : packL l ≤ B * packL l := Nat.le_mul_of_pos_left _ (by decide)
    omega

theorem unpackF_packL (l : List Nat) (hb : ∀ a ∈ l, a + 1 < B) :
    ∀ f, l.length ≤ f → unpackF f (packL l) = l := by
  induction l with
  | nil => intro f _; cases f <;> simp [unpackF, packL]
  | cons a l ih =>
    intro f hf
    cases f with
    | zero => simp at hf
    | succ f =>
      have ha : a + 1 < B := hb a (by simp)
      have e : packL (a :: l) = a + 1 + B * packL l := rfl
      rw [e]
      simp only [unpackF]
      have h0 : a + 1 + B * packL l ≠ 0 := by omega
      rw [if_neg h0]
      have h1 : (a + 1 + B * packL l) % B = a + 1 := by
        rw [Nat.add_mul_mod_self_left]; exact Nat.mod_eq_of_lt ha
      have h2 : (a + 1 + B * packL l) / B = packL l := by
        rw [Nat.add_mul_div_left _ _ (by decide : 0 < B), Nat.div_eq_of_lt ha]; simp
      rw [h1, h2, ih (fun x hx => hb x (by simp [hx])) f (by simpa using hf)]
      simp

theorem unpackL_packL (l : List Nat) (hb : ∀ a ∈ l, a + 1 < B) : unpackL (packL l) = l :=
  unpackF_packL l hb _ (packL_ge l)

/-! ### strings, numbers -/

theorem parseChars_toks (cs : List Char) (rest : List Nat) :
    parseChars (cs.map (fun c => c.toNat + 1) ++ 0 :: rest) = some (cs, rest) := by
  induction cs with
  | nil => simp [parseChars]
  | cons c cs ih =>
    simp only [List.map_cons, List.cons_append, parseChars, ih]
    simp

theorem parseStr_toks (s : String) (rest : List Nat) :
    parseStr (toksStr s ++ rest) = some (s, rest) := by
  unfold parseStr toksStr
  rw [List.append_assoc]
  simp only [List.singleton_append]
  rw [parseChars_toks]
  simp

theorem parseNat_toks (n : Nat) (rest : List Nat) :
    parseNat (toksNat n ++ rest) = some (n, rest) := by
  induction n with
  | zero => simp [toksNat, parseNat]
  | succ n ih => simp [toksNat, parseNat, ih]

theorem toksStr_len (s : String) : 1 ≤ (toksStr s).length := by simp [toksStr]

/-! ### types -/

mutual
theorem parseTy_toks : ∀ (T : Ty) (f : Nat) (rest : List Nat), (toksTy T).length ≤ f →
    parseTy f (toksTy T ++ rest) = some (T, rest)
  | .stvar n, f, rest, hf => by
    cases f with
    | zero => simp [toksTy] at hf
    | succ f => simp [toksTy, parseTy, parseStr_toks]
  | .tvar n, f, rest, hf => by
    cases f with
    | zero => simp [toksTy] at hf
    | succ f => simp [toksTy, parseTy, parseStr_toks]
  | .con n args, f, rest, hf => by
    cases f with
    | zero => simp [toksTy] at hf
    | succ f =>
      simp only [toksTy, List.length_cons, List.length_append] at hf
      have := toksStr_len n
      simp only [toksTy, List.cons_append, List.append_assoc, parseTy, parseStr_toks]
      rw [parseTys_toks args f rest (by omega)]
theorem parseTys_toks : ∀ (l : List Ty) (f : Nat) (rest : List Nat), (toksTys l).length ≤ f →
    parseTys f (toksTys l ++ rest) = some (l, rest)
  | [], f, rest, hf => by
    cases f with
    | zero => simp [toksTys] at hf
    | succ f => simp [toksTys, parseTys]
  | a :: as, f, rest, hf => by
    cases f with
    | zero => simp [toksTys] at hf
    | succ f =>
      simp only [toksTys, List.length_cons, List.length_append] at hf
      simp only [toksTys, List.cons_append, List.append_assoc, parseTys]
      rw [parseTy_toks a f _ (by omega)]
      simp only
      rw [parseTys_toks as f rest (by omega)]
end

theorem parseTy_len (T : Ty) (rest : List Nat) :
    parseTy (toksTy T ++ rest).length (toksTy T ++ rest) = some (T, rest) :=
  parseTy_toks T _ rest (by simp)

theorem parseAtom_toks (mk : String → Ty → Term) (n : String) (T : Ty) (rest : List Nat) :
    parseAtom mk (toksStr n ++ toksTy T ++ rest) = some (mk n T, rest) := by
  unfold parseAtom
  rw [List.append_assoc, parseStr_toks]
  simp only
  rw [parseTy_len]

/-! ### terms -/

theorem parseTerm_toks : ∀ (t : Term) (f : Nat) (rest : List Nat), (toksTerm t).length ≤ f →
    parseTerm f (toksTerm t ++ rest) = some (Term.erase t, rest) := by
  intro t
  induction t with
  | svar n T =>
    intro f rest hf
    cases f with
    | zero => simp [toksTerm] at hf
    | succ f =>
      simp only [toksTerm, List.cons_append, parseTerm]
      rw [parseAtom_toks]; rfl
  | var n T =>
    intro f rest hf
    cases f with
    | zero => simp [toksTerm] at hf
    | succ f =>
      simp only [toksTerm, List.cons_append, parseTerm]
      rw [parseAtom_toks]; rfl
  | const n T =>
    intro f rest hf
    cases f with
    | zero => simp [toksTerm] at hf
    | succ f =>
      simp only [toksTerm, List.cons_append, parseTerm]
      rw [parseAtom_toks]; rfl
  | comb g a ihg iha =>
    intro f rest hf
    cases f with
    | zero => simp [toksTerm] at hf
    | succ f =>
      simp only [toksTerm, List.length_cons, List.length_append] at hf
      simp only [toksTerm, List.cons_append, List.append_assoc, parseTerm]
      rw [ihg f _ (by omega)]
      simp only
      rw [iha f rest (by omega)]
      rfl
  | abs x T b ih =>
    intro f rest hf
    cases f with
    | zero => simp [toksTerm] at hf
    | succ f =>
      simp only [toksTerm, List.length_cons, List.length_append] at hf
      simp only [toksTerm, List.cons_append, List.append_assoc, parseTerm]
      rw [parseTy_len]
      simp only
      rw [ih f rest (by omega)]
      rfl
  | bound i =>
    intro f rest hf
    cases f with
    | zero => simp [toksTerm] at hf
    | succ f =>
      simp only [toksTerm, List.cons_append, parseTerm, parseNat_toks]
      rfl

/-! ### token bounds -/

theorem toksStr_lt (s : String) : ∀ a ∈ toksStr s, a + 1 < B := by
  intro a ha
  simp only [toksStr, List.mem_append, List.mem_map, List.mem_singleton] at ha
  rcases ha with ⟨c, _, rfl⟩ | rfl
  · have : c.toNat < 4294967296 := c.val.toNat_lt
    simp only [B]; omega
  · decide

theorem toksNat_lt (n : Nat) : ∀ a ∈ toksNat n, a + 1 < B := by
  induction n with
  | zero => intro a ha; simp [toksNat] at ha; subst ha; decide
  | succ n ih =>
    intro a ha
    simp only [toksNat, List.mem_cons] at ha
    rcases ha with rfl | ha
    · decide
    · exact ih a ha

mutual
theorem toksTy_lt : ∀ (T : Ty), ∀ a ∈ toksTy T, a + 1 < B
  | .stvar n => by
    intro a ha; simp only [toksTy, List.mem_cons] at ha
    rcases ha with rfl | ha
    · decide
    · exact toksStr_lt n a ha
  | .tvar n => by
    intro a ha; simp only [toksTy, List.mem_cons] at ha
    rcases ha with rfl | ha
    · decide
    · exact toksStr_lt n a ha
  | .con n args => by
    intro a ha; simp only [toksTy, List.mem_cons, List.mem_append] at ha
    rcases ha with rfl | ha | ha
    · decide
    · exact toksStr_lt n a ha
    · exact toksTys_lt args a ha
theorem toksTys_lt : ∀ (l : List Ty), ∀ a ∈ toksTys l, a + 1 < B
  | [] => by intro a ha; simp [toksTys] at ha; subst ha; decide
  | T :: l => by
    intro a ha; simp only [toksTys, List.mem_cons, List.mem_append] at ha
    rcases ha with rfl | ha | ha
    · decide
    · exact toksTy_lt T a ha
    · exact toksTys_lt l a ha
end

theorem toksTerm_lt (t : Term) : ∀ a ∈ toksTerm t, a + 1 < B := by
  induction t with
  | svar n T | var n T | const n T =>
    intro a ha; simp only [toksTerm, List.mem_cons, List.mem_append] at ha
    rcases ha with rfl | ha | ha
    · decide
    · exact toksStr_lt n a ha
    · exact toksTy_lt T a ha
  | comb g b ihg ihb =>
    intro a ha; simp only [toksTerm, List.mem_cons, List.mem_append] at ha
    rcases ha with rfl | ha | ha
    · decide
    · exact ihg a ha
    · exact ihb a ha
  | abs x T b ih =>
    intro a ha; simp only [toksTerm, List.mem_cons, List.mem_append] at ha
    rcases ha with rfl | ha | ha
    · decide
    · exact toksTy_lt T a ha
    · exact ih a ha
  | bound i =>
    intro a ha; simp only [toksTerm, List.mem_cons] at ha
    rcases ha with rfl | ha
    · decide
    · exact toksNat_lt i a ha

/-! ### the round trip -/

theorem decTy_encTy (T : Ty) : decTy (encTy T) = some T := by
  unfold decTy encTy
  simp only [unpackL_packL _ (toksTy_lt T)]
  have := parseTy_len T []
  simp only [List.append_nil] at this
  rw [this]

theorem decTerm_encTerm (t : Term) : decTerm (encTerm t) = some (Term.erase t) := by
  unfold decTerm encTerm
  simp only [unpackL_packL _ (toksTerm_lt t)]
  have := parseTerm_toks t (toksTerm t).length [] (Nat.le_refl _)
  simp only [List.append_nil] at this
  rw [this]

theorem toksTerm_erase (t : Term) : toksTerm (Term.erase t) = toksTerm t := by
  induction t with
  | comb g a ihg iha => simp [Term.erase, toksTerm, ihg, iha]
  | abs x T b ih => simp [Term.erase, toksTerm, ih]
  | _ => simp [Term.erase]

/-- equality of codes is `Term.__eq__` (alpha-equivalence): C02's `can_prove` on codes is the real
`can_prove` on terms -/
theorem encTerm_eq_iff_aeq (t u : Term) : encTerm t = encTerm u ↔ Term.aeq t u = true := by
  rw [Term.aeq_iff_erase]
  constructor
  · intro h
    have h1 := decTerm_encTerm t
    rw [h, decTerm_encTerm u] at h1
    exact (Option.some.inj h1).symm
  · intro h
    unfold encTerm
    rw [← toksTerm_erase t, ← toksTerm_erase u, h]

end Holpy.C01.Codec
