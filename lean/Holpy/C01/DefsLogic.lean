import Holpy.Kernel.DefsClass
import Holpy.C01.TheoremProofs
import Holpy.C01.GenLogicDefs
/-
The definitional equations of `library/logic.json` (`Let`, `xor`; regenerated through the real
loader) have a standard interpretation in every finite standard model of the base logic: the class
`StdBase ∧ DefsHold Gen.logicDefs` is inhabited in every model.
-/
set_option linter.unusedSectionVars false

namespace Holpy.C01
open Holpy

/-- `xor` : bool ⇒ bool ⇒ bool -/
def xorCode : Nat :=
  lamCode (fun x => lamCode (fun y => if (x = 1 ∧ y = 0) ∨ (x = 0 ∧ y = 1) then 1 else 0) 2 2) 2 4

/-- `Let` : a ⇒ (a ⇒ b) ⇒ b at carriers of sizes `na`, `nb` -/
def letCode (na nb : Nat) : Nat :=
  lamCode (fun s => lamCode (fun f => appCode f s nb) (nb ^ na) nb) na (nb ^ (nb ^ na))

theorem xorCode_lt : xorCode < 4 ^ 2 := by decide

theorem appCode_xorCode (x y : Nat) (hx : x < 2) (hy : y < 2) :
    appCode (appCode xorCode x 4) y 2 = if (x = 1 ∧ y = 0) ∨ (x = 0 ∧ y = 1) then 1 else 0 := by
  obtain rfl | rfl : x = 0 ∨ x = 1 := by omega
  all_goals
    obtain rfl | rfl : y = 0 ∨ y = 1 := by omega
    all_goals decide

theorem letCode_lt (na nb : Nat) (hb : 0 < nb) : letCode na nb < (nb ^ (nb ^ na)) ^ na := by
  unfold letCode
  apply lamCode_lt
  intro s _
  apply lamCode_lt
  intro f _
  exact appCode_lt _ _ _ hb

theorem appCode_letCode (na nb s f : Nat) (hb : 0 < nb) (hs : s < na) (hf : f < nb ^ na) :
    appCode (appCode (letCode na nb) s (nb ^ (nb ^ na))) f nb = appCode f s nb := by
  unfold letCode
  rw [appCode_lamCode _ na _ s hs
      (fun u _ => lamCode_lt _ _ _ (fun w _ => appCode_lt _ _ _ hb)),
    appCode_lamCode _ (nb ^ na) nb f hf (fun w _ => appCode_lt _ _ _ hb)]

def letTy (a b : Ty) : Ty := Ty.fn a (Ty.fn (Ty.fn a b) b)

/-- the constants `xor`, `Let` of logic.json mean what their definitions say -/
structure StdLogicDefs (M : Model) (ρ : Valuation) : Prop where
  xor : ρ 2 "xor" BaseTy.bin = xorCode
  let_ : ∀ a b : Ty, ρ 2 "Let" (letTy a b) = letCode (M.size a) (M.size b)

theorem StdLogicDefs.congr {M : Model} {ρ ρ' : Valuation} (h : StdLogicDefs M ρ)
    (hc : ConstEq ρ' ρ) : StdLogicDefs M ρ' :=
  ⟨by rw [hc]; exact h.xor, fun a b => by rw [hc]; exact h.let_ a b⟩

theorem _root_.Holpy.StdBase.congr {M : Model} {ρ ρ' : Valuation} (h : StdBase M ρ) (hc : ConstEq ρ' ρ) :
    StdBase M ρ' := by
  refine ⟨?_, ?_, ?_, ?_, ?_, ?_, ?_, ?_, ?_, ?_, ?_⟩
  all_goals (try intro a)
  all_goals rw [hc]
  · exact h.tru
  · exact h.fls
  · exact h.neg
  · exact h.conj
  · exact h.disj
  · exact h.ex a
  · exact h.ex1 a
  · exact h.ite a
  · exact h.some a
  · exact h.the a
  · exact h.var_ a

theorem letTy_subst (σ : Ty.TyInst) (a b : Ty) :
    (letTy a b).subst σ = letTy (a.subst σ) (b.subst σ) := by
  simp only [letTy, Ty.subst_fn]

theorem StdLogicDefs.pull {M : Model} {ρ : Valuation} (h : StdLogicDefs M ρ) (σ : Ty.TyInst) :
    StdLogicDefs (M.pull σ) (ρ.pull M σ) := by
  refine ⟨?_, fun a b => ?_⟩
  · rw [pull_const_nonlogical M ρ σ _ _ (by decide) (by decide) (by decide), BaseTy.subst_bin]
    exact h.xor
  · rw [pull_const_nonlogical M ρ σ _ _ (by decide) (by decide) (by decide), letTy_subst,
      Model.size_pull, Model.size_pull]
    exact h.let_ _ _

/-- the standard class is kept by every sequence of type instantiations -/
theorem std_pulls {M : Model} {ρ : Valuation} (hρ : Admissible M ρ) (hB : StdBase M ρ)
    (hL : StdLogicDefs M ρ) (σs : List Ty.TyInst) :
    Admissible (pullsM M σs) (pullsV M ρ σs) ∧ StdBase (pullsM M σs) (pullsV M ρ σs) ∧
      StdLogicDefs (pullsM M σs) (pullsV M ρ σs) := by
  induction σs generalizing M ρ with
  | nil => exact ⟨hρ, hB, hL⟩
  | cons σ σs ih => exact ih (hρ.pull σ) (stdBase_closed.pull M ρ σ hρ hB) (hL.pull σ)

section
variable {M : Model} {ρ : Valuation} (hρ : Admissible M ρ) (hC : StdBase M ρ)
  (hL : StdLogicDefs M ρ)
include hρ hC hL

theorem xor_def_valid : holds M ρ Gen.def_xor_def.prop := by
  show holdsIn M ρ [] [] (Term.eqAt Ty.bool
    (.comb (.comb (.const "xor" (Ty.fn Ty.bool (Ty.fn Ty.bool Ty.bool))) (sB "A")) (sB "B"))
    (Term.mkDisj (Term.mkConj (sB "A") (Term.mkNeg (sB "B"))) (Term.mkConj (Term.mkNeg (sB "A")) (sB "B"))))
  have e := EnvOK.nil M
  have ha := hρ 0 "A" Ty.bool
  have hb := hρ 0 "B" Ty.bool
  rw [Model.size_bool] at ha hb
  have hx : holdsIn M ρ [] []
      (.comb (.comb (.const "xor" (Ty.fn Ty.bool (Ty.fn Ty.bool Ty.bool))) (sB "A")) (sB "B"))
      ↔ ((ρ 0 "A" Ty.bool = 1 ∧ ρ 0 "B" Ty.bool = 0) ∨ (ρ 0 "A" Ty.bool = 0 ∧ ρ 0 "B" Ty.bool = 1)) := by
    unfold holdsIn
    rw [sem_comb_const2, constVal_nonlogical M ρ _ _ (by decide) (by decide) (by decide)]
    show appCode (appCode (ρ 2 "xor" BaseTy.bin) _ _) _ _ = 1 ↔ _
    rw [hL.xor, Model.size_fn, Model.size_bool]
    show appCode (appCode xorCode (ρ 0 "A" Ty.bool) 4) (ρ 0 "B" Ty.bool) 2 = 1 ↔ _
    rw [appCode_xorCode _ _ ha hb]
    split <;> simp_all
  rw [hIff hρ e (by decide) (by decide), hx]
  sem_norm hρ hC e
  unfold holdsIn
  simp only [sem_svar]
  omega

theorem Let_def_valid : holds M ρ Gen.def_Let_def.prop := by
  show holdsIn M ρ [] [] (Term.eqAt tB
    (.comb (.comb (.const "Let" (Ty.fn tA (Ty.fn (Ty.fn tA tB) tB))) (.svar "s" tA)) (.svar "f" (Ty.fn tA tB)))
    (.comb (.svar "f" (Ty.fn tA tB)) (.svar "s" tA)))
  have e := EnvOK.nil M
  rw [hEq hρ e (by decide) (by decide), sem_comb_const2,
    constVal_nonlogical M ρ _ _ (by decide) (by decide) (by decide)]
  show appCode (appCode (ρ 2 "Let" (letTy tA tB)) _ _) _ _ = _
  rw [hL.let_, sem_app_svar, Model.size_fn, Model.size_fn]
  have hs := hρ 0 "s" tA
  have hf := hρ 0 "f" (Ty.fn tA tB)
  rw [Model.size_fn] at hf
  exact appCode_letCode _ _ _ _ (M.size_pos tB) hs hf

end

/-- under the standard reading of `xor` and `Let` every definitional equation of logic.json holds,
in the model and in all its type instances -/
theorem stdLogicDefs_hold {M : Model} {ρ : Valuation} (hρ : Admissible M ρ) (hB : StdBase M ρ)
    (hL : StdLogicDefs M ρ) : DefsHold Gen.logicDefs M ρ := by
  intro σs ρ2 ha he d hd
  obtain ⟨-, hB', hL'⟩ := std_pulls hρ hB hL σs
  have hB2 := hB'.congr he
  have hL2 := hL'.congr he
  simp only [Gen.logicDefs, List.mem_cons, List.mem_nil_iff, or_false] at hd
  rcases hd with rfl | rfl
  · exact Let_def_valid ha hB2 hL2
  · exact xor_def_valid ha hB2 hL2

/-! ### a valuation in the class -/

/-- the standard valuation of the base logic, with `xor` and `Let` read by their definitions -/
def logicVal (M : Model) : Valuation := fun k n T =>
  if k = 2 ∧ n = "xor" ∧ T = BaseTy.bin then xorCode
  else if k = 2 ∧ n = "Let" then
    match T with
    | .con "fun" [a, .con "fun" [.con "fun" [a', b], b']] =>
      if a = a' ∧ b = b' then letCode (M.size a) (M.size b) else stdVal M k n T
    | _ => stdVal M k n T
  else stdVal M k n T

theorem logicVal_other (M : Model) (n : String) (T : Ty) (h1 : n ≠ "xor") (h2 : n ≠ "Let") :
    logicVal M 2 n T = stdVal M 2 n T := by
  simp [logicVal, h1, h2]

theorem logicVal_xor (M : Model) : logicVal M 2 "xor" BaseTy.bin = xorCode := by
  simp [logicVal]

theorem logicVal_let (M : Model) (a b : Ty) :
    logicVal M 2 "Let" (letTy a b) = letCode (M.size a) (M.size b) := by
  simp [logicVal, letTy, Ty.fn]

theorem logicVal_admissible (M : Model) : Admissible M (logicVal M) := by
  intro k n T
  unfold logicVal
  split
  · rename_i h
    obtain ⟨-, -, rfl⟩ := h
    simp only [BaseTy.bin, Model.size_fn, Model.size_bool]
    exact xorCode_lt
  · split
    · split
      · rename_i x y z w _ _
        split
        · rename_i he
          obtain ⟨rfl, rfl⟩ := he
          show letCode (M.size _) (M.size _) < M.size (Ty.fn _ (Ty.fn (Ty.fn _ _) _))
          simp only [Model.size_fn]
          exact letCode_lt _ _ (M.size_pos _)
        · exact stdVal_admissible M k n _
      · exact stdVal_admissible M k n T
    · exact stdVal_admissible M k n T

theorem logicVal_stdBase (M : Model) : StdBase M (logicVal M) := by
  have h := stdVal_stdBase M
  refine ⟨?_, ?_, ?_, ?_, ?_, ?_, ?_, ?_, ?_, ?_, ?_⟩
  all_goals (try intro a)
  all_goals rw [logicVal_other M _ _ (by decide) (by decide)]
  · exact h.tru
  · exact h.fls
  · exact h.neg
  · exact h.conj
  · exact h.disj
  · exact h.ex a
  · exact h.ex1 a
  · exact h.ite a
  · exact h.some a
  · exact h.the a
  · exact h.var_ a

theorem logicVal_stdLogicDefs (M : Model) : StdLogicDefs M (logicVal M) :=
  ⟨logicVal_xor M, logicVal_let M⟩

end Holpy.C01
