import Holpy.Kernel.BaseLogicSem
import Holpy.C01.GenAxioms
/-
Every axiom of `library/logic_base.json` (as regenerated into `GenAxioms.lean` on every run) is
well-typed (signature-correct) and valid in every finite standard model under every standard
valuation (`StdBase`).  One lemma per axiom; a changed, added or removed axiom breaks the build.
-/
set_option linter.unusedSectionVars false

namespace Holpy.C01
open Holpy

abbrev tA : Ty := .stvar "a"
abbrev tB : Ty := .stvar "b"
abbrev sP : Term := .svar "P" (Ty.fn tA Ty.bool)
abbrev sF : Term := .svar "f" (Ty.fn tA tB)
abbrev sG : Term := .svar "g" (Ty.fn tA tB)
abbrev b0 : Term := .bound 0

abbrev sB (n : String) : Term := .svar n Ty.bool

section
variable {M : Model} {ρ : Valuation} (hρ : Admissible M ρ) (hC : StdBase M ρ)
include hρ hC

theorem conjI_valid : holds M ρ Gen.ax_conjI.prop := by
  show holdsIn M ρ [] [] (Term.mkImplies (sB "A") (Term.mkImplies (sB "B")
    (Term.mkConj (sB "A") (sB "B"))))
  have e := EnvOK.nil M
  rw [holdsIn_implies hρ e rfl rfl, holdsIn_implies hρ e rfl rfl, holdsIn_conj hρ hC e rfl rfl]
  exact fun a b => ⟨a, b⟩

theorem conjD1_valid : holds M ρ Gen.ax_conjD1.prop := by
  show holdsIn M ρ [] [] (Term.mkImplies (Term.mkConj (sB "A") (sB "B")) (sB "A"))
  have e := EnvOK.nil M
  rw [holdsIn_implies hρ e rfl rfl, holdsIn_conj hρ hC e rfl rfl]
  exact fun h => h.1

theorem conjD2_valid : holds M ρ Gen.ax_conjD2.prop := by
  show holdsIn M ρ [] [] (Term.mkImplies (Term.mkConj (sB "A") (sB "B")) (sB "B"))
  have e := EnvOK.nil M
  rw [holdsIn_implies hρ e rfl rfl, holdsIn_conj hρ hC e rfl rfl]
  exact fun h => h.2

theorem disjI1_valid : holds M ρ Gen.ax_disjI1.prop := by
  show holdsIn M ρ [] [] (Term.mkImplies (sB "A") (Term.mkDisj (sB "A") (sB "B")))
  have e := EnvOK.nil M
  rw [holdsIn_implies hρ e rfl rfl, holdsIn_disj hρ hC e rfl rfl]
  exact Or.inl

theorem disjI2_valid : holds M ρ Gen.ax_disjI2.prop := by
  show holdsIn M ρ [] [] (Term.mkImplies (sB "B") (Term.mkDisj (sB "A") (sB "B")))
  have e := EnvOK.nil M
  rw [holdsIn_implies hρ e rfl rfl, holdsIn_disj hρ hC e rfl rfl]
  exact Or.inr

theorem disjE_valid : holds M ρ Gen.ax_disjE.prop := by
  show holdsIn M ρ [] [] (Term.mkImplies (Term.mkDisj (sB "A") (sB "B"))
    (Term.mkImplies (Term.mkImplies (sB "A") (sB "C"))
      (Term.mkImplies (Term.mkImplies (sB "B") (sB "C")) (sB "C"))))
  have e := EnvOK.nil M
  rw [holdsIn_implies hρ e rfl rfl, holdsIn_implies hρ e rfl rfl, holdsIn_implies hρ e rfl rfl,
    holdsIn_implies hρ e rfl rfl, holdsIn_implies hρ e rfl rfl, holdsIn_disj hρ hC e rfl rfl]
  rintro (h | h) h1 h2
  · exact h1 h
  · exact h2 h

theorem negI_valid : holds M ρ Gen.ax_negI.prop := by
  show holdsIn M ρ [] [] (Term.mkImplies (Term.mkImplies (sB "A") Term.falseC)
    (Term.mkNeg (sB "A")))
  have e := EnvOK.nil M
  rw [holdsIn_implies hρ e rfl rfl, holdsIn_implies hρ e rfl rfl, holdsIn_neg hρ hC e rfl]
  exact fun h ha => not_holdsIn_falseC hC [] [] (h ha)

theorem negE_valid : holds M ρ Gen.ax_negE.prop := by
  show holdsIn M ρ [] [] (Term.mkImplies (Term.mkNeg (sB "A"))
    (Term.mkImplies (sB "A") Term.falseC))
  have e := EnvOK.nil M
  rw [holdsIn_implies hρ e rfl rfl, holdsIn_implies hρ e rfl rfl, holdsIn_neg hρ hC e rfl]
  exact fun h ha => absurd ha h

theorem trueI_valid : holds M ρ Gen.ax_trueI.prop :=
  holdsIn_trueC hC [] []

theorem falseE_valid : holds M ρ Gen.ax_falseE.prop := by
  show holdsIn M ρ [] [] (Term.mkImplies Term.falseC (sB "A"))
  have e := EnvOK.nil M
  rw [holdsIn_implies hρ e rfl rfl]
  exact fun h => absurd h (not_holdsIn_falseC hC [] [])

theorem classical_valid : holds M ρ Gen.ax_classical.prop := by
  show holdsIn M ρ [] [] (Term.mkDisj (sB "A") (Term.mkNeg (sB "A")))
  have e := EnvOK.nil M
  rw [holdsIn_disj hρ hC e rfl rfl, holdsIn_neg hρ hC e rfl]
  exact Decidable.em _

/-! ### quantifiers, functions, conditionals, choice -/

theorem sP_lt : ρ 0 "P" (Ty.fn tA Ty.bool) < 2 ^ M.size tA := by
  have := hρ 0 "P" (Ty.fn tA Ty.bool)
  rwa [Model.size_fn, Model.size_bool] at this

theorem exI_valid : holds M ρ Gen.ax_exI.prop := by
  show holdsIn M ρ [] [] (Term.mkImplies (.comb sP (.svar "a" tA))
    (Term.existsAt tA (.abs "a1" tA (.comb sP b0))))
  have e := EnvOK.nil M
  rw [holdsIn_implies hρ e rfl rfl, holdsIn_existsAt_abs hρ hC e rfl]
  intro h
  refine ⟨ρ 0 "a" tA, hρ 0 "a" tA, ?_⟩
  unfold holdsIn at h ⊢
  rw [sem_app_svar, sem_svar] at h
  rw [sem_app_svar, sem_bound_zero]
  exact h

theorem eta_conversion_valid : holds M ρ Gen.ax_eta_conversion.prop := by
  show holdsIn M ρ [] [] (Term.eqAt (Ty.fn tA tB) (.abs "x" tA (.comb sF b0)) sF)
  have e := EnvOK.nil M
  rw [holdsIn_eqAt hρ e rfl rfl]
  have hb : Term.checkedGetType [tA] (.comb sF b0) = .ok tB := rfl
  have hf := hρ 0 "f" (Ty.fn tA tB)
  rw [Model.size_fn] at hf
  apply code_ext _ _ (M.size tA) (M.size tB) (sem_abs_lt hρ e hb) hf
  intro v hv
  rw [appCode_sem_abs_in hρ e hb hv, sem_app_svar, sem_bound_zero]

theorem exE_valid : holds M ρ Gen.ax_exE.prop := by
  show holdsIn M ρ [] [] (Term.mkImplies (Term.existsAt tA (.abs "a" tA (.comb sP b0)))
    (Term.mkImplies (Term.allAt tA (.abs "a" tA (Term.mkImplies (.comb sP b0) (sB "C"))))
      (sB "C")))
  have e := EnvOK.nil M
  rw [holdsIn_implies hρ e rfl rfl, holdsIn_implies hρ e rfl rfl,
    holdsIn_existsAt_abs hρ hC e rfl, holdsIn_allAt_abs hρ e rfl]
  rintro ⟨v, hv, h1⟩ h2
  have h3 := h2 v hv
  rw [holdsIn_implies hρ (e.cons hv) rfl rfl] at h3
  exact h3 h1

theorem extension_valid : holds M ρ Gen.ax_extension.prop := by
  show holdsIn M ρ [] [] (Term.mkImplies
    (Term.allAt tA (.abs "x" tA (Term.eqAt tB (.comb sF b0) (.comb sG b0))))
    (Term.eqAt (Ty.fn tA tB) sF sG))
  have e := EnvOK.nil M
  rw [holdsIn_implies hρ e rfl rfl, holdsIn_allAt_abs hρ e rfl, holdsIn_eqAt hρ e rfl rfl]
  intro h
  have hf := hρ 0 "f" (Ty.fn tA tB)
  have hg := hρ 0 "g" (Ty.fn tA tB)
  rw [Model.size_fn] at hf hg
  rw [sem_svar, sem_svar]
  apply code_ext _ _ (M.size tA) (M.size tB) hf hg
  intro v hv
  have h1 := h v hv
  rw [holdsIn_eqAt hρ (e.cons hv) rfl rfl, sem_app_svar, sem_app_svar, sem_bound_zero] at h1
  exact h1

theorem if_P_valid : holds M ρ Gen.ax_if_P.prop := by
  show holdsIn M ρ [] [] (Term.mkImplies (sB "P")
    (Term.eqAt tA (Term.ifAt tA (sB "P") (.svar "x" tA) (.svar "y" tA)) (.svar "x" tA)))
  have e := EnvOK.nil M
  rw [holdsIn_implies hρ e rfl rfl, holdsIn_eqAt hρ e rfl rfl,
    sem_ifAt_typed hρ hC e rfl rfl rfl]
  intro h
  rw [if_pos h]

theorem if_not_P_valid : holds M ρ Gen.ax_if_not_P.prop := by
  show holdsIn M ρ [] [] (Term.mkImplies (Term.mkNeg (sB "P"))
    (Term.eqAt tA (Term.ifAt tA (sB "P") (.svar "x" tA) (.svar "y" tA)) (.svar "y" tA)))
  have e := EnvOK.nil M
  rw [holdsIn_implies hρ e rfl rfl, holdsIn_eqAt hρ e rfl rfl,
    sem_ifAt_typed hρ hC e rfl rfl rfl, holdsIn_neg hρ hC e rfl]
  intro h
  rw [if_neg h]

theorem some_AX_valid : holds M ρ Gen.ax_some_AX.prop := by
  show holdsIn M ρ [] [] (Term.mkImplies (.comb sP (.svar "x" tA))
    (.comb sP (Term.someAt tA sP)))
  have e := EnvOK.nil M
  rw [holdsIn_implies hρ e rfl rfl]
  unfold holdsIn
  rw [sem_app_svar, sem_app_svar, sem_someAt, Model.size_bool, sem_svar, sem_svar]
  intro h
  exact hC.some tA _ _ (sP_lt hρ hC) (hρ 0 "x" tA) h

theorem the_equality_valid : holds M ρ Gen.ax_the_equality.prop := by
  show holdsIn M ρ [] [] (Term.mkImplies (.comb sP (.svar "a" tA))
    (Term.mkImplies
      (Term.allAt tA (.abs "x" tA (Term.mkImplies (.comb sP b0) (Term.eqAt tA b0 (.svar "a" tA)))))
      (Term.eqAt tA (Term.theAt tA (.abs "x" tA (.comb sP b0))) (.svar "a" tA))))
  have e := EnvOK.nil M
  rw [holdsIn_implies hρ e rfl rfl, holdsIn_implies hρ e rfl rfl, holdsIn_allAt_abs hρ e rfl,
    holdsIn_eqAt hρ e rfl rfl, sem_theAt]
  intro h1 h2
  have hb : Term.checkedGetType [tA] (.comb sP b0) = .ok Ty.bool := rfl
  have hp := sem_abs_lt hρ e hb (x := "x")
  rw [Model.size_bool] at hp
  have dig : ∀ v, v < M.size tA →
      appCode (sem M ρ [] [] (.abs "x" tA (.comb sP b0))) v 2
        = appCode (ρ 0 "P" (Ty.fn tA Ty.bool)) v 2 := by
    intro v hv
    have := appCode_sem_abs_in hρ e (x := "x") hb hv
    rw [Model.size_bool] at this
    rw [this, sem_app_svar, sem_bound_zero, Model.size_bool]
  unfold holdsIn at h1
  rw [sem_app_svar, sem_svar, Model.size_bool] at h1
  rw [sem_svar]
  apply hC.the tA _ _ hp (hρ 0 "a" tA)
  · rw [dig _ (hρ 0 "a" tA)]; exact h1
  · intro w hw hw1
    have h3 := h2 w hw
    rw [holdsIn_implies hρ (e.cons hw) rfl rfl, holdsIn_eqAt hρ (e.cons hw) rfl rfl] at h3
    rw [dig w hw] at hw1
    have h4 := h3 (by unfold holdsIn; rw [sem_app_svar, sem_bound_zero, Model.size_bool]; exact hw1)
    rw [sem_bound_zero, sem_svar] at h4
    exact h4

theorem exists1_def_valid : holds M ρ Gen.ax_exists1_def.prop := by
  show holdsIn M ρ [] [] (Term.eqAt Ty.bool (Term.exists1At tA sP)
    (Term.existsAt tA (.abs "x" tA (Term.mkConj (.comb sP b0)
      (Term.allAt tA (.abs "y" tA (Term.mkImplies (.comb sP b0) (Term.eqAt tA b0 (.bound 1)))))))))
  have e := EnvOK.nil M
  rw [holdsIn_eqAt hρ e rfl rfl]
  apply bool_eq_of_iff (sem_bool_lt_in hρ e rfl) (sem_bool_lt_in hρ e rfl)
  show holdsIn M ρ [] [] _ ↔ holdsIn M ρ [] [] _
  rw [holdsIn_exists1At hρ hC e rfl, holdsIn_existsAt_abs hρ hC e rfl, sem_svar]
  have key : ∀ x, x < M.size tA →
      (holdsIn M ρ [tA] [x] (Term.mkConj (.comb sP b0)
        (Term.allAt tA (.abs "y" tA (Term.mkImplies (.comb sP b0) (Term.eqAt tA b0 (.bound 1))))))
      ↔ (appCode (ρ 0 "P" (Ty.fn tA Ty.bool)) x 2 = 1 ∧
          ∀ y, y < M.size tA → appCode (ρ 0 "P" (Ty.fn tA Ty.bool)) y 2 = 1 → y = x)) := by
    intro x hx
    have ex := e.cons hx
    rw [holdsIn_conj hρ hC ex rfl rfl, holdsIn_allAt_abs hρ ex rfl]
    have h1 : holdsIn M ρ [tA] [x] (.comb sP b0) ↔ appCode (ρ 0 "P" (Ty.fn tA Ty.bool)) x 2 = 1 := by
      unfold holdsIn; rw [sem_app_svar, sem_bound_zero, Model.size_bool]
    rw [h1]
    apply and_congr_right
    intro _
    apply forall_congr'
    intro y
    apply imp_congr_right
    intro hy
    rw [holdsIn_implies hρ (ex.cons hy) rfl rfl, holdsIn_eqAt hρ (ex.cons hy) rfl rfl,
      sem_bound_zero, sem_bound_one]
    unfold holdsIn
    rw [sem_app_svar, sem_bound_zero, Model.size_bool]
  constructor
  · rintro ⟨x, hx, h⟩
    exact ⟨x, hx, (key x hx).2 h⟩
  · rintro ⟨x, hx, h⟩
    exact ⟨x, hx, (key x hx).1 h⟩

end

/-! ### well-typed, signature-correct, valid -/

theorem exists1_def_good : GoodIn StdBase Gen.ax_exists1_def :=
  ⟨by decide, fun _ _ hρ hC _ => exists1_def_valid hρ hC⟩

theorem conjI_good : GoodIn StdBase Gen.ax_conjI :=
  ⟨by decide, fun _ _ hρ hC _ => conjI_valid hρ hC⟩

theorem conjD1_good : GoodIn StdBase Gen.ax_conjD1 :=
  ⟨by decide, fun _ _ hρ hC _ => conjD1_valid hρ hC⟩

theorem conjD2_good : GoodIn StdBase Gen.ax_conjD2 :=
  ⟨by decide, fun _ _ hρ hC _ => conjD2_valid hρ hC⟩

theorem disjI1_good : GoodIn StdBase Gen.ax_disjI1 :=
  ⟨by decide, fun _ _ hρ hC _ => disjI1_valid hρ hC⟩

theorem disjI2_good : GoodIn StdBase Gen.ax_disjI2 :=
  ⟨by decide, fun _ _ hρ hC _ => disjI2_valid hρ hC⟩

theorem disjE_good : GoodIn StdBase Gen.ax_disjE :=
  ⟨by decide, fun _ _ hρ hC _ => disjE_valid hρ hC⟩

theorem negI_good : GoodIn StdBase Gen.ax_negI :=
  ⟨by decide, fun _ _ hρ hC _ => negI_valid hρ hC⟩

theorem negE_good : GoodIn StdBase Gen.ax_negE :=
  ⟨by decide, fun _ _ hρ hC _ => negE_valid hρ hC⟩

theorem trueI_good : GoodIn StdBase Gen.ax_trueI :=
  ⟨by decide, fun _ _ hρ hC _ => trueI_valid hρ hC⟩

theorem falseE_good : GoodIn StdBase Gen.ax_falseE :=
  ⟨by decide, fun _ _ hρ hC _ => falseE_valid hρ hC⟩

theorem exI_good : GoodIn StdBase Gen.ax_exI :=
  ⟨by decide, fun _ _ hρ hC _ => exI_valid hρ hC⟩

theorem eta_conversion_good : GoodIn StdBase Gen.ax_eta_conversion :=
  ⟨by decide, fun _ _ hρ hC _ => eta_conversion_valid hρ hC⟩

theorem exE_good : GoodIn StdBase Gen.ax_exE :=
  ⟨by decide, fun _ _ hρ hC _ => exE_valid hρ hC⟩

theorem classical_good : GoodIn StdBase Gen.ax_classical :=
  ⟨by decide, fun _ _ hρ hC _ => classical_valid hρ hC⟩

theorem extension_good : GoodIn StdBase Gen.ax_extension :=
  ⟨by decide, fun _ _ hρ hC _ => extension_valid hρ hC⟩

theorem if_P_good : GoodIn StdBase Gen.ax_if_P :=
  ⟨by decide, fun _ _ hρ hC _ => if_P_valid hρ hC⟩

theorem if_not_P_good : GoodIn StdBase Gen.ax_if_not_P :=
  ⟨by decide, fun _ _ hρ hC _ => if_not_P_valid hρ hC⟩

theorem some_AX_good : GoodIn StdBase Gen.ax_some_AX :=
  ⟨by decide, fun _ _ hρ hC _ => some_AX_valid hρ hC⟩

theorem the_equality_good : GoodIn StdBase Gen.ax_the_equality :=
  ⟨by decide, fun _ _ hρ hC _ => the_equality_valid hρ hC⟩

/-- the axioms proved valid above, by name -/
def provedAxioms : List (String × Thm) := [
  ("exists1_def", Gen.ax_exists1_def),
  ("conjI", Gen.ax_conjI),
  ("conjD1", Gen.ax_conjD1),
  ("conjD2", Gen.ax_conjD2),
  ("disjI1", Gen.ax_disjI1),
  ("disjI2", Gen.ax_disjI2),
  ("disjE", Gen.ax_disjE),
  ("negI", Gen.ax_negI),
  ("negE", Gen.ax_negE),
  ("trueI", Gen.ax_trueI),
  ("falseE", Gen.ax_falseE),
  ("exI", Gen.ax_exI),
  ("eta_conversion", Gen.ax_eta_conversion),
  ("exE", Gen.ax_exE),
  ("classical", Gen.ax_classical),
  ("extension", Gen.ax_extension),
  ("if_P", Gen.ax_if_P),
  ("if_not_P", Gen.ax_if_not_P),
  ("some_AX", Gen.ax_some_AX),
  ("the_equality", Gen.ax_the_equality)
]

theorem provedAxioms_good : ∀ p ∈ provedAxioms, GoodIn StdBase p.2 := by
  intro p hp
  simp only [provedAxioms, List.mem_cons, List.mem_nil_iff, or_false] at hp
  rcases hp with rfl | rfl | rfl | rfl | rfl | rfl | rfl | rfl | rfl | rfl | rfl | rfl | rfl | rfl | rfl | rfl | rfl | rfl | rfl | rfl
  · exact exists1_def_good
  · exact conjI_good
  · exact conjD1_good
  · exact conjD2_good
  · exact disjI1_good
  · exact disjI2_good
  · exact disjE_good
  · exact negI_good
  · exact negE_good
  · exact trueI_good
  · exact falseE_good
  · exact exI_good
  · exact eta_conversion_good
  · exact exE_good
  · exact classical_good
  · exact extension_good
  · exact if_P_good
  · exact if_not_P_good
  · exact some_AX_good
  · exact the_equality_good

end Holpy.C01
