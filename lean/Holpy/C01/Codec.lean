import Holpy.Kernel.Thm
/-
C01 end-to-end — Nat codes of types and terms.

C02's checker model works on sequents over opaque propositions (`Nat`) compared by `==`; the real
checker compares terms by `Term.__eq__` (alpha-equivalence).  `encTerm` is the code of the
NAME-ERASED term (a token stream packed in base `B`), so equality of codes is alpha-equivalence
(`encTerm_eq_iff_aeq`, CodecProofs.lean) and `decTerm (encTerm t) = some (erase t)`.
Import-free and executable (linked into the driver).
-/
namespace Holpy.C01.Codec
open Holpy

def B : Nat := 8589934592

/-- a token list as one number: digit `a + 1` per token, least significant first -/
def packL : List Nat → Nat
  | [] => 0
  | a :: l => (a + 1) + B * packL l

def unpackF : Nat → Nat → List Nat
  | 0, _ => []
  | f + 1, n => if n = 0 then [] else (n % B - 1) :: unpackF f (n / B)

def unpackL (n : Nat) : List Nat := unpackF n n

def toksStr (s : String) : List Nat := s.toList.map (fun c => c.toNat + 1) ++ [0]

def toksNat : Nat → List Nat
  | 0 => [0]
  | n + 1 => 1 :: toksNat n

mutual
def toksTy : Ty → List Nat
  | .stvar n => 1 :: toksStr n
  | .tvar n => 2 :: toksStr n
  | .con n args => 3 :: (toksStr n ++ toksTys args)
def toksTys : List Ty → List Nat
  | [] => [0]
  | a :: as => 1 :: (toksTy a ++ toksTys as)
end

/-- suggested bound names are not part of the code -/
def toksTerm : Term → List Nat
  | .svar n T => 1 :: (toksStr n ++ toksTy T)
  | .var n T => 2 :: (toksStr n ++ toksTy T)
  | .const n T => 3 :: (toksStr n ++ toksTy T)
  | .comb f a => 4 :: (toksTerm f ++ toksTerm a)
  | .abs _ T b => 5 :: (toksTy T ++ toksTerm b)
  | .bound i => 6 :: toksNat i

def parseChars : List Nat → Option (List Char × List Nat)
  | [] => none
  | 0 :: r => some ([], r)
  | (c + 1) :: r =>
    match parseChars r with
    | some (cs, r') => some (Char.ofNat c :: cs, r')
    | none => none

def parseStr (l : List Nat) : Option (String × List Nat) :=
  match parseChars l with
  | some (cs, r) => some (String.ofList cs, r)
  | none => none

def parseNat : List Nat → Option (Nat × List Nat)
  | 0 :: r => some (0, r)
  | 1 :: r =>
    match parseNat r with
    | some (n, r') => some (n + 1, r')
    | none => none
  | _ => none

mutual
def parseTy : Nat → List Nat → Option (Ty × List Nat)
  | 0, _ => none
  | f + 1, 1 :: r =>
    match parseStr r with
    | some (n, r') => some (.stvar n, r')
    | none => none
  | f + 1, 2 :: r =>
    match parseStr r with
    | some (n, r') => some (.tvar n, r')
    | none => none
  | f + 1, 3 :: r =>
    match parseStr r with
    | some (n, r') =>
      match parseTys f r' with
      | some (as, r'') => some (.con n as, r'')
      | none => none
    | none => none
  | _ + 1, _ => none
def parseTys : Nat → List Nat → Option (List Ty × List Nat)
  | 0, _ => none
  | _ + 1, 0 :: r => some ([], r)
  | f + 1, 1 :: r =>
    match parseTy f r with
    | some (a, r') =>
      match parseTys f r' with
      | some (as, r'') => some (a :: as, r'')
      | none => none
    | none => none
  | _ + 1, _ => none
end

def parseAtom (mk : String → Ty → Term) (r : List Nat) : Option (Term × List Nat) :=
  match parseStr r with
  | some (n, r') =>
    match parseTy r'.length r' with
    | some (T, r'') => some (mk n T, r'')
    | none => none
  | none => none

def parseTerm : Nat → List Nat → Option (Term × List Nat)
  | 0, _ => none
  | _ + 1, 1 :: r => parseAtom .svar r
  | _ + 1, 2 :: r => parseAtom .var r
  | _ + 1, 3 :: r => parseAtom .const r
  | f + 1, 4 :: r =>
    match parseTerm f r with
    | some (g, r') =>
      match parseTerm f r' with
      | some (a, r'') => some (.comb g a, r'')
      | none => none
    | none => none
  | f + 1, 5 :: r =>
    match parseTy r.length r with
    | some (T, r') =>
      match parseTerm f r' with
      | some (b, r'') => some (.abs "" T b, r'')
      | none => none
    | none => none
  | _ + 1, 6 :: r =>
    match parseNat r with
    | some (i, r') => some (.bound i, r')
    | none => none
  | _ + 1, _ => none

def encTy (T : Ty) : Nat := packL (toksTy T)
def encTerm (t : Term) : Nat := packL (toksTerm t)

def decTy (n : Nat) : Option Ty :=
  let l := unpackL n
  match parseTy l.length l with
  | some (T, []) => some T
  | _ => none

def decTerm (n : Nat) : Option Term :=
  let l := unpackL n
  match parseTerm l.length l with
  | some (t, []) => some t
  | _ => none

end Holpy.C01.Codec
