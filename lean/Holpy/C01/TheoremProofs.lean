import Holpy.C01.AxiomProofs
import Holpy.Kernel.BaseLogicTac
/-
Every theorem of `library/logic_base.json` that carries a stored proof (`GenAxioms.provedTheorems`,
regenerated through the real loader on every run) is valid in every finite standard model under
every standard valuation (`StdBase`) — proved semantically, statement by statement, not by
re-checking the stored proofs (those use macros: C04).  A changed, added or removed theorem
breaks the build.
-/
set_option linter.unusedSectionVars false
set_option linter.unusedSimpArgs false

namespace Holpy.C01
open Holpy

section
variable {M : Model} {ρ : Valuation} (hρ : Admissible M ρ) (hC : StdBase M ρ)
include hρ hC

theorem trivial_valid : holds M ρ Gen.thm_trivial.prop := by
  show holdsIn M ρ [] [] (Term.mkImplies (sB "A") (sB "A"))
  have e := EnvOK.nil M
  sem_norm hρ hC e
  try grind

theorem syllogism_valid : holds M ρ Gen.thm_syllogism.prop := by
  show holdsIn M ρ [] [] (Term.mkImplies (Term.mkImplies (sB "A") (sB "B")) (Term.mkImplies (Term.mkImplies (sB "B") (sB "C")) (Term.mkImplies (sB "A") (sB "C"))))
  have e := EnvOK.nil M
  sem_norm hρ hC e
  try grind

theorem disjE2_valid : holds M ρ Gen.thm_disjE2.prop := by
  show holdsIn M ρ [] [] (Term.mkImplies (Term.mkImplies (sB "A") (sB "C")) (Term.mkImplies (Term.mkImplies (sB "B") (sB "C")) (Term.mkImplies (Term.mkDisj (sB "A") (sB "B")) (sB "C"))))
  have e := EnvOK.nil M
  sem_norm hρ hC e
  try grind

theorem not_false_res_valid : holds M ρ Gen.thm_not_false_res.prop := by
  show holdsIn M ρ [] [] (Term.mkNeg Term.falseC)
  have e := EnvOK.nil M
  sem_norm hρ hC e
  try grind

theorem eq_refl_valid : holds M ρ Gen.thm_eq_refl.prop := by
  show holdsIn M ρ [] [] (Term.eqAt (.stvar "a") (.svar "x" (.stvar "a")) (.svar "x" (.stvar "a")))
  have e := EnvOK.nil M
  sem_norm hρ hC e
  try grind

theorem classical_cases_valid : holds M ρ Gen.thm_classical_cases.prop := by
  show holdsIn M ρ [] [] (Term.mkImplies (Term.mkImplies (sB "A") (sB "C")) (Term.mkImplies (Term.mkImplies (Term.mkNeg (sB "A")) (sB "C")) (sB "C")))
  have e := EnvOK.nil M
  sem_norm hρ hC e
  try grind

theorem negE_gen_valid : holds M ρ Gen.thm_negE_gen.prop := by
  show holdsIn M ρ [] [] (Term.mkImplies (Term.mkNeg (sB "A")) (Term.mkImplies (sB "A") (sB "C")))
  have e := EnvOK.nil M
  sem_norm hρ hC e
  try grind

theorem contradiction_valid : holds M ρ Gen.thm_contradiction.prop := by
  show holdsIn M ρ [] [] (Term.mkImplies (Term.mkImplies (Term.mkNeg (sB "P")) (sB "P")) (sB "P"))
  have e := EnvOK.nil M
  sem_norm hρ hC e
  try grind

theorem contrapositive_valid : holds M ρ Gen.thm_contrapositive.prop := by
  show holdsIn M ρ [] [] (Term.mkImplies (sB "P") (Term.mkImplies (Term.mkImplies (Term.mkNeg (sB "Q")) (Term.mkNeg (sB "P"))) (sB "Q")))
  have e := EnvOK.nil M
  sem_norm hρ hC e
  try grind

theorem iffI_valid : holds M ρ Gen.thm_iffI.prop := by
  show holdsIn M ρ [] [] (Term.mkImplies (Term.mkImplies (sB "A") (sB "B")) (Term.mkImplies (Term.mkImplies (sB "B") (sB "A")) (Term.eqAt Ty.bool (sB "A") (sB "B"))))
  have e := EnvOK.nil M
  sem_norm hρ hC e
  try grind

theorem ineq_sym_valid : holds M ρ Gen.thm_ineq_sym.prop := by
  show holdsIn M ρ [] [] (Term.mkImplies (Term.mkNeg (Term.eqAt (.stvar "a") (.svar "x" (.stvar "a")) (.svar "y" (.stvar "a")))) (Term.mkNeg (Term.eqAt (.stvar "a") (.svar "y" (.stvar "a")) (.svar "x" (.stvar "a")))))
  have e := EnvOK.nil M
  sem_norm hρ hC e
  try grind

theorem eq_sym_eq_valid : holds M ρ Gen.thm_eq_sym_eq.prop := by
  show holdsIn M ρ [] [] (Term.eqAt Ty.bool (Term.eqAt (.stvar "a") (.svar "x" (.stvar "a")) (.svar "y" (.stvar "a"))) (Term.eqAt (.stvar "a") (.svar "y" (.stvar "a")) (.svar "x" (.stvar "a"))))
  have e := EnvOK.nil M
  sem_norm hρ hC e
  try grind

theorem someI_valid : holds M ρ Gen.thm_someI.prop := by
  show holdsIn M ρ [] [] (Term.mkImplies (.comb (.svar "P" (Ty.fn (.stvar "a") Ty.bool)) (.svar "x" (.stvar "a"))) (.comb (.svar "P" (Ty.fn (.stvar "a") Ty.bool)) (Term.someAt (.stvar "a") (.abs "x1" (.stvar "a") (.comb (.svar "P" (Ty.fn (.stvar "a") Ty.bool)) (.bound 0))))))
  have e := EnvOK.nil M
  sem_norm hρ hC e
  intro h
  exact hC.some tA _ _ (sP_lt hρ hC) (hρ 0 "x" tA) h

theorem exists_thm_valid : holds M ρ Gen.thm_exists_thm.prop := by
  show holdsIn M ρ [] [] (Term.eqAt (Ty.fn (Ty.fn (.stvar "a") Ty.bool) Ty.bool) (.const "exists" (Ty.fn (Ty.fn (.stvar "a") Ty.bool) Ty.bool)) (.abs "P" (Ty.fn (.stvar "a") Ty.bool) (.comb (.bound 0) (Term.someAt (.stvar "a") (.bound 0)))))
  have e := EnvOK.nil M
  sem_norm hρ hC e
  have hb : typedIn [Ty.fn tA Ty.bool] (.comb (.bound 0) (Term.someAt tA (.bound 0))) Ty.bool = true := by
    decide
  have hl : sem M ρ [] [] (.const "exists" (Ty.fn (Ty.fn tA Ty.bool) Ty.bool)) = exCode (M.size tA) := by
    simp only [sem]; exact constVal_exists hC tA
  rw [hl]
  have hr := sem_abs_lt_typed hρ e hb (x := "P")
  rw [Model.size_bool, Model.size_fn, Model.size_bool] at hr
  apply code_ext _ _ (2 ^ M.size tA) 2 (exCode_lt _) hr
  intro p hp
  have hp' : p < M.size (Ty.fn tA Ty.bool) := by rw [Model.size_fn, Model.size_bool]; exact hp
  have h1 := appCode_abs_typed hρ e hb hp' (x := "P")
  rw [Model.size_bool] at h1
  rw [h1, semApp hρ (e.cons hp') (A := tA) (B := Ty.bool) (by decide), sem_bound_zero, sem_someAt,
    sem_bound_zero, Model.size_bool]
  apply bool_eq_of_iff (appCode_exCode_lt _ _) (appCode_lt _ _ _ (by decide))
  rw [appCode_exCode _ _ hp]
  constructor
  · rintro ⟨v, hv, h2⟩; exact hC.some tA p v hp hv h2
  · intro h; exact ⟨_, appCode_lt _ _ _ (M.size_pos tA), h⟩

theorem some_refl_valid : holds M ρ Gen.thm_some_refl.prop := by
  show holdsIn M ρ [] [] (Term.eqAt (.stvar "a") (Term.someAt (.stvar "a") (.abs "y" (.stvar "a") (Term.eqAt (.stvar "a") (.bound 0) (.svar "x" (.stvar "a"))))) (.svar "x" (.stvar "a")))
  have e := EnvOK.nil M
  sem_norm hρ hC e
  have hb : typedIn [tA] (Term.eqAt tA (.bound 0) (.svar "x" tA)) Ty.bool = true := by decide
  have hp := sem_abs_lt_typed hρ e hb (x := "y")
  rw [Model.size_bool] at hp
  have dig : ∀ v, v < M.size tA →
      (appCode (sem M ρ [] [] (.abs "y" tA (Term.eqAt tA (.bound 0) (.svar "x" tA)))) v 2 = 1
        ↔ v = ρ 0 "x" tA) := by
    intro v hv
    have h1 := appCode_abs_typed hρ e hb hv (x := "y")
    rw [Model.size_bool] at h1
    rw [h1]
    show holdsIn M ρ [tA] [v] _ ↔ _
    sem_norm hρ hC (e.cons hv)
  have hx := hρ 0 "x" tA
  have h1 := hC.some tA _ _ hp hx ((dig _ hx).2 rfl)
  exact (dig _ (appCode_lt _ _ _ (M.size_pos tA))).1 h1

theorem some_unique_valid : holds M ρ Gen.thm_some_unique.prop := by
  show holdsIn M ρ [] [] (Term.mkImplies (Term.allAt (.stvar "a") (.abs "y" (.stvar "a") (Term.eqAt Ty.bool (.comb (.svar "P" (Ty.fn (.stvar "a") Ty.bool)) (.bound 0)) (Term.eqAt (.stvar "a") (.bound 0) (.svar "x" (.stvar "a")))))) (Term.eqAt (.stvar "a") (Term.someAt (.stvar "a") (.svar "P" (Ty.fn (.stvar "a") Ty.bool))) (.svar "x" (.stvar "a"))))
  have e := EnvOK.nil M
  sem_norm hρ hC e
  intro h
  rw [hAllAbs hρ e (by decide)] at h
  have key : ∀ v, v < M.size tA → (appCode (ρ 0 "P" (Ty.fn tA Ty.bool)) v 2 = 1 ↔ v = ρ 0 "x" tA) := by
    intro v hv
    have h1 := h v hv
    sem_norm hρ hC (e.cons hv) at h1
    exact h1
  have hx := hρ 0 "x" tA
  have h1 := hC.some tA _ _ (sP_lt hρ hC) hx ((key _ hx).2 rfl)
  exact (key _ (appCode_lt _ _ _ (M.size_pos tA))).1 h1

theorem theI_valid : holds M ρ Gen.thm_theI.prop := by
  show holdsIn M ρ [] [] (Term.mkImplies (.comb (.svar "P" (Ty.fn (.stvar "a") Ty.bool)) (.svar "a" (.stvar "a"))) (Term.mkImplies (Term.allAt (.stvar "a") (.abs "x" (.stvar "a") (Term.mkImplies (.comb (.svar "P" (Ty.fn (.stvar "a") Ty.bool)) (.bound 0)) (Term.eqAt (.stvar "a") (.bound 0) (.svar "a" (.stvar "a")))))) (.comb (.svar "P" (Ty.fn (.stvar "a") Ty.bool)) (Term.theAt (.stvar "a") (.abs "x" (.stvar "a") (.comb (.svar "P" (Ty.fn (.stvar "a") Ty.bool)) (.bound 0)))))))
  have e := EnvOK.nil M
  sem_norm hρ hC e
  intro h1 h2
  rw [hAllAbs hρ e (by decide)] at h2
  have hu : ∀ w, w < M.size tA → appCode (ρ 0 "P" (Ty.fn tA Ty.bool)) w 2 = 1 → w = ρ 0 "a" tA := by
    intro w hw hw1
    have h3 := h2 w hw
    sem_norm hρ hC (e.cons hw) at h3
    exact h3 hw1
  rw [hC.the tA _ _ (sP_lt hρ hC) (hρ 0 "a" tA) h1 hu]
  exact h1

theorem some_the_valid : holds M ρ Gen.thm_some_the.prop := by
  show holdsIn M ρ [] [] (Term.mkImplies (.comb (.svar "P" (Ty.fn (.stvar "a") Ty.bool)) (.svar "a" (.stvar "a"))) (Term.mkImplies (Term.allAt (.stvar "a") (.abs "x" (.stvar "a") (Term.mkImplies (.comb (.svar "P" (Ty.fn (.stvar "a") Ty.bool)) (.bound 0)) (Term.eqAt (.stvar "a") (.bound 0) (.svar "a" (.stvar "a")))))) (Term.eqAt (.stvar "a") (Term.theAt (.stvar "a") (.abs "x" (.stvar "a") (.comb (.svar "P" (Ty.fn (.stvar "a") Ty.bool)) (.bound 0)))) (Term.someAt (.stvar "a") (.abs "x" (.stvar "a") (.comb (.svar "P" (Ty.fn (.stvar "a") Ty.bool)) (.bound 0)))))))
  have e := EnvOK.nil M
  sem_norm hρ hC e
  intro h1 h2
  rw [hAllAbs hρ e (by decide)] at h2
  have hu : ∀ w, w < M.size tA → appCode (ρ 0 "P" (Ty.fn tA Ty.bool)) w 2 = 1 → w = ρ 0 "a" tA := by
    intro w hw hw1
    have h3 := h2 w hw
    sem_norm hρ hC (e.cons hw) at h3
    exact h3 hw1
  rw [hC.the tA _ _ (sP_lt hρ hC) (hρ 0 "a" tA) h1 hu]
  have hs := hC.some tA _ _ (sP_lt hρ hC) (hρ 0 "a" tA) h1
  exact (hu _ (appCode_lt _ _ _ (M.size_pos tA)) hs).symm

theorem theI_27__valid : holds M ρ Gen.thm_theI_27_.prop := by
  show holdsIn M ρ [] [] (Term.mkImplies (Term.exists1At (.stvar "a") (.abs "x" (.stvar "a") (.comb (.svar "P" (Ty.fn (.stvar "a") Ty.bool)) (.bound 0)))) (.comb (.svar "P" (Ty.fn (.stvar "a") Ty.bool)) (Term.theAt (.stvar "a") (.abs "x" (.stvar "a") (.comb (.svar "P" (Ty.fn (.stvar "a") Ty.bool)) (.bound 0))))))
  have e := EnvOK.nil M
  sem_norm hρ hC e
  intro h
  rw [hEx1 hρ hC e (by decide)] at h
  simp only [sem_eta_svar hρ e] at h
  obtain ⟨x, hx, h1, hu⟩ := h
  rw [hC.the tA _ _ (sP_lt hρ hC) hx h1 hu]
  exact h1

theorem if_true_valid : holds M ρ Gen.thm_if_true.prop := by
  show holdsIn M ρ [] [] (Term.eqAt (.stvar "a") (Term.ifAt (.stvar "a") Term.trueC (.svar "a" (.stvar "a")) (.svar "b" (.stvar "a"))) (.svar "a" (.stvar "a")))
  have e := EnvOK.nil M
  sem_norm hρ hC e
  try grind

theorem if_false_valid : holds M ρ Gen.thm_if_false.prop := by
  show holdsIn M ρ [] [] (Term.eqAt (.stvar "a") (Term.ifAt (.stvar "a") Term.falseC (.svar "a" (.stvar "a")) (.svar "b" (.stvar "a"))) (.svar "b" (.stvar "a")))
  have e := EnvOK.nil M
  sem_norm hρ hC e
  try grind

theorem if_P1_valid : holds M ρ Gen.thm_if_P1.prop := by
  show holdsIn M ρ [] [] (Term.mkImplies (sB "P") (Term.eqAt (.stvar "a") (Term.ifAt (.stvar "a") (sB "P") (.svar "a" (.stvar "a")) (.svar "b" (.stvar "a"))) (.svar "a" (.stvar "a"))))
  have e := EnvOK.nil M
  sem_norm hρ hC e
  try grind

theorem if_not_P1_valid : holds M ρ Gen.thm_if_not_P1.prop := by
  show holdsIn M ρ [] [] (Term.mkImplies (Term.mkNeg (sB "P")) (Term.eqAt (.stvar "a") (Term.ifAt (.stvar "a") (sB "P") (.svar "a" (.stvar "a")) (.svar "b" (.stvar "a"))) (.svar "b" (.stvar "a"))))
  have e := EnvOK.nil M
  sem_norm hρ hC e
  try grind

theorem if_not_P2_valid : holds M ρ Gen.thm_if_not_P2.prop := by
  show holdsIn M ρ [] [] (Term.mkImplies (sB "P") (Term.eqAt (.stvar "a") (Term.ifAt (.stvar "a") (Term.mkNeg (sB "P")) (.svar "a" (.stvar "a")) (.svar "b" (.stvar "a"))) (.svar "b" (.stvar "a"))))
  have e := EnvOK.nil M
  sem_norm hρ hC e
  try grind

theorem cond_id_valid : holds M ρ Gen.thm_cond_id.prop := by
  show holdsIn M ρ [] [] (Term.eqAt (.stvar "a") (Term.ifAt (.stvar "a") (sB "P") (.svar "t" (.stvar "a")) (.svar "t" (.stvar "a"))) (.svar "t" (.stvar "a")))
  have e := EnvOK.nil M
  sem_norm hρ hC e
  try grind

theorem cond_rand_valid : holds M ρ Gen.thm_cond_rand.prop := by
  show holdsIn M ρ [] [] (Term.eqAt (.stvar "b") (.comb (.svar "f" (Ty.fn (.stvar "a") (.stvar "b"))) (Term.ifAt (.stvar "a") (sB "P") (.svar "x" (.stvar "a")) (.svar "y" (.stvar "a")))) (Term.ifAt (.stvar "b") (sB "P") (.comb (.svar "f" (Ty.fn (.stvar "a") (.stvar "b"))) (.svar "x" (.stvar "a"))) (.comb (.svar "f" (Ty.fn (.stvar "a") (.stvar "b"))) (.svar "y" (.stvar "a")))))
  have e := EnvOK.nil M
  sem_norm hρ hC e
  try grind

theorem cond_rator_valid : holds M ρ Gen.thm_cond_rator.prop := by
  show holdsIn M ρ [] [] (Term.eqAt (.stvar "b") (.comb (Term.ifAt (Ty.fn (.stvar "a") (.stvar "b")) (sB "P") (.svar "f" (Ty.fn (.stvar "a") (.stvar "b"))) (.svar "g" (Ty.fn (.stvar "a") (.stvar "b")))) (.svar "x" (.stvar "a"))) (Term.ifAt (.stvar "b") (sB "P") (.comb (.svar "f" (Ty.fn (.stvar "a") (.stvar "b"))) (.svar "x" (.stvar "a"))) (.comb (.svar "g" (Ty.fn (.stvar "a") (.stvar "b"))) (.svar "x" (.stvar "a")))))
  have e := EnvOK.nil M
  sem_norm hρ hC e
  rw [semApp hρ e (A := tA) (B := tB) (by decide), semIf hρ hC e (by decide) (by decide) (by decide)]
  split <;> rfl

theorem cond_abs_valid : holds M ρ Gen.thm_cond_abs.prop := by
  show holdsIn M ρ [] [] (Term.eqAt (Ty.fn (.stvar "a") (.stvar "b")) (.abs "x" (.stvar "a") (Term.ifAt (.stvar "b") (sB "P") (.comb (.svar "f" (Ty.fn (.stvar "a") (.stvar "b"))) (.bound 0)) (.comb (.svar "g" (Ty.fn (.stvar "a") (.stvar "b"))) (.bound 0)))) (Term.ifAt (Ty.fn (.stvar "a") (.stvar "b")) (sB "P") (.svar "f" (Ty.fn (.stvar "a") (.stvar "b"))) (.svar "g" (Ty.fn (.stvar "a") (.stvar "b")))))
  have e := EnvOK.nil M
  sem_norm hρ hC e
  have hb : typedIn [tA] (Term.ifAt tB (sB "P") (.comb sF b0) (.comb sG b0)) tB = true := by decide
  have hl := sem_abs_lt_typed hρ e hb (x := "x")
  have hf := hρ 0 "f" (Ty.fn tA tB)
  have hg := hρ 0 "g" (Ty.fn tA tB)
  rw [Model.size_fn] at hf hg
  apply code_ext _ _ (M.size tA) (M.size tB) hl (by split <;> assumption)
  intro v hv
  rw [appCode_abs_typed hρ e hb hv, semIf hρ hC (e.cons hv) (by decide) (by decide) (by decide)]
  simp only [sem_app_svar, sem_bound_zero]
  show (if ρ 0 "P" Ty.bool = 1 then _ else _) = appCode (if ρ 0 "P" Ty.bool = 1 then _ else _) v _
  split <;> rfl

theorem cond_swap_valid : holds M ρ Gen.thm_cond_swap.prop := by
  show holdsIn M ρ [] [] (Term.eqAt (.stvar "a") (Term.ifAt (.stvar "a") (Term.mkNeg (sB "P")) (.svar "x" (.stvar "a")) (.svar "y" (.stvar "a"))) (Term.ifAt (.stvar "a") (sB "P") (.svar "y" (.stvar "a")) (.svar "x" (.stvar "a"))))
  have e := EnvOK.nil M
  sem_norm hρ hC e
  try grind

theorem mono_cond_valid : holds M ρ Gen.thm_mono_cond.prop := by
  show holdsIn M ρ [] [] (Term.mkImplies (Term.mkImplies (sB "A") (sB "B")) (Term.mkImplies (Term.mkImplies (sB "C") (sB "D")) (Term.mkImplies (Term.ifAt Ty.bool (sB "P") (sB "A") (sB "C")) (Term.ifAt Ty.bool (sB "P") (sB "B") (sB "D")))))
  have e := EnvOK.nil M
  sem_norm hρ hC e
  try grind

theorem cond_elim_thm_valid : holds M ρ Gen.thm_cond_elim_thm.prop := by
  show holdsIn M ρ [] [] (Term.eqAt Ty.bool (.comb (.svar "P" (Ty.fn (.stvar "a") Ty.bool)) (Term.ifAt (.stvar "a") (sB "c") (.svar "x" (.stvar "a")) (.svar "y" (.stvar "a")))) (Term.mkConj (Term.mkImplies (sB "c") (.comb (.svar "P" (Ty.fn (.stvar "a") Ty.bool)) (.svar "x" (.stvar "a")))) (Term.mkImplies (Term.mkNeg (sB "c")) (.comb (.svar "P" (Ty.fn (.stvar "a") Ty.bool)) (.svar "y" (.stvar "a"))))))
  have e := EnvOK.nil M
  sem_norm hρ hC e
  try grind

theorem resolution_left_valid : holds M ρ Gen.thm_resolution_left.prop := by
  show holdsIn M ρ [] [] (Term.mkImplies (Term.mkDisj (sB "A") (sB "B")) (Term.mkImplies (Term.mkNeg (sB "A")) (sB "B")))
  have e := EnvOK.nil M
  sem_norm hρ hC e
  try grind

theorem resolution_right_valid : holds M ρ Gen.thm_resolution_right.prop := by
  show holdsIn M ρ [] [] (Term.mkImplies (sB "A") (Term.mkImplies (Term.mkDisj (Term.mkNeg (sB "A")) (sB "B")) (sB "B")))
  have e := EnvOK.nil M
  sem_norm hρ hC e
  try grind

theorem resolution_valid : holds M ρ Gen.thm_resolution.prop := by
  show holdsIn M ρ [] [] (Term.mkImplies (Term.mkDisj (sB "A") (sB "B")) (Term.mkImplies (Term.mkDisj (Term.mkNeg (sB "A")) (sB "C")) (Term.mkDisj (sB "B") (sB "C"))))
  have e := EnvOK.nil M
  sem_norm hρ hC e
  try grind

theorem conjE_valid : holds M ρ Gen.thm_conjE.prop := by
  show holdsIn M ρ [] [] (Term.mkImplies (Term.mkConj (sB "A") (sB "B")) (Term.mkImplies (Term.mkImplies (sB "A") (Term.mkImplies (sB "B") (sB "C"))) (sB "C")))
  have e := EnvOK.nil M
  sem_norm hρ hC e
  try grind

theorem allE_valid : holds M ρ Gen.thm_allE.prop := by
  show holdsIn M ρ [] [] (Term.mkImplies (Term.allAt (.stvar "a") (.abs "x1" (.stvar "a") (.comb (.svar "P" (Ty.fn (.stvar "a") Ty.bool)) (.bound 0)))) (Term.mkImplies (Term.mkImplies (.comb (.svar "P" (Ty.fn (.stvar "a") Ty.bool)) (.svar "x" (.stvar "a"))) (sB "R")) (sB "R")))
  have e := EnvOK.nil M
  sem_norm hρ hC e
  intro h1 h2
  rw [hAllAbs hρ e (by decide)] at h1
  have h3 := h1 _ (hρ 0 "x" tA)
  sem_norm hρ hC (e.cons (hρ 0 "x" tA)) at h3
  exact h2 h3


end

/-! ### well-typed and valid -/

theorem trivial_good : GoodIn StdBase Gen.thm_trivial :=
  ⟨by decide, fun _ _ hρ hC _ => trivial_valid hρ hC⟩

theorem syllogism_good : GoodIn StdBase Gen.thm_syllogism :=
  ⟨by decide, fun _ _ hρ hC _ => syllogism_valid hρ hC⟩

theorem disjE2_good : GoodIn StdBase Gen.thm_disjE2 :=
  ⟨by decide, fun _ _ hρ hC _ => disjE2_valid hρ hC⟩

theorem not_false_res_good : GoodIn StdBase Gen.thm_not_false_res :=
  ⟨by decide, fun _ _ hρ hC _ => not_false_res_valid hρ hC⟩

theorem eq_refl_good : GoodIn StdBase Gen.thm_eq_refl :=
  ⟨by decide, fun _ _ hρ hC _ => eq_refl_valid hρ hC⟩

theorem classical_cases_good : GoodIn StdBase Gen.thm_classical_cases :=
  ⟨by decide, fun _ _ hρ hC _ => classical_cases_valid hρ hC⟩

theorem negE_gen_good : GoodIn StdBase Gen.thm_negE_gen :=
  ⟨by decide, fun _ _ hρ hC _ => negE_gen_valid hρ hC⟩

theorem contradiction_good : GoodIn StdBase Gen.thm_contradiction :=
  ⟨by decide, fun _ _ hρ hC _ => contradiction_valid hρ hC⟩

theorem contrapositive_good : GoodIn StdBase Gen.thm_contrapositive :=
  ⟨by decide, fun _ _ hρ hC _ => contrapositive_valid hρ hC⟩

theorem iffI_good : GoodIn StdBase Gen.thm_iffI :=
  ⟨by decide, fun _ _ hρ hC _ => iffI_valid hρ hC⟩

theorem ineq_sym_good : GoodIn StdBase Gen.thm_ineq_sym :=
  ⟨by decide, fun _ _ hρ hC _ => ineq_sym_valid hρ hC⟩

theorem eq_sym_eq_good : GoodIn StdBase Gen.thm_eq_sym_eq :=
  ⟨by decide, fun _ _ hρ hC _ => eq_sym_eq_valid hρ hC⟩

theorem someI_good : GoodIn StdBase Gen.thm_someI :=
  ⟨by decide, fun _ _ hρ hC _ => someI_valid hρ hC⟩

theorem exists_thm_good : GoodIn StdBase Gen.thm_exists_thm :=
  ⟨by decide, fun _ _ hρ hC _ => exists_thm_valid hρ hC⟩

theorem some_refl_good : GoodIn StdBase Gen.thm_some_refl :=
  ⟨by decide, fun _ _ hρ hC _ => some_refl_valid hρ hC⟩

theorem some_unique_good : GoodIn StdBase Gen.thm_some_unique :=
  ⟨by decide, fun _ _ hρ hC _ => some_unique_valid hρ hC⟩

theorem theI_good : GoodIn StdBase Gen.thm_theI :=
  ⟨by decide, fun _ _ hρ hC _ => theI_valid hρ hC⟩

theorem some_the_good : GoodIn StdBase Gen.thm_some_the :=
  ⟨by decide, fun _ _ hρ hC _ => some_the_valid hρ hC⟩

theorem theI_27__good : GoodIn StdBase Gen.thm_theI_27_ :=
  ⟨by decide, fun _ _ hρ hC _ => theI_27__valid hρ hC⟩

theorem if_true_good : GoodIn StdBase Gen.thm_if_true :=
  ⟨by decide, fun _ _ hρ hC _ => if_true_valid hρ hC⟩

theorem if_false_good : GoodIn StdBase Gen.thm_if_false :=
  ⟨by decide, fun _ _ hρ hC _ => if_false_valid hρ hC⟩

theorem if_P1_good : GoodIn StdBase Gen.thm_if_P1 :=
  ⟨by decide, fun _ _ hρ hC _ => if_P1_valid hρ hC⟩

theorem if_not_P1_good : GoodIn StdBase Gen.thm_if_not_P1 :=
  ⟨by decide, fun _ _ hρ hC _ => if_not_P1_valid hρ hC⟩

theorem if_not_P2_good : GoodIn StdBase Gen.thm_if_not_P2 :=
  ⟨by decide, fun _ _ hρ hC _ => if_not_P2_valid hρ hC⟩

theorem cond_id_good : GoodIn StdBase Gen.thm_cond_id :=
  ⟨by decide, fun _ _ hρ hC _ => cond_id_valid hρ hC⟩

theorem cond_rand_good : GoodIn StdBase Gen.thm_cond_rand :=
  ⟨by decide, fun _ _ hρ hC _ => cond_rand_valid hρ hC⟩

theorem cond_rator_good : GoodIn StdBase Gen.thm_cond_rator :=
  ⟨by decide, fun _ _ hρ hC _ => cond_rator_valid hρ hC⟩

theorem cond_abs_good : GoodIn StdBase Gen.thm_cond_abs :=
  ⟨by decide, fun _ _ hρ hC _ => cond_abs_valid hρ hC⟩

theorem cond_swap_good : GoodIn StdBase Gen.thm_cond_swap :=
  ⟨by decide, fun _ _ hρ hC _ => cond_swap_valid hρ hC⟩

theorem mono_cond_good : GoodIn StdBase Gen.thm_mono_cond :=
  ⟨by decide, fun _ _ hρ hC _ => mono_cond_valid hρ hC⟩

theorem cond_elim_thm_good : GoodIn StdBase Gen.thm_cond_elim_thm :=
  ⟨by decide, fun _ _ hρ hC _ => cond_elim_thm_valid hρ hC⟩

theorem resolution_left_good : GoodIn StdBase Gen.thm_resolution_left :=
  ⟨by decide, fun _ _ hρ hC _ => resolution_left_valid hρ hC⟩

theorem resolution_right_good : GoodIn StdBase Gen.thm_resolution_right :=
  ⟨by decide, fun _ _ hρ hC _ => resolution_right_valid hρ hC⟩

theorem resolution_good : GoodIn StdBase Gen.thm_resolution :=
  ⟨by decide, fun _ _ hρ hC _ => resolution_valid hρ hC⟩

theorem conjE_good : GoodIn StdBase Gen.thm_conjE :=
  ⟨by decide, fun _ _ hρ hC _ => conjE_valid hρ hC⟩

theorem allE_good : GoodIn StdBase Gen.thm_allE :=
  ⟨by decide, fun _ _ hρ hC _ => allE_valid hρ hC⟩

/-- the proved theorems of logic_base shown valid above, by name -/
def checkedTheorems : List (String × Thm) := [
  ("trivial", Gen.thm_trivial),
  ("syllogism", Gen.thm_syllogism),
  ("disjE2", Gen.thm_disjE2),
  ("not_false_res", Gen.thm_not_false_res),
  ("eq_refl", Gen.thm_eq_refl),
  ("classical_cases", Gen.thm_classical_cases),
  ("negE_gen", Gen.thm_negE_gen),
  ("contradiction", Gen.thm_contradiction),
  ("contrapositive", Gen.thm_contrapositive),
  ("iffI", Gen.thm_iffI),
  ("ineq_sym", Gen.thm_ineq_sym),
  ("eq_sym_eq", Gen.thm_eq_sym_eq),
  ("someI", Gen.thm_someI),
  ("exists_thm", Gen.thm_exists_thm),
  ("some_refl", Gen.thm_some_refl),
  ("some_unique", Gen.thm_some_unique),
  ("theI", Gen.thm_theI),
  ("some_the", Gen.thm_some_the),
  ("theI'", Gen.thm_theI_27_),
  ("if_true", Gen.thm_if_true),
  ("if_false", Gen.thm_if_false),
  ("if_P1", Gen.thm_if_P1),
  ("if_not_P1", Gen.thm_if_not_P1),
  ("if_not_P2", Gen.thm_if_not_P2),
  ("cond_id", Gen.thm_cond_id),
  ("cond_rand", Gen.thm_cond_rand),
  ("cond_rator", Gen.thm_cond_rator),
  ("cond_abs", Gen.thm_cond_abs),
  ("cond_swap", Gen.thm_cond_swap),
  ("mono_cond", Gen.thm_mono_cond),
  ("cond_elim_thm", Gen.thm_cond_elim_thm),
  ("resolution_left", Gen.thm_resolution_left),
  ("resolution_right", Gen.thm_resolution_right),
  ("resolution", Gen.thm_resolution),
  ("conjE", Gen.thm_conjE),
  ("allE", Gen.thm_allE)
]

theorem checkedTheorems_good : ∀ p ∈ checkedTheorems, GoodIn StdBase p.2 := by
  intro p hp
  simp only [checkedTheorems, List.mem_cons, List.mem_nil_iff, or_false] at hp
  rcases hp with rfl | rfl | rfl | rfl | rfl | rfl | rfl | rfl | rfl | rfl | rfl | rfl | rfl | rfl | rfl | rfl | rfl | rfl | rfl | rfl | rfl | rfl | rfl | rfl | rfl | rfl | rfl | rfl | rfl | rfl | rfl | rfl | rfl | rfl | rfl | rfl
  · exact trivial_good
  · exact syllogism_good
  · exact disjE2_good
  · exact not_false_res_good
  · exact eq_refl_good
  · exact classical_cases_good
  · exact negE_gen_good
  · exact contradiction_good
  · exact contrapositive_good
  · exact iffI_good
  · exact ineq_sym_good
  · exact eq_sym_eq_good
  · exact someI_good
  · exact exists_thm_good
  · exact some_refl_good
  · exact some_unique_good
  · exact theI_good
  · exact some_the_good
  · exact theI_27__good
  · exact if_true_good
  · exact if_false_good
  · exact if_P1_good
  · exact if_not_P1_good
  · exact if_not_P2_good
  · exact cond_id_good
  · exact cond_rand_good
  · exact cond_rator_good
  · exact cond_abs_good
  · exact cond_swap_good
  · exact mono_cond_good
  · exact cond_elim_thm_good
  · exact resolution_left_good
  · exact resolution_right_good
  · exact resolution_good
  · exact conjE_good
  · exact allE_good

end Holpy.C01
