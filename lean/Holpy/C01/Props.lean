import Holpy.Kernel.Sem
import Holpy.C01.Gen
/-
C01 — property theorems.  (The semantic soundness theorems are added when the kernel proof
files are merged; this first part pins the rule table regenerated from `kernel/thm.py`.)
-/
namespace Holpy.C01

/-- The rules `primitive_deriv` offers are exactly the 15 the model implements, with the argument
signatures the model's dispatch expects: a rule added, removed or re-typed in `kernel/thm.py`
breaks this obligation. -/
theorem rule_table_pinned :
    Gen.primitiveDeriv.map (fun r => (r.1, r.2.2)) =
      [("assume", "Term"), ("implies_intr", "Term"), ("implies_elim", "None"), ("reflexive", "Term"),
       ("symmetric", "None"), ("transitive", "None"), ("combination", "None"), ("equal_intr", "None"),
       ("equal_elim", "None"), ("subst_type", "TyInst"), ("substitution", "Inst"), ("beta_conv", "Term"),
       ("abstraction", "Term"), ("forall_intr", "Term"), ("forall_elim", "Term")] := by decide

def ruleKnown (r : String) : Bool :=
  match applyRule r .none [] with
  | .error .noRule => false
  | _ => true

/-- every rule of the table has a clause in the model's dispatch -/
theorem rule_table_modelled : (Gen.primitiveDeriv.map (·.1)).all ruleKnown = true := by decide

end Holpy.C01
