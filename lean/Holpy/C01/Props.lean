import Holpy.Kernel.SoundnessIn
import Holpy.C01.Gen
/-
C01 — every sequent the checker accepts from primitive inferences is valid.

`Good th` (Kernel/Soundness.lean) = `th` passes `check_thm_type` (well-typed; and, as the checker
enforces it, the logical constants `equals`/`implies`/`all` occur at instances of their declared
types only) and is valid in EVERY finite standard model: every assignment
of sizes ≥ 1 to type variables, schematic type variables and type constructors, and every
admissible valuation of free variables, schematic variables and non-logical constants.
-/
namespace Holpy.C01
open Holpy

/-! ### the rule table regenerated from `kernel/thm.py` -/

/-- The rules `primitive_deriv` offers are exactly the 15 the model implements, each bound to the
`Thm` method of the same name and with the argument signature the model's dispatch expects: a rule
added, removed, re-typed or re-bound to another function in `kernel/thm.py` breaks this
obligation. -/
theorem rule_table_pinned :
    Gen.primitiveDeriv =
      [("assume", "Thm.assume", "Term"), ("implies_intr", "Thm.implies_intr", "Term"),
       ("implies_elim", "Thm.implies_elim", "None"), ("reflexive", "Thm.reflexive", "Term"),
       ("symmetric", "Thm.symmetric", "None"), ("transitive", "Thm.transitive", "None"),
       ("combination", "Thm.combination", "None"), ("equal_intr", "Thm.equal_intr", "None"),
       ("equal_elim", "Thm.equal_elim", "None"), ("subst_type", "Thm.subst_type", "TyInst"),
       ("substitution", "Thm.substitution", "Inst"), ("beta_conv", "Thm.beta_conv", "Term"),
       ("abstraction", "Thm.abstraction", "Term"), ("forall_intr", "Thm.forall_intr", "Term"),
       ("forall_elim", "Thm.forall_elim", "Term")] := by decide

def ruleKnown (r : String) : Bool :=
  match applyRule r .none [] with
  | .error .noRule => false
  | _ => true

/-- every rule of the table has a clause in the model's dispatch -/
theorem rule_table_modelled : (Gen.primitiveDeriv.map (·.1)).all ruleKnown = true := by decide

/-! ### soundness of one checker step -/

/-- some sequent, for the examples below -/
def falseThm0 : Thm := ⟨[], .const "false" Ty.bool⟩

def isBadInput : Except RErr Thm → Bool
  | .error .badInput => true
  | _ => false

/-- One step of the checker on a primitive rule (`applyRule` followed by `check_thm_type`): from
premises that are well-typed and valid in every finite standard model, an accepted result is
well-typed and valid in every finite standard model — WHATEVER the argument is (ill-typed, open,
clashing names, schematic variables in hypotheses, mis-typed logical constants, an object of the
wrong kind …).  (The rule proofs are in Kernel/SoundnessIn.lean.) -/
theorem prim_sound (rule : String) (arg : Arg) (prems : List Thm) (th : Thm)
    (hp : ∀ p ∈ prems, Good p)
    (h : checkStep rule arg prems = .ok th) : Good th :=
  prim_sound_of_in rule arg prems th hp h

/-- a step whose argument is not of the kind the rule expects, or with the wrong number of
premises, is rejected ("invalid input to derivation") -/
example : isBadInput (checkStep "implies_elim" .other [falseThm0, falseThm0]) = true := by decide
example : isBadInput (checkStep "assume" .none []) = true := by decide
example : isBadInput (checkStep "subst_type" .none [falseThm0, falseThm0]) = true := by decide
example : isBadInput (checkStep "symmetric" .none []) = true := by decide

/-! ### soundness of accepted proof scripts -/

/-- Every sequent of every script (any length) that the checker model accepts is Good, provided
the sequents it starts from are. -/
theorem lookupPrems_mem (acc : List Thm) (l : List Nat) (ps : List Thm)
    (h : lookupPrems acc l = .ok ps) : ∀ p ∈ ps, p ∈ acc := by
  induction l generalizing ps with
  | nil => simp only [lookupPrems] at h; cases h; intro p hp; cases hp
  | cons i l ih =>
    simp only [lookupPrems] at h
    cases hi : acc[i]? with
    | none => rw [hi] at h; cases h
    | some thi =>
      rw [hi] at h
      simp only at h
      cases hl : lookupPrems acc l with
      | error e => rw [hl] at h; cases h
      | ok ps' =>
        rw [hl] at h
        cases h
        intro p hp
        cases hp with
        | head => exact List.mem_of_getElem? hi
        | tail _ hp1 => exact ih ps' hl p hp1

theorem runScript_sound (steps : List Step) (acc res : List Thm)
    (hacc : ∀ th ∈ acc, Good th)
    (h : runScript steps acc = .ok res) : ∀ th ∈ res, Good th := by
  induction steps generalizing acc with
  | nil =>
    simp only [runScript] at h
    cases h
    exact hacc
  | cons s rest ih =>
    simp only [runScript] at h
    cases hm : lookupPrems acc s.prevs with
    | error e => rw [hm] at h; cases h
    | ok prems =>
      rw [hm] at h
      simp only at h
      cases hc : checkStep s.rule s.arg prems with
      | error e => rw [hc] at h; cases h
      | ok th =>
        rw [hc] at h
        simp only at h
        have hprems : ∀ p ∈ prems, Good p :=
          fun p hpm => hacc p (lookupPrems_mem acc s.prevs prems hm p hpm)
        have hgood : Good th := prim_sound s.rule s.arg prems th hprems hc
        apply ih (acc ++ [th]) _ h
        intro th' hth'
        rcases List.mem_append.1 hth' with h1 | h1
        · exact hacc th' h1
        · simp at h1; subst h1; exact hgood

/-- Whenever the checker accepts a gap-free proof built from the primitive rules (no axioms),
every sequent in it is well-typed and true in every finite standard model. -/
theorem check_proof_sound (steps : List Step) (res : List Thm)
    (h : runScript steps [] = .ok res) : ∀ th ∈ res, Good th :=
  runScript_sound steps [] res (fun _ h => by cases h) h

/-- the sequent `⊢ false` (`false` is an uninterpreted boolean constant before `logic_base`
defines it) -/
def falseThm : Thm := ⟨[], .const "false" Ty.bool⟩

/-- `⊢ ∀A::bool. A` -/
def allFalseThm : Thm :=
  ⟨[], .comb (.const "all" (Ty.fn (Ty.fn Ty.bool Ty.bool) Ty.bool)) (.abs "A" Ty.bool (.bound 0))⟩

def trivModel : Model := ⟨fun _ => 0, fun _ => 0, fun _ _ => 0⟩

theorem falseThm_not_valid : ¬ Valid trivModel falseThm := by
  intro h
  have := h (fun _ _ _ => 0) (fun k n T => Model.size_pos _ _) (fun _ hm => by cases hm)
  simp [holds, falseThm, sem, constVal, logicalKind] at this

/-- No accepted proof ends in `⊢ false`. -/
theorem no_false (steps : List Step) (res : List Thm)
    (h : runScript steps [] = .ok res) : falseThm ∉ res := by
  intro hm
  exact falseThm_not_valid ((check_proof_sound steps res h _ hm).valid trivModel)

end Holpy.C01

namespace Holpy.C01
open Holpy

/-! ### non-vacuity: the hypotheses are met by real derivations -/

def xB : Term := .var "x" Ty.bool

/-- `reflexive x; abstraction x; assume x; implies_intr x` -/
def demoScript : List Step :=
  [⟨"reflexive", .term xB, []⟩, ⟨"abstraction", .term xB, [0]⟩,
   ⟨"assume", .term xB, []⟩, ⟨"implies_intr", .term xB, [2]⟩]

def isOk {ε α} : Except ε α → Bool
  | .ok _ => true
  | .error _ => false

/-- the checker model accepts the script (4 sequents, the second is `⊢ (λx. x) = (λx. x)`) -/
example : isOk (runScript demoScript []) = true := by decide

example : (match runScript demoScript [] with
    | .ok ths => ths[1]? == some ⟨[], .comb (.comb (.const "equals"
        (Ty.fn (Ty.fn Ty.bool Ty.bool) (Ty.fn (Ty.fn Ty.bool Ty.bool) Ty.bool)))
        (.abs "x" Ty.bool (.bound 0))) (.abs "x" Ty.bool (.bound 0))⟩
    | .error _ => false) = true := by decide

/-- so `check_proof_sound` applies to it: all four sequents are valid in every model -/
example : ∀ ths, runScript demoScript [] = .ok ths → ∀ th ∈ ths, Good th :=
  fun ths h => check_proof_sound demoScript ths h

/-- `⊢ ∀A::bool. A` is not valid either, hence never derived -/
theorem allFalseThm_not_valid : ¬ Valid trivModel allFalseThm := by
  intro h
  have h1 := h (fun _ _ _ => 0) (fun k n T => Model.size_pos _ _) (fun _ hm => by cases hm)
  have : sem trivModel (fun _ _ _ => 0) [] [] allFalseThm.prop = 0 := by decide
  simp [holds] at h1
  omega

theorem no_all_false (steps : List Step) (res : List Thm)
    (h : runScript steps [] = .ok res) : allFalseThm ∉ res := by
  intro hm
  exact allFalseThm_not_valid ((check_proof_sound steps res h _ hm).valid trivModel)

end Holpy.C01
