import Holpy.C08.Model
/-
C08 — specification vocabulary for completeness / principality (import-free, no proofs).
-/
namespace Holpy.C08

/-- `checked_get_type` with function types of exactly two arguments (the arity hypothesis for `fun`:
`Type.is_fun` only looks at the name, a well-formed term only has `fun` applied to two types) -/
def checkedGetType2 : Skel → List Ty → Option Ty
  | .svar _ T, _ => T
  | .var _ T, _ => T
  | .const _ T, _ => T
  | .comb f a, bd =>
    match checkedGetType2 f bd, checkedGetType2 a bd with
    | some (.con "fun" [d, r]), some aT => if d = aT then some r else none
    | _, _ => none
  | .abs _ T b, bd =>
    match T with
    | some T => (checkedGetType2 b (T :: bd)).map (fun bT => tfun T bT)
    | none => none
  | .bound i, bd => bd[i]?

/-- `Compl ctx vt svt t u`: `u` is a completion of the skeleton `t`: same shape, every annotation of `t` kept,
an unannotated variable at its declared type if declared and otherwise at `vt x` (one type per name; `svt` for
schematic variables), an unannotated constant at an instance of its signature type — or, for a constant the
theory does not know, of the type `ctxt.defs` gives —, any type at an unannotated binder. -/
inductive Compl (ctx : Ctx) (vt svt : String → Ty) : Skel → Skel → Prop where
  | varAnn (n : String) (A : Ty) : Compl ctx vt svt (.var n (some A)) (.var n (some A))
  | varDecl (n : String) (T : Ty) : ctx.vars.lookup n = some T → Compl ctx vt svt (.var n none) (.var n (some T))
  | varFree (n : String) : ctx.vars.lookup n = none → Compl ctx vt svt (.var n none) (.var n (some (vt n)))
  | svarAnn (n : String) (A : Ty) : Compl ctx vt svt (.svar n (some A)) (.svar n (some A))
  | svarDecl (n : String) (T : Ty) : ctx.svars.lookup n = some T → Compl ctx vt svt (.svar n none) (.svar n (some T))
  | svarFree (n : String) : ctx.svars.lookup n = none → Compl ctx vt svt (.svar n none) (.svar n (some (svt n)))
  | constAnn (n : String) (A : Ty) : Compl ctx vt svt (.const n (some A)) (.const n (some A))
  | constSig (n : String) (S : Ty) (m : List (String × Ty)) : ctx.sig.lookup n = some S →
      Compl ctx vt svt (.const n none) (.const n (some (S.inst m)))
  | constDef (n : String) (D : Ty) (m : List (String × Ty)) : ctx.sig.lookup n = none → ctx.defs.lookup n = some D →
      Compl ctx vt svt (.const n none) (.const n (some (D.instS m)))
  | comb {f f' a a' : Skel} : Compl ctx vt svt f f' → Compl ctx vt svt a a' → Compl ctx vt svt (.comb f a) (.comb f' a')
  | absAnn (x : String) (A : Ty) {b b' : Skel} : Compl ctx vt svt b b' →
      Compl ctx vt svt (.abs x (some A) b) (.abs x (some A) b')
  | absNew (x : String) (T : Ty) {b b' : Skel} : Compl ctx vt svt b b' →
      Compl ctx vt svt (.abs x none b) (.abs x (some T) b')
  | bound (i : Nat) : Compl ctx vt svt (.bound i) (.bound i)

/-- the given annotations of a skeleton use no reserved type variable name `?'_t…` -/
def Skel.AnnNoReserved : Skel → Prop
  | .svar _ T => ∀ U, T = some U → U.hasReserved = false
  | .var _ T => ∀ U, T = some U → U.hasReserved = false
  | .const _ T => ∀ U, T = some U → U.hasReserved = false
  | .comb f a => f.AnnNoReserved ∧ a.AnnNoReserved
  | .abs _ T b => (∀ U, T = some U → U.hasReserved = false) ∧ b.AnnNoReserved
  | .bound _ => True

/-- the types the context declares use no reserved name, and signature types are over `TVar`s only -/
structure Ctx.Clean (ctx : Ctx) : Prop where
  vars : ∀ n T, ctx.vars.lookup n = some T → T.hasReserved = false
  svars : ∀ n T, ctx.svars.lookup n = some T → T.hasReserved = false
  defs : ∀ n T, ctx.defs.lookup n = some T → T.hasReserved = false
  sig : ∀ n S, ctx.sig.lookup n = some S → S.hasStvar = false

/-- `Erases ctx t u`: the skeleton `t` is an erasure of the term `u` — any subset of the types dropped, where a
dropped variable type is the declared one and a dropped constant type is an instance of the signature type -/
inductive Erases (ctx : Ctx) : Skel → Skel → Prop where
  | varKeep (n : String) (A : Ty) : Erases ctx (.var n (some A)) (.var n (some A))
  | varDrop (n : String) (A : Ty) : ctx.vars.lookup n = some A → Erases ctx (.var n none) (.var n (some A))
  | svarKeep (n : String) (A : Ty) : Erases ctx (.svar n (some A)) (.svar n (some A))
  | svarDrop (n : String) (A : Ty) : ctx.svars.lookup n = some A → Erases ctx (.svar n none) (.svar n (some A))
  | constKeep (n : String) (A : Ty) : Erases ctx (.const n (some A)) (.const n (some A))
  | constDrop (n : String) (S : Ty) (m : List (String × Ty)) : ctx.sig.lookup n = some S →
      Erases ctx (.const n none) (.const n (some (S.inst m)))
  | comb {f f' a a' : Skel} : Erases ctx f f' → Erases ctx a a' → Erases ctx (.comb f a) (.comb f' a')
  | absKeep (x : String) (A : Ty) {b b' : Skel} : Erases ctx b b' → Erases ctx (.abs x (some A) b) (.abs x (some A) b')
  | absDrop (x : String) (A : Ty) {b b' : Skel} : Erases ctx b b' → Erases ctx (.abs x none b) (.abs x (some A) b')
  | bound (i : Nat) : Erases ctx (.bound i) (.bound i)

end Holpy.C08
