import Holpy.C08.Complete2
import Holpy.C08.Main
/-
C08 — property theorems, part 2: totality and completeness of the unification core of `type_infer`
(model: Model.lean).  Vocabulary: Proofs.lean (`Solves`, `Inv`), Reach.lean (`RInv`), Fuel.lean (`RB`, `Ty.size`),
Fuel3.lean (`unifyFuel`), Complete.lean (`CInv` = `Inv` ∧ `RInv` ∧ `RSem` ∧ `RRep`).
-/
namespace Holpy.C08

/-- `unify_fuel_suffices`: on a state satisfying the invariants (`uf` flat and bounded, reach sets transitive,
irreflexive and about existing variables) `unify(A, B)` never runs out of fuel when the fuel is at least
`unifyFuel st A B = (n+1)·(S+1)+S+2`, `n` = number of internal variables, `S` = largest size among `A`, `B`
and the entries of `uf`: the recursion of the Python `unify` is at most that deep, i.e. it terminates. -/
theorem unify_fuel_suffices (st : St) (A B : Ty) (fuel : Nat) (inv : Inv st) (ri : RInv st) (rb : RB st)
    (hf : unifyFuel st A B ≤ fuel) : unify fuel st A B ≠ .error .fuel :=
  unify_fuel_ok inv ri rb hf

namespace Ex2
def bool : Ty := .con "bool" []
def st2 : St := (newType (newType St.empty).2).2
theorem rb_st2 : RB st2 := by
  intro k j hj
  have : rset st2 k = [] := by
    unfold rset st2 newType St.empty
    rcases k with _ | _ | k <;> simp
  rw [this] at hj; cases hj
end Ex2

/-- non-vacuity: two fresh variables, `unify(?'_t0, ?'_t1 => bool)`: the bound is 3·4+3+2 = 17 -/
example : Inv Ex2.st2 ∧ RInv Ex2.st2 ∧ RB Ex2.st2 ∧ unifyFuel Ex2.st2 (Ty.int 0) (tfun (Ty.int 1) Ex2.bool) = 17 :=
  ⟨newType_inv (newType_inv inv_empty), newType_rinv (newType_rinv rinv_empty), Ex2.rb_st2, by decide +kernel⟩

/-- `unify_complete`: if a substitution σ of the internal variables solves the current system `uf` and makes
`A` and `B` equal, then `unify(A, B)` succeeds (with fuel ≥ `unifyFuel`) and σ solves the resulting system:
`unify` fails only when there is no unifier. -/
theorem unify_complete (st : St) (A B : Ty) (fuel : Nat) (σ : List Ty) (c : CInv st) (rb : RB st)
    (bA : A.Bounded st.uf.length) (bB : B.Bounded st.uf.length) (hf : unifyFuel st A B ≤ fuel)
    (hσ : Solves σ st.uf) (heq : A.substI σ = B.substI σ) :
    ∃ st', unify fuel st A B = .ok st' ∧ CInv st' ∧ Solves σ st'.uf := by
  rcases unify_complete_aux σ fuel st A B c hσ heq bA bB with h | ⟨st', h, c', hσ', -⟩
  · exact absurd h (unify_fuel_ok c.inv c.ri rb hf)
  · exact ⟨st', h, c', hσ'⟩

/-- `unify_most_general`: after a successful `unify(A, B)` the solutions of the new system are exactly the
solutions of the old system that unify `A` and `B` (the solved form `uf` loses no unifier and adds none). -/
theorem unify_most_general (st st' : St) (A B : Ty) (fuel : Nat) (c : CInv st)
    (bA : A.Bounded st.uf.length) (bB : B.Bounded st.uf.length) (h : unify fuel st A B = .ok st') (σ : List Ty) :
    Solves σ st'.uf ↔ (Solves σ st.uf ∧ A.substI σ = B.substI σ) := by
  constructor
  · exact (unify_post fuel st A B st' h c.inv).2.2.2.2 σ
  · intro ⟨hσ, heq⟩
    rcases unify_complete_aux σ fuel st A B c hσ heq bA bB with h' | ⟨st'', h', -, hσ', -⟩
    · rw [h] at h'; cases h'
    · rw [h] at h'; cases h'; exact hσ'

namespace Ex2
theorem cinv_st2 : CInv st2 := by
  refine ⟨newType_inv (newType_inv inv_empty), newType_rinv (newType_rinv rinv_empty), ?_, ?_⟩
  · intro σ _ k j hj
    have : rset st2 k = [] := by
      unfold rset st2 newType St.empty
      rcases k with _ | _ | k <;> simp
    rw [this] at hj; cases hj
  · intro k _
    unfold rset st2 newType St.empty
    rcases k with _ | _ | k <;> simp
/-- σ = [nat => bool, nat] solves the (trivial) system of `st2` and unifies `?'_t0` with `?'_t1 => bool` -/
def sigma : List Ty := [tfun (.con "nat" []) bool, .con "nat" []]
end Ex2

/-- non-vacuity of `unify_complete` / `unify_most_general`: hypotheses hold for `st2`, σ -/
example : CInv Ex2.st2 ∧ Solves Ex2.sigma Ex2.st2.uf ∧
    (Ty.int 0).substI Ex2.sigma = (tfun (Ty.int 1) Ex2.bool).substI Ex2.sigma ∧
    (unify 17 Ex2.st2 (Ty.int 0) (tfun (Ty.int 1) Ex2.bool)).toOption.isSome = true := by
  refine ⟨Ex2.cinv_st2, ?_, by decide +kernel, by decide +kernel⟩
  intro k U hU
  unfold Ex2.st2 newType St.empty at hU
  rcases k with _ | _ | k
  · simp [St.n] at hU; subst hU; simp [Ex2.sigma]
  · simp [St.n] at hU; subst hU; simp [Ex2.sigma]
  · simp at hU

end Holpy.C08
