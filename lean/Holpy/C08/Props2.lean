import Holpy.C08.Total
import Holpy.C08.Props
/-
C08 — property theorems, part 2: totality and completeness of the unification core of `type_infer`
(model: Model.lean).  Vocabulary: Proofs.lean (`Solves`, `Inv`), Reach.lean (`RInv`), Fuel.lean (`RB`, `Ty.size`),
Fuel3.lean (`unifyFuel`), Complete.lean (`CInv` = `Inv` ∧ `RInv` ∧ `RSem` ∧ `RRep`).
-/
namespace Holpy.C08

/-- `unify_fuel_suffices`: on a state satisfying the invariants (`uf` flat and bounded, reach sets transitive,
irreflexive and about existing variables) `unify(A, B)` never runs out of fuel when the fuel is at least
`unifyFuel st A B = (n+1)·(S+1)+S+2`, `n` = number of internal variables, `S` = largest size among `A`, `B`
and the entries of `uf`: the recursion of the Python `unify` is at most that deep, i.e. it terminates. -/
theorem unify_fuel_suffices (st : St) (A B : Ty) (fuel : Nat) (inv : Inv st) (ri : RInv st) (rb : RB st)
    (hf : unifyFuel st A B ≤ fuel) : unify fuel st A B ≠ .error .fuel :=
  unify_fuel_ok inv ri rb hf


/-- non-vacuity: two fresh variables, `unify(?'_t0, ?'_t1 => bool)`: the bound is 3·4+3+2 = 17 -/
example : Inv Ex2.st2 ∧ RInv Ex2.st2 ∧ RB Ex2.st2 ∧ unifyFuel Ex2.st2 (Ty.int 0) (tfun (Ty.int 1) Ex2.bool) = 17 :=
  ⟨newType_inv (newType_inv inv_empty), newType_rinv (newType_rinv rinv_empty), Ex2.rb_st2, by decide +kernel⟩

/-- `unify_complete`: if a substitution σ of the internal variables solves the current system `uf` and makes
`A` and `B` equal, then `unify(A, B)` succeeds (with fuel ≥ `unifyFuel`) and σ solves the resulting system:
`unify` fails only when there is no unifier. -/
theorem unify_complete (st : St) (A B : Ty) (fuel : Nat) (σ : List Ty) (c : CInv st) (rb : RB st)
    (bA : A.Bounded st.uf.length) (bB : B.Bounded st.uf.length) (hf : unifyFuel st A B ≤ fuel)
    (hσ : Solves σ st.uf) (heq : A.substI σ = B.substI σ) :
    ∃ st', unify fuel st A B = .ok st' ∧ CInv st' ∧ Solves σ st'.uf := by
  rcases unify_complete_aux σ fuel st A B c hσ heq bA bB with h | ⟨st', h, c', hσ', -⟩
  · exact absurd h (unify_fuel_ok c.inv c.ri rb hf)
  · exact ⟨st', h, c', hσ'⟩

/-- `unify_most_general`: after a successful `unify(A, B)` the solutions of the new system are exactly the
solutions of the old system that unify `A` and `B` (the solved form `uf` loses no unifier and adds none). -/
theorem unify_most_general (st st' : St) (A B : Ty) (fuel : Nat) (c : CInv st)
    (bA : A.Bounded st.uf.length) (bB : B.Bounded st.uf.length) (h : unify fuel st A B = .ok st') (σ : List Ty) :
    Solves σ st'.uf ↔ (Solves σ st.uf ∧ A.substI σ = B.substI σ) := by
  constructor
  · exact (unify_post fuel st A B st' h c.inv).2.2.2.2 σ
  · intro ⟨hσ, heq⟩
    rcases unify_complete_aux σ fuel st A B c hσ heq bA bB with h' | ⟨st'', h', -, hσ', -⟩
    · rw [h] at h'; cases h'
    · rw [h] at h'; cases h'; exact hσ'


/-- non-vacuity of `unify_complete` / `unify_most_general`: hypotheses hold for `st2`, σ -/
example : CInv Ex2.st2 ∧ Solves Ex2.sigma Ex2.st2.uf ∧
    (Ty.int 0).substI Ex2.sigma = (tfun (Ty.int 1) Ex2.bool).substI Ex2.sigma ∧
    (unify 17 Ex2.st2 (Ty.int 0) (tfun (Ty.int 1) Ex2.bool)).toOption.isSome = true := by
  refine ⟨Ex2.cinv_st2, ?_, by decide +kernel, by decide +kernel⟩
  intro k U hU
  unfold Ex2.st2 newType St.empty at hU
  rcases k with _ | _ | k
  · simp [St.n] at hU; subst hU; simp [Ex2.sigma]
  · simp [St.n] at hU; subst hU; simp [Ex2.sigma]
  · simp at hU

/-- `infer_state_good`: every state the traversal `infer` reaches from the empty state satisfies all the
invariants that `unify_fuel_suffices`, `unify_complete` and `unify_most_general` ask for — those theorems apply to
every `unify` call `type_infer` makes. -/
theorem infer_state_good (ctx : Ctx) (fuel : Nat) (t t' : Skel) (T : Ty) (st : St)
    (h : infer ctx fuel t [] St.empty = .ok (t', T, st)) : CInv st ∧ RB st :=
  infer_good ctx fuel t [] St.empty t' T st h good_empty

example : ∃ r, infer Ex.ctx 20 Ex.skel [] St.empty = .ok r := exists_ok_of_isSome (by decide +kernel)

/-- `type_infer_total`: for every context, skeleton and flag some amount of fuel is enough (and then any larger
amount): the model never answers "out of fuel", i.e. the Python `type_infer` (recursive `unify`, traversal,
`while has_repl` loop) terminates on every input. -/
theorem type_infer_total (ctx : Ctx) (forbid : Bool) (t : Skel) :
    ∃ N, ∀ fuel, N ≤ fuel → typeInfer ctx fuel forbid t ≠ .error .fuel := by
  cases h0 : applyDefs ctx t with
  | error e =>
    refine ⟨0, fun fuel _ => ?_⟩
    simp only [typeInfer, h0]
    intro h
    cases h
    -- applyDefs only fails with `reserved`
    simp only [applyDefs] at h0
    repeat' split at h0
    all_goals cases h0
  | ok t0 =>
    obtain ⟨N1, hN1⟩ := infer_total ctx t0 [] St.empty good_empty
    cases hi : infer ctx N1 t0 [] St.empty with
    | error e =>
      refine ⟨N1, fun fuel hf => ?_⟩
      have := infer_mono_le ctx hf hi (by rw [← hi]; exact hN1)
      simp only [typeInfer, h0, this]
      intro h; cases h; exact hN1 hi
    | ok r =>
      obtain ⟨t', T, st⟩ := r
      obtain ⟨N2, hN2⟩ := type_infer_loop_terminates ctx N1 t0 t' T st forbid hi
      refine ⟨max N1 N2, fun fuel hf => ?_⟩
      have := infer_mono_le ctx (Nat.le_trans (Nat.le_max_left N1 N2) hf) hi (by intro h; cases h)
      simp only [typeInfer, h0, this]
      exact hN2 fuel (Nat.le_trans (Nat.le_max_right N1 N2) hf)

/-- non-vacuity: the example skeleton is answered (not "out of fuel") with fuel 20 -/
example : (typeInfer Ex.ctx 20 true Ex.skel).toOption.isSome = true := by decide +kernel

end Holpy.C08
