import Holpy.C08.Fuel2
/-
C08 helper lemmas, part 12: `unify` with fuel ≥ (n+1)(S+1)+S+2 never answers "out of fuel".
-/
namespace Holpy.C08

structure G (S : Nat) (st : St) : Prop where
  inv : Inv st
  ri : RInv st
  rb : RB st
  sz : SZ S st

theorem res_error {S : Nat} (e : Err) (he : e ≠ Err.fuel) :
    (Except.error e : Except Err St) ≠ .error .fuel ∧ ∀ st', (Except.error e : Except Err St) = .ok st' → SZ S st' :=
  ⟨(fun h => he (by cases h; rfl)), (fun _ h => by cases h)⟩

theorem res_ok {S : Nat} {st : St} (sz : SZ S st) :
    (Except.ok st : Except Err St) ≠ .error .fuel ∧ ∀ st', (Except.ok st : Except Err St) = .ok st' → SZ S st' :=
  ⟨(fun h => by cases h), (fun _ h => by cases h; exact sz)⟩

theorem lookupRep_size {st : St} {S : Nat} {A T : Ty} (h : lookupRep st A = .ok T) (sz : SZ S st) (hA : A.size ≤ S) :
    T.size ≤ S := by
  cases hi : A.isInternal with
  | false => have := lookupRep_nonint hi h; subst this; exact hA
  | true =>
    obtain ⟨k, rfl⟩ := (Ty.isInternal_iff A).1 hi
    exact sz k T (lookupRep_int h)

theorem union_ne_fuel (st : St) (X Y : Ty) : union st X Y ≠ .error .fuel := by
  simp only [union]
  split
  · split <;> (intro h; cases h)
  · intro h; cases h

theorem union_sz {st st' : St} {S : Nat} {X Y : Ty} (h : union st X Y = .ok st') (sz : SZ S st) (hY : Y.size ≤ S) :
    SZ S st' := by
  obtain ⟨huf, -, -, -⟩ := union_uf h
  intro k U hU
  rw [huf] at hU
  simp only [List.getElem?_map, Option.map_eq_some_iff] at hU
  obtain ⟨V, hV, hVU⟩ := hU
  by_cases hc : V = X
  · simp only [hc, if_true] at hVU; subst hVU; exact hY
  · simp only [hc, if_false] at hVU; subst hVU; exact sz k V hV

theorem unionStep_fuel {st : St} {S : Nat} {T1 T2 : Ty} (sz : SZ S st) (h1 : T1.size ≤ S) (h2 : T2.size ≤ S) :
    (if T1.isInternal then union st T1 T2 else if T2.isInternal then union st T2 T1 else .error .clash) ≠ .error .fuel ∧
    ∀ st', (if T1.isInternal then union st T1 T2 else if T2.isInternal then union st T2 T1 else .error .clash) = .ok st' →
      SZ S st' := by
  by_cases c1 : T1.isInternal = true
  · simp only [c1, if_true]
    exact ⟨union_ne_fuel _ _ _, fun st' h => union_sz h sz h2⟩
  · simp only [c1]
    by_cases c2 : T2.isInternal = true
    · simp only [c2, if_true]
      exact ⟨union_ne_fuel _ _ _, fun st' h => union_sz h sz h1⟩
    · simp [c2]

/-- the state after a successful `unify` is good again, with the same number of variables, and keeps the chain -/
theorem G.step {S f : Nat} {st st' : St} {A B : Ty} {c : List Ty} (g : G S st) (h : unify f st A B = .ok st')
    (sz' : SZ S st') (hc : ChainOK st c) : G S st' ∧ st'.uf.length = st.uf.length ∧ ChainOK st' c := by
  obtain ⟨i, l, -, -, -⟩ := unify_post f st A B st' h g.inv
  obtain ⟨ri, rb⟩ := unify_rb f st A B st' h g.ri g.rb
  exact ⟨⟨i, ri, rb, sz'⟩, l, hc.persist (unify_persist f st A B st' h) c⟩

theorem unifyArgs_fuel {S : Nat} {u : St → Ty → Ty → Except Err St} {c : List Ty} {N : Nat}
    (hu : ∀ st a b, G S st → st.uf.length = N → ChainOK st c → a.size ≤ S → b.size ≤ S →
      (∀ X rest, c = X :: rest → ∃ n as, X = .con n as ∧ a ∈ as) →
      u st a b ≠ .error .fuel ∧ ∀ st', u st a b = .ok st' → G S st' ∧ st'.uf.length = N ∧ ChainOK st' c) :
    ∀ (as bs : List Ty) (st : St), G S st → st.uf.length = N → ChainOK st c →
      (∀ a ∈ as, a.size ≤ S ∧ ∀ X rest, c = X :: rest → ∃ n xs, X = .con n xs ∧ a ∈ xs) → (∀ b ∈ bs, b.size ≤ S) →
      unifyArgs u st as bs ≠ .error .fuel ∧ ∀ st', unifyArgs u st as bs = .ok st' → SZ S st' := by
  intro as
  induction as with
  | nil => intro bs st g _ _ _ _; simp only [unifyArgs]; exact res_ok g.sz
  | cons a as ih =>
    intro bs st g hn hc ha hb
    cases bs with
    | nil => simp only [unifyArgs]; exact res_ok g.sz
    | cons b bs =>
      simp only [unifyArgs, bind, Except.bind]
      obtain ⟨h1, h2⟩ := hu st a b g hn hc (ha a (by simp)).1 (hb b (by simp)) (ha a (by simp)).2
      cases hr : u st a b with
      | error e =>
        simp only
        refine ⟨?_, fun st' h => by cases h⟩
        intro he; cases he; exact h1 hr
      | ok st1 =>
        simp only
        obtain ⟨g1, hn1, hc1⟩ := h2 st1 hr
        exact ih bs st1 g1 hn1 hc1 (fun x hx => ha x (List.mem_cons_of_mem _ hx)) (fun x hx => hb x (List.mem_cons_of_mem _ hx))

theorem unify_fuel_aux (S : Nat) : ∀ (f : Nat) (st : St) (A B : Ty) (c : List Ty),
    G S st → A.size ≤ S → B.size ≤ S → ChainOK st c → (∀ X ∈ c, X.size ≤ S) →
    (∀ X rest, c = X :: rest → ∃ n as, X = .con n as ∧ A ∈ as) →
    (st.uf.length + 1) * (S + 1) + S + 2 ≤ c.length + f →
    unify f st A B ≠ .error .fuel ∧ ∀ st', unify f st A B = .ok st' → SZ S st' := by
  intro f
  induction f with
  | zero =>
    intro st A B c g _ _ hc hs _ hf
    exfalso
    cases c with
    | nil => simp at hf
    | cons y rest =>
      have := chain_len g.ri g.rb g.sz rest y hc hs
      simp only [List.length_cons] at *
      omega
  | succ f ih =>
    intro st A B c g hA hB hc hs hhead hf
    simp only [unify, bind, Except.bind]
    cases hlA : lookupRep st A with
    | error e =>
      simp only
      have : e = .crash := by
        cases A with
        | stvar n =>
          cases n with
          | internal k => simp only [lookupRep] at hlA; split at hlA <;> simp_all
          | user s => simp [lookupRep] at hlA
        | tvar n => simp [lookupRep] at hlA
        | con n as => simp [lookupRep] at hlA
      subst this
      exact res_error _ (by intro h; cases h)
    | ok T1 =>
      cases hlB : lookupRep st B with
      | error e =>
        simp only
        have : e = .crash := by
          cases B with
          | stvar n =>
            cases n with
            | internal k => simp only [lookupRep] at hlB; split at hlB <;> simp_all
            | user s => simp [lookupRep] at hlB
          | tvar n => simp [lookupRep] at hlB
          | con n as => simp [lookupRep] at hlB
        subst this
        exact res_error _ (by intro h; cases h)
      | ok T2 =>
        simp only
        have s1 := lookupRep_size hlA g.sz hA
        have s2 := lookupRep_size hlB g.sz hB
        cases T1 with
        | tvar n1 =>
          cases T2 with
          | tvar n2 =>
            simp only
            split
            · exact res_ok g.sz
            · exact res_error _ (by intro h; cases h)
          | stvar n2 => exact unionStep_fuel g.sz s1 s2
          | con n2 as2 => exact unionStep_fuel g.sz s1 s2
        | stvar n1 =>
          cases T2 with
          | tvar n2 => exact unionStep_fuel g.sz s1 s2
          | stvar n2 =>
            simp only
            split
            · exact res_ok g.sz
            · exact unionStep_fuel g.sz s1 s2
          | con n2 as2 => exact unionStep_fuel g.sz s1 s2
        | con n1 as1 =>
          cases T2 with
          | tvar n2 => exact unionStep_fuel g.sz s1 s2
          | stvar n2 => exact unionStep_fuel g.sz s1 s2
          | con n2 as2 =>
            simp only
            split
            · split
              · exact res_error _ (by intro h; cases h)
              · -- descend: the chain grows by the representative of A
                have hc' : ChainOK st (Ty.con n1 as1 :: c) := by
                  cases c with
                  | nil => trivial
                  | cons X rest =>
                    obtain ⟨n, xs, hX, hAx⟩ := hhead X rest rfl
                    exact ⟨⟨n, xs, A, n1, as1, hX, hAx, hlA, rfl⟩, hc⟩
                have hs' : ∀ X ∈ Ty.con n1 as1 :: c, X.size ≤ S := by
                  intro X hX
                  rcases List.mem_cons.1 hX with rfl | hX
                  · exact s1
                  · exact hs X hX
                refine unifyArgs_fuel (S := S) (u := unify f) (c := Ty.con n1 as1 :: c) (N := st.uf.length) ?_ as1 as2 st g rfl hc' ?_ ?_
                · intro st1 a b g1 hn1 hc1 ha hb hhd
                  have := ih st1 a b (Ty.con n1 as1 :: c) g1 ha hb hc1 hs' hhd (by simp only [List.length_cons]; rw [hn1]; omega)
                  refine ⟨this.1, fun st2 h2 => ?_⟩
                  obtain ⟨g2, l2, c2⟩ := g1.step h2 (this.2 st2 h2) hc1
                  exact ⟨g2, by rw [l2, hn1], c2⟩
                · intro a ha
                  refine ⟨Nat.le_of_lt (Nat.lt_of_lt_of_le (size_arg_lt (n := n1) ha) s1), ?_⟩
                  intro X rest hX
                  cases hX
                  exact ⟨n1, as1, rfl, ha⟩
                · intro b hb
                  exact Nat.le_of_lt (Nat.lt_of_lt_of_le (size_arg_lt (n := n2) hb) s2)
            · exact res_error _ (by intro h; cases h)

/-- the largest size of an entry of `uf` -/
def St.maxSize (st : St) : Nat := (st.uf.map Ty.size).foldr max 0

theorem sz_maxSize (st : St) (S : Nat) (h : st.maxSize ≤ S) : SZ S st := by
  intro k U hU
  have : U.size ∈ st.uf.map Ty.size := List.mem_map.2 ⟨U, List.mem_of_getElem? hU, rfl⟩
  exact (foldr_max_le.1 h) _ this

/-- fuel that is always enough for `unify(A, B)` in state `st` -/
def unifyFuel (st : St) (A B : Ty) : Nat :=
  let S := max st.maxSize (max A.size B.size)
  (st.uf.length + 1) * (S + 1) + S + 2

theorem unify_fuel_ok {st : St} {A B : Ty} (inv : Inv st) (ri : RInv st) (rb : RB st) {fuel : Nat}
    (hf : unifyFuel st A B ≤ fuel) : unify fuel st A B ≠ .error .fuel := by
  have g : G (max st.maxSize (max A.size B.size)) st := ⟨inv, ri, rb, sz_maxSize st _ (Nat.le_max_left _ _)⟩
  refine (unify_fuel_aux _ fuel st A B [] g ?_ ?_ trivial (by intro X hX; cases hX) (by intro X rest h; cases h) ?_).1
  · exact Nat.le_trans (Nat.le_max_left _ _) (Nat.le_max_right _ _)
  · exact Nat.le_trans (Nat.le_max_right _ _) (Nat.le_max_right _ _)
  · simpa [unifyFuel] using hf

end Holpy.C08
