import Holpy.C08.InferComplete
/-
C08 helper lemmas, part 19: the induction for completeness of `infer`.
-/
namespace Holpy.C08

set_option maxHeartbeats 1000000 in
theorem infer_complete_aux (ctx : Ctx) (hc : ctx.Clean) (vt svt : String → Ty) (fuel : Nat) :
    ∀ (t u : Skel), Compl ctx vt svt t u → ∀ (bd : List Ty) (st : St) (σ : List Ty) (U : Ty),
      Good st → CB st → (∀ B ∈ bd, B.Bounded st.uf.length) → WOK vt svt σ st → t.AnnNoReserved →
      checkedGetType2 u (bd.map (Ty.substI σ)) = some U → IPost vt svt σ u U (infer ctx fuel t bd st) := by
  intro t u h
  induction h with
  | varAnn n A =>
    intro bd st σ U g cb hbd w hann hU
    have hr := hann A rfl
    simp only [checkedGetType2, Option.some.injEq] at hU
    subst hU
    simp only [infer, hr, Bool.false_eq_true, if_false]
    exact ipost_same w (by simp [Skel.substI, substI_not_reserved σ hr]) (substI_not_reserved σ hr)
  | varDecl n D hd =>
    intro bd st σ U g cb hbd w hann hU
    have hr := hc.vars n D hd
    simp only [checkedGetType2, Option.some.injEq] at hU
    subst hU
    simp only [infer, hd, hr, Bool.false_eq_true, if_false]
    exact ipost_same w (by simp [Skel.substI, substI_not_reserved σ hr]) (substI_not_reserved σ hr)
  | varFree n hd =>
    intro bd st σ U g cb hbd w hann hU
    simp only [checkedGetType2, Option.some.injEq] at hU
    subst hU
    simp only [infer, hd]
    cases hi : st.ictx.lookup n with
    | some T =>
      simp only
      exact ipost_same w (by simp [Skel.substI, w.ic n T hi]) (w.ic n T hi)
    | none =>
      simp only
      have w1 := w.snoc g.1.inv cb (vt n)
      have hT := fresh_substI w (vt n)
      refine Or.inr ⟨_, _, _, [vt n], rfl, ?_, by simp [Skel.substI, hT], hT⟩
      exact w1.addVar n _ hT
  | svarAnn n A =>
    intro bd st σ U g cb hbd w hann hU
    have hr := hann A rfl
    simp only [checkedGetType2, Option.some.injEq] at hU
    subst hU
    simp only [infer, hr, Bool.false_eq_true, if_false]
    exact ipost_same w (by simp [Skel.substI, substI_not_reserved σ hr]) (substI_not_reserved σ hr)
  | svarDecl n D hd =>
    intro bd st σ U g cb hbd w hann hU
    have hr := hc.svars n D hd
    simp only [checkedGetType2, Option.some.injEq] at hU
    subst hU
    simp only [infer, hd, hr, Bool.false_eq_true, if_false]
    exact ipost_same w (by simp [Skel.substI, substI_not_reserved σ hr]) (substI_not_reserved σ hr)
  | svarFree n hd =>
    intro bd st σ U g cb hbd w hann hU
    simp only [checkedGetType2, Option.some.injEq] at hU
    subst hU
    simp only [infer, hd]
    cases hi : st.isctx.lookup n with
    | some T =>
      simp only
      exact ipost_same w (by simp [Skel.substI, w.isc n T hi]) (w.isc n T hi)
    | none =>
      simp only
      have w1 := w.snoc g.1.inv cb (svt n)
      have hT := fresh_substI w (svt n)
      refine Or.inr ⟨_, _, _, [svt n], rfl, ?_, by simp [Skel.substI, hT], hT⟩
      exact w1.addSVar n _ hT
  | constAnn n A =>
    intro bd st σ U g cb hbd w hann hU
    have hr := hann A rfl
    simp only [checkedGetType2, Option.some.injEq] at hU
    subst hU
    simp only [infer, hr, Bool.false_eq_true, if_false]
    exact ipost_same w (by simp [Skel.substI, substI_not_reserved σ hr]) (substI_not_reserved σ hr)
  | constSig n S m hs =>
    intro bd st σ U g cb hbd w hann hU
    have hst := hc.sig n S hs
    simp only [checkedGetType2, Option.some.injEq] at hU
    subst hU
    simp only [infer, hs, hst, Bool.false_eq_true, if_false]
    obtain ⟨w2, hl⟩ := allocFor_wok vt svt (fun v => (Ty.tvar v).inst m) (dedupStr S.tvars) st σ w g.1.inv cb
      (dedupStr_nodup _)
    have hT := inst_fresh_substI (mf := (allocFor (dedupStr S.tvars) st).1) (m := m)
      (σ := σ ++ (dedupStr S.tvars).map (fun v => (Ty.tvar v).inst m)) S
      (fun v hv => hl v (mem_dedupStr.2 hv)) hst
    exact Or.inr ⟨_, _, _, _, rfl, w2, by simp [Skel.substI, hT], hT⟩
  | constDef n D m hs hd =>
    intro bd st σ U g cb hbd w hann hU
    have hr := hc.defs n D hd
    simp only [checkedGetType2, Option.some.injEq] at hU
    subst hU
    simp only [infer, hs, hd, hr, Bool.false_eq_true, if_false]
    obtain ⟨w2, hl⟩ := allocFor_wok vt svt (fun v => (Ty.stvar (.user v)).instS m) (dedupStr D.ustvars) st σ w g.1.inv cb
      (dedupStr_nodup _)
    have hT := instS_fresh_substI (mf := (allocFor (dedupStr D.ustvars) st).1) (m := m)
      (σ := σ ++ (dedupStr D.ustvars).map (fun v => (Ty.stvar (.user v)).instS m)) D
      (fun v hv => hl v (mem_dedupStr.2 hv)) (noInt_of_not_reserved D hr)
    exact Or.inr ⟨_, _, _, _, rfl, w2, by simp [Skel.substI, hT], hT⟩
  | bound i =>
    intro bd st σ U g cb hbd w hann hU
    simp only [checkedGetType2, List.getElem?_map, Option.map_eq_some_iff] at hU
    obtain ⟨B, hB, hBU⟩ := hU
    simp only [infer, hB]
    exact ipost_same w rfl hBU
  | @absAnn x A b ub hb ih =>
    intro bd st σ U g cb hbd w hann hU
    have hr := hann.1 A rfl
    have hA := substI_not_reserved σ hr
    simp only [checkedGetType2] at hU
    cases hub : checkedGetType2 ub (A :: bd.map (Ty.substI σ)) with
    | none => simp [hub] at hU
    | some Ub =>
      simp only [hub, Option.map_some, Option.some.injEq] at hU
      subst hU
      have hbd' : ∀ B ∈ A :: bd, B.Bounded st.uf.length := by
        intro B hB
        rcases List.mem_cons.1 hB with rfl | hB
        · exact (noInt_of_not_reserved _ hr).bounded _
        · exact hbd B hB
      have := ih (A :: bd) st σ Ub g cb hbd' w hann.2 (by simpa [hA] using hub)
      simp only [infer, hr, Bool.false_eq_true, if_false]
      rcases this with hf | ⟨b', T, st', ρ, hok, w', h1, h2⟩
      · rw [hf]; exact Or.inl rfl
      · rw [hok]
        refine Or.inr ⟨_, _, _, ρ, rfl, w', ?_, ?_⟩
        · simp [Skel.substI, h1, substI_not_reserved (σ ++ ρ) hr]
        · simp [h2, substI_not_reserved (σ ++ ρ) hr]
  | @absNew x T0 b ub hb ih =>
    intro bd st σ U g cb hbd w hann hU
    simp only [checkedGetType2] at hU
    cases hub : checkedGetType2 ub (T0 :: bd.map (Ty.substI σ)) with
    | none => simp [hub] at hU
    | some Ub =>
      simp only [hub, Option.map_some, Option.some.injEq] at hU
      subst hU
      have w1 := w.snoc g.1.inv cb T0
      have hT := fresh_substI w T0
      have hl1 : (newType st).2.uf.length = st.uf.length + 1 := by simp [newType]
      have hbd' : ∀ B ∈ (newType st).1 :: bd, B.Bounded (newType st).2.uf.length := by
        intro B hB
        rcases List.mem_cons.1 hB with rfl | hB
        · rw [newType_fst]; apply int_bounded; rw [hl1]; exact Nat.lt_succ_self _
        · exact (hbd B hB).mono (by rw [hl1]; exact Nat.le_succ _)
      have hmap : ((newType st).1 :: bd).map (Ty.substI (σ ++ [T0])) = T0 :: bd.map (Ty.substI σ) := by
        simp only [List.map_cons, hT, List.cons.injEq, true_and]
        exact map_substI_append [T0] (by rw [w.len]; exact hbd)
      have := ih ((newType st).1 :: bd) (newType st).2 (σ ++ [T0]) Ub (newType_good g) (newType_cb cb) hbd' w1 hann.2
        (by rw [hmap]; exact hub)
      simp only [infer]
      rcases this with hf | ⟨b', T, st', ρ, hok, w', h1, h2⟩
      · rw [hf]; exact Or.inl rfl
      · rw [hok]
        have happ : σ ++ [T0] ++ ρ = σ ++ (T0 :: ρ) := by simp
        rw [happ] at w' h1 h2
        have hT' : (newType st).1.substI (σ ++ T0 :: ρ) = T0 := by
          rw [← happ, Ty.substI_append ρ (by
            rw [newType_fst]; apply int_bounded; simp [St.n, w.len])]
          exact hT
        refine Or.inr ⟨_, _, _, T0 :: ρ, rfl, w', ?_, ?_⟩
        · simp [Skel.substI, h1, hT']
        · simp [h2, hT']
  | @comb f uf a ua hcf hca ihf iha =>
    intro bd st σ U g cb hbd w hann hU
    simp only [checkedGetType2] at hU
    cases hfU : checkedGetType2 uf (bd.map (Ty.substI σ)) with
    | none => simp [hfU] at hU
    | some fU =>
      cases haU : checkedGetType2 ua (bd.map (Ty.substI σ)) with
      | none => simp [hfU, haU] at hU
      | some d =>
        simp only [hfU, haU] at hU
        split at hU
        · rename_i d' r' aT' heq1 heq2
          simp only [Option.some.injEq] at heq1 heq2
          subst heq1 heq2
          split at hU
          · rename_i hda
            simp only [Option.some.injEq] at hU
            subst hU hda
            -- function part
            rcases ihf bd st σ _ g cb hbd w hann.1 hfU with hf | ⟨f', funT, st1, ρ1, hf, w1, hf1, hf2⟩
            · simp only [infer, bind, Except.bind, hf]; exact Or.inl rfl
            · have pf := infer_spec ctx fuel f bd st f' funT st1 hf g.1.inv cb hbd
              have g1 := infer_good ctx fuel f bd st f' funT st1 hf g
              have hbd1 : ∀ B ∈ bd, B.Bounded st1.uf.length := fun B hB => (hbd B hB).mono pf.ext.len
              have hmap1 : bd.map (Ty.substI (σ ++ ρ1)) = bd.map (Ty.substI σ) :=
                map_substI_append ρ1 (by rw [w.len]; exact hbd)
              -- argument part
              rcases iha bd st1 (σ ++ ρ1) _ g1 pf.cb hbd1 w1 hann.2 (by rw [hmap1]; exact haU) with
                ha | ⟨a', argT, st2, ρ2, ha, w2, ha1, ha2⟩
              · simp only [infer, bind, Except.bind, hf, ha]; exact Or.inl rfl
              · have pa := infer_spec ctx fuel a bd st1 a' argT st2 ha pf.inv pf.cb hbd1
                have g2 := infer_good ctx fuel a bd st1 a' argT st2 ha g1
                have hf1' : f'.substI (σ ++ ρ1 ++ ρ2) = uf := by
                  rw [Skel.substI_append ρ2 (by rw [w1.len]; exact pf.sb)]; exact hf1
                have hf2' : funT.substI (σ ++ ρ1 ++ ρ2) = Ty.con "fun" [d', r'] := by
                  rw [Ty.substI_append ρ2 (by rw [w1.len]; exact pf.tb)]; exact hf2
                have hfun2 : funT.Bounded st2.uf.length := pf.tb.mono pa.ext.len
                simp only [infer, bind, Except.bind, hf, ha]
                have happ : σ ++ ρ1 ++ ρ2 = σ ++ (ρ1 ++ ρ2) := by simp
                split
                · -- funT = fun (d0 :: rest)
                  rename_i d0 rest
                  simp only [Ty.substI_con, List.map_cons, Ty.con.injEq, true_and, List.cons.injEq] at hf2'
                  obtain ⟨hd0, hrest⟩ := hf2'
                  cases rest with
                  | nil => simp at hrest
                  | cons r0 rest' =>
                    simp only [List.map_cons, List.cons.injEq, List.map_eq_nil_iff] at hrest
                    obtain ⟨hr0, hnil⟩ := hrest
                    subst hnil
                    have hd0b : d0.Bounded st2.uf.length := con_arg_bounded hfun2 (by simp)
                    rcases unify_complete_aux (σ ++ ρ1 ++ ρ2) fuel st2 d0 argT g2.1 w2.sol (by rw [hd0, ha2]) hd0b pa.tb with
                      hu | ⟨st3, hu, -, hs3, -⟩
                    · rw [hu]; exact Or.inl rfl
                    · rw [hu]
                      simp only
                      refine Or.inr ⟨_, _, _, ρ1 ++ ρ2, rfl, ?_, ?_, ?_⟩
                      · rw [← happ]; exact w2.unify pa.inv hu hs3
                      · rw [← happ]; simp only [Skel.substI, hf1', ha1]
                      · rw [← happ]; exact hr0
                · simp at hf2'
                · -- funT internal: a fresh result type
                  rename_i k
                  have w3 := w2.snoc pa.inv pa.cb r'
                  have hres := fresh_substI w2 r'
                  have hl3 : (newType st2).2.uf.length = st2.uf.length + 1 := by simp [newType]
                  have e1 : (Ty.stvar (TName.internal k)).substI (σ ++ ρ1 ++ ρ2 ++ [r']) = Ty.con "fun" [d', r'] := by
                    rw [Ty.substI_append [r'] (by rw [w2.len]; exact hfun2)]; exact hf2'
                  have e2 : (tfun argT (newType st2).1).substI (σ ++ ρ1 ++ ρ2 ++ [r']) = Ty.con "fun" [d', r'] := by
                    simp only [Ty.substI_con, List.map_cons, List.map_nil, hres]
                    rw [Ty.substI_append [r'] (by rw [w2.len]; exact pa.tb), ha2]
                  have hres_b : (newType st2).1.Bounded (newType st2).2.uf.length := by
                    rw [newType_fst]; apply int_bounded; rw [hl3]; exact Nat.lt_succ_self _
                  rcases unify_complete_aux (σ ++ ρ1 ++ ρ2 ++ [r']) fuel (newType st2).2 (Ty.stvar (TName.internal k))
                      (tfun argT (newType st2).1) (newType_good g2).1 w3.sol (by rw [e1, e2])
                      (hfun2.mono (by rw [hl3]; exact Nat.le_succ _))
                      (tfun_bounded (pa.tb.mono (by rw [hl3]; exact Nat.le_succ _)) hres_b) with
                    hu | ⟨st4, hu, -, hs4, -⟩
                  · rw [hu]; exact Or.inl rfl
                  · rw [hu]
                    simp only
                    have happ3 : σ ++ ρ1 ++ ρ2 ++ [r'] = σ ++ (ρ1 ++ ρ2 ++ [r']) := by simp
                    refine Or.inr ⟨_, _, _, ρ1 ++ ρ2 ++ [r'], rfl, ?_, ?_, ?_⟩
                    · rw [← happ3]; exact w3.unify (newType_inv pa.inv) hu hs4
                    · rw [← happ3]
                      have hfb : (Skel.comb f' a').BoundedS (σ ++ ρ1 ++ ρ2).length := by
                        rw [w2.len]; exact ⟨pf.sb.mono pa.ext.len, pa.sb⟩
                      rw [Skel.substI_append [r'] hfb]
                      simp only [Skel.substI, hf1', ha1]
                    · rw [← happ3]; exact hres
                · -- any other shape of funT cannot be a function type under the witness
                  rename_i h1 h2 h3
                  exfalso
                  cases funT with
                  | tvar n => simp at hf2'
                  | stvar n =>
                    cases n with
                    | user s => simp at hf2'
                    | internal k => exact h3 k rfl
                  | con c args =>
                    simp only [Ty.substI_con, Ty.con.injEq] at hf2'
                    obtain ⟨hcn, hargs⟩ := hf2'
                    subst hcn
                    cases args with
                    | nil => exact h2 rfl
                    | cons d0 rest => exact h1 d0 rest rfl
          · cases hU
        · cases hU

end Holpy.C08
