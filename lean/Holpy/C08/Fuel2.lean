import Holpy.C08.Fuel
/-
C08 helper lemmas, part 11: the measure that decreases along descent steps, chains of descent steps.
-/
namespace Holpy.C08

theorem foldr_max_le {l : List Nat} {b : Nat} : l.foldr max 0 ≤ b ↔ ∀ x ∈ l, x ≤ b := by
  induction l with
  | nil => simp
  | cons a l ih =>
    simp only [List.foldr_cons, List.mem_cons, forall_eq_or_imp]
    rw [Nat.max_le, ih]

/-- largest `rank + 1` of an internal variable occurring in `T` (0 if there is none) -/
def mrk (st : St) (T : Ty) : Nat := (T.internals.map (fun j => rk st j + 1)).foldr max 0

theorem mrk_le {st : St} {T : Ty} {b : Nat} : mrk st T ≤ b ↔ ∀ j ∈ T.internals, rk st j + 1 ≤ b := by
  unfold mrk
  rw [foldr_max_le]
  simp

theorem le_mrk {st : St} {T : Ty} {j : Nat} (h : j ∈ T.internals) : rk st j + 1 ≤ mrk st T :=
  (mrk_le (b := mrk st T)).1 (Nat.le_refl _) j h

/-- the lexicographic measure `(mrk, size)` coded as one number, for sizes ≤ S -/
def meas (st : St) (S : Nat) (T : Ty) : Nat := mrk st T * (S + 1) + T.size

/-- descent step: `Y` is the (constructor) representative of an argument of the constructor type `X` -/
def Edge (st : St) (X Y : Ty) : Prop :=
  ∃ (n : String) (as : List Ty) (a : Ty) (m : String) (bs : List Ty),
    X = .con n as ∧ a ∈ as ∧ lookupRep st a = .ok Y ∧ Y = .con m bs

theorem internals_arg_subset {n : String} {as : List Ty} {a : Ty} (h : a ∈ as) :
    ∀ j ∈ a.internals, j ∈ (Ty.con n as).internals := by
  intro j hj
  simp only [Ty.internals_con, List.mem_flatMap]
  exact ⟨a, h, hj⟩

theorem edge_lt {st : St} {S : Nat} {X Y : Ty} (ri : RInv st) (sz : SZ S st) (h : Edge st X Y) :
    meas st S Y < meas st S X := by
  obtain ⟨n, as, a, m, bs, rfl, ha, hl, rfl⟩ := h
  unfold meas
  cases hA : a.isInternal with
  | false =>
    have := lookupRep_nonint hA hl
    subst this
    have h1 : mrk st (Ty.con m bs) ≤ mrk st (Ty.con n as) :=
      mrk_le.2 (fun j hj => le_mrk (internals_arg_subset ha j hj))
    have h2 := size_arg_lt (n := n) ha
    have h3 := Nat.mul_le_mul_right (S + 1) h1
    omega
  | true =>
    obtain ⟨k, rfl⟩ := (Ty.isInternal_iff a).1 hA
    have hk := lookupRep_int hl
    have hne : Ty.con m bs ≠ Ty.int k := by intro e; cases e
    have h1 : mrk st (Ty.con m bs) ≤ rk st k :=
      mrk_le.2 (fun j hj => rk_lt ri (ri.edge k _ hk hne j hj))
    have h2 : rk st k + 1 ≤ mrk st (Ty.con n as) := le_mrk (internals_arg_subset ha k (by simp))
    have h3 : (Ty.con m bs).size ≤ S := sz k _ hk
    have h4 : (mrk st (Ty.con m bs) + 1) * (S + 1) ≤ mrk st (Ty.con n as) * (S + 1) :=
      Nat.mul_le_mul_right (S + 1) (by omega)
    rw [Nat.succ_mul] at h4
    omega

theorem meas_le {st : St} {S : Nat} {T : Ty} (rb : RB st) (hT : T.size ≤ S) :
    meas st S T ≤ (st.uf.length + 1) * (S + 1) + S := by
  unfold meas
  have h1 : mrk st T ≤ st.uf.length + 1 := mrk_le.2 (fun j _ => by have := rk_le rb j; omega)
  have := Nat.mul_le_mul_right (S + 1) h1
  omega

/-- `y :: x :: …`: a chain of descent steps, deepest first -/
def ChainOK (st : St) : List Ty → Prop
  | [] => True
  | [_] => True
  | y :: x :: rest => Edge st x y ∧ ChainOK st (x :: rest)

theorem chain_len {st : St} {S : Nat} (ri : RInv st) (rb : RB st) (sz : SZ S st) :
    ∀ (c : List Ty) (y : Ty), ChainOK st (y :: c) → (∀ X ∈ y :: c, X.size ≤ S) →
      (y :: c).length + meas st S y ≤ (st.uf.length + 1) * (S + 1) + S + 1 := by
  intro c
  induction c with
  | nil =>
    intro y _ hs
    have := meas_le (st := st) rb (hs y (by simp))
    simp only [List.length_cons, List.length_nil]
    omega
  | cons x rest ih =>
    intro y hc hs
    obtain ⟨he, hc'⟩ := hc
    have := ih x hc' (fun X hX => hs X (List.mem_cons_of_mem _ hX))
    have := edge_lt ri sz he
    simp only [List.length_cons] at *
    omega

theorem Edge.persist {st st' : St} {X Y : Ty} (hp : Persist st st') (h : Edge st X Y) : Edge st' X Y := by
  obtain ⟨n, as, a, m, bs, rfl, ha, hl, rfl⟩ := h
  refine ⟨n, as, a, m, bs, rfl, ha, ?_, rfl⟩
  cases hA : a.isInternal with
  | false =>
    have := lookupRep_nonint hA hl
    subst this
    simp [lookupRep]
  | true =>
    obtain ⟨k, rfl⟩ := (Ty.isInternal_iff a).1 hA
    have hk := hp k m bs (lookupRep_int hl)
    simp [lookupRep, hk]

theorem ChainOK.persist {st st' : St} (hp : Persist st st') : ∀ (c : List Ty), ChainOK st c → ChainOK st' c := by
  intro c
  induction c with
  | nil => intro _; trivial
  | cons y c ih =>
    cases c with
    | nil => intro _; trivial
    | cons x rest => intro ⟨he, hc⟩; exact ⟨he.persist hp, ih hc⟩

end Holpy.C08
