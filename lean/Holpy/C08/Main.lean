import Holpy.C08.InferSpec
/-
C08 helper lemmas, part 5: assembling `infer_sound` from the traversal and the final loop.
-/
namespace Holpy.C08

theorem Respects.erase_eq {ctx : Ctx} {vt svt : String → Ty} {t t' : Skel} (h : Respects ctx vt svt t t') :
    t'.erase = t.erase := by
  induction h with
  | comb _ _ ih1 ih2 => simp [Skel.erase, ih1, ih2]
  | absAnn x A _ ih => simp [Skel.erase, ih]
  | absNew x T _ ih => simp [Skel.erase, ih]
  | _ => simp [Skel.erase]

theorem inv_empty : Inv St.empty :=
  ⟨by intro k r h; simp [St.empty] at h, by intro k U h; simp [St.empty] at h, rfl⟩

theorem cb_empty : CB St.empty :=
  ⟨by intro n T h; simp [St.empty] at h, by intro n T h; simp [St.empty] at h⟩

/-- the filled skeleton after the final substitution respects the input skeleton -/
theorem Pre.respects {ctx : Ctx} {ic isc : List (String × Ty)} (τ : List Ty)
    {t t' : Skel} (h : Pre ctx ic isc t t') :
    Respects ctx (fun n => ((ic.lookup n).getD default).substI τ) (fun n => ((isc.lookup n).getD default).substI τ)
      t (t'.substI τ) := by
  induction h with
  | varAnn n A hA =>
    simp only [Skel.substI, Option.map_some, Ty.substI_of_noInt τ A hA]
    exact .varAnn n A
  | varDecl n T hd hT =>
    simp only [Skel.substI, Option.map_some, Ty.substI_of_noInt τ T hT]
    exact .varDecl n T hd
  | varInc n T hd hi =>
    simp only [Skel.substI, Option.map_some]
    have := Respects.varFree (ctx := ctx) (vt := fun n => ((ic.lookup n).getD default).substI τ)
      (svt := fun n => ((isc.lookup n).getD default).substI τ) n hd
    simpa [hi] using this
  | svarAnn n A hA =>
    simp only [Skel.substI, Option.map_some, Ty.substI_of_noInt τ A hA]
    exact .svarAnn n A
  | svarDecl n T hd hT =>
    simp only [Skel.substI, Option.map_some, Ty.substI_of_noInt τ T hT]
    exact .svarDecl n T hd
  | svarInc n T hd hi =>
    simp only [Skel.substI, Option.map_some]
    have := Respects.svarFree (ctx := ctx) (vt := fun n => ((ic.lookup n).getD default).substI τ)
      (svt := fun n => ((isc.lookup n).getD default).substI τ) n hd
    simpa [hi] using this
  | constAnn n A hA =>
    simp only [Skel.substI, Option.map_some, Ty.substI_of_noInt τ A hA]
    exact .constAnn n A
  | constSig n S m hs hst =>
    simp only [Skel.substI, Option.map_some, inst_substI m τ S hst]
    exact .constSig n S _ hs
  | constDef n D m _ hd hD =>
    simp only [Skel.substI, Option.map_some, instS_substI m τ D hD]
    exact .constDef n D _ hd
  | comb _ _ ih1 ih2 => exact .comb ih1 ih2
  | absAnn x A hA _ ih =>
    simp only [Skel.substI, Option.map_some, Ty.substI_of_noInt τ A hA]
    exact .absAnn x A ih
  | absNew x T _ ih => exact .absNew x _ ih
  | bound i => exact .bound i

/-- giving the head constant its declared type and then respecting the result respects the original -/
theorem Respects.of_setHead {ctx : Ctx} {vt svt : String → Ty} {D : Ty} :
    ∀ {l l' : Skel} {n : String}, l.headConst = some (n, none) → ctx.defs.lookup n = some D →
      Respects ctx vt svt (l.setHead D) l' → Respects ctx vt svt l l' := by
  intro l
  induction l with
  | comb f a ihf _ =>
    intro l' n hh hd h
    simp only [Skel.setHead] at h
    cases h with
    | comb h1 h2 => exact .comb (ihf (by simpa [Skel.headConst] using hh) hd h1) h2
  | const c T =>
    intro l' n hh hd h
    simp only [Skel.headConst, Option.some.injEq, Prod.mk.injEq] at hh
    obtain ⟨rfl, rfl⟩ := hh
    simp only [Skel.setHead] at h
    cases h with
    | constAnn _ _ =>
      have := Respects.constDef (ctx := ctx) (vt := vt) (svt := svt) c D [] hd
      rwa [instS_nil] at this
  | svar n T => intro l' n hh; simp [Skel.headConst] at hh
  | var n T => intro l' n hh; simp [Skel.headConst] at hh
  | abs x T b _ => intro l' n hh; simp [Skel.headConst] at hh
  | bound i => intro l' n hh; simp [Skel.headConst] at hh

theorem Respects.of_applyDefs {ctx : Ctx} {vt svt : String → Ty} {t t0 t' : Skel}
    (h0 : applyDefs ctx t = .ok t0) (h : Respects ctx vt svt t0 t') : Respects ctx vt svt t t' := by
  simp only [applyDefs] at h0
  split at h0
  · cases h0; exact h
  · split at h0
    · rename_i T l r
      split at h0
      · rename_i n hh
        split at h0
        · rename_i D hd
          split at h0
          · cases h0
          · cases h0
            cases h with
            | comb h1 h2 =>
              cases h1 with
              | comb h3 h4 => exact .comb (.comb h3 (Respects.of_setHead hh hd h4)) h2
        · cases h0; exact h
      · cases h0; exact h
    · cases h0; exact h

theorem BoundedS.fullyTyped {τ : List Ty} (hτ : ∀ j, j < τ.length → (τ.getD j (Ty.int j)).NoInt) :
    ∀ {t : Skel}, t.BoundedS τ.length → (t.substI τ).FullyTyped := by
  have key : ∀ U : Ty, U.Bounded τ.length → (U.substI τ).noInternal :=
    fun U hU => Ty.noInt_substI τ U (fun j hj => hτ j (hU j hj))
  intro t
  induction t with
  | svar x T => intro ⟨U, h1, h2⟩; subst h1; exact ⟨_, rfl, key U h2⟩
  | var x T => intro ⟨U, h1, h2⟩; subst h1; exact ⟨_, rfl, key U h2⟩
  | const x T => intro ⟨U, h1, h2⟩; subst h1; exact ⟨_, rfl, key U h2⟩
  | comb f a ih1 ih2 => intro ⟨h1, h2⟩; exact ⟨ih1 h1, ih2 h2⟩
  | abs x T b ih => intro ⟨⟨U, h1, h2⟩, h3⟩; subst h1; exact ⟨⟨_, rfl, key U h2⟩, ih h3⟩
  | bound i => intro _; trivial

/-- with `unspecified = []` the exit condition of the loop says: no internal variable left -/
theorem noInt_of_exit {T : Ty} (h : T.internals.any (fun v => !([] : List Nat).contains v) = false) : T.NoInt := by
  cases hi : T.internals with
  | nil => exact hi
  | cons a l => simp [hi] at h

theorem typeInfer_sound {ctx : Ctx} {fuel : Nat} {t t'' : Skel} (h : typeInfer ctx fuel true t = .ok t'') :
    (∃ T, checkedGetType t'' [] = some T) ∧ (∃ vt svt, Respects ctx vt svt t t'') ∧ t''.FullyTyped := by
  simp only [typeInfer] at h
  cases h0 : applyDefs ctx t with
  | error e => simp [h0] at h
  | ok t0 =>
  simp only [h0] at h
  cases hi : infer ctx fuel t0 [] St.empty with
  | error e => simp [hi] at h
  | ok r =>
    obtain ⟨t', T, st⟩ := r
    simp only [hi, finish] at h
    have post := infer_spec ctx fuel t0 [] St.empty t' T st hi inv_empty cb_empty (by intro B hB; cases hB)
    split at h
    · cases h
    · rename_i hun
      cases hl : finalLoop (unspecOf st.uf) fuel st.uf with
      | error e => simp [hl] at h
      | ok τ =>
        simp only [hl, Except.ok.injEq] at h
        subst h
        have hemp : unspecOf st.uf = [] := by
          cases hu : unspecOf st.uf with
          | nil => rfl
          | cons a l => simp [hu] at hun
        rw [hemp] at hl
        obtain ⟨linv, hexit⟩ := finalLoop_inv (uf := st.uf) [] fuel st.uf τ hl (LoopInv.init st.uf)
        have hno : ∀ j, j < τ.length → (τ.getD j (Ty.int j)).NoInt := fun j hj => noInt_of_exit (hexit j hj)
        have hsol : Solves τ st.uf := loop_solves post.inv.ufb linv hno
        refine ⟨⟨_, by simpa using post.typ τ hsol⟩, ⟨_, _, Respects.of_applyDefs h0 (post.pre.respects τ)⟩, ?_⟩
        apply BoundedS.fullyTyped hno
        rw [linv.1]
        exact post.sb

-- helpers for the non-vacuity examples in Props.lean
theorem ok_of_toOption {α : Type} {r : Except Err α} {a : α} (h : r.toOption = some a) : r = .ok a := by
  cases r with
  | error e => simp [Except.toOption] at h
  | ok b => simp [Except.toOption] at h; rw [h]

theorem exists_ok_of_isSome {α : Type} {r : Except Err α} (h : r.toOption.isSome = true) : ∃ a, r = .ok a := by
  cases r with
  | error e => simp [Except.toOption] at h
  | ok b => exact ⟨b, rfl⟩

end Holpy.C08
