import Holpy.C08.InferSpec
/-
C08 helper lemmas, part 5: assembling `infer_sound` from the traversal and the final loop.
-/
namespace Holpy.C08

theorem Respects.erase_eq {ctx : Ctx} {vt svt : String → Ty} {t t' : Skel} (h : Respects ctx vt svt t t') :
    t'.erase = t.erase := by
  induction h with
  | comb _ _ ih1 ih2 => simp [Skel.erase, ih1, ih2]
  | absAnn x A _ ih => simp [Skel.erase, ih]
  | absNew x T _ ih => simp [Skel.erase, ih]
  | _ => simp [Skel.erase]

theorem inv_empty : Inv St.empty :=
  ⟨by intro k r h; simp [St.empty] at h, by intro k U h; simp [St.empty] at h, rfl⟩

theorem cb_empty : CB St.empty :=
  ⟨by intro n T h; simp [St.empty] at h, by intro n T h; simp [St.empty] at h⟩

/-- the filled skeleton after the final substitution respects the input skeleton -/
theorem Pre.respects {ctx : Ctx} (hctx : ctx.NoInternal) {ic isc : List (String × Ty)} (τ : List Ty)
    {t t' : Skel} (h : Pre ctx ic isc t t') (hann : t.AnnotNoInternal) :
    Respects ctx (fun n => ((ic.lookup n).getD default).substI τ) (fun n => ((isc.lookup n).getD default).substI τ)
      t (t'.substI τ) := by
  induction h with
  | varAnn n A =>
    simp only [Skel.substI, Option.map_some, Ty.substI_of_noInt τ A (hann A rfl)]
    exact .varAnn n A
  | varDecl n T hd =>
    simp only [Skel.substI, Option.map_some, Ty.substI_of_noInt τ T (hctx.1 n T hd)]
    exact .varDecl n T hd
  | varInc n T hd hi =>
    simp only [Skel.substI, Option.map_some]
    have := Respects.varFree (ctx := ctx) (vt := fun n => ((ic.lookup n).getD default).substI τ)
      (svt := fun n => ((isc.lookup n).getD default).substI τ) n hd
    simpa [hi] using this
  | svarAnn n A =>
    simp only [Skel.substI, Option.map_some, Ty.substI_of_noInt τ A (hann A rfl)]
    exact .svarAnn n A
  | svarDecl n T hd =>
    simp only [Skel.substI, Option.map_some, Ty.substI_of_noInt τ T (hctx.2 n T hd)]
    exact .svarDecl n T hd
  | svarInc n T hd hi =>
    simp only [Skel.substI, Option.map_some]
    have := Respects.svarFree (ctx := ctx) (vt := fun n => ((ic.lookup n).getD default).substI τ)
      (svt := fun n => ((isc.lookup n).getD default).substI τ) n hd
    simpa [hi] using this
  | constAnn n A =>
    simp only [Skel.substI, Option.map_some, Ty.substI_of_noInt τ A (hann A rfl)]
    exact .constAnn n A
  | constSig n S m hs hst =>
    simp only [Skel.substI, Option.map_some, inst_substI m τ S hst]
    exact .constSig n S _ hs
  | comb _ _ ih1 ih2 => exact .comb (ih1 hann.1) (ih2 hann.2)
  | absAnn x A _ ih =>
    simp only [Skel.substI, Option.map_some, Ty.substI_of_noInt τ A (hann.1 A rfl)]
    exact .absAnn x A (ih hann.2)
  | absNew x T _ ih => exact .absNew x _ (ih hann.2)
  | bound i => exact .bound i

theorem BoundedS.fullyTyped {τ : List Ty} (hτ : ∀ j, j < τ.length → (τ.getD j (Ty.int j)).NoInt) :
    ∀ {t : Skel}, t.BoundedS τ.length → (t.substI τ).FullyTyped := by
  have key : ∀ U : Ty, U.Bounded τ.length → (U.substI τ).noInternal :=
    fun U hU => Ty.noInt_substI τ U (fun j hj => hτ j (hU j hj))
  intro t
  induction t with
  | svar x T => intro ⟨U, h1, h2⟩; subst h1; exact ⟨_, rfl, key U h2⟩
  | var x T => intro ⟨U, h1, h2⟩; subst h1; exact ⟨_, rfl, key U h2⟩
  | const x T => intro ⟨U, h1, h2⟩; subst h1; exact ⟨_, rfl, key U h2⟩
  | comb f a ih1 ih2 => intro ⟨h1, h2⟩; exact ⟨ih1 h1, ih2 h2⟩
  | abs x T b ih => intro ⟨⟨U, h1, h2⟩, h3⟩; subst h1; exact ⟨⟨_, rfl, key U h2⟩, ih h3⟩
  | bound i => intro _; trivial

/-- with `unspecified = []` the exit condition of the loop says: no internal variable left -/
theorem noInt_of_exit {T : Ty} (h : T.internals.any (fun v => !([] : List Nat).contains v) = false) : T.NoInt := by
  cases hi : T.internals with
  | nil => exact hi
  | cons a l => simp [hi] at h

theorem typeInfer_sound {ctx : Ctx} {fuel : Nat} {t t'' : Skel} (h : typeInfer ctx fuel true t = .ok t'')
    (hctx : ctx.NoInternal) (hann : t.AnnotNoInternal) :
    (∃ T, checkedGetType t'' [] = some T) ∧ (∃ vt svt, Respects ctx vt svt t t'') ∧ t''.FullyTyped := by
  simp only [typeInfer] at h
  cases hi : infer ctx fuel t [] St.empty with
  | error e => simp [hi] at h
  | ok r =>
    obtain ⟨t', T, st⟩ := r
    simp only [hi, finish] at h
    have post := infer_spec ctx hctx fuel t [] St.empty t' T st hi inv_empty cb_empty (by intro B hB; cases hB) hann
    split at h
    · cases h
    · rename_i hun
      cases hl : finalLoop (unspecOf st.uf) fuel st.uf with
      | error e => simp [hl] at h
      | ok τ =>
        simp only [hl, Except.ok.injEq] at h
        subst h
        have hemp : unspecOf st.uf = [] := by
          cases hu : unspecOf st.uf with
          | nil => rfl
          | cons a l => simp [hu] at hun
        rw [hemp] at hl
        obtain ⟨linv, hexit⟩ := finalLoop_inv (uf := st.uf) [] fuel st.uf τ hl (LoopInv.init st.uf)
        have hno : ∀ j, j < τ.length → (τ.getD j (Ty.int j)).NoInt := fun j hj => noInt_of_exit (hexit j hj)
        have hsol : Solves τ st.uf := loop_solves post.inv.ufb linv hno
        refine ⟨⟨_, by simpa using post.typ τ hsol⟩, ⟨_, _, post.pre.respects hctx τ hann⟩, ?_⟩
        apply BoundedS.fullyTyped hno
        rw [linv.1]
        exact post.sb

-- helpers for the non-vacuity examples in Props.lean
theorem ok_of_toOption {α : Type} {r : Except Err α} {a : α} (h : r.toOption = some a) : r = .ok a := by
  cases r with
  | error e => simp [Except.toOption] at h
  | ok b => simp [Except.toOption] at h; rw [h]

theorem exists_ok_of_isSome {α : Type} {r : Except Err α} (h : r.toOption.isSome = true) : ∃ a, r = .ok a := by
  cases r with
  | error e => simp [Except.toOption] at h
  | ok b => exact ⟨b, rfl⟩

end Holpy.C08
