import Holpy.C08.Model
/-
C08 helper lemmas, part 1: types, substitutions, the unification core
(`union_sound`, `unify_sound`: the triangular substitution `uf` solves every equation unified so far).
-/
namespace Holpy.C08

-- ---------------------------------------------------------------- induction on types

theorem Ty.induction {P : Ty → Prop}
    (htv : ∀ n, P (.tvar n)) (hsv : ∀ n, P (.stvar n))
    (hcon : ∀ n as, (∀ a ∈ as, P a) → P (.con n as)) : ∀ T, P T := by
  intro T
  exact Ty.rec (motive_1 := P) (motive_2 := fun as => ∀ a ∈ as, P a)
    htv hsv (fun n as ih => hcon n as ih)
    (by intro a h; cases h)
    (by
      intro hd tl h1 h2 a ha
      cases ha with
      | head => exact h1
      | tail _ h => exact h2 a h) T

@[simp] theorem Ty.substIL_eq_map (τ : List Ty) (as : List Ty) : Ty.substIL τ as = as.map (Ty.substI τ) := by
  induction as with
  | nil => rfl
  | cons a as ih => simp [Ty.substIL, ih]

@[simp] theorem Ty.internalsL_eq (as : List Ty) : Ty.internalsL as = as.flatMap Ty.internals := by
  induction as with
  | nil => rfl
  | cons a as ih => simp [Ty.internalsL, ih]

@[simp] theorem Ty.instL_eq_map (m : List (String × Ty)) (as : List Ty) : Ty.instL m as = as.map (Ty.inst m) := by
  induction as with
  | nil => rfl
  | cons a as ih => simp [Ty.instL, ih]

@[simp] theorem Ty.hasStvarL_eq (as : List Ty) : Ty.hasStvarL as = as.any Ty.hasStvar := by
  induction as with
  | nil => rfl
  | cons a as ih => simp [Ty.hasStvarL, ih]

@[simp] theorem Ty.tvarsL_eq (as : List Ty) : Ty.tvarsL as = as.flatMap Ty.tvars := by
  induction as with
  | nil => rfl
  | cons a as ih => simp [Ty.tvarsL, ih]

@[simp] theorem Ty.substI_con (τ : List Ty) (n : String) (as : List Ty) :
    (Ty.con n as).substI τ = .con n (as.map (Ty.substI τ)) := by simp [Ty.substI]

@[simp] theorem Ty.substI_int (τ : List Ty) (k : Nat) : (Ty.int k).substI τ = τ.getD k (Ty.int k) := by
  simp [Ty.substI]

@[simp] theorem Ty.substI_tvar (τ : List Ty) (n : String) : (Ty.tvar n).substI τ = .tvar n := by simp [Ty.substI]

@[simp] theorem Ty.substI_user (τ : List Ty) (s : String) : (Ty.stvar (.user s)).substI τ = .stvar (.user s) := by
  simp [Ty.substI]

@[simp] theorem Ty.internals_con (n : String) (as : List Ty) : (Ty.con n as).internals = as.flatMap Ty.internals := by
  simp [Ty.internals]

@[simp] theorem Ty.internals_int (k : Nat) : (Ty.int k).internals = [k] := by simp [Ty.internals]

/-- a type without internal variables -/
def Ty.NoInt (T : Ty) : Prop := T.internals = []

/-- all internal variables of `T` are `< n` -/
def Ty.Bounded (n : Nat) (T : Ty) : Prop := ∀ j ∈ T.internals, j < n

theorem Ty.NoInt.bounded {T : Ty} (h : T.NoInt) (n : Nat) : T.Bounded n := by
  intro j hj; rw [h] at hj; cases hj

theorem Ty.Bounded.mono {T : Ty} {n m : Nat} (h : T.Bounded n) (hnm : n ≤ m) : T.Bounded m :=
  fun j hj => Nat.lt_of_lt_of_le (h j hj) hnm

theorem Ty.isInternal_iff (T : Ty) : T.isInternal = true ↔ ∃ k, T = Ty.int k := by
  cases T with
  | tvar n => simp [Ty.isInternal]
  | stvar n => cases n <;> simp [Ty.isInternal]
  | con n as => simp [Ty.isInternal]

/-- substituting in a type without internal variables changes nothing -/
theorem Ty.substI_of_noInt (τ : List Ty) : ∀ T : Ty, T.NoInt → T.substI τ = T := by
  intro T
  induction T using Ty.induction with
  | htv n => intro _; simp
  | hsv n =>
    cases n with
    | user s => intro _; simp
    | internal k => intro h; simp [Ty.NoInt] at h
  | hcon n as ih =>
    intro h
    simp only [Ty.NoInt, Ty.internals_con, List.flatMap_eq_nil_iff] at h
    simp only [Ty.substI_con, Ty.con.injEq, true_and]
    conv => rhs; rw [← List.map_id as]
    apply List.map_congr_left
    intro a ha
    simpa using ih a ha (h a ha)

/-- the substitution result has no internal variables when every substituted variable's image has none -/
theorem Ty.noInt_substI (τ : List Ty) : ∀ T : Ty,
    (∀ j ∈ T.internals, (τ.getD j (Ty.int j)).NoInt) → (T.substI τ).NoInt := by
  intro T
  induction T using Ty.induction with
  | htv n => intro _; simp [Ty.NoInt, Ty.internals]
  | hsv n =>
    cases n with
    | user s => intro _; simp [Ty.NoInt, Ty.internals]
    | internal k => intro h; simpa using h k (by simp)
  | hcon n as ih =>
    intro h
    simp only [Ty.NoInt, Ty.substI_con, Ty.internals_con, List.flatMap_eq_nil_iff, List.mem_map,
      forall_exists_index, and_imp, forall_apply_eq_imp_iff₂]
    intro a ha
    apply ih a ha
    intro j hj
    apply h
    simp only [Ty.internals_con, List.mem_flatMap]
    exact ⟨a, ha, hj⟩

/-- two substitutions that agree on the internal variables of `T` give the same result -/
theorem Ty.substI_congr (τ ρ : List Ty) : ∀ T : Ty,
    (∀ j ∈ T.internals, τ.getD j (Ty.int j) = ρ.getD j (Ty.int j)) → T.substI τ = T.substI ρ := by
  intro T
  induction T using Ty.induction with
  | htv n => intro _; simp
  | hsv n =>
    cases n with
    | user s => intro _; simp
    | internal k => intro h; simpa using h k (by simp)
  | hcon n as ih =>
    intro h
    simp only [Ty.substI_con, Ty.con.injEq, true_and]
    apply List.map_congr_left
    intro a ha
    apply ih a ha
    intro j hj
    apply h
    simp only [Ty.internals_con, List.mem_flatMap]
    exact ⟨a, ha, hj⟩

-- ---------------------------------------------------------------- solutions of the triangular system

/-- `τ` (a substitution for the internal variables) solves the equations `?'_tk ≐ uf[k]` -/
def Solves (τ : List Ty) (uf : List Ty) : Prop :=
  ∀ (k : Nat) (U : Ty), uf[k]? = some U → τ.getD k (Ty.int k) = U.substI τ

/-- `uf` is flat: an entry that is an internal variable is a representative (points to itself) -/
def Flat (uf : List Ty) : Prop :=
  ∀ (k r : Nat), uf[k]? = some (Ty.int r) → uf[r]? = some (Ty.int r)

/-- `T` is a possible result of representative lookup: a representative or not a variable -/
def RepOrNon (uf : List Ty) (T : Ty) : Prop :=
  ∀ r : Nat, T = Ty.int r → uf[r]? = some (Ty.int r)

/-- every entry of `uf` only mentions existing internal variables -/
def UfBounded (uf : List Ty) : Prop :=
  ∀ (k : Nat) (U : Ty), uf[k]? = some U → U.Bounded uf.length

theorem lookupRep_int {st : St} {k : Nat} {T : Ty} (h : lookupRep st (Ty.int k) = .ok T) :
    st.uf[k]? = some T := by
  simp only [lookupRep] at h
  cases hU : st.uf[k]? with
  | none => simp [hU] at h
  | some U => simp [hU] at h; rw [h]

theorem lookupRep_nonint {st : St} {A T : Ty} (hA : A.isInternal = false) (h : lookupRep st A = .ok T) :
    T = A := by
  cases A with
  | tvar n => simp [lookupRep] at h; exact h.symm
  | stvar n =>
    cases n with
    | user s => simp [lookupRep] at h; exact h.symm
    | internal k => simp [Ty.isInternal] at hA
  | con n as => simp [lookupRep] at h; exact h.symm

theorem lookupRep_spec {st : St} {A T : Ty} (h : lookupRep st A = .ok T) (hf : Flat st.uf) :
    RepOrNon st.uf T ∧ (∀ τ, Solves τ st.uf → A.substI τ = T.substI τ) ∧
    (A.Bounded st.n → UfBounded st.uf → T.Bounded st.n) := by
  cases hA : A.isInternal with
  | true =>
    obtain ⟨k, rfl⟩ := (Ty.isInternal_iff A).1 hA
    have hU := lookupRep_int h
    refine ⟨?_, ?_, ?_⟩
    · intro r hr; subst hr; exact hf k r hU
    · intro τ hτ; simpa using hτ k _ hU
    · intro _ hb; exact hb k _ hU
  | false =>
    have := lookupRep_nonint hA h
    subst this
    refine ⟨?_, fun _ _ => rfl, fun hb _ => hb⟩
    intro r hr
    subst hr
    simp [Ty.isInternal] at hA

theorem union_uf {st st' : St} {T1 T2 : Ty} (h : union st T1 T2 = .ok st') :
    st'.uf = st.uf.map (fun U => if U = T1 then T2 else U) ∧ st'.ictx = st.ictx ∧ st'.isctx = st.isctx ∧
    T2.Bounded st.n := by
  simp only [union] at h
  split at h
  · rename_i hc
    split at h
    · cases h
    · cases h
      simp only [Bool.and_eq_true, List.all_eq_true, decide_eq_true_eq] at hc
      exact ⟨rfl, rfl, rfl, fun j hj => hc.1 j hj⟩
  · cases h

/-- `union(T1, T2)` with `T1` a representative: every solution of the new system solves the old one
and unifies `T1` with `T2`; flatness is kept. -/
theorem union_sound {st st' : St} {T1 T2 : Ty} {r : Nat} (h : union st T1 T2 = .ok st')
    (h1 : T1 = Ty.int r) (hr : st.uf[r]? = some T1) (hf : Flat st.uf) (h2 : RepOrNon st.uf T2) :
    Flat st'.uf ∧ st'.uf.length = st.uf.length ∧
    (∀ τ, Solves τ st'.uf → Solves τ st.uf ∧ T1.substI τ = T2.substI τ) := by
  obtain ⟨huf, -, -, -⟩ := union_uf h
  refine ⟨?_, by simp [huf], ?_⟩
  · intro k q hk
    rw [huf] at hk ⊢
    simp only [List.getElem?_map, Option.map_eq_some_iff] at hk ⊢
    obtain ⟨U, hU, hUq⟩ := hk
    by_cases hc : U = T1
    · simp only [hc, if_true] at hUq
      have := h2 q hUq
      refine ⟨Ty.int q, this, ?_⟩
      by_cases hq : Ty.int q = T1
      · simp [hq, hUq]
      · simp [hq]
    · simp only [hc, if_false] at hUq
      subst hUq
      refine ⟨Ty.int q, hf k q hU, ?_⟩
      simp [hc]
  · intro τ hτ
    have key : T1.substI τ = T2.substI τ := by
      have := hτ r T2 (by rw [huf]; simp [hr])
      rw [h1]; simpa using this
    refine ⟨?_, key⟩
    intro k U hU
    have := hτ k (if U = T1 then T2 else U) (by rw [huf]; simp [hU])
    by_cases hc : U = T1
    · simp only [hc, if_true] at this
      rw [this, hc, key]
    · simpa [hc] using this

-- ---------------------------------------------------------------- state invariant, unify

/-- invariant of the inference state (the part needed for soundness) -/
structure Inv (st : St) : Prop where
  flat : Flat st.uf
  ufb : UfBounded st.uf
  rlen : st.reach.length = st.uf.length

theorem union_inv {st st' : St} {T1 T2 : Ty} {r : Nat} (h : union st T1 T2 = .ok st') (inv : Inv st)
    (h1 : T1 = Ty.int r) (hr : st.uf[r]? = some T1) (h2 : RepOrNon st.uf T2) : Inv st' := by
  obtain ⟨hfl, hlen, -⟩ := union_sound h h1 hr inv.flat h2
  obtain ⟨huf, -, -, hb⟩ := union_uf h
  refine ⟨hfl, ?_, ?_⟩
  · intro k U hU
    rw [hlen]
    rw [huf] at hU
    simp only [List.getElem?_map, Option.map_eq_some_iff] at hU
    obtain ⟨V, hV, hVU⟩ := hU
    by_cases hc : V = T1
    · simp only [hc, if_true] at hVU; subst hVU; exact hb
    · simp only [hc, if_false] at hVU; subst hVU; exact inv.ufb k V hV
  · simp only [union] at h
    split at h
    · split at h
      · cases h
      · cases h
        simp [inv.rlen]
    · cases h

/-- what a successful `unify(A, B)` guarantees -/
def UnifyPost (st st' : St) (A B : Ty) : Prop :=
  Inv st' ∧ st'.uf.length = st.uf.length ∧ st'.ictx = st.ictx ∧ st'.isctx = st.isctx ∧
  ∀ τ, Solves τ st'.uf → Solves τ st.uf ∧ A.substI τ = B.substI τ

theorem UnifyPost.refl {st : St} {A B : Ty} (inv : Inv st) (h : ∀ τ, A.substI τ = B.substI τ) :
    UnifyPost st st A B := ⟨inv, rfl, rfl, rfl, fun τ hτ => ⟨hτ, h τ⟩⟩

theorem unionStep_sound {st st' : St} {T1 T2 : Ty}
    (h : (if T1.isInternal then union st T1 T2 else if T2.isInternal then union st T2 T1 else .error .clash) = .ok st')
    (inv : Inv st) (r1 : RepOrNon st.uf T1) (r2 : RepOrNon st.uf T2) : UnifyPost st st' T1 T2 := by
  by_cases c1 : T1.isInternal = true
  · simp only [c1, if_true] at h
    obtain ⟨r, hr⟩ := (Ty.isInternal_iff T1).1 c1
    have hrep : st.uf[r]? = some T1 := by rw [hr]; exact r1 r hr
    obtain ⟨-, hlen, hs⟩ := union_sound h hr hrep inv.flat r2
    obtain ⟨-, hi, his, -⟩ := union_uf h
    exact ⟨union_inv h inv hr hrep r2, hlen, hi, his, hs⟩
  · simp only [c1] at h
    by_cases c2 : T2.isInternal = true
    · simp only [c2, if_true] at h
      obtain ⟨r, hr⟩ := (Ty.isInternal_iff T2).1 c2
      have hrep : st.uf[r]? = some T2 := by rw [hr]; exact r2 r hr
      obtain ⟨-, hlen, hs⟩ := union_sound h hr hrep inv.flat r1
      obtain ⟨-, hi, his, -⟩ := union_uf h
      exact ⟨union_inv h inv hr hrep r1, hlen, hi, his, fun τ hτ => ⟨(hs τ hτ).1, (hs τ hτ).2.symm⟩⟩
    · simp [c2] at h

theorem unifyArgs_sound {u : St → Ty → Ty → Except Err St}
    (hu : ∀ st a b st', u st a b = .ok st' → Inv st → UnifyPost st st' a b) :
    ∀ (as bs : List Ty) (st st' : St), unifyArgs u st as bs = .ok st' → Inv st → as.length = bs.length →
      Inv st' ∧ st'.uf.length = st.uf.length ∧ st'.ictx = st.ictx ∧ st'.isctx = st.isctx ∧
      ∀ τ, Solves τ st'.uf → Solves τ st.uf ∧ as.map (Ty.substI τ) = bs.map (Ty.substI τ) := by
  intro as
  induction as with
  | nil =>
    intro bs st st' h inv hl
    cases bs with
    | nil => simp [unifyArgs] at h; subst h; exact ⟨inv, rfl, rfl, rfl, fun τ hτ => ⟨hτ, rfl⟩⟩
    | cons b bs => simp at hl
  | cons a as ih =>
    intro bs st st' h inv hl
    cases bs with
    | nil => simp at hl
    | cons b bs =>
      simp only [unifyArgs, bind, Except.bind] at h
      cases h1 : u st a b with
      | error e => simp [h1] at h
      | ok st1 =>
        simp only [h1] at h
        obtain ⟨inv1, l1, i1, is1, s1⟩ := hu st a b st1 h1 inv
        obtain ⟨inv2, l2, i2, is2, s2⟩ := ih bs st1 st' h inv1 (by simpa using hl)
        refine ⟨inv2, by omega, by rw [i2, i1], by rw [is2, is1], ?_⟩
        intro τ hτ
        obtain ⟨hτ1, e2⟩ := s2 τ hτ
        obtain ⟨hτ0, e1⟩ := s1 τ hτ1
        exact ⟨hτ0, by simp [e1, e2]⟩

/-- Soundness of `unify`: every solution of the resulting triangular system solves the old system
and makes the two types equal. -/
theorem unify_post : ∀ (fuel : Nat) (st : St) (A B : Ty) (st' : St),
    unify fuel st A B = .ok st' → Inv st → UnifyPost st st' A B := by
  intro fuel
  induction fuel with
  | zero => intro st A B st' h; simp [unify] at h
  | succ f ih =>
    intro st A B st' h inv
    simp only [unify, bind, Except.bind] at h
    cases hA : lookupRep st A with
    | error e => simp [hA] at h
    | ok T1 =>
      cases hB : lookupRep st B with
      | error e => simp [hA, hB] at h
      | ok T2 =>
        simp only [hA, hB] at h
        obtain ⟨r1, sA, -⟩ := lookupRep_spec hA inv.flat
        obtain ⟨r2, sB, -⟩ := lookupRep_spec hB inv.flat
        -- it suffices to show the post-condition for the representatives
        suffices hpost : UnifyPost st st' T1 T2 by
          obtain ⟨i, l, c, cs, s⟩ := hpost
          refine ⟨i, l, c, cs, fun τ hτ => ?_⟩
          obtain ⟨h0, e⟩ := s τ hτ
          exact ⟨h0, by rw [sA τ h0, sB τ h0, e]⟩
        cases T1 with
        | tvar n1 =>
          cases T2 with
          | tvar n2 =>
            simp only at h
            split at h
            · rename_i hn; cases h; subst hn; exact UnifyPost.refl inv (fun _ => rfl)
            · cases h
          | stvar n2 => exact unionStep_sound h inv r1 r2
          | con n2 as2 => exact unionStep_sound h inv r1 r2
        | stvar n1 =>
          cases T2 with
          | tvar n2 => exact unionStep_sound h inv r1 r2
          | stvar n2 =>
            simp only at h
            split at h
            · rename_i hn; cases h; subst hn; exact UnifyPost.refl inv (fun _ => rfl)
            · exact unionStep_sound h inv r1 r2
          | con n2 as2 => exact unionStep_sound h inv r1 r2
        | con n1 as1 =>
          cases T2 with
          | tvar n2 => exact unionStep_sound h inv r1 r2
          | stvar n2 => exact unionStep_sound h inv r1 r2
          | con n2 as2 =>
            simp only at h
            split at h
            · rename_i hn
              split at h
              · cases h
              · rename_i hl
                subst hn
                obtain ⟨i, l, c, cs, s⟩ := unifyArgs_sound (fun st a b st' => ih st a b st') as1 as2 st st' h inv
                  (by simpa using hl)
                exact ⟨i, l, c, cs, fun τ hτ => ⟨(s τ hτ).1, by simp [(s τ hτ).2]⟩⟩
            · cases h

end Holpy.C08
