import Holpy.C08.Proofs
/-
C08 helper lemmas, part 6: the reachability sets.
`RInv`: `reach[k]` contains every internal variable of `uf[k]`, is transitively closed, and never
contains `k` itself — so it over-approximates reachability in `uf` and `uf` is acyclic.
`union` (with fix C08-1) keeps `RInv`; so do `new_type`, `unify` and `infer`.
-/
namespace Holpy.C08

/-- `reach[k]` (empty when `k` is not a key) -/
def rset (st : St) (k : Nat) : List Nat := st.reach.getD k []

structure RInv (st : St) : Prop where
  rlen : st.reach.length = st.uf.length
  edge : ∀ (k : Nat) (U : Ty), st.uf[k]? = some U → U ≠ Ty.int k → ∀ j ∈ U.internals, j ∈ rset st k
  irrefl : ∀ k : Nat, k ∉ rset st k
  trans : ∀ k j : Nat, j ∈ rset st k → ∀ i ∈ rset st j, i ∈ rset st k

/-- `k` is in the class of `T1`, or reaches it -/
def touched (st : St) (T1 : Ty) (k : Nat) : Prop :=
  st.uf[k]? = some T1 ∨ ∃ m ∈ rset st k, st.uf[m]? = some T1

theorem mem_newReach {st : St} {T2 : Ty} {i : Nat} :
    i ∈ newReach st T2 ↔ ∃ j ∈ T2.internals, i = j ∨ i ∈ rset st j := by
  simp [newReach, rset, List.mem_flatMap]

theorem union_reach {st st' : St} {T1 T2 : Ty} (h : union st T1 T2 = .ok st') :
    st'.reach = List.zipWith (fun U r => if U = T1 || r.any (fun k => st.uf[k]? == some T1) then r ++ newReach st T2 else r)
      st.uf st.reach ∧ ∀ i ∈ newReach st T2, st.uf[i]? ≠ some T1 := by
  simp only [union] at h
  split at h
  · split at h
    · cases h
    · rename_i hoc
      cases h
      refine ⟨rfl, ?_⟩
      intro i hi hc
      apply hoc
      simp only [List.any_eq_true]
      exact ⟨i, hi, by simp [hc]⟩
  · cases h

theorem mem_rset_union {st st' : St} {T1 T2 : Ty} (h : union st T1 T2 = .ok st')
    (hl : st.reach.length = st.uf.length) (k i : Nat) :
    i ∈ rset st' k ↔ i ∈ rset st k ∨ (touched st T1 k ∧ i ∈ newReach st T2) := by
  obtain ⟨hr, -⟩ := union_reach h
  simp only [rset, hr, List.getD_eq_getElem?_getD, List.getElem?_zipWith]
  cases hu : st.uf[k]? with
  | none =>
    have hk : st.uf.length ≤ k := by
      rcases Nat.lt_or_ge k st.uf.length with h1 | h1
      · simp [List.getElem?_eq_getElem h1] at hu
      · exact h1
    have : st.reach[k]? = none := List.getElem?_eq_none (by omega)
    simp [this, touched, hu, rset]
  | some U =>
    have hk : k < st.uf.length := by
      rcases Nat.lt_or_ge k st.uf.length with h1 | h1
      · exact h1
      · simp [List.getElem?_eq_none h1] at hu
    cases hrk : st.reach[k]? with
    | none => simp at hrk; omega
    | some r =>
      simp only [Option.getD_some, touched, rset, List.getD_eq_getElem?_getD, hrk, hu, Option.some.injEq]
      by_cases hc : U = T1
      · simp [hc]
      · by_cases hany : r.any (fun k => st.uf[k]? == some T1) = true
        · have : ∃ m ∈ r, st.uf[m]? = some T1 := by
            simp only [List.any_eq_true, beq_iff_eq] at hany
            exact hany
          simp [hc, hany, this]
        · have : ¬ ∃ m ∈ r, st.uf[m]? = some T1 := by
            intro ⟨m, hm, hm2⟩
            apply hany
            simp only [List.any_eq_true, beq_iff_eq]
            exact ⟨m, hm, hm2⟩
          simp [hc, hany, this]

/-- `union_preserves_reach`: `union` keeps the reachability invariant.  With the pre-fix `union`
(reach sets extended for the class of `T1` only) the transitivity clause fails here. -/
theorem union_rinv {st st' : St} {T1 T2 : Ty} (h : union st T1 T2 = .ok st') (ri : RInv st) : RInv st' := by
  obtain ⟨huf, -, -, -⟩ := union_uf h
  obtain ⟨hr, hoc⟩ := union_reach h
  have hm := mem_rset_union h ri.rlen
  -- the new reach set is closed under `rset`
  have hclosed : ∀ j ∈ newReach st T2, ∀ i ∈ rset st j, i ∈ newReach st T2 := by
    intro j hj i hi
    rw [mem_newReach] at hj ⊢
    obtain ⟨j0, hj0, hj⟩ := hj
    refine ⟨j0, hj0, Or.inr ?_⟩
    rcases hj with rfl | hj
    · exact hi
    · exact ri.trans j0 j hj i hi
  -- whoever reaches a touched variable is touched
  have htouch : ∀ k j, j ∈ rset st k → touched st T1 j → touched st T1 k := by
    intro k j hj ht
    rcases ht with ht | ⟨m, hm1, hm2⟩
    · exact Or.inr ⟨j, hj, ht⟩
    · exact Or.inr ⟨m, ri.trans k j hj m hm1, hm2⟩
  refine ⟨?_, ?_, ?_, ?_⟩
  · rw [hr, huf]; simp [ri.rlen]
  · intro k U' hU' hne j hj
    rw [hm]
    rw [huf] at hU'
    simp only [List.getElem?_map, Option.map_eq_some_iff] at hU'
    obtain ⟨U, hU, hUU⟩ := hU'
    by_cases hc : U = T1
    · simp only [hc, if_true] at hUU
      subst hUU
      refine Or.inr ⟨Or.inl (by rw [hU, hc]), ?_⟩
      rw [mem_newReach]
      exact ⟨j, hj, Or.inl rfl⟩
    · simp only [hc, if_false] at hUU
      subst hUU
      exact Or.inl (ri.edge k U hU hne j hj)
  · intro k hk
    rw [hm] at hk
    rcases hk with hk | ⟨ht, hk⟩
    · exact ri.irrefl k hk
    · rcases ht with ht | ⟨m, hm1, hm2⟩
      · exact hoc k hk ht
      · exact hoc m (hclosed k hk m hm1) hm2
  · intro k j hj i hi
    rw [hm] at hj hi ⊢
    rcases hj with hj | ⟨htk, hj⟩
    · rcases hi with hi | ⟨htj, hi⟩
      · exact Or.inl (ri.trans k j hj i hi)
      · exact Or.inr ⟨htouch k j hj htj, hi⟩
    · rcases hi with hi | ⟨_, hi⟩
      · exact Or.inr ⟨htk, hclosed j hj i hi⟩
      · exact Or.inr ⟨htk, hi⟩

theorem rset_newType (st : St) (hl : st.reach.length = st.uf.length) (k : Nat) :
    rset (newType st).2 k = rset st k := by
  simp only [rset, newType, List.getD_eq_getElem?_getD]
  rcases Nat.lt_trichotomy k st.reach.length with h | h | h
  · rw [List.getElem?_append_left h]
  · subst h; simp
  · rw [List.getElem?_eq_none (by simp; omega), List.getElem?_eq_none (by omega)]

theorem newType_rinv {st : St} (ri : RInv st) : RInv (newType st).2 := by
  have hrs := rset_newType st ri.rlen
  refine ⟨by simp [newType, ri.rlen], ?_, ?_, ?_⟩
  · intro k U hU hne j hj
    rw [hrs]
    simp only [newType] at hU
    rcases Nat.lt_trichotomy k st.uf.length with h | h | h
    · rw [List.getElem?_append_left h] at hU
      exact ri.edge k U hU hne j hj
    · subst h
      simp at hU
      exact absurd hU.symm hne
    · rw [List.getElem?_eq_none (by simp; omega)] at hU
      cases hU
  · intro k; rw [hrs]; exact ri.irrefl k
  · intro k j hj i hi
    rw [hrs] at hj hi ⊢
    exact ri.trans k j hj i hi

theorem rinv_empty : RInv St.empty :=
  ⟨rfl, by intro k U h; simp [St.empty] at h, by intro k; simp [rset, St.empty],
   by intro k j h; simp [rset, St.empty] at h⟩

end Holpy.C08
