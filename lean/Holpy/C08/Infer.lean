import Holpy.C08.Loop
import Holpy.C08.Spec
/-
C08 helper lemmas, part 3: the traversal `infer` keeps the state invariant, only refines the
triangular system, and returns a skeleton that is well typed under every solution of the final system.
-/
namespace Holpy.C08

/-- `st'` refines `st` -/
structure Ext (st st' : St) : Prop where
  len : st.uf.length ≤ st'.uf.length
  sol : ∀ τ, Solves τ st'.uf → Solves τ st.uf
  ictx : ∀ n T, st.ictx.lookup n = some T → st'.ictx.lookup n = some T
  isctx : ∀ n T, st.isctx.lookup n = some T → st'.isctx.lookup n = some T

theorem Ext.refl (st : St) : Ext st st := ⟨Nat.le_refl _, fun _ h => h, fun _ _ h => h, fun _ _ h => h⟩

theorem Ext.trans {a b c : St} (h1 : Ext a b) (h2 : Ext b c) : Ext a c :=
  ⟨Nat.le_trans h1.len h2.len, fun τ h => h1.sol τ (h2.sol τ h), fun n T h => h2.ictx n T (h1.ictx n T h),
   fun n T h => h2.isctx n T (h1.isctx n T h)⟩

theorem Ext.of_unifyPost {st st' : St} {A B : Ty} (h : UnifyPost st st' A B) : Ext st st' :=
  ⟨by rw [h.2.1]; exact Nat.le_refl _, fun τ hτ => (h.2.2.2.2 τ hτ).1, fun n T hh => by rw [h.2.2.1]; exact hh,
   fun n T hh => by rw [h.2.2.2.1]; exact hh⟩

/-- the types recorded for variables only mention existing internal variables -/
structure CB (st : St) : Prop where
  ictx : ∀ n T, st.ictx.lookup n = some T → T.Bounded st.n
  isctx : ∀ n T, st.isctx.lookup n = some T → T.Bounded st.n

theorem CB.of_unifyPost {st st' : St} {A B : Ty} (h : UnifyPost st st' A B) (cb : CB st) : CB st' := by
  obtain ⟨-, l, i, is, -⟩ := h
  constructor
  · intro n T hh; rw [i] at hh; show T.Bounded st'.uf.length; rw [l]; exact cb.ictx n T hh
  · intro n T hh; rw [is] at hh; show T.Bounded st'.uf.length; rw [l]; exact cb.isctx n T hh

-- ---------------------------------------------------------------- new_type

theorem getElem?_snoc {l : List Ty} {x U : Ty} {k : Nat} :
    (l ++ [x])[k]? = some U ↔ l[k]? = some U ∨ (k = l.length ∧ U = x) := by
  rcases Nat.lt_trichotomy k l.length with h | h | h
  · rw [List.getElem?_append_left h]
    constructor
    · intro h1; exact Or.inl h1
    · intro h1; rcases h1 with h1 | ⟨h1, -⟩
      · exact h1
      · omega
  · subst h
    rw [List.getElem?_append_right (Nat.le_refl _)]
    simp only [Nat.sub_self, List.getElem?_cons_zero, Option.some.injEq, List.getElem?_eq_none (Nat.le_refl _)]
    constructor
    · intro h1; exact Or.inr (by simp [h1])
    · intro h1; rcases h1 with h1 | h1
      · cases h1
      · simp at h1; exact h1.symm
  · rw [List.getElem?_eq_none (by simp; omega), List.getElem?_eq_none (by omega)]
    constructor
    · intro h1; cases h1
    · intro h1; rcases h1 with h1 | ⟨h1, -⟩
      · cases h1
      · omega

theorem newType_inv {st : St} (inv : Inv st) : Inv (newType st).2 := by
  simp only [newType]
  refine ⟨?_, ?_, by simp [inv.rlen]⟩
  · intro k r hk
    rw [getElem?_snoc] at hk ⊢
    rcases hk with hk | ⟨hk, hr⟩
    · exact Or.inl (inv.flat k r hk)
    · cases hr
      exact Or.inr (by simp)
  · intro k U hk
    rw [getElem?_snoc] at hk
    simp only [List.length_append, List.length_cons, List.length_nil]
    rcases hk with hk | ⟨hk, hr⟩
    · exact (inv.ufb k U hk).mono (by omega)
    · subst hr
      intro j hj
      simp at hj
      subst hj
      show st.uf.length < st.uf.length + 1
      omega

theorem newType_ext (st : St) : Ext st (newType st).2 := by
  simp only [newType]
  refine ⟨by simp, ?_, fun _ _ h => h, fun _ _ h => h⟩
  intro τ hτ k U hU
  apply hτ k U
  rw [getElem?_snoc]
  exact Or.inl hU

theorem newType_cb {st : St} (cb : CB st) : CB (newType st).2 := by
  simp only [newType]
  exact ⟨fun n T h => (cb.ictx n T h).mono (by simp [St.n]), fun n T h => (cb.isctx n T h).mono (by simp [St.n])⟩

theorem newType_fst (st : St) : (newType st).1 = Ty.int st.n := rfl
theorem newType_n (st : St) : (newType st).2.n = st.n + 1 := by simp [newType, St.n]
theorem newType_ictx (st : St) : (newType st).2.ictx = st.ictx := rfl
theorem newType_isctx (st : St) : (newType st).2.isctx = st.isctx := rfl

theorem int_bounded {k n : Nat} (h : k < n) : (Ty.int k).Bounded n := by
  intro j hj; simp at hj; omega

-- ---------------------------------------------------------------- allocFor / instantiation of signature types

theorem allocFor_spec : ∀ (vs : List String) (st : St), Inv st → CB st →
    Inv (allocFor vs st).2 ∧ CB (allocFor vs st).2 ∧ Ext st (allocFor vs st).2 ∧
    (allocFor vs st).2.ictx = st.ictx ∧ (allocFor vs st).2.isctx = st.isctx ∧
    ∀ v T, (allocFor vs st).1.lookup v = some T → T.Bounded (allocFor vs st).2.n := by
  intro vs
  induction vs with
  | nil => intro st inv cb; simp [allocFor]; exact ⟨inv, cb, Ext.refl st⟩
  | cons v vs ih =>
    intro st inv cb
    simp only [allocFor]
    obtain ⟨i2, c2, e2, ic2, isc2, b2⟩ := ih (newType st).2 (newType_inv inv) (newType_cb cb)
    refine ⟨i2, c2, (newType_ext st).trans e2, by rw [ic2, newType_ictx], by rw [isc2, newType_isctx], ?_⟩
    intro w T hw
    simp only [List.lookup_cons] at hw
    split at hw
    · cases hw
      rw [newType_fst]
      apply int_bounded
      have h4 := e2.len
      have h3 : (newType st).2.uf.length = st.uf.length + 1 := by simp [newType]
      show st.uf.length < (allocFor vs (newType st).2).2.uf.length
      omega
    · exact b2 w T hw

theorem inst_bounded {m : List (String × Ty)} {n : Nat} (hm : ∀ v T, m.lookup v = some T → T.Bounded n) :
    ∀ S : Ty, S.hasStvar = false → (S.inst m).Bounded n := by
  intro S
  induction S using Ty.induction with
  | htv v =>
    intro _
    simp only [Ty.inst]
    cases h : m.lookup v with
    | none => intro j hj; simp [Ty.internals] at hj
    | some T => simpa using hm v T h
  | hsv s => intro h; simp [Ty.hasStvar] at h
  | hcon c as ih =>
    intro h
    simp only [Ty.hasStvar, Ty.hasStvarL_eq, List.any_eq_false] at h
    intro j hj
    simp only [Ty.inst, Ty.instL_eq_map, Ty.internals_con, List.mem_flatMap, List.mem_map] at hj
    obtain ⟨_, ⟨a, ha, rfl⟩, hj⟩ := hj
    exact ih a ha (by simpa using h a ha) j hj

theorem lookup_map_snd (m : List (String × Ty)) (v : String) (g : Ty → Ty) :
    (m.map (fun p => (p.1, g p.2))).lookup v = (m.lookup v).map g := by
  induction m with
  | nil => rfl
  | cons p m ih =>
    obtain ⟨pk, pv⟩ := p
    simp only [List.map_cons, List.lookup_cons]
    cases hvp : v == pk with
    | true => simp
    | false => simpa using ih

theorem inst_substI (m : List (String × Ty)) (τ : List Ty) : ∀ S : Ty, S.hasStvar = false →
    (S.inst m).substI τ = S.inst (m.map (fun p => (p.1, p.2.substI τ))) := by
  intro S
  induction S using Ty.induction with
  | htv v =>
    intro _
    simp only [Ty.inst]
    have : (m.map (fun p => (p.1, p.2.substI τ))).lookup v = (m.lookup v).map (Ty.substI τ) :=
      lookup_map_snd m v (Ty.substI τ)
    rw [this]
    cases m.lookup v <;> simp
  | hsv s => intro h; simp [Ty.hasStvar] at h
  | hcon c as ih =>
    intro h
    simp only [Ty.hasStvar, Ty.hasStvarL_eq, List.any_eq_false] at h
    simp only [Ty.inst, Ty.instL_eq_map, Ty.substI_con, List.map_map, Ty.con.injEq, true_and]
    apply List.map_congr_left
    intro a ha
    simpa using ih a ha (by simpa using h a ha)

-- ---------------------------------------------------------------- reserved names, instantiation of `defs` types

@[simp] theorem Ty.hasReservedL_eq (as : List Ty) : Ty.hasReservedL as = as.any Ty.hasReserved := by
  induction as with
  | nil => rfl
  | cons a as ih => simp [Ty.hasReservedL, ih]

@[simp] theorem Ty.instSL_eq_map (m : List (String × Ty)) (as : List Ty) : Ty.instSL m as = as.map (Ty.instS m) := by
  induction as with
  | nil => rfl
  | cons a as ih => simp [Ty.instSL, ih]

/-- a type that passes the `given` check has no internal variable -/
theorem noInt_of_not_reserved : ∀ T : Ty, T.hasReserved = false → T.NoInt := by
  intro T
  induction T using Ty.induction with
  | htv n => intro _; simp [Ty.NoInt, Ty.internals]
  | hsv n =>
    cases n with
    | user s => intro _; simp [Ty.NoInt, Ty.internals]
    | internal k => intro h; simp [Ty.hasReserved] at h
  | hcon c as ih =>
    intro h
    simp only [Ty.hasReserved, Ty.hasReservedL_eq, List.any_eq_false] at h
    simp only [Ty.NoInt, Ty.internals_con, List.flatMap_eq_nil_iff]
    intro a ha
    exact ih a ha (by simpa using h a ha)

theorem instS_bounded {m : List (String × Ty)} {n : Nat} (hm : ∀ v T, m.lookup v = some T → T.Bounded n) :
    ∀ D : Ty, D.NoInt → (D.instS m).Bounded n := by
  intro D
  induction D using Ty.induction with
  | htv v => intro _ j hj; simp [Ty.instS, Ty.internals] at hj
  | hsv s =>
    cases s with
    | internal k => intro h; simp [Ty.NoInt] at h
    | user v =>
      intro _
      simp only [Ty.instS]
      cases h : m.lookup v with
      | none => intro j hj; simp [Ty.internals] at hj
      | some T => simpa using hm v T h
  | hcon c as ih =>
    intro h j hj
    simp only [Ty.NoInt, Ty.internals_con, List.flatMap_eq_nil_iff] at h
    simp only [Ty.instS, Ty.instSL_eq_map, Ty.internals_con, List.mem_flatMap, List.mem_map] at hj
    obtain ⟨_, ⟨a, ha, rfl⟩, hj⟩ := hj
    exact ih a ha (h a ha) j hj

theorem instS_substI (m : List (String × Ty)) (τ : List Ty) : ∀ D : Ty, D.NoInt →
    (D.instS m).substI τ = D.instS (m.map (fun p => (p.1, p.2.substI τ))) := by
  intro D
  induction D using Ty.induction with
  | htv v => intro _; simp [Ty.instS]
  | hsv s =>
    cases s with
    | internal k => intro h; simp [Ty.NoInt] at h
    | user v =>
      intro _
      simp only [Ty.instS]
      rw [lookup_map_snd m v (Ty.substI τ)]
      cases m.lookup v <;> simp
  | hcon c as ih =>
    intro h
    simp only [Ty.NoInt, Ty.internals_con, List.flatMap_eq_nil_iff] at h
    simp only [Ty.instS, Ty.instSL_eq_map, Ty.substI_con, List.map_map, Ty.con.injEq, true_and]
    apply List.map_congr_left
    intro a ha
    simpa using ih a ha (h a ha)

theorem instS_nil : ∀ D : Ty, D.instS [] = D := by
  intro D
  induction D using Ty.induction with
  | htv v => simp [Ty.instS]
  | hsv s => cases s <;> simp [Ty.instS]
  | hcon c as ih =>
    simp only [Ty.instS, Ty.instSL_eq_map, Ty.con.injEq, true_and]
    conv => rhs; rw [← List.map_id as]
    exact List.map_congr_left (fun a ha => by simpa using ih a ha)

-- ---------------------------------------------------------------- syntactic relation skeleton ↦ filled skeleton

/-- what `infer` does to the skeleton, before the final substitution (`ic`, `isc`: final `incr_ctxt`s) -/
inductive Pre (ctx : Ctx) (ic isc : List (String × Ty)) : Skel → Skel → Prop where
  | varAnn (n : String) (A : Ty) : A.NoInt → Pre ctx ic isc (.var n (some A)) (.var n (some A))
  | varDecl (n : String) (T : Ty) : ctx.vars.lookup n = some T → T.NoInt → Pre ctx ic isc (.var n none) (.var n (some T))
  | varInc (n : String) (T : Ty) : ctx.vars.lookup n = none → ic.lookup n = some T →
      Pre ctx ic isc (.var n none) (.var n (some T))
  | svarAnn (n : String) (A : Ty) : A.NoInt → Pre ctx ic isc (.svar n (some A)) (.svar n (some A))
  | svarDecl (n : String) (T : Ty) : ctx.svars.lookup n = some T → T.NoInt → Pre ctx ic isc (.svar n none) (.svar n (some T))
  | svarInc (n : String) (T : Ty) : ctx.svars.lookup n = none → isc.lookup n = some T →
      Pre ctx ic isc (.svar n none) (.svar n (some T))
  | constAnn (n : String) (A : Ty) : A.NoInt → Pre ctx ic isc (.const n (some A)) (.const n (some A))
  | constDef (n : String) (D : Ty) (m : List (String × Ty)) : ctx.sig.lookup n = none → ctx.defs.lookup n = some D →
      D.NoInt → Pre ctx ic isc (.const n none) (.const n (some (D.instS m)))
  | constSig (n : String) (S : Ty) (m : List (String × Ty)) : ctx.sig.lookup n = some S → S.hasStvar = false →
      Pre ctx ic isc (.const n none) (.const n (some (S.inst m)))
  | comb {f f' a a' : Skel} : Pre ctx ic isc f f' → Pre ctx ic isc a a' → Pre ctx ic isc (.comb f a) (.comb f' a')
  | absAnn (x : String) (A : Ty) {b b' : Skel} : A.NoInt → Pre ctx ic isc b b' →
      Pre ctx ic isc (.abs x (some A) b) (.abs x (some A) b')
  | absNew (x : String) (T : Ty) {b b' : Skel} : Pre ctx ic isc b b' →
      Pre ctx ic isc (.abs x none b) (.abs x (some T) b')
  | bound (i : Nat) : Pre ctx ic isc (.bound i) (.bound i)

theorem Pre.mono {ctx : Ctx} {ic isc ic' isc' : List (String × Ty)} {t t' : Skel} (h : Pre ctx ic isc t t')
    (h1 : ∀ n T, ic.lookup n = some T → ic'.lookup n = some T)
    (h2 : ∀ n T, isc.lookup n = some T → isc'.lookup n = some T) : Pre ctx ic' isc' t t' := by
  induction h with
  | varAnn n A h => exact .varAnn n A h
  | varDecl n T h hn => exact .varDecl n T h hn
  | varInc n T h hh => exact .varInc n T h (h1 n T hh)
  | svarAnn n A h => exact .svarAnn n A h
  | svarDecl n T h hn => exact .svarDecl n T h hn
  | svarInc n T h hh => exact .svarInc n T h (h2 n T hh)
  | constAnn n A h => exact .constAnn n A h
  | constDef n D m hs h hn => exact .constDef n D m hs h hn
  | constSig n S m h hs => exact .constSig n S m h hs
  | comb _ _ ih1 ih2 => exact .comb ih1 ih2
  | absAnn x A h _ ih => exact .absAnn x A h ih
  | absNew x T _ ih => exact .absNew x T ih
  | bound i => exact .bound i

/-- every type present and bounded -/
def Skel.BoundedS (n : Nat) : Skel → Prop
  | .svar _ T => ∃ U, T = some U ∧ U.Bounded n
  | .var _ T => ∃ U, T = some U ∧ U.Bounded n
  | .const _ T => ∃ U, T = some U ∧ U.Bounded n
  | .comb f a => f.BoundedS n ∧ a.BoundedS n
  | .abs _ T b => (∃ U, T = some U ∧ U.Bounded n) ∧ b.BoundedS n
  | .bound _ => True

theorem Skel.BoundedS.mono {n m : Nat} (hnm : n ≤ m) : ∀ {t : Skel}, t.BoundedS n → t.BoundedS m := by
  intro t
  induction t with
  | svar x T => intro ⟨U, h1, h2⟩; exact ⟨U, h1, h2.mono hnm⟩
  | var x T => intro ⟨U, h1, h2⟩; exact ⟨U, h1, h2.mono hnm⟩
  | const x T => intro ⟨U, h1, h2⟩; exact ⟨U, h1, h2.mono hnm⟩
  | comb f a ih1 ih2 => intro ⟨h1, h2⟩; exact ⟨ih1 h1, ih2 h2⟩
  | abs x T b ih => intro ⟨⟨U, h1, h2⟩, h3⟩; exact ⟨⟨U, h1, h2.mono hnm⟩, ih h3⟩
  | bound i => intro _; trivial

end Holpy.C08
