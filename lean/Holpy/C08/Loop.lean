import Holpy.C08.Proofs
/-
C08 helper lemmas, part 2: the final substitution loop.
`Unf uf T T'`: `T'` is obtained from `T` by unfolding internal variables along `uf`, each occurrence
any number of times.  Every `tyinst[i]` of the loop is an unfolding of `?'_ti`; an unfolding without
internal variables is unique; hence on exit (no internal variable left) `tyinst` solves `uf`.
-/
namespace Holpy.C08

inductive Unf (uf : List Ty) : Ty → Ty → Prop where
  | refl (T : Ty) : Unf uf T T
  | step (k : Nat) (U T' : Ty) : uf[k]? = some U → Unf uf U T' → Unf uf (Ty.int k) T'
  | con (n : String) (as bs : List Ty) : as.length = bs.length →
      (∀ (i : Nat) (h1 : i < as.length) (h2 : i < bs.length), Unf uf as[i] bs[i]) →
      Unf uf (.con n as) (.con n bs)

theorem noInt_con_get {n : String} {as : List Ty} (h : (Ty.con n as).NoInt) (i : Nat) (hi : i < as.length) :
    (as[i]).NoInt := by
  simp only [Ty.NoInt, Ty.internals_con, List.flatMap_eq_nil_iff] at h
  exact h _ (List.getElem_mem hi)

/-- a type without internal variables only unfolds to itself -/
theorem Unf.of_noInt {uf : List Ty} {T T' : Ty} (h : Unf uf T T') : T.NoInt → T' = T := by
  induction h with
  | refl T => intro _; rfl
  | step k U T' _ _ _ => intro hn; simp [Ty.NoInt] at hn
  | con n as bs hl _ ih =>
    intro hn
    congr 1
    apply List.ext_getElem hl.symm
    intro i h1 h2
    exact ih i h2 h1 (noInt_con_get hn i h2)

/-- Lemma A: unfoldings without internal variables are unique -/
theorem Unf.unique {uf : List Ty} {T T1 : Ty} (h1 : Unf uf T T1) :
    ∀ T2, T1.NoInt → Unf uf T T2 → T2.NoInt → T1 = T2 := by
  induction h1 with
  | refl T => intro T2 hn h2 _; exact (h2.of_noInt hn).symm
  | step k U T' hk _ ih =>
    intro T2 hn h2 hn2
    cases h2 with
    | refl => simp [Ty.NoInt] at hn2
    | step _ U2 _ hk2 h2' =>
      rw [hk] at hk2
      cases hk2
      exact ih T2 hn h2' hn2
  | con n as bs hl hall ih =>
    intro T2 hn h2 hn2
    cases h2 with
    | refl =>
      -- T2 = con n as has no internal variables, so bs = as
      have : Unf uf (.con n as) (.con n bs) := Unf.con n as bs hl hall
      exact this.of_noInt hn2
    | con _ _ cs hl2 hall2 =>
      congr 1
      apply List.ext_getElem (by omega)
      intro i h1 h2
      have hi : i < as.length := by omega
      exact ih i hi h1 _ (noInt_con_get hn i h1) (hall2 i hi h2) (noInt_con_get hn2 i h2)

/-- every type unfolds to its image under a substitution made of unfoldings -/
theorem Unf.substI_self {uf τ : List Ty} (hτ : ∀ j : Nat, Unf uf (Ty.int j) (τ.getD j (Ty.int j))) :
    ∀ T : Ty, Unf uf T (T.substI τ) := by
  intro T
  induction T using Ty.induction with
  | htv n => simp; exact Unf.refl _
  | hsv n =>
    cases n with
    | user s => simp; exact Unf.refl _
    | internal k => simpa using hτ k
  | hcon n as ih =>
    simp only [Ty.substI_con]
    apply Unf.con n as _ (by simp)
    intro i h1 h2
    simp only [List.getElem_map]
    exact ih _ (List.getElem_mem h1)

/-- Lemma B: unfoldings are closed under substituting unfoldings -/
theorem Unf.substI {uf τ : List Ty} (hτ : ∀ j : Nat, Unf uf (Ty.int j) (τ.getD j (Ty.int j)))
    {T T1 : Ty} (h : Unf uf T T1) : Unf uf T (T1.substI τ) := by
  induction h with
  | refl T => exact Unf.substI_self hτ T
  | step k U T' hk _ ih => exact Unf.step k U _ hk ih
  | con n as bs hl _ ih =>
    simp only [Ty.substI_con]
    apply Unf.con n as _ (by simpa using hl)
    intro i h1 h2
    simp only [List.getElem_map]
    exact ih i h1 (by simpa using h2)

/-- invariant of the final loop: `tyinst[i]` is an unfolding of `?'_ti` -/
def LoopInv (uf τ : List Ty) : Prop :=
  τ.length = uf.length ∧ ∀ j : Nat, Unf uf (Ty.int j) (τ.getD j (Ty.int j))

theorem LoopInv.init (uf : List Ty) : LoopInv uf uf := by
  refine ⟨rfl, fun j => ?_⟩
  cases h : uf[j]? with
  | none => simp [List.getD, h]; exact Unf.refl _
  | some U => simp [List.getD, h]; exact Unf.step j U U h (Unf.refl _)

theorem LoopInv.set {uf τ : List Ty} (h : LoopInv uf τ) (i : Nat) :
    LoopInv uf (τ.set i ((τ.getD i (Ty.int i)).substI τ)) := by
  refine ⟨by simp [h.1], fun j => ?_⟩
  by_cases hij : i = j
  · subst hij
    by_cases hi : i < τ.length
    · simp [List.getD, hi]
      have := Unf.substI h.2 (h.2 i)
      simpa [List.getD, hi] using this
    · have := h.2 i
      simpa [List.getD, hi] using this
  · have := h.2 j
    simpa [List.getD, List.getElem?_set, hij] using this

theorem pass_inv {uf : List Ty} (unspec : List Nat) : ∀ (m i : Nat) (τ : List Ty) (ch : Bool),
    LoopInv uf τ → LoopInv uf (pass unspec m i τ ch).1 := by
  intro m
  induction m with
  | zero => intro i τ ch h; simpa [pass] using h
  | succ m ih =>
    intro i τ ch h
    simp only [pass]
    split
    · exact ih _ _ _ (h.set i)
    · exact ih _ _ _ h

/-- a sweep that reports "nothing replaced" changed nothing and found every entry settled -/
theorem pass_false (unspec : List Nat) : ∀ (m i : Nat) (τ : List Ty) (ch : Bool),
    (pass unspec m i τ ch).2 = false →
    ch = false ∧ (pass unspec m i τ ch).1 = τ ∧
    ∀ j, i ≤ j → j < i + m → (τ.getD j (Ty.int j)).internals.any (fun v => !unspec.contains v) = false := by
  intro m
  induction m with
  | zero => intro i τ ch h; simp [pass] at h ⊢; exact ⟨h, fun j h1 h2 => by omega⟩
  | succ m ih =>
    intro i τ ch h
    simp only [pass] at h ⊢
    split at h
    · rename_i hc
      have := (ih _ _ _ h).1
      cases this
    · rename_i hc
      simp only [hc]
      obtain ⟨h1, h2, h3⟩ := ih _ _ _ h
      refine ⟨h1, by simpa using h2, fun j hj1 hj2 => ?_⟩
      by_cases hji : j = i
      · subst hji; simpa using hc
      · exact h3 j (by omega) (by omega)

theorem finalLoop_inv {uf : List Ty} (unspec : List Nat) : ∀ (fuel : Nat) (τ τ' : List Ty),
    finalLoop unspec fuel τ = .ok τ' → LoopInv uf τ →
    LoopInv uf τ' ∧ ∀ j, j < τ'.length → (τ'.getD j (Ty.int j)).internals.any (fun v => !unspec.contains v) = false := by
  intro fuel
  induction fuel with
  | zero => intro τ τ' h; simp [finalLoop] at h
  | succ f ih =>
    intro τ τ' h hinv
    simp only [finalLoop] at h
    cases hp : pass unspec τ.length 0 τ false with
    | mk τ1 ch =>
      simp only [hp] at h
      have hinv1 : LoopInv uf τ1 := by
        have := pass_inv (uf := uf) unspec τ.length 0 τ false hinv
        rwa [hp] at this
      cases ch with
      | true => simp at h; exact ih τ1 τ' h hinv1
      | false =>
        simp at h
        cases h
        have := pass_false unspec τ.length 0 τ false (by rw [hp])
        rw [hp] at this
        obtain ⟨-, h2, h3⟩ := this
        simp only at h2
        subst h2
        exact ⟨hinv1, fun j hj => h3 j (by omega) (by omega)⟩

/-- When the loop exits with every entry free of internal variables, the result solves `uf`. -/
theorem loop_solves {uf τ : List Ty} (hb : UfBounded uf) (hinv : LoopInv uf τ)
    (hno : ∀ j, j < τ.length → (τ.getD j (Ty.int j)).NoInt) : Solves τ uf := by
  intro k U hU
  have hk : k < uf.length := by
    rcases Nat.lt_or_ge k uf.length with h | h
    · exact h
    · simp [List.getElem?_eq_none h] at hU
  have hUn : (U.substI τ).NoInt := by
    apply Ty.noInt_substI
    intro j hj
    exact hno j (by rw [hinv.1]; exact hb k U hU j hj)
  have h1 : Unf uf (Ty.int k) (U.substI τ) := Unf.step k U _ hU (Unf.substI_self hinv.2 U)
  exact Unf.unique (hinv.2 k) _ (hno k (by rw [hinv.1]; exact hk)) h1 hUn

end Holpy.C08
