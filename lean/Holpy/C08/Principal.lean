import Holpy.C08.InferComplete2
import Holpy.C08.Recovery
/-
C08 helper lemmas, part 20: completeness and principality of `type_infer` as a whole.
-/
namespace Holpy.C08

/-- unfolding along `uf` does not change the image under a solution of `uf` -/
theorem Unf.substI_eq {uf σ : List Ty} (hσ : Solves σ uf) {X Y : Ty} (h : Unf uf X Y) : X.substI σ = Y.substI σ := by
  induction h with
  | refl T => rfl
  | step k U T' hk _ ih => rw [← ih]; simpa using hσ k U hk
  | con n as bs hl _ ih =>
    simp only [Ty.substI_con, Ty.con.injEq, true_and]
    apply List.ext_getElem (by simpa using hl)
    intro i h1 h2
    simp only [List.getElem_map]
    exact ih i (by simpa using h1) (by simpa using h2)

/-- substituting τ and then σ is substituting σ when σ absorbs τ -/
theorem Ty.substI_substI {τ σ : List Ty} (h : ∀ i : Nat, (τ.getD i (Ty.int i)).substI σ = σ.getD i (Ty.int i)) :
    ∀ T : Ty, (T.substI τ).substI σ = T.substI σ := by
  intro T
  induction T using Ty.induction with
  | htv n => simp
  | hsv n =>
    cases n with
    | user s => simp
    | internal k => simpa using h k
  | hcon n as ih =>
    simp only [Ty.substI_con, List.map_map, Ty.con.injEq, true_and]
    exact List.map_congr_left (fun a ha => by simpa using ih a ha)

theorem Skel.substI_substI {τ σ : List Ty} (h : ∀ i : Nat, (τ.getD i (Ty.int i)).substI σ = σ.getD i (Ty.int i)) :
    ∀ t : Skel, (t.substI τ).substI σ = t.substI σ := by
  intro t
  induction t with
  | svar n T => cases T <;> simp [Skel.substI, Ty.substI_substI h]
  | var n T => cases T <;> simp [Skel.substI, Ty.substI_substI h]
  | const n T => cases T <;> simp [Skel.substI, Ty.substI_substI h]
  | comb f a ih1 ih2 => simp [Skel.substI, ih1, ih2]
  | abs x T b ih => cases T <;> simp [Skel.substI, Ty.substI_substI h, ih]
  | bound i => rfl

theorem Skel.substI_fullyTyped (ρ : List Ty) : ∀ {r : Skel}, r.FullyTyped → r.substI ρ = r := by
  intro r
  induction r with
  | svar n T => intro ⟨U, h1, h2⟩; subst h1; simp [Skel.substI, Ty.substI_of_noInt ρ U h2]
  | var n T => intro ⟨U, h1, h2⟩; subst h1; simp [Skel.substI, Ty.substI_of_noInt ρ U h2]
  | const n T => intro ⟨U, h1, h2⟩; subst h1; simp [Skel.substI, Ty.substI_of_noInt ρ U h2]
  | comb f a ih1 ih2 => intro ⟨h1, h2⟩; simp [Skel.substI, ih1 h1, ih2 h2]
  | abs x T b ih => intro ⟨⟨U, h1, h2⟩, h3⟩; subst h1; simp [Skel.substI, Ty.substI_of_noInt ρ U h2, ih h3]
  | bound i => intro _; rfl

theorem finalLoop_err {unspec : List Nat} : ∀ (fuel : Nat) (τ : List Ty) (e : Err),
    finalLoop unspec fuel τ = .error e → e = .fuel := by
  intro fuel
  induction fuel with
  | zero => intro τ e h; simp [finalLoop] at h; exact h.symm
  | succ f ih =>
    intro τ e h
    simp only [finalLoop] at h
    split at h
    · exact ih _ e h
    · cases h

theorem wok_empty (vt svt : String → Ty) : WOK vt svt [] St.empty :=
  ⟨rfl, by intro k U h; simp [St.empty] at h, by intro n T h; simp [St.empty] at h, by intro n T h; simp [St.empty] at h⟩

/-- `type_infer` on a skeleton that has a completion `u`: out of fuel, "unspecified type", or a term of which
`u` is a substitution instance -/
theorem typeInfer_complete {ctx : Ctx} (hc : ctx.Clean) {vt svt : String → Ty} {t t0 u : Skel} {U : Ty}
    (h0 : applyDefs ctx t = .ok t0) (hcompl : Compl ctx vt svt t0 u) (hann : t0.AnnNoReserved)
    (hU : checkedGetType2 u [] = some U) (fuel : Nat) (forbid : Bool) :
    typeInfer ctx fuel forbid t = .error .fuel ∨ typeInfer ctx fuel forbid t = .error .unspecified ∨
    ∃ r ρ, typeInfer ctx fuel forbid t = .ok r ∧ r.substI ρ = u := by
  simp only [typeInfer, h0]
  rcases infer_complete_aux ctx hc vt svt fuel t0 u hcompl [] St.empty [] U good_empty cb_empty
      (by intro B hB; cases hB) (wok_empty vt svt) hann (by simpa using hU) with hf | ⟨t', T, st, ρ, hi, w, h1, -⟩
  · rw [hf]; exact Or.inl rfl
  · rw [hi]
    simp only [finish]
    split
    · exact Or.inr (Or.inl rfl)
    · cases hl : finalLoop (unspecOf st.uf) fuel st.uf with
      | error e =>
        have := finalLoop_err fuel st.uf e hl
        subst this
        exact Or.inl rfl
      | ok τ =>
        simp only
        refine Or.inr (Or.inr ⟨_, [] ++ ρ, rfl, ?_⟩)
        obtain ⟨linv, -⟩ := finalLoop_inv (uf := st.uf) (unspecOf st.uf) fuel st.uf τ hl (LoopInv.init st.uf)
        rw [Skel.substI_substI (fun i => ((linv.2 i).substI_eq w.sol).symm ▸ by simp)]
        exact h1

-- ---------------------------------------------------------------- the result is itself a completion

/-- the filled skeleton after the final substitution is a completion of the input skeleton -/
theorem Pre.compl {ctx : Ctx} {ic isc : List (String × Ty)} (τ : List Ty) {t t' : Skel} (h : Pre ctx ic isc t t') :
    Compl ctx (fun n => ((ic.lookup n).getD default).substI τ) (fun n => ((isc.lookup n).getD default).substI τ)
      t (t'.substI τ) := by
  induction h with
  | varAnn n A hA =>
    simp only [Skel.substI, Option.map_some, Ty.substI_of_noInt τ A hA]
    exact .varAnn n A
  | varDecl n T hd hT =>
    simp only [Skel.substI, Option.map_some, Ty.substI_of_noInt τ T hT]
    exact .varDecl n T hd
  | varInc n T hd hi =>
    simp only [Skel.substI, Option.map_some]
    have := Compl.varFree (ctx := ctx) (vt := fun n => ((ic.lookup n).getD default).substI τ)
      (svt := fun n => ((isc.lookup n).getD default).substI τ) n hd
    simpa [hi] using this
  | svarAnn n A hA =>
    simp only [Skel.substI, Option.map_some, Ty.substI_of_noInt τ A hA]
    exact .svarAnn n A
  | svarDecl n T hd hT =>
    simp only [Skel.substI, Option.map_some, Ty.substI_of_noInt τ T hT]
    exact .svarDecl n T hd
  | svarInc n T hd hi =>
    simp only [Skel.substI, Option.map_some]
    have := Compl.svarFree (ctx := ctx) (vt := fun n => ((ic.lookup n).getD default).substI τ)
      (svt := fun n => ((isc.lookup n).getD default).substI τ) n hd
    simpa [hi] using this
  | constAnn n A hA =>
    simp only [Skel.substI, Option.map_some, Ty.substI_of_noInt τ A hA]
    exact .constAnn n A
  | constSig n S m hs hst =>
    simp only [Skel.substI, Option.map_some, inst_substI m τ S hst]
    exact .constSig n S _ hs
  | constDef n D m hs hd hD =>
    simp only [Skel.substI, Option.map_some, instS_substI m τ D hD]
    exact .constDef n D _ hs hd
  | comb _ _ ih1 ih2 => exact .comb ih1 ih2
  | absAnn x A hA _ ih =>
    simp only [Skel.substI, Option.map_some, Ty.substI_of_noInt τ A hA]
    exact .absAnn x A ih
  | absNew x T _ ih => exact .absNew x _ ih
  | bound i => exact .bound i

/-- the result of `type_infer` is a completion of the skeleton (after the `defs` step) -/
theorem typeInfer_result_compl {ctx : Ctx} {fuel : Nat} {forbid : Bool} {t t0 r : Skel}
    (h0 : applyDefs ctx t = .ok t0) (h : typeInfer ctx fuel forbid t = .ok r) : ∃ vt svt, Compl ctx vt svt t0 r := by
  simp only [typeInfer, h0] at h
  cases hi : infer ctx fuel t0 [] St.empty with
  | error e => simp [hi] at h
  | ok res =>
    obtain ⟨t', T, st⟩ := res
    simp only [hi, finish] at h
    have post := infer_spec ctx fuel t0 [] St.empty t' T st hi inv_empty cb_empty (by intro B hB; cases hB)
    split at h
    · cases h
    · cases hl : finalLoop (unspecOf st.uf) fuel st.uf with
      | error e => simp [hl] at h
      | ok τ =>
        simp only [hl, Except.ok.injEq] at h
        subst h
        exact ⟨_, _, post.pre.compl τ⟩

-- ---------------------------------------------------------------- erasures are completions

theorem Erases.compl {ctx : Ctx} {t u : Skel} (vt svt : String → Ty) (h : Erases ctx t u) : Compl ctx vt svt t u := by
  induction h with
  | varKeep n A => exact .varAnn n A
  | varDrop n A hd => exact .varDecl n A hd
  | svarKeep n A => exact .svarAnn n A
  | svarDrop n A hd => exact .svarDecl n A hd
  | constKeep n A => exact .constAnn n A
  | constDrop n S m hs => exact .constSig n S m hs
  | comb _ _ ih1 ih2 => exact .comb ih1 ih2
  | absKeep x A _ ih => exact .absAnn x A ih
  | absDrop x A _ ih => exact .absNew x A ih
  | bound i => exact .bound i

theorem Erases.annNoReserved {ctx : Ctx} {t u : Skel} (h : Erases ctx t u) : u.NoReserved → t.AnnNoReserved := by
  induction h with
  | varKeep n A => intro hu; exact hu
  | varDrop n A hd => intro _ U hh; cases hh
  | svarKeep n A => intro hu; exact hu
  | svarDrop n A hd => intro _ U hh; cases hh
  | constKeep n A => intro hu; exact hu
  | constDrop n S m hs => intro _ U hh; cases hh
  | comb _ _ ih1 ih2 => intro hu; exact ⟨ih1 hu.1, ih2 hu.2⟩
  | absKeep x A _ ih => intro hu; exact ⟨hu.1, ih hu.2⟩
  | absDrop x A _ ih => intro hu; exact ⟨(by intro U hh; cases hh), ih hu.2⟩
  | bound i => intro _; trivial

theorem applyDefs_nodefs {ctx : Ctx} (hd : ctx.defs = []) (t : Skel) : applyDefs ctx t = .ok t := by
  simp [applyDefs, hd]

-- material for the non-vacuity examples in Props3.lean
namespace Ex3
def bool : Ty := .con "bool" []
def nat : Ty := .con "nat" []
def eqT (T : Ty) : Ty := tfun T (tfun T bool)
def ctx : Ctx :=
  ⟨[("a", nat)], [],
   [("equals", tfun (.tvar "a") (tfun (.tvar "a") bool)), ("zero", .tvar "a"), ("nil", .con "list" [.tvar "a"])], []⟩
theorem ctx_clean : ctx.Clean := by
  refine ⟨?_, ?_, ?_, ?_⟩
  · intro n T h
    simp only [ctx, List.lookup_cons, List.lookup_nil] at h
    split at h
    · cases h; rfl
    · cases h
  · intro n T h; simp [ctx] at h
  · intro n T h; simp [ctx] at h
  · intro n S h
    simp only [ctx, List.lookup_cons, List.lookup_nil] at h
    repeat' split at h
    all_goals first | (cases h; rfl) | cases h
/-- `f a = 0` : everything erased, `a :: nat` declared, `f` not -/
def skel : Skel := .comb (.comb (.const "equals" none) (.comb (.var "f" none) (.var "a" none))) (.const "zero" none)
/-- one completion: `f :: nat => bool` -/
def compl1 : Skel :=
  .comb (.comb (.const "equals" (some (eqT bool))) (.comb (.var "f" (some (tfun nat bool))) (.var "a" (some nat))))
    (.const "zero" (some bool))
theorem compl1_ok : Compl ctx (fun _ => tfun nat bool) (fun _ => bool) skel compl1 := by
  refine .comb (.comb ?_ (.comb (.varFree "f" (by decide +kernel)) (.varDecl "a" nat (by decide +kernel)))) ?_
  · exact .constSig "equals" (tfun (.tvar "a") (tfun (.tvar "a") bool)) [("a", bool)] (by decide +kernel)
  · exact .constSig "zero" (.tvar "a") [("a", bool)] (by decide +kernel)
/-- the erasure `a = 0` of `(a::nat) = (0::nat)` -/
def skel2 : Skel := .comb (.comb (.const "equals" none) (.var "a" none)) (.const "zero" none)
def orig2 : Skel := .comb (.comb (.const "equals" (some (eqT nat))) (.var "a" (some nat))) (.const "zero" (some nat))
theorem erases2 : Erases ctx skel2 orig2 := by
  refine .comb (.comb ?_ (.varDrop "a" nat (by decide +kernel))) ?_
  · exact .constDrop "equals" (tfun (.tvar "a") (tfun (.tvar "a") bool)) [("a", nat)] (by decide +kernel)
  · exact .constDrop "zero" (.tvar "a") [("a", nat)] (by decide +kernel)
/-- the erasure `nil = nil` of `(nil::nat list) = nil` is under-determined -/
def skel3 : Skel := .comb (.comb (.const "equals" none) (.const "nil" none)) (.const "nil" none)
def orig3 : Skel :=
  .comb (.comb (.const "equals" (some (eqT (.con "list" [nat])))) (.const "nil" (some (.con "list" [nat]))))
    (.const "nil" (some (.con "list" [nat])))
theorem erases3 : Erases ctx skel3 orig3 := by
  refine .comb (.comb ?_ ?_) ?_
  · exact .constDrop "equals" (tfun (.tvar "a") (tfun (.tvar "a") bool)) [("a", .con "list" [nat])] (by decide +kernel)
  · exact .constDrop "nil" (.con "list" [.tvar "a"]) [("a", nat)] (by decide +kernel)
  · exact .constDrop "nil" (.con "list" [.tvar "a"]) [("a", nat)] (by decide +kernel)
end Ex3

end Holpy.C08
