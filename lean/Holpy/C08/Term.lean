import Holpy.C08.Reach
/-
C08 helper lemmas, part 8: the final substitution loop terminates when `reach` over-approximates
reachability in `uf` (`RInv`).  `RInv` yields a ranking of the internal variables (size of the
reach set) that strictly decreases along `uf`; every sweep lowers, by at least one, the largest
rank of a specified internal variable still occurring in any `tyinst[i]`.
-/
namespace Holpy.C08

-- ---------------------------------------------------------------- ranking from the reach sets

def dd : List Nat → List Nat
  | [] => []
  | a :: l => if a ∈ dd l then dd l else a :: dd l

theorem mem_dd' : ∀ (l : List Nat) (a : Nat), a ∈ dd l ↔ a ∈ l := by
  intro l
  induction l with
  | nil => intro a; simp [dd]
  | cons b l ih =>
    intro a
    simp only [dd]
    split
    · rename_i hb
      rw [ih] at hb ⊢
      constructor
      · intro h; exact List.mem_cons_of_mem _ h
      · intro h
        rcases List.mem_cons.1 h with rfl | h
        · exact hb
        · exact h
    · simp [ih]

theorem mem_dd {a : Nat} {l : List Nat} : a ∈ dd l ↔ a ∈ l := mem_dd' l a

theorem nodup_dd : ∀ l : List Nat, (dd l).Nodup := by
  intro l
  induction l with
  | nil => simp [dd]
  | cons b l ih =>
    simp only [dd]
    split
    · exact ih
    · rename_i hb
      exact List.nodup_cons.2 ⟨hb, ih⟩

theorem dd_length_lt {a b : List Nat} {j : Nat} (hsub : ∀ x ∈ a, x ∈ b) (hj : j ∈ b) (hja : j ∉ a) :
    (dd a).length < (dd b).length := by
  have hn : (j :: dd a).Nodup := List.nodup_cons.2 ⟨by rw [mem_dd]; exact hja, nodup_dd a⟩
  have hs : (j :: dd a) ⊆ dd b := by
    intro x hx
    rw [mem_dd]
    rcases List.mem_cons.1 hx with rfl | hx
    · exact hj
    · exact hsub x (mem_dd.1 hx)
  have := hn.length_le_of_subset hs
  simp only [List.length_cons] at this
  omega

/-- the rank of an internal variable: the number of distinct members of its reach set -/
def rk (st : St) (k : Nat) : Nat := (dd (rset st k)).length

theorem rk_lt {st : St} (ri : RInv st) {k j : Nat} (h : j ∈ rset st k) : rk st j < rk st k :=
  dd_length_lt (fun x hx => ri.trans k j h x hx) h (ri.irrefl j)

-- ---------------------------------------------------------------- specified variables

theorem mem_unspecOf {uf : List Ty} {v : Nat} : v ∈ unspecOf uf ↔ v < uf.length ∧ uf[v]? = some (Ty.int v) := by
  simp [unspecOf]

/-- `v.name not in unspecified` -/
def sp (uf : List Ty) (v : Nat) : Bool := !(unspecOf uf).contains v

theorem sp_false {uf : List Ty} {v : Nat} : sp uf v = false ↔ v < uf.length ∧ uf[v]? = some (Ty.int v) := by
  simp [sp, mem_unspecOf]

theorem internals_substI (τ : List Ty) : ∀ (T : Ty) (v' : Nat), v' ∈ (T.substI τ).internals →
    ∃ v ∈ T.internals, v' ∈ (τ.getD v (Ty.int v)).internals := by
  intro T
  induction T using Ty.induction with
  | htv n => intro v' h; simp [Ty.internals] at h
  | hsv n =>
    cases n with
    | user s => intro v' h; simp [Ty.internals] at h
    | internal k => intro v' h; exact ⟨k, by simp, by simpa using h⟩
  | hcon n as ih =>
    intro v' h
    simp only [Ty.substI_con, Ty.internals_con, List.mem_flatMap, List.mem_map] at h
    obtain ⟨_, ⟨a, ha, rfl⟩, h⟩ := h
    obtain ⟨v, hv, hv'⟩ := ih a ha v' h
    exact ⟨v, by simp only [Ty.internals_con, List.mem_flatMap]; exact ⟨a, ha, hv⟩, hv'⟩

-- ---------------------------------------------------------------- one sweep

/-- invariant of the sweeps (`n = uf.length`, `r` the ranking) -/
structure TInv (uf : List Ty) (r : Nat → Nat) (τ : List Ty) : Prop where
  len : τ.length = uf.length
  bnd : ∀ i, i < uf.length → (τ.getD i (Ty.int i)).Bounded uf.length
  fix : ∀ v, v < uf.length → sp uf v = false → τ.getD v (Ty.int v) = Ty.int v
  dec : ∀ i, i < uf.length → ∀ v ∈ (τ.getD i (Ty.int i)).internals, sp uf v = true → r v < r i

/-- every specified internal variable occurring in `tyinst[i]` has rank `< d` -/
def Bnd (uf : List Ty) (r : Nat → Nat) (τ : List Ty) (i d : Nat) : Prop :=
  ∀ v ∈ (τ.getD i (Ty.int i)).internals, sp uf v = true → r v + 1 ≤ d

theorem getD_set_self {τ : List Ty} {i : Nat} {x d : Ty} (h : i < τ.length) : (τ.set i x).getD i d = x := by
  simp [List.getD, h]

theorem getD_set_ne {τ : List Ty} {i j : Nat} {x d : Ty} (h : i ≠ j) : (τ.set i x).getD j d = τ.getD j d := by
  simp [List.getD, h]

theorem TInv.update {uf : List Ty} {r : Nat → Nat} {τ : List Ty} (h : TInv uf r τ) {i : Nat} (hi : i < uf.length)
    {d : Nat} (hb : Bnd uf r τ i (d + 1)) :
    TInv uf r (τ.set i ((τ.getD i (Ty.int i)).substI τ)) ∧
    Bnd uf r (τ.set i ((τ.getD i (Ty.int i)).substI τ)) i d := by
  have hiτ : i < τ.length := by rw [h.len]; exact hi
  -- the specified variables of the new entry come from entries of strictly smaller rank
  have key : ∀ v' ∈ ((τ.getD i (Ty.int i)).substI τ).internals, sp uf v' = true →
      ∃ v ∈ (τ.getD i (Ty.int i)).internals, sp uf v = true ∧ r v' < r v := by
    intro v' hv' hsp
    obtain ⟨v, hv, hvv⟩ := internals_substI τ _ v' hv'
    have hvn : v < uf.length := h.bnd i hi v hv
    cases hs : sp uf v with
    | false =>
      rw [h.fix v hvn hs] at hvv
      simp at hvv
      subst hvv
      rw [hs] at hsp; cases hsp
    | true => exact ⟨v, hv, hs, h.dec v hvn v' hvv hsp⟩
  refine ⟨⟨by simp [h.len], ?_, ?_, ?_⟩, ?_⟩
  · intro j hj
    by_cases hij : i = j
    · subst hij
      rw [getD_set_self hiτ]
      intro v' hv'
      obtain ⟨v, hv, hvv⟩ := internals_substI τ _ v' hv'
      exact h.bnd v (h.bnd i hi v hv) v' hvv
    · rw [getD_set_ne hij]; exact h.bnd j hj
  · intro v hv hs
    by_cases hiv : i = v
    · subst hiv
      rw [getD_set_self hiτ, h.fix i hv hs]
      simp [List.getD, hiτ]
      have := h.fix i hv hs
      simpa [List.getD, hiτ] using this
    · rw [getD_set_ne hiv]; exact h.fix v hv hs
  · intro j hj v' hv' hsp
    by_cases hij : i = j
    · subst hij
      rw [getD_set_self hiτ] at hv'
      obtain ⟨v, hv, hsv, hlt⟩ := key v' hv' hsp
      exact Nat.lt_trans hlt (h.dec i hi v hv hsv)
    · rw [getD_set_ne hij] at hv'; exact h.dec j hj v' hv' hsp
  · intro v' hv' hsp
    rw [getD_set_self hiτ] at hv'
    obtain ⟨v, hv, hsv, hlt⟩ := key v' hv' hsp
    have := hb v hv hsv
    omega

theorem Bnd.of_set_ne {uf : List Ty} {r : Nat → Nat} {τ : List Ty} {i j d : Nat} {x : Ty} (hij : i ≠ j)
    (h : Bnd uf r τ j d) : Bnd uf r (τ.set i x) j d := by
  unfold Bnd; rw [getD_set_ne hij]; exact h

/-- a sweep from position `i`: entries before `i` are already bounded by `d`, the rest by `d + 1` -/
theorem pass_bnd {uf : List Ty} {r : Nat → Nat} {d : Nat} : ∀ (m i : Nat) (τ : List Ty) (ch : Bool),
    i + m = uf.length → TInv uf r τ →
    (∀ j, j < i → Bnd uf r τ j d) → (∀ j, i ≤ j → j < uf.length → Bnd uf r τ j (d + 1)) →
    TInv uf r (pass (unspecOf uf) m i τ ch).1 ∧ ∀ j, j < uf.length → Bnd uf r (pass (unspecOf uf) m i τ ch).1 j d := by
  intro m
  induction m with
  | zero =>
    intro i τ ch him h h1 _
    simp only [pass]
    exact ⟨h, fun j hj => h1 j (by omega)⟩
  | succ m ih =>
    intro i τ ch him h h1 h2
    have hi : i < uf.length := by omega
    simp only [pass]
    split
    · obtain ⟨h', hb'⟩ := h.update hi (h2 i (Nat.le_refl _) hi)
      apply ih (i + 1) _ true (by omega) h'
      · intro j hj
        by_cases hji : j = i
        · subst hji; exact hb'
        · exact (h1 j (by omega)).of_set_ne (Ne.symm hji)
      · intro j hj1 hj2
        exact (h2 j (by omega) hj2).of_set_ne (by omega)
    · rename_i hc
      apply ih (i + 1) τ ch (by omega) h
      · intro j hj
        by_cases hji : j = i
        · subst hji
          intro v hv hsp
          exfalso
          apply hc
          simp only [List.any_eq_true]
          exact ⟨v, hv, hsp⟩
        · exact h1 j (by omega)
      · intro j hj1 hj2
        exact h2 j (by omega) hj2

/-- when no entry contains a specified internal variable, a sweep changes nothing -/
theorem pass_done {uf : List Ty} {r : Nat → Nat} : ∀ (m i : Nat) (τ : List Ty) (ch : Bool),
    i + m = uf.length → τ.length = uf.length → (∀ j, j < uf.length → Bnd uf r τ j 0) →
    pass (unspecOf uf) m i τ ch = (τ, ch) := by
  intro m
  induction m with
  | zero => intro i τ ch _ _ _; simp [pass]
  | succ m ih =>
    intro i τ ch him hl h0
    simp only [pass]
    split
    · rename_i hc
      simp only [List.any_eq_true] at hc
      obtain ⟨v, hv, hsp⟩ := hc
      have := h0 i (by omega) v hv hsp
      omega
    · exact ih (i + 1) τ ch (by omega) hl h0

theorem finalLoop_terminates_aux {uf : List Ty} {r : Nat → Nat} : ∀ (d fuel : Nat) (τ : List Ty),
    d + 1 ≤ fuel → TInv uf r τ → (∀ j, j < uf.length → Bnd uf r τ j d) →
    ∃ τ', finalLoop (unspecOf uf) fuel τ = .ok τ' := by
  intro d
  induction d with
  | zero =>
    intro fuel τ hf h h0
    cases fuel with
    | zero => omega
    | succ f =>
      simp only [finalLoop]
      rw [pass_done (r := r) τ.length 0 τ false (by simp [h.len]) h.len h0]
      exact ⟨τ, by simp⟩
  | succ d ih =>
    intro fuel τ hf h hb
    cases fuel with
    | zero => omega
    | succ f =>
      simp only [finalLoop]
      obtain ⟨h', hb'⟩ := pass_bnd (d := d) τ.length 0 τ false (by simp [h.len]) h
        (fun j hj => by omega) (fun j _ hj => hb j hj)
      cases hp : pass (unspecOf uf) τ.length 0 τ false with
      | mk τ1 ch =>
        rw [hp] at h' hb'
        cases ch with
        | true => simpa using ih f τ1 (by omega) h' hb'
        | false => exact ⟨τ1, by simp⟩

theorem exists_rank_bound (r : Nat → Nat) : ∀ n : Nat, ∃ D, ∀ v, v < n → r v + 1 ≤ D := by
  intro n
  induction n with
  | zero => exact ⟨0, fun v hv => by omega⟩
  | succ n ih =>
    obtain ⟨D, hD⟩ := ih
    refine ⟨max D (r n + 1), fun v hv => ?_⟩
    by_cases hvn : v = n
    · subst hvn; exact Nat.le_max_right _ _
    · exact Nat.le_trans (hD v (by omega)) (Nat.le_max_left _ _)

theorem tinv_init {st : St} (ri : RInv st) (hb : UfBounded st.uf) : TInv st.uf (rk st) st.uf := by
  refine ⟨rfl, ?_, ?_, ?_⟩
  · intro i hi
    have : st.uf[i]? = some st.uf[i] := List.getElem?_eq_getElem hi
    simp only [List.getD, this, Option.getD_some]
    exact hb i _ this
  · intro v hv hs
    rw [sp_false] at hs
    simp [List.getD, hs.2]
  · intro i hi v hv hsp
    have hU : st.uf[i]? = some st.uf[i] := List.getElem?_eq_getElem hi
    simp only [List.getD, hU, Option.getD_some] at hv
    by_cases hne : st.uf[i] = Ty.int i
    · rw [hne] at hv
      simp at hv
      subst hv
      have : sp st.uf v = false := sp_false.2 ⟨hi, by rw [hU, hne]⟩
      rw [this] at hsp; cases hsp
    · exact rk_lt ri (ri.edge i _ hU hne v hv)

/-- Under the reachability invariant the final substitution loop terminates. -/
theorem finalLoop_terminates {st : St} (ri : RInv st) (hb : UfBounded st.uf) :
    ∃ N, ∀ fuel, N ≤ fuel → ∃ τ, finalLoop (unspecOf st.uf) fuel st.uf = .ok τ := by
  obtain ⟨D, hD⟩ := exists_rank_bound (rk st) st.uf.length
  refine ⟨D + 1, fun fuel hf => ?_⟩
  have h := tinv_init ri hb
  apply finalLoop_terminates_aux D fuel st.uf hf h
  intro j hj v hv _
  exact hD v (h.bnd j hj v hv)

end Holpy.C08
